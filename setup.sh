#!/bin/bash
# Builds every check binary once (warms the Go build cache). Offline.
set -u
cd "$(dirname "$0")"
export GOPROXY=off GOFLAGS=-mod=mod
unset GOTOOLCHAIN GOSUMDB 2>/dev/null || true
mkdir -p .build/bin .build/tmp evidence replay
cd harness
rc=0
for d in cmd/*/; do
  id=$(basename "$d")
  RACE=""
  [ -f "$d/RACE" ] && RACE="-race -gcflags=all=-d=checkptr=0"
  go build $RACE -o "../.build/bin/$id" "./$d" || rc=1
done
exit $rc
