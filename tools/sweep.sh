#!/bin/bash
# usage: sweep.sh <tier> <seed> <outdir> [IDs...]  — runs the checks one after another, one log per check
TIER=$1; SEED=$2; OUT=$3; shift 3
IDS="$@"; [ -z "$IDS" ] && IDS="C01 C02 C03 C04 C05 C06 C07 C08 C09 C10 C11 C12 C13 C14 C15 C16 C17 C18 C19 C20"
mkdir -p $OUT
cd /verif
for c in $IDS; do
  VERIF_SEED=$SEED ./check $c $TIER > $OUT/$c-$TIER-$SEED.log 2>&1; rc=$?
  echo "$c rc=$rc $(grep -E 'seed=' $OUT/$c-$TIER-$SEED.log | tail -1)" >> $OUT/summary-$TIER-$SEED.txt
done
echo DONE >> $OUT/summary-$TIER-$SEED.txt
