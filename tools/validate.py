#!/usr/bin/env python3
"""Validate MANIFEST.json and every evidence file against the schemas (python3-vt tools/validate.py)."""
import glob, json, sys
import jsonschema
ok = True
man = json.load(open('/verif/MANIFEST.json'))
jsonschema.validate(man, json.load(open('/root/.vp/MANIFEST.schema.json')))
sch = json.load(open('/root/.vp/EVIDENCE.schema.json'))
lv = {c['property_id']: c['level_claimed']['category'] for c in man['checks']}
for pid in sorted(lv):
    f = '/verif/evidence/%s.json' % pid
    try:
        d = json.load(open(f))
        jsonschema.validate(d, sch)
        assert d['level'] == lv[pid], 'level %s != claimed %s' % (d['level'], lv[pid])
        cov = d['coverage']
        assert cov['evaluations'] >= 1 and cov['distinct_nontrivial'] >= 2, 'too few observations'
        print(pid, 'ok', d.get('tier'), 'seed', d.get('seed'), 'evals', cov['evaluations'], 'nontrivial', cov['distinct_nontrivial'], 'violations', d.get('violations'))
    except Exception as e:
        ok = False
        print(pid, 'PROBLEM', str(e)[:200])
sys.exit(0 if ok else 1)
