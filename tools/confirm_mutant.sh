#!/bin/bash
# usage: confirm_mutant.sh <worktree> <mutant dir name>  — confirms: patch applies, builds, suite passes, demo fails with / passes without.
WT=$1; M=$2; D=$WT/mutants/$M
export GOPROXY=off
cd $WT || exit 9
git checkout -q -- . 
cmd=$(python3 -c "import json;print(json.load(open('$D/meta.json'))['demo_cmd'])")
echo "demo_cmd: $cmd" | cut -c1-300
( eval "$cmd" ) > $D/demo_clean.log 2>&1; rc_clean=$?
git apply $D/patch.diff || { echo "PATCH-FAILS"; exit 9; }
go build ./... > $D/build.log 2>&1; rc_build=$?
go test -vet=off -count=1 ./... > $D/suite.log 2>&1; rc_suite=$?
( eval "$cmd" ) > $D/demo_mut.log 2>&1; rc_mut=$?
git checkout -q -- .
git status --short | grep -v mutants | head -3
# go-test demo commands often end with a cleanup step, so judge those from the go test output
if echo "$cmd" | grep -q "go test"; then
grep -qE "^(--- )?FAIL|^panic:|timed out" $D/demo_clean.log && rc_clean=1
grep -qE "^(--- )?FAIL|^panic:|timed out" $D/demo_mut.log && rc_mut=1
grep -qE "^ok|^PASS" $D/demo_clean.log || rc_clean=1
fi
echo "clean_demo_rc=$rc_clean build_rc=$rc_build suite_rc=$rc_suite mutant_demo_rc=$rc_mut"
if [ $rc_clean = 0 ] && [ $rc_build = 0 ] && [ $rc_suite = 0 ] && [ $rc_mut != 0 ]; then echo CONFIRMED; else echo NOT-CONFIRMED; fi
