#!/usr/bin/env python3
"""keep_mutant.py <PROP> <worktree> <mdir> <caught: yes|no> <check keys / notes>  — archives a confirmed seeded change under /verif/seeded/."""
import json, os, shutil, sys, glob
prop, wt, m, caught, notes = sys.argv[1:6]
src = os.path.join(wt, "mutants", m)
dst = os.path.join("/verif/seeded", "%s-%s" % (prop, m))
if os.path.exists(dst):
    sys.exit("refusing to overwrite %s: copy the mutant directory to r<round>mK first" % dst)
os.makedirs(dst)
shutil.copy(os.path.join(src, "patch.diff"), dst)
for f in glob.glob(os.path.join(src, "demo*")):
    if not f.endswith(".log"):
        shutil.copy(f, dst)
meta = json.load(open(os.path.join(src, "meta.json")))
meta["breaks_property"] = prop
meta["confirmed"] = "tools/confirm_mutant.sh in scratch worktree %s: patch applies, go build ./... ok, full go test ./... passes, demo fails with the patch and passes without" % wt
meta["check_result"] = {"ran": "tools/try_mutant.sh %s patch.diff (git -C /repo apply; ./check %s quick; git -C /repo checkout -- .)" % (prop, prop), "caught": caught == "yes", "keys_or_notes": notes}
json.dump(meta, open(os.path.join(dst, "meta.json"), "w"), indent=1)
print("kept", dst)
