#!/usr/bin/env python3
"""Emit the data tables of DESIGN.md section 11 (seeded changes, findings) as markdown on stdout."""
import glob, json, os, re, subprocess, sys

V = os.path.dirname(os.path.dirname(os.path.abspath(__file__)))


def clip(s, n):
    s = " ".join(str(s).split())
    return s if len(s) <= n else s[: n - 1] + "…"


def seeded():
    print("| change | what was changed (one line) | caught by | notes |")
    print("|---|---|---|---|")
    for d in sorted(glob.glob(V + "/seeded/*/meta.json")):
        m = json.load(open(d))
        name = os.path.basename(os.path.dirname(d))
        cr = m.get("check_result", {})
        notes = cr.get("keys_or_notes", "")
        caught = "`./check %s`" % name.split("-")[0]
        m2 = re.search(r"(?:caught by|by) \./check (C\d\d)", notes)
        if m2:
            caught = "`./check %s`" % m2.group(1)
        if "thorough" in notes.lower():
            caught += " (thorough)"
        if not cr.get("caught", False):
            caught = "**not caught**"
            if "not a violation" in notes.lower() or "outside" in notes.lower():
                caught = "not caught (outside the statement, see notes)"
        print("| %s | %s | %s | %s |" % (name, clip(m.get("summary", ""), 170).replace("|", "\\|"), caught, clip(notes, 260).replace("|", "\\|")))


def findings_open():
    kf = json.load(open(V + "/known_findings.json"))
    by = {}
    for e in kf:
        by.setdefault((e["property"], e["status"]), []).append(e)
    return _open(by)


def findings():
    kf = json.load(open(V + "/known_findings.json"))
    by = {}
    for e in kf:
        by.setdefault((e["property"], e["status"]), []).append(e)
    _open(by)
    _fixed(by)


def _open(by):
    print("\n**Open findings (suppressed as KNOWN-FINDING, by exact key)**\n")
    print("| property | keys | what |")
    print("|---|---|---|")
    for (p, st), es in sorted(by.items()):
        if st != "open":
            continue
        if p == "C05":
            print("| C05 | %d cell keys (`var:…`, `fn:…`, `op:…`; one per cell) | see harness/cmd/c05/FINDINGS.md: variables and functions the linter accepts in a scope where the simulator does not implement them, type disagreements, `esi`, operator cells |" % len(es))
            continue
        groups = {}
        for e in es:
            groups.setdefault(clip(e["what"], 260), []).append(e["key"])
        for w, ks in groups.items():
            print("| %s | %s | %s |" % (p, "<br>".join("`%s`" % k for k in ks[:8]) + (" …(%d)" % len(ks) if len(ks) > 8 else ""), w.replace("|", "\\|")))


def _fixed(by):
    print("\n**Fixed in falco (entries `fixed: property=<id> <commit> <what failed>`; they suppress nothing)**\n")
    for (p, st), es in sorted(by.items()):
        if st != "fixed":
            continue
        for e in es:
            print("- fixed: property=%s %s %s — key `%s`" % (p, e.get("commit", "?"), clip(e["what"], 230), clip(e["key"], 80)))


def commits():
    out = subprocess.run(["git", "-C", "/repo", "log", "--format=%h %s", "--grep=^fix:"], capture_output=True, text=True).stdout.strip().split("\n")
    print("\n%d `fix:` commits in /repo (newest first):\n" % len(out))
    for l in out:
        print("- `%s` %s" % (l.split()[0], clip(" ".join(l.split()[1:]), 200)))


if __name__ == "__main__":
    what = sys.argv[1] if len(sys.argv) > 1 else "all"
    if what in ("seeded", "all"):
        seeded()
    if what in ("findings", "all"):
        findings()
    if what in ("commits", "all"):
        commits()
