#!/bin/bash
# Builds cmd/falco from the current working tree of the repository into $VERIF/.build/falco
# (or $VERIF_FALCO_BIN when a scratch copy is being checked).
VERIF="${1:-/verif}"
OUT="${VERIF_FALCO_BIN:-$VERIF/.build/falco}"
export GOPROXY=off
unset GOFLAGS GOTOOLCHAIN GOSUMDB 2>/dev/null || true
cd "${VERIF_REPO:-/repo}" && go build -o "$OUT" ./cmd/falco
