#!/bin/bash
# Builds /repo/cmd/falco from the current working tree into $VERIF/.build/falco.
VERIF="${1:-/verif}"
export GOPROXY=off
unset GOFLAGS GOTOOLCHAIN GOSUMDB 2>/dev/null || true
cd "${VERIF_REPO:-/repo}" && go build -o "$VERIF/.build/falco" ./cmd/falco
