#!/usr/bin/env python3
"""Generates /verif/MANIFEST.json from the table below (kept in one place so it stays valid)."""
import json, os, sys
V = os.path.dirname(os.path.dirname(os.path.abspath(__file__)))

CHECKS = {
 "C01": dict(
  category="exploration", design_ref="DESIGN.md §4 C01",
  technique="runtime monitoring: token-stream monitor (T1-T5) wrapped around the real lexer/parser in crash-isolated workers, mutation-driven hostile inputs",
  text="Every generated input (seeds, ~10 mutators, hostile corpus, depth bombs) is lexed and parsed through all three parser entry points by the real code inside supervised worker processes; online assertions check token type/position/progress, an EOF-pull budget turns livelocks into logical verdicts, recovered panics and dead/hung workers are attributed to the input. Held on the executions observed only. A tree without an error for input whose braces or parentheses do not pair up is a violation (law A6, pragma/control lines exempt); 770 numeric literal forms must each be one INT/FLOAT/RTIME token.",
  note="Trusts the harness position mapper (rune columns, LF lines) and the bounded-progress restatement of termination (<=64 consecutive EOF pulls, watchdog with isolated re-run)."),
 "C19": dict(
  category="exploration", design_ref="DESIGN.md §4 C19",
  technique="runtime monitoring: encode/decode round-trip differ over parser-produced statements + decoder totality under panic guard, EOF-budget reader and sync.Pool poisoning, in crash-isolated workers",
  text="Every statement (top-level and nested) of the seed and forced corpora is encoded and decoded by the real codec and compared structurally; every valid encoding is truncated at every length, bit-flipped, byte-swept, length-rewritten, spliced and randomly overwritten and each mutant is decoded (Decode and plugin.ReadLinterRequest) under five pool poisons. Held on the executions observed only.",
  note="Trusts astcmp (reflection walk ignoring Meta and the presentational flags listed in the evidence) and the bounded-progress restatement of decoder termination (<=64 reads past EOF, watchdog). Depth bombs are sized to the 64 MiB worker stack."),
 "C16": dict(
  category="fault_enumeration", design_ref="DESIGN.md §4 C16",
  technique="runtime monitoring with syscall-level fault injection: strace -e inject (errno and SIGKILL at every recorded syscall touching the target), RLIMIT_FSIZE, size-limited tmpfs; byte-compare oracle against `falco fmt FILE`",
  text="The real `falco fmt -w` binary (rebuilt from the tree) runs as an unprivileged user on 13 (quick) / ~37 (thorough) input classes; a fault-free strace trace enumerates every (syscall, occurrence) that touches the file, its descriptors or its directory, and each point is re-run with injected error codes and with SIGKILL at syscall entry, plus file-size limits and a full tmpfs. After every run the file must be its original bytes or exactly the `falco fmt` output, and the original bytes whenever the command reported failure. Exhaustive over the recorded points only. Fault-free families: `fmt -w F1 F2 F3` for all 216 ordered triples of six file kinds (each file held to its own original / `falco fmt Fi` output, refused files byte-identical, exit status non-zero exactly when a file is refused) and thirteen content classes (CRLF, CR, no final newline, BOM, invalid UTF-8, 70 kB line, 2 MB, 4 MB) compared byte for byte with `falco fmt FILE`.",
  note="Trusts strace's injection (each faulted run is counted only if its own trace shows the fault on the intended syscall), the reference `falco fmt FILE` output of the same binary, and that durability after power loss is out of scope."),
 "C17": dict(
  category="exploration", design_ref="DESIGN.md §4 C17",
  technique="runtime monitoring: debugger snapshot monitor (interpreter.Debugger hook) reading every header spelling and sub-field before each statement + offline store-law checker over the recorded snapshots",
  text="Operation sequences (set, +=, add, unset, name:key set/unset, wildcard unset) over mixed-case names, sub-field keys and hostile values are executed as VCL by the real interpreter in all 17 (object, scope) pairs where the object is writable; snapshots taken through the interpreter's own read path before every statement are checked against read-after-write, not-set-after-unset, case-insensitivity (value and set/not-set flag), sub-field read-back and the frame rule for sibling sub-fields, other headers and the other object. All sequences of length <=3 over a reduced 44-operation alphabet are enumerated for req/RECV (length <=2 elsewhere); longer ones are PRNG. Also: a case-variant sub-field key, whole-header values that are field lists with blanks around the separators, `add` never replaces what a set header reads, wildcard unset leaves every header with the prefix (any spelling) not set.",
  note="Trusts the sim package (drives the interpreter as `falco test` does) and the law set as stated in the property; add/+=/wildcard are held only to the weak laws the property states."),
 "C20": dict(
  category="exploration", design_ref="DESIGN.md §4 C20",
  technique="runtime monitoring: generated resource sets pushed through the real Terraform-plan and API fetch paths and the CLI; every generated item re-parsed by falco's parser and compared field by field with the source data (reference-model monitor)",
  text="Resource sets (dictionaries, ACLs, backends, directors, header rules, response objects, snippets, conditions) with hostile values are turned into a Terraform plan JSON and run through terraform.ParseStdin -> TerraformFetcher -> snippet.Fetch -> EmbedSnippets, through a fake API fetcher, and through the `falco terraform` binary; each generated declaration must parse and carry exactly the keys, values, addresses, masks, negations, identifiers and members of its resource.",
  note="Trusts the harness's statement of what Fastly accepts as names (identifier characters; '-', '.', space for backends/directors; no VCL keywords) and falco's own parser as the reader of the generated text."),
 "C06": dict(
  category="exploration", design_ref="DESIGN.md §4 C06",
  technique="runtime monitoring: per-request flow/log trace recorded at the ServeHTTP boundary, checked offline against a reference Fastly state machine + cache model that replays the program's declared actions",
  text="Generated programs (all single deviations from the default path x entry branch, all restart-loop forms, pairs/triples of deviations, 3-request histories over URL and TTL classes, rate-counter/penalty-box persistence) are served by one real Interpreter through ServeHTTP; flows[].subroutine (cross-checked with an independent log-statement trace), restarts, error, cached, X-Cache and X-Cache-Hits of every reply must equal the reference machine's path, restart count (<=3, fourth restart = reported error), exactly-one-final-vcl_log and hit/miss branch. Exhaustive over single deviations and restart forms; pairs complete in thorough.",
  note="Trusts the reference table transcribed from the Fastly lifecycle documentation (successor per (scope, action), pass never stores, object enters the cache at the end of vcl_fetch); undocumented situations are accepted as long as they do not crash and are counted separately in the evidence."),
 "C18": dict(
  category="exploration", design_ref="DESIGN.md §4 C18",
  technique="Go race detector over repeated concurrent workloads + linearizability checking (porcupine v1.3.0) of client-boundary call/return histories + marker-isolation and exactly-once monitors",
  text="A race-detector build of the worker serves many short concurrent histories (2-16 clients, colliding cache keys, pass/error/restart/rate-counter/penalty-box classes, origin jitter, GOMAXPROCS 1/2/4/16) from one real Interpreter behind httptest.NewServer; every reply must contain only its own marker and its class's flow/restart count, the recorded history must be linearizable against a per-key sequential cache model, a fetch-and-add rate counter and a penalty-box set, and the race detector must report nothing with a falco frame. Real plugin executables (2-4 per statement, 0-5 ms delays) must have every diagnostic reported exactly once.",
  note="Covers only the interleavings the scheduler produced in these runs (counted in the evidence as overlap patterns); porcupine timeouts and transport errors are inconclusive; -race runs with checkptr instrumentation off because the transpiled PCRE trips it."),
 "C02": dict(
  category="exploration", design_ref="DESIGN.md §4 C02",
  technique="runtime monitoring with a reference model: grammar-directed generator emitting an intended tree + token list, rendered under many layouts, parsed by the real parser and compared structurally (first-divergence path); reference grouping by precedence climbing over the property's table",
  text="Every generated program (all declaration and statement kinds, flat operator chains, escapes, boundary literals, groups, if(), calls) is rendered under canonical, whitespace-free, random-whitespace and commented layouts and parsed by falco; the parsed tree must equal the tree the generator intended. An exhaustive pairwise sweep covers all ordered pairs of binary operators x prefix placement x parenthesisation.",
  note="Trusts the generator's own model of the grammar (docs/parser.md) and its independent literal tables (Go compile-time constants for numeric values, per-segment decoded text for escapes); the comparison ignores *ast.Meta except the numeric source literal."),
 "C03": dict(
  category="exploration", design_ref="DESIGN.md §4 C03",
  technique='runtime monitoring, metamorphic pair: parse -> format -> parse again, structural comparison under configuration-dependent normalisations, localisation to the smallest failing statement',
  text='Generated declaration files (all constructs, decorated with comments at documented placeholders, random layouts), all example and corpus files, under the default configuration, every single-option flip and random configurations, are formatted by the real formatter; the output must parse and denote the same tree.',
  note="Trusts the generator/renderer (documented comment placeholders, inline vs boundary gaps), astcmp with exactly the normalisations the configuration documents, and falco's own lexer/parser as reader of the formatted text. Findings are keyed by root cause after localising to the smallest failing statement; four open root causes of the formatter are listed in known_findings.json."),
 "C14": dict(
  category="exploration", design_ref="DESIGN.md §4 C14",
  technique='runtime monitoring, metamorphic pair: Format(Format(x)) == Format(x) byte comparison over generated programs x configurations, localisation to the smallest non-idempotent statement',
  text="Same workload as C03; the formatter's own output is formatted again under the same configuration and must be byte-identical.",
  note="Trusts the generator/renderer (documented comment placeholders, inline vs boundary gaps), astcmp with exactly the normalisations the configuration documents, and falco's own lexer/parser as reader of the formatted text. Findings are keyed by root cause after localising to the smallest failing statement; four open root causes of the formatter are listed in known_findings.json."),
 "C15": dict(
  category="exploration", design_ref="DESIGN.md §4 C15",
  technique="runtime monitoring, conservation/order checker over COMMENT tokens (falco's lexer) of input vs formatted output with uniquely numbered comments at every documented placeholder",
  text='Comments with unique serials are inserted at the placeholders docs/parser.md documents (each placeholder alone, all at once, random subsets; #, // and /* */ styles); the formatted output must contain each serial exactly once, in order, with unchanged text modulo the configured marker style; #FASTLY/falco-ignore/@scope comments must survive verbatim.',
  note="Trusts the generator/renderer (documented comment placeholders, inline vs boundary gaps), astcmp with exactly the normalisations the configuration documents, and falco's own lexer/parser as reader of the formatted text. Findings are keyed by root cause after localising to the smallest failing statement; four open root causes of the formatter are listed in known_findings.json."),
 "C05": dict(
  category="exploration", design_ref="DESIGN.md §4 C05",
  technique="runtime monitoring over two completely enumerated finite products: every cell is a one-use VCL program linted by the real linter and executed by the real interpreter in its scope; verdicts compared with the YAML reference tables read at run time and a frozen operator table",
  text="Every predefined variable x {get,set,unset,typed read} x 9 scopes, every built-in function x signature x 9 scopes x {expression, statement}, every scope-restricted statement and return action x 9 scopes, every assignment/comparison operator x type x type x {literal, local, predefined} (and, in thorough, all 36 two-scope annotations and argument-count/type variants) is instantiated, linted and, when accepted, executed as `falco test` would. The linter must agree with __generator__/*.yml (multi-scope = every scope) and with reftab/assign_table.json; everything accepted must execute without type/undefined/arity errors or crashes. exhaustive: true.",
  note="The operator reference is a table frozen from the linter at the pinned commit (doubtful cells listed in harness/cmd/c05/FINDINGS.md), so for operators the check detects changes, not pre-existing mistakes; the YAML tables are read from /repo. 441 cells that disagree today (mostly variables the simulator does not implement) are listed one by one in known_findings.json."),
 "C11": dict(
  category="exploration", design_ref="DESIGN.md §4 C11",
  technique="runtime monitoring: crash/budget watchdogs around the real linter (counting resolver for include expansion), repeat monitor (8 fresh lint runs per input, multiset equality) and permutation monitor (subroutine declarations permuted, diagnostics mapped to (declaration, statement ordinal))",
  text="Generated programs (type-blind, hence ill-typed as often as not), hand-written recursion/duplicate/goto/functional programs, every example file and all include digraphs over up to three modules (top-level and in-subroutine includes) are linted by the real linter in supervised workers: no panic, no stack overflow, no more than 10000 module loads; eight repeated runs must give equal diagnostic multisets; permuting the subroutine declarations must leave the diagnostics unchanged apart from locations. Fastly managed snippets in the linter context (scoped snippets whose order matters under four priority sets and all insertion orders, `snippet::` includes that are missing, self-including and mutually including, 24 runs each); the call-graph programs declare Fastly and user subroutines twice.",
  note="Map-iteration nondeterminism is only sampled (8 repetitions per input, thousands of inputs); the location mapping relies on the renderer's token positions."),
 "C09": dict(
  category="exploration", design_ref="DESIGN.md §4 C09",
  technique="runtime monitoring, metamorphic pair monitor: every program P is linted and executed next to decorated variants D(P) that differ only in ordinary comments and whitespace; the oracle compares diagnostic multisets (locations mapped back to token offsets) and, in the simulator, the debugger-snapshot trace, the log lines, the returned state and the reported error",
  text="Programs from the grammar-directed generator (type-blind, many diagnostics: lint half) and from the typed generator (executable: simulator half) are decorated: one comment of each style (#, //, /* */) in each gap between two tokens alone (small programs, exhaustive per program), random multi-gap decorations, and whitespace-only layouts (tight, tabs, CRLF, blank lines). Diagnostics apart from line/column, executed statements, variable values before every statement, logs, returned state and reported error must be identical. A second hand-written family covers scope-annotation neighbourhoods (full VCL and statement-only snippet files), one comment at every gap of function-call statements with identifier arguments (served through ServeHTTP), comments / blank lines / missing final line break in included modules (simulator and linter) and twelve #FASTLY macro look-alikes with a scoped snippet in the context.",
  note="A variant that no longer parses is outside the property and only counted. The simulator half executes the core language only (set/unset/log/if/switch/call/return on locals and req.http.*), not the whole state machine; comment text is drawn from a pool that cannot be read as an annotation."),
 "C10": dict(
  category="exploration", design_ref="DESIGN.md §4 C10",
  technique="runtime monitoring of the real `falco test` binary (nothing of falco linked): generated test files whose verdicts are known by construction are run -json and plain, with and without --coverage, in several orders and one test at a time; monitors compare reported verdicts with constructed ones, exit status with verdicts, summary counts with result entries, and runs with each other",
  text="Test files are generated from all 24 assert.* functions instantiated to hold and to fail (custom message, wrong argument types/counts, assertions as expressions), runtime errors, @skip/@tag/@suite/multi-@scope tests and side-effect/probe pairs over the testing.* state, against three fixed main VCLs. Every file is run by the built CLI: verdict and message class = constructed; exit status != 0 iff a test failed; passed+failed+skipped = result entries on the plain line and in the -json summary, assertion count = assertion calls executed; per-test (verdict, message, logs) identical across orders, subsets and with --coverage. Deterministic families: three test files in every arrangement of all-pass / has-fail / has-error / only-skip (exit status, per-file verdicts, totals, plain and -json); every assertion function with each optional argument and with a custom / empty message (the message never changes the verdict); every @tag list of 1-3 plain or inverse tags under six sets of -t options against the documented table.",
  note="Constructed verdicts trust the catalogue of ~65 call scenarios over the fixed main programs; @tag expectations come from the decision table in docs/testing.md. Differences between runs are reported only if they reproduce. Three genuine defects are pinned by falco's own tests and stay open (JSON summary.passes is assertion-level; --coverage evaluates if-expression conditions twice)."),
 "C07": dict(
  category="exploration", design_ref="DESIGN.md §4 C07",
  technique="runtime monitoring with three oracles over executions of the real interpreter under the debugger snapshot monitor: a reference trace differ (reference evaluator over the generator's own IR predicts the state before every executed statement), a metamorphic duality monitor for comparison operators, and an ACL monitor against a longest-prefix reference with permutation re-probing",
  text="Typed core-language programs (locals of five types, headers, every assignment operator per type, comparisons, regex with capture groups, logical operators, concatenation, if/else-if/else, switch with regex cases/default/fallthrough, helper calls with by-value parameters, early return) are executed; the first statement after which a pooled variable, a header, a capture group, the control flow, a log line or the returned state differs from the reference is reported. Comparison pairs are evaluated in both orders and negated; generated ACLs are probed at every entry's boundaries and under permutations.",
  note="The reference evaluator encodes the documented semantics for in-range operands only; constructs on which the documentation is silent (switch on a not-set control, not-set operands in a concatenation assigned to a header, not-set STRING arguments) are not generated (DESIGN.md section 7). One open finding: zero-length regex matches never match (third-party PCRE binding)."),
 "C13": dict(
  category="exploration", design_ref="DESIGN.md §4 C13",
  technique="runtime monitoring, frame-rule checker over the debugger-snapshot event log: the whole variable pool is read before every executed statement and the set of entries that changed across a statement is compared with the write set the statement names (no reference semantics involved)",
  text="Typed programs with unary minus and compound assignment on variables, values copied between variables and headers, and helper subroutines that mutate their by-value parameters, their own locals and run their own regex matches are executed; across set/unset/log/if/switch/call statements only the named target (plus re.group.* when a regex is evaluated, plus headers across a call) may change; caller locals and caller capture groups must survive a call; canaries (req.url, req.method, an untouched header) must never change. A third workload serves histories of seven requests (miss, hits, pass, second URL) through ServeHTTP against a loopback origin: the cached object read in vcl_hit and the resp read at the start of vcl_deliver are the same on every request for a URL, bereq statements leave req alone, req statements do not reach the next request, a subroutine body runs once per request (also with a root module that declares the same Fastly subroutines).",
  note="Only the driven subroutine's frame is judged (callee-internal transitions are covered through what the caller observes). Reading the pool through ProcessExpression is assumed side-effect free."),
 "C04": dict(
  category="exploration", design_ref="DESIGN.md §4 C04",
  technique="runtime monitoring of the real `falco lint` binary: inputs whose verdict is known by construction (injected diagnostics of known rule and severity, syntax breakers, .falco.yml overrides, ignore comments, included modules, snippets) are run in all six {plain,-json} x {none,-v,-vv} flag combinations; monitors compare exit status with the constructed verdict, counts with the constructed multiset, and the six runs with each other",
  text="A lint-clean skeleton is injected with k_E/k_W/k_I diagnostics from an empirically verified catalogue (22 ERROR, 7 WARNING, 2 INFO named rules, plus unnamed ones) in the main file, an included module, nested blocks and snippets with/without @scope; 15 token-level syntax breakers; severity overrides up/down/ignore/partial/invalid; ignore comments covering all or some errors. Exit status != 0 iff syntax error or >=1 effective ERROR; error/warning/info counts equal the construction and are identical across the six modes; -json stdout is exactly one JSON document. Deterministic families: three included modules in all arrangements of fine / syntax error (also nested and as statement modules), and rule overrides combined with --generated (in front of and behind the file), -I and a parent-directory configuration file.",
  note="The construction is cross-checked against the in-process linter; a mismatch is inconclusive, not a violation. Under a syntax error only the exit status is judged (plain mode prints no counts)."),
 "C12": dict(
  category="exploration", design_ref="DESIGN.md §4 C12",
  technique="runtime monitoring, conservation checker over diagnostic multisets of the real linter: every program is linted plain and with ignore directives inserted; each diagnostic is mapped to (file, original line, rule, severity, masked message) and the decorated run must equal the plain run minus exactly the diagnostics located in the covered statements (of the listed rules)",
  text="Line-based programs with >=4 independent diagnostics of >=3 rules (21 rule names plus rule-less diagnostics, calibrated in every run) at top level, nested in if/else/switch-case blocks, in later subroutines and in included modules; for every statement position all three directive forms x {no rules, listed, unlisted, unknown, two rules} x {#, //, /* */}, pairs of directives (nested, sequential, next-line over next-line, range in range), layouts (CRLF, blank lines, tabs, several leading comments). Nothing outside the covered set may disappear (leak), everything covered must disappear (under), nothing new may appear. Two further families: `ranges` (properly nested and consecutive start/end pairs, bare and listed, up to four open at once, inside if blocks, around an include whose module has ranges of its own, statements spanning several lines, per-statement next-line / trailing directives with blank lines; judged by the stack of open pairs, tagged not-judged where that reading and the documentation's flat wording disagree) and `decls` (diagnostics of the declaration pass - duplicated definitions, invalid return / table types, unused declarations - under every directive form, purely differential).",
  note="Only balanced ranges within one block are generated (the property speaks of start...end pairs). A directive on an include statement is taken to cover the included statements. Statement extents come from the builder's own line bookkeeping."),
 "C08": dict(
  category="exploration", design_ref="DESIGN.md §4 C08",
  technique="runtime monitoring with crash/budget watchdogs around the real interpreter and test runner: worker-process supervision (exit status, stderr markers, RLIMIT_AS 4 GiB, 8 MB max stack), debugger step counter (200000 statements per request), restart counter, reply-shape check; process-fatal executions run in a supervised child of the worker",
  text="Eight families of small programs are executed through TestProcessInit+ProcessTestSubroutine, Interpreter.ServeHTTP and tester.Run: all 15 assignment operators x lint-accepted type pairs x complete product of boundary operands x {literal, variable}; all 199 built-in functions x every signature x boundary arguments, as expression and statement; recursion and call chains (50/99/100/101/1000), call-tree fan-out; restart/error/return actions in every scope with 1-3 requests per instance; directors/backends/tables/ACLs/ratecounters with boundary values; self/cyclic/missing/diamond includes; boundary requests (method, path, query, 300 headers, 70 KiB header, 8 KiB URL); the `falco test` path. A returned runtime error is fine; a panic, a fatal error, OOM, > 200000 statements, > 3 restarts or a malformed reply is a violation.",
  note="Termination is restated as bounded progress (step budget, restart bound, framework watchdog 120 s); the out-of-memory verdicts depend on the 4 GiB address-space limit. Programs the linter rejects are not members of the operator/function families."),
}

NOT_APPLICABLE = {}
for i in range(1, 21):
    pid = "C%02d" % i
    if pid not in CHECKS:
        NOT_APPLICABLE[pid] = "check not built yet in this phase (planned, see DESIGN.md §4); not claimed until its monitor is silent on the tree and has fired on a mutant"

def main():
    checks = []
    for pid in sorted(CHECKS):
        c = CHECKS[pid]
        checks.append({
            "property_id": pid,
            "quick_cmd": "./check %s quick" % pid,
            "thorough_cmd": "./check %s thorough" % pid,
            "evidence_file": "/verif/evidence/%s.json" % pid,
            "replay_cmd_template": "./check %s --replay {path}" % pid,
            "engine": "harness/cmd/%s" % pid.lower(),
            "level_claimed": {"category": c["category"], "text": c["text"], "design_ref": c["design_ref"]},
            "level_note": c["note"],
            "technique": c["technique"],
        })
    m = {
        "version": 1,
        "setup_cmd": "./setup.sh",
        "hooks": {
            "guard": "verif",
            "enable": "none needed: all observation points are existing exported interfaces (parser.Tokenizer, interpreter.Debugger, ServeHTTP JSON, CLI, syscall boundary); the build tag `verif` is reserved and unused",
            "baseline_off_cmd": "cd /repo && GOPROXY=off go test -vet=off -count=1 -timeout 25m ./...",
            "source_commits": [],
            "add_only": True,
        },
        "engines": [
            {"name": "fw", "path": "harness/fw", "serves_properties": sorted(CHECKS), "kind_free_text": "orchestrator + supervised worker processes, watchdog with isolated re-run, known-findings matching, evidence writer"},
        ],
        "checks": checks,
        "notes": "All checks: ./check <ID> <quick|thorough>; they rebuild their worker binary against /repo's working tree on every invocation. VERIF_SEED selects the PRNG seed. Exit 0 held / 1 violation / 2 build failure or inconclusive.",
        "not_applicable": [{"property_id": k, "reason": v} for k, v in sorted(NOT_APPLICABLE.items())],
    }
    json.dump(m, open(os.path.join(V, "MANIFEST.json"), "w"), indent=1)
    try:
        import jsonschema
        jsonschema.validate(m, json.load(open("/root/.vp/MANIFEST.schema.json")))
        print("MANIFEST.json valid,", len(checks), "checks")
    except ImportError:
        print("MANIFEST.json written (jsonschema not available)")
main()
