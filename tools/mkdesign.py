#!/usr/bin/env python3
"""Re-assemble DESIGN.md: sections 1-10 as written before the build + section 11 (prose + generated tables)."""
import io, os, subprocess, sys, contextlib
V = os.path.dirname(os.path.dirname(os.path.abspath(__file__)))
sys.path.insert(0, os.path.join(V, "tools"))
import mkreport
d = open(V + "/DESIGN.md").read()
marker = "\n## 11. Build report"
if marker in d:
    d = d[: d.index(marker)]
d = d.rstrip("\n") + "\n\n---------------------------------------------------------------------------------------------\n\n"
prose = open(V + "/tools/design_s11_prose.md").read()
buf = io.StringIO()
with contextlib.redirect_stdout(buf):
    print("### 11.6 Known findings (generated from known_findings.json)\n")
    mkreport.findings_open()
    print("\nThe `fixed` entries (one per repaired defect, `fixed: property=<id> <commit> <what failed>`) are in `known_findings.json`; `python3 tools/mkreport.py findings` prints them.\n")
    print("### 11.7 Seeded changes and the checks that catch them (generated from seeded/*/meta.json)\n")
    mkreport.seeded()
open(V + "/DESIGN.md", "w").write(d + prose + buf.getvalue())
print("DESIGN.md written")
