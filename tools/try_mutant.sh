#!/bin/bash
# usage: try_mutant.sh <ID> <patch.diff> [tier]   — applies the patch to /repo, runs the check, reverts.
ID=$1; PATCH=$2; TIER=${3:-quick}
cd /repo || exit 9
if ! git diff --quiet; then echo "/repo is dirty; refusing"; exit 9; fi
git apply "$PATCH" || { echo "patch does not apply"; exit 9; }
cd /verif
out=$(./check "$ID" "$TIER" 2>&1); rc=$?
git -C /repo checkout -- .
echo "exit=$rc"
echo "$out" | grep -E "key=|KNOWN|INCONCL|BUILD|seed=" | cut -c1-220 | head -${LINES_MAX:-12}
