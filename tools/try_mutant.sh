#!/bin/bash
# usage: try_mutant.sh <ID> <patch.diff> [tier]
# Applies the patch to a scratch worktree of /repo's HEAD (never to /repo itself, which other
# runs may be using), runs the check against it via VERIF_REPO, removes the worktree.
ID=$1; PATCH=$(readlink -f "$2"); TIER=${3:-quick}
WT=$(mktemp -d /tmp/mut-XXXXXX); rmdir "$WT"
git -C /repo worktree add -q --detach "$WT" HEAD || exit 9
if ! git -C "$WT" apply "$PATCH"; then echo "patch does not apply"; git -C /repo worktree remove --force "$WT"; exit 9; fi
cd /verif
mkdir -p /tmp/mut-evidence
out=$(VERIF_REPO="$WT" VERIF_EVIDENCE_DIR=/tmp/mut-evidence ./check "$ID" "$TIER" 2>&1); rc=$?
git -C /repo worktree remove --force "$WT"; git -C /repo worktree prune
echo "exit=$rc"
echo "$out" | grep -E "key=|KNOWN|INCONCL|BUILD|seed=" | cut -c1-220 | head -${LINES_MAX:-12}
