#!/bin/bash
# usage: process_round.sh <ID> <worktree> [tier]  — confirm m1..m5 of a mutation round and run the check on each
ID=$1; WT=$2; TIER=${3:-quick}
for d in $WT/mutants/m*; do
  m=$(basename $d)
  echo "=== $ID $m: $(python3 -c "import json;print(' '.join(json.load(open('$d/meta.json'))['summary'].split())[:160])")"
  /verif/tools/confirm_mutant.sh $WT $m 2>&1 | tail -2
  LINES_MAX=${LINES_MAX:-5} /verif/tools/try_mutant.sh $ID $d/patch.diff $TIER 2>&1 | cut -c1-260
done
