module verif/harness

go 1.25.5

require (
	github.com/anishathalye/porcupine v1.3.0
	github.com/pkg/errors v0.9.1
	github.com/ysugimoto/falco/v2 v2.0.0
	go.elara.ws/pcre v0.0.0-20230805032557-4ce849193f64
	gopkg.in/yaml.v3 v3.0.1
)

require (
	github.com/BurntSushi/toml v1.3.2 // indirect
	github.com/avct/uasurfer v0.0.0-20191028135549-26b5daa857f1 // indirect
	github.com/boombuler/barcode v1.0.1-0.20190219062509-6c824513bacc // indirect
	github.com/go-ini/ini v1.67.0 // indirect
	github.com/go-yaml/yaml v2.1.0+incompatible // indirect
	github.com/gobwas/glob v0.2.3 // indirect
	github.com/google/uuid v1.6.0 // indirect
	github.com/k0kubun/pp v3.0.1+incompatible // indirect
	github.com/mattn/go-colorable v0.1.8 // indirect
	github.com/mattn/go-isatty v0.0.12 // indirect
	github.com/pierrec/xxHash v0.1.5 // indirect
	github.com/pion/dtls/v2 v2.2.12 // indirect
	github.com/pquerna/otp v1.4.0 // indirect
	github.com/remyoudompheng/bigfft v0.0.0-20200410134404-eec4a21b6bb0 // indirect
	github.com/rs/xid v1.5.0 // indirect
	github.com/ysugimoto/twist v0.10.2 // indirect
	golang.org/x/sync v0.12.0 // indirect
	golang.org/x/sys v0.31.0 // indirect
	modernc.org/libc v1.17.0 // indirect
	modernc.org/mathutil v1.4.1 // indirect
	modernc.org/memory v1.2.0 // indirect
)

replace github.com/ysugimoto/falco/v2 => /repo

replace go.elara.ws/pcre => github.com/dip-proto/go-pcre v0.0.0-20260204122309-dcbff9cb6240
