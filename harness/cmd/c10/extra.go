package main

// Deterministic families next to the generated files:
//
//	multi  - several test files in one run: the exit status, the per-file verdicts and the totals,
//	         for every arrangement of {all-pass, has-fail, has-error, only-skip} over three files
//	argmsg - every assertion function with each of its optional trailing arguments (expected text,
//	         custom message): the verdict is the one the arguments imply, the message never changes it
//	tags   - every @tag list of 1..3 tags (plain and inverse) x sets of -t options, against the
//	         documented matching table generalised to lists ("run if any pair matches")

import (
	"bytes"
	"fmt"
	"os"
	"os/exec"
	"path/filepath"
	"regexp"
	"sort"
	"strings"
	"syscall"
	"time"

	"verif/harness/fw"
)

type xcase struct {
	Fam string `json:"fam"`
	A   int    `json:"a"`
	B   int    `json:"b"`
}

func genExtra(g *fw.GenCtx) {
	for a := 0; a < 64; a += 8 {
		g.Emit("extra", xcase{Fam: "multi", A: a, B: a + 8})
	}
	g.Emit("extra", xcase{Fam: "argmsg"})
	g.Emit("extra", xcase{Fam: "verdicts"})
	for a := 0; a < len(cliTagSets); a++ {
		g.Emit("extra", xcase{Fam: "tags", A: a})
	}
}

func falcoDir(files map[string]string, args ...string) runRes {
	base := filepath.Join(fw.Verif, ".build", "tmp")
	os.MkdirAll(base, 0o755)
	dir, err := os.MkdirTemp(base, "c10x-")
	if err != nil {
		return runRes{exit: -1, stderr: err.Error()}
	}
	defer os.RemoveAll(dir)
	var names []string
	for n, t := range files {
		os.WriteFile(filepath.Join(dir, n), []byte(t), 0o644)
		names = append(names, n)
	}
	sort.Strings(names)
	for _, n := range names {
		fw.JournalS(n + ":\n" + files[n])
	}
	argv := []string{"test"}
	for _, a := range args {
		argv = append(argv, strings.ReplaceAll(strings.ReplaceAll(a, "@DIR@", dir), "@BASE@", filepath.Base(dir)))
	}
	argv = append(argv, "main.vcl")
	cmd := exec.Command(fw.FalcoBin(), argv...)
	cmd.Dir = dir
	cmd.Env = []string{"HOME=" + dir, "PATH=/usr/bin:/bin", "GOMAXPROCS=2", "NO_COLOR=1", "TERM=xterm"}
	var so, se bytes.Buffer
	cmd.Stdout, cmd.Stderr = &so, &se
	cmd.SysProcAttr = &syscall.SysProcAttr{Setpgid: true}
	rr := runRes{dir: dir}
	runCount++
	if err := cmd.Start(); err != nil {
		rr.exit = -1
		rr.stderr = err.Error()
		return rr
	}
	done := make(chan error, 1)
	go func() { done <- cmd.Wait() }()
	select {
	case <-done:
	case <-time.After(90 * time.Second):
		syscall.Kill(-cmd.Process.Pid, syscall.SIGKILL)
		<-done
		rr.timedOut = true
	}
	rr.stdout, rr.stderr = so.String(), se.String()
	if ws, ok := cmd.ProcessState.Sys().(syscall.WaitStatus); ok {
		if ws.Signaled() {
			rr.crashed = true
			rr.exit = 128 + int(ws.Signal())
		} else {
			rr.exit = ws.ExitStatus()
		}
	}
	if strings.Contains(rr.stderr, "panic: ") || strings.Contains(rr.stderr, "fatal error: ") || strings.Contains(rr.stderr, "goroutine ") {
		rr.crashed = true
	}
	return rr
}

const xMain = `backend be1 { .host = "127.0.0.1"; .port = "80"; }
sub helper { set req.http.Helper = "called"; }
sub vcl_recv {
#FASTLY RECV
  set req.http.A = "1";
  set req.http.Json = "{%22a%22: 1}";
  if (req.http.Do == "error") {
    error 601 "custom";
  }
  if (req.http.Do == "restart") {
    restart;
  }
  call helper;
  return(lookup);
}
`

func runExtra(oc *fw.Outcome, xc xcase) {
	switch xc.Fam {
	case "multi":
		for k := xc.A; k < xc.B; k++ {
			runMulti(oc, k)
		}
	case "argmsg":
		runArgMsg(oc)
	case "verdicts":
		runVerdicts(oc)
	case "tags":
		runTags(oc, xc.A)
	}
}

// ---- multi --------------------------------------------------------------------------------------

var fileClasses = []string{"all-pass", "has-fail", "has-error", "only-skip"}

func classTests(class string, tag string) (text string, pass, fail, skip int) {
	t := func(name, ann, body string) string {
		return ann + "// @scope: recv\nsub " + name + "_" + tag + " {\n" + body + "\n}\n\n"
	}
	var sb strings.Builder
	sb.WriteString(t("test_ok1", "", `  set req.http.X = "1";`+"\n"+`  assert.equal(req.http.X, "1");`))
	pass++
	switch class {
	case "all-pass":
		sb.WriteString(t("test_ok2", "", `  assert.true(true);`))
		pass++
	case "has-fail":
		sb.WriteString(t("test_bad", "", `  assert.equal(req.http.Nope, "1");`))
		fail++
		sb.WriteString(t("test_ok2", "", `  assert.true(true);`))
		pass++
	case "has-error":
		sb.WriteString(t("test_err", "", `  testing.call_subroutine("no_such_subroutine");`))
		fail++
	case "only-skip":
		// the passing test above is replaced: the file has nothing but skipped tests
		sb.Reset()
		pass = 0
		sb.WriteString(t("test_skip1", "// @skip\n", `  assert.true(false);`))
		sb.WriteString(t("test_skip2", "// @skip\n", `  assert.true(false);`))
		skip += 2
	}
	return sb.String(), pass, fail, skip
}

var plainSummaryRe = regexp.MustCompile(`(\d+) passed, (\d+) failed(?:, (\d+) skipped)?, (\d+) total`)

func runMulti(oc *fw.Outcome, k int) {
	cls := []string{fileClasses[k%4], fileClasses[(k/4)%4], fileClasses[(k/16)%4]}
	files := map[string]string{"main.vcl": xMain}
	pass, fail, skip := 0, 0, 0
	per := map[string][3]int{}
	for i, c := range cls {
		name := fmt.Sprintf("%c.test.vcl", 'a'+i)
		text, p, f, s := classTests(c, string(rune('a'+i)))
		files[name] = text
		pass, fail, skip = pass+p, fail+f, skip+s
		per[name] = [3]int{p, f, s}
	}
	shape := strings.Join(cls, ",")
	detail := func(rr runRes) map[string]any {
		return map[string]any{"files": files, "classes": shape, "exit": rr.exit, "stdout": clip(rr.stdout, 3000), "stderr": clip(rr.stderr, 1500)}
	}
	wantExit := 0
	if fail > 0 {
		wantExit = 1
	}
	firstFailing := "none"
	for i, c := range cls {
		if c == "has-fail" || c == "has-error" {
			firstFailing = []string{"first", "middle", "last"}[i]
		}
	}
	// the directory of the test files named once (relative main file) or twice (an include path that is the same
	// directory, spelled absolutely or as "."): every test file is run and reported once
	modes := []string{"plain", "json"}
	if k%3 == 0 {
		modes = append(modes, "plain+I-abs", "json+I-abs", "json+I-dot", "json+I-abs-twice")
	}
	for _, mode := range modes {
		var args []string
		if strings.HasPrefix(mode, "json") {
			args = []string{"-json"}
		}
		switch {
		case strings.HasSuffix(mode, "+I-abs"):
			args = append(args, "-I", "@DIR@")
		case strings.HasSuffix(mode, "+I-dot"):
			args = append(args, "-I", ".")
		case strings.HasSuffix(mode, "+I-abs-twice"):
			args = append(args, "-I", "@DIR@", "-I", "@DIR@/../"+"@BASE@")
		}
		rr := falcoDir(files, args...)
		oc.Evals++
		if rr.crashed || rr.timedOut {
			oc.Violate("multi:crash/"+mode, "falco test crashed or hung on several test files", detail(rr))
			continue
		}
		fullMode := mode
		mode, _, _ = strings.Cut(mode, "+")
		if (rr.exit != 0) != (wantExit != 0) {
			oc.Violate(fmt.Sprintf("multi:exit/%s/last-failing-file=%s", mode, firstFailing), fmt.Sprintf("exit status %d with %d failed tests over three files (%s)", rr.exit, fail, shape), detail(rr))
			continue
		}
		if mode == "json" {
			if err := rr.parseJSON(); err != nil {
				oc.Violate("multi:json/unparseable", "falco test -json did not print a JSON document: "+err.Error(), detail(rr))
				continue
			}
			if len(rr.j.Tests) != len(per) {
				oc.Violate("multi:json/file-count", fmt.Sprintf("%d entries in tests[] for %d test files (%s, %s)", len(rr.j.Tests), len(per), shape, fullMode), detail(rr))
				continue
			}
			gotPer := map[string][3]int{}
			for _, t := range rr.j.Tests {
				var c [3]int
				for _, e := range t.Suites {
					switch coarse(classify(e)) {
					case "pass":
						c[0]++
					case "fail":
						c[1]++
					case "skip":
						c[2]++
					}
				}
				gotPer[filepath.Base(t.File)] = c
			}
			for n, w := range per {
				if gotPer[n] != w {
					oc.Violate("multi:json/per-file", fmt.Sprintf("%s: result entries (passed, failed, skipped) = %v, constructed %v (%s)", n, gotPer[n], w, shape), detail(rr))
				}
			}
			if s := rr.j.Summary; s != nil && (s.Fails != fail || s.Skips != skip) {
				oc.Violate("multi:json/summary", fmt.Sprintf("summary fails=%d skips=%d, constructed %d / %d (%s)", s.Fails, s.Skips, fail, skip, shape), detail(rr))
			}
		} else {
			m := plainSummaryRe.FindStringSubmatch(rr.stdout + rr.stderr)
			if m == nil {
				oc.Violate("multi:plain/no-summary", "no summary line in the output", detail(rr))
				continue
			}
			got := fmt.Sprintf("%s/%s/%s/%s", m[1], m[2], m[3], m[4])
			sk := fmt.Sprint(skip)
			if skip == 0 && m[3] == "" {
				sk = ""
			}
			want := fmt.Sprintf("%d/%d/%s/%d", pass, fail, sk, pass+fail+skip)
			if got != want {
				oc.Violate("multi:plain/summary", fmt.Sprintf("summary passed/failed/skipped/total %s, constructed %s (%s)", got, want, shape), detail(rr))
			}
		}
		oc.Tag("multi:" + fullMode + ":last-failing-file=" + firstFailing)
		oc.NonTrivialS(fullMode + shape)
	}
}

// ---- argmsg -------------------------------------------------------------------------------------

type argForm struct {
	fn    string
	setup string   // statements before the assertion
	base  []string // required arguments
	opt   []string // optional arguments in order before the message (each may be left out from the right)
	hold  bool     // verdict with base arguments only
	// holdOpt[i]: verdict when opt[0..i] are given
	holdOpt []bool
}

func argForms() []argForm {
	callRecv := `testing.call_subroutine("vcl_recv");`
	doErr := `set req.http.Do = "error"; ` + callRecv
	doRestart := `set req.http.Do = "restart"; ` + callRecv
	f := func(fn, setup string, hold bool, base ...string) argForm {
		return argForm{fn: fn, setup: setup, base: base, hold: hold}
	}
	forms := []argForm{
		f("assert.true", "", true, "true"), f("assert.true", "", false, "false"),
		f("assert.false", "", true, "false"), f("assert.false", "", false, "true"),
		f("assert.equal", callRecv, true, "req.http.A", `"1"`), f("assert.equal", callRecv, false, "req.http.A", `"2"`),
		f("assert.not_equal", callRecv, true, "req.http.A", `"2"`), f("assert.not_equal", callRecv, false, "req.http.A", `"1"`),
		f("assert.strict_equal", callRecv, true, "req.http.A", `"1"`), f("assert.strict_equal", callRecv, false, "req.http.A", `"2"`),
		f("assert.not_strict_equal", callRecv, true, "req.http.A", `"2"`), f("assert.not_strict_equal", callRecv, false, "req.http.A", `"1"`),
		f("assert.equal_fold", `set req.http.B = "AbC";`, true, "req.http.B", `"aBc"`), f("assert.equal_fold", `set req.http.B = "AbC";`, false, "req.http.B", `"abd"`),
		f("assert.match", `set req.http.B = "abc";`, true, "req.http.B", `"^a.c$"`), f("assert.match", `set req.http.B = "abc";`, false, "req.http.B", `"^x"`),
		f("assert.not_match", `set req.http.B = "abc";`, true, "req.http.B", `"^x"`), f("assert.not_match", `set req.http.B = "abc";`, false, "req.http.B", `"^a"`),
		f("assert.contains", `set req.http.B = "abc";`, true, "req.http.B", `"b"`), f("assert.contains", `set req.http.B = "abc";`, false, "req.http.B", `"x"`),
		f("assert.not_contains", `set req.http.B = "abc";`, true, "req.http.B", `"x"`), f("assert.not_contains", `set req.http.B = "abc";`, false, "req.http.B", `"b"`),
		f("assert.starts_with", `set req.http.B = "abc";`, true, "req.http.B", `"ab"`), f("assert.starts_with", `set req.http.B = "abc";`, false, "req.http.B", `"bc"`),
		f("assert.ends_with", `set req.http.B = "abc";`, true, "req.http.B", `"bc"`), f("assert.ends_with", `set req.http.B = "abc";`, false, "req.http.B", `"ab"`),
		f("assert.is_notset", "", true, "req.http.Never-Set"), f("assert.is_notset", `set req.http.B = "abc";`, false, "req.http.B"),
		f("assert.is_json", callRecv, true, "req.http.Json"), f("assert.is_json", `set req.http.B = "{not json";`, false, "req.http.B"),
		f("assert.state", callRecv, true, "lookup"), f("assert.state", callRecv, false, "pass"),
		f("assert.not_state", callRecv, true, "pass"), f("assert.not_state", callRecv, false, "lookup"),
		f("assert.restart", doRestart, true), f("assert.restart", callRecv, false),
		f("assert.not_restart", callRecv, true), f("assert.not_restart", doRestart, false),
		f("assert.not_error", callRecv, true), f("assert.not_error", doErr, false),
		f("assert.subroutine_called", callRecv, true, `"helper"`), f("assert.subroutine_called", callRecv, false, `"vcl_fetch"`),
		f("assert.not_subroutine_called", callRecv, true, `"vcl_fetch"`), f("assert.not_subroutine_called", callRecv, false, `"helper"`),
	}
	// testing.inject_variable takes the VALUE of its argument: a later assignment to the local it was
	// read from does not change the injected variable
	forms = append(forms,
		f("assert.equal", `declare local var.s STRING; set var.s = "tokyo"; testing.inject_variable("client.geo.city", var.s); set var.s = "osaka";`, true, "client.geo.city", `"tokyo"`),
		f("assert.equal", `declare local var.s STRING; set var.s = "tokyo"; testing.inject_variable("client.geo.city", var.s); set var.s = "osaka";`, false, "client.geo.city", `"osaka"`),
		f("assert.equal", `declare local var.i INTEGER; set var.i = 7; testing.inject_variable("client.geo.metro_code", var.i); set var.i += 1;`, true, "client.geo.metro_code", "7"),
		f("assert.equal", `declare local var.s STRING; set var.s = "a"; testing.inject_variable("client.geo.city", var.s); set var.s = var.s "b"; testing.inject_variable("client.geo.country_code", var.s); set var.s = "c";`, true, "client.geo.city client.geo.country_code", `"aab"`),
	)
	// assert.error(code [, response text]) — each combination of right/wrong code and text
	for _, code := range []struct {
		v  string
		ok bool
	}{{"601", true}, {"602", false}} {
		for _, text := range []struct {
			v  string
			ok bool
		}{{`"custom"`, true}, {`"other"`, false}, {`""`, false}} {
			forms = append(forms, argForm{fn: "assert.error", setup: doErr, base: []string{code.v}, opt: []string{text.v}, hold: code.ok, holdOpt: []bool{code.ok && text.ok}})
		}
	}
	forms = append(forms, argForm{fn: "assert.error", setup: callRecv, base: []string{"601"}, opt: []string{`"custom"`}, hold: false, holdOpt: []bool{false}})
	// assert.subroutine_called(name [, times])
	forms = append(forms,
		argForm{fn: "assert.subroutine_called", setup: callRecv, base: []string{`"helper"`}, opt: []string{"1"}, hold: true, holdOpt: []bool{true}},
		argForm{fn: "assert.subroutine_called", setup: callRecv, base: []string{`"helper"`}, opt: []string{"2"}, hold: true, holdOpt: []bool{false}},
		argForm{fn: "assert.subroutine_called", setup: callRecv + " " + callRecv, base: []string{`"helper"`}, opt: []string{"2"}, hold: true, holdOpt: []bool{true}},
	)
	return forms
}

func runArgMsg(oc *fw.Outcome) {
	forms := argForms()
	type tcase struct {
		name string
		hold bool
		what string
	}
	var cases []tcase
	var sb strings.Builder
	n := 0
	add := func(fm argForm, args []string, hold bool, what string) {
		n++
		name := fmt.Sprintf("test_%03d", n)
		call := fm.fn + "(" + strings.Join(args, ", ") + ");"
		sb.WriteString("// @scope: recv\nsub " + name + " {\n")
		if fm.setup != "" {
			sb.WriteString("  " + fm.setup + "\n")
		}
		sb.WriteString("  " + call + "\n}\n\n")
		cases = append(cases, tcase{name, hold, fm.fn + "/" + what + ": " + fm.setup + " " + call})
	}
	for _, fm := range forms {
		add(fm, fm.base, fm.hold, "base")
		args := append([]string{}, fm.base...)
		for i, o := range fm.opt {
			args = append(args, o)
			add(fm, args, fm.holdOpt[i], fmt.Sprintf("opt%d", i+1))
		}
		// the custom message goes after all optional arguments and never changes the verdict
		hold := fm.hold
		if len(fm.opt) > 0 {
			hold = fm.holdOpt[len(fm.opt)-1]
		}
		add(fm, append(append([]string{}, args...), `"CUSTOM-MSG"`), hold, "with-message")
		add(fm, append(append([]string{}, args...), `""`), hold, "with-empty-message")
	}
	files := map[string]string{"main.vcl": xMain, "main.test.vcl": sb.String()}
	rr := falcoDir(files, "-json")
	oc.Evals++
	detail := map[string]any{"files": files, "exit": rr.exit, "stdout": clip(rr.stdout, 6000), "stderr": clip(rr.stderr, 1500)}
	if rr.crashed || rr.timedOut {
		oc.Violate("argmsg:crash", "falco test crashed or hung", detail)
		return
	}
	if err := rr.parseJSON(); err != nil {
		oc.Violate("argmsg:json/unparseable", "falco test -json did not print a JSON document: "+err.Error(), detail)
		return
	}
	by := map[string]jCase{}
	for _, e := range rr.entries {
		by[e.Name] = e
	}
	for _, c := range cases {
		e, ok := by[c.name]
		if !ok {
			oc.Violate("argmsg:missing", "no result entry for "+c.what, detail)
			continue
		}
		oc.Evals++
		v := classify(e)
		fn := strings.SplitN(c.what, ":", 2)[0]
		if v == "fail(testing-error)" || v == "fail(runtime-error)" {
			// the form is not accepted by this tree (arity): not a verdict, reported as inconclusive once
			oc.Inconc = append(oc.Inconc, "argmsg: form not accepted: "+c.what+" -> "+e.Error)
			continue
		}
		if (coarse(v) == "pass") != c.hold {
			oc.Violate("argmsg:verdict/"+fn, fmt.Sprintf("%s: reported %s (%q), the arguments imply %s", c.what, v, e.Error, map[bool]string{true: "pass", false: "fail"}[c.hold]), map[string]any{"test": c.what, "entry": e})
			continue
		}
		oc.Tag("argmsg:" + fn + map[bool]string{true: "/hold", false: "/fail"}[c.hold])
		oc.NonTrivialS(c.what)
	}
}

// ---- tags ---------------------------------------------------------------------------------------

var cliTagSets = [][]string{nil, {"prod"}, {"dev"}, {"prod", "dev"}, {"qa"}, {"stg", "qa"}}

type tagSpec struct {
	name string
	inv  bool
}

func allTagSpecs() [][]tagSpec {
	names := []string{"prod", "dev", "stg"}
	var out [][]tagSpec
	var rec func(cur []tagSpec, used map[string]bool, left int)
	rec = func(cur []tagSpec, used map[string]bool, left int) {
		if len(cur) > 0 {
			out = append(out, append([]tagSpec{}, cur...))
		}
		if left == 0 {
			return
		}
		for _, n := range names {
			if used[n] {
				continue
			}
			used[n] = true
			for _, inv := range []bool{false, true} {
				rec(append(cur, tagSpec{n, inv}), used, left-1)
			}
			used[n] = false
		}
	}
	rec(nil, map[string]bool{}, 3)
	return out
}

// wantRun: docs/testing.md table, generalised to lists: without -t a test runs iff every tag is
// inverse; with -t it runs iff some (option, tag) pair matches (equal name and plain, or different
// name and inverse)
func wantRun(spec []tagSpec, cli []string) bool {
	if len(cli) == 0 {
		for _, s := range spec {
			if !s.inv {
				return false
			}
		}
		return true
	}
	for _, c := range cli {
		for _, s := range spec {
			if (s.name == c) != s.inv {
				return true
			}
		}
	}
	return false
}

func runTags(oc *fw.Outcome, ci int) {
	cli := cliTagSets[ci]
	specs := allTagSpecs()
	var sb strings.Builder
	type tcase struct {
		name string
		spec []tagSpec
		text string
	}
	var cases []tcase
	for i, sp := range specs {
		var parts []string
		for _, s := range sp {
			p := s.name
			if s.inv {
				p = "!" + p
			}
			parts = append(parts, p)
		}
		sep := []string{",", ", ", " , "}[i%3]
		text := strings.Join(parts, sep)
		name := fmt.Sprintf("test_tag_%03d", i)
		sb.WriteString("// @scope: recv\n// @tag: " + text + "\nsub " + name + " {\n  assert.true(true);\n}\n\n")
		cases = append(cases, tcase{name, sp, text})
	}
	sb.WriteString("// @scope: recv\nsub test_untagged {\n  assert.true(true);\n}\n")
	files := map[string]string{"main.vcl": xMain, "main.test.vcl": sb.String()}
	args := []string{"-json"}
	for _, c := range cli {
		args = append(args, "-t", c)
	}
	rr := falcoDir(files, args...)
	oc.Evals++
	detail := map[string]any{"files": files, "args": args, "exit": rr.exit, "stdout": clip(rr.stdout, 6000), "stderr": clip(rr.stderr, 1500)}
	if rr.crashed || rr.timedOut {
		oc.Violate("tags:crash", "falco test crashed or hung", detail)
		return
	}
	if err := rr.parseJSON(); err != nil {
		oc.Violate("tags:json/unparseable", "falco test -json did not print a JSON document: "+err.Error(), detail)
		return
	}
	by := map[string]jCase{}
	for _, e := range rr.entries {
		by[e.Name] = e
	}
	opt := "without -t"
	if len(cli) > 0 {
		opt = "-t " + strings.Join(cli, " -t ")
	}
	if e, ok := by["test_untagged"]; !ok || e.Skip {
		oc.Violate("tags:untagged-skipped", "a test without @tag was not run ("+opt+")", detail)
	}
	for _, c := range cases {
		e, ok := by[c.name]
		if !ok {
			oc.Violate("tags:missing", "no result entry for @tag: "+c.text, detail)
			continue
		}
		oc.Evals++
		want := wantRun(c.spec, cli)
		if e.Skip == want {
			shape := "plain-only"
			hasInv, hasPlain := false, false
			for _, s := range c.spec {
				if s.inv {
					hasInv = true
				} else {
					hasPlain = true
				}
			}
			switch {
			case hasInv && hasPlain:
				shape = "mixed"
			case hasInv:
				shape = "inverse-only"
			}
			oc.Violate(fmt.Sprintf("tags:verdict/%s/len=%d", shape, len(c.spec)), fmt.Sprintf("@tag: %s with %s: skipped=%v, the matching table says run=%v", c.text, opt, e.Skip, want), map[string]any{"tag": c.text, "args": args, "entry": e})
			continue
		}
		oc.Tag(fmt.Sprintf("tags:len=%d/%s", len(c.spec), map[bool]string{true: "run", false: "skip"}[want]))
		oc.NonTrivialS(c.text + opt)
	}
	// the exit status: every test that runs passes
	if rr.exit != 0 {
		oc.Violate("tags:exit", fmt.Sprintf("exit status %d although every test passed or was skipped (%s)", rr.exit, opt), detail)
	}
}

// ---- verdicts -----------------------------------------------------------------------------------
// Hand-written tests whose verdict per scope follows from the documentation: sequences of
// testing.call_subroutine, multi-scope tests with runtime errors, further assert.is_json operands,
// constructs under --coverage (every file is run without and with --coverage: same verdicts), and
// pairs (A pollutes shared state, B observes it) run as [A,B], [B,A] and [B]: B's verdict must not move.

const vMain = `backend be1 { .host = "127.0.0.1"; .port = "80"; }
table dict { "shape": "square", }
table other_dict { "k": "v", }
sub helper { set req.http.Helper = "called"; }
sub decide_pass { if (req.http.Bypass) { return(pass); } }
sub deny { error 403 "Forbidden"; }
sub normalize { set req.http.Norm = "1"; }
sub sw_nodefault {
  set req.http.Out = "init";
  switch (req.http.Kind) {
  case "a":
    set req.http.Out = "A";
    break;
  case "b":
    set req.http.Out = "B";
    break;
  }
  set req.http.Done = "1";
}
sub sw_fall {
  switch (req.http.Kind) {
  case "a":
    set req.http.Out = "A";
    fallthrough;
  case "b":
    set req.http.Out = req.http.Out "B";
    break;
  default:
    set req.http.Out = "D";
    break;
  }
}
sub nested_if {
  if (req.http.Kind == "a") {
    if (req.http.Sub) { set req.http.Out = "a-sub"; } else { set req.http.Out = "a"; }
  } else if (req.http.Kind == "b") {
    set req.http.Out = "b";
  }
  set req.http.Done = "1";
}
sub vcl_recv {
#FASTLY RECV
  set req.http.Color = table.lookup(dict, "color", "none");
  set req.http.Shape = table.lookup(dict, "shape", "none");
  call helper;
  return(lookup);
}
sub vcl_fetch {
#FASTLY FETCH
  set beresp.ttl = 1h;
  return(deliver);
}
sub vcl_deliver {
#FASTLY DELIVER
  set resp.http.X-D = "1";
  return(deliver);
}
`

type vtest struct {
	name string
	ann  string // annotations (default: // @scope: recv)
	body string
	// want per result entry: "SCOPE=verdict" (verdict: pass | fail | skip)
	want []string
}

func vt(name, body string, want ...string) vtest {
	if len(want) == 0 {
		want = []string{"RECV=pass"}
	}
	return vtest{name: name, ann: "// @scope: recv", body: body, want: want}
}

func verdictTests() []vtest {
	ts := []vtest{
		// the state follows the LAST call
		vt("seq_state_follows_last_call", `set req.http.Bypass = "1"; testing.call_subroutine("decide_pass"); assert.state(pass); testing.call_subroutine("normalize"); assert.equal(req.http.Norm, "1"); assert.not_state(pass);`),
		vt("seq_error_then_plain_call", `testing.call_subroutine("deny"); assert.error(403); testing.call_subroutine("normalize"); assert.not_error();`),
		vt("seq_stale_state_is_not_current", `set req.http.Bypass = "1"; testing.call_subroutine("decide_pass"); testing.call_subroutine("normalize"); assert.state(pass);`, "RECV=fail"),
		vt("seq_plain_then_pass", `set req.http.Bypass = "1"; testing.call_subroutine("normalize"); testing.call_subroutine("decide_pass"); assert.state(pass);`),
		vt("seq_recv_then_plain", `testing.call_subroutine("vcl_recv"); assert.state(lookup); testing.call_subroutine("normalize"); assert.not_state(lookup);`),
		vt("seq_error_twice", `testing.call_subroutine("deny"); testing.call_subroutine("deny"); assert.error(403, "Forbidden");`),
		vt("seq_called_counts", `testing.call_subroutine("vcl_recv"); testing.call_subroutine("vcl_recv"); assert.subroutine_called("helper", 2); assert.subroutine_called("helper");`),
		// assert.is_json operands
		vt("json_object", `assert.is_json("{%22a%22: [1, 2, {%22b%22: null}]}");`),
		vt("json_scalar", `assert.is_json("12"); assert.is_json("true"); assert.is_json("%22s%22");`),
		vt("json_trailing_text", `assert.is_json("[1,2] and some text");`, "RECV=fail"),
		vt("json_two_values", `assert.is_json("[1][2]");`, "RECV=fail"),
		vt("json_extra_bracket", `assert.is_json("[1,2]]");`, "RECV=fail"),
		vt("json_empty", `assert.is_json("");`, "RECV=fail"),
		vt("json_truncated", `assert.is_json("{%22a%22: ");`, "RECV=fail"),
		vt("json_single_quotes", `assert.is_json("{'a': 1}");`, "RECV=fail"),
		// constructs that the coverage instrumentation rewrites (the file runs with and without --coverage)
		vt("cov_switch_nodefault_unmatched", `set req.http.Kind = "z"; testing.call_subroutine("sw_nodefault"); assert.equal(req.http.Out, "init"); assert.equal(req.http.Done, "1");`),
		vt("cov_switch_nodefault_matched", `set req.http.Kind = "b"; testing.call_subroutine("sw_nodefault"); assert.equal(req.http.Out, "B"); assert.equal(req.http.Done, "1");`),
		vt("cov_switch_nodefault_notset", `testing.call_subroutine("sw_nodefault"); assert.equal(req.http.Done, "1");`),
		vt("cov_switch_fallthrough", `set req.http.Kind = "a"; testing.call_subroutine("sw_fall"); assert.equal(req.http.Out, "AB");`),
		vt("cov_switch_default", `set req.http.Kind = "q"; testing.call_subroutine("sw_fall"); assert.equal(req.http.Out, "D");`),
		vt("cov_nested_if_no_branch", `set req.http.Kind = "q"; testing.call_subroutine("nested_if"); assert.is_notset(req.http.Out); assert.equal(req.http.Done, "1");`),
		vt("cov_nested_if_inner_else", `set req.http.Kind = "a"; testing.call_subroutine("nested_if"); assert.equal(req.http.Out, "a");`),
	}
	// multi-scope tests: one result entry per scope, whatever happens in the other scopes
	ts = append(ts,
		vtest{"ms_scope_dependent", "// @scope: recv,deliver", `set req.http.Seen = resp.status; assert.equal(req.http.Seen, "200");`, []string{"RECV=fail", "DELIVER=pass"}},
		vtest{"ms_error_everywhere", "// @scope: recv,fetch", `set req.http.X = no.such.variable;`, []string{"RECV=fail", "FETCH=fail"}},
		vtest{"ms_error_in_last", "// @scope: deliver,recv", `set req.http.Seen = resp.status;`, []string{"DELIVER=pass", "RECV=fail"}},
		vtest{"ms_three_scopes_middle_fails", "// @scope: recv,fetch,deliver", `set req.http.T = beresp.ttl;`, []string{"RECV=fail", "FETCH=pass", "DELIVER=fail"}},
		vtest{"ms_assertion_fails_in_first", "// @scope: recv, deliver", `assert.is_notset(req.http.Never); assert.equal(req.http.Host, "nope");`, []string{"RECV=fail", "DELIVER=fail"}},
		vtest{"ms_all_pass", "// @scope: recv,fetch,deliver", `assert.true(true);`, []string{"RECV=pass", "FETCH=pass", "DELIVER=pass"}},
		vtest{"ms_skipped", "// @scope: recv,deliver\n// @skip", `assert.true(false);`, []string{"RECV=skip", "DELIVER=skip"}},
	)
	return ts
}

func renderVTests(ts []vtest, prelude string) string {
	var sb strings.Builder
	sb.WriteString(prelude)
	for _, t := range ts {
		sb.WriteString(t.ann + "\nsub test_" + t.name + " {\n  " + t.body + "\n}\n\n")
	}
	return sb.String()
}

// checkVTests runs the file and compares every (test, scope) verdict; tag names the run for the key.
func checkVTests(oc *fw.Outcome, ts []vtest, prelude, tag string, args ...string) bool {
	files := map[string]string{"main.vcl": vMain, "main.test.vcl": renderVTests(ts, prelude)}
	rr := falcoDir(files, append([]string{"-json"}, args...)...)
	oc.Evals++
	detail := map[string]any{"files": files, "args": args, "exit": rr.exit, "stdout": clip(rr.stdout, 6000), "stderr": clip(rr.stderr, 2000)}
	if rr.crashed || rr.timedOut {
		oc.Violate("verdicts:crash/"+tag, "falco test crashed or hung: "+clip(rr.stderr, 300), detail)
		return false
	}
	if err := rr.parseJSON(); err != nil {
		oc.Violate("verdicts:json-unparseable/"+tag, "falco test -json did not print a JSON document ("+err.Error()+"); stderr: "+clip(rr.stderr, 300), detail)
		return false
	}
	got := map[string][]string{}
	for _, e := range rr.entries {
		got[e.Name] = append(got[e.Name], strings.ToUpper(e.Scope)+"="+coarse(classify(e)))
	}
	ok := true
	anyFail := false
	for _, t := range ts {
		g := append([]string{}, got["test_"+t.name]...)
		w := append([]string{}, t.want...)
		for _, x := range w {
			if strings.HasSuffix(x, "=fail") {
				anyFail = true
			}
		}
		sort.Strings(g)
		sort.Strings(w)
		oc.Evals++
		if strings.Join(g, " ") != strings.Join(w, " ") {
			ok = false
			fam := strings.SplitN(t.name, "_", 2)[0]
			oc.Violate("verdicts:"+fam+"/"+t.name+"/"+tag, fmt.Sprintf("test_%s: result entries %v, expected %v (%s)", t.name, g, w, tag), map[string]any{"test": t, "args": args, "entries": got["test_"+t.name], "stderr": clip(rr.stderr, 600)})
			continue
		}
		oc.Tag("verdicts:" + strings.SplitN(t.name, "_", 2)[0])
		oc.NonTrivialS(t.name + tag)
	}
	if (rr.exit != 0) != anyFail {
		oc.Violate("verdicts:exit/"+tag, fmt.Sprintf("exit status %d with failed tests expected=%v", rr.exit, anyFail), detail)
	}
	return ok
}

type isoPair struct {
	name, prelude, a, b string
}

func isoPairs() []isoPair {
	return []isoPair{
		{"table_merge_then_set", "table overrides { \"color\": \"blue\", }\n",
			`testing.table_merge(dict, overrides); testing.table_set(dict, "color", "green"); testing.call_subroutine("vcl_recv"); assert.equal(req.http.Color, "green");`,
			`testing.table_merge(dict, overrides); testing.call_subroutine("vcl_recv"); assert.equal(req.http.Color, "blue");`},
		{"table_set_main_key", "",
			`testing.table_set(dict, "shape", "round"); testing.call_subroutine("vcl_recv"); assert.equal(req.http.Shape, "round");`,
			`testing.call_subroutine("vcl_recv"); assert.equal(req.http.Shape, "square");`},
		{"table_set_new_key", "",
			`testing.table_set(dict, "color", "red"); testing.call_subroutine("vcl_recv"); assert.equal(req.http.Color, "red");`,
			`testing.call_subroutine("vcl_recv"); assert.equal(req.http.Color, "none");`},
		{"mock_not_restored", "sub mock_helper { set req.http.Helper = \"mocked\"; }\n",
			`testing.mock("helper", "mock_helper"); testing.call_subroutine("vcl_recv"); assert.equal(req.http.Helper, "mocked");`,
			`testing.call_subroutine("vcl_recv"); assert.equal(req.http.Helper, "called");`},
		{"inject_variable", "",
			`testing.inject_variable("client.geo.city", "tokyo"); assert.equal(client.geo.city, "tokyo");`,
			`assert.not_equal(client.geo.city, "tokyo");`},
		{"request_header", "",
			`set req.http.X-Debug = "1"; set req.http.Host = "a.example.com"; assert.equal(req.http.X-Debug, "1");`,
			`assert.is_notset(req.http.X-Debug); assert.not_equal(req.http.Host, "a.example.com");`},
		{"call_counts", "",
			`testing.call_subroutine("vcl_recv"); testing.call_subroutine("vcl_recv"); assert.subroutine_called("helper", 2);`,
			`testing.call_subroutine("vcl_recv"); assert.subroutine_called("helper", 1);`},
		{"state_and_error", "",
			`testing.call_subroutine("deny"); assert.error(403);`,
			`assert.not_error(); testing.call_subroutine("normalize"); assert.not_error();`},
		{"table_merge_other", "table overrides { \"k\": \"changed\", \"extra\": \"e\", }\n",
			`testing.table_merge(other_dict, overrides); assert.equal(table.lookup(other_dict, "k"), "changed"); assert.equal(table.lookup(other_dict, "extra"), "e");`,
			`assert.equal(table.lookup(other_dict, "k"), "v"); assert.equal(table.lookup(other_dict, "extra", "none"), "none");`},
	}
}

func runVerdicts(oc *fw.Outcome) {
	ts := verdictTests()
	// every test alone is not affordable; the whole file, its reversal, and both under --coverage
	rev := make([]vtest, len(ts))
	for i := range ts {
		rev[len(ts)-1-i] = ts[i]
	}
	checkVTests(oc, ts, "", "file-order")
	checkVTests(oc, rev, "", "reversed")
	checkVTests(oc, ts, "", "file-order+coverage", "--coverage")
	checkVTests(oc, rev, "", "reversed+coverage", "--coverage")
	for _, p := range isoPairs() {
		a := vt("iso_"+p.name+"_a", p.a)
		b := vt("iso_"+p.name+"_b", p.b)
		for _, ord := range []struct {
			tag string
			ts  []vtest
		}{{"a-then-b", []vtest{a, b}}, {"b-then-a", []vtest{b, a}}, {"b-alone", []vtest{b}}, {"a-then-b-then-b", []vtest{a, b, vt("iso_"+p.name+"_b2", p.b)}}} {
			checkVTests(oc, ord.ts, p.prelude, "iso:"+p.name+"/"+ord.tag)
		}
	}
}
