package main

// Deterministic families next to the generated files:
//
//	multi  - several test files in one run: the exit status, the per-file verdicts and the totals,
//	         for every arrangement of {all-pass, has-fail, has-error, only-skip} over three files
//	argmsg - every assertion function with each of its optional trailing arguments (expected text,
//	         custom message): the verdict is the one the arguments imply, the message never changes it
//	tags   - every @tag list of 1..3 tags (plain and inverse) x sets of -t options, against the
//	         documented matching table generalised to lists ("run if any pair matches")

import (
	"bytes"
	"fmt"
	"os"
	"os/exec"
	"path/filepath"
	"regexp"
	"sort"
	"strings"
	"syscall"
	"time"

	"verif/harness/fw"
)

type xcase struct {
	Fam string `json:"fam"`
	A   int    `json:"a"`
	B   int    `json:"b"`
}

func genExtra(g *fw.GenCtx) {
	for a := 0; a < 64; a += 8 {
		g.Emit("extra", xcase{Fam: "multi", A: a, B: a + 8})
	}
	g.Emit("extra", xcase{Fam: "argmsg"})
	for a := 0; a < len(cliTagSets); a++ {
		g.Emit("extra", xcase{Fam: "tags", A: a})
	}
}

func falcoDir(files map[string]string, args ...string) runRes {
	base := filepath.Join(fw.Verif, ".build", "tmp")
	os.MkdirAll(base, 0o755)
	dir, err := os.MkdirTemp(base, "c10x-")
	if err != nil {
		return runRes{exit: -1, stderr: err.Error()}
	}
	defer os.RemoveAll(dir)
	var names []string
	for n, t := range files {
		os.WriteFile(filepath.Join(dir, n), []byte(t), 0o644)
		names = append(names, n)
	}
	sort.Strings(names)
	for _, n := range names {
		fw.JournalS(n + ":\n" + files[n])
	}
	argv := append([]string{"test"}, args...)
	argv = append(argv, "main.vcl")
	cmd := exec.Command(fw.FalcoBin(), argv...)
	cmd.Dir = dir
	cmd.Env = []string{"HOME=" + dir, "PATH=/usr/bin:/bin", "GOMAXPROCS=2", "NO_COLOR=1", "TERM=xterm"}
	var so, se bytes.Buffer
	cmd.Stdout, cmd.Stderr = &so, &se
	cmd.SysProcAttr = &syscall.SysProcAttr{Setpgid: true}
	rr := runRes{dir: dir}
	runCount++
	if err := cmd.Start(); err != nil {
		rr.exit = -1
		rr.stderr = err.Error()
		return rr
	}
	done := make(chan error, 1)
	go func() { done <- cmd.Wait() }()
	select {
	case <-done:
	case <-time.After(90 * time.Second):
		syscall.Kill(-cmd.Process.Pid, syscall.SIGKILL)
		<-done
		rr.timedOut = true
	}
	rr.stdout, rr.stderr = so.String(), se.String()
	if ws, ok := cmd.ProcessState.Sys().(syscall.WaitStatus); ok {
		if ws.Signaled() {
			rr.crashed = true
			rr.exit = 128 + int(ws.Signal())
		} else {
			rr.exit = ws.ExitStatus()
		}
	}
	if strings.Contains(rr.stderr, "panic: ") || strings.Contains(rr.stderr, "fatal error: ") || strings.Contains(rr.stderr, "goroutine ") {
		rr.crashed = true
	}
	return rr
}

const xMain = `backend be1 { .host = "127.0.0.1"; .port = "80"; }
sub helper { set req.http.Helper = "called"; }
sub vcl_recv {
#FASTLY RECV
  set req.http.A = "1";
  set req.http.Json = "{%22a%22: 1}";
  if (req.http.Do == "error") {
    error 601 "custom";
  }
  if (req.http.Do == "restart") {
    restart;
  }
  call helper;
  return(lookup);
}
`

func runExtra(oc *fw.Outcome, xc xcase) {
	switch xc.Fam {
	case "multi":
		for k := xc.A; k < xc.B; k++ {
			runMulti(oc, k)
		}
	case "argmsg":
		runArgMsg(oc)
	case "tags":
		runTags(oc, xc.A)
	}
}

// ---- multi --------------------------------------------------------------------------------------

var fileClasses = []string{"all-pass", "has-fail", "has-error", "only-skip"}

func classTests(class string, tag string) (text string, pass, fail, skip int) {
	t := func(name, ann, body string) string {
		return ann + "// @scope: recv\nsub " + name + "_" + tag + " {\n" + body + "\n}\n\n"
	}
	var sb strings.Builder
	sb.WriteString(t("test_ok1", "", `  set req.http.X = "1";`+"\n"+`  assert.equal(req.http.X, "1");`))
	pass++
	switch class {
	case "all-pass":
		sb.WriteString(t("test_ok2", "", `  assert.true(true);`))
		pass++
	case "has-fail":
		sb.WriteString(t("test_bad", "", `  assert.equal(req.http.Nope, "1");`))
		fail++
		sb.WriteString(t("test_ok2", "", `  assert.true(true);`))
		pass++
	case "has-error":
		sb.WriteString(t("test_err", "", `  testing.call_subroutine("no_such_subroutine");`))
		fail++
	case "only-skip":
		// the passing test above is replaced: the file has nothing but skipped tests
		sb.Reset()
		pass = 0
		sb.WriteString(t("test_skip1", "// @skip\n", `  assert.true(false);`))
		sb.WriteString(t("test_skip2", "// @skip\n", `  assert.true(false);`))
		skip += 2
	}
	return sb.String(), pass, fail, skip
}

var plainSummaryRe = regexp.MustCompile(`(\d+) passed, (\d+) failed(?:, (\d+) skipped)?, (\d+) total`)

func runMulti(oc *fw.Outcome, k int) {
	cls := []string{fileClasses[k%4], fileClasses[(k/4)%4], fileClasses[(k/16)%4]}
	files := map[string]string{"main.vcl": xMain}
	pass, fail, skip := 0, 0, 0
	per := map[string][3]int{}
	for i, c := range cls {
		name := fmt.Sprintf("%c.test.vcl", 'a'+i)
		text, p, f, s := classTests(c, string(rune('a'+i)))
		files[name] = text
		pass, fail, skip = pass+p, fail+f, skip+s
		per[name] = [3]int{p, f, s}
	}
	shape := strings.Join(cls, ",")
	detail := func(rr runRes) map[string]any {
		return map[string]any{"files": files, "classes": shape, "exit": rr.exit, "stdout": clip(rr.stdout, 3000), "stderr": clip(rr.stderr, 1500)}
	}
	wantExit := 0
	if fail > 0 {
		wantExit = 1
	}
	firstFailing := "none"
	for i, c := range cls {
		if c == "has-fail" || c == "has-error" {
			firstFailing = []string{"first", "middle", "last"}[i]
		}
	}
	for _, mode := range []string{"plain", "json"} {
		var args []string
		if mode == "json" {
			args = []string{"-json"}
		}
		rr := falcoDir(files, args...)
		oc.Evals++
		if rr.crashed || rr.timedOut {
			oc.Violate("multi:crash/"+mode, "falco test crashed or hung on several test files", detail(rr))
			continue
		}
		if (rr.exit != 0) != (wantExit != 0) {
			oc.Violate(fmt.Sprintf("multi:exit/%s/last-failing-file=%s", mode, firstFailing), fmt.Sprintf("exit status %d with %d failed tests over three files (%s)", rr.exit, fail, shape), detail(rr))
			continue
		}
		if mode == "json" {
			if err := rr.parseJSON(); err != nil {
				oc.Violate("multi:json/unparseable", "falco test -json did not print a JSON document: "+err.Error(), detail(rr))
				continue
			}
			gotPer := map[string][3]int{}
			for _, t := range rr.j.Tests {
				var c [3]int
				for _, e := range t.Suites {
					switch coarse(classify(e)) {
					case "pass":
						c[0]++
					case "fail":
						c[1]++
					case "skip":
						c[2]++
					}
				}
				gotPer[filepath.Base(t.File)] = c
			}
			for n, w := range per {
				if gotPer[n] != w {
					oc.Violate("multi:json/per-file", fmt.Sprintf("%s: result entries (passed, failed, skipped) = %v, constructed %v (%s)", n, gotPer[n], w, shape), detail(rr))
				}
			}
			if s := rr.j.Summary; s != nil && (s.Fails != fail || s.Skips != skip) {
				oc.Violate("multi:json/summary", fmt.Sprintf("summary fails=%d skips=%d, constructed %d / %d (%s)", s.Fails, s.Skips, fail, skip, shape), detail(rr))
			}
		} else {
			m := plainSummaryRe.FindStringSubmatch(rr.stdout + rr.stderr)
			if m == nil {
				oc.Violate("multi:plain/no-summary", "no summary line in the output", detail(rr))
				continue
			}
			got := fmt.Sprintf("%s/%s/%s/%s", m[1], m[2], m[3], m[4])
			sk := fmt.Sprint(skip)
			if skip == 0 && m[3] == "" {
				sk = ""
			}
			want := fmt.Sprintf("%d/%d/%s/%d", pass, fail, sk, pass+fail+skip)
			if got != want {
				oc.Violate("multi:plain/summary", fmt.Sprintf("summary passed/failed/skipped/total %s, constructed %s (%s)", got, want, shape), detail(rr))
			}
		}
		oc.Tag("multi:" + mode + ":last-failing-file=" + firstFailing)
		oc.NonTrivialS(mode + shape)
	}
}

// ---- argmsg -------------------------------------------------------------------------------------

type argForm struct {
	fn    string
	setup string   // statements before the assertion
	base  []string // required arguments
	opt   []string // optional arguments in order before the message (each may be left out from the right)
	hold  bool     // verdict with base arguments only
	// holdOpt[i]: verdict when opt[0..i] are given
	holdOpt []bool
}

func argForms() []argForm {
	callRecv := `testing.call_subroutine("vcl_recv");`
	doErr := `set req.http.Do = "error"; ` + callRecv
	doRestart := `set req.http.Do = "restart"; ` + callRecv
	f := func(fn, setup string, hold bool, base ...string) argForm {
		return argForm{fn: fn, setup: setup, base: base, hold: hold}
	}
	forms := []argForm{
		f("assert.true", "", true, "true"), f("assert.true", "", false, "false"),
		f("assert.false", "", true, "false"), f("assert.false", "", false, "true"),
		f("assert.equal", callRecv, true, "req.http.A", `"1"`), f("assert.equal", callRecv, false, "req.http.A", `"2"`),
		f("assert.not_equal", callRecv, true, "req.http.A", `"2"`), f("assert.not_equal", callRecv, false, "req.http.A", `"1"`),
		f("assert.strict_equal", callRecv, true, "req.http.A", `"1"`), f("assert.strict_equal", callRecv, false, "req.http.A", `"2"`),
		f("assert.not_strict_equal", callRecv, true, "req.http.A", `"2"`), f("assert.not_strict_equal", callRecv, false, "req.http.A", `"1"`),
		f("assert.equal_fold", `set req.http.B = "AbC";`, true, "req.http.B", `"aBc"`), f("assert.equal_fold", `set req.http.B = "AbC";`, false, "req.http.B", `"abd"`),
		f("assert.match", `set req.http.B = "abc";`, true, "req.http.B", `"^a.c$"`), f("assert.match", `set req.http.B = "abc";`, false, "req.http.B", `"^x"`),
		f("assert.not_match", `set req.http.B = "abc";`, true, "req.http.B", `"^x"`), f("assert.not_match", `set req.http.B = "abc";`, false, "req.http.B", `"^a"`),
		f("assert.contains", `set req.http.B = "abc";`, true, "req.http.B", `"b"`), f("assert.contains", `set req.http.B = "abc";`, false, "req.http.B", `"x"`),
		f("assert.not_contains", `set req.http.B = "abc";`, true, "req.http.B", `"x"`), f("assert.not_contains", `set req.http.B = "abc";`, false, "req.http.B", `"b"`),
		f("assert.starts_with", `set req.http.B = "abc";`, true, "req.http.B", `"ab"`), f("assert.starts_with", `set req.http.B = "abc";`, false, "req.http.B", `"bc"`),
		f("assert.ends_with", `set req.http.B = "abc";`, true, "req.http.B", `"bc"`), f("assert.ends_with", `set req.http.B = "abc";`, false, "req.http.B", `"ab"`),
		f("assert.is_notset", "", true, "req.http.Never-Set"), f("assert.is_notset", `set req.http.B = "abc";`, false, "req.http.B"),
		f("assert.is_json", callRecv, true, "req.http.Json"), f("assert.is_json", `set req.http.B = "{not json";`, false, "req.http.B"),
		f("assert.state", callRecv, true, "lookup"), f("assert.state", callRecv, false, "pass"),
		f("assert.not_state", callRecv, true, "pass"), f("assert.not_state", callRecv, false, "lookup"),
		f("assert.restart", doRestart, true), f("assert.restart", callRecv, false),
		f("assert.not_restart", callRecv, true), f("assert.not_restart", doRestart, false),
		f("assert.not_error", callRecv, true), f("assert.not_error", doErr, false),
		f("assert.subroutine_called", callRecv, true, `"helper"`), f("assert.subroutine_called", callRecv, false, `"vcl_fetch"`),
		f("assert.not_subroutine_called", callRecv, true, `"vcl_fetch"`), f("assert.not_subroutine_called", callRecv, false, `"helper"`),
	}
	// testing.inject_variable takes the VALUE of its argument: a later assignment to the local it was
	// read from does not change the injected variable
	forms = append(forms,
		f("assert.equal", `declare local var.s STRING; set var.s = "tokyo"; testing.inject_variable("client.geo.city", var.s); set var.s = "osaka";`, true, "client.geo.city", `"tokyo"`),
		f("assert.equal", `declare local var.s STRING; set var.s = "tokyo"; testing.inject_variable("client.geo.city", var.s); set var.s = "osaka";`, false, "client.geo.city", `"osaka"`),
		f("assert.equal", `declare local var.i INTEGER; set var.i = 7; testing.inject_variable("client.geo.metro_code", var.i); set var.i += 1;`, true, "client.geo.metro_code", "7"),
		f("assert.equal", `declare local var.s STRING; set var.s = "a"; testing.inject_variable("client.geo.city", var.s); set var.s = var.s "b"; testing.inject_variable("client.geo.country_code", var.s); set var.s = "c";`, true, "client.geo.city client.geo.country_code", `"aab"`),
	)
	// assert.error(code [, response text]) — each combination of right/wrong code and text
	for _, code := range []struct {
		v  string
		ok bool
	}{{"601", true}, {"602", false}} {
		for _, text := range []struct {
			v  string
			ok bool
		}{{`"custom"`, true}, {`"other"`, false}, {`""`, false}} {
			forms = append(forms, argForm{fn: "assert.error", setup: doErr, base: []string{code.v}, opt: []string{text.v}, hold: code.ok, holdOpt: []bool{code.ok && text.ok}})
		}
	}
	forms = append(forms, argForm{fn: "assert.error", setup: callRecv, base: []string{"601"}, opt: []string{`"custom"`}, hold: false, holdOpt: []bool{false}})
	// assert.subroutine_called(name [, times])
	forms = append(forms,
		argForm{fn: "assert.subroutine_called", setup: callRecv, base: []string{`"helper"`}, opt: []string{"1"}, hold: true, holdOpt: []bool{true}},
		argForm{fn: "assert.subroutine_called", setup: callRecv, base: []string{`"helper"`}, opt: []string{"2"}, hold: true, holdOpt: []bool{false}},
		argForm{fn: "assert.subroutine_called", setup: callRecv + " " + callRecv, base: []string{`"helper"`}, opt: []string{"2"}, hold: true, holdOpt: []bool{true}},
	)
	return forms
}

func runArgMsg(oc *fw.Outcome) {
	forms := argForms()
	type tcase struct {
		name string
		hold bool
		what string
	}
	var cases []tcase
	var sb strings.Builder
	n := 0
	add := func(fm argForm, args []string, hold bool, what string) {
		n++
		name := fmt.Sprintf("test_%03d", n)
		call := fm.fn + "(" + strings.Join(args, ", ") + ");"
		sb.WriteString("// @scope: recv\nsub " + name + " {\n")
		if fm.setup != "" {
			sb.WriteString("  " + fm.setup + "\n")
		}
		sb.WriteString("  " + call + "\n}\n\n")
		cases = append(cases, tcase{name, hold, fm.fn + "/" + what + ": " + fm.setup + " " + call})
	}
	for _, fm := range forms {
		add(fm, fm.base, fm.hold, "base")
		args := append([]string{}, fm.base...)
		for i, o := range fm.opt {
			args = append(args, o)
			add(fm, args, fm.holdOpt[i], fmt.Sprintf("opt%d", i+1))
		}
		// the custom message goes after all optional arguments and never changes the verdict
		hold := fm.hold
		if len(fm.opt) > 0 {
			hold = fm.holdOpt[len(fm.opt)-1]
		}
		add(fm, append(append([]string{}, args...), `"CUSTOM-MSG"`), hold, "with-message")
		add(fm, append(append([]string{}, args...), `""`), hold, "with-empty-message")
	}
	files := map[string]string{"main.vcl": xMain, "main.test.vcl": sb.String()}
	rr := falcoDir(files, "-json")
	oc.Evals++
	detail := map[string]any{"files": files, "exit": rr.exit, "stdout": clip(rr.stdout, 6000), "stderr": clip(rr.stderr, 1500)}
	if rr.crashed || rr.timedOut {
		oc.Violate("argmsg:crash", "falco test crashed or hung", detail)
		return
	}
	if err := rr.parseJSON(); err != nil {
		oc.Violate("argmsg:json/unparseable", "falco test -json did not print a JSON document: "+err.Error(), detail)
		return
	}
	by := map[string]jCase{}
	for _, e := range rr.entries {
		by[e.Name] = e
	}
	for _, c := range cases {
		e, ok := by[c.name]
		if !ok {
			oc.Violate("argmsg:missing", "no result entry for "+c.what, detail)
			continue
		}
		oc.Evals++
		v := classify(e)
		fn := strings.SplitN(c.what, ":", 2)[0]
		if v == "fail(testing-error)" || v == "fail(runtime-error)" {
			// the form is not accepted by this tree (arity): not a verdict, reported as inconclusive once
			oc.Inconc = append(oc.Inconc, "argmsg: form not accepted: "+c.what+" -> "+e.Error)
			continue
		}
		if (coarse(v) == "pass") != c.hold {
			oc.Violate("argmsg:verdict/"+fn, fmt.Sprintf("%s: reported %s (%q), the arguments imply %s", c.what, v, e.Error, map[bool]string{true: "pass", false: "fail"}[c.hold]), map[string]any{"test": c.what, "entry": e})
			continue
		}
		oc.Tag("argmsg:" + fn + map[bool]string{true: "/hold", false: "/fail"}[c.hold])
		oc.NonTrivialS(c.what)
	}
}

// ---- tags ---------------------------------------------------------------------------------------

var cliTagSets = [][]string{nil, {"prod"}, {"dev"}, {"prod", "dev"}, {"qa"}, {"stg", "qa"}}

type tagSpec struct {
	name string
	inv  bool
}

func allTagSpecs() [][]tagSpec {
	names := []string{"prod", "dev", "stg"}
	var out [][]tagSpec
	var rec func(cur []tagSpec, used map[string]bool, left int)
	rec = func(cur []tagSpec, used map[string]bool, left int) {
		if len(cur) > 0 {
			out = append(out, append([]tagSpec{}, cur...))
		}
		if left == 0 {
			return
		}
		for _, n := range names {
			if used[n] {
				continue
			}
			used[n] = true
			for _, inv := range []bool{false, true} {
				rec(append(cur, tagSpec{n, inv}), used, left-1)
			}
			used[n] = false
		}
	}
	rec(nil, map[string]bool{}, 3)
	return out
}

// wantRun: docs/testing.md table, generalised to lists: without -t a test runs iff every tag is
// inverse; with -t it runs iff some (option, tag) pair matches (equal name and plain, or different
// name and inverse)
func wantRun(spec []tagSpec, cli []string) bool {
	if len(cli) == 0 {
		for _, s := range spec {
			if !s.inv {
				return false
			}
		}
		return true
	}
	for _, c := range cli {
		for _, s := range spec {
			if (s.name == c) != s.inv {
				return true
			}
		}
	}
	return false
}

func runTags(oc *fw.Outcome, ci int) {
	cli := cliTagSets[ci]
	specs := allTagSpecs()
	var sb strings.Builder
	type tcase struct {
		name string
		spec []tagSpec
		text string
	}
	var cases []tcase
	for i, sp := range specs {
		var parts []string
		for _, s := range sp {
			p := s.name
			if s.inv {
				p = "!" + p
			}
			parts = append(parts, p)
		}
		sep := []string{",", ", ", " , "}[i%3]
		text := strings.Join(parts, sep)
		name := fmt.Sprintf("test_tag_%03d", i)
		sb.WriteString("// @scope: recv\n// @tag: " + text + "\nsub " + name + " {\n  assert.true(true);\n}\n\n")
		cases = append(cases, tcase{name, sp, text})
	}
	sb.WriteString("// @scope: recv\nsub test_untagged {\n  assert.true(true);\n}\n")
	files := map[string]string{"main.vcl": xMain, "main.test.vcl": sb.String()}
	args := []string{"-json"}
	for _, c := range cli {
		args = append(args, "-t", c)
	}
	rr := falcoDir(files, args...)
	oc.Evals++
	detail := map[string]any{"files": files, "args": args, "exit": rr.exit, "stdout": clip(rr.stdout, 6000), "stderr": clip(rr.stderr, 1500)}
	if rr.crashed || rr.timedOut {
		oc.Violate("tags:crash", "falco test crashed or hung", detail)
		return
	}
	if err := rr.parseJSON(); err != nil {
		oc.Violate("tags:json/unparseable", "falco test -json did not print a JSON document: "+err.Error(), detail)
		return
	}
	by := map[string]jCase{}
	for _, e := range rr.entries {
		by[e.Name] = e
	}
	opt := "without -t"
	if len(cli) > 0 {
		opt = "-t " + strings.Join(cli, " -t ")
	}
	if e, ok := by["test_untagged"]; !ok || e.Skip {
		oc.Violate("tags:untagged-skipped", "a test without @tag was not run ("+opt+")", detail)
	}
	for _, c := range cases {
		e, ok := by[c.name]
		if !ok {
			oc.Violate("tags:missing", "no result entry for @tag: "+c.text, detail)
			continue
		}
		oc.Evals++
		want := wantRun(c.spec, cli)
		if e.Skip == want {
			shape := "plain-only"
			hasInv, hasPlain := false, false
			for _, s := range c.spec {
				if s.inv {
					hasInv = true
				} else {
					hasPlain = true
				}
			}
			switch {
			case hasInv && hasPlain:
				shape = "mixed"
			case hasInv:
				shape = "inverse-only"
			}
			oc.Violate(fmt.Sprintf("tags:verdict/%s/len=%d", shape, len(c.spec)), fmt.Sprintf("@tag: %s with %s: skipped=%v, the matching table says run=%v", c.text, opt, e.Skip, want), map[string]any{"tag": c.text, "args": args, "entry": e})
			continue
		}
		oc.Tag(fmt.Sprintf("tags:len=%d/%s", len(c.spec), map[bool]string{true: "run", false: "skip"}[want]))
		oc.NonTrivialS(c.text + opt)
	}
	// the exit status: every test that runs passes
	if rr.exit != 0 {
		oc.Violate("tags:exit", fmt.Sprintf("exit status %d although every test passed or was skipped (%s)", rr.exit, opt), detail)
	}
}
