package main

// The main VCL programs the generated test files run against. All three share the same
// declarations and the same library of "construct" subroutines (every construct that the
// coverage instrumentation rewrites lives in its own subroutine so that a difference between a
// run with and without --coverage can be attributed to one construct); they differ in their
// vcl_* subroutines.

const mainPrelude = `backend be1 { .host = "127.0.0.1"; .port = "80"; }
backend be2 { .host = "127.0.0.2"; .port = "80"; }
table t1 { "k": "v", "k2": "v2" }
ratecounter rc1 {}
penaltybox pb1 {}
acl internal { "10.0.0.0"/8; "192.0.2.0"/24; }

sub helper { set req.http.Helper = "called"; }
sub never_called { set req.http.Never = "1"; }
sub fn_label STRING { return "orig"; }

sub c_elseif {
  if (req.http.In == "1") {
    set req.http.Out = "one";
    log "elseif:1";
  } else if (req.http.In == "2") {
    set req.http.Out = "two";
  } elseif (req.http.In == "3") {
    set req.http.Out = "three";
    log "elseif:3";
  } elsif (req.http.In ~ "^4(.*)$") {
    set req.http.Out = "four:" re.group.1;
  } else {
    set req.http.Out = "other";
    log "elseif:else";
  }
  set req.http.After = "after-" req.http.Out;
}

sub c_elseif_noelse {
  set req.http.Out = "init";
  if (req.http.In == "1") {
    set req.http.Out = "one";
  } else if (req.http.In == "2") {
    set req.http.Out = "two";
  }
  log "noelse:" req.http.Out;
}

sub c_nested {
  if (req.http.In ~ "^a") {
    if (req.http.In == "a1") {
      set req.http.Out = "A1";
    } else if (req.http.In == "a2") {
      set req.http.Out = "A2";
    } else {
      set req.http.Out = "Ax";
    }
  } else if (req.http.In ~ "^b") {
    switch (req.http.In) {
    case "b1":
      set req.http.Out = "B1";
      break;
    default:
      set req.http.Out = "Bx";
      break;
    }
  } else {
    set req.http.Out = if(req.http.In, "set", "unset");
  }
}

sub c_switch {
  switch (req.http.In) {
  case "a":
    set req.http.Out = "A";
    break;
  case "b":
    set req.http.Out = "B";
    log "switch:b";
    fallthrough;
  case "c":
    set req.http.Out2 = "C";
    break;
  case ~ "^d":
    set req.http.Out = "D";
    break;
  default:
    set req.http.Out = "default";
    log "switch:default";
    break;
  }
  set req.http.After = "after-switch";
}

sub c_ifexpr {
  set req.http.Out = if(req.http.In == "1", "yes", "no");
  set req.http.Out2 = if(req.http.In, std.toupper(if(req.http.In == "2", "two", "nottwo")), "unset");
  log "ifexpr:" if(req.http.In == "1", "L1", "L0");
}

sub c_ifexpr_rate {
  set req.http.Out = if(ratelimit.check_rate("k", rc1, 1, 10, 100, pb1, 1m), "over", "under");
  set req.http.Count = ratecounter.rc1.bucket.60s;
}

sub c_ifexpr_cookie {
  set resp.http.Del = if(setcookie.delete_by_name(resp, "sid"), "deleted", "absent");
}

sub c_block {
  set req.http.Trace = "a";
  {
    set req.http.Trace = req.http.Trace "b";
    log "block:b";
    {
      set req.http.Trace = req.http.Trace "c";
    }
    if (req.http.In == "x") {
      {
        set req.http.Trace = req.http.Trace "x";
        log "block:x";
      }
    }
  }
  set req.http.Trace = req.http.Trace "d";
}

sub c_goto {
  if (req.http.In == "skip") {
    goto done;
  }
  set req.http.Out = "not-skipped";
  done:
  set req.http.After = "end";
}

sub c_state {
  if (req.http.In == "pass") {
    return(pass);
  } else if (req.http.In == "err") {
    error 901 "custom";
  } else if (req.http.In == "restart") {
    restart;
  }
  set req.http.Out = "fell";
  return(lookup);
}

sub c_calls {
  call helper;
  if (req.http.In == "twice") {
    call helper;
  }
  set req.http.Label = fn_label();
}

sub f_bucket(INTEGER var.n) INTEGER {
  if (var.n < 10) {
    return 1;
  } else if (var.n < 100) {
    return 2;
  } elseif (var.n < 1000) {
    return 3;
  }
  return 4;
}

sub f_ifexpr(STRING var.s) STRING {
  return if(var.s == "a", "A", "notA");
}

sub f_internal(IP var.addr) BOOL {
  if (var.addr ~ internal) {
    return true;
  }
  return false;
}
`

// Program A: request-side; else-if chain, functional sub and if-statement with return/error.
const mainA = `
sub vcl_recv {
  #FASTLY recv
  call helper;
  set req.http.Lookup = table.lookup(t1, "k", "none");
  call c_elseif;
  set req.http.Class = f_ifexpr(req.http.In);
  if (req.url ~ "^/pass") {
    return(pass);
  } else if (req.url ~ "^/err") {
    error 902 "recv-error";
  }
  return(lookup);
}

sub vcl_deliver {
  #FASTLY deliver
  set resp.http.X-Deliver = if(resp.status == 200, "ok", "not-ok");
  return(deliver);
}
`

// Program B: response-side; fetch/error/deliver with TTL decisions, synthetic and a switch.
const mainB = `
sub vcl_recv {
  #FASTLY recv
  if (req.http.In == "err") {
    error 903 "b-error";
  }
  call c_switch;
  return(lookup);
}

sub vcl_fetch {
  #FASTLY fetch
  if (beresp.status >= 500) {
    set beresp.ttl = 1s;
    set beresp.http.X-Class = "server-error";
    return(pass);
  } else if (beresp.status == 404) {
    set beresp.ttl = 60s;
    set beresp.http.X-Class = "not-found";
  } else {
    set beresp.ttl = if(beresp.http.Cache-Control ~ "private", 0s, 3600s);
    set beresp.http.X-Class = "ok";
  }
  return(deliver);
}

sub vcl_error {
  #FASTLY error
  if (obj.status == 903) {
    set obj.http.Content-Type = "text/plain";
    synthetic "b-error body";
    return(deliver);
  }
  return(deliver);
}

sub vcl_deliver {
  #FASTLY deliver
  switch (resp.http.Kind) {
  case "a":
    set resp.http.X-B = "kind-a";
    break;
  default:
    set resp.http.X-B = "kind-other";
    break;
  }
  return(deliver);
}
`

// Program C: backends, ACL, penalty box and injected variables in vcl_recv.
const mainC = `
sub vcl_recv {
  #FASTLY recv
  if (!backend.be1.healthy) {
    set req.backend = be2;
  } else {
    set req.backend = be1;
  }
  set req.http.Internal = if(client.ip ~ internal, "in", "out");
  if (ratelimit.penaltybox_has(pb1, "k")) {
    error 429 "limited";
  }
  set req.http.Region = server.region;
  set req.http.Host-Seen = req.http.Host;
  set req.http.Tbl = table.lookup(t1, "k", "none") "/" table.lookup(t1, "newk", "none");
  return(lookup);
}

sub vcl_deliver {
  #FASTLY deliver
  set resp.http.X-C = if(f_internal(client.ip), "internal", "external");
  return(deliver);
}
`

func mainVCL(which string) string {
	switch which {
	case "B":
		return mainPrelude + mainB
	case "C":
		return mainPrelude + mainC
	}
	return mainPrelude + mainA
}

// Declarations a test file may need (only emitted when a test of the file refers to them; a
// subroutine declared in a test file is itself run as a test by falco, so each one has a known
// verdict as well).
var sharedDecls = map[string]string{
	"merge_tbl":     "table merge_tbl { \"mk\": \"mv\", \"k\": \"merged\" }\n",
	"mock_helper":   "sub mock_helper {\n  set req.http.Helper = \"mocked\";\n}\n",
	"mock_fn_label": "sub mock_fn_label STRING {\n  return \"MOCK\";\n}\n",
	// a functional mock target WITH a parameter (docs: "you can mock the functional subroutine that returns some value")
	"mock_f_ifexpr": "sub mock_f_ifexpr(STRING var.s) STRING {\n  return \"MOCKED-\" var.s;\n}\n",
}

var sharedOrder = []string{"merge_tbl", "mock_helper", "mock_fn_label", "mock_f_ifexpr"}
