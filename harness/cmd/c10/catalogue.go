package main

import (
	"fmt"
	"math/rand"
	"regexp"
	"strconv"
	"strings"
	"unicode"
)

// A Fact is something known by construction about the state of a test at the point where its
// assertions run: the VCL expression Expr has type Typ and value Val; Alt is a different value of
// the same type.
type Fact struct {
	Expr string `json:"e"`
	Typ  string `json:"t"` // STRING INTEGER BOOL RTIME FLOAT BACKEND NOTSET
	Val  string `json:"v,omitempty"`
	Alt  string `json:"a,omitempty"`
	Lit  bool   `json:"l,omitempty"` // a literal: cannot be the left operand of a comparison in VCL
}

// SF are the known facts about the interpreter's testing state (what assert.state, assert.error,
// assert.restart and assert.subroutine_called look at).
type SF struct {
	State     string         `json:"state,omitempty"` // "" = no state (nothing called / custom sub without return)
	Restart   bool           `json:"restart,omitempty"`
	ErrCode   int            `json:"err_code,omitempty"`
	ErrResp   string         `json:"err_resp,omitempty"`
	Called    map[string]int `json:"called,omitempty"`
	NotCalled []string       `json:"not_called,omitempty"`
}

type Scenario struct {
	ID        string
	Construct string // what of the main VCL the scenario drives (names the coverage finding)
	Scopes    []string
	Prelude   []string
	Facts     []Fact
	SF        *SF
	Fixed     []Item // assertions that hold by construction and are always part of the body
	Multi     bool   // body may run in several scopes in a row on one interpreter (idempotent, scope-neutral)
	ProbeFor  string // the testing function / state whose leak from another test this scenario would expose
	Fx        string // the testing function / state this scenario changes
	Main      string // "" = any main program
	Needs     []string
	Logs      []string // expressions worth logging
	NoAssert  bool     // facts are only logged, not asserted (interpreter behaviour outside this property)
}

// Item is one step of a test body with a known effect on the verdict.
type Item struct {
	Kind    string   `json:"kind"`
	Code    []string `json:"code"`
	Fail    bool     `json:"fail,omitempty"`
	Class   string   `json:"class,omitempty"` // assertion | custom-message | testing-error | runtime-error | any
	Msg     string   `json:"msg,omitempty"`   // substring expected in the reported message (exact for custom-message)
	Asserts int      `json:"asserts"`         // assertion calls executed by this item
	Fact    string   `json:"fact,omitempty"`
}

func fS(e, v string) Fact { return Fact{Expr: e, Typ: "STRING", Val: v, Alt: v + "X"} }
func fI(e string, v int) Fact {
	return Fact{Expr: e, Typ: "INTEGER", Val: strconv.Itoa(v), Alt: strconv.Itoa(v + 1)}
}
func fB(e string, v bool) Fact {
	return Fact{Expr: e, Typ: "BOOL", Val: strconv.FormatBool(v), Alt: strconv.FormatBool(!v)}
}
func fN(e string) Fact       { return Fact{Expr: e, Typ: "NOTSET"} }
func fR(e, v, a string) Fact { return Fact{Expr: e, Typ: "RTIME", Val: v, Alt: a} }
func fF(e, v, a string) Fact { return Fact{Expr: e, Typ: "FLOAT", Val: v, Alt: a} }
func fBk(e, v, a string) Fact {
	return Fact{Expr: e, Typ: "BACKEND", Val: v, Alt: a}
}

func lit(typ, v string) string {
	if typ == "STRING" {
		return `"` + v + `"`
	}
	return v
}

var words = []string{"abc", "foo", "bar-baz", "Hello", "x1y2", "fastly", "edge/path", "k:v", "CamelCase", "zq", "Some-Value", "a/b/c"}

func word(r *rand.Rand) string { return words[r.Intn(len(words))] }

func swapCase(s string) string {
	var b strings.Builder
	for _, c := range s {
		switch {
		case unicode.IsUpper(c):
			b.WriteRune(unicode.ToLower(c))
		case unicode.IsLower(c):
			b.WriteRune(unicode.ToUpper(c))
		default:
			b.WriteRune(c)
		}
	}
	return b.String()
}

func noState() *SF {
	return &SF{Called: map[string]int{}, NotCalled: []string{"helper", "never_called", "c_switch"}}
}

var anyScope = []string{"recv", "hash", "hit", "miss", "pass", "fetch", "error", "deliver", "log"}

// ---- scenarios -------------------------------------------------------------------------------

func callSc(id, construct, sub string, in string, facts []Fact, sf *SF, logs ...string) Scenario {
	var pre []string
	if in != "" {
		pre = append(pre, fmt.Sprintf(`set req.http.In = "%s";`, in))
	}
	pre = append(pre, fmt.Sprintf(`testing.call_subroutine("%s");`, sub))
	if sf == nil {
		sf = &SF{Called: map[string]int{sub: 1}, NotCalled: []string{"never_called"}}
	}
	return Scenario{ID: id, Construct: construct, Scopes: []string{"recv"}, Prelude: pre, Facts: facts, SF: sf, Logs: logs}
}

// pureScenarios have random, trivially known values and do not touch the main VCL.
func pureScenario(r *rand.Rand, which int) Scenario {
	switch which % 3 {
	case 0:
		w, w2 := word(r), word(r)
		n := r.Intn(1000)
		return Scenario{ID: "literals", Scopes: anyScope, Multi: true, SF: noState(), Facts: []Fact{
			{Expr: `"` + w + `"`, Typ: "STRING", Val: w, Alt: w + "X", Lit: true},
			fS(`std.toupper("`+w+`")`, strings.ToUpper(w)),
			fS(`std.tolower("`+w2+`")`, strings.ToLower(w2)),
			fI(`std.strlen("`+w+`")`, len(w)),
			fI(`std.atoi("`+strconv.Itoa(n)+`")`, n),
			{Expr: strconv.Itoa(n), Typ: "INTEGER", Val: strconv.Itoa(n), Alt: strconv.Itoa(n + 1), Lit: true},
			{Expr: `if(req.http.Unset-Hdr, "no", "` + w + `")`, Typ: "STRING", Val: w, Alt: w + "X", Lit: true},
			fS(`table.lookup(t1, "k2", "none")`, "v2"),
			fS(`table.lookup(t1, "nokey", "none")`, "none"),
			fB(`table.contains(t1, "k2")`, true),
			fB(`table.contains(t1, "nokey")`, false),
			fB(`std.prefixof("`+w+`", "`+w[:1]+`")`, true),
			{Expr: "true", Typ: "BOOL", Val: "true", Alt: "false", Lit: true},
			{Expr: "false", Typ: "BOOL", Val: "false", Alt: "true", Lit: true},
			fN("req.http.Unset-Hdr"),
		}, Logs: []string{`std.toupper("` + w + `")`}}
	case 1:
		w := word(r)
		n := r.Intn(100000) - 500
		b := r.Intn(2) == 0
		return Scenario{ID: "locals", Scopes: anyScope, Multi: true, SF: noState(),
			Prelude: []string{
				"declare local var.s STRING;", `set var.s = "` + w + `";`,
				"declare local var.i INTEGER;", "set var.i = " + strconv.Itoa(n) + ";",
				"declare local var.b BOOL;", "set var.b = " + strconv.FormatBool(b) + ";",
				"declare local var.r RTIME;", "set var.r = 5s;",
				"declare local var.f FLOAT;", "set var.f = 1.5;",
				"declare local var.u STRING;",
			},
			Facts: []Fact{fS("var.s", w), fI("var.i", n), fB("var.b", b), fR("var.r", "5s", "6s"), fF("var.f", "1.5", "2.5"), fN("var.u"), fN("req.http.Unset-Hdr"),
				fI("std.strlen(var.s)", len(w))},
			Logs: []string{"var.s"}}
	}
	w, w2 := word(r), word(r)
	return Scenario{ID: "headers", Scopes: anyScope, Multi: true, SF: noState(),
		Prelude: []string{`set req.http.V-A = "` + w + `";`, `set req.http.V-B = "` + w2 + `";`, "unset req.http.V-Gone;"},
		Facts: []Fact{fS("req.http.V-A", w), fS("req.http.V-B", w2), fN("req.http.V-Gone"), fN("req.http.Unset-Hdr"),
			fI("std.strlen(req.http.V-A)", len(w)), fS(`req.http.V-A "-" req.http.V-B`, w+"-"+w2)},
		Logs: []string{"req.http.V-A"}}
}

func scopedHeaderScenario(r *rand.Rand, scope string) Scenario {
	w := word(r)
	obj := map[string]string{"deliver": "resp", "fetch": "beresp", "error": "obj", "pass": "bereq", "miss": "bereq", "log": "resp"}[scope]
	return Scenario{ID: "headers:" + obj, Scopes: []string{scope}, SF: noState(),
		Prelude: []string{`set ` + obj + `.http.V-S = "` + w + `";`},
		Facts:   []Fact{fS(obj+".http.V-S", w), fN(obj + ".http.V-None"), fN("req.http.Unset-Hdr")},
		Logs:    []string{obj + ".http.V-S"}}
}

var scopedHeaderScopes = []string{"deliver", "fetch", "error", "pass", "miss", "log"}

func constructScenarios() []Scenario {
	ne := func(names ...string) []string { return names }
	var out []Scenario
	add := func(s Scenario) { out = append(out, s) }
	// else-if chain (all four spellings)
	for _, c := range [][3]string{{"1", "one", "after-one"}, {"2", "two", "after-two"}, {"3", "three", "after-three"}, {"4xyz", "four:xyz", "after-four:xyz"}, {"zz", "other", "after-other"}, {"", "other", "after-other"}} {
		add(callSc("c_elseif/In="+c[0], "else-if-chain", "c_elseif", c[0], []Fact{fS("req.http.Out", c[1]), fS("req.http.After", c[2]), fN("req.http.Unset-Hdr")}, nil, "req.http.Out"))
	}
	for _, c := range [][2]string{{"1", "one"}, {"2", "two"}, {"3", "init"}} {
		add(callSc("c_elseif_noelse/In="+c[0], "else-if-chain(no else)", "c_elseif_noelse", c[0], []Fact{fS("req.http.Out", c[1]), fN("req.http.Unset-Hdr")}, nil))
	}
	for _, c := range [][2]string{{"a1", "A1"}, {"a2", "A2"}, {"a3", "Ax"}, {"b1", "B1"}, {"b2", "Bx"}, {"c", "set"}, {"", "unset"}} {
		add(callSc("c_nested/In="+c[0], "nested-if/switch", "c_nested", c[0], []Fact{fS("req.http.Out", c[1]), fN("req.http.Unset-Hdr")}, nil, "req.http.Out"))
	}
	// switch with fallthrough, regex case and default
	add(callSc("c_switch/In=a", "switch", "c_switch", "a", []Fact{fS("req.http.Out", "A"), fN("req.http.Out2"), fS("req.http.After", "after-switch")}, nil))
	add(callSc("c_switch/In=b", "switch(fallthrough)", "c_switch", "b", []Fact{fS("req.http.Out", "B"), fS("req.http.Out2", "C"), fS("req.http.After", "after-switch")}, nil))
	add(callSc("c_switch/In=c", "switch", "c_switch", "c", []Fact{fN("req.http.Out"), fS("req.http.Out2", "C"), fS("req.http.After", "after-switch")}, nil))
	add(callSc("c_switch/In=dx", "switch(regex case)", "c_switch", "dx", []Fact{fS("req.http.Out", "D"), fN("req.http.Out2"), fS("req.http.After", "after-switch")}, nil))
	add(callSc("c_switch/In=zz", "switch(default)", "c_switch", "zz", []Fact{fS("req.http.Out", "default"), fN("req.http.Out2"), fS("req.http.After", "after-switch")}, nil))
	add(callSc("c_switch/In=", "switch(default)", "c_switch", "", []Fact{fS("req.http.Out", "default"), fN("req.http.Out2")}, nil))
	// if-expressions
	add(callSc("c_ifexpr/In=1", "if-expression", "c_ifexpr", "1", []Fact{fS("req.http.Out", "yes"), fS("req.http.Out2", "NOTTWO"), fN("req.http.Unset-Hdr")}, nil))
	add(callSc("c_ifexpr/In=2", "if-expression", "c_ifexpr", "2", []Fact{fS("req.http.Out", "no"), fS("req.http.Out2", "TWO"), fN("req.http.Unset-Hdr")}, nil))
	add(callSc("c_ifexpr/In=", "if-expression", "c_ifexpr", "", []Fact{fS("req.http.Out", "no"), fS("req.http.Out2", "unset"), fN("req.http.Unset-Hdr")}, nil))
	add(callSc("c_ifexpr_rate", "if-expression(condition with a side effect)", "c_ifexpr_rate", "", []Fact{fS("req.http.Out", "under"), fS("req.http.Count", "1"), fN("req.http.Unset-Hdr")}, nil, "req.http.Count"))
	{
		s := callSc("c_ifexpr_cookie/present", "if-expression(condition with a side effect)", "c_ifexpr_cookie", "", []Fact{fS("resp.http.Del", "deleted"), fN("req.http.Unset-Hdr")}, nil, "resp.http.Del")
		s.Scopes = []string{"deliver"}
		s.Prelude = append([]string{`add resp.http.Set-Cookie = "sid=abc; path=/";`}, s.Prelude...)
		add(s)
		s2 := callSc("c_ifexpr_cookie/absent", "if-expression(condition with a side effect)", "c_ifexpr_cookie", "", []Fact{fS("resp.http.Del", "absent"), fN("req.http.Unset-Hdr")}, nil)
		s2.Scopes = []string{"deliver"}
		add(s2)
	}
	// bare nested blocks
	add(callSc("c_block/In=", "bare-block", "c_block", "", []Fact{fS("req.http.Trace", "abcd")}, nil, "req.http.Trace"))
	add(callSc("c_block/In=x", "bare-block(nested in if)", "c_block", "x", []Fact{fS("req.http.Trace", "abcxd")}, nil, "req.http.Trace"))
	// goto: what the interpreter does with it is outside this property; only logged (compared between runs)
	for _, in := range []string{"skip", "x"} {
		s := callSc("c_goto/In="+in, "goto", "c_goto", in, []Fact{fS("req.http.After", "end")}, nil, `req.http.Out "|" req.http.After`)
		add(s)
	}
	// return / error / restart inside an else-if chain
	add(callSc("c_state/In=pass", "return-in-else-if", "c_state", "pass", []Fact{fN("req.http.Out")}, &SF{State: "pass", Called: map[string]int{"c_state": 1}, NotCalled: ne("helper", "never_called")}))
	add(callSc("c_state/In=err", "error-in-else-if", "c_state", "err", []Fact{fN("req.http.Out")}, &SF{State: "error", ErrCode: 901, ErrResp: "custom", Called: map[string]int{"c_state": 1}, NotCalled: ne("helper", "never_called")}))
	add(callSc("c_state/In=restart", "restart-in-else-if", "c_state", "restart", []Fact{fN("req.http.Out")}, &SF{State: "restart", Restart: true, Called: map[string]int{"c_state": 1}, NotCalled: ne("helper", "never_called")}))
	add(callSc("c_state/In=x", "return-in-else-if", "c_state", "x", []Fact{fS("req.http.Out", "fell")}, &SF{State: "lookup", Called: map[string]int{"c_state": 1}, NotCalled: ne("helper", "never_called")}))
	add(callSc("c_calls", "call", "c_calls", "", []Fact{fS("req.http.Helper", "called"), fS("req.http.Label", "orig")}, &SF{Called: map[string]int{"c_calls": 1, "helper": 1, "fn_label": 1}, NotCalled: ne("never_called", "c_switch")}))
	add(callSc("c_calls/In=twice", "call", "c_calls", "twice", []Fact{fS("req.http.Helper", "called")}, &SF{Called: map[string]int{"c_calls": 1, "helper": 2, "fn_label": 1}, NotCalled: ne("never_called", "c_switch")}))
	// functional subroutines
	for _, c := range [][2]int{{5, 1}, {50, 2}, {500, 3}, {5000, 4}} {
		add(Scenario{ID: fmt.Sprintf("f_bucket(%d)", c[0]), Construct: "functional-sub(else-if returns)", Scopes: []string{"recv"},
			Prelude: []string{"declare local var.ret INTEGER;", fmt.Sprintf(`set var.ret = testing.call_subroutine("f_bucket", %d);`, c[0])},
			Facts:   []Fact{fI("var.ret", c[1]), fN("req.http.Unset-Hdr")}, SF: &SF{NotCalled: ne("helper", "never_called")}})
	}
	for _, c := range [][2]string{{"a", "A"}, {"b", "notA"}} {
		add(Scenario{ID: "f_ifexpr(" + c[0] + ")", Construct: "functional-sub(return if-expression)", Scopes: []string{"recv"},
			Prelude: []string{"declare local var.rs STRING;", fmt.Sprintf(`set var.rs = testing.call_subroutine("f_ifexpr", "%s");`, c[0])},
			Facts:   []Fact{fS("var.rs", c[1]), fN("req.http.Unset-Hdr")}, SF: &SF{NotCalled: ne("helper", "never_called")}})
	}
	add(Scenario{ID: "f_internal(client.ip)", Construct: "functional-sub(BOOL)", Scopes: []string{"recv"},
		Prelude: []string{"declare local var.rb BOOL;", `set var.rb = testing.call_subroutine("f_internal", client.ip);`},
		Facts:   []Fact{fB("var.rb", true), fN("req.http.Unset-Hdr")}, SF: &SF{NotCalled: ne("helper", "never_called")}})

	// ---- vcl_* of each program
	mk := func(main, id, construct, scope string, pre []string, facts []Fact, sf *SF) {
		add(Scenario{ID: main + ":" + id, Construct: construct, Scopes: []string{scope}, Prelude: pre, Facts: facts, SF: sf, Main: main})
	}
	mk("A", "vcl_recv/In=1", "vcl_recv@A", "recv", []string{`set req.http.In = "1";`, `testing.call_subroutine("vcl_recv");`},
		[]Fact{fS("req.http.Lookup", "v"), fS("req.http.Out", "one"), fS("req.http.Class", "notA"), fS("req.http.Helper", "called")},
		&SF{State: "lookup", Called: map[string]int{"vcl_recv": 1, "helper": 1, "c_elseif": 1, "f_ifexpr": 1}, NotCalled: ne("never_called", "c_switch")})
	mk("A", "vcl_recv/In=a", "vcl_recv@A", "recv", []string{`set req.http.In = "a";`, `testing.call_subroutine("vcl_recv");`},
		[]Fact{fS("req.http.Out", "other"), fS("req.http.Class", "A")},
		&SF{State: "lookup", Called: map[string]int{"vcl_recv": 1, "helper": 1, "c_elseif": 1}, NotCalled: ne("never_called", "c_switch")})
	mk("A", "vcl_recv/pass", "vcl_recv@A", "recv", []string{`set req.url = "/pass";`, `testing.call_subroutine("vcl_recv");`},
		[]Fact{fS("req.http.Helper", "called"), fS("req.url", "/pass")},
		&SF{State: "pass", Called: map[string]int{"vcl_recv": 1, "helper": 1}, NotCalled: ne("never_called")})
	mk("A", "vcl_recv/err", "vcl_recv@A", "recv", []string{`set req.url = "/err";`, `testing.call_subroutine("vcl_recv");`},
		[]Fact{fS("req.http.Helper", "called")},
		&SF{State: "error", ErrCode: 902, ErrResp: "recv-error", Called: map[string]int{"vcl_recv": 1, "helper": 1}, NotCalled: ne("never_called")})
	mk("A", "vcl_deliver/200", "vcl_deliver@A", "deliver", []string{`testing.call_subroutine("vcl_deliver");`},
		[]Fact{fS("resp.http.X-Deliver", "ok"), fI("resp.status", 200)},
		&SF{State: "deliver", Called: map[string]int{"vcl_deliver": 1}, NotCalled: ne("helper", "never_called")})
	mk("A", "vcl_deliver/404", "vcl_deliver@A", "deliver", []string{"set resp.status = 404;", `testing.call_subroutine("vcl_deliver");`},
		[]Fact{fS("resp.http.X-Deliver", "not-ok"), fI("resp.status", 404)},
		&SF{State: "deliver", Called: map[string]int{"vcl_deliver": 1}, NotCalled: ne("helper", "never_called")})

	mk("B", "vcl_recv/In=err", "vcl_recv@B", "recv", []string{`set req.http.In = "err";`, `testing.call_subroutine("vcl_recv");`},
		[]Fact{fN("req.http.Out")},
		&SF{State: "error", ErrCode: 903, ErrResp: "b-error", Called: map[string]int{"vcl_recv": 1}, NotCalled: ne("c_switch", "helper")})
	mk("B", "vcl_recv/In=a", "vcl_recv@B", "recv", []string{`set req.http.In = "a";`, `testing.call_subroutine("vcl_recv");`},
		[]Fact{fS("req.http.Out", "A"), fS("req.http.After", "after-switch")},
		&SF{State: "lookup", Called: map[string]int{"vcl_recv": 1, "c_switch": 1}, NotCalled: ne("helper", "never_called")})
	mk("B", "vcl_fetch/503", "vcl_fetch@B", "fetch", []string{"set beresp.status = 503;", `testing.call_subroutine("vcl_fetch");`},
		[]Fact{fR("beresp.ttl", "1s", "7s"), fS("beresp.http.X-Class", "server-error")},
		&SF{State: "pass", Called: map[string]int{"vcl_fetch": 1}, NotCalled: ne("helper")})
	mk("B", "vcl_fetch/404", "vcl_fetch@B", "fetch", []string{"set beresp.status = 404;", `testing.call_subroutine("vcl_fetch");`},
		[]Fact{fR("beresp.ttl", "60s", "7s"), fS("beresp.http.X-Class", "not-found")},
		&SF{State: "deliver", Called: map[string]int{"vcl_fetch": 1}, NotCalled: ne("helper")})
	mk("B", "vcl_fetch/private", "vcl_fetch@B", "fetch", []string{`set beresp.http.Cache-Control = "private";`, `testing.call_subroutine("vcl_fetch");`},
		[]Fact{fR("beresp.ttl", "0s", "7s"), fS("beresp.http.X-Class", "ok")},
		&SF{State: "deliver", Called: map[string]int{"vcl_fetch": 1}, NotCalled: ne("helper")})
	mk("B", "vcl_fetch/200", "vcl_fetch@B", "fetch", []string{`testing.call_subroutine("vcl_fetch");`},
		[]Fact{fR("beresp.ttl", "3600s", "7s"), fS("beresp.http.X-Class", "ok")},
		&SF{State: "deliver", Called: map[string]int{"vcl_fetch": 1}, NotCalled: ne("helper")})
	mk("B", "vcl_error/903", "vcl_error@B", "error", []string{"set obj.status = 903;", `testing.call_subroutine("vcl_error");`},
		[]Fact{fS("testing.synthetic_body", "b-error body"), fS("obj.http.Content-Type", "text/plain")},
		&SF{State: "deliver", Called: map[string]int{"vcl_error": 1}, NotCalled: ne("helper")})
	mk("B", "vcl_deliver/a", "vcl_deliver@B", "deliver", []string{`set resp.http.Kind = "a";`, `testing.call_subroutine("vcl_deliver");`},
		[]Fact{fS("resp.http.X-B", "kind-a")},
		&SF{State: "deliver", Called: map[string]int{"vcl_deliver": 1}, NotCalled: ne("helper")})
	mk("B", "vcl_deliver/other", "vcl_deliver@B", "deliver", []string{`testing.call_subroutine("vcl_deliver");`},
		[]Fact{fS("resp.http.X-B", "kind-other")},
		&SF{State: "deliver", Called: map[string]int{"vcl_deliver": 1}, NotCalled: ne("helper")})

	cFacts := func(backend, region, host, tbl string) []Fact {
		other := "be2"
		if backend == "be2" {
			other = "be1"
		}
		return []Fact{fBk("req.backend", backend, other), fS("req.http.Internal", "in"), fS("req.http.Region", region), fS("req.http.Host-Seen", host), fS("req.http.Tbl", tbl)}
	}
	cSF := func() *SF {
		return &SF{State: "lookup", Called: map[string]int{"vcl_recv": 1}, NotCalled: ne("helper", "never_called")}
	}
	mk("C", "vcl_recv/default", "vcl_recv@C", "recv", []string{`testing.call_subroutine("vcl_recv");`}, cFacts("be1", "US", "localhost", "v/none"), cSF())
	out[len(out)-1].ProbeFor = "any testing.* side effect"
	mk("C", "vcl_deliver", "vcl_deliver@C", "deliver", []string{`testing.call_subroutine("vcl_deliver");`}, []Fact{fS("resp.http.X-C", "internal")},
		&SF{State: "deliver", Called: map[string]int{"vcl_deliver": 1}, NotCalled: ne("helper")})
	fxC := func(id, fx string, pre []string, facts []Fact, sf *SF) {
		mk("C", id, "vcl_recv@C", "recv", append(pre, `testing.call_subroutine("vcl_recv");`), facts, sf)
		out[len(out)-1].Fx = fx
	}
	fxC("vcl_recv/unhealthy", "testing.set_backend_health", []string{"testing.set_backend_health(be1, false);"}, cFacts("be2", "US", "localhost", "v/none"), cSF())
	fxC("vcl_recv/region", "testing.inject_variable", []string{`testing.inject_variable("server.region", "Asia-X");`}, cFacts("be1", "Asia-X", "localhost", "v/none"), cSF())
	fxC("vcl_recv/host", "testing.override_host", []string{`testing.override_host("example.com");`}, cFacts("be1", "US", "example.com", "v/none"), cSF())
	fxC("vcl_recv/table", "testing.table_set", []string{`testing.table_set(t1, "newk", "nv");`, `testing.table_set(t1, "k", "kv");`}, cFacts("be1", "US", "localhost", "kv/nv"), cSF())
	fxC("vcl_recv/penalty", "ratelimit.penaltybox_add", []string{`ratelimit.penaltybox_add(pb1, "k", 1m);`}, []Fact{fS("req.http.Internal", "in"), fN("req.http.Region")},
		&SF{State: "error", ErrCode: 429, ErrResp: "limited", Called: map[string]int{"vcl_recv": 1}, NotCalled: ne("helper")})
	return out
}

// fxPairs: a scenario with a side effect on testing state and the probe that holds only if the
// side effect did not leak into another test.
type fxPair struct{ Fx, Probe Scenario }

func holdItem(kind, code string) Item { return Item{Kind: kind, Code: []string{code}, Asserts: 1} }

func fxPairs() []fxPair {
	var out []fxPair
	p := func(name string, fx, probe Scenario) {
		fx.Fx, probe.ProbeFor = name, name
		if fx.ID == "" {
			fx.ID = "fx:" + name
		}
		if probe.ID == "" {
			probe.ID = "probe:" + name
		}
		if fx.Scopes == nil {
			fx.Scopes = []string{"recv"}
		}
		if probe.Scopes == nil {
			probe.Scopes = []string{"recv"}
		}
		if fx.SF == nil {
			fx.SF = noState()
		}
		if probe.SF == nil {
			probe.SF = noState()
		}
		out = append(out, fxPair{fx, probe})
	}
	p("testing.table_set",
		Scenario{ID: "fx:testing.table_set(overwrite)", Prelude: []string{`testing.table_set(t1, "k", "CHANGED");`}, Facts: []Fact{fS(`table.lookup(t1, "k", "none")`, "CHANGED"), fS(`table.lookup(t1, "k2", "none")`, "v2")}},
		Scenario{Facts: []Fact{fS(`table.lookup(t1, "k", "none")`, "v"), fS(`table.lookup(t1, "newk", "none")`, "none"), fB(`table.contains(t1, "newk")`, false)}})
	p("testing.table_set",
		Scenario{ID: "fx:testing.table_set(new key)", Prelude: []string{`testing.table_set(t1, "newk", "nv");`}, Facts: []Fact{fS(`table.lookup(t1, "newk", "none")`, "nv"), fB(`table.contains(t1, "newk")`, true)}},
		Scenario{Facts: []Fact{fS(`table.lookup(t1, "k", "none")`, "v"), fS(`table.lookup(t1, "newk", "none")`, "none"), fB(`table.contains(t1, "newk")`, false)}})
	p("testing.table_merge",
		Scenario{Prelude: []string{"testing.table_merge(t1, merge_tbl);"}, Needs: []string{"merge_tbl"}, Facts: []Fact{fS(`table.lookup(t1, "mk", "none")`, "mv"), fS(`table.lookup(t1, "k", "none")`, "merged"), fS(`table.lookup(t1, "k2", "none")`, "v2")}},
		Scenario{Facts: []Fact{fS(`table.lookup(t1, "mk", "none")`, "none"), fS(`table.lookup(t1, "k", "none")`, "v")}})
	callsSF := func(h int) *SF {
		return &SF{Called: map[string]int{"c_calls": 1}, NotCalled: []string{"never_called", "c_switch"}}
	}
	probeCalls := Scenario{Prelude: []string{`testing.call_subroutine("c_calls");`}, Facts: []Fact{fS("req.http.Helper", "called"), fS("req.http.Label", "orig")},
		SF: &SF{Called: map[string]int{"c_calls": 1, "helper": 1, "fn_label": 1}, NotCalled: []string{"never_called"}}}
	p("testing.mock",
		Scenario{Prelude: []string{`testing.mock("helper", "mock_helper");`, `testing.call_subroutine("c_calls");`}, Needs: []string{"mock_helper"}, Facts: []Fact{fS("req.http.Helper", "mocked"), fS("req.http.Label", "orig")}, SF: callsSF(0)},
		probeCalls)
	p("testing.mock",
		Scenario{ID: "fx:testing.mock(functional)", Prelude: []string{`testing.mock("fn_label", "mock_fn_label");`, `testing.call_subroutine("c_calls");`}, Needs: []string{"mock_fn_label"}, Facts: []Fact{fS("req.http.Helper", "called"), fS("req.http.Label", "MOCK")}, SF: callsSF(0)},
		probeCalls)
	p("testing.mock",
		Scenario{ID: "fx:testing.mock(functional, with parameter)", Prelude: []string{`testing.mock("f_ifexpr", "mock_f_ifexpr");`, "declare local var.rs STRING;", `set var.rs = testing.call_subroutine("f_ifexpr", "a");`}, Needs: []string{"mock_f_ifexpr"},
			Facts: []Fact{fS("var.rs", "MOCKED-a")}, SF: &SF{NotCalled: []string{"helper", "never_called"}}},
		Scenario{ID: "probe:testing.mock(functional, with parameter)", Prelude: []string{"declare local var.rs STRING;", `set var.rs = testing.call_subroutine("f_ifexpr", "a");`}, Facts: []Fact{fS("var.rs", "A")}, SF: &SF{NotCalled: []string{"helper", "never_called"}}})
	p("testing.restore_mock",
		Scenario{Prelude: []string{`testing.mock("helper", "mock_helper");`, `testing.restore_mock("helper");`, `testing.call_subroutine("c_calls");`}, Needs: []string{"mock_helper"}, Facts: []Fact{fS("req.http.Helper", "called")}, SF: callsSF(0)},
		probeCalls)
	p("testing.restore_all_mocks",
		Scenario{Prelude: []string{`testing.mock("helper", "mock_helper");`, `testing.mock("fn_label", "mock_fn_label");`, "testing.restore_all_mocks();", `testing.call_subroutine("c_calls");`}, Needs: []string{"mock_helper", "mock_fn_label"}, Facts: []Fact{fS("req.http.Helper", "called"), fS("req.http.Label", "orig")}, SF: callsSF(0)},
		probeCalls)
	p("testing.inject_variable",
		Scenario{Prelude: []string{`testing.inject_variable("server.region", "Asia-X");`}, Facts: []Fact{fS("server.region", "Asia-X")}},
		Scenario{Facts: []Fact{fS("server.region", "US")}})
	p("testing.inject_variable",
		Scenario{ID: "fx:testing.inject_variable(req.protocol)", Prelude: []string{`testing.inject_variable("req.protocol", "https");`}, Facts: []Fact{fS("req.protocol", "https"), fB("req.is_ssl", true)}},
		Scenario{ID: "probe:testing.inject_variable(req.protocol)", Facts: []Fact{fB("req.is_ssl", false)}})
	p("testing.fixed_time",
		Scenario{Prelude: []string{"testing.fixed_time(1694159940);"}, Facts: []Fact{fS("now.sec", "1694159940")}, Logs: []string{"now"}},
		Scenario{Facts: []Fact{fN("req.http.Unset-Hdr")}, Fixed: []Item{holdItem("assert.not_equal", `assert.not_equal(now.sec, "1694159940");`)}})
	p("testing.override_host",
		Scenario{Prelude: []string{`testing.override_host("example.com");`}, Facts: []Fact{fS("req.http.Host", "example.com")}},
		Scenario{Facts: []Fact{fS("req.http.Host", "localhost")}})
	p("testing.set_backend_health",
		Scenario{Prelude: []string{"testing.set_backend_health(be1, false);"}, Facts: []Fact{fB("backend.be1.healthy", false), fB("backend.be2.healthy", true)}},
		Scenario{Facts: []Fact{fB("backend.be1.healthy", true), fB("backend.be2.healthy", true)}})
	p("testing.fixed_access_rate",
		Scenario{Prelude: []string{"testing.fixed_access_rate(1000);"}, Facts: []Fact{fB(`ratelimit.check_rate("k", rc1, 1, 10, 100, pb1, 1m)`, true)}},
		Scenario{Facts: []Fact{fB(`ratelimit.check_rate("k", rc1, 1, 10, 100, pb1, 1m)`, false)}})
	p("ratecounter/penaltybox state",
		Scenario{Prelude: []string{"declare local var.rcv INTEGER;", `set var.rcv = ratelimit.ratecounter_increment(rc1, "k", 5);`, `ratelimit.penaltybox_add(pb1, "k", 1m);`},
			Facts: []Fact{fI("var.rcv", 5), fB(`ratelimit.penaltybox_has(pb1, "k")`, true), fI("ratecounter.rc1.bucket.60s", 5)}},
		Scenario{Facts: []Fact{fB(`ratelimit.penaltybox_has(pb1, "k")`, false), fI("ratecounter.rc1.bucket.60s", 0)}})
	p("request header write",
		Scenario{Prelude: []string{`set req.http.Leak = "1";`, `set req.http.Cookie = "leak=1";`}, Facts: []Fact{fS("req.http.Leak", "1"), fS("req.http.Cookie:leak", "1")}},
		Scenario{Facts: []Fact{fN("req.http.Leak"), fN("req.http.Cookie")}})
	p("response header write",
		Scenario{Scopes: []string{"deliver"}, Prelude: []string{`set resp.http.Leak = "1";`, "set resp.status = 418;"}, Facts: []Fact{fS("resp.http.Leak", "1"), fI("resp.status", 418)}},
		Scenario{Scopes: []string{"deliver"}, Facts: []Fact{fN("resp.http.Leak"), fI("resp.status", 200)}})
	p("req.backend",
		Scenario{Prelude: []string{"set req.backend = be2;"}, Facts: []Fact{fBk("req.backend", "be2", "be1")}},
		Scenario{Facts: []Fact{fBk("req.backend", "be1", "be2")}})
	p("restart state",
		Scenario{Prelude: []string{`set req.http.In = "restart";`, `testing.call_subroutine("c_state");`}, Facts: []Fact{fN("req.http.Out")}, SF: &SF{State: "restart", Restart: true, Called: map[string]int{"c_state": 1}, NotCalled: []string{"helper"}}},
		Scenario{Facts: []Fact{fI("req.restarts", 0)}, Fixed: []Item{holdItem("assert.not_restart", "assert.not_restart();")}})
	p("error state",
		Scenario{Prelude: []string{`set req.http.In = "err";`, `testing.call_subroutine("c_state");`}, Facts: []Fact{fN("req.http.Out")}, SF: &SF{State: "error", ErrCode: 901, ErrResp: "custom", Called: map[string]int{"c_state": 1}, NotCalled: []string{"helper"}}},
		Scenario{Facts: []Fact{fN("req.http.Unset-Hdr")}, Fixed: []Item{holdItem("assert.not_error", "assert.not_error();"), holdItem("assert.not_state", "assert.not_state(error);")}})
	p("subroutine call log",
		Scenario{Prelude: []string{`testing.call_subroutine("c_calls");`}, Facts: []Fact{fS("req.http.Helper", "called")}, SF: &SF{Called: map[string]int{"c_calls": 1, "helper": 1}, NotCalled: []string{"never_called"}}},
		Scenario{Facts: []Fact{fN("req.http.Helper")}, Fixed: []Item{holdItem("assert.not_subroutine_called", `assert.not_subroutine_called("helper");`), holdItem("assert.not_subroutine_called", `assert.not_subroutine_called("c_calls");`)}})
	p("local variable",
		Scenario{Prelude: []string{"declare local var.shared STRING;", `set var.shared = "leak";`}, Facts: []Fact{fS("var.shared", "leak")}},
		Scenario{Prelude: []string{"declare local var.shared STRING;"}, Facts: []Fact{fN("var.shared")}})
	p("regex capture groups",
		Scenario{Prelude: []string{`if (req.http.Host ~ "^(loc)(al)") {`, `  set req.http.M = "1";`, "}"}, Facts: []Fact{fS("req.http.M", "1"), fS("re.group.1", "loc"), fS("re.group.2", "al")}},
		Scenario{Facts: []Fact{fN("re.group.1")}})
	return out
}

// ---- assertion instantiation -------------------------------------------------------------------

var assertKinds = []string{
	"assert", "assert.true", "assert.false", "assert.is_notset", "assert.is_json",
	"assert.equal", "assert.not_equal", "assert.strict_equal", "assert.not_strict_equal", "assert.equal_fold",
	"assert.match", "assert.not_match", "assert.contains", "assert.not_contains", "assert.starts_with", "assert.ends_with",
	"assert.subroutine_called", "assert.not_subroutine_called", "assert.restart", "assert.not_restart",
	"assert.state", "assert.not_state", "assert.error", "assert.not_error",
}

// variants of an instantiation
//
//	""          plain
//	"+msg"      with the optional custom message argument
//	"+emptymsg" with "" as the custom message
//	"/type"     an argument of the wrong type (fails by construction)
//	"/bad-regex" an invalid pattern
//	"/argc"     too few arguments
//	"/expr"     the assertion is used as an expression (set var.b = assert.x(...))
var variants = []string{"", "", "", "+msg", "/type", "/argc", "/expr", "+emptymsg", "/bad-regex"}

func pickFact(r *rand.Rand, sc *Scenario, ok func(Fact) bool) (Fact, bool) {
	var c []Fact
	for _, f := range sc.Facts {
		if ok(f) {
			c = append(c, f)
		}
	}
	if len(c) == 0 {
		return Fact{}, false
	}
	return c[r.Intn(len(c))], true
}

func isT(ts ...string) func(Fact) bool {
	return func(f Fact) bool {
		for _, t := range ts {
			if f.Typ == t {
				return true
			}
		}
		return false
	}
}

var allStates = []string{"lookup", "pass", "error", "restart", "deliver", "hash", "fetch"}

func otherState(r *rand.Rand, s string) string {
	for {
		o := allStates[r.Intn(len(allStates))]
		if o != s {
			return o
		}
	}
}

func sortedKeys(m map[string]int) []string {
	var k []string
	for s := range m {
		k = append(k, s)
	}
	// insertion sort (tiny)
	for i := 1; i < len(k); i++ {
		for j := i; j > 0 && k[j] < k[j-1]; j-- {
			k[j], k[j-1] = k[j-1], k[j]
		}
	}
	return k
}

// inst builds one instantiation of an assertion function that holds (hold) or fails by
// construction in the given scenario. ok=false: the combination does not apply to the scenario.
func inst(r *rand.Rand, kind string, hold bool, variant string, sc *Scenario, uniq int) (Item, bool) {
	it := Item{Kind: kind + variant, Fail: !hold, Asserts: 1, Class: "assertion"}
	custom := "CUSTOM-MSG " + kind
	// args are built first, then the variant is applied
	var args []string
	none := Item{}
	sf := sc.SF
	cmpFact := func() (Fact, bool) {
		return pickFact(r, sc, func(f Fact) bool { return !f.Lit && isT("STRING", "INTEGER", "BOOL")(f) })
	}
	// a literal used directly as the asserted value
	litFact := func(ok func(Fact) bool) (Fact, bool) {
		if r.Intn(4) > 0 {
			return Fact{}, false
		}
		return pickFact(r, sc, func(f Fact) bool { return f.Lit && ok(f) })
	}
	strFact := func() (Fact, bool) { return pickFact(r, sc, isT("STRING")) }

	switch variant {
	case "/in-if", "/in-dead-branch":
		// the assertion sits in a nested block: executed ("/in-if") or in a branch that is not taken
		// (an assertion that would fail, but is never reached: the test passes)
		if variant == "/in-dead-branch" && !hold {
			return none, false
		}
		inner, ok := inst(r, kind, hold && variant == "/in-if", "", sc, uniq)
		if !ok {
			return none, false
		}
		cond := "!req.http.Unset-Hdr"
		if variant == "/in-dead-branch" {
			cond = "req.http.Unset-Hdr"
		}
		inner.Kind = kind + variant
		code := []string{"if (" + cond + ") {"}
		for _, l := range inner.Code {
			code = append(code, "  "+l)
		}
		inner.Code = append(code, "}")
		if variant == "/in-dead-branch" {
			inner.Fail, inner.Class, inner.Msg, inner.Asserts = false, "", "", 0
		}
		return inner, true
	case "/argc":
		if hold {
			return none, false
		}
		it.Class, it.Msg = "testing-error", "Expects"
		switch kind {
		case "assert.restart", "assert.not_restart", "assert.not_error":
			// no lower bound: too MANY arguments instead
			it.Code = []string{kind + `("a", "b");`}
			it.Msg = ""
		case "assert.state", "assert.not_state":
			return none, false // no lower bound check in this tree, and the upper one is covered by +msg
		default:
			it.Code = []string{kind + "();"}
		}
		return it, true
	case "/bad-regex":
		if hold || (kind != "assert.match" && kind != "assert.not_match") {
			return none, false
		}
		f, ok := strFact()
		if !ok {
			return none, false
		}
		it.Class, it.Msg, it.Fact = "testing-error", "Invalid regexp", f.Expr
		it.Code = []string{kind + "(" + f.Expr + `, "(");`}
		return it, true
	case "/type":
		if hold {
			return none, false
		}
		switch kind {
		case "assert":
			f, ok := pickFact(r, sc, isT("INTEGER"))
			if !ok {
				return none, false
			}
			it.Msg, it.Fact = "could not assert as truthy", f.Expr
			it.Code = []string{"assert(" + f.Expr + ");"}
		case "assert.true", "assert.false":
			f, ok := pickFact(r, sc, isT("STRING", "INTEGER"))
			if !ok {
				return none, false
			}
			it.Class, it.Msg, it.Fact = "testing-error", "type mismatch", f.Expr
			it.Code = []string{kind + "(" + f.Expr + ");"}
		case "assert.is_notset":
			f, ok := pickFact(r, sc, isT("INTEGER", "BOOL"))
			if !ok {
				return none, false
			}
			it.Class, it.Msg, it.Fact = "testing-error", "type mismatch", f.Expr
			it.Code = []string{kind + "(" + f.Expr + ");"}
		case "assert.is_json":
			it.Class, it.Msg = "testing-error", "expects STRING type"
			it.Code = []string{"assert.is_json(3);"}
		case "assert.equal", "assert.strict_equal", "assert.not_equal", "assert.not_strict_equal", "assert.equal_fold":
			// values of different types are never equal and (documented) never "not equal" either
			f, ok := pickFact(r, sc, isT("STRING", "INTEGER"))
			if !ok {
				return none, false
			}
			other := `"` + f.Val + `"`
			if f.Typ == "STRING" {
				other = "7"
			}
			it.Msg, it.Fact = "Type Mismatch", f.Expr
			it.Code = []string{kind + "(" + f.Expr + ", " + other + ");"}
		case "assert.match", "assert.not_match", "assert.contains", "assert.not_contains", "assert.starts_with", "assert.ends_with":
			f, ok := pickFact(r, sc, isT("INTEGER"))
			if !ok {
				return none, false
			}
			it.Class, it.Msg, it.Fact = "testing-error", "expects STRING type", f.Expr
			it.Code = []string{kind + "(" + f.Expr + `, "1");`}
		case "assert.subroutine_called", "assert.not_subroutine_called":
			it.Class, it.Msg = "testing-error", "expects STRING type"
			it.Code = []string{kind + "(5);"}
		case "assert.error":
			it.Class, it.Msg = "testing-error", "expects INTEGER type"
			it.Code = []string{`assert.error("500");`}
		case "assert.state", "assert.not_state":
			it.Class, it.Msg = "any", ""
			it.Code = []string{kind + `("lookup");`}
		default:
			return none, false
		}
		return it, true
	}

	switch kind {
	case "assert":
		f, ok := cmpFact()
		if !ok {
			return none, false
		}
		it.Fact = f.Expr
		it.Msg = "should be truthy"
		lf, lok := litFact(func(f Fact) bool {
			if hold {
				return f.Typ == "STRING" || (f.Typ == "BOOL" && f.Val == "true")
			}
			return f.Typ == "BOOL" && f.Val == "false"
		})
		switch {
		case lok:
			args = []string{lf.Expr}
			it.Fact = lf.Expr
		case hold && f.Typ == "STRING" && r.Intn(2) == 0:
			args = []string{f.Expr}
		case hold && f.Typ == "BOOL" && f.Val == "true" && r.Intn(2) == 0:
			args = []string{f.Expr}
		case hold:
			args = []string{f.Expr + " == " + lit(f.Typ, f.Val)}
		case !hold && f.Typ == "BOOL" && f.Val == "false" && r.Intn(2) == 0:
			args = []string{f.Expr}
		case !hold && r.Intn(3) == 0:
			if n, ok := pickFact(r, sc, isT("NOTSET")); ok {
				args = []string{n.Expr}
				it.Fact = n.Expr
			} else {
				args = []string{f.Expr + " != " + lit(f.Typ, f.Val)}
			}
		case !hold && r.Intn(2) == 0:
			args = []string{f.Expr + " != " + lit(f.Typ, f.Val)}
		default:
			args = []string{f.Expr + " == " + lit(f.Typ, f.Alt)}
		}
	case "assert.true", "assert.false":
		f, ok := cmpFact()
		if !ok {
			return none, false
		}
		it.Fact = f.Expr
		want := kind == "assert.true"
		if !hold {
			want = !want
		}
		it.Msg = map[bool]string{true: "Value should be true", false: "Value should be false"}[kind == "assert.true"]
		// build an expression whose value is `want`
		lf, lok := litFact(func(f Fact) bool { return f.Typ == "BOOL" && f.Val == strconv.FormatBool(want) })
		switch {
		case lok:
			args = []string{lf.Expr}
			it.Fact = lf.Expr
		case f.Typ == "BOOL" && f.Val == strconv.FormatBool(want):
			args = []string{f.Expr}
		case want && r.Intn(2) == 0:
			args = []string{f.Expr + " == " + lit(f.Typ, f.Val)}
		case want:
			args = []string{f.Expr + " != " + lit(f.Typ, f.Alt)}
		case r.Intn(2) == 0:
			args = []string{f.Expr + " == " + lit(f.Typ, f.Alt)}
		default:
			args = []string{f.Expr + " != " + lit(f.Typ, f.Val)}
		}
	case "assert.is_notset":
		var f Fact
		var ok bool
		if hold {
			f, ok = pickFact(r, sc, isT("NOTSET"))
		} else {
			f, ok = strFact()
		}
		if !ok {
			return none, false
		}
		it.Fact, it.Msg = f.Expr, "isn't NotSet"
		args = []string{f.Expr}
	case "assert.is_json":
		good := []string{`"[1,2,3]"`, `{"{"a":[1,true,null],"b":[{"c":2}]}"}`, `"123"`, `{""str""}`, `"null"`}
		bad := []string{`"[1,2,3,]"`, `"{a:1}"`, `""`, `{"{"a":}"}`, `"abc"`}
		it.Msg = "should be JSON"
		if hold {
			args = []string{good[r.Intn(len(good))]}
		} else {
			args = []string{bad[r.Intn(len(bad))]}
		}
	case "assert.equal", "assert.strict_equal", "assert.not_equal", "assert.not_strict_equal":
		f, ok := pickFact(r, sc, isT("STRING", "INTEGER", "BOOL", "RTIME", "FLOAT", "BACKEND"))
		if !ok {
			return none, false
		}
		it.Fact, it.Msg = f.Expr, "expect="
		same := hold
		if strings.Contains(kind, "not_") {
			same = !hold
		}
		if same {
			args = []string{f.Expr, lit(f.Typ, f.Val)}
		} else {
			args = []string{f.Expr, lit(f.Typ, f.Alt)}
		}
	case "assert.equal_fold":
		f, ok := strFact()
		if !ok {
			return none, false
		}
		it.Fact, it.Msg = f.Expr, "expect="
		switch {
		case hold && r.Intn(4) > 0:
			args = []string{f.Expr, lit("STRING", swapCase(f.Val))}
			if swapCase(f.Val) != f.Val {
				it.Kind = kind + variant + "(case differs)"
			}
		case hold:
			args = []string{f.Expr, lit("STRING", f.Val)}
		default:
			args = []string{f.Expr, lit("STRING", f.Alt)}
		}
	case "assert.match", "assert.not_match", "assert.contains", "assert.not_contains", "assert.starts_with", "assert.ends_with":
		f, ok := strFact()
		if !ok || f.Val == "" {
			return none, false
		}
		it.Fact = f.Expr
		positive := hold
		if strings.Contains(kind, "not_") {
			positive = !hold
		}
		v := f.Val
		var arg string
		switch strings.TrimPrefix(strings.TrimPrefix(kind, "assert."), "not_") {
		case "match":
			it.Msg = "match against"
			if positive {
				arg = []string{"^" + regexp.QuoteMeta(v) + "$", "^" + regexp.QuoteMeta(v[:1]), regexp.QuoteMeta(v[len(v)-1:]) + "$", ".+"}[r.Intn(4)]
			} else {
				arg = []string{"^zz9", "^" + regexp.QuoteMeta(v) + "Q$", "^$"}[r.Intn(3)]
			}
		case "contains":
			it.Msg = "contain"
			if positive {
				a := r.Intn(len(v))
				arg = v[a : a+1+r.Intn(len(v)-a)]
			} else {
				arg = "zz9"
			}
		case "starts_with":
			it.Msg = "should start with"
			if positive {
				arg = v[:1+r.Intn(len(v))]
			} else {
				arg = "zz9" + v[:1]
			}
		case "ends_with":
			it.Msg = "should end with"
			if positive {
				arg = v[r.Intn(len(v)):]
			} else {
				arg = v[len(v)-1:] + "zz9"
			}
		}
		args = []string{f.Expr, `"` + arg + `"`}
	case "assert.subroutine_called":
		if sf == nil {
			return none, false
		}
		called := sortedKeys(sf.Called)
		switch {
		case hold && len(sf.NotCalled) > 0 && r.Intn(3) == 0:
			// "called 0 times" holds for a subroutine that was never called
			args = []string{`"` + sf.NotCalled[r.Intn(len(sf.NotCalled))] + `"`, "0"}
		case hold && len(called) > 0:
			n := called[r.Intn(len(called))]
			args = []string{`"` + n + `"`}
			if sf.Called[n] != 1 || r.Intn(2) == 0 {
				args = append(args, strconv.Itoa(sf.Called[n]))
			}
		case hold:
			return none, false
		case len(called) > 0 && r.Intn(2) == 0:
			n := called[r.Intn(len(called))]
			args = []string{`"` + n + `"`, strconv.Itoa(sf.Called[n] + 1)}
			it.Msg = "should be called"
		case len(sf.NotCalled) > 0:
			args = []string{`"` + sf.NotCalled[r.Intn(len(sf.NotCalled))] + `"`}
			it.Msg = "is not called"
		default:
			return none, false
		}
	case "assert.not_subroutine_called":
		if sf == nil {
			return none, false
		}
		called := sortedKeys(sf.Called)
		it.Msg = "is called"
		if hold {
			if len(sf.NotCalled) == 0 {
				return none, false
			}
			args = []string{`"` + sf.NotCalled[r.Intn(len(sf.NotCalled))] + `"`}
		} else {
			if len(called) == 0 {
				return none, false
			}
			args = []string{`"` + called[r.Intn(len(called))] + `"`}
		}
	case "assert.restart", "assert.not_restart":
		if sf == nil {
			return none, false
		}
		positive := hold
		if kind == "assert.not_restart" {
			positive = !hold
			it.Msg = "restart should not be called"
		} else {
			it.Msg = "restart should be called"
		}
		if positive != sf.Restart {
			return none, false
		}
	case "assert.state", "assert.not_state":
		if sf == nil {
			return none, false
		}
		same := hold
		if kind == "assert.not_state" {
			same = !hold
			it.Msg = "state should not be"
		} else {
			it.Msg = "state should be moved to"
		}
		if same {
			if sf.State == "" {
				return none, false
			}
			args = []string{sf.State}
		} else {
			args = []string{otherState(r, sf.State)}
		}
	case "assert.error":
		if sf == nil {
			return none, false
		}
		isErr := sf.State == "error"
		switch {
		case hold && !isErr:
			return none, false
		case hold:
			args = []string{strconv.Itoa(sf.ErrCode)}
			if r.Intn(2) == 0 || variant == "+msg" {
				args = append(args, `"`+sf.ErrResp+`"`)
			}
		case !isErr:
			args = []string{"500"}
			it.Msg = "State does not move to ERROR"
			if variant == "+msg" {
				args = append(args, `"x"`)
			}
		case r.Intn(2) == 0:
			args = []string{strconv.Itoa(sf.ErrCode + 1)}
			it.Msg = "code mismatch"
			if variant == "+msg" {
				args = append(args, `"`+sf.ErrResp+`"`)
			}
		default:
			args = []string{strconv.Itoa(sf.ErrCode), `"` + sf.ErrResp + `-zz"`}
			it.Msg = "text mismatch"
		}
	case "assert.not_error":
		if sf == nil {
			return none, false
		}
		isErr := sf.State == "error"
		if hold == isErr {
			return none, false
		}
		it.Msg = "should not move to ERROR"
	default:
		return none, false
	}

	switch variant {
	case "+msg", "+emptymsg":
		m := custom
		if variant == "+emptymsg" {
			m = ""
			switch kind {
			// where an empty message falls back to the default text nothing new is exercised
			case "assert.is_json", "assert.restart", "assert.not_restart":
			default:
				return none, false
			}
		}
		args = append(args, `"`+m+`"`)
		if !hold {
			if variant == "+msg" {
				it.Class, it.Msg = "custom-message", custom
			} else if kind == "assert.restart" || kind == "assert.not_restart" || kind == "assert.is_json" {
				// "" is used verbatim by these; the failure must still be reported
				it.Class, it.Msg = "any", ""
			}
		}
	case "/expr":
		v := fmt.Sprintf("var.ok%d", uniq)
		it.Code = []string{"declare local " + v + " BOOL;", "set " + v + " = " + kind + "(" + strings.Join(args, ", ") + ");"}
		if !hold {
			it.Class = "any"
		}
		return it, true
	}
	it.Code = []string{kind + "(" + strings.Join(args, ", ") + ");"}
	return it, true
}

// ---- runtime errors ----------------------------------------------------------------------------

func errorItems(scope string, uniq int) []Item {
	e := func(kind, class, msg string, asserts int, code ...string) Item {
		return Item{Kind: "err:" + kind, Code: code, Fail: true, Class: class, Msg: msg, Asserts: asserts}
	}
	v := fmt.Sprintf("var.dz%d", uniq)
	out := []Item{
		e("undefined-variable", "runtime-error", "undefined variable", 0, "set req.http.E = var.undefined_zz;"),
		e("missing-subroutine", "testing-error", "is not defined in VCL", 0, `testing.call_subroutine("no_such_sub");`),
		e("division-by-zero", "runtime-error", "Division by zero", 0, "declare local "+v+" INTEGER;", "set "+v+" = 10;", "set "+v+" /= 0;"),
		e("unknown-function", "runtime-error", "", 0, `nosuch.func("a");`),
		e("functional-sub-as-statement", "runtime-error", "cannot be called as a statement", 0, "fn_label();"),
		e("call_subroutine-arg-count", "testing-error", "expects 1 argument(s), got 0", 0, `testing.call_subroutine("f_bucket");`),
		e("builtin-arg-count", "runtime-error", "", 0, `set req.http.E = std.strlen("a", "b");`),
		e("mock-missing-sub", "testing-error", "is not declared in VCL", 0, `testing.mock("no_such_sub", "no_such_mock");`),
		e("restore-not-mocked", "testing-error", "is not mocked", 0, `testing.restore_mock("helper");`),
		e("fixed_time-format", "testing-error", "Invalid time format", 0, `testing.fixed_time("not a time");`),
		e("inject_variable-arg-count", "testing-error", "Expects 2 arguments", 0, `testing.inject_variable("server.region");`),
		e("table_set-non-string-arg", "testing-error", "", 0, `testing.table_set(t1, "k", 5);`),
	}
	if scope == "recv" {
		out = append(out, e("out-of-scope-variable", "runtime-error", "", 0, "set req.http.E = beresp.http.Y;"))
	}
	return out
}
