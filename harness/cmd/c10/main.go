// C10 — test-runner verdicts are faithful.
//
// Generated test files made of test subroutines with verdicts known by construction are run with
// the real `falco test` binary (-json and plain, with and without --coverage, in several orders
// and one test at a time) and its reports are checked against the constructed verdicts and
// against each other. Nothing of falco is linked into this program.
package main

import (
	"bytes"
	"encoding/json"
	"fmt"
	"math/rand"
	"os"
	"os/exec"
	"path/filepath"
	"regexp"
	"sort"
	"strconv"
	"strings"
	"syscall"
	"time"

	"verif/harness/fw"
)

func main() {
	fw.Main(&fw.Prop{
		ID:    "C10",
		Level: "exploration",
		Rule: "test files are generated from test subroutines whose verdict is known by construction: every assert.* function of this tree (24) instantiated to hold and to fail over literals, locals and headers just set, " +
			"results of pure builtins and the known effects of calling subroutines of three fixed main VCLs (else-if chains in all spellings, switch with fallthrough/regex/default, if-expressions, functional subroutines, return/error/restart); " +
			"variants with the custom message argument, wrong argument types/counts and assertions used as expressions; runtime errors; @skip, @tag, @suite, multi-@scope and scope-by-name tests; tests with side effects on testing state " +
			"(testing.table_set/table_merge/mock/restore_mock/inject_variable/fixed_time/override_host/fixed_access_rate/set_backend_health, header writes, rate counters, penalty boxes, restart/error state) together with probe tests that hold only if nothing leaked. " +
			"Every file is run by the real `falco test` binary: -json and plain, with and without --coverage, in the generated order, under k random permutations and one test at a time. Monitors: (i) reported verdict and message class = constructed; " +
			"(ii) exit status != 0 iff a test failed; (iii) passes+fails+skips = result entries, in the -json summary and on the plain summary line, and assertion count = assertion calls executed; (iv) per-test (verdict, message, logs) identical across orders and subsets; " +
			"(v) identical with --coverage. non-trivial = a file whose run reports >=1 failed and >=1 passed test; distinct by file text",
		Assumptions: []string{
			"only deterministic constructs appear in compared runs (time only when pinned by testing.fixed_time or compared for inequality with a 2023 constant; rate counters only through the 60 s bucket and the increment's return value)",
			"a difference between two runs is reported only if it reproduces in a second identical run",
			"the result entries of one multi-@scope test share an interpreter by design (tester.go); state carried from one scope to the next inside one test is recorded as an observation, not as a violation",
			"@tag expectations come from the decision table in docs/testing.md",
		},
		Gen:           gen,
		Run:           run,
		Timeout:       900 * time.Second,
		MinNonTrivial: 10,
	})
}

// ---- specs -------------------------------------------------------------------------------------

type TestSpec struct {
	Name      string   `json:"name"`
	Suite     string   `json:"suite,omitempty"`
	Scopes    []string `json:"scopes"`
	Annot     string   `json:"annot"`
	ByName    bool     `json:"by_name,omitempty"` // no @scope annotation: scope from the name suffix / default
	Skip      bool     `json:"skip,omitempty"`
	Tag       string   `json:"tag,omitempty"`
	Scenario  string   `json:"scenario"`
	Construct string   `json:"construct,omitempty"`
	ProbeFor  string   `json:"probe_for,omitempty"`
	Fx        string   `json:"fx,omitempty"`
	Prelude   []string `json:"prelude,omitempty"`
	Items     []Item   `json:"items"`
	Logs      []string `json:"logs,omitempty"`
	Needs     []string `json:"needs,omitempty"`
	ObsOnly   bool     `json:"obs_only,omitempty"`
	Kind      string   `json:"kind"` // primary kind (names findings when nothing more precise is known)
}

type FileSpec struct {
	ID    int        `json:"id"`
	Main  string     `json:"main"`
	Class string     `json:"class"`
	Tests []TestSpec `json:"tests"`
	K     int        `json:"k"`
}

type Batch struct {
	Files []FileSpec `json:"files"`
}

// ---- generator ---------------------------------------------------------------------------------

type combo struct {
	kind, variant string
	hold          bool
}

type cyclers struct {
	combos  []combo // [hold..., fail...] two cycles
	holds   []combo
	fails   []combo
	hi, fi  int
	ci      int
	constr  map[string][]Scenario // every scenario usable with a main program
	own     map[string][]Scenario // the vcl_* scenarios of one main program (cycled)
	generic []Scenario            // construct scenarios common to all programs (cycled)
	geni    int
	coni    map[string]int
	fx      []fxPair
	fxi     int
	erri    int
	tagi    int
	r       *rand.Rand
	uniq    int
	testSeq int
}

var exprKinds = map[string]bool{"assert.equal": true, "assert.true": true, "assert.match": true, "assert.is_notset": true, "assert.not_contains": true, "assert.state": true}
var argcKinds = map[string]bool{"assert": true, "assert.equal": true, "assert.match": true, "assert.contains": true, "assert.error": true, "assert.subroutine_called": true, "assert.restart": true, "assert.is_json": true}

func newCyclers(r *rand.Rand) *cyclers {
	c := &cyclers{r: r, constr: map[string][]Scenario{}, own: map[string][]Scenario{}, coni: map[string]int{}}
	all := constructScenarios()
	for _, m := range []string{"A", "B", "C"} {
		for _, s := range all {
			if s.Main == "" || s.Main == m {
				c.constr[m] = append(c.constr[m], s)
			}
			if s.Main == m {
				c.own[m] = append(c.own[m], s)
			}
		}
		l := c.own[m]
		r.Shuffle(len(l), func(i, j int) { l[i], l[j] = l[j], l[i] })
	}
	for _, s := range all {
		if s.Main == "" {
			c.generic = append(c.generic, s)
		}
	}
	r.Shuffle(len(c.generic), func(i, j int) { c.generic[i], c.generic[j] = c.generic[j], c.generic[i] })
	c.fx = fxPairs()
	r.Shuffle(len(c.fx), func(i, j int) { c.fx[i], c.fx[j] = c.fx[j], c.fx[i] })
	// the cycle of instantiations: every (function, variant, hold/fail) that can be built over the catalogue
	probe := rand.New(rand.NewSource(1))
	cands := append(append([]Scenario{pureScenario(probe, 0), pureScenario(probe, 1), pureScenario(probe, 2)}, all...), scopedHeaderScenario(probe, "deliver"))
	for _, k := range assertKinds {
		for _, v := range []string{"", "+msg", "/type", "/argc", "/expr", "+emptymsg", "/bad-regex", "/in-if", "/in-dead-branch"} {
			if ((v == "/expr" || v == "/in-if" || v == "/in-dead-branch") && !exprKinds[k]) || (v == "/argc" && !argcKinds[k]) {
				continue
			}
			for _, h := range []bool{true, false} {
				possible := false
				for i := 0; i < len(cands)*4 && !possible; i++ {
					_, possible = inst(probe, k, h, v, &cands[i%len(cands)], 0)
				}
				if possible {
					c.combos = append(c.combos, combo{k, v, h})
					if h {
						c.holds = append(c.holds, combo{k, v, h})
					} else {
						c.fails = append(c.fails, combo{k, v, h})
					}
				}
			}
		}
	}
	r.Shuffle(len(c.holds), func(i, j int) { c.holds[i], c.holds[j] = c.holds[j], c.holds[i] })
	r.Shuffle(len(c.fails), func(i, j int) { c.fails[i], c.fails[j] = c.fails[j], c.fails[i] })
	return c
}

// candidates: the scenarios an instantiation may be placed in, in the order they are tried.
func (c *cyclers) candidates(m string) []Scenario {
	r := c.r
	pure := []Scenario{pureScenario(r, 0), pureScenario(r, 1), pureScenario(r, 2), scopedHeaderScenario(r, scopedHeaderScopes[r.Intn(len(scopedHeaderScopes))])}
	r.Shuffle(len(pure), func(i, j int) { pure[i], pure[j] = pure[j], pure[i] })
	con := append([]Scenario{}, c.constr[m]...)
	r.Shuffle(len(con), func(i, j int) { con[i], con[j] = con[j], con[i] })
	if r.Intn(2) == 0 {
		return append(pure, con...)
	}
	return append(con, pure...)
}

func (c *cyclers) nextConstruct(m string) Scenario {
	l := c.own[m]
	s := l[c.coni[m]%len(l)]
	c.coni[m]++
	return s
}

func (c *cyclers) nextGeneric() Scenario {
	s := c.generic[c.geni%len(c.generic)]
	c.geni++
	return s
}

func (c *cyclers) newTest(sc Scenario) TestSpec {
	r := c.r
	c.testSeq++
	t := TestSpec{
		Name:     fmt.Sprintf("t%04d_q%dz", c.testSeq, r.Intn(90)+10),
		Scopes:   []string{sc.Scopes[r.Intn(len(sc.Scopes))]},
		Annot:    []string{"//", "//", "#"}[r.Intn(3)],
		Scenario: sc.ID, Construct: sc.Construct, ProbeFor: sc.ProbeFor, Fx: sc.Fx,
		Prelude: sc.Prelude, Needs: sc.Needs,
	}
	if r.Intn(3) == 0 {
		t.Suite = fmt.Sprintf("suite %d %s", c.testSeq, strings.NewReplacer(":", " ", "/", " ").Replace(sc.ID))
	}
	if len(sc.Logs) > 0 && r.Intn(2) == 0 {
		t.Logs = sc.Logs
	}
	return t
}

// addItems appends n further assertions (plain or +msg variants) drawn over the scenario.
func (c *cyclers) addItems(t *TestSpec, sc *Scenario, n int, pHold float64) {
	r := c.r
	if sc.NoAssert {
		return
	}
	for i := 0; i < n; i++ {
		for try := 0; try < 8; try++ {
			k := assertKinds[r.Intn(len(assertKinds))]
			v := ""
			if r.Intn(5) == 0 {
				v = "+msg"
			}
			if v == "+msg" && (k == "assert.state" || k == "assert.not_state") {
				continue // crashes the runner on this tree: exercised as a primary item only, so that it takes down as few other observations as possible
			}
			c.uniq++
			if it, ok := inst(r, k, r.Float64() < pHold, v, sc, c.uniq); ok {
				t.Items = append(t.Items, it)
				break
			}
		}
	}
}

// comboTest: the next (kind, variant, hold) of the cycle, in a scenario it applies to.
// mode: "hold" next of the hold cycle, "any" next of the hold or of the fail cycle, "random" a
// random combination that does not advance the cycles (for tests that are not executed anyway).
func (c *cyclers) comboTest(m string, mode string) TestSpec {
	r := c.r
	for {
		var cb combo
		switch {
		case mode == "random":
			cb = c.combos[r.Intn(len(c.combos))]
		case mode == "random-hold":
			// a plain instantiation that holds, of a function without a known defect on this tree
			cb = combo{[]string{"assert.true", "assert.equal", "assert.contains", "assert.not_equal", "assert.is_notset", "assert.not_error"}[r.Intn(6)], "", true}
		case mode == "hold" || c.hi*len(c.fails) <= c.fi*len(c.holds):
			// (both cycles advance at the same relative speed)
			cb = c.holds[c.hi%len(c.holds)]
			c.hi++
			c.ci++
		default:
			cb = c.fails[c.fi%len(c.fails)]
			c.fi++
			c.ci++
		}
		allHold := mode == "hold" || mode == "random-hold"
		for _, sc := range c.candidates(m) {
			if sc.NoAssert {
				continue
			}
			c.uniq++
			it, ok := inst(r, cb.kind, cb.hold, cb.variant, &sc, c.uniq)
			if !ok {
				continue
			}
			t := c.newTest(sc)
			t.Kind = it.Kind
			t.Items = []Item{it}
			ph := 0.85
			if allHold {
				ph = 1
			}
			if mode != "random-hold" {
				c.addItems(&t, &sc, r.Intn(3), ph)
			}
			t.Items = append(t.Items, sc.Fixed...)
			return t
		}
	}
}

func (c *cyclers) scenarioTest(sc Scenario, pHold float64) TestSpec {
	r := c.r
	t := c.newTest(sc)
	c.addItems(&t, &sc, 1+r.Intn(3), pHold)
	t.Items = append(t.Items, sc.Fixed...)
	if len(t.Items) > 0 {
		t.Kind = t.Items[0].Kind
	} else {
		t.Kind = "log-only"
		t.Logs = sc.Logs
	}
	if sc.Construct == "goto" {
		t.Logs = sc.Logs
	}
	return t
}

func (c *cyclers) errorTest(m string, assertFree bool) TestSpec {
	r := c.r
	sc := pureScenario(r, r.Intn(3))
	t := c.newTest(sc)
	t.Scopes = []string{"recv"}
	c.uniq++
	errs := errorItems("recv", c.uniq)
	e := errs[c.erri%len(errs)]
	c.erri++
	if r.Intn(2) == 0 {
		c.addItems(&t, &sc, 1, 1)
	}
	t.Items = append(t.Items, e)
	if !assertFree && r.Intn(2) == 0 {
		c.addItems(&t, &sc, 1, 1) // never reached
	}
	t.Kind = e.Kind
	return t
}

func genFile(c *cyclers, id int, k int) FileSpec {
	r := c.r
	f := FileSpec{ID: id, Main: string("ABC"[id%3]), K: k}
	switch {
	case id%10 == 3:
		f.Class = "all-pass"
	case id%20 == 7:
		f.Class = "all-skip"
	case id%10 == 8:
		f.Class = "only-errors"
	default:
		f.Class = "mixed"
	}
	m := f.Main
	var ts []TestSpec
	switch f.Class {
	case "all-skip":
		for i, n := 0, 2+r.Intn(4); i < n; i++ {
			t := c.comboTest(m, "random")
			t.Skip = true
			if r.Intn(3) == 0 {
				t.Scopes = []string{"recv", "deliver"}
			}
			ts = append(ts, t)
		}
	case "only-errors":
		for i, n := 0, 1+r.Intn(3); i < n; i++ {
			ts = append(ts, c.errorTest(m, true))
		}
		for i, n := 0, 1+r.Intn(3); i < n; i++ {
			ts = append(ts, c.comboTest(m, "hold"))
		}
		if r.Intn(2) == 0 {
			t := c.comboTest(m, "random")
			t.Skip = true
			ts = append(ts, t)
		}
	default:
		allHold := f.Class == "all-pass"
		ph := 0.7
		if allHold {
			ph = 1
		}
		for i := 0; i < 7; i++ {
			if allHold {
				ts = append(ts, c.comboTest(m, "hold"))
			} else {
				ts = append(ts, c.comboTest(m, "any"))
			}
		}
		for i := 0; i < 2; i++ {
			ts = append(ts, c.scenarioTest(c.nextGeneric(), ph))
		}
		ts = append(ts, c.scenarioTest(c.nextConstruct(m), ph))
		// one side-effect test and its probe
		p := c.fx[c.fxi%len(c.fx)]
		c.fxi++
		fxT := c.scenarioTest(p.Fx, ph)
		prT := c.scenarioTest(p.Probe, 1)
		ts = append(ts, fxT, prT)
		if !allHold {
			ts = append(ts, c.errorTest(m, false))
			if r.Intn(2) == 0 {
				t := c.comboTest(m, "random-hold")
				t.Tag = []string{"prod", "!prod", "prod, dev", "!dev"}[c.tagi%4]
				c.tagi++
				ts = append(ts, t)
			}
		}
		if r.Intn(2) == 0 {
			t := c.comboTest(m, "random")
			t.Skip = true
			ts = append(ts, t)
		}
		if r.Intn(2) == 0 { // several scopes, one result each
			sc := pureScenario(r, r.Intn(3))
			t := c.scenarioTest(sc, ph)
			t.Scopes = [][]string{{"recv", "deliver"}, {"recv", "fetch", "deliver"}, {"miss", "pass"}, {"deliver", "recv"}, {"hit", "error", "log"}}[r.Intn(5)]
			ts = append(ts, t)
		}
		if r.Intn(10) < 3 { // scope taken from the subroutine's name
			suf := []string{"deliver", "fetch", "error", "recv", "log"}[r.Intn(5)]
			var sc Scenario
			if suf == "recv" {
				sc = pureScenario(r, 2)
			} else {
				sc = scopedHeaderScenario(r, suf)
			}
			t := c.scenarioTest(sc, ph)
			t.Scopes = []string{suf}
			t.ByName = true
			t.Name = t.Name + "_" + suf
			ts = append(ts, t)
		}
		if r.Intn(10) < 2 { // a test without any statement passes
			t := c.newTest(Scenario{ID: "empty-body", Scopes: anyScope})
			t.Kind = "empty-body"
			ts = append(ts, t)
		}
		if r.Intn(10) < 3 { // observation: is state carried from one scope's run to the next inside one test?
			t := c.newTest(Scenario{ID: "multi-scope-carry", Scopes: []string{"recv"}})
			t.Scopes = []string{"recv", "deliver"}
			t.Prelude = []string{"if (req.http.Seen) {", `  set req.http.Carry = "carried";`, "}", `set req.http.Seen = "1";`}
			t.Items = []Item{{Kind: "obs:multi-scope-carry", Code: []string{"assert.is_notset(req.http.Carry);"}, Asserts: 1}}
			t.Kind = "obs:multi-scope-carry"
			t.ObsOnly = true
			ts = append(ts, t)
		}
		// the side effect mostly comes before its probe
		r.Shuffle(len(ts), func(i, j int) { ts[i], ts[j] = ts[j], ts[i] })
		fi, pi := -1, -1
		for i := range ts {
			if ts[i].Name == fxT.Name {
				fi = i
			}
			if ts[i].Name == prT.Name {
				pi = i
			}
		}
		if fi > pi && r.Intn(5) > 0 {
			ts[fi], ts[pi] = ts[pi], ts[fi]
		}
	}
	f.Tests = ts
	return f
}

func gen(g *fw.GenCtx) {
	genExtra(g)
	c := newCyclers(g.Rand)
	nFiles := g.Pick(40, 1000)
	per := g.Pick(2, 8)
	k := 3
	var b Batch
	for i := 0; i < nFiles; i++ {
		b.Files = append(b.Files, genFile(c, i, k))
		if len(b.Files) == per {
			g.Emit("files", b)
			b = Batch{}
		}
	}
	if len(b.Files) > 0 {
		g.Emit("files", b)
	}
	if os.Getenv("FW_DEBUG") != "" {
		fmt.Fprintf(os.Stderr, "C10 gen: %d instantiation combos in the cycle, %d drawn (%.1f cycles of the failing ones); %d side-effect pairs, %d drawn; tests generated %d\n", len(c.combos), c.ci, float64(c.fi)/float64(len(c.fails)), len(c.fx), c.fxi, c.testSeq)
		fmt.Fprintf(os.Stderr, "C10 gen: %d generic construct scenarios, %d drawn; per-program scenarios A/B/C %d/%d/%d, drawn %d/%d/%d\n", len(c.generic), c.geni, len(c.own["A"]), len(c.own["B"]), len(c.own["C"]), c.coni["A"], c.coni["B"], c.coni["C"])
	}
}

// ---- rendering ---------------------------------------------------------------------------------

type entryExp struct {
	Test   int // index in FileSpec.Tests; -1 = helper subroutine declared for mocking
	Helper string
	Name   string
	Scope  string
	Nth    int // which of the test's scopes
}

type rendered struct {
	Text    string
	Start   map[string]int   // entry name -> line of its `sub`
	ItemLn  map[int][][2]int // test index -> per item [first,last] line relative to Start
	Entries []entryExp       // expected result entries, in order
	Tests   []int            // test indices in order
}

func (t *TestSpec) entryName() string {
	if t.Suite != "" {
		return t.Suite
	}
	return t.Name
}

func render(f *FileSpec, order []int) rendered {
	var sb strings.Builder
	rd := rendered{Start: map[string]int{}, ItemLn: map[int][][2]int{}, Tests: order}
	line := 1
	w := func(s string) {
		sb.WriteString(s)
		sb.WriteByte('\n')
		line++
	}
	need := map[string]bool{}
	for _, ti := range order {
		for _, n := range f.Tests[ti].Needs {
			need[n] = true
		}
	}
	for _, n := range sharedOrder {
		if !need[n] {
			continue
		}
		for _, l := range strings.Split(strings.TrimRight(sharedDecls[n], "\n"), "\n") {
			if strings.HasPrefix(l, "sub ") {
				rd.Start[n] = line
				// a helper with parameters cannot be called as a test and is not run as one
				// (falco fix 'a subroutine which has parameters ...'); one without is still an entry
				if !strings.Contains(strings.SplitN(l, "{", 2)[0], "(") {
					rd.Entries = append(rd.Entries, entryExp{Test: -1, Helper: n, Name: n, Scope: "RECV"})
				}
			}
			w(l)
		}
		w("")
	}
	for _, ti := range order {
		t := &f.Tests[ti]
		if !t.ByName {
			w(t.Annot + " @scope: " + strings.Join(t.Scopes, ", "))
		}
		if t.Suite != "" {
			w(t.Annot + " @suite: " + t.Suite)
		}
		if t.Skip {
			w(t.Annot + " @skip")
		}
		if t.Tag != "" {
			w(t.Annot + " @tag: " + t.Tag)
		}
		rd.Start[t.entryName()] = line
		start := line
		w("sub " + t.Name + " {")
		for _, l := range t.Prelude {
			w("  " + l)
		}
		for _, e := range t.Logs {
			w("  log \"L:\" " + e + ";")
		}
		for _, it := range t.Items {
			a := line - start
			for _, l := range it.Code {
				w("  " + l)
			}
			rd.ItemLn[ti] = append(rd.ItemLn[ti], [2]int{a, line - 1 - start})
		}
		if len(t.Logs) > 0 {
			w("  log \"end\";")
		}
		w("}")
		w("")
		for n, s := range t.Scopes {
			rd.Entries = append(rd.Entries, entryExp{Test: ti, Name: t.entryName(), Scope: strings.ToUpper(s), Nth: n})
		}
	}
	rd.Text = sb.String()
	return rd
}

// ---- constructed verdicts ----------------------------------------------------------------------

type verdict struct {
	V       string // pass | skip | fail
	Class   string // for fail
	Msg     string
	Item    int // index of the failing item
	Asserts int // assertion calls executed
}

func (v verdict) String() string {
	if v.V == "fail" {
		return "fail(" + v.Class + ")"
	}
	return v.V
}

// constructed verdict of a test; cliTag is the value given with -t ("" = none).
func constructed(t *TestSpec, cliTag string) verdict {
	if t.Skip {
		return verdict{V: "skip"}
	}
	if t.Tag != "" {
		// docs/testing.md: a tagged test runs only when one of its tags matches the -t option;
		// an inverted tag (!x) matches when x is NOT given
		run := false
		for _, tg := range strings.Split(t.Tag, ",") {
			tg = strings.TrimSpace(tg)
			if inv := strings.HasPrefix(tg, "!"); inv {
				if strings.TrimPrefix(tg, "!") != cliTag {
					run = true
				}
			} else if cliTag != "" && tg == cliTag {
				run = true
			}
		}
		if !run {
			return verdict{V: "skip"}
		}
	}
	n := 0
	for i, it := range t.Items {
		n += it.Asserts
		if it.Fail {
			return verdict{V: "fail", Class: it.Class, Msg: it.Msg, Item: i, Asserts: n}
		}
	}
	return verdict{V: "pass", Asserts: n}
}

// ---- running falco -----------------------------------------------------------------------------

type jCase struct {
	Name     string   `json:"name"`
	Error    string   `json:"error"`
	Group    string   `json:"group"`
	Scope    string   `json:"scope"`
	Skip     bool     `json:"skip"`
	Logs     []string `json:"logs"`
	File     string   `json:"file"`
	Line     int      `json:"line"`
	Position int      `json:"position"`
}

type jOut struct {
	Tests []struct {
		File   string  `json:"file"`
		Suites []jCase `json:"suites"`
	} `json:"tests"`
	Summary *struct {
		Asserts int `json:"asserts"`
		Passes  int `json:"passes"`
		Fails   int `json:"fails"`
		Skips   int `json:"skips"`
	} `json:"summary"`
}

type runRes struct {
	exit     int
	crashed  bool
	timedOut bool
	stdout   string
	stderr   string
	dir      string
	j        *jOut
	entries  []jCase
}

var runCount int64

func falco(mainText, testText string, args ...string) runRes {
	base := filepath.Join(fw.Verif, ".build", "tmp")
	os.MkdirAll(base, 0o755)
	dir, err := os.MkdirTemp(base, "c10-")
	if err != nil {
		return runRes{exit: -1, stderr: err.Error()}
	}
	defer os.RemoveAll(dir)
	os.WriteFile(filepath.Join(dir, "main.vcl"), []byte(mainText), 0o644)
	os.WriteFile(filepath.Join(dir, "main.test.vcl"), []byte(testText), 0o644)
	argv := append([]string{"test"}, args...)
	argv = append(argv, "main.vcl")
	cmd := exec.Command(fw.FalcoBin(), argv...)
	cmd.Dir = dir
	cmd.Env = []string{"HOME=" + dir, "PATH=/usr/bin:/bin", "GOMAXPROCS=2", "NO_COLOR=1", "TERM=xterm"}
	var so, se bytes.Buffer
	cmd.Stdout, cmd.Stderr = &so, &se
	cmd.SysProcAttr = &syscall.SysProcAttr{Setpgid: true}
	rr := runRes{dir: dir}
	runCount++
	fw.JournalS(testText)
	if err := cmd.Start(); err != nil {
		rr.exit = -1
		rr.stderr = err.Error()
		return rr
	}
	done := make(chan error, 1)
	go func() { done <- cmd.Wait() }()
	select {
	case <-done:
	case <-time.After(90 * time.Second):
		syscall.Kill(-cmd.Process.Pid, syscall.SIGKILL)
		<-done
		rr.timedOut = true
	}
	rr.stdout, rr.stderr = so.String(), se.String()
	if ws, ok := cmd.ProcessState.Sys().(syscall.WaitStatus); ok {
		if ws.Signaled() {
			rr.crashed = true
			rr.exit = 128 + int(ws.Signal())
		} else {
			rr.exit = ws.ExitStatus()
		}
	}
	if strings.Contains(rr.stderr, "panic: ") || strings.Contains(rr.stderr, "fatal error: ") || strings.Contains(rr.stderr, "goroutine ") {
		rr.crashed = true
	}
	return rr
}

func (rr *runRes) parseJSON() error {
	var j jOut
	if err := json.Unmarshal([]byte(rr.stdout), &j); err != nil {
		return err
	}
	rr.j = &j
	for _, t := range j.Tests {
		rr.entries = append(rr.entries, t.Suites...)
	}
	return nil
}

// ---- observations ------------------------------------------------------------------------------

var testingErrRe = regexp.MustCompile(`^\[[a-z_.]+\] |type mismatch|^Invalid regexp|is not defined in VCL|is not declared in|is not mocked|^Invalid time format|expects \d+ argument|argument must be|not found in|^Cannot mock|^First argument of`)

func classify(e jCase) string {
	switch {
	case e.Skip:
		return "skip"
	case e.Error == "" && e.Line > 0:
		// a failed assertion whose message is the empty string: `error` is omitted from the entry
		return "fail(empty-message)"
	case e.Error == "":
		return "pass"
	case e.Line == 0:
		return "fail(runtime-error)"
	case strings.HasPrefix(e.Error, "CUSTOM-MSG"):
		return "fail(custom-message)"
	case testingErrRe.MatchString(e.Error):
		return "fail(testing-error)"
	}
	return "fail(assertion)"
}

func coarse(v string) string {
	if strings.HasPrefix(v, "fail") {
		return "fail"
	}
	return v
}

var posRe = regexp.MustCompile(`in (\S+) at line: (\d+), position: (\d+)`)
var logPosRe = regexp.MustCompile(`\((\S+) (\d+):(\d+)\)$`)

type obs struct {
	Verdict string
	Msg     string
	RelLine int
	Pos     int
	Logs    []string
}

func (o obs) equal(p obs) bool {
	return o.Verdict == p.Verdict && o.Msg == p.Msg && o.RelLine == p.RelLine && o.Pos == p.Pos && strings.Join(o.Logs, "\n") == strings.Join(p.Logs, "\n")
}

func (o obs) diffField(p obs) string {
	switch {
	case o.Verdict != p.Verdict:
		return "verdict"
	case o.Msg != p.Msg || o.RelLine != p.RelLine || o.Pos != p.Pos:
		return "message"
	}
	return "logs"
}

// observe normalises an entry so that it can be compared between arrangements: positions inside
// the test file become relative to the first line of the test.
func observe(e jCase, dir string, start int) obs {
	o := obs{Verdict: classify(e), Pos: e.Position}
	msg := strings.ReplaceAll(e.Error, dir+"/", "")
	msg = posRe.ReplaceAllStringFunc(msg, func(s string) string {
		m := posRe.FindStringSubmatch(s)
		if strings.HasSuffix(m[1], "main.test.vcl") {
			n, _ := strconv.Atoi(m[2])
			return fmt.Sprintf("in %s at line: +%d, position: %s", m[1], n-start, m[3])
		}
		return s
	})
	o.Msg = msg
	if e.Line > 0 {
		o.RelLine = e.Line - start
	} else {
		o.RelLine = -1
	}
	for _, l := range e.Logs {
		l = strings.ReplaceAll(l, dir+"/", "")
		l = logPosRe.ReplaceAllStringFunc(l, func(s string) string {
			m := logPosRe.FindStringSubmatch(s)
			if strings.HasSuffix(m[1], "main.test.vcl") {
				n, _ := strconv.Atoi(m[2])
				return fmt.Sprintf("(%s +%d:%s)", m[1], n-start, m[3])
			}
			return s
		})
		o.Logs = append(o.Logs, l)
	}
	return o
}

// ---- the check of one file ---------------------------------------------------------------------

type checker struct {
	oc   *fw.Outcome
	f    *FileSpec
	main string
}

type arrRun struct {
	rd   rendered
	rr   runRes
	ok   bool           // entries match the expected sequence
	obs  map[string]obs // key: entry name|scope
	cov  bool
	what string
}

func ekey(name, scope string) string { return name + "|" + scope }

func (c *checker) detail(rd *rendered, rr *runRes, extra map[string]any) map[string]any {
	d := map[string]any{"file_id": c.f.ID, "main_program": c.f.Main, "test_file": clip(rd.Text, 6000), "exit": rr.exit}
	if rr.stdout != "" {
		d["stdout"] = clip(rr.stdout, 3000)
	}
	if rr.stderr != "" {
		d["stderr"] = clip(rr.stderr, 1500)
	}
	for k, v := range extra {
		d[k] = v
	}
	return d
}

func clip(s string, n int) string {
	if len(s) > n {
		return s[:n] + "…"
	}
	return s
}

// exec runs one arrangement with -json and checks entry sequence, exit status and count conservation.
func (c *checker) exec(order []int, cov bool, what string, cliTag string) *arrRun {
	rd := render(c.f, order)
	args := []string{"-json"}
	if cov {
		args = append(args, "--coverage")
	}
	if cliTag != "" {
		args = append(args, "-t", cliTag)
	}
	a := &arrRun{rd: rd, cov: cov, what: what, obs: map[string]obs{}}
	a.rr = falco(c.main, rd.Text, args...)
	c.oc.Evals++
	tag := "run:" + what
	if cov {
		tag += "+coverage"
	}
	c.oc.Tag(tag)
	if a.rr.timedOut {
		c.oc.Inconc = append(c.oc.Inconc, fmt.Sprintf("falco test did not finish within 90 s (file %d, %s)", c.f.ID, what))
		return a
	}
	if a.rr.crashed {
		return a
	}
	if err := a.rr.parseJSON(); err != nil {
		c.oc.Violate("report:json-unparseable", "falco test -json printed something that is not the JSON report (exit "+strconv.Itoa(a.rr.exit)+")", c.detail(&rd, &a.rr, nil))
		return a
	}
	// entry sequence
	ents := a.rr.entries
	a.ok = len(ents) == len(rd.Entries)
	if a.ok {
		for i, e := range ents {
			if e.Name != rd.Entries[i].Name || e.Scope != rd.Entries[i].Scope {
				a.ok = false
				break
			}
		}
	}
	if !a.ok {
		var got, want []string
		for _, e := range ents {
			got = append(got, e.Name+"@"+e.Scope)
		}
		for _, e := range rd.Entries {
			want = append(want, e.Name+"@"+e.Scope)
		}
		kind := "sequence"
		for _, x := range rd.Entries {
			if x.Test >= 0 && c.f.Tests[x.Test].ByName {
				kind = "scope-by-name"
			}
		}
		c.oc.Violate("entries:"+kind, fmt.Sprintf("the result entries are not one per (test subroutine, scope) in file order: expected %d entries, got %d", len(want), len(got)),
			c.detail(&rd, &a.rr, map[string]any{"expected": want, "reported": got}))
		return a
	}
	for i, e := range ents {
		a.obs[ekey(e.Name, e.Scope)] = observe(e, a.rr.dir, rd.Start[rd.Entries[i].Name])
	}
	c.checkCounts(a, cliTag)
	return a
}

// checkCounts: exit status and conservation for a -json run.
func (c *checker) checkCounts(a *arrRun, cliTag string) {
	var p, f, s int
	onlyErrors := true
	for _, e := range a.rr.entries {
		switch v := classify(e); {
		case v == "skip":
			s++
		case v == "pass":
			p++
		default:
			f++
			if v == "fail(assertion)" || v == "fail(custom-message)" {
				onlyErrors = false
			}
		}
	}
	n := len(a.rr.entries)
	class := "some-fail"
	switch {
	case n == 0:
		class = "no-tests"
	case s == n:
		class = "all-skip"
	case f == 0:
		class = "all-pass"
	case onlyErrors:
		class = "only-errors"
	}
	c.oc.Tag("exit-class:" + class)
	if (a.rr.exit != 0) != (f > 0) || (a.rr.exit != 0 && a.rr.exit != 1) {
		c.oc.Violate("exit:"+class, fmt.Sprintf("falco test -json exited with %d although %d of %d result entries are failed (%d passed, %d skipped)", a.rr.exit, f, n, p, s),
			c.detail(&a.rd, &a.rr, nil))
	}
	sm := a.rr.j.Summary
	if sm == nil {
		c.oc.Violate("count:json/no-summary", "the -json report has no summary object", c.detail(&a.rd, &a.rr, nil))
		return
	}
	nums := fmt.Sprintf("result entries: %d (passed %d, failed %d, skipped %d); summary: passes %d, fails %d, skips %d, asserts %d", n, p, f, s, sm.Passes, sm.Fails, sm.Skips, sm.Asserts)
	if sm.Fails != f {
		w := "summary.fails != number of failed result entries; " + nums
		// entries whose failing item is a call of an assertion function (known by construction)
		byAssert, known := 0, true
		for i, x := range a.rd.Entries {
			if coarse(classify(a.rr.entries[i])) != "fail" {
				continue
			}
			if x.Test < 0 || c.f.Tests[x.Test].ObsOnly {
				known = false
				continue
			}
			t := &c.f.Tests[x.Test]
			v := constructed(t, cliTag)
			j := -1
			if ln := a.rr.entries[i].Line; ln > 0 {
				j = itemAt(&a.rd, x.Test, ln-a.rd.Start[x.Name]) // the item the report blames
			}
			switch {
			case j >= 0:
				if t.Items[j].Asserts > 0 {
					byAssert++
				}
			case v.V != "fail":
				byAssert++ // a hold item reported failed: necessarily through an assertion function
			case t.Items[v.Item].Asserts > 0:
				byAssert++
			}
		}
		if known && sm.Fails == f+byAssert {
			w += fmt.Sprintf(" — fails = failed entries (%d) + entries failed inside an assertion function (%d): such a failure is counted once in the assert wrapper and once more in tester.run", f, byAssert)
			c.oc.Tag("count:json/fails explained by double counting")
		} else if known {
			c.oc.Tag("count:json/fails NOT explained by double counting")
		}
		c.oc.Violate("count:json/fails", w, c.detail(&a.rd, &a.rr, nil))
	}
	if sm.Passes != p {
		c.oc.Violate("count:json/passes", "summary.passes != number of passed result entries (it counts passing assertion calls, not tests); "+nums, c.detail(&a.rd, &a.rr, nil))
	}
	if sm.Skips != s {
		c.oc.Violate("count:json/skips", "summary.skips != number of skipped result entries; "+nums, c.detail(&a.rd, &a.rr, nil))
	}
	if sm.Passes+sm.Fails+sm.Skips != n {
		c.oc.Violate("count:json/total", "summary passes+fails+skips != number of result entries; "+nums, c.detail(&a.rd, &a.rr, nil))
	}
	// assertion calls executed, known by construction (only when every verdict is the constructed one)
	want, allMatch := 0, true
	for i, x := range a.rd.Entries {
		if x.Test < 0 {
			continue
		}
		t := &c.f.Tests[x.Test]
		if t.ObsOnly {
			allMatch = false
			break
		}
		v := constructed(t, cliTag)
		if coarse(v.String()) != coarse(classify(a.rr.entries[i])) {
			allMatch = false
			break
		}
		want += v.Asserts
	}
	// under --coverage the executed items can differ from the constructed ones (the known if-expression
	// double evaluation, reported by the coverage monitor): the construction is the plain run's
	if allMatch && !a.cov {
		c.oc.Tag("asserts-count-checked")
		if sm.Asserts != want {
			w := fmt.Sprintf("summary.asserts = %d but the tests executed %d assertion calls; %s", sm.Asserts, want, nums)
			if sm.Asserts == want+f {
				w += fmt.Sprintf(" — the surplus equals the number of failed entries (%d): tester.run calls Counter.Fail(), which also increments Asserts", f)
			}
			c.oc.Violate("count:json/asserts", w, c.detail(&a.rd, &a.rr, nil))
		}
	}
}

var plainEntryRe = regexp.MustCompile(`^  (✓|●|-) \[VCL_([A-Z_]+)\] (.*?)(?: \((\d+)ms\))?\s*$`)
var plainSumRe = regexp.MustCompile(`(\d+) passed, (\d+) failed, (\d+) skipped, (\d+) total, (\d+) assertions`)

// plain runs the arrangement without -json and checks the summary line and the per-entry marks
// against the -json run of the same arrangement.
func (c *checker) plain(a *arrRun, cov bool) {
	args := []string{}
	if cov {
		args = append(args, "--coverage")
	}
	rr := falco(c.main, a.rd.Text, args...)
	c.oc.Evals++
	if cov {
		c.oc.Tag("run:plain+coverage")
	} else {
		c.oc.Tag("run:plain")
	}
	if rr.timedOut || rr.crashed {
		if rr.crashed {
			c.oc.Violate("crash:plain-mode-only", "falco test crashed in plain mode on a file whose -json run did not", c.detail(&a.rd, &rr, nil))
		}
		return
	}
	out := rr.stderr + "\n" + rr.stdout
	type pe struct{ mark, scope, name string }
	var pes []pe
	for _, l := range strings.Split(out, "\n") {
		if m := plainEntryRe.FindStringSubmatch(l); m != nil {
			pes = append(pes, pe{m[1], m[2], m[3]})
		}
	}
	var p, f, s int
	for _, e := range a.rr.entries {
		switch coarse(classify(e)) {
		case "pass":
			p++
		case "skip":
			s++
		default:
			f++
		}
	}
	n := len(a.rr.entries)
	det := func() map[string]any {
		return c.detail(&a.rd, &rr, map[string]any{"json_stdout": clip(a.rr.stdout, 3000)})
	}
	if len(pes) != n {
		c.oc.Violate("verdict:plain-vs-json/entries", fmt.Sprintf("plain output lists %d results, the -json report of the same file %d", len(pes), n), det())
	} else {
		for i, e := range a.rr.entries {
			want := map[string]string{"pass": "✓", "fail": "●", "skip": "-"}[coarse(classify(e))]
			if pes[i].mark != want || pes[i].scope != e.Scope || pes[i].name != e.Name {
				kind := "helper-sub"
				if x := a.rd.Entries[i]; x.Test >= 0 {
					kind = c.f.Tests[x.Test].Kind
				}
				c.oc.Violate("verdict:plain-vs-json/"+kind, fmt.Sprintf("entry %d (%s, %s): -json reports %s, plain output marks it %q", i, e.Name, e.Scope, classify(e), pes[i].mark), det())
				break
			}
		}
	}
	m := plainSumRe.FindStringSubmatch(out)
	if m == nil {
		c.oc.Violate("count:plain/no-summary-line", "no 'N passed, M failed, K skipped, T total' line in the plain output", det())
		return
	}
	pp, _ := strconv.Atoi(m[1])
	pf, _ := strconv.Atoi(m[2])
	ps, _ := strconv.Atoi(m[3])
	pt, _ := strconv.Atoi(m[4])
	pa, _ := strconv.Atoi(m[5])
	nums := fmt.Sprintf("summary line %q; result entries of the same file: %d (passed %d, failed %d, skipped %d)", m[0], n, p, f, s)
	if pp+pf+ps != pt || pt != n {
		c.oc.Violate("count:plain/total", "passed+failed+skipped != total, or total != number of results; "+nums, det())
	}
	if pp != p {
		c.oc.Violate("count:plain/passed", nums, det())
	}
	if pf != f {
		c.oc.Violate("count:plain/failed", nums, det())
	}
	if ps != s {
		c.oc.Violate("count:plain/skipped", nums, det())
	}
	if a.rr.j != nil && a.rr.j.Summary != nil && pa != a.rr.j.Summary.Asserts {
		c.oc.Violate("count:plain/assertions-vs-json", nums+fmt.Sprintf("; -json summary.asserts = %d", a.rr.j.Summary.Asserts), det())
	}
	// assertion count against construction
	want, allMatch := 0, true
	for i, x := range a.rd.Entries {
		if x.Test < 0 {
			continue
		}
		t := &c.f.Tests[x.Test]
		v := constructed(t, "")
		if t.ObsOnly || coarse(v.String()) != coarse(classify(a.rr.entries[i])) {
			allMatch = false
			break
		}
		want += v.Asserts
	}
	// (not under --coverage: the known if-expression double evaluation changes which items execute)
	if allMatch && !cov && pa != want {
		w := fmt.Sprintf("the summary line says %d assertions but the tests executed %d assertion calls; %s", pa, want, nums)
		if pa == want+f {
			w += fmt.Sprintf(" — the surplus equals the number of failed tests (%d)", f)
		}
		c.oc.Violate("count:plain/assertions", w, det())
	}
	if (rr.exit != 0) != (f > 0) {
		c.oc.Violate("exit:plain", fmt.Sprintf("plain mode exit status %d with %d failed results", rr.exit, f), det())
	}
}

// itemAt maps a reported line (relative to the test's first line) to the item of the test.
func itemAt(rd *rendered, ti int, rel int) int {
	for i, r := range rd.ItemLn[ti] {
		if rel >= r[0] && rel <= r[1] {
			return i
		}
	}
	return -1
}

// checkVerdicts compares every entry of the run with its constructed verdict. alone gives, for
// tests whose verdict deviates, what was observed when the test ran alone (nil while running the
// singletons themselves): a deviation that disappears when the test is alone is an order finding,
// not a verdict finding. base (only for the -t run) gives the observations of the same file
// without -t: untagged tests are then only required to be unaffected by the option.
func (c *checker) checkVerdicts(a *arrRun, cliTag string, alone map[int][]obs, base *arrRun) {
	if !a.ok {
		return
	}
	firstScopeOK := map[int]bool{}
	for i, x := range a.rd.Entries {
		e := a.rr.entries[i]
		got := classify(e)
		if x.Test < 0 {
			if got != "pass" {
				c.oc.Violate("verdict:helper-sub:"+x.Helper+"/pass->"+got, fmt.Sprintf("the subroutine %s, declared in the test file only to be used with testing.mock, is run as a test and reported %s (%s): a file that mocks it can never pass", x.Helper, got, clip(e.Error, 160)),
					c.detail(&a.rd, &a.rr, map[string]any{"entry": e}))
			} else {
				c.oc.Tag("inst:helper-sub:" + x.Helper + "/hold")
			}
			continue
		}
		t := &c.f.Tests[x.Test]
		if t.ObsOnly {
			if x.Nth > 0 {
				if got == "pass" {
					c.oc.Tag("obs:multi-scope/second scope starts from fresh state")
				} else {
					c.oc.Tag("obs:multi-scope/state carried from the first scope's run into the second")
				}
			}
			continue
		}
		if cliTag != "" && t.Tag == "" {
			if base != nil {
				if bo, ok := base.obs[ekey(x.Name, x.Scope)]; ok && bo.Verdict != got {
					c.oc.Violate("verdict:untagged test with -t/"+bo.Verdict+"->"+got, fmt.Sprintf("untagged test %q is reported %s without -t and %s with -t %s", x.Name, bo.Verdict, got, cliTag), c.detail(&a.rd, &a.rr, map[string]any{"entry": e}))
				}
			}
			continue
		}
		want := constructed(t, cliTag)
		ws := want.String()
		det := func(extra map[string]any) map[string]any {
			d := c.detail(&a.rd, &a.rr, map[string]any{"entry": e, "constructed": ws, "reported": got, "run": a.what, "coverage": a.cov, "scenario": t.Scenario})
			for k, v := range extra {
				d[k] = v
			}
			return d
		}
		report := func(kind, exp, rep, what string, extra map[string]any) {
			// a deviation that is not there when the test is alone in its file is an order finding: it is
			// reported (with the name of the leaking state) by the comparison with the singleton run
			if alone != nil {
				if so, ok := alone[x.Test]; ok && x.Nth < len(so) {
					if cur, ok := a.obs[ekey(x.Name, x.Scope)]; ok && !so[x.Nth].equal(cur) {
						c.oc.Tag("verdict-deviation-left-to-order-monitor")
						return
					}
				}
			}
			if x.Nth > 0 && firstScopeOK[x.Test] {
				kind += "@later-scope"
			}
			c.oc.Violate("verdict:"+kind+"/"+exp+"->"+rep, what, det(extra))
		}
		// annotations decide first
		annot := ""
		switch {
		case t.Tag != "":
			annot = "@tag:" + strings.ReplaceAll(t.Tag, " ", "")
			if cliTag != "" {
				annot += " with -t " + cliTag
			} else {
				annot += " without -t"
			}
		case t.Skip:
			annot = "@skip"
		}
		if want.V == "skip" || got == "skip" {
			if ws != got {
				k := annot
				if k == "" {
					k = t.Kind
				}
				report(k, ws, coarse(got), fmt.Sprintf("test %q (%s): constructed verdict %s, reported %s (%s)", x.Name, x.Scope, ws, got, clip(e.Error, 160)), nil)
			} else if annot != "" {
				c.oc.Tag("inst:" + annot + "/skip")
			}
			continue
		}
		if annot != "" && ws == got {
			c.oc.Tag("inst:" + annot + "/run")
		}
		// the item the report blames (by line) and the item constructed to fail
		cj := -1
		if want.V == "fail" {
			cj = want.Item
		}
		rj := -1
		if coarse(got) == "fail" && e.Line > 0 {
			rj = itemAt(&a.rd, x.Test, e.Line-a.rd.Start[x.Name])
		} else if coarse(got) == "fail" {
			// runtime exceptions carry their position in the message only
			if m := posRe.FindStringSubmatch(e.Error); m != nil && strings.HasSuffix(m[1], "main.test.vcl") {
				n, _ := strconv.Atoi(m[2])
				rj = itemAt(&a.rd, x.Test, n-a.rd.Start[x.Name])
			}
		}
		kindOf := func(j int) string {
			if j >= 0 && j < len(t.Items) {
				return t.Items[j].Kind
			}
			if t.ByName {
				return "scope-by-name:" + t.Scopes[0]
			}
			return t.Kind
		}
		itemOf := func(j int) map[string]any {
			if j >= 0 && j < len(t.Items) {
				return map[string]any{"item": t.Items[j]}
			}
			return nil
		}
		tagInst := func(upto int) {
			if cliTag != "" {
				return
			}
			for j, it := range t.Items {
				if j > upto && upto >= 0 {
					break
				}
				hf := "hold"
				if it.Fail {
					hf = "fail"
				}
				c.oc.Tag("inst:" + it.Kind + "/" + hf)
			}
		}
		switch {
		case got == "pass" && cj < 0:
			tagInst(-1)
			if x.Nth == 0 {
				firstScopeOK[x.Test] = true
			}
		case got == "pass":
			report(kindOf(cj), ws, "pass", fmt.Sprintf("test %q (%s): item %q fails by construction (%s) but the test is reported passed", x.Name, x.Scope, strings.Join(t.Items[cj].Code, " "), ws), itemOf(cj))
		case rj >= 0 && (cj < 0 || rj < cj):
			report(kindOf(rj), "pass", got, fmt.Sprintf("test %q (%s): item %q holds by construction but is reported as %s (%s)", x.Name, x.Scope, strings.Join(t.Items[rj].Code, " "), got, clip(e.Error, 160)), itemOf(rj))
		case rj >= 0 && rj > cj:
			report(kindOf(cj), ws, "pass", fmt.Sprintf("test %q (%s): item %q fails by construction (%s) but execution went on to a later item", x.Name, x.Scope, strings.Join(t.Items[cj].Code, " "), ws), itemOf(cj))
		case cj < 0:
			// failed somewhere outside the items (prelude) or without a position
			report(kindOf(-1), "pass", got, fmt.Sprintf("test %q (%s): constructed verdict pass, reported %s (%s)", x.Name, x.Scope, got, clip(e.Error, 200)), nil)
		default:
			// the constructed item failed (rj == cj) or a failure without position while one was constructed
			it := t.Items[cj]
			classOK := got == ws || want.Class == "any"
			if rj < 0 && want.Class != "runtime-error" && want.Class != "any" {
				classOK = false
			}
			msgOK := true
			if want.Msg != "" {
				if want.Class == "custom-message" {
					msgOK = e.Error == want.Msg
				} else {
					msgOK = strings.Contains(e.Error, want.Msg)
				}
			}
			switch {
			case !classOK:
				report(it.Kind, ws, got, fmt.Sprintf("test %q (%s): item %q is constructed to fail as %s, reported %s (%s)", x.Name, x.Scope, strings.Join(it.Code, " "), ws, got, clip(e.Error, 200)), itemOf(cj))
			case !msgOK:
				report(it.Kind, ws, got+":other-message", fmt.Sprintf("test %q: the failure is reported but the message %q does not carry the expected text %q", x.Name, clip(e.Error, 200), want.Msg), itemOf(cj))
			default:
				tagInst(cj)
				if x.Nth == 0 {
					firstScopeOK[x.Test] = true
				}
				if got == "fail(empty-message)" {
					c.oc.Violate("verdict:"+it.Kind+"/fail->json-entry-without-error", fmt.Sprintf("test %q fails (exit status, plain output) but its -json entry carries no \"error\" field because the custom message is empty: only file/line tell it from a passed test", x.Name), det(itemOf(cj)))
				}
			}
		}
	}
}

func (c *checker) obsOf(a *arrRun, ti int) []obs {
	t := &c.f.Tests[ti]
	var out []obs
	for _, s := range t.Scopes {
		o, ok := a.obs[ekey(t.entryName(), strings.ToUpper(s))]
		if !ok {
			return nil
		}
		out = append(out, o)
	}
	return out
}

// compare reports per-test differences between two runs. mode "order": a is the full file in
// generated order, b another order/subset. mode "coverage": same arrangement without/with --coverage.
func (c *checker) compare(mode string, a, b *arrRun, rerun func() *arrRun) {
	if !a.ok || !b.ok {
		return
	}
	var confirmed *arrRun
	for _, ti := range b.rd.Tests {
		t := &c.f.Tests[ti]
		oa, ob := c.obsOf(a, ti), c.obsOf(b, ti)
		if oa == nil || ob == nil {
			continue
		}
		for n := range oa {
			if oa[n].equal(ob[n]) {
				continue
			}
			// reproducible?
			if confirmed == nil {
				confirmed = rerun()
			}
			oc2 := c.obsOf(confirmed, ti)
			if oc2 == nil || !oc2[n].equal(ob[n]) {
				c.oc.Inconc = append(c.oc.Inconc, fmt.Sprintf("a difference (%s, file %d, test %s) did not reproduce in a second identical run", mode, c.f.ID, t.Name))
				c.oc.Tag("non-reproducible-difference")
				continue
			}
			field := oa[n].diffField(ob[n])
			det := c.detail(&b.rd, &b.rr, map[string]any{"test": t.Name, "scenario": t.Scenario, "scope": t.Scopes[n], "first": oa[n], "second": ob[n], "first_run": a.what, "second_run": b.what,
				"first_file": clip(a.rd.Text, 6000)})
			if mode == "coverage" {
				who := t.Construct
				if who == "" {
					who = t.Kind
				}
				c.oc.Violate("coverage:"+who, fmt.Sprintf("test %q (%s) is reported differently with --coverage: %s", t.Name, t.Scenario, describeDiff(oa[n], ob[n])), det)
			} else {
				who := t.ProbeFor
				if who == "" {
					who = t.Kind
				}
				if t.ObsOnly {
					continue
				}
				c.oc.Violate("order:"+who+"/"+field, fmt.Sprintf("test %q (%s) is reported differently in %s than in %s: %s", t.Name, t.Scenario, b.what, a.what, describeDiff(oa[n], ob[n])), det)
			}
		}
	}
}

func describeDiff(a, b obs) string {
	switch {
	case a.Verdict != b.Verdict:
		return fmt.Sprintf("verdict %s vs %s (%q vs %q)", a.Verdict, b.Verdict, clip(a.Msg, 120), clip(b.Msg, 120))
	case a.Msg != b.Msg || a.RelLine != b.RelLine || a.Pos != b.Pos:
		return fmt.Sprintf("message %q (+%d:%d) vs %q (+%d:%d)", clip(a.Msg, 160), a.RelLine, a.Pos, clip(b.Msg, 160), b.RelLine, b.Pos)
	}
	return fmt.Sprintf("logs %q vs %q", a.Logs, b.Logs)
}

func identity(n int) []int {
	o := make([]int, n)
	for i := range o {
		o[i] = i
	}
	return o
}

func crashFrame(stderr string) string {
	if i := strings.Index(stderr, "panic: "); i >= 0 {
		if f := fw.TopFalcoFrame(stderr[i:]); f != "" {
			return f
		}
	}
	if f := fw.TopFalcoFrame(stderr); f != "" {
		return f
	}
	return "?"
}

func (c *checker) run() {
	f := c.f
	oc := c.oc
	oc.Tag("files")
	oc.Tag("file-class:" + f.Class)
	oc.TagN("tests", int64(len(f.Tests)))

	// 1. every test alone (without and with coverage); a test that crashes the runner is reported and left out of the rest
	alone := map[int][]obs{}
	singles := map[int]*arrRun{}
	var keep []int
	for ti := range f.Tests {
		t := &f.Tests[ti]
		s := c.exec([]int{ti}, false, "singleton", "")
		if s.rr.crashed {
			want := constructed(t, "")
			kind := t.Kind
			exp := "pass"
			if len(t.Items) > 0 && t.Items[0].Fail {
				exp = verdict{V: "fail", Class: t.Items[0].Class}.String()
			}
			oc.Violate("verdict:"+kind+"/"+exp+"->crash", fmt.Sprintf("falco test dies (exit %d, no report) on a file containing only this test; top frame %s", s.rr.exit, crashFrame(s.rr.stderr)),
				c.detail(&s.rd, &s.rr, map[string]any{"constructed": want.String(), "scenario": t.Scenario}))
			oc.Tag("crashing-tests-removed")
			continue
		}
		keep = append(keep, ti)
		singles[ti] = s
		if s.ok {
			alone[ti] = c.obsOf(s, ti)
		}
		c.checkVerdicts(s, "", nil, nil)
		sc := c.exec([]int{ti}, true, "singleton", "")
		if sc.rr.crashed {
			oc.Violate("coverage:crash/"+t.Kind, "falco test --coverage dies on a file that runs without --coverage; top frame "+crashFrame(sc.rr.stderr), c.detail(&sc.rd, &sc.rr, nil))
			continue
		}
		c.compare("coverage", s, sc, func() *arrRun { return c.exec([]int{ti}, true, "singleton(confirm)", "") })
	}
	if len(keep) == 0 {
		return
	}

	// 2. the file in generated order
	base := c.exec(keep, false, "base", "")
	if base.rr.crashed {
		oc.Violate("order:crash-in-combination", "falco test dies on the whole file although every test alone runs; top frame "+crashFrame(base.rr.stderr), c.detail(&base.rd, &base.rr, nil))
		return
	}
	if !base.ok {
		return
	}
	c.checkVerdicts(base, "", alone, nil)
	var p, fl int
	for _, e := range base.rr.entries {
		switch coarse(classify(e)) {
		case "pass":
			p++
		case "fail":
			fl++
		}
	}
	oc.TagN("entries", int64(len(base.rr.entries)))
	if p > 0 && fl > 0 {
		oc.NonTrivialS(f.Main + "\n" + base.rd.Text)
		if oc.Sample == nil {
			oc.Sample = map[string]any{"main_program": f.Main, "test_file": clip(base.rd.Text, 2500), "report_summary": base.rr.j.Summary, "exit": base.rr.exit}
		}
	}
	c.plain(base, false)
	for _, ti := range keep {
		if s := singles[ti]; s != nil {
			c.compare("order", base, s, func() *arrRun { return c.exec([]int{ti}, false, "singleton(confirm)", "") })
		}
	}
	bc := c.exec(keep, true, "base", "")
	if bc.rr.crashed {
		oc.Violate("coverage:crash/file", "falco test --coverage dies on a file that runs without --coverage; top frame "+crashFrame(bc.rr.stderr), c.detail(&bc.rd, &bc.rr, nil))
	} else {
		c.compare("coverage", base, bc, func() *arrRun { return c.exec(keep, true, "base(confirm)", "") })
		c.plain(bc, true)
	}

	// 3. permutations
	pr := rand.New(rand.NewSource(int64(f.ID)*7919 + fw.Seed*104729 + 17))
	for k := 0; k < f.K; k++ {
		perm := append([]int{}, keep...)
		if k == 0 { // the reverse order always
			for i, j := 0, len(perm)-1; i < j; i, j = i+1, j-1 {
				perm[i], perm[j] = perm[j], perm[i]
			}
		} else {
			pr.Shuffle(len(perm), func(i, j int) { perm[i], perm[j] = perm[j], perm[i] })
		}
		pa := c.exec(perm, false, "permutation", "")
		if pa.rr.crashed {
			oc.Violate("order:crash-in-combination", "falco test dies on a permutation of a file that runs in generated order; top frame "+crashFrame(pa.rr.stderr), c.detail(&pa.rd, &pa.rr, nil))
			continue
		}
		c.compare("order", base, pa, func() *arrRun { return c.exec(perm, false, "permutation(confirm)", "") })
		pc := c.exec(perm, true, "permutation", "")
		if !pc.rr.crashed {
			c.compare("coverage", pa, pc, func() *arrRun { return c.exec(perm, true, "permutation(confirm)", "") })
		}
	}

	// 4. with -t prod when the file has tagged tests
	hasTag := false
	for _, ti := range keep {
		hasTag = hasTag || f.Tests[ti].Tag != ""
	}
	if hasTag {
		ta := c.exec(keep, false, "with -t prod", "prod")
		if !ta.rr.crashed {
			c.checkVerdicts(ta, "prod", nil, base)
		}
	}
}

func run(cs fw.Case) fw.Outcome {
	var oc fw.Outcome
	if cs.Kind == "extra" {
		var xc xcase
		json.Unmarshal(cs.Data, &xc)
		runExtra(&oc, xc)
		return oc
	}
	var b Batch
	if err := json.Unmarshal(cs.Data, &b); err != nil {
		oc.Inconc = append(oc.Inconc, "bad case: "+err.Error())
		return oc
	}
	for i := range b.Files {
		c := &checker{oc: &oc, f: &b.Files[i], main: mainVCL(b.Files[i].Main)}
		c.run()
	}
	// stable order of violations for reproducible replay files
	sort.SliceStable(oc.Viols, func(i, j int) bool { return oc.Viols[i].Key < oc.Viols[j].Key })
	return oc
}
