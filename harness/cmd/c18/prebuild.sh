#!/bin/bash
# builds the lint plugins falco-p1..p4 (same program under four names) into .build/plugins
VERIF="$1"
export GOPROXY=off GOFLAGS=-mod=mod
mkdir -p "$VERIF/.build/plugins"
cd "$VERIF/harness" && go build $VERIF_MODFLAG -o "$VERIF/.build/plugins/falco-p1" ./cmd/c18plugin || exit 1
for n in 2 3 4; do cp "$VERIF/.build/plugins/falco-p1" "$VERIF/.build/plugins/falco-p$n"; done
