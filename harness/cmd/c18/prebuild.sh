#!/bin/bash
# builds the lint plugins falco-p1..p4 (same program under four names) into .build/plugins.
# Every file is written under a temporary name and renamed into place: a plugin that another run of
# this check is executing right now can be replaced that way ("text file busy" otherwise).
VERIF="$1"
export GOPROXY=off GOFLAGS=-mod=mod
D="$VERIF/.build/plugins"
mkdir -p "$D"
T="$D/.tmp-$$"
cd "$VERIF/harness" && go build $VERIF_MODFLAG -o "$T" ./cmd/c18plugin || { rm -f "$T"; exit 1; }
for n in 1 2 3 4; do cp "$T" "$T-$n" && mv -f "$T-$n" "$D/falco-p$n" || { rm -f "$T" "$T-$n"; exit 1; }; done
rm -f "$T"
