// C18 — concurrent requests and concurrent lint plugins are serialisable (race-detector build).
package main

import (
	"encoding/json"
	"fmt"
	"io"
	"math/rand"
	"net/http"
	"net/http/httptest"
	"net/url"
	"os"
	"path/filepath"
	"regexp"
	"runtime"
	"sort"
	"strings"
	"sync"
	"time"

	"github.com/anishathalye/porcupine"
	"github.com/ysugimoto/falco/v2/config"
	"github.com/ysugimoto/falco/v2/interpreter"
	icontext "github.com/ysugimoto/falco/v2/interpreter/context"
	"github.com/ysugimoto/falco/v2/lexer"
	"github.com/ysugimoto/falco/v2/linter"
	lcontext "github.com/ysugimoto/falco/v2/linter/context"
	"github.com/ysugimoto/falco/v2/parser"
	"github.com/ysugimoto/falco/v2/resolver"

	"verif/harness/fw"
)

type hcase struct {
	Seed     int64 `json:"seed"`
	Clients  int   `json:"clients"`
	PerCl    int   `json:"per_client"`
	Keys     int   `json:"keys"`
	Procs    int   `json:"gomaxprocs"`
	Plugin   bool  `json:"plugin,omitempty"`
	Stmts    int   `json:"stmts,omitempty"`
	PerStmt  int   `json:"per_stmt,omitempty"`
	Repeats  int   `json:"repeats,omitempty"`
}

func main() {
	fw.Main(&fw.Prop{
		ID:    "C18",
		Level: "exploration",
		Race:  true,
		Rule: "simulator half: many short histories (<=48 operations) of 2-16 client goroutines against one Interpreter behind httptest.NewServer, request classes cacheable/pass/error/restart/rate-counter/penalty-box over 2-5 colliding keys, " +
			"each request carrying a unique marker that the VCL threads through every stage; origin jitter 0-3 ms; GOMAXPROCS in {1,2,4,16}; built with the race detector. Oracles: zero race reports with a falco frame; isolation (every marker seen in a reply is the request's own, flow and restart count are those of its class); " +
			"linearizability of the recorded call/return history (porcupine) against a sequential cache model per key (MISS stores, HIT returns hits+1), a fetch-and-add rate counter, per-client fetch-and-add counters with request-supplied increments, and a penalty-box set; further isolation oracles: every hit adds its marker to ITS copy of the cached object (a reply shows no other hitter's marker), a header set to the empty string by some requests reads as set only for those, and a request that another falco node forwarded (Fastly-FF) gets the status it gets when sent alone. " +
			"plugin half: 2-4 real plugin executables per statement, each returning unique diagnostic ids after 0-5 ms; multiset of ids in Linter.Errors must equal the configured one (exactly-once), under the race detector. " +
			"non-trivial = history with >=2 operations overlapping in time on the same key, or a lint with >=2 plugins on one statement; distinct by hash of the recorded history",
		Assumptions: []string{
			"a porcupine timeout (60 s per history) or a transport-level client error is inconclusive, not a violation",
			"a lint in which the linter itself reports a plugin command failure (a plugin process died or hit falco's 5 s plugin timeout) is inconclusive for lost diagnostics",
			"TTL 3600 s and a 60 s rate window against histories of < 2 s: no time-based decision",
			"only schedules that the Go scheduler produced in these runs are covered",
		},
		Gen:           gen,
		Run:           run,
		WorkerInit:    workerInit,
		Finish:        finish,
		Timeout:       300 * time.Second,
		MinNonTrivial: 10,
		Workers:       4,
	})
}

func gen(g *fw.GenCtx) {
	r := g.Rand
	n := g.Pick(60, 1500)
	procs := []int{1, 2, 4, 16}
	for k := 0; k < n; k++ {
		cl := []int{2, 3, 4, 8, 16}[r.Intn(5)]
		per := 48 / cl
		if per > 8 {
			per = 8
		}
		g.Emit("hist", hcase{Seed: r.Int63(), Clients: cl, PerCl: 1 + r.Intn(per), Keys: 2 + r.Intn(4), Procs: procs[k%4]})
	}
	for k := 0; k < g.Pick(8, 100); k++ {
		g.Emit("plugin", hcase{Seed: r.Int63(), Plugin: true, Stmts: 1 + r.Intn(4), PerStmt: 2 + r.Intn(3), Procs: procs[k%4], Repeats: g.Pick(25, 50)})
	}
}

// ---- simulator half --------------------------------------------------------------------------

var originHost, originPort string

func workerInit() {
	srv := httptest.NewServer(http.HandlerFunc(func(w http.ResponseWriter, r *http.Request) {
		// an existing suspension point inside the request: the backend round trip
		if d := r.Header.Get("X-Delay-Us"); d != "" {
			var us int
			fmt.Sscan(d, &us)
			time.Sleep(time.Duration(us) * time.Microsecond)
		}
		w.Header().Set("Cache-Control", "max-age=3600")
		w.Header().Set("X-Origin-M", r.Header.Get("X-M"))
		w.Write([]byte("origin:" + r.URL.Path))
	}))
	u, _ := url.Parse(srv.URL)
	originHost, originPort = u.Hostname(), u.Port()
	os.Setenv("PATH", filepath.Join(fw.Verif, ".build", "plugins")+":"+os.Getenv("PATH"))
}

func program() string {
	return fmt.Sprintf(`backend b { .host = %q; .port = %q; }
ratecounter rc {}
ratecounter rc2 {}
penaltybox pb {}
sub vcl_recv {
#FASTLY RECV
  declare local var.m STRING;
  declare local var.n INTEGER;
  set var.m = req.http.X-M;
  log "recv:" var.m ":" req.restarts;
  if (req.url ~ "^/err") { error 601 var.m; }
  if (req.url ~ "^/restart") { if (req.restarts == 0) { set req.http.X-R = var.m; restart; } return(pass); }
  if (req.url ~ "^/rate") {
    set var.n = ratelimit.ratecounter_increment(rc, "k", 1);
    log "bucket:" ratecounter.rc.bucket.60s;
    return(pass);
  }
  if (req.url ~ "^/rk") {
    # per-client counters with different increments (key and delta from the request)
    set var.n = ratelimit.ratecounter_increment(rc2, req.http.X-K, std.atoi(req.http.X-Delta));
    log "rk:" var.n;
    return(pass);
  }
  if (req.url ~ "^/pbadd") { ratelimit.penaltybox_add(pb, req.http.X-K, 10m); log "pb:added"; return(pass); }
  if (req.url ~ "^/pbhas") { log "pb:" if(ratelimit.penaltybox_has(pb, req.http.X-K), "1", "0"); return(pass); }
  if (req.url ~ "^/pass") { return(pass); }
  return(lookup);
}
sub vcl_hash {
#FASTLY HASH
  log "hash:" req.http.X-M;
}
sub vcl_hit {
#FASTLY HIT
  log "hit:" req.http.X-M;
  # the object of this request: what it adds here belongs to this request's copy
  add obj.http.X-Hit-M = req.http.X-M;
  log "hitobj:" obj.http.X-Hit-M;
}
sub vcl_miss {
#FASTLY MISS
  set bereq.http.X-M = req.http.X-M;
  log "miss:" bereq.http.X-M;
}
sub vcl_pass {
#FASTLY PASS
  set bereq.http.X-M = req.http.X-M;
  log "pass:" bereq.http.X-M;
}
sub vcl_fetch {
#FASTLY FETCH
  set beresp.http.X-Fetch-M = req.http.X-M;
  log "fetch:" req.http.X-M ":" beresp.http.X-Origin-M;
}
sub vcl_error {
#FASTLY ERROR
  set obj.http.X-Err-M = req.http.X-M;
  log "error:" req.http.X-M ":" obj.response;
}
sub vcl_deliver {
#FASTLY DELIVER
  set resp.http.X-Resp-M = req.http.X-M;
  log "deliver:" req.http.X-M;
  log "hitm:" resp.http.X-Hit-M;
  # a header that is set to the empty string by some requests only
  if (req.http.X-Flagset) { set resp.http.X-Flag = ""; }
  log "flag:" if(resp.http.X-Flag, "1", "0") "[" resp.http.X-Flag "]";
}
sub vcl_log {
#FASTLY LOG
  log "log:" req.http.X-M ":" resp.http.X-Resp-M;
}
`, originHost, originPort)
}

type opIn struct {
	Class   string `json:"class"`
	Key     string `json:"key"`
	Marker  string `json:"marker"`
	Delta   int    `json:"delta,omitempty"`
	Flagset bool   `json:"flagset,omitempty"`
}
type opOut struct {
	Status   int      `json:"status"`
	Flow     string   `json:"flow"`
	XCache   string   `json:"x_cache"`
	Hits     string   `json:"hits"`
	Bucket   string   `json:"bucket,omitempty"`
	PB       string   `json:"pb,omitempty"`
	RK       string   `json:"rk,omitempty"`
	Flag     string   `json:"flag,omitempty"`
	Restarts int      `json:"restarts"`
	Markers  []string `json:"markers,omitempty"` // foreign markers seen
	Err      string   `json:"err,omitempty"`
}
type recOp struct {
	Client   int
	In       opIn
	Out      opOut
	Call     int64
	Return   int64
	Complete bool
}

type reply struct {
	Flows []struct {
		Subroutine string `json:"subroutine"`
	} `json:"flows"`
	Logs []struct {
		Message string `json:"message"`
	} `json:"logs"`
	Restarts       int    `json:"restarts"`
	Cached         bool   `json:"cached"`
	Error          string `json:"error"`
	ClientResponse struct {
		Headers map[string]string `json:"headers"`
	} `json:"client_response"`
}

var markerRe = regexp.MustCompile(`c\d+-\d+-\d+`)

func runHistory(oc *fw.Outcome, hc hcase) {
	old := runtime.GOMAXPROCS(hc.Procs)
	defer runtime.GOMAXPROCS(old)
	it := interpreter.New(icontext.WithResolver(resolver.NewStaticResolver("main.vcl", program())))
	srv := httptest.NewServer(it)
	defer srv.Close()
	start := time.Now()
	var mu sync.Mutex
	var ops []recOp
	var wg sync.WaitGroup
	classes := []string{"cache", "cache", "cache", "pass", "err", "restart", "rate", "pbadd", "pbhas", "rk", "rk", "ff"}
	// a request that another falco simulator forwarded: what it gets alone is what it gets in a crowd
	ffAlone := ""
	{
		req, _ := http.NewRequest("GET", srv.URL+"/ff/alone", nil)
		req.Header.Set("X-M", "c999-0-0")
		req.Header.Set("Fastly-FF", "x!FALCO!cache-localsimulator")
		if resp, err := http.DefaultClient.Do(req); err == nil {
			io.Copy(io.Discard, resp.Body)
			resp.Body.Close()
			ffAlone = fmt.Sprint(resp.StatusCode)
		}
	}
	for c := 0; c < hc.Clients; c++ {
		wg.Add(1)
		go func(c int) {
			defer wg.Done()
			r := rand.New(rand.NewSource(hc.Seed + int64(c)*7919))
			client := &http.Client{Transport: &http.Transport{DisableKeepAlives: r.Intn(2) == 0}, Timeout: 60 * time.Second}
			for n := 0; n < hc.PerCl; n++ {
				in := opIn{Class: classes[r.Intn(len(classes))], Key: fmt.Sprintf("k%d", r.Intn(hc.Keys)), Marker: fmt.Sprintf("c%d-%d-%d", c, n, hc.Seed%1000)}
				path := "/" + in.Key
				if in.Class != "cache" {
					path = "/" + in.Class + "/" + in.Key
				}
				req, _ := http.NewRequest("GET", srv.URL+path, nil)
				req.Header.Set("X-M", in.Marker)
				req.Header.Set("X-K", in.Key)
				req.Header.Set("X-Delay-Us", fmt.Sprint(r.Intn(3000)))
				switch in.Class {
				case "rk":
					in.Delta = 1 + r.Intn(3)
					req.Header.Set("X-Delta", fmt.Sprint(in.Delta))
				case "cache":
					if r.Intn(4) == 0 {
						in.Flagset = true
						req.Header.Set("X-Flagset", "1")
					}
				case "ff":
					req.Header.Set("Fastly-FF", "x!FALCO!cache-localsimulator")
				}
				op := recOp{Client: c, In: in}
				op.Call = int64(time.Since(start))
				resp, err := client.Do(req)
				if err != nil {
					op.Out.Err = err.Error()
				} else {
					body, rerr := io.ReadAll(resp.Body)
					resp.Body.Close()
					op.Return = int64(time.Since(start))
					op.Out.Status = resp.StatusCode
					if rerr != nil {
						op.Out.Err = rerr.Error()
					} else {
						op.Complete = true
						if in.Class == "ff" {
							// judged by its status only (the reply of a rejected request is no process document)
							op.Out.Flow = "status:" + fmt.Sprint(resp.StatusCode) + "/alone:" + ffAlone
						} else {
							parseReply(&op, body)
						}
					}
				}
				mu.Lock()
				ops = append(ops, op)
				mu.Unlock()
			}
		}(c)
	}
	wg.Wait()
	end := int64(time.Since(start)) + 1
	checkHistory(oc, hc, ops, end)
}

func parseReply(op *recOp, body []byte) {
	var rp reply
	if err := json.Unmarshal(body, &rp); err != nil {
		op.Out.Err = "not json: " + clip(string(body), 120)
		op.Complete = false
		return
	}
	var flow []string
	for _, f := range rp.Flows {
		if strings.HasPrefix(f.Subroutine, "vcl_") {
			flow = append(flow, strings.TrimPrefix(f.Subroutine, "vcl_"))
		}
	}
	op.Out.Flow = strings.Join(flow, ">")
	op.Out.XCache = rp.ClientResponse.Headers["x-cache"]
	op.Out.Hits = rp.ClientResponse.Headers["x-cache-hits"]
	op.Out.Restarts = rp.Restarts
	if rp.Error != "" {
		op.Out.Err = "process error: " + clip(rp.Error, 150)
	}
	seen := map[string]bool{}
	note := func(s string) {
		for _, m := range markerRe.FindAllString(s, -1) {
			if m != op.In.Marker && !seen[m] {
				seen[m] = true
				op.Out.Markers = append(op.Out.Markers, m)
			}
		}
	}
	for _, l := range rp.Logs {
		note(l.Message)
		if strings.HasPrefix(l.Message, "bucket:") {
			op.Out.Bucket = strings.TrimPrefix(l.Message, "bucket:")
		}
		if strings.HasPrefix(l.Message, "pb:") {
			op.Out.PB = strings.TrimPrefix(l.Message, "pb:")
		}
		if strings.HasPrefix(l.Message, "rk:") {
			op.Out.RK = strings.TrimPrefix(l.Message, "rk:")
		}
		if strings.HasPrefix(l.Message, "flag:") {
			op.Out.Flag = strings.TrimPrefix(l.Message, "flag:")
		}
	}
	for k, v := range rp.ClientResponse.Headers {
		if !strings.HasSuffix(k, "-m") {
			continue
		}
		// a HIT legitimately delivers the cached object, whose headers were written while the
		// request that populated the cache was being fetched: those two carry that request's marker
		if op.Out.XCache == "HIT" && (k == "x-fetch-m" || k == "x-origin-m") {
			continue
		}
		note(v)
	}
	// own marker must have travelled through every stage
	own := 0
	for _, l := range rp.Logs {
		if strings.Contains(l.Message, op.In.Marker) {
			own++
		}
	}
	if own == 0 {
		op.Out.Markers = append(op.Out.Markers, "(own marker missing)")
	}
}

var flowsOf = map[string][]string{
	"cache":   {"recv>hash>miss>fetch>deliver>log", "recv>hash>hit>deliver>log"},
	"pass":    {"recv>hash>pass>fetch>deliver>log"},
	"err":     {"recv>error>deliver>log"},
	"restart": {"recv>recv>hash>pass>fetch>deliver>log"},
	"rate":    {"recv>hash>pass>fetch>deliver>log"},
	"pbadd":   {"recv>hash>pass>fetch>deliver>log"},
	"pbhas":   {"recv>hash>pass>fetch>deliver>log"},
	"rk":      {"recv>hash>pass>fetch>deliver>log"},
}

type cacheState struct {
	Stored bool
	Hits   int
}

func checkHistory(oc *fw.Outcome, hc hcase, ops []recOp, end int64) {
	oc.Evals += int64(len(ops))
	hist, _ := json.Marshal(ops)
	detail := func(extra map[string]any) map[string]any {
		d := map[string]any{"case": hc, "history": json.RawMessage(hist)}
		for k, v := range extra {
			d[k] = v
		}
		return d
	}
	// overlap statistics
	maxConc, overlapSameKey := 0, 0
	patterns := map[string]bool{}
	for i, a := range ops {
		conc := 1
		for j, b := range ops {
			if i == j {
				continue
			}
			ar, br := a.Return, b.Return
			if !a.Complete {
				ar = end
			}
			if !b.Complete {
				br = end
			}
			if a.Call < br && b.Call < ar {
				conc++
				if i < j {
					cl := []string{a.In.Class, b.In.Class}
					sort.Strings(cl)
					patterns[cl[0]+"|"+cl[1]] = true
					if a.In.Key == b.In.Key {
						overlapSameKey++
					}
				}
			}
		}
		if conc > maxConc {
			maxConc = conc
		}
	}
	for p := range patterns {
		oc.Tag("overlap:" + p)
	}
	oc.TagN("operations", int64(len(ops)))
	oc.Tag(fmt.Sprintf("ops-overlapping-one-op:%02d", maxConc))
	oc.Tag(fmt.Sprintf("gomaxprocs:%d", hc.Procs))
	if overlapSameKey > 0 {
		oc.NonTrivial(hist)
	}
	// isolation
	inconclusive := false
	for _, op := range ops {
		if !op.Complete {
			inconclusive = true
			oc.Inconc = append(oc.Inconc, "transport-level error: "+op.Out.Err)
			continue
		}
		if len(op.Out.Markers) > 0 {
			oc.Violate("iso:marker/"+op.In.Class, fmt.Sprintf("request %s (%s) saw foreign markers %v in its logs/headers", op.In.Marker, op.In.Class, op.Out.Markers), detail(nil))
		}
		if op.In.Class == "ff" {
			// "status:N/alone:M": the forwarded request gets what it got alone
			parts := strings.SplitN(strings.TrimPrefix(op.Out.Flow, "status:"), "/alone:", 2)
			if len(parts) == 2 && parts[1] != "" && parts[0] != parts[1] {
				oc.Violate("iso:forwarded-request", fmt.Sprintf("a request with Fastly-FF naming a falco node got status %s in the concurrent history, %s when sent alone", parts[0], parts[1]), detail(nil))
			}
			oc.Tag("forwarded-request:status=" + parts[0])
			continue
		}
		if op.In.Class == "cache" {
			want := "0[(null)]"
			if op.In.Flagset {
				want = "1[]"
			}
			if op.Out.Flag != want {
				oc.Violate("iso:empty-header-flag", fmt.Sprintf("request %s (X-Flagset=%v) logs flag:%s, expected flag:%s: whether a header is set to the empty string belongs to the request", op.In.Marker, op.In.Flagset, op.Out.Flag, want), detail(nil))
			}
		}
		okFlow := false
		for _, f := range flowsOf[op.In.Class] {
			okFlow = okFlow || f == op.Out.Flow
		}
		if !okFlow {
			oc.Violate("iso:flow/"+op.In.Class, fmt.Sprintf("request %s of class %s took flow %s (error %q)", op.In.Marker, op.In.Class, op.Out.Flow, op.Out.Err), detail(nil))
		}
		wantRestarts := 0
		if op.In.Class == "restart" {
			wantRestarts = 1
		}
		if op.Out.Restarts != wantRestarts {
			oc.Violate("iso:restarts/"+op.In.Class, fmt.Sprintf("request %s reports %d restarts, its class has %d", op.In.Marker, op.Out.Restarts, wantRestarts), detail(nil))
		}
		if op.Out.Err != "" && op.In.Class != "err" {
			oc.Violate("iso:error/"+op.In.Class, "request ended in a process error: "+op.Out.Err, detail(nil))
		}
	}
	if inconclusive {
		return
	}
	// linearizability
	var pops []porcupine.Operation
	for _, op := range ops {
		switch op.In.Class {
		case "cache", "rate", "pbadd", "pbhas", "rk":
			pops = append(pops, porcupine.Operation{ClientId: op.Client, Input: op.In, Output: op.Out, Call: op.Call, Return: op.Return})
		}
	}
	model := porcupine.Model{
		Partition: func(history []porcupine.Operation) [][]porcupine.Operation {
			parts := map[string][]porcupine.Operation{}
			for _, o := range history {
				in := o.Input.(opIn)
				k := in.Class + "/" + in.Key
				switch in.Class {
				case "rate":
					k = "rate"
				case "rk":
					k = "rk/" + in.Key
				case "pbadd", "pbhas":
					k = "pb/" + in.Key
				}
				parts[k] = append(parts[k], o)
			}
			var out [][]porcupine.Operation
			for _, p := range parts {
				out = append(out, p)
			}
			return out
		},
		Init: func() any { return cacheState{} },
		Step: func(st, in, out any) (bool, any) {
			s, i, o := st.(cacheState), in.(opIn), out.(opOut)
			switch i.Class {
			case "cache":
				if !s.Stored {
					return o.XCache == "MISS" && o.Hits == "0" && strings.Contains(o.Flow, "miss"), cacheState{Stored: true}
				}
				return o.XCache == "HIT" && o.Hits == fmt.Sprint(s.Hits+1) && strings.Contains(o.Flow, "hit"), cacheState{Stored: true, Hits: s.Hits + 1}
			case "rate":
				return o.Bucket == fmt.Sprint(s.Hits+1), cacheState{Hits: s.Hits + 1}
			case "rk":
				// fetch-and-add per client key: the call returns the client's new total
				return o.RK == fmt.Sprint(s.Hits+i.Delta), cacheState{Hits: s.Hits + i.Delta}
			case "pbadd":
				return o.PB == "added", cacheState{Stored: true}
			case "pbhas":
				want := "0"
				if s.Stored {
					want = "1"
				}
				return o.PB == want, s
			}
			return true, s
		},
		DescribeOperation: func(in, out any) string {
			i, o := in.(opIn), out.(opOut)
			return fmt.Sprintf("%s(%s) -> %s hits=%s bucket=%s pb=%s", i.Class, i.Key, o.XCache, o.Hits, o.Bucket, o.PB)
		},
	}
	res, _ := porcupine.CheckOperationsVerbose(model, pops, 60*time.Second)
	switch res {
	case porcupine.Ok:
		oc.Tag("linearizable:ok")
	case porcupine.Unknown:
		oc.Inconc = append(oc.Inconc, "porcupine timed out on a history")
	case porcupine.Illegal:
		// find the failing partition for the key
		part := "?"
		for _, p := range model.Partition(pops) {
			if r, _ := porcupine.CheckOperationsVerbose(porcupine.Model{Init: model.Init, Step: model.Step}, p, 30*time.Second); r == porcupine.Illegal {
				in := p[0].Input.(opIn)
				part = in.Class
				if in.Class == "pbadd" || in.Class == "pbhas" {
					part = "penaltybox"
				}
				break
			}
		}
		oc.Violate("lin:"+part, "the recorded history is not linearizable against the sequential model of partition "+part, detail(nil))
	}
}

// ---- plugin half -----------------------------------------------------------------------------

func runPlugin(oc *fw.Outcome, hc hcase) {
	old := runtime.GOMAXPROCS(hc.Procs)
	defer runtime.GOMAXPROCS(old)
	r := rand.New(rand.NewSource(hc.Seed))
	var sb strings.Builder
	want := map[string]int{}
	sb.WriteString("sub vcl_recv {\n#FASTLY RECV\n")
	id := 0
	for s := 0; s < hc.Stmts; s++ {
		for p := 0; p < hc.PerStmt; p++ {
			fmt.Fprintf(&sb, "  # @plugin: p%d %d", 1+r.Intn(4), r.Intn(6))
			for k := 1 + r.Intn(3); k > 0; k-- {
				id++
				name := fmt.Sprintf("id%d-%d", hc.Seed%1000, id)
				want[name]++
				sb.WriteString(" " + name)
			}
			sb.WriteString("\n")
		}
		fmt.Fprintf(&sb, "  set req.http.X%d = \"v\";\n", s)
	}
	sb.WriteString("}\n")
	src := sb.String()
	for rep := 0; rep < hc.Repeats; rep++ {
		oc.Evals++
		vcl, err := parser.New(lexer.NewFromString(src)).ParseVCL()
		if err != nil {
			oc.Inconc = append(oc.Inconc, "harness: plugin program does not parse: "+err.Error())
			return
		}
		l := linter.New(&config.LinterConfig{})
		l.Lint(vcl, lcontext.New())
		got := map[string]int{}
		var other []string
		for _, e := range l.Errors {
			if e == nil {
				other = append(other, "<nil entry>")
				continue
			}
			if strings.HasPrefix(e.Message, "id") {
				got[e.Message]++
			} else if strings.Contains(e.Message, "ustom") || strings.Contains(e.Message, "plugin") {
				other = append(other, e.Message)
			}
		}
		detail := map[string]any{"case": hc, "vcl": src, "configured": want, "reported": got, "other": other}
		for k, n := range want {
			// a plugin process that failed or hit falco's 5 s plugin timeout (the linter says so in `other`)
			// did not return its diagnostics: that run is inconclusive below, not a loss by the linter
			if got[k] < n && len(other) == 0 {
				oc.Violate("plugin:lost", fmt.Sprintf("diagnostic %s returned by a plugin is missing from Linter.Errors (repetition %d)", k, rep), detail)
			}
			if got[k] > n {
				oc.Violate("plugin:dup", fmt.Sprintf("diagnostic %s reported %d times, returned %d times", k, got[k], n), detail)
			}
		}
		for k := range got {
			if want[k] == 0 {
				oc.Violate("plugin:foreign", "diagnostic "+k+" was not configured", detail)
			}
		}
		if len(other) > 0 {
			oc.Inconc = append(oc.Inconc, "plugin run reported a command failure: "+clip(strings.Join(other, "; "), 200))
		}
	}
	oc.TagN("plugin-lints", int64(hc.Repeats))
	oc.Tag(fmt.Sprintf("plugins-per-statement:%d", hc.PerStmt))
	oc.NonTrivialS(src)
	oc.Sample = map[string]any{"vcl": src}
}

func clip(s string, n int) string {
	if len(s) > n {
		return s[:n] + "…"
	}
	return s
}

func run(c fw.Case) fw.Outcome {
	var oc fw.Outcome
	var hc hcase
	json.Unmarshal(c.Data, &hc)
	if hc.Plugin {
		runPlugin(&oc, hc)
	} else {
		runHistory(&oc, hc)
	}
	return oc
}

// ---- race reports ----------------------------------------------------------------------------

var frameLine = regexp.MustCompile(`^\s+(\S+)\(`)

func finish(r *fw.Report) {
	logs, _ := r.Extra["race_logs"].([]string)
	total := 0
	dedup := map[string]string{}
	for _, lg := range logs {
		for _, block := range strings.Split(lg, "==================") {
			if !strings.Contains(block, "WARNING: DATA RACE") {
				continue
			}
			total++
			// the two stacks: outermost falco frame of each
			var outer []string
			for _, part := range regexp.MustCompile(`(?m)^(Read|Write|Previous read|Previous write) at `).Split(block, -1)[1:] {
				stack := part
				if i := strings.Index(stack, "\n\n"); i >= 0 {
					stack = stack[:i]
				}
				last := ""
				for _, line := range strings.Split(stack, "\n") {
					if m := frameLine.FindStringSubmatch(line); m != nil && strings.Contains(m[1], "ysugimoto/falco/v2/") {
						last = strings.TrimPrefix(m[1], "github.com/ysugimoto/falco/v2/")
					}
				}
				outer = append(outer, last)
			}
			hasFalco := false
			for _, o := range outer {
				hasFalco = hasFalco || o != ""
			}
			if !hasFalco {
				continue
			}
			sort.Strings(outer)
			key := "race:" + strings.Join(outer, "|")
			if _, ok := dedup[key]; !ok {
				dedup[key] = block
			}
		}
	}
	r.Extra["race_reports_total"] = total
	r.Extra["race_reports_distinct_falco"] = len(dedup)
	for k, block := range dedup {
		r.AddViol(fw.Viol{Key: k, What: "the race detector reported a data race between these falco entry points", Detail: map[string]any{"report": clip(block, 6000)}}, fw.Case{Kind: "race-log"})
	}
}
