// c18plugin is a falco lint plugin used by the C18 check: it reads the encoded statement with
// falco's own plugin package, sleeps a few milliseconds and answers one diagnostic per id argument.
// usage (from a VCL comment): # @plugin: p1 <delay-ms> <id> <id> ...
package main

import (
	"os"
	"strconv"
	"time"

	"github.com/ysugimoto/falco/v2/ast"
	"github.com/ysugimoto/falco/v2/plugin"
)

func main() {
	req, err := plugin.ReadLinterRequest[*ast.SetStatement](os.Stdin)
	if err != nil {
		os.Stderr.WriteString(err.Error())
		os.Exit(1)
	}
	args := req.Arguments
	if len(args) > 0 {
		if ms, err := strconv.Atoi(args[0]); err == nil {
			time.Sleep(time.Duration(ms) * time.Millisecond)
			args = args[1:]
		}
	}
	resp := &plugin.LinterResponse{}
	for i, id := range args {
		switch i % 3 {
		case 0:
			resp.Error(id)
		case 1:
			resp.Warning(id)
		default:
			resp.Info(id)
		}
	}
	resp.Write(os.Stdout)
}
