// C06 — request processing follows the Fastly request state machine.
package main

import (
	"encoding/json"
	"fmt"
	"net/http"
	"net/http/httptest"
	"net/url"
	"sort"
	"strings"
	"time"

	"github.com/ysugimoto/falco/v2/ast"
	"github.com/ysugimoto/falco/v2/interpreter"
	"github.com/ysugimoto/falco/v2/interpreter/context"
	"github.com/ysugimoto/falco/v2/resolver"

	"verif/harness/fw"
)

var scopes = []string{"recv", "hash", "hit", "miss", "pass", "fetch", "error", "deliver", "log"}

// action of one lifecycle subroutine
type act struct {
	Kind  string `json:"k"`           // "" (none) | "return" | "error" | "restart" | "bare"
	Arg   string `json:"a,omitempty"` // return(<Arg>)
	Guard string `json:"g,omitempty"` // "" unconditional | "==N" | "<N"
}
type prog struct {
	Acts    map[string]act `json:"acts"`
	PassURL bool           `json:"pass_url,omitempty"` // vcl_recv passes URLs under /pass
	Boom    bool           `json:"boom,omitempty"`     // vcl_recv restarts URLs under /boom unconditionally: the request ends in the restart-limit error
}
type reqSpec struct {
	URL  string `json:"url"`
	TTL  string `json:"ttl"`            // origin freshness class: "3600" | "0" | "none"
	Host string `json:"host,omitempty"` // "" = example.com; the host is part of the default cache key
	Hdr  string `json:"hdr,omitempty"`  // value of a request header that is no part of the cache key
}
type scase struct {
	Prog prog      `json:"prog"`
	Reqs []reqSpec `json:"reqs"`
	Rate bool      `json:"rate,omitempty"`
}
type batch struct {
	Cases []scase `json:"cases"`
}

func main() {
	fw.Main(&fw.Prop{
		ID:    "C06",
		Level: "exploration",
		Rule: "programs define all nine lifecycle subroutines, each with no return, one of the nine return actions, `error 6xx`, `restart`, or a bare `return`, optionally guarded by req.restarts; " +
			"all single-subroutine deviations from the default path are enumerated for each entry branch (miss, warm hit, pass), all restart-loop forms in every restart-capable scope, pairs of deviations (PRNG sample in quick, all in thorough) " +
			"and 3-request histories over same/different/pass URLs and origin TTL classes, plus rate-counter/penalty-box persistence. Each request is sent to one Interpreter through ServeHTTP; the recorded flows[].subroutine, restarts, error, cached, " +
			"x-cache, x-cache-hits are compared with a reference state machine + cache model that replays the program's declared actions. non-trivial = request whose reference path deviates from recv>hash>miss>fetch>deliver>log or is not the first request; distinct by (program, request prefix)",
		Assumptions: []string{
			"return actions the linter rejects in a scope have no documented successor: the run may end in a reported error or continue along any path of the machine, but must not crash",
			"vcl_miss -> deliver_stale with no stale object, and cache contents after a non-default vcl_fetch action (pass, hit_for_pass, error, restart, deliver_stale), are not asserted (undocumented)",
			"TTL margins: 'unexpired' = 3600 s, 'not cacheable' = max-age=0; no wall-clock decision",
		},
		Gen:           gen,
		Run:           run,
		WorkerInit:    workerInit,
		Timeout:       120 * time.Second,
		MinNonTrivial: 300,
		CrashKey:      crashKey,
	})
}

// ---- generator -------------------------------------------------------------------------------

var allActions = []string{"lookup", "pass", "hash", "error", "restart", "deliver", "fetch", "deliver_stale", "hit_for_pass"}

func deviations() []act {
	var out []act
	for _, a := range allActions {
		out = append(out, act{Kind: "return", Arg: a})
	}
	out = append(out, act{Kind: "error"}, act{Kind: "restart"}, act{Kind: "bare"})
	return out
}

func entryReqs(branch string) []reqSpec {
	switch branch {
	case "hit":
		return []reqSpec{{URL: "/a", TTL: "3600"}, {URL: "/a", TTL: "3600"}}
	case "pass":
		return []reqSpec{{URL: "/pass/a", TTL: "3600"}}
	}
	return []reqSpec{{URL: "/a", TTL: "3600"}}
}

func gen(g *fw.GenCtx) {
	var b batch
	emit := func(c scase) {
		b.Cases = append(b.Cases, c)
		if len(b.Cases) == 40 {
			g.Emit("sm", b)
			b = batch{}
		}
	}
	devs := deviations()
	guards := []string{"", "==0"}
	// (a) all single deviations x entry branch
	for _, br := range []string{"miss", "hit", "pass"} {
		emit(scase{Prog: prog{Acts: map[string]act{}, PassURL: true}, Reqs: entryReqs(br)})
		for _, s := range scopes {
			for _, d := range devs {
				for _, gd := range guards {
					d.Guard = gd
					emit(scase{Prog: prog{Acts: map[string]act{s: d}, PassURL: true}, Reqs: entryReqs(br)})
				}
			}
		}
	}
	// (c) restart / error loops with every guard pattern up to the bound
	for _, s := range []string{"recv", "hit", "fetch", "error", "deliver"} {
		for _, form := range []act{{Kind: "restart"}, {Kind: "return", Arg: "restart"}} {
			for _, gd := range []string{"", "<1", "<2", "<3", "<4", "<5", "==1", "==3"} {
				form.Guard = gd
				for _, br := range []string{"miss", "hit"} {
					acts := map[string]act{s: form}
					if s == "error" {
						acts["recv"] = act{Kind: "error"}
					}
					emit(scase{Prog: prog{Acts: acts, PassURL: true}, Reqs: entryReqs(br)})
				}
			}
		}
	}
	// error -> restart -> error ... alternation
	for _, gd := range []string{"", "<2", "<4"} {
		emit(scase{Prog: prog{Acts: map[string]act{"fetch": {Kind: "error"}, "error": {Kind: "restart", Guard: gd}}}, Reqs: entryReqs("miss")})
		emit(scase{Prog: prog{Acts: map[string]act{"miss": {Kind: "return", Arg: "error"}, "error": {Kind: "return", Arg: "restart", Guard: gd}}}, Reqs: entryReqs("miss")})
	}
	// (b) pairs of deviations
	r := g.Rand
	type pair struct {
		s1, s2 string
		d1, d2 act
	}
	var pairs []pair
	for i, s1 := range scopes {
		for _, s2 := range scopes[i+1:] {
			for _, d1 := range devs {
				for _, d2 := range devs {
					pairs = append(pairs, pair{s1, s2, d1, d2})
				}
			}
		}
	}
	r.Shuffle(len(pairs), func(i, j int) { pairs[i], pairs[j] = pairs[j], pairs[i] })
	if g.Quick() {
		pairs = pairs[:4000]
	}
	for _, p := range pairs {
		if g.Quick() {
			p.d1.Guard, p.d2.Guard = guards[r.Intn(2)], guards[r.Intn(2)]
			br := []string{"miss", "hit", "pass"}[r.Intn(3)]
			emit(scase{Prog: prog{Acts: map[string]act{p.s1: p.d1, p.s2: p.d2}, PassURL: true}, Reqs: entryReqs(br)})
			continue
		}
		// thorough: the complete product of guards and entry branches
		for _, g1 := range guards {
			for _, g2 := range guards {
				for _, br := range []string{"miss", "hit", "pass"} {
					d1, d2 := p.d1, p.d2
					d1.Guard, d2.Guard = g1, g2
					emit(scase{Prog: prog{Acts: map[string]act{p.s1: d1, p.s2: d2}, PassURL: true}, Reqs: entryReqs(br)})
				}
			}
		}
	}
	// triples of deviations (PRNG)
	for k := 0; k < g.Pick(2000, 60000); k++ {
		acts := map[string]act{}
		for n := 0; n < 3; n++ {
			d := devs[r.Intn(len(devs))]
			d.Guard = []string{"", "==0", "==1", "<2"}[r.Intn(4)]
			acts[scopes[r.Intn(len(scopes))]] = d
		}
		br := []string{"miss", "hit", "pass"}[r.Intn(3)]
		emit(scase{Prog: prog{Acts: acts, PassURL: true}, Reqs: entryReqs(br)})
	}
	// histories of three requests
	urls := []string{"/a", "/b", "/pass/a", "/a?x=1"}
	ttls := []string{"3600", "0", "none"}
	nh := 0
	for _, u1 := range urls {
		for _, u2 := range urls {
			for _, u3 := range urls {
				for _, t := range ttls {
					progs := []prog{{Acts: map[string]act{}, PassURL: true}}
					if !g.Quick() || nh%5 == 0 {
						progs = append(progs, prog{Acts: map[string]act{"hit": {Kind: "return", Arg: "pass"}}, PassURL: true},
							prog{Acts: map[string]act{"deliver": {Kind: "restart", Guard: "==0"}}, PassURL: true},
							prog{Acts: map[string]act{"miss": {Kind: "return", Arg: "pass"}}, PassURL: true})
					}
					nh++
					for _, p := range progs {
						emit(scase{Prog: p, Reqs: []reqSpec{{URL: u1, TTL: t}, {URL: u2, TTL: t}, {URL: u3, TTL: t}}})
					}
				}
			}
		}
	}
	// what the default cache key is made of: the same path on two hosts are two objects, a request header
	// that vcl_hash does not add makes no difference
	{
		type hu struct{ h, u, x string }
		opts := []hu{{"", "/a", ""}, {"other.example.com", "/a", ""}, {"", "/a", "variant-2"}, {"other.example.com", "/a?x=1", ""}, {"EXAMPLE.com", "/a", ""}}
		for _, r1 := range opts[:3] {
			for _, r2 := range opts {
				for _, r3 := range opts {
					for _, p := range []prog{{Acts: map[string]act{}, PassURL: true}, {Acts: map[string]act{"hash": {Kind: "return", Arg: "hash"}}, PassURL: true}} {
						emit(scase{Prog: p, Reqs: []reqSpec{{URL: r1.u, TTL: "3600", Host: r1.h, Hdr: r1.x}, {URL: r2.u, TTL: "3600", Host: r2.h, Hdr: r2.x}, {URL: r3.u, TTL: "3600", Host: r3.h, Hdr: r3.x}}})
					}
				}
			}
		}
	}
	// a restart in one scope (first pass only) and a deviation that shows on the SECOND pass only
	nrs := 0
	for _, s1 := range []string{"recv", "hit", "fetch", "error", "deliver"} {
		for _, form := range []act{{Kind: "restart", Guard: "==0"}, {Kind: "return", Arg: "restart", Guard: "==0"}} {
			for _, s2 := range scopes {
				for _, d := range devs {
					d.Guard = "==1"
					if s2 == s1 {
						continue
					}
					for _, br := range []string{"miss", "hit"} {
						nrs++
						// quick: a sixth of the family, but always "restart out of a hit, then something else in vcl_recv"
						if g.Quick() && nrs%6 != 0 && !(s1 == "hit" && br == "hit" && s2 == "recv") {
							continue
						}
						acts := map[string]act{s1: form, s2: d}
						if s1 == "error" {
							if s2 == "recv" {
								continue
							}
							acts["recv"] = act{Kind: "error", Guard: "==0"}
						}
						emit(scase{Prog: prog{Acts: acts, PassURL: true}, Reqs: entryReqs(br)})
					}
				}
			}
		}
	}
	// a request that ends in a reported error (restart limit) between two ordinary ones: what the simulator
	// keeps across requests must survive it
	for _, t := range []string{"3600", "0"} {
		for _, seq := range [][]string{{"/a", "/boom", "/a"}, {"/boom", "/a", "/a"}, {"/a", "/a", "/boom"}, {"/a", "/boom/x", "/b"}} {
			var reqs []reqSpec
			for _, u := range seq {
				reqs = append(reqs, reqSpec{URL: u, TTL: t})
			}
			emit(scase{Prog: prog{Acts: map[string]act{}, PassURL: true, Boom: true}, Reqs: reqs})
			emit(scase{Prog: prog{Acts: map[string]act{"deliver": {Kind: "restart", Guard: "==0"}}, PassURL: true, Boom: true}, Reqs: reqs})
		}
	}
	for _, seq := range [][]string{{"/rate", "/boom", "/rate"}, {"/boom", "/rate", "/rate"}, {"/rate", "/rate", "/boom"}} {
		var reqs []reqSpec
		for _, u := range seq {
			reqs = append(reqs, reqSpec{URL: u, TTL: "0"})
		}
		emit(scase{Prog: prog{Acts: map[string]act{}, Boom: true}, Reqs: reqs, Rate: true})
	}
	// vcl_fetch returning pass / hit_for_pass / error: the next request to the same URL must not be a hit
	for _, fa := range []act{{Kind: "return", Arg: "pass"}, {Kind: "return", Arg: "hit_for_pass"}, {Kind: "error"}, {Kind: "return", Arg: "error"}} {
		for _, n := range []int{2, 3} {
			var reqs []reqSpec
			for k := 0; k < n; k++ {
				reqs = append(reqs, reqSpec{URL: "/a", TTL: "3600"})
			}
			emit(scase{Prog: prog{Acts: map[string]act{"fetch": fa}, PassURL: true}, Reqs: reqs})
		}
	}
	// rate counter / penalty box persistence
	for n := 1; n <= 3; n++ {
		var reqs []reqSpec
		for k := 0; k < n; k++ {
			reqs = append(reqs, reqSpec{URL: "/rate", TTL: "0"})
		}
		emit(scase{Prog: prog{Acts: map[string]act{}}, Reqs: reqs, Rate: true})
	}
	if len(b.Cases) > 0 {
		g.Emit("sm", b)
	}
}

// ---- program rendering -----------------------------------------------------------------------

var originHost, originPort string

func workerInit() {
	srv := httptest.NewServer(http.HandlerFunc(func(w http.ResponseWriter, r *http.Request) {
		switch r.Header.Get("X-Origin-TTL") {
		case "3600":
			w.Header().Set("Cache-Control", "max-age=3600")
		case "0":
			w.Header().Set("Cache-Control", "max-age=0")
		}
		w.Write([]byte("origin:" + r.URL.Path))
	}))
	u, _ := url.Parse(srv.URL)
	originHost, originPort = u.Hostname(), u.Port()
}

func (a act) render() string {
	var body string
	switch a.Kind {
	case "":
		return ""
	case "return":
		body = "return(" + a.Arg + ");"
	case "error":
		body = "error 601;"
	case "restart":
		body = "restart;"
	case "bare":
		body = "return;"
	}
	if a.Guard != "" {
		op, n := a.Guard[:len(a.Guard)-1], a.Guard[len(a.Guard)-1:]
		return fmt.Sprintf("if (req.restarts %s %s) { %s }\n", op, n, body)
	}
	return body + "\n"
}

func render(p prog, rate bool) string {
	var sb strings.Builder
	fmt.Fprintf(&sb, "backend b { .host = %q; .port = %q; }\n", originHost, originPort)
	if rate {
		sb.WriteString("ratecounter rc {}\npenaltybox pb {}\n")
	}
	for _, s := range scopes {
		fmt.Fprintf(&sb, "sub vcl_%s {\n#FASTLY %s\nlog \"S:%s:\" req.restarts;\n", s, strings.ToUpper(s), s)
		if s == "recv" {
			if rate {
				sb.WriteString("declare local var.n INTEGER;\nlog \"HAS:\" if(ratelimit.penaltybox_has(pb, \"k\"), \"1\", \"0\");\n" +
					"set var.n = ratelimit.ratecounter_increment(rc, \"k\", 1);\nlog \"BUCKET:\" ratecounter.rc.bucket.60s;\nratelimit.penaltybox_add(pb, \"k\", 10m);\n")
			}
			if p.PassURL {
				sb.WriteString("if (req.url ~ \"^/pass\") { return(pass); }\n")
			}
			if p.Boom {
				sb.WriteString("if (req.url ~ \"^/boom\") { restart; }\n")
			}
		}
		sb.WriteString(p.Acts[s].render())
		sb.WriteString("}\n")
	}
	return sb.String()
}

// ---- reference state machine + cache model ---------------------------------------------------

var accepted = map[string]map[string]string{ // scope -> action -> successor ("R" restart, "E" error scope, "END")
	"recv":    {"lookup": "hash", "pass": "hash!", "error": "E", "restart": "R"},
	"hash":    {"hash": "lookup"},
	"hit":     {"deliver": "deliver", "pass": "pass", "error": "E", "restart": "R"},
	"miss":    {"fetch": "fetch", "deliver_stale": "?", "pass": "pass", "error": "E"},
	"pass":    {"pass": "fetch"},
	"fetch":   {"deliver": "deliver", "deliver_stale": "deliver", "hit_for_pass": "deliver", "pass": "deliver", "error": "E", "restart": "R"},
	"error":   {"deliver": "deliver", "deliver_stale": "deliver", "restart": "R"},
	"deliver": {"deliver": "log", "restart": "R"},
	"log":     {"deliver": "END"},
}
var defaults = map[string]string{"recv": "lookup", "hash": "hash", "hit": "deliver", "miss": "fetch", "pass": "pass", "fetch": "deliver", "error": "deliver", "deliver": "deliver", "log": "deliver"}
var errorStmtScopes = map[string]bool{"recv": true, "hit": true, "miss": true, "pass": true, "fetch": true}
var restartStmtScopes = map[string]bool{"recv": true, "hit": true, "fetch": true, "error": true, "deliver": true}

type cacheEntry struct {
	stored  bool
	unknown bool
	// noHit: vcl_fetch returned pass / hit_for_pass for this object: the next lookup must not take the
	// hit branch (it may miss or, with a real hit-for-pass object, pass)
	noHit bool
	hits  int
}
type cacheModel map[string]*cacheEntry

type expect struct {
	flow      []string
	restarts  int
	errorEnd  bool   // the run must end with a reported error
	free      bool   // from here on anything that does not crash is accepted
	freeWhy   string
	hitFinal  int    // 1 = final pass took the hit branch, 0 = miss/pass, -1 = no lookup in final pass or ambiguous
	hitAny    bool
	hits      int
	edges     []string
	ambiguous bool // cache state unknown for a lookup on this path
	// hfpAt > 0: flow[hfpAt] is "miss" after a hit-for-pass object; "pass" is accepted there as well
	hfpAt int
}

func guardTrue(g string, restarts int) bool {
	if g == "" {
		return true
	}
	n := int(g[len(g)-1] - '0')
	if strings.HasPrefix(g, "==") {
		return restarts == n
	}
	return restarts < n
}

func simulate(p prog, rq reqSpec, cm cacheModel) expect {
	var e expect
	e.hitFinal = -1
	key := strings.ToLower(rq.Host) + rq.URL // host names are case-insensitive
	scope := "recv"
	passing := false
	for steps := 0; steps < 100; steps++ {
		e.flow = append(e.flow, scope)
		a := p.Acts[scope]
		if !guardTrue(a.Guard, e.restarts) {
			a = act{}
		}
		action := ""
		switch a.Kind {
		case "", "bare":
			action = defaults[scope]
			if a.Kind == "bare" {
				// a bare `return;` in a state-machine subroutine is rejected by the linter
				e.free, e.freeWhy = true, "bare return in "+scope
			}
		case "return":
			action = a.Arg
		case "error":
			if !errorStmtScopes[scope] {
				e.free, e.freeWhy = true, "error statement in "+scope
			}
			action = "error"
		case "restart":
			if !restartStmtScopes[scope] {
				e.free, e.freeWhy = true, "restart statement in "+scope
			}
			action = "restart"
		}
		if scope == "recv" && p.PassURL && strings.HasPrefix(rq.URL, "/pass") {
			action = "pass"
			e.free, e.freeWhy = false, ""
		}
		if scope == "recv" && p.Boom && strings.HasPrefix(rq.URL, "/boom") {
			action = "restart"
			a = act{Kind: "restart"}
			e.free, e.freeWhy = false, ""
		}
		if e.free {
			return e
		}
		e.edges = append(e.edges, scope+"->"+action)
		next, ok := accepted[scope][action]
		if !ok {
			if a.Kind == "error" && errorStmtScopes[scope] {
				next = "E"
			} else if a.Kind == "restart" && restartStmtScopes[scope] {
				next = "R"
			} else {
				e.free, e.freeWhy = true, "rejected action "+action+" in "+scope
				return e
			}
		}
		if scope == "fetch" {
			// the object enters the cache at the end of vcl_fetch when it is fresh, cacheable and not passed
			ce := cm[key]
			if ce == nil {
				ce = &cacheEntry{}
				cm[key] = ce
			}
			switch {
			case passing:
				// pass: the cache is not touched
			case rq.TTL == "0":
				// not cacheable: nothing is stored (an existing entry stays)
			case action == "deliver":
				if !ce.stored {
					ce.stored, ce.hits, ce.unknown, ce.noHit = true, 0, false, false
				}
			case action == "pass" || action == "hit_for_pass":
				// hit-for-pass: the response is not to be served from cache
				if !ce.stored {
					ce.noHit = true
				}
			case action == "error" || a.Kind == "error":
				// the response is discarded: nothing is stored
			default:
				ce.unknown = true
			}
		}
		switch next {
		case "END":
			return e
		case "?":
			e.free, e.freeWhy = true, "deliver_stale from miss without a stale object"
			return e
		case "E":
			scope = "error"
		case "R":
			if e.restarts+1 > 3 {
				e.errorEnd = true
				return e
			}
			e.restarts++
			scope, passing = "recv", false
			e.hitFinal = -1
		case "hash!":
			passing = true
			scope = "hash"
		case "lookup":
			if passing {
				scope = "pass"
				e.hitFinal = 0
				break
			}
			ce := cm[key]
			switch {
			case ce != nil && ce.unknown:
				e.ambiguous = true
				e.free, e.freeWhy = true, "cache state undocumented after a non-default vcl_fetch action"
				return e
			case ce != nil && ce.stored:
				ce.hits++
				e.hits = ce.hits
				e.hitFinal, e.hitAny = 1, true
				scope = "hit"
			default:
				e.hitFinal = 0
				scope = "miss"
				if ce != nil && ce.noHit {
					e.hfpAt = len(e.flow)
				}
			}
		case "pass":
			passing = true
			scope = "pass"
		default:
			scope = next
		}
	}
	e.free, e.freeWhy = true, "reference did not terminate"
	return e
}

// ---- execution -------------------------------------------------------------------------------

type nopDebugger struct{ steps int }

func (d *nopDebugger) Run(ast.Node) interpreter.DebugState {
	d.steps++
	if d.steps > 200000 {
		panic("ErrStepBudgetExceeded")
	}
	return interpreter.DebugStepIn
}
func (d *nopDebugger) Message(string)                {}
func (d *nopDebugger) Log(*ast.LogStatement, string) {}

type reply struct {
	Flows []struct {
		Subroutine string `json:"subroutine"`
	} `json:"flows"`
	Logs []struct {
		Message string `json:"message"`
	} `json:"logs"`
	Restarts       int    `json:"restarts"`
	Cached         bool   `json:"cached"`
	Error          string `json:"error"`
	ClientResponse struct {
		StatusCode int               `json:"status_code"`
		Headers    map[string]string `json:"headers"`
	} `json:"client_response"`
}

func runCase(oc *fw.Outcome, c scase) {
	src := render(c.Prog, c.Rate)
	b, _ := json.Marshal(c)
	fw.Journal(b)
	it := interpreter.New(context.WithResolver(resolver.NewStaticResolver("main.vcl", src)))
	cm := cacheModel{}
	progKey, _ := json.Marshal(c.Prog)
	recvEntries := 0
	for ri, rq := range c.Reqs {
		oc.Evals++
		dbg := &nopDebugger{}
		it.Debugger = dbg
		rec := httptest.NewRecorder()
		host := rq.Host
		if host == "" {
			host = "example.com"
		}
		req := httptest.NewRequest("GET", "http://"+host+rq.URL, nil)
		req.Header.Set("X-Origin-TTL", rq.TTL)
		if rq.Hdr != "" {
			req.Header.Set("X-Variant", rq.Hdr)
		}
		exp := simulate(c.Prog, rq, cm)
		detail := func() map[string]any {
			return map[string]any{"vcl": src, "requests": c.Reqs, "request_index": ri, "expected_flow": strings.Join(exp.flow, ">"), "expected_restarts": exp.restarts,
				"expected_error_end": exp.errorEnd, "body": clip(rec.Body.String(), 1500)}
		}
		p, msg, st := fw.Guard(func() { it.ServeHTTP(rec, req) })
		edge := "default"
		if len(exp.edges) > 0 {
			edge = exp.edges[len(exp.edges)-1]
		}
		for _, s := range scopes {
			if a, ok := c.Prog.Acts[s]; ok && a.Kind != "" {
				edge = s + "->" + a.Kind + a.Arg
			}
		}
		if p {
			if msg == "ErrStepBudgetExceeded" {
				oc.Violate("steps:"+edge, "request executed more than 200000 statements", detail())
			} else {
				oc.Violate(fw.PanicKey(st)+"<"+callerFrame(st), "ServeHTTP panicked: "+msg+"\n"+fw.TrimStack(st), detail())
			}
			return // the interpreter's mutex is still held; abandon this instance
		}
		var rp reply
		if err := json.Unmarshal(rec.Body.Bytes(), &rp); err != nil {
			oc.Violate("reply:not-json/"+edge, fmt.Sprintf("ServeHTTP answered %d with a body that is not the process JSON: %s", rec.Code, clip(rec.Body.String(), 200)), detail())
			return
		}
		var flow []string
		for _, f := range rp.Flows {
			if strings.HasPrefix(f.Subroutine, "vcl_") {
				flow = append(flow, strings.TrimPrefix(f.Subroutine, "vcl_"))
			}
		}
		got := strings.Join(flow, ">")
		for _, ed := range exp.edges {
			oc.Tag("edge:" + ed)
		}
		oc.Tag("path:" + strings.Join(exp.flow, ">"))
		// the log lines are a second, independent trace of the path
		var logFlow []string
		for _, l := range rp.Logs {
			if strings.HasPrefix(l.Message, "S:") {
				parts := strings.Split(l.Message, ":")
				if len(parts) >= 2 {
					logFlow = append(logFlow, parts[1])
				}
			}
		}
		if lf := strings.Join(logFlow, ">"); lf != got {
			oc.Violate("trace:flows-vs-logs", fmt.Sprintf("flows say %s but the log statements executed say %s", got, lf), detail())
		}
		if rp.Restarts > 3 {
			oc.Violate("restart-bound:"+edge, fmt.Sprintf("restarts = %d > 3", rp.Restarts), detail())
		}
		nrecv := 0
		for _, f := range flow {
			if f == "recv" {
				nrecv++
			}
		}
		if nrecv > 4 {
			oc.Violate("restart-bound:"+edge, fmt.Sprintf("vcl_recv entered %d times in one request", nrecv), detail())
		}
		nontrivial := ri > 0 || strings.Join(exp.flow, ">") != "recv>hash>miss>fetch>deliver>log"
		if nontrivial {
			oc.NonTrivialS(string(progKey) + "|" + fmt.Sprint(c.Reqs[:ri+1]))
		}
		if exp.free {
			oc.Tag("free:" + exp.freeWhy)
			// rejected / undocumented: a reported error or any machine path; the prefix up to the deviation must still match
			want := strings.Join(exp.flow, ">")
			if !strings.HasPrefix(got, want) {
				oc.Violate("edge:"+edge+"/prefix", fmt.Sprintf("flow %s does not start with the reference prefix %s", got, want), detail())
			}
			if rp.Error == "" && (len(flow) == 0 || flow[len(flow)-1] != "log") {
				oc.Violate("log-count:"+edge, "the request ended without a reported error and without vcl_log: "+got, detail())
			}
			// the cache model is no longer in step with the simulator for this instance
			return
		}
		want := strings.Join(exp.flow, ">")
		if got != want && exp.hfpAt > 0 && exp.hfpAt < len(exp.flow) && exp.hfpAt < len(flow) && flow[exp.hfpAt] == "pass" {
			// a hit-for-pass object sends the lookup to vcl_pass: accepted as well as a miss
			alt := append([]string{}, exp.flow...)
			alt[exp.hfpAt] = "pass"
			want = strings.Join(alt, ">")
		}
		if got != want {
			oc.Violate("edge:"+firstDivergence(exp, flow), fmt.Sprintf("flow is %s, the reference machine gives %s", got, want), detail())
			return
		}
		if rp.Restarts != exp.restarts {
			oc.Violate("restarts:"+edge, fmt.Sprintf("restarts reported %d, reference %d", rp.Restarts, exp.restarts), detail())
		}
		if exp.errorEnd {
			if rp.Error == "" {
				oc.Violate("restart-bound:no-error/"+edge, "a fourth restart must end the request with a reported error", detail())
				return
			}
			// the request was answered with a reported error; the instance goes on serving: state made before the
			// error (cache, rate counters, penalty boxes) must persist for the next request of this history
			recvEntries += count(exp.flow, "recv")
			continue
		}
		if rp.Error != "" {
			oc.Violate("error:"+edge, "request along a documented path ended in a reported error: "+clip(rp.Error, 200), detail())
			return
		}
		if rec.Code != 200 {
			oc.Violate("status:"+edge, fmt.Sprintf("HTTP status %d for a request without error", rec.Code), detail())
		}
		nlog := 0
		for _, f := range flow {
			if f == "log" {
				nlog++
			}
		}
		if nlog != 1 || flow[len(flow)-1] != "log" {
			oc.Violate("log-count:"+edge, fmt.Sprintf("vcl_log ran %d times (last subroutine %s)", nlog, flow[len(flow)-1]), detail())
		}
		// cache reporting
		xc := rp.ClientResponse.Headers["x-cache"]
		class := cacheClass(ri, exp)
		switch exp.hitFinal {
		case 1:
			if xc != "HIT" {
				oc.Violate("cache:"+class+"/x-cache", fmt.Sprintf("hit branch taken but X-Cache is %q", xc), detail())
			}
			if !rp.Cached {
				oc.Violate("cache:"+class+"/cached", "hit branch taken but `cached` is false", detail())
			}
			if h := rp.ClientResponse.Headers["x-cache-hits"]; h != fmt.Sprint(exp.hits) {
				oc.Violate("cache:"+class+"/x-cache-hits", fmt.Sprintf("X-Cache-Hits is %q, reference %d", h, exp.hits), detail())
			}
			oc.Tag("branch:hit")
		case 0:
			if xc != "MISS" {
				oc.Violate("cache:"+class+"/x-cache", fmt.Sprintf("miss/pass branch taken but X-Cache is %q", xc), detail())
			}
			if rp.Cached {
				oc.Violate("cache:"+class+"/cached", "the branch taken (after the last restart) is not the hit branch but `cached` is true", detail())
			}
			if h := rp.ClientResponse.Headers["x-cache-hits"]; h != "0" && h != "" {
				oc.Violate("cache:"+class+"/x-cache-hits", fmt.Sprintf("the response was fetched (X-Cache says MISS) but X-Cache-Hits is %q: the hit count of an object looked up before the restart", h), detail())
			}
			oc.Tag("branch:miss-or-pass")
		case -1:
			// no lookup in the pass that produced the response (recv -> error, possibly after a restart out of
			// a hit): neither report may claim the hit branch
			if !exp.ambiguous {
				if xc == "HIT" {
					oc.Violate("cache:"+class+"/x-cache-stale", fmt.Sprintf("no lookup in the final pass (flow %s) but X-Cache is %q", strings.Join(flow, ">"), xc), detail())
				}
				if rp.Cached {
					oc.Violate("cache:"+class+"/cached-stale", "no lookup in the final pass but `cached` is true", detail())
				}
				oc.Tag("branch:no-lookup-in-final-pass")
			}
		}
		recvEntries += count(exp.flow, "recv")
		if c.Rate {
			checkRate(oc, rp, ri, recvEntries, detail)
		}
	}
}

func count(flow []string, s string) int {
	n := 0
	for _, f := range flow {
		if f == s {
			n++
		}
	}
	return n
}

// checkRate: recvEntries is the number of times vcl_recv was entered on this instance so far (every entry
// increments the counter and adds the penalty box entry), including the requests that ended in an error.
func checkRate(oc *fw.Outcome, rp reply, ri int, recvEntries int, detail func() map[string]any) {
	var has, bucket string
	for _, l := range rp.Logs {
		if strings.HasPrefix(l.Message, "HAS:") {
			has = strings.TrimPrefix(l.Message, "HAS:")
		}
		if strings.HasPrefix(l.Message, "BUCKET:") {
			bucket = strings.TrimPrefix(l.Message, "BUCKET:")
		}
	}
	wantHas := "0"
	if recvEntries > 1 {
		wantHas = "1"
	}
	if has != wantHas {
		oc.Violate("state:penaltybox", fmt.Sprintf("request %d: penaltybox_has = %q, expected %q (entry added by the previous request)", ri, has, wantHas), detail())
	}
	if bucket != fmt.Sprint(recvEntries) {
		oc.Violate("state:ratecounter", fmt.Sprintf("request %d: bucket.60s = %q, expected %d (one increment per entry of vcl_recv so far)", ri, bucket, recvEntries), detail())
	}
	oc.Tag("rate-request")
}

func cacheClass(ri int, e expect) string {
	switch {
	case ri == 0 && e.restarts == 0:
		return "first"
	case e.restarts > 0:
		return "after-restart"
	case e.hitFinal == 1:
		return "warm"
	}
	return "later"
}

func firstDivergence(e expect, flow []string) string {
	for i := range e.flow {
		if i >= len(flow) || flow[i] != e.flow[i] {
			if i > 0 && i-1 < len(e.edges) {
				return e.edges[i-1]
			}
			return "entry"
		}
	}
	if len(e.edges) > 0 {
		return e.edges[len(e.edges)-1] + "/extra"
	}
	return "extra"
}

// callerFrame names the falco function below the innermost one on a panic stack.
func callerFrame(st string) string {
	n := 0
	for _, line := range strings.Split(st, "\n") {
		line = strings.TrimSpace(line)
		if !strings.HasPrefix(line, "github.com/ysugimoto/falco/v2/") {
			continue
		}
		n++
		if n == 2 {
			if i := strings.LastIndex(line, "("); i > 0 {
				line = line[:i]
			}
			return line[strings.LastIndex(line, ".")+1:]
		}
	}
	return "?"
}

func clip(s string, n int) string {
	if len(s) > n {
		return s[:n] + "…"
	}
	return s
}

func crashKey(c fw.Case, kind, stderr string) string {
	if strings.Contains(stderr, "stack overflow") || strings.Contains(stderr, "stack exceeds") {
		return "fatal:stack-overflow/" + fw.TopFalcoFrame(stderr[strings.Index(stderr, "goroutine"):])
	}
	return ""
}

func run(c fw.Case) fw.Outcome {
	var oc fw.Outcome
	var b batch
	json.Unmarshal(c.Data, &b)
	for _, sc := range b.Cases {
		runCase(&oc, sc)
	}
	if len(b.Cases) > 0 {
		sc := b.Cases[len(b.Cases)/2]
		oc.Sample = map[string]any{"program": render(sc.Prog, sc.Rate), "requests": sc.Reqs}
	}
	_ = sort.Strings
	return oc
}
