package main

import (
	"fmt"
	"math/rand"
	"strings"

	"verif/harness/fw"
	"verif/harness/lintutil"
)

// Call-graph programs: user subroutines calling each other (cycles, callers outside a cycle,
// unused ones, subroutines called from several scopes, functional subroutines, scope-restricted
// statements, goto labels, unused and used tables/ACLs/backends). They are built as text blocks, one per
// declaration, so that subroutine declarations can be permuted textually and every diagnostic
// can be mapped to (declaration name, line inside the declaration, column).

type cgBlock struct {
	Name  string
	Text  string
	IsSub bool
}

// names are letters only: the diagnostics' digits are masked before comparison
var cgUser = []string{"alpha", "bravo", "charlie", "delta", "echo", "foxtrot", "golf"}
var cgFunc = []string{"fnone", "fntwo", "fnthree"}
var cgFastly = []struct{ name, macro string }{
	{"vcl_recv", "RECV"}, {"vcl_hash", "HASH"}, {"vcl_hit", "HIT"}, {"vcl_miss", "MISS"}, {"vcl_pass", "PASS"},
	{"vcl_fetch", "FETCH"}, {"vcl_error", "ERROR"}, {"vcl_deliver", "DELIVER"}, {"vcl_log", "LOG"},
}
var cgScoped = []string{
	"restart;", "set beresp.ttl = 10s;", "set obj.status = 200;", "esi;", "synthetic \"x\";", "error 600;",
	"set bereq.http.B = \"1\";", "set resp.http.R = \"1\";", "set req.http.Q = req.url;", "unset req.http.Cookie;",
	"set req.http.T = now;", "log \"l\";", "set req.hash += \"h\";", "return;",
}

func cgProgram(r *rand.Rand) []cgBlock {
	var blocks []cgBlock
	nUser := 2 + r.Intn(len(cgUser)-1)
	users := cgUser[:nUser]
	nFunc := r.Intn(len(cgFunc) + 1)
	funcs := cgFunc[:nFunc]
	// declarations that are not subroutines
	decls := []cgBlock{
		{Name: "table:tabx", Text: "table tabx {\n  \"k\": \"v\",\n}\n"},
		{Name: "table:taby", Text: "table taby {\n  \"k\": \"v\",\n}\n"},
		{Name: "acl:aclx", Text: "acl aclx {\n  \"192.0.2.0\"/24;\n}\n"},
		{Name: "acl:acly", Text: "acl acly {\n  \"198.51.100.1\";\n}\n"},
		{Name: "backend:bex", Text: "backend bex {\n  .host = \"example.com\";\n}\n"},
		{Name: "backend:bey", Text: "backend bey {\n  .host = \"example.org\";\n}\n"},
	}
	r.Shuffle(len(decls), func(i, j int) { decls[i], decls[j] = decls[j], decls[i] })
	blocks = append(blocks, decls[:r.Intn(len(decls)+1)]...)

	// the user subroutine that is declared twice (if any) is chosen first: it is not used in function
	// position (which of a plain and a functional definition "is" the function depends on the order by nature)
	dupUser := ""
	if r.Intn(5) == 0 {
		dupUser = users[r.Intn(len(users))]
	}
	stmt := func(indent string, allowGoto bool) string {
		switch k := r.Intn(21); {
		case k >= 17 && len(funcs) > 0:
			// a functional subroutine looked up through the function table: switch control, function-call
			// statement, argument of a built-in, operand of an if-expression
			f := funcs[r.Intn(len(funcs))]
			switch k {
			case 17:
				return indent + "switch (" + f + "()) {\n" + indent + "case \"a\":\n" + indent + "  set req.http.W = \"1\";\n" + indent + "  break;\n" + indent + "default:\n" + indent + "  break;\n" + indent + "}\n"
			case 18:
				return indent + f + "();\n"
			case 19:
				return indent + "set req.http.U = std.toupper(" + f + "());\n"
			}
			return indent + "set req.http.I = if(req.http.C, " + f + "(), \"n\");\n"
		case k >= 17:
			return indent + "set req.http.S = \"s\";\n"
		case k == 14:
			// regex captures: the counters of the capture variables belong to the subroutine being linted
			if r.Intn(2) == 0 {
				return indent + "if (req.url ~ \"^/(foo)/(bar)\") {\n" + indent + "  set req.http.G = re.group." + []string{"1", "2"}[r.Intn(2)] + ";\n" + indent + "}\n"
			}
			return indent + "set req.http.G = re.group." + []string{"1", "2", "3"}[r.Intn(3)] + ";\n"
		case k == 15:
			// a plain (non functional) user subroutine used like a function
			if u := users[r.Intn(len(users))]; u != dupUser {
				return indent + "set req.http.P = " + u + "();\n"
			}
			return indent + "set req.http.S = \"s\";\n"
		case k == 16 && len(funcs) > 0:
			// a functional subroutine called with a call statement
			return indent + "call " + funcs[r.Intn(len(funcs))] + ";\n"
		case k < 5:
			t := users[r.Intn(len(users))]
			if r.Intn(12) == 0 {
				t = "nosuchsub"
			}
			return indent + "call " + t + ";\n"
		case k < 7 && len(funcs) > 0:
			return indent + "set req.http.F = " + funcs[r.Intn(len(funcs))] + "();\n"
		case k < 9:
			return indent + cgScoped[r.Intn(len(cgScoped))] + "\n"
		case k == 9:
			return indent + "set req.http.K = table.lookup(" + []string{"tabx", "taby", "nosuchtab"}[r.Intn(3)] + ", \"k\");\n"
		case k == 10:
			return indent + "if (client.ip ~ " + []string{"aclx", "acly"}[r.Intn(2)] + ") {\n" + indent + "  set req.http.A = \"1\";\n" + indent + "}\n"
		case k == 11:
			return indent + "set req.backend = " + []string{"bex", "bey"}[r.Intn(2)] + ";\n"
		case k == 12:
			return indent + "declare local var." + []string{"va", "vb"}[r.Intn(2)] + " STRING;\n"
		default:
			return indent + "set req.http.S = \"s\";\n"
		}
	}
	body := func(n int) string {
		var sb strings.Builder
		for i := 0; i < n; i++ {
			if r.Intn(5) == 0 {
				sb.WriteString("  if (req.http.C) {\n")
				sb.WriteString(stmt("    ", false))
				if r.Intn(2) == 0 {
					sb.WriteString("  } else {\n")
					sb.WriteString(stmt("    ", false))
				}
				sb.WriteString("  }\n")
				continue
			}
			sb.WriteString(stmt("  ", true))
		}
		return sb.String()
	}
	var subs []cgBlock
	heads := map[string]string{}
	for _, u := range users {
		head := ""
		if r.Intn(6) == 0 {
			sc := []string{"recv", "deliver", "fetch", "recv,deliver", "miss,pass", "hit,error,log"}[r.Intn(6)]
			head = "//@scope: " + sc + "\n"
		}
		heads[u] = head
		subs = append(subs, cgBlock{Name: "sub:" + u, IsSub: true, Text: head + "sub " + u + " {\n" + body(r.Intn(4)) + "}\n"})
	}
	for _, f := range funcs {
		ret := "return \"x\";"
		if r.Intn(4) == 0 {
			ret = "return re.group." + []string{"1", "2"}[r.Intn(2)] + ";"
		}
		if r.Intn(3) == 0 && len(funcs) > 1 {
			ret = "return " + funcs[r.Intn(len(funcs))] + "();"
		}
		subs = append(subs, cgBlock{Name: "sub:" + f, IsSub: true, Text: "sub " + f + " STRING {\n" + body(r.Intn(2)) + "  " + ret + "\n}\n"})
	}
	// duplicate definitions: a user subroutine declared twice, as a plain subroutine again or as a
	// functional one of the same name (nobody needs to call it)
	if dupUser != "" {
		u := dupUser
		// the second definition has a neutral body: which of two DIFFERENT bodies is "the" definition
		// depends on the order by nature, the diagnostics about the duplicate itself must not
		if r.Intn(2) == 0 {
			subs = append(subs, cgBlock{Name: "sub:" + u, IsSub: true, Text: heads[u] + "sub " + u + " STRING {\n  return \"dup\";\n}\n"})
		} else {
			subs = append(subs, cgBlock{Name: "sub:" + u, IsSub: true, Text: heads[u] + "sub " + u + " {\n  set req.http.S = \"s\";\n}\n"})
		}
	}
	nf := 1 + r.Intn(4)
	perm := r.Perm(len(cgFastly))
	for _, pi := range perm[:nf] {
		f := cgFastly[pi]
		tail := ""
		switch f.name {
		case "vcl_recv":
			tail = "  return(lookup);\n"
		case "vcl_deliver", "vcl_log":
			tail = "  return(deliver);\n"
		}
		subs = append(subs, cgBlock{Name: "sub:" + f.name, IsSub: true, Text: "sub " + f.name + " {\n#FASTLY " + f.macro + "\n" + body(1+r.Intn(3)) + tail + "}\n"})
		// a Fastly subroutine may be declared twice (the bodies are concatenated): the second
		// declaration calls helpers of its own
		if r.Intn(5) == 0 {
			subs = append(subs, cgBlock{Name: "sub:" + f.name, IsSub: true, Text: "sub " + f.name + " {\n" + body(1+r.Intn(3)) + tail + "}\n"})
		}
	}
	r.Shuffle(len(subs), func(i, j int) { subs[i], subs[j] = subs[j], subs[i] })
	// interleave
	for _, s := range subs {
		at := r.Intn(len(blocks) + 1)
		blocks = append(blocks[:at], append([]cgBlock{s}, blocks[at:]...)...)
	}
	return blocks
}

func cgRender(blocks []cgBlock) (string, []int) {
	var sb strings.Builder
	starts := make([]int, len(blocks))
	line := 1
	for i, b := range blocks {
		starts[i] = line
		sb.WriteString(b.Text)
		line += strings.Count(b.Text, "\n")
	}
	return sb.String(), starts
}

func cgMapped(blocks []cgBlock, ds []lintutil.Diag) []string {
	_, starts := cgRender(blocks)
	var out []string
	for _, d := range ds {
		bi := -1
		for i, s := range starts {
			if d.Line >= s {
				bi = i
			}
		}
		where := "?"
		if bi >= 0 {
			where = fmt.Sprintf("%s+%d:%d", blocks[bi].Name, d.Line-starts[bi], d.Pos)
			// a name that is declared more than once: which of the declarations carries a diagnostic
			// about the name is a matter of location, which the property exempts
			n := 0
			for _, b := range blocks {
				if b.Name == blocks[bi].Name {
					n++
				}
			}
			if n > 1 {
				where = blocks[bi].Name + "(declared more than once)"
			}
		}
		out = append(out, where+"|"+d.NoPos())
	}
	return out
}

func runCallGraph(oc *fw.Outcome, r *rand.Rand, reps, perms int) {
	blocks := cgProgram(r)
	src, _ := cgRender(blocks)
	ds := repeatMonitor(oc, src, nil, reps, "callgraph", map[string]any{"source": clip(src, 4000)})
	if ds == nil && len(oc.Viols) > 0 {
		return
	}
	if oc.Sample == nil {
		oc.Sample = map[string]any{"source": clip(src, 1500), "diagnostics": len(ds)}
	}
	base := cgMapped(blocks, ds)
	var subIdx []int
	for i, b := range blocks {
		if b.IsSub {
			subIdx = append(subIdx, i)
		}
	}
	for k := 0; k < perms; k++ {
		order := append([]cgBlock{}, blocks...)
		sh := append([]int{}, subIdx...)
		r.Shuffle(len(sh), func(i, j int) { sh[i], sh[j] = sh[j], sh[i] })
		if k == 0 {
			// one permutation is always the reversal: callers before/after callees swap sides
			for i := range sh {
				sh[i] = subIdx[len(subIdx)-1-i]
			}
		}
		for i, at := range subIdx {
			order[at] = blocks[sh[i]]
		}
		src1, _ := cgRender(order)
		fw.JournalS(src1)
		oc.Evals++
		res, ok := lintGuarded(oc, src1, nil, "callgraph", map[string]any{"source": clip(src1, 4000)})
		if !ok {
			return
		}
		if res.ParseErr != nil {
			oc.Tag("perm:permuted-does-not-parse")
			continue
		}
		cur := cgMapped(order, res.Diags)
		if lintutil.Multiset(cur) != lintutil.Multiset(base) {
			d := lintutil.DiffMultiset(base, cur)
			dir := "disappears"
			if d == "" {
				d = lintutil.DiffMultiset(cur, base)
				dir = "appears"
			}
			parts := strings.SplitN(d, "|", 3)
			rule := "?"
			if len(parts) > 1 {
				rule = parts[1]
			}
			oc.Violate("perm:"+rule, fmt.Sprintf("permuting the subroutine declarations changes the diagnostics (apart from locations): %s %s", clip(d, 220), dir),
				map[string]any{"original": clip(src, 4000), "permuted": clip(src1, 4000), "original_diags": base, "permuted_diags": cur})
			return
		}
		oc.Tag("perm:checked")
	}
}
