// C11 — linting is total and deterministic.
package main

import (
	"encoding/json"
	"fmt"
	"math/rand"
	"sort"
	"strings"
	"time"

	"github.com/ysugimoto/falco/v2/ast"

	"github.com/ysugimoto/falco/v2/snippet"

	"verif/harness/fw"
	"verif/harness/gen"
	"verif/harness/lintutil"
	"verif/harness/render"
	"verif/harness/seeds"
)

type lcase struct {
	Seed   int64             `json:"seed,omitempty"`
	N      int               `json:"n,omitempty"`
	Reps   int               `json:"reps,omitempty"`
	Perms  int               `json:"perms,omitempty"`
	Main   string            `json:"main,omitempty"`
	Mods   map[string]string `json:"mods,omitempty"`
	Shape  string            `json:"shape,omitempty"`
	Source string            `json:"source,omitempty"`
	Name   string            `json:"name,omitempty"`
	// Fastly managed snippets in the linter context
	Scoped  []snipSpec        `json:"scoped,omitempty"`
	IncSnip map[string]string `json:"inc_snip,omitempty"`
}

type snipSpec struct {
	Scope, Name, Data string
	Priority          int64
}

// curSnips is the snippet set of the case in hand (one case at a time per worker)
var curSnips *snippet.Snippets

func main() {
	fw.Main(&fw.Prop{
		ID:    "C11",
		Level: "exploration",
		Rule: "programs: grammar-directed generator (well- and ill-typed by construction: it is type-blind), hand-written programs with recursion, duplicates, gotos, functional subroutines, `error;`, every example and corpus file; " +
			"call-graph programs (2-7 user subroutines calling each other at random incl. cycles, callers outside cycles, unused ones, calls from several Fastly subroutines, scope annotations, functional subroutines, scope-restricted statements, used/unused tables, ACLs, backends) built as one text block per declaration; " +
			"include graphs: ALL digraphs over up to three module files (missing, self, 2-cycle, 3-cycle, diamond, chain) with the include at top level, inside a subroutine, and inside nested if / else / switch-case blocks of the included module, each with three fillings, also behind a sibling block and three blocks deep; Fastly managed snippets in the linter context: scoped snippets whose order matters (declare / use / use) under four priority sets and all six insertion orders, and `snippet::name` includes that are plain, missing, self-including and mutually including at the top of a snippet and inside its blocks, from a subroutine, a block, a module and the root. " +
			"The call-graph programs also declare a Fastly subroutine twice (second declaration with callees of its own) and a user subroutine twice (plain or functional second definition with a neutral body and the same annotation; a name that is declared more than once is compared without its position), use regex capture variables (in conditions, plain statements and functional returns), call a plain subroutine in function position and a functional one with a call statement. " +
			"A file-resolver family lints a small service from the file system through resolver.NewFileResolvers 40 times for five include-path lists, with a module of one name next to the main file and in the include paths. " +
			"Monitors: panic guard / worker death / include-load budget (>10000 module loads for a <=4-file graph = non-terminating); repeat monitor (every program linted 8x (hand-written and snippet programs 24x) in fresh contexts in one process - Go randomises map iteration per range statement - " +
			"multisets of (rule, severity, file, line, position, message) must be equal); permutation monitor (random permutations of the top-level subroutine declarations; multisets with positions mapped to (subroutine name, statement ordinal) must be equal). " +
			"non-trivial = program with >=1 diagnostic; distinct by program text",
		Assumptions: []string{
			"diagnostics are compared as multisets: their order depends on map iteration and the property promises none",
			"termination is restated as bounded progress: include loads <= 10000 and the wall-clock watchdog of the framework",
		},
		Gen:           genCases,
		Run:           run,
		Timeout:       120 * time.Second,
		MinNonTrivial: 300,
		CrashKey:      crashKey,
	})
}

// ---- include graphs --------------------------------------------------------------------------

func includeGraphs() []lcase {
	var out []lcase
	mods := []string{"m1", "m2", "m3"}
	fill := []string{
		"sub f_%s {\n  set req.http.X-%s = \"1\";\n}\n",
		"acl a_%s {\n  \"192.0.2.1\";\n}\nsub g_%s {\n  if (client.ip ~ a_%s) { set req.http.Y = \"1\"; }\n}\n",
		"table t_%s {\n  \"k\": \"v\",\n}\n",
	}
	// each module includes a subset of {m1,m2,m3,missing}; root includes m1 (and sometimes m2)
	targets := []string{"m1", "m2", "m3", "nosuch"}
	for mask := 0; mask < 1<<12; mask++ {
		// 4 bits per module: which targets it includes
		edges := map[string][]string{}
		n := 0
		for mi, m := range mods {
			for ti, t := range targets {
				if mask&(1<<(mi*4+ti)) != 0 {
					edges[m] = append(edges[m], t)
					n++
				}
			}
		}
		if n > 4 {
			continue // keep the graphs small: at most 4 edges besides the root's
		}
		for _, place := range []string{"top", "sub", "nested-if", "nested-else", "nested-switch", "nested-after-sibling", "nested-deep"} {
			inSub := place != "top"
			if n == 0 && place != "top" && place != "sub" {
				continue
			}
			for fi, f := range fill {
				if inSub && fi > 0 {
					continue
				}
				lc := lcase{Mods: map[string]string{}, Shape: shapeOf(edges)}
				if strings.HasPrefix(place, "nested") {
					lc.Shape += "/" + place
				}
				inc := func(ts []string) string {
					var sb strings.Builder
					for _, t := range ts {
						fmt.Fprintf(&sb, "include \"%s\";\n", t)
					}
					return sb.String()
				}
				for _, m := range mods {
					switch {
					case place == "nested-if":
						// the include sits in a nested block of the module: expanded when that block is linted
						lc.Mods[m] = "set req.http.In-" + m + " = \"1\";\nif (req.http.A) {\n" + inc(edges[m]) + "}\n"
						continue
					case place == "nested-else":
						lc.Mods[m] = "if (req.http.A) {\n  set req.http.In-" + m + " = \"1\";\n} else if (req.http.B) {\n" + inc(edges[m]) + "} else {\n" + inc(edges[m]) + "}\n"
						continue
					case place == "nested-after-sibling":
						// the include follows a sibling block, inside a block and at the top of the module
						lc.Mods[m] = "if (req.http.A) {\n  if (req.http.B) {\n    set req.http.In-" + m + " = \"1\";\n  }\n" + inc(edges[m]) + "}\nif (req.http.C) {\n  set req.http.C = \"2\";\n}\n" + inc(edges[m])
						continue
					case place == "nested-deep":
						lc.Mods[m] = "if (req.http.A) {\n  if (req.http.B) {\n    if (req.http.C) {\n" + inc(edges[m]) + "    } else {\n      set req.http.In-" + m + " = \"1\";\n    }\n" + inc(edges[m]) + "  }\n}\n"
						continue
					case place == "nested-switch":
						lc.Mods[m] = "switch (req.http.A) {\ncase \"a\":\n" + inc(edges[m]) + "  break;\ndefault:\n  { " + strings.ReplaceAll(inc(edges[m]), "\n", " ") + "}\n  break;\n}\n"
						continue
					}
					if inSub {
						lc.Mods[m] = "set req.http.In-" + m + " = \"1\";\n" + inc(edges[m])
					} else {
						lc.Mods[m] = inc(edges[m]) + strings.ReplaceAll(f, "%s", m)
					}
				}
				if inSub {
					lc.Main = "sub vcl_recv {\n#FASTLY RECV\n  include \"m1\";\n  return(lookup);\n}\n"
				} else {
					lc.Main = "include \"m1\";\nsub vcl_recv {\n#FASTLY RECV\n  return(lookup);\n}\n"
				}
				out = append(out, lc)
			}
		}
	}
	return out
}

func shapeOf(edges map[string][]string) string {
	has := func(a, b string) bool {
		for _, t := range edges[a] {
			if t == b {
				return true
			}
		}
		return false
	}
	var tags []string
	for _, m := range []string{"m1", "m2", "m3"} {
		if has(m, m) {
			tags = append(tags, "self")
			break
		}
	}
	if has("m1", "m2") && has("m2", "m1") || has("m1", "m3") && has("m3", "m1") || has("m2", "m3") && has("m3", "m2") {
		tags = append(tags, "2-cycle")
	}
	if has("m1", "m2") && has("m2", "m3") && has("m3", "m1") || has("m1", "m3") && has("m3", "m2") && has("m2", "m1") {
		tags = append(tags, "3-cycle")
	}
	for _, m := range []string{"m1", "m2", "m3"} {
		if has(m, "nosuch") {
			tags = append(tags, "missing")
			break
		}
	}
	if has("m1", "m2") && has("m1", "m3") && has("m2", "m3") {
		tags = append(tags, "diamond")
	}
	if len(tags) == 0 {
		return "acyclic"
	}
	return strings.Join(tags, "+")
}

var handPrograms = []string{
	"sub vcl_recv {\n#FASTLY RECV\n  error;\n}\n",
	"sub a { call b; }\nsub b { call a; }\nsub vcl_recv {\n#FASTLY RECV\n  call a;\n}\n",
	"sub a { call a; }\nsub vcl_recv {\n#FASTLY RECV\n  call a;\n}\n",
	"sub f STRING { return f(); }\nsub vcl_recv {\n#FASTLY RECV\n  set req.http.X = f();\n}\n",
	"sub dup { }\nsub dup { }\nacl a { }\nacl a { }\ntable t { }\ntable t { }\nbackend b { .host = \"x\"; }\nbackend b { .host = \"y\"; }\n",
	"sub vcl_recv {\n#FASTLY RECV\n  goto x;\n  x:\n  goto y;\n  set req.http.A = \"1\";\n  y:\n  goto x;\n}\n",
	"sub vcl_recv {\n#FASTLY RECV\n  declare local var.a STRING;\n  declare local var.a INTEGER;\n  declare local var.unused BOOL;\n  set var.b = 1;\n}\n",
	"sub unused1 { }\nsub unused2 { }\nsub unused3 { }\nacl u1 { }\nacl u2 { }\ntable ut1 { }\ntable ut2 { }\nbackend ub1 { .host = \"a\"; }\nbackend ub2 { .host = \"b\"; }\npenaltybox p1 { }\npenaltybox p2 { }\nratecounter r1 { }\nratecounter r2 { }\n",
	"sub helper { set req.http.H = \"1\"; restart; }\nsub vcl_recv {\n#FASTLY RECV\n  call helper;\n}\nsub vcl_deliver {\n#FASTLY DELIVER\n  call helper;\n}\nsub vcl_log {\n#FASTLY LOG\n  call helper;\n}\n",
	"sub vcl_recv {\n#FASTLY RECV\n  switch (req.http.A) {\n  case \"a\":\n    break;\n  case \"a\":\n    break;\n  }\n}\n",
	"sub vcl_recv {\n#FASTLY RECV\n  return;\n}\nsub vcl_hash {\n  return(hash);\n}\nsub vcl_pipe { }\n",
	"director d random { }\ndirector e random { { .backend = nosuch; .weight = 1; } }\nsub vcl_recv {\n#FASTLY RECV\n  set req.backend = d;\n}\n",
	"sub vcl_recv {\n#FASTLY RECV\n  if (req.http.A ~ \"(a)(b)\") { set req.http.B = re.group.3; }\n  if (req.http.C ~ \"x\") { if (req.http.D ~ \"y\") { set req.http.E = re.group.0; } }\n}\n",
	"import foo;\ninclude \"nosuch\";\nsub vcl_recv {\n#FASTLY RECV\n  include \"nosuch2\";\n}\n",
	"sub f(STRING var.a, INTEGER var.a) BOOL { return true; }\nsub g() { }\nsub vcl_recv {\n#FASTLY RECV\n  call f(\"x\");\n  call g(1);\n  call f;\n}\n",
	// a plain and a functional subroutine of one name, in both orders; nobody calls them
	"// @scope: recv\nsub normalize { set req.http.Host = std.tolower(req.http.Host); }\n// @scope: recv\nsub normalize STRING { return std.tolower(req.http.Host); }\nsub vcl_recv {\n#FASTLY RECV\n  return(lookup);\n}\n",
	"// @scope: recv\nsub normalize STRING { return std.tolower(req.http.Host); }\nsub vcl_recv {\n#FASTLY RECV\n  return(lookup);\n}\n// @scope: recv\nsub normalize { set req.http.Host = std.tolower(req.http.Host); }\nsub other_user { call normalize; }\n",
	// a director declared BEFORE its member backends, some used only through it
	"director origins random {\n  { .backend = origin_a; .weight = 1; }\n  { .backend = origin_b; .weight = 1; }\n  { .backend = origin_c; .weight = 1; }\n}\nbackend origin_a { .host = \"a.example.com\"; }\nbackend origin_b { .host = \"b.example.com\"; }\nbackend origin_c { .host = \"c.example.com\"; }\nbackend lonely { .host = \"d.example.com\"; }\nsub vcl_recv {\n#FASTLY RECV\n  set req.backend = origins;\n  return(lookup);\n}\n",
	"director unused_d random {\n  { .backend = origin_a; .weight = 1; }\n  { .backend = origin_b; .weight = 1; }\n}\nbackend origin_a { .host = \"a.example.com\"; }\nbackend origin_b { .host = \"b.example.com\"; }\ndirector second client {\n  { .backend = origin_b; .weight = 1; }\n}\nsub vcl_recv {\n#FASTLY RECV\n  set req.backend = second;\n  return(lookup);\n}\n",
	// a functional subroutine looked up through the function table (switch control, function-call statement, argument of a
	// built-in, if-expression) from subroutines declared before and after it
	"sub vcl_recv {\n#FASTLY RECV\n  switch (kind_recv()) {\n  case \"a\":\n    set req.http.A = \"1\";\n    break;\n  default:\n    break;\n  }\n  return(lookup);\n}\nsub kind_recv STRING {\n  return req.http.Kind;\n}\nsub vcl_deliver {\n#FASTLY DELIVER\n  set resp.http.B = std.toupper(kind_recv());\n  return(deliver);\n}\n",
	"sub vcl_recv {\n#FASTLY RECV\n  flag_recv();\n  set req.http.C = if(flag_recv(), \"y\", \"n\");\n  return(lookup);\n}\nsub flag_recv BOOL {\n  return req.http.Flag == \"1\";\n}\nsub vcl_miss {\n#FASTLY MISS\n  if (flag_recv()) { set bereq.http.D = \"1\"; }\n  return(fetch);\n}\nsub num_recv INTEGER {\n  return 3;\n}\nsub vcl_pass {\n#FASTLY PASS\n  set bereq.http.E = std.itoa(num_recv());\n  num_recv();\n}\n",
	// two declarations of one Fastly subroutine that call different helpers
	"sub vcl_recv {\n#FASTLY RECV\n  call a;\n  return(lookup);\n}\nsub vcl_recv {\n#FASTLY RECV\n  call b;\n  return(lookup);\n}\nsub a { set req.http.A = \"1\"; }\nsub b { set req.http.B = \"1\"; }\n",
}

// odd shapes of the dotted variable families that are resolved by name components (ratecounter.NAME.bucket.10s,
// backend.NAME.healthy, director.NAME.healthy, req.http.NAME:key, re.group.N, var.NAME)
func shapePrograms() []string {
	names := []string{
		"ratecounter.rc.foo.10s", "ratecounter.rc.bucket.99s", "ratecounter.rc.bucket", "ratecounter.rc", "ratecounter.nosuch.bucket.10s", "ratecounter.rc.rate.1s.extra",
		"ratecounter.rc.rate.foo", "ratecounter..bucket.10s", "ratecounter.rc.bucket.", "ratecounter.rc..10s", "ratecounter.pb.bucket.10s",
		"backend.be.healthy", "backend.be.nosuch", "backend.nosuch.healthy", "backend.be", "backend.be.connections_open.extra", "backend..healthy",
		"director.dr.healthy", "director.dr.nosuch", "director.nosuch.healthy", "director.dr", "director.be.healthy",
		"req.http", "req.http.A:", "req.http.A:b:c", "req.http.:k", "re.group.x", "re.group", "re.group.99999999999999999999", "re.group.-1",
		"var", "var.nosuch.deep", "client.geo.nosuch", "client.geo", "tls.client.nosuch", "table.tb", "acl.ac", "penaltybox.pb", "obj.http", "beresp.http.X:y",
		"fastly.ff.visits_this_service.extra", "req", "now.sec.extra", "math.PI.x", "goto", "rc", "be", "dr",
	}
	decls := "ratecounter rc { }\npenaltybox pb { }\nbackend be { .host = \"a.example.com\"; }\ndirector dr random { { .backend = be; .weight = 1; } }\ntable tb { \"a\": \"b\" }\nacl ac { \"192.0.2.1\"; }\n"
	var out []string
	for _, n := range names {
		body := fmt.Sprintf("  set req.http.X = %s;\n  if (%s) { log \"t\"; }\n  log %s;\n  set %s = \"v\";\n  unset %s;\n  declare local var.i INTEGER;\n  set var.i = %s;\n  if (%s > 1) { log \"g\"; }\n  set req.http.Y = std.itoa(%s);\n", n, n, n, n, n, n, n, n)
		out = append(out, decls+"sub vcl_recv {\n#FASTLY RECV\n"+body+"  return(lookup);\n}\nsub vcl_deliver {\n#FASTLY DELIVER\n"+body+"}\n")
	}
	return out
}

func genCases(g *fw.GenCtx) {
	for i, h := range shapePrograms() {
		g.Emit("hand", lcase{Source: h, Name: fmt.Sprintf("shape-%d", i), Reps: 4})
	}
	for _, s := range seeds.Load(g.Repo, g.Verif) {
		if len(s.Text) > 300000 {
			continue
		}
		g.Emit("seed", lcase{Source: s.Text, Name: s.Name, Reps: 8})
	}
	for i, h := range handPrograms {
		g.Emit("hand", lcase{Source: h, Name: fmt.Sprintf("hand-%d", i), Reps: 24, Perms: 6})
	}
	graphs := includeGraphs()
	if g.Quick() {
		g.Rand.Shuffle(len(graphs), func(i, j int) { graphs[i], graphs[j] = graphs[j], graphs[i] })
		// quick: every shape at least 4 times, then a sample
		seen := map[string]int{}
		var keep []lcase
		for _, gr := range graphs {
			if seen[gr.Shape] < 4 || len(keep) < 400 {
				keep = append(keep, gr)
				seen[gr.Shape]++
			}
		}
		graphs = keep
	}
	for _, gr := range graphs {
		gr.Reps = 2
		g.Emit("include", gr)
	}
	for _, sc := range snippetCases() {
		g.Emit("snippets", sc)
	}
	g.Emit("fileresolver", lcase{Reps: 40})
	for k := 0; k < g.Pick(120, 3000); k++ {
		g.Emit("gen", lcase{Seed: g.Rand.Int63(), N: 20, Reps: 8, Perms: g.Pick(4, 12)})
	}
	for k := 0; k < g.Pick(150, 4000); k++ {
		g.Emit("callgraph", lcase{Seed: g.Rand.Int63(), N: 20, Reps: 8, Perms: g.Pick(4, 10)})
	}
}

// ---- monitors --------------------------------------------------------------------------------

func clip(s string, n int) string {
	if len(s) > n {
		return s[:n] + "…"
	}
	return s
}

func lintGuarded(oc *fw.Outcome, src string, mods map[string]string, what string, detail map[string]any) (*lintutil.Result, bool) {
	var res *lintutil.Result
	mr := &lintutil.MapResolver{Main: src, Modules: mods, Budget: 10000}
	p, msg, st := fw.Guard(func() { res = lintutil.LintWith(src, mr, curSnips) })
	if p {
		if msg == lintutil.ErrIncludeBudget {
			oc.Violate("include:non-terminating", "include expansion loaded more than 10000 modules for a graph of at most four files", detail)
		} else {
			oc.Violate(fw.PanicKey(st)+"/"+what, "the linter panicked: "+msg+"\n"+fw.TrimStack(st), detail)
		}
		return nil, false
	}
	return res, true
}

func diagStrings(ds []lintutil.Diag) []string {
	out := make([]string, len(ds))
	for i, d := range ds {
		out[i] = d.String()
	}
	return out
}

func repeatMonitor(oc *fw.Outcome, src string, mods map[string]string, reps int, what string, detail map[string]any) []lintutil.Diag {
	fw.JournalS(src)
	oc.Evals++
	first, ok := lintGuarded(oc, src, mods, what, detail)
	if !ok || first.ParseErr != nil {
		if ok {
			oc.Tag("skipped:unparseable")
		}
		return nil
	}
	base := diagStrings(first.Diags)
	for k := 1; k < reps; k++ {
		oc.Evals++
		r, ok := lintGuarded(oc, src, mods, what, detail)
		if !ok {
			return nil
		}
		cur := diagStrings(r.Diags)
		if lintutil.Multiset(cur) != lintutil.Multiset(base) {
			d := lintutil.DiffMultiset(base, cur)
			if d == "" {
				d = lintutil.DiffMultiset(cur, base)
			}
			rule := strings.SplitN(d, "|", 2)[0]
			dd := map[string]any{"run1": base, fmt.Sprintf("run%d", k+1): cur, "differing": d}
			for kk, v := range detail {
				dd[kk] = v
			}
			oc.Violate("nondet:"+rule, fmt.Sprintf("two lint runs on the same input report different diagnostics (e.g. %s)", clip(d, 200)), dd)
			break
		}
	}
	if len(first.Diags) > 0 {
		oc.NonTrivialS(src)
	}
	for _, d := range first.Diags {
		oc.Tag("rule:" + d.Rule)
	}
	return first.Diags
}

// locate maps a diagnostic position to (declaration name, ordinal of the innermost statement).
type locator struct {
	pos   []render.Pos
	decls [][2]int
	names []string
	stmts []gen.StmtRange
}

func (l *locator) where(line, col int) string {
	// token index: the last token starting at or before (line, col)
	idx := -1
	for i, p := range l.pos {
		if p.Line < line || p.Line == line && p.Col <= col {
			idx = i
		} else {
			break
		}
	}
	if idx < 0 {
		return "?"
	}
	di := -1
	for i, d := range l.decls {
		if idx >= d[0] && idx < d[1] {
			di = i
		}
	}
	if di < 0 {
		return "?"
	}
	// innermost statement containing idx, ordinal counted within the declaration
	ord, best, bestLen := 0, -1, 1<<30
	for _, s := range l.stmts {
		if s.From >= l.decls[di][0] && s.To <= l.decls[di][1] {
			if idx >= s.From && idx < s.To && s.To-s.From < bestLen {
				best, bestLen = ord, s.To-s.From
			}
			ord++
		}
	}
	return fmt.Sprintf("%s#%d+%d", l.names[di], best, idx-l.decls[di][0])
}

func declName(s ast.Statement) string {
	switch t := s.(type) {
	case *ast.SubroutineDeclaration:
		return "sub:" + t.Name.Value
	case *ast.AclDeclaration:
		return "acl:" + t.Name.Value
	case *ast.BackendDeclaration:
		return "backend:" + t.Name.Value
	case *ast.DirectorDeclaration:
		return "director:" + t.Name.Value
	case *ast.TableDeclaration:
		return "table:" + t.Name.Value
	case *ast.PenaltyboxDeclaration:
		return "penaltybox:" + t.Name.Value
	case *ast.RatecounterDeclaration:
		return "ratecounter:" + t.Name.Value
	}
	return fmt.Sprintf("%T", s)
}

func permutationMonitor(oc *fw.Outcome, r *rand.Rand, p *gen.Program, perms int) {
	// unique subroutine names are needed to map positions: skip programs with duplicate names
	names := make([]string, len(p.AST))
	seen := map[string]bool{}
	var subIdx []int
	for i, s := range p.AST {
		names[i] = declName(s)
		if seen[names[i]] {
			oc.Tag("perm:skipped-duplicate-names")
			return
		}
		seen[names[i]] = true
		if _, ok := s.(*ast.SubroutineDeclaration); ok {
			subIdx = append(subIdx, i)
		}
	}
	if len(subIdx) < 2 {
		return
	}
	lintMapped := func(order []int) ([]string, string, bool) {
		// rebuild the token list in this declaration order
		var toks []gen.Tok
		var decls [][2]int
		var nm []string
		var stmts []gen.StmtRange
		for _, di := range order {
			d := p.Decls[di]
			off := len(toks) - d[0]
			toks = append(toks, p.Toks[d[0]:d[1]]...)
			decls = append(decls, [2]int{d[0] + off, d[1] + off})
			nm = append(nm, names[di])
			for _, s := range p.Stmts {
				if s.From >= d[0] && s.To <= d[1] {
					stmts = append(stmts, gen.StmtRange{From: s.From + off, To: s.To + off, Kind: s.Kind})
				}
			}
		}
		src, pos := render.RenderPos(toks, render.Plan{Mode: "canonical"})
		fw.JournalS(src)
		oc.Evals++
		res, ok := lintGuarded(oc, src, nil, "generator", map[string]any{"source": clip(src, 3000)})
		if !ok || res.ParseErr != nil {
			return nil, src, false
		}
		loc := &locator{pos: pos, decls: decls, names: nm, stmts: stmts}
		var out []string
		for _, d := range res.Diags {
			out = append(out, loc.where(d.Line, d.Pos)+"|"+d.NoPos())
		}
		return out, src, true
	}
	id := make([]int, len(p.AST))
	for i := range id {
		id[i] = i
	}
	base, src0, ok := lintMapped(id)
	if !ok {
		return
	}
	for k := 0; k < perms; k++ {
		order := append([]int{}, id...)
		sh := append([]int{}, subIdx...)
		r.Shuffle(len(sh), func(i, j int) { sh[i], sh[j] = sh[j], sh[i] })
		for i, at := range subIdx {
			order[at] = sh[i]
		}
		cur, src1, ok := lintMapped(order)
		if !ok {
			return
		}
		if lintutil.Multiset(cur) != lintutil.Multiset(base) {
			d := lintutil.DiffMultiset(base, cur)
			if d == "" {
				d = lintutil.DiffMultiset(cur, base)
			}
			parts := strings.SplitN(d, "|", 3)
			rule := "?"
			if len(parts) > 1 {
				rule = parts[1]
			}
			oc.Violate("perm:"+rule, fmt.Sprintf("permuting the subroutine declarations changes the diagnostics (apart from locations): %s", clip(d, 220)),
				map[string]any{"original": clip(src0, 3000), "permuted": clip(src1, 3000), "original_diags": base, "permuted_diags": cur})
			return
		}
		oc.Tag("perm:checked")
	}
}

func run(c fw.Case) fw.Outcome {
	var oc fw.Outcome
	var lc lcase
	json.Unmarshal(c.Data, &lc)
	switch c.Kind {
	case "seed", "hand":
		repeatMonitor(&oc, lc.Source, nil, lc.Reps, "file", map[string]any{"source": clip(lc.Source, 3000), "origin": lc.Name})
		if c.Kind == "hand" {
			oc.Sample = map[string]any{"source": lc.Source}
		}
	case "fileresolver":
		runFileResolver(&oc, lc.Reps)
	case "snippets":
		curSnips = buildSnippets(lc)
		repeatMonitor(&oc, lc.Main, lc.Mods, lc.Reps, "snippets:"+lc.Shape, map[string]any{"main": lc.Main, "scoped": lc.Scoped, "include_snippets": lc.IncSnip, "shape": lc.Shape})
		curSnips = nil
		oc.Tag("snippet-shape:" + lc.Shape)
		oc.NonTrivialS(lc.Shape + lc.Main + fmt.Sprint(lc.Scoped, lc.IncSnip))
	case "include":
		repeatMonitor(&oc, lc.Main, lc.Mods, lc.Reps, "include:"+lc.Shape, map[string]any{"main": lc.Main, "modules": lc.Mods, "shape": lc.Shape})
		oc.Tag("include-shape:" + lc.Shape)
		oc.NonTrivialS(lc.Main + fmt.Sprint(lc.Mods))
	case "callgraph":
		r := rand.New(rand.NewSource(lc.Seed))
		for i := 0; i < lc.N && len(oc.Viols) == 0; i++ {
			runCallGraph(&oc, r, lc.Reps, lc.Perms)
		}
	case "gen":
		r := rand.New(rand.NewSource(lc.Seed))
		for i := 0; i < lc.N; i++ {
			g := gen.New(r, gen.Opts{MaxDepth: 3, Decls: 2 + r.Intn(5)})
			p := g.Program()
			src := render.Canonical(p.Toks)
			repeatMonitor(&oc, src, nil, lc.Reps, "generator", map[string]any{"source": clip(src, 3000)})
			permutationMonitor(&oc, r, p, lc.Perms)
			if i == 0 {
				oc.Sample = map[string]any{"source": clip(src, 1200)}
			}
		}
	}
	_ = sort.Strings
	return oc
}

func crashKey(c fw.Case, kind, stderr string) string {
	if strings.Contains(stderr, "stack overflow") || strings.Contains(stderr, "stack exceeds") {
		i := strings.Index(stderr, "goroutine")
		if i < 0 {
			i = 0
		}
		return "fatal:stack-overflow/" + fw.TopFalcoFrame(stderr[i:])
	}
	return ""
}
