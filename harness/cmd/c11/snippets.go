package main

// Fastly managed snippets in the linter context: scoped snippets expanded at the #FASTLY macros
// (in priority order) and "snippet::name" includes, with self-including and mutually including
// snippets at the top of a snippet and inside its nested blocks. Every case runs under the
// repeat monitor (termination, no crash, same multiset of diagnostics on every run).

import (
	"fmt"
	"os"
	"path/filepath"

	"github.com/ysugimoto/falco/v2/resolver"
	"github.com/ysugimoto/falco/v2/snippet"

	"verif/harness/fw"
	"verif/harness/lintutil"
)

func buildSnippets(lc lcase) *snippet.Snippets {
	s := &snippet.Snippets{ScopedSnippets: snippet.ScopedSnippets{}, IncludeSnippets: snippet.IncludeSnippets{}}
	for _, sp := range lc.Scoped {
		s.ScopedSnippets[sp.Scope] = append(s.ScopedSnippets[sp.Scope], snippet.Item{Name: sp.Name, Data: sp.Data, Priority: sp.Priority})
	}
	for n, d := range lc.IncSnip {
		s.IncludeSnippets[n] = snippet.Item{Name: n, Data: d}
	}
	return s
}

func snippetCases() []lcase {
	var out []lcase
	mainRecv := "sub vcl_recv {\n#FASTLY RECV\n  set req.http.A = \"1\";\n  return(lookup);\n}\nsub vcl_deliver {\n#FASTLY DELIVER\n  return(deliver);\n}\n"
	declare := "declare local var.tag STRING;\nset var.tag = req.http.Tag;\n"
	use := "set req.http.X-Tag = var.tag;\n"
	use2 := "set req.http.X-Tag2 = var.tag \"-2\";\n"
	// scoped snippets whose order matters, every insertion order, several priority sets
	for pi, prios := range [][3]int64{{10, 20, 30}, {5, 20, 100}, {1, 2, 3}, {100, 1000, 10000}} {
		specs := []snipSpec{{"recv", "declare_tag", declare, prios[0]}, {"recv", "use_tag", use, prios[1]}, {"recv", "use_tag2", use2, prios[2]}}
		for oi, ord := range [][]int{{0, 1, 2}, {0, 2, 1}, {1, 0, 2}, {1, 2, 0}, {2, 0, 1}, {2, 1, 0}} {
			lc := lcase{Main: mainRecv, Reps: 24, Shape: fmt.Sprintf("scoped/priorities-%d/insertion-%d", pi, oi)}
			for _, k := range ord {
				lc.Scoped = append(lc.Scoped, specs[k])
			}
			// a deliver snippet with an error of its own
			lc.Scoped = append(lc.Scoped, snipSpec{"deliver", "bad_deliver", "set bereq.http.X = \"1\";\n", 10})
			out = append(out, lc)
		}
	}
	// "snippet::name" includes
	incMains := map[string]string{
		"in-sub":   "sub vcl_recv {\n#FASTLY RECV\n  include \"snippet::a\";\n  return(lookup);\n}\n",
		"in-block": "sub vcl_recv {\n#FASTLY RECV\n  if (req.http.Q) {\n    include \"snippet::a\";\n  }\n  return(lookup);\n}\n",
		"at-root":  "include \"snippet::root\";\nsub vcl_recv {\n#FASTLY RECV\n  call from_root;\n  return(lookup);\n}\n",
	}
	bodies := map[string]map[string]string{
		"plain":                {"a": "set req.http.S = \"1\";\n"},
		"missing":              {"a": "set req.http.S = \"1\";\ninclude \"snippet::nosuch\";\n"},
		"self-top":             {"a": "set req.http.S = \"1\";\ninclude \"snippet::a\";\n"},
		"self-nested":          {"a": "if (req.http.X) {\n  include \"snippet::a\";\n}\n"},
		"self-after-sibling":   {"a": "if (req.http.X) {\n  if (req.http.Y) {\n    set req.http.Z = \"1\";\n  }\n  include \"snippet::a\";\n}\n"},
		"self-nested-else":     {"a": "if (req.http.X) {\n  set req.http.Z = \"1\";\n} else {\n  include \"snippet::a\";\n}\n"},
		"mutual-nested":        {"a": "if (req.http.X) {\n  include \"snippet::b\";\n}\n", "b": "if (req.http.Y) {\n  include \"snippet::a\";\n}\n"},
		"mutual-top-nested":    {"a": "include \"snippet::b\";\n", "b": "if (req.http.Y) {\n  include \"snippet::a\";\n}\n"},
		"three-cycle-nested":   {"a": "if (req.http.X) { include \"snippet::b\"; }\n", "b": "if (req.http.X) { include \"snippet::c\"; }\n", "c": "if (req.http.X) { include \"snippet::a\"; }\n"},
		"snippet-includes-mod": {"a": "if (req.http.X) {\n  include \"m1\";\n}\n"},
	}
	for mn, m := range incMains {
		for bn, b := range bodies {
			if mn == "at-root" {
				continue
			}
			lc := lcase{Main: m, Reps: 4, Shape: "include/" + mn + "/" + bn, IncSnip: b,
				Mods: map[string]string{"m1": "if (req.http.M) {\n  include \"snippet::a\";\n}\nset req.http.M1 = \"1\";\n"}}
			out = append(out, lc)
		}
	}
	out = append(out,
		lcase{Main: incMains["at-root"], Reps: 4, Shape: "include/at-root/plain", IncSnip: map[string]string{"root": "sub from_root {\n  set req.http.R = \"1\";\n}\n"}},
		lcase{Main: incMains["at-root"], Reps: 4, Shape: "include/at-root/self-nested", IncSnip: map[string]string{"root": "sub from_root {\n  if (req.http.X) {\n    include \"snippet::root\";\n  }\n}\n"}},
		lcase{Main: incMains["at-root"], Reps: 4, Shape: "include/at-root/self-top", IncSnip: map[string]string{"root": "include \"snippet::root\";\nsub from_root {\n  set req.http.R = \"1\";\n}\n"}},
	)
	return out
}

// fileResolverCase lints a small service from the file system through resolver.NewFileResolvers,
// the way `falco lint -I lib app/main.vcl` does: a module of the same name exists next to the main
// file and in the include path. Which one is taken must be the same on every run.
func runFileResolver(oc *fw.Outcome, reps int) {
	base := filepath.Join(fw.Verif, ".build", "tmp")
	os.MkdirAll(base, 0o755)
	dir, err := os.MkdirTemp(base, "c11fs-")
	if err != nil {
		oc.Inconc = append(oc.Inconc, "workspace: "+err.Error())
		return
	}
	defer os.RemoveAll(dir)
	files := map[string]string{
		"app/main.vcl":        "include \"helpers\";\ninclude \"only_in_lib\";\ninclude \"only_in_app\";\nsub vcl_recv {\n#FASTLY RECV\n  call helper;\n  call lib_only;\n  call app_only;\n  return(lookup);\n}\n",
		"app/helpers.vcl":     "sub helper {\n  set req.http.X-App = undefined_variable_in_app;\n}\n",
		"lib/helpers.vcl":     "sub helper {\n  set req.http.X-Lib = \"1\";\n}\n",
		"lib2/helpers.vcl":    "sub helper {\n  set req.http.X-Lib2 = std.itoa(1, 2, 3);\n}\n",
		"lib/only_in_lib.vcl": "sub lib_only {\n  set req.http.L = \"1\";\n}\n",
		"app/only_in_app.vcl": "sub app_only {\n  set req.http.A = \"1\";\n}\n",
	}
	for n, t := range files {
		p := filepath.Join(dir, n)
		os.MkdirAll(filepath.Dir(p), 0o755)
		os.WriteFile(p, []byte(t), 0o644)
	}
	mainPath := filepath.Join(dir, "app", "main.vcl")
	src := files["app/main.vcl"]
	for _, ips := range [][]string{{"lib"}, {"lib", "lib2"}, {"lib2", "lib"}, {"lib", "lib"}, {}} {
		var abs []string
		for _, p := range ips {
			abs = append(abs, filepath.Join(dir, p))
		}
		var first []string
		for k := 0; k < reps; k++ {
			oc.Evals++
			var cur []string
			pn, msg, st := fw.Guard(func() {
				rs, err := resolver.NewFileResolvers(mainPath, abs)
				if err != nil || len(rs) == 0 {
					cur = []string{"resolver error: " + fmt.Sprint(err)}
					return
				}
				res := lintutil.Lint(src, rs[0])
				for _, d := range res.Diags {
					cur = append(cur, d.NoPos()+"@"+filepath.Base(filepath.Dir(d.File))+"/"+filepath.Base(d.File))
				}
			})
			if pn {
				oc.Violate(fw.PanicKey(st)+"/file-resolver", "the linter panicked with the file resolver: "+msg, map[string]any{"include_paths": ips})
				return
			}
			if k == 0 {
				first = cur
				continue
			}
			if lintutil.Multiset(cur) != lintutil.Multiset(first) {
				oc.Violate("nondet:file-resolver", fmt.Sprintf("two lint runs of the same files with include paths %v report different diagnostics: %s", ips, clip(lintutil.DiffMultiset(first, cur)+lintutil.DiffMultiset(cur, first), 200)),
					map[string]any{"files": files, "include_paths": ips, "run1": first, fmt.Sprintf("run%d", k+1): cur})
				return
			}
		}
		oc.Tag(fmt.Sprintf("file-resolver:include-paths=%d", len(ips)))
		oc.NonTrivialS(fmt.Sprint("file-resolver", ips))
	}
}
