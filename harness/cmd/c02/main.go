// C02 — the parser builds the tree the VCL grammar and precedence table dictate.
package main

import (
	"encoding/json"
	"fmt"
	"math/rand"
	"strings"
	"time"

	"github.com/ysugimoto/falco/v2/ast"
	"github.com/ysugimoto/falco/v2/lexer"
	"github.com/ysugimoto/falco/v2/parser"

	"verif/harness/astcmp"
	"verif/harness/fw"
	"verif/harness/gen"
	"verif/harness/render"
)

type pcase struct {
	Seed    int64 `json:"seed"`
	N       int   `json:"n"`
	Depth   int   `json:"depth"`
	Layouts int   `json:"layouts"`
	Sweep   bool  `json:"sweep,omitempty"`
}

func main() {
	fw.Main(&fw.Prop{
		ID:    "C02",
		Level: "exploration",
		Rule: "programs are generated from the grammar of docs/parser.md as an intended tree (ast values built by the generator) plus a token list: all nine declaration kinds, every statement kind, expressions of bounded depth over " +
			"identifiers, escaped and long strings, INT/FLOAT/RTIME/BOOL boundary literals, prefix ! and -, flat operator chains, groups, if() and calls; each program is rendered under several layouts (canonical, no optional whitespace, " +
			"random whitespace incl. CRLF and blank lines, comments at random gaps) and parsed by falco; the parsed tree must equal the intended tree (positions/comments ignored, numeric source literal compared), flat chains being grouped by " +
			"precedence climbing over the table in the property text. A pairwise sweep enumerates all ordered pairs of binary operators x prefix on either operand x {no, left, right} parentheses. " +
			"non-trivial = program with an operator chain of length >=3 or an escape/boundary literal; distinct by hash of the rendered text",
		Assumptions: []string{
			"same-level chaining is generated only for ||, && and concatenation (the property states no associativity for the comparison levels)",
			"infix minus is not in the property's operator table and is not generated",
		},
		Gen:           gen_,
		Run:           run,
		Timeout:       120 * time.Second,
		MinNonTrivial: 500,
	})
}

func gen_(g *fw.GenCtx) {
	g.Emit("sweep", pcase{Sweep: true})
	n := g.Pick(150, 4000)
	for k := 0; k < n; k++ {
		g.Emit("prog", pcase{Seed: g.Rand.Int63(), N: 40, Depth: g.Pick(4, 4+k%3), Layouts: g.Pick(3, 10)})
	}
}

var cmpOpts = &astcmp.Opts{NumLiteral: true}

func parse(src string) (*ast.VCL, error) {
	return parser.New(lexer.NewFromString(src)).ParseVCL()
}

func firstLine(s string) string {
	if i := strings.IndexByte(s, '\n'); i >= 0 {
		return s[:i]
	}
	return s
}

func clip(s string, n int) string {
	if len(s) > n {
		return s[:n] + "…"
	}
	return s
}

// featureOf names the generator construct at a divergence path (for the finding key).
func divergenceKey(d *astcmp.Div) string {
	k := d.Key()
	// keep the last three components: enough to name node kind and field
	parts := strings.Split(k, ".")
	if len(parts) > 2 {
		parts = parts[len(parts)-2:]
	}
	return strings.Join(parts, ".")
}

func checkProgram(oc *fw.Outcome, p *gen.Program, plans []render.Plan, tag string) {
	want := astcmp.Build(&ast.VCL{Statements: p.AST}, cmpOpts)
	nontrivial := p.Features["chain>=3"] > 0 || p.Features["escape"] > 0 || p.Features["int-boundary"] > 0 || p.Features["float-exp-hex"] > 0 || p.Features["int-min"] > 0
	for f := range p.Features {
		oc.Tag("feature:" + f)
	}
	for _, pl := range plans {
		src := render.Render(p.Toks, pl)
		fw.JournalS(src)
		oc.Evals++
		oc.Tag("layout:" + pl.Mode + commentTag(pl))
		var vcl *ast.VCL
		var err error
		pn, msg, st := fw.Guard(func() { vcl, err = parse(src) })
		detail := map[string]any{"source": clip(src, 3000), "layout": pl.Mode, "origin": tag}
		if pn {
			oc.Violate(fw.PanicKey(st), "parser panicked on a generated program: "+msg+"\n"+fw.TrimStack(st), detail)
			continue
		}
		if err != nil {
			// localise: which top-level declaration fails alone (canonical layout)?
			key := "noparse:" + errClass(err.Error())
			for i, d := range p.Decls {
				one := render.Canonical(p.Toks[d[0]:d[1]])
				if _, e := parse(one); e != nil {
					detail["declaration"] = clip(one, 1500)
					key = "noparse:" + kindOf(p.AST[i]) + "/" + errClass(e.Error())
					break
				}
			}
			oc.Violate(key, "a program derived from the grammar does not parse: "+firstLine(err.Error()), detail)
			continue
		}
		got := astcmp.Build(vcl, cmpOpts)
		if d := astcmp.Compare(want, got); d != nil {
			detail["path"], detail["intended"], detail["parsed"] = d.Path, d.A, d.B
			oc.Violate("tree:"+divergenceKey(d), fmt.Sprintf("parsed tree differs from the intended tree at %s: intended %s, parsed %s", d.Path, clip(d.A, 150), clip(d.B, 150)), detail)
			continue
		}
		if nontrivial {
			oc.NonTrivialS(src)
		}
	}
}

func commentTag(p render.Plan) string {
	if len(p.Comments) > 0 {
		return "+comments"
	}
	return ""
}

func kindOf(s ast.Statement) string {
	return strings.TrimPrefix(fmt.Sprintf("%T", s), "*ast.")
}

func errClass(s string) string {
	s = firstLine(s)
	if i := strings.Index(s, ", line"); i > 0 {
		s = s[:i]
	}
	// mask quoted tokens
	out := ""
	inq := false
	for _, r := range s {
		if r == '"' {
			inq = !inq
			out += "\""
			continue
		}
		if !inq {
			out += string(r)
		}
	}
	return clip(out, 60)
}

func plansFor(r *rand.Rand, p *gen.Program, n int) []render.Plan {
	plans := []render.Plan{{Mode: "canonical"}, {Mode: "tight"}}
	serial := 0
	for len(plans) < n {
		pl := render.Plan{Mode: []string{"random", "random", "canonical"}[r.Intn(3)], Seed: r.Int63()}
		if r.Intn(2) == 0 {
			pl.Comments = map[int][]render.Comment{}
			for k := 1 + r.Intn(6); k > 0; k-- {
				serial++
				gap := r.Intn(len(p.Toks) + 1)
				pl.Comments[gap] = append(pl.Comments[gap], render.NewComment(r, serial))
			}
		}
		plans = append(plans, pl)
	}
	return plans
}

func run(c fw.Case) fw.Outcome {
	var oc fw.Outcome
	var pc pcase
	json.Unmarshal(c.Data, &pc)
	if pc.Sweep {
		sweep(&oc)
		return oc
	}
	r := rand.New(rand.NewSource(pc.Seed))
	for i := 0; i < pc.N; i++ {
		g := gen.New(r, gen.Opts{MaxDepth: pc.Depth, Decls: 1 + r.Intn(5)})
		p := g.Program()
		checkProgram(&oc, p, plansFor(r, p, pc.Layouts), "generator")
		if i == 0 {
			oc.Sample = map[string]any{"program": clip(render.Canonical(p.Toks), 1500)}
		}
	}
	return oc
}

// sweep: all ordered pairs of binary operators x prefix on either operand x parentheses.
func sweep(oc *fw.Outcome) {
	ops := []string{"||", "&&", "~", "!~", "==", "!=", "<", ">", "<=", ">=", "+", "juxt"}
	id := func(s string) gen.Expr { return &gen.Atom{Src: s, Cls: "ident", Node: &ast.Ident{Value: s}} }
	r := rand.New(rand.NewSource(1))
	for _, o1 := range ops {
		for _, o2 := range ops {
			l1, l2 := gen.Level(opName(o1)), gen.Level(opName(o2))
			if l1 == l2 && l1 >= 3 && l1 <= 5 {
				continue // same comparison level: no associativity stated
			}
			for pre := 0; pre < 4; pre++ {
				for par := 0; par < 3; par++ {
					a, b, cc := id("a"), id("b"), id("c")
					switch pre {
					case 1:
						a = &gen.Prefix{Op: "!", X: a}
					case 2:
						b = &gen.Prefix{Op: "!", X: b}
					case 3:
						cc = &gen.Prefix{Op: "-", X: cc}
					}
					mk := func(x, y gen.Expr, o string) gen.Expr {
						return &gen.Chain{Operands: []gen.Expr{x, y}, Ops: []string{opName(o)}, Explicit: []bool{o != "juxt"}}
					}
					var e gen.Expr
					switch par {
					case 0:
						e = &gen.Chain{Operands: []gen.Expr{a, b, cc}, Ops: []string{opName(o1), opName(o2)}, Explicit: []bool{o1 != "juxt", o2 != "juxt"}}
					case 1:
						e = mk(&gen.Group{X: mk(a, b, o1)}, cc, o2)
					default:
						e = mk(a, &gen.Group{X: mk(b, cc, o2)}, o1)
					}
					// juxtaposition needs the right operand to start with an identifier/string
					if (o1 == "juxt" && (pre == 2 || par == 2)) || (o2 == "juxt" && pre == 3) {
						continue
					}
					g := gen.New(r, gen.Opts{})
					p := g.Wrap(e)
					p.Features["chain>=3"] = 1
					checkProgram(oc, p, []render.Plan{{Mode: "canonical"}, {Mode: "tight"}}, fmt.Sprintf("sweep %s %s pre=%d par=%d", o1, o2, pre, par))
					oc.Tag("sweep-expr")
				}
			}
		}
	}
}

func opName(o string) string {
	if o == "juxt" {
		return "+"
	}
	return o
}
