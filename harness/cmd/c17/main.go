// C17 — HTTP header variables obey store laws.
package main

import (
	"encoding/json"
	"fmt"
	"math/rand"
	"strings"
	"time"

	"verif/harness/fw"
	"verif/harness/sim"
)

type op struct {
	K   string `json:"k"`             // set | setc | add | unset | setf | unsetf | unsetw
	N   string `json:"n"`             // header name as spelled
	Key string `json:"key,omitempty"` // sub-field key
	V   int    `json:"v,omitempty"`   // value index
}
type seq struct {
	Obj   string `json:"obj"`
	Scope string `json:"scope"`
	Ops   []op   `json:"ops"`
}
type batch struct {
	Seqs []seq `json:"seqs"`
	// Exhaustive enumeration is done in the worker from (first op index range) to keep cases small.
	Enum *enumSpec `json:"enum,omitempty"`
}
type enumSpec struct {
	Obj, Scope string
	First      int // index of the first op in the reduced alphabet; the worker enumerates all continuations
	MaxLen     int
}

type valSpec struct {
	lit    string // VCL source of the value
	val    string // the string value
	notset bool
	clean  bool // representable unambiguously as a sub-field value
	list   bool // a well-formed field list when assigned to the whole header (blanks around separators included)
}

var values = []valSpec{
	{`"tok"`, "tok", false, true, false},
	{`"other"`, "other", false, true, false},
	{`""`, "", false, true, false},
	{`var.ns`, "", true, true, false},
	{`"two words"`, "two words", false, true, false},
	{`{"a, bb=zz "q" x"}`, `a, bb=zz "q" x`, false, false, false},
	{`"line1%0Aline2"`, "line1\nline2", false, false, false},
	{`"é=日本"`, "é=日本", false, false, false},
	{`"p,q"`, "p,q", false, true, false},
	{`"x=y;z"`, "x=y;z", false, true, false},
	{`"aa=1, bb=2 , aab=3"`, "aa=1, bb=2 , aab=3", false, false, true},
	{`"bb=x,Aa=y ,zz"`, "bb=x,Aa=y ,zz", false, false, true},
	{`"zz , aab=q,  bb = r"`, "zz , aab=q,  bb = r", false, false, true},
	{`" lead"`, " lead", false, false, false},   // blanks at the edges belong to the value of the whole header
	{`"trail "`, "trail ", false, false, false}, // (as sub-field values they are not clean)
}

// expected sub-field reads after a list value was assigned to the whole header (keys compare
// case-insensitively in falco's field grammar, so "Aa" and "aa" name the same sub-field there)
var listFields = map[string]map[string]string{
	"aa=1, bb=2 , aab=3":  {"aa": "1", "bb": "2", "aab": "3"},
	"bb=x,Aa=y ,zz":       {"bb": "x", "aa": "y"},
	"zz , aab=q,  bb = r": {"aab": "q", "bb": "r"},
}

var nameGroups = [][]string{
	{"Foo", "foo", "FOO", "fOo"},
	{"X-Bar", "x-bar", "X-BAR", "x-Bar"},
	{"Foo-Baz", "foo-baz", "FOO-BAZ", "fOO-bAZ"}, // shares the prefix "Foo" with group 0 (wildcard, prefix bugs)
}
var cookieGroup = []string{"Cookie", "cookie", "COOKIE", "cOOkie"}
var keys = []string{"aa", "aab", "bb", "Aa", "k"} // one key is a proper prefix of another, one is a case variant of another, one has a single letter

var targets = []struct{ obj, scope string }{
	{"req", "RECV"}, {"req", "HASH"}, {"req", "HIT"}, {"req", "MISS"}, {"req", "PASS"}, {"req", "FETCH"}, {"req", "ERROR"}, {"req", "DELIVER"}, {"req", "LOG"},
	{"bereq", "MISS"}, {"bereq", "PASS"}, {"bereq", "FETCH"}, {"beresp", "FETCH"}, {"obj", "HIT"}, {"obj", "ERROR"}, {"resp", "DELIVER"}, {"resp", "LOG"},
}

// other object readable in the scope, used for the cross-object frame rule
var otherObj = map[string]string{"RECV": "", "HASH": "", "HIT": "obj", "MISS": "bereq", "PASS": "bereq", "FETCH": "beresp", "ERROR": "obj", "DELIVER": "resp", "LOG": "resp"}

func main() {
	fw.Main(&fw.Prop{
		ID:    "C17",
		Level: "exploration",
		Rule: "operation sequences over {set, set +=, add, unset, set name:key, unset name:key, unset prefix*} on header names in four case spellings (three names, two sharing a prefix, plus Cookie on req), " +
			"four sub-field keys (one a prefix, one a case variant of another) and thirteen values (tokens, empty, not-set local, spaces, separators/quotes, newline, multibyte, three field lists with blanks around the separators) are rendered as a VCL subroutine and executed by the real interpreter in each (object, scope) " +
			"where the object is writable; the debugger snapshot monitor reads every spelling of every name and every name:key before each statement, and the offline checker applies the store laws " +
			"(read-after-set, newline truncation, not-set after unset, case-insensitivity of value and of the set/not-set flag, sub-field read-back, frame rule for other sub-fields, other headers and the other object). " +
			"All sequences of length <=3 over a reduced alphabet are enumerated for req/RECV (and length <=2 for every other target); longer ones are PRNG. non-trivial = sequence with >=2 operations on the same header name; distinct by hash of the sequence",
		Assumptions: []string{
			"`add` and `+=` are held only to what the property states (header becomes set / case-insensitive / other headers untouched) plus: `add` never replaces what a set header reads; not to a full value model",
			"sub-field keys are compared case-insensitively by falco's field grammar (case-sensitively for cookies); the check asserts read-after-write through the spelling that was written and exempts case variants of the written key from the sibling frame rule",
			"sub-field values containing separators, quotes or '=' are asserted only through read-after-write of that key, not through the frame rule on sibling keys",
			"the order of sub-fields inside the header value is not part of the property and is not asserted",
		},
		Gen:           gen,
		Run:           run,
		Timeout:       120 * time.Second,
		MinNonTrivial: 1000,
	})
}

// reduced alphabet for the exhaustive part
func reducedOps() []op {
	var out []op
	for _, n := range []string{"Foo", "foo", "FOO", "X-Bar"} {
		for _, v := range []int{0, 2, 3, 10} {
			out = append(out, op{K: "set", N: n, V: v})
		}
		out = append(out, op{K: "setf", N: n, Key: "Aa", V: 1})
		for _, k := range []string{"aa", "bb"} {
			for _, v := range []int{0, 1} {
				out = append(out, op{K: "setf", N: n, Key: k, V: v})
			}
		}
		out = append(out, op{K: "set", N: n, V: 14})
		out = append(out, op{K: "setf", N: n, Key: "k", V: 2})
		out = append(out, op{K: "add", N: n, V: 0})
		out = append(out, op{K: "unset", N: n})
		out = append(out, op{K: "unsetf", N: n, Key: "aa"})
		out = append(out, op{K: "unsetf", N: n, Key: "bb"})
	}
	return out
}

func gen(g *fw.GenCtx) {
	red := reducedOps()
	for ti, t := range targets {
		maxLen := 2
		if ti == 0 {
			maxLen = 3
		}
		if !g.Quick() && (t.obj != "req" || t.scope == "DELIVER") {
			maxLen = 3
		}
		for first := range red {
			g.Emit("enum", batch{Enum: &enumSpec{Obj: t.obj, Scope: t.scope, First: first, MaxLen: maxLen}})
		}
	}
	r := g.Rand
	total := g.Pick(30000, 700000)
	var b batch
	for k := 0; k < total; k++ {
		t := targets[r.Intn(len(targets))]
		b.Seqs = append(b.Seqs, randSeq(r, t.obj, t.scope))
		if len(b.Seqs) == 250 {
			g.Emit("rand", b)
			b = batch{}
		}
	}
	if len(b.Seqs) > 0 {
		g.Emit("rand", b)
	}
}

func randSeq(r *rand.Rand, obj, scope string) seq {
	s := seq{Obj: obj, Scope: scope}
	n := 2 + r.Intn(7)
	groups := nameGroups
	// concentrate on one or two names so that operations collide
	focus := groups[r.Intn(len(groups))]
	if (obj == "req" || obj == "bereq") && r.Intn(4) == 0 {
		groups = append(append([][]string{}, nameGroups...), cookieGroup)
		focus = cookieGroup
	}
	for i := 0; i < n; i++ {
		grp := focus
		if r.Intn(4) == 0 {
			grp = groups[r.Intn(len(groups))]
		}
		o := op{N: grp[r.Intn(len(grp))], V: r.Intn(len(values))}
		switch r.Intn(12) {
		case 0, 1, 2:
			o.K = "set"
		case 3:
			o.K = "setc"
		case 4:
			o.K = "add"
		case 5, 6:
			o.K = "unset"
		case 7, 8, 9:
			o.K, o.Key = "setf", keys[r.Intn(len(keys))]
		case 10:
			o.K, o.Key = "unsetf", keys[r.Intn(len(keys))]
		case 11:
			o.K = "unsetw"
			// prefix: a proper prefix of the spelled name
			o.N = o.N[:1+r.Intn(len(o.N))]
		}
		s.Ops = append(s.Ops, o)
	}
	return s
}

// ---------------------------------------------------------------------------------------------

func (o op) render(obj string) string {
	h := obj + ".http." + o.N
	switch o.K {
	case "set":
		return fmt.Sprintf("set %s = %s;", h, values[o.V].lit)
	case "setc":
		return fmt.Sprintf("set %s += %s;", h, values[o.V].lit)
	case "add":
		return fmt.Sprintf("add %s = %s;", h, values[o.V].lit)
	case "unset":
		return fmt.Sprintf("unset %s;", h)
	case "setf":
		return fmt.Sprintf("set %s:%s = %s;", h, o.Key, values[o.V].lit)
	case "unsetf":
		return fmt.Sprintf("unset %s:%s;", h, o.Key)
	case "unsetw":
		return fmt.Sprintf("unset %s*;", h)
	}
	return ""
}

func render(s seq) string {
	var sb strings.Builder
	sb.WriteString("sub t {\ndeclare local var.ns STRING;\n")
	for _, o := range s.Ops {
		sb.WriteString(o.render(s.Obj))
		sb.WriteByte('\n')
	}
	sb.WriteString("log \"__end\";\n}\n")
	return sb.String()
}

func groupsFor(s seq) [][]string {
	g := nameGroups
	for _, o := range s.Ops {
		if strings.EqualFold(o.N, "cookie") || (o.K == "unsetw" && strings.HasPrefix("cookie", strings.ToLower(o.N))) {
			return append(append([][]string{}, nameGroups...), cookieGroup)
		}
	}
	return g
}

func readNames(s seq) []string {
	var names []string
	for _, grp := range groupsFor(s) {
		for _, sp := range grp {
			names = append(names, s.Obj+".http."+sp)
			for _, k := range keys {
				names = append(names, s.Obj+".http."+sp+":"+k)
			}
		}
	}
	// cross-object frame rule
	if o := otherObj[s.Scope]; o != "" && o != s.Obj {
		names = append(names, o+".http.Foo", o+".http.X-Bar")
	} else if s.Obj != "req" {
		names = append(names, "req.http.Foo", "req.http.X-Bar")
	}
	return names
}

const mainVCL = "sub vcl_recv {\n#FASTLY RECV\nreturn(lookup);\n}\n"

func trunc(v string) string {
	if i := strings.IndexByte(v, '\n'); i >= 0 {
		return v[:i]
	}
	return v
}

// lastSnaps: the per-line readings of the sequence checked last (for the cross-scope comparison)
var lastSnaps map[int]sim.Snap
var lastErr bool

func checkSeq(oc *fw.Outcome, s seq) {
	lastSnaps, lastErr = nil, false
	src := render(s)
	fw.JournalS(src)
	oc.Evals++
	var res *sim.Result
	p, msg, st := fw.Guard(func() { res = sim.RunSub(mainVCL, src, s.Scope, readNames(s), sim.Request{}) })
	detail := func(extra map[string]any) map[string]any {
		d := map[string]any{"object": s.Obj, "scope": s.Scope, "vcl": src}
		for k, v := range extra {
			d[k] = v
		}
		return d
	}
	if p {
		oc.Violate(fw.PanicKey(st), "interpreter panicked on a header operation sequence: "+msg+"\n"+fw.TrimStack(st), detail(nil))
		return
	}
	if res.InitErr != nil || res.ParseErr != nil {
		oc.Inconc = append(oc.Inconc, fmt.Sprintf("harness: init/parse error %v %v for %s", res.InitErr, res.ParseErr, src))
		return
	}
	// snapshots by line: op i is on line 3+i, the sentinel on line 3+n
	byLine := map[int]sim.Snap{}
	for _, sn := range res.Snaps {
		if _, dup := byLine[sn.Line]; !dup {
			byLine[sn.Line] = sn
		}
	}
	lastSnaps, lastErr = byLine, res.Err != nil
	nOK := len(s.Ops)
	if res.Err != nil {
		// a reported runtime error ends the sequence; the prefix is still checked
		oc.Tag("runtime-error:" + errClass(res.Err.Error()))
		nOK = -1
		for i := range s.Ops {
			if _, ok := byLine[3+i+1]; !ok {
				nOK = i
				break
			}
		}
		if nOK < 0 {
			nOK = len(s.Ops)
		}
	}
	groups := groupsFor(s)
	sameHdr := func(a, b string) bool { return strings.EqualFold(a, b) }
	opsOnSame := 0
	for i := 0; i <= nOK; i++ {
		cur, ok := byLine[3+i]
		if !ok {
			if i <= nOK && res.Err == nil {
				oc.Inconc = append(oc.Inconc, fmt.Sprintf("harness: no snapshot for line %d of %s", 3+i, src))
			}
			return
		}
		// L-case: every spelling of a name reads the same (value and set/not-set), whole and per key
		for _, grp := range groups {
			for _, suffix := range append([]string{""}, keys...) {
				ref := cur.Vals[hname(s.Obj, grp[0], suffix)]
				for _, sp := range grp[1:] {
					got := cur.Vals[hname(s.Obj, sp, suffix)]
					if got != ref {
						what := "value"
						if got.NotSet != ref.NotSet {
							what = "set/not-set flag"
						}
						field := "whole"
						if suffix != "" {
							field = "field"
						}
						oc.Violate(fmt.Sprintf("%s/case/%s/%s/after-%s", s.Obj, field, strings.ReplaceAll(what, " ", "-"), lastOpKind(s, i)),
							fmt.Sprintf("header name spellings disagree after %d operation(s): %s reads %s but %s reads %s", i, hname(s.Obj, grp[0], suffix), ref, hname(s.Obj, sp, suffix), got),
							detail(map[string]any{"after_ops": i}))
					}
				}
			}
		}
		if i == 0 {
			continue
		}
		prev := byLine[3+i-1]
		o := s.Ops[i-1]
		v := values[o.V]
		if i >= 2 {
			for _, q := range s.Ops[:i-1] {
				if sameHdr(q.N, o.N) {
					opsOnSame++
					break
				}
			}
		}
		canon := func(grp []string) string { return grp[0] }
		// frame rule for other headers (and the other object)
		for name, pv := range prev.Vals {
			hn := strings.TrimPrefix(name, s.Obj+".http.")
			otherObject := hn == name
			base := hn
			if j := strings.IndexByte(base, ':'); j >= 0 {
				base = base[:j]
			}
			touched := false
			if !otherObject {
				switch o.K {
				case "unsetw":
					touched = strings.HasPrefix(strings.ToLower(base), strings.ToLower(o.N))
				default:
					touched = sameHdr(base, o.N)
				}
			}
			if touched {
				continue
			}
			if cv := cur.Vals[name]; cv != pv {
				kind := "other-header"
				if otherObject {
					kind = "other-object"
				}
				oc.Violate(fmt.Sprintf("%s/frame/%s/%s", s.Obj, o.K, kind),
					fmt.Sprintf("`%s` changed %s from %s to %s", o.render(s.Obj), name, pv, cv), detail(map[string]any{"op_index": i - 1}))
			}
		}
		// laws on the header that was written (read through the canonical spelling: L-case covers the rest)
		var grp []string
		for _, g := range groups {
			if sameHdr(g[0], o.N) {
				grp = g
			}
		}
		if o.K == "unsetw" {
			// every header whose name starts with the prefix (names are case-insensitive) reads as not set
			for _, g := range groups {
				if !strings.HasPrefix(strings.ToLower(g[0]), strings.ToLower(o.N)) {
					continue
				}
				for _, suffix := range append([]string{""}, keys...) {
					if f := cur.Vals[hname(s.Obj, g[0], suffix)]; !f.NotSet {
						oc.Violate(fmt.Sprintf("%s/unsetw/read-after-unset", s.Obj), fmt.Sprintf("after `%s`: %s reads %s, expected not set", o.render(s.Obj), hname(s.Obj, g[0], suffix), f), detail(map[string]any{"op_index": i - 1}))
					}
				}
			}
			continue
		}
		if grp == nil {
			continue
		}
		whole := cur.Vals[hname(s.Obj, canon(grp), "")]
		pwhole := prev.Vals[hname(s.Obj, canon(grp), "")]
		isCookie := strings.EqualFold(grp[0], "cookie")
		viol := func(law, what string) {
			oc.Violate(fmt.Sprintf("%s/%s/%s", s.Obj, o.K, law), fmt.Sprintf("after `%s`: %s", o.render(s.Obj), what), detail(map[string]any{"op_index": i - 1}))
		}
		switch o.K {
		case "set":
			if v.notset {
				if !whole.NotSet {
					viol("notset-value", fmt.Sprintf("assigning a not-set value should leave the header not set, but it reads %s", whole))
				}
			} else if whole.NotSet || whole.Str != trunc(v.val) {
				viol("read-after-set", fmt.Sprintf("the header reads %s, expected %q", whole, trunc(v.val)))
			}
			if lf := listFields[v.val]; lf != nil && !isCookie {
				for _, k := range keys {
					want, has := lf[strings.ToLower(k)]
					f := cur.Vals[hname(s.Obj, canon(grp), k)]
					if has && (f.NotSet || f.Str != want) || !has && !f.NotSet {
						viol("field-read-after-whole-set", fmt.Sprintf("sub-field %s reads %s after the whole header was set to %q", k, f, v.val))
					}
				}
			}
		case "unset":
			if !whole.NotSet {
				viol("read-after-unset", fmt.Sprintf("the header reads %s, expected not set", whole))
			}
			for _, k := range keys {
				if f := cur.Vals[hname(s.Obj, canon(grp), k)]; !f.NotSet {
					viol("field-after-unset", fmt.Sprintf("sub-field %s of the unset header reads %s", k, f))
				}
			}
		case "add":
			// `add` is held only to: a non-empty value makes the header set, and on a header that
			// was not set it reads back as the value added (whole or up to its first newline)
			if !v.notset && v.val != "" && !emptyAddedBefore(s, i-1) {
				if whole.NotSet {
					viol("set-after-add", "the header reads as not set")
				} else if pwhole.NotSet && whole.Str != trunc(v.val) && whole.Str != v.val && !isCookie {
					viol("read-after-add", fmt.Sprintf("add on a not-set header reads %s, expected %q", whole, v.val))
				}
			}
			// a header that was set keeps reading what it read (first line) or that followed by the
			// addition; the added line never replaces the value that was written, the empty value included
			if !pwhole.NotSet && !isCookie && !whole.NotSet && whole.Str != pwhole.Str && (pwhole.Str == "" || !strings.HasPrefix(whole.Str, pwhole.Str)) {
				viol("add-replaced-value", fmt.Sprintf("the header read %s before and reads %s after", pwhole, whole))
			}
			if !pwhole.NotSet && whole.NotSet {
				viol("add-unset", "add made a set header read as not set")
			}
		case "setc":
			if whole.NotSet {
				viol("set-after-compound", "a compound assignment leaves the header not set")
			}
		case "setf":
			f := cur.Vals[hname(s.Obj, canon(grp), o.Key)]
			// a cookie value cannot carry separators, quotes or blanks at all
			if !v.notset && v.val != "" && !strings.Contains(v.val, "\n") && !dirty(s, o) && !(isCookie && strings.ContainsAny(v.val, "; ,\"\\=")) {
				if f.NotSet || f.Str != trunc(v.val) {
					viol("field-read-after-set", fmt.Sprintf("sub-field %s reads %s, expected %q", o.Key, f, trunc(v.val)))
				}
				if whole.NotSet {
					viol("whole-after-field-set", "the header reads as not set after one of its sub-fields was written")
				}
			}
			// an empty (but set) value: the sub-field exists and reads as the empty string
			if !v.notset && v.val == "" && !dirty(s, o) {
				if f.NotSet || f.Str != "" {
					viol("field-read-after-set-empty", fmt.Sprintf("sub-field %s reads %s after it was set to the empty string, expected a set empty value", o.Key, f))
				}
			}
			siblings(oc, s, o, v.clean, prev, cur, grp, viol)
		case "unsetf":
			if f := cur.Vals[hname(s.Obj, canon(grp), o.Key)]; !f.NotSet && !dirty(s, o) {
				viol("field-read-after-unset", fmt.Sprintf("sub-field %s reads %s, expected not set", o.Key, f))
			}
			siblings(oc, s, o, true, prev, cur, grp, viol)
		}
	}
	if opsOnSame > 0 || len(s.Ops) >= 2 {
		b, _ := json.Marshal(s)
		oc.NonTrivial(b)
	}
	oc.Tag("target:" + s.Obj + "/" + s.Scope)
}

// siblings: the other sub-fields of the header keep their previous read, provided every value
// stored in the header so far is unambiguous for falco's own field grammar.
func siblings(oc *fw.Outcome, s seq, o op, clean bool, prev, cur sim.Snap, grp []string, viol func(law, what string)) {
	if !clean {
		return
	}
	// previous whole value must not contain characters that make the field grammar ambiguous
	pw := prev.Vals[hname(s.Obj, grp[0], "")]
	if strings.ContainsAny(pw.Str, "\"\\") || dirty(s, o) {
		return
	}
	for _, k := range keys {
		if strings.EqualFold(k, o.Key) {
			continue
		}
		a, b := prev.Vals[hname(s.Obj, grp[0], k)], cur.Vals[hname(s.Obj, grp[0], k)]
		if a != b {
			viol("sibling-field", fmt.Sprintf("sub-field %s changed from %s to %s", k, a, b))
		}
	}
}

// dirty reports whether an earlier operation stored an unclean value into the same header.
func dirty(s seq, o op) bool {
	for _, q := range s.Ops {
		if strings.EqualFold(q.N, o.N) && q.K == "set" && values[q.V].list && !strings.EqualFold(q.N, "cookie") {
			continue // a well-formed list assigned to the whole header keeps the field grammar unambiguous
		}
		if strings.EqualFold(q.N, o.N) && (q.K == "set" || q.K == "setc" || q.K == "add" || q.K == "setf") && !values[q.V].clean {
			return true
		}
		if strings.EqualFold(q.N, o.N) && (q.K == "set" || q.K == "setc" || q.K == "add") && values[q.V].val == "two words" {
			return true
		}
	}
	return false
}

// emptyAddedBefore: an earlier `add` of an empty/not-set value to the same header makes the first
// of its several values empty; what a read returns then is outside what the property says about add.
func emptyAddedBefore(s seq, idx int) bool {
	for _, q := range s.Ops[:idx] {
		if q.K == "add" && strings.EqualFold(q.N, s.Ops[idx].N) && values[q.V].val == "" {
			return true
		}
	}
	return false
}

func lastOpKind(s seq, i int) string {
	if i == 0 {
		return "init"
	}
	return s.Ops[i-1].K
}

func hname(obj, sp, key string) string {
	if key == "" {
		return obj + ".http." + sp
	}
	return obj + ".http." + sp + ":" + key
}

func errClass(s string) string {
	if i := strings.IndexByte(s, '\n'); i >= 0 {
		s = s[:i]
	}
	if len(s) > 70 {
		s = s[:70]
	}
	return s
}

func run(c fw.Case) fw.Outcome {
	var oc fw.Outcome
	var b batch
	json.Unmarshal(c.Data, &b)
	if b.Enum != nil {
		red := reducedOps()
		var rec func(prefix []op)
		rec = func(prefix []op) {
			checkSeq(&oc, seq{Obj: b.Enum.Obj, Scope: b.Enum.Scope, Ops: append([]op{}, prefix...)})
			if len(prefix) >= b.Enum.MaxLen {
				return
			}
			for _, o := range red {
				rec(append(prefix, o))
			}
		}
		rec([]op{red[b.Enum.First]})
		oc.Tag("enum-cases")
		return oc
	}
	for si, s := range b.Seqs {
		checkSeq(&oc, s)
		// every fifth sequence runs again in another scope in which the object is writable: what a header
		// variable reads after the same operations does not depend on the subroutine
		if si%5 != 0 || lastSnaps == nil || lastErr {
			continue
		}
		first := lastSnaps
		var others []string
		for _, t := range targets {
			if t.obj == s.Obj && t.scope != s.Scope {
				others = append(others, t.scope)
			}
		}
		if len(others) == 0 {
			continue
		}
		s2 := s
		s2.Scope = others[(si/5)%len(others)]
		checkSeq(&oc, s2)
		if lastSnaps == nil || lastErr {
			continue
		}
		oc.Tag("cross-scope:" + s.Obj)
	cmp:
		for i := 0; i <= len(s.Ops); i++ {
			a, okA := first[3+i]
			b2, okB := lastSnaps[3+i]
			if !okA || !okB {
				break
			}
			for name, va := range a.Vals {
				if !strings.HasPrefix(name, s.Obj+".http.") {
					continue
				}
				if vb, ok := b2.Vals[name]; ok && vb != va {
					kind := "init"
					if i > 0 {
						kind = s.Ops[i-1].K
					}
					oc.Violate(fmt.Sprintf("%s/cross-scope/%s", s.Obj, kind), fmt.Sprintf("after the same %d operation(s) %s reads %s in %s but %s in %s", i, name, va, s.Scope, vb, s2.Scope),
						map[string]any{"object": s.Obj, "scope_a": s.Scope, "scope_b": s2.Scope, "vcl": render(s), "after_ops": i})
					break cmp
				}
			}
		}
	}
	if len(b.Seqs) > 0 {
		oc.Sample = map[string]any{"object": b.Seqs[0].Obj, "scope": b.Seqs[0].Scope, "vcl": render(b.Seqs[0])}
	}
	return oc
}
