package main

// A fake Fastly API: the REAL snippet/remote fetcher (client.go, fetcher.go) is driven through
// http.DefaultTransport, answered from the generated resource set in the JSON shapes of the API.

import (
	"bytes"
	"encoding/json"
	"fmt"
	"io"
	"net/http"
	"strconv"
	"strings"
)

type fakeAPI struct{ s resSet }

func (f *fakeAPI) RoundTrip(req *http.Request) (*http.Response, error) {
	path := req.URL.Path
	var body any
	b2s := func(b bool) string {
		if b {
			return "1"
		}
		return "0"
	}
	switch {
	case strings.HasSuffix(path, "/version/active"):
		body = map[string]any{"number": 7}
	case strings.HasSuffix(path, "/request_settings"):
		body = []any{}
	case strings.Contains(path, "/logging/"):
		body = []any{}
	case strings.HasSuffix(path, "/response_object"):
		out := []any{}
		for _, r := range f.s.RespObjs {
			out = append(out, map[string]any{"name": r.Name, "content": r.Content, "response": r.Response, "content_type": r.ContentType, "status": strconv.FormatInt(r.Status, 10),
				"request_condition": r.RequestCondition, "cache_condition": ""})
		}
		body = out
	case strings.HasSuffix(path, "/header"):
		out := []any{}
		for _, h := range f.s.Headers {
			m := map[string]any{"name": h.Name, "action": h.Action, "type": h.Type, "src": h.Source, "dst": h.Destination, "regex": h.Regex, "substitution": h.Substitution,
				"ignore_if_set": b2s(h.IgnoreIfSet), "priority": "10", "request_condition": nil, "cache_condition": nil, "response_condition": nil}
			if h.Condition != "" {
				m[h.Type+"_condition"] = h.Condition
			}
			out = append(out, m)
		}
		body = out
	case strings.HasSuffix(path, "/condition"):
		out := []any{}
		for _, c := range f.s.Conditions {
			out = append(out, map[string]any{"name": c.Name, "statement": c.Statement, "type": c.Type, "priority": "10"})
		}
		body = out
	case strings.HasSuffix(path, "/dictionary"):
		out := []any{}
		for i, d := range f.s.Dicts {
			out = append(out, map[string]any{"id": fmt.Sprintf("dict%d", i), "name": d.Name, "write_only": d.WriteOnly})
		}
		body = out
	case strings.Contains(path, "/dictionary/") && strings.HasSuffix(path, "/items"):
		out := []any{}
		id := strings.TrimSuffix(path[strings.Index(path, "/dictionary/")+len("/dictionary/"):], "/items")
		if i, err := strconv.Atoi(strings.TrimPrefix(id, "dict")); err == nil && i < len(f.s.Dicts) {
			for _, it := range f.s.Dicts[i].Items {
				out = append(out, map[string]any{"item_key": it.K, "item_value": it.V})
			}
		}
		body = out
	case strings.HasSuffix(path, "/acl"):
		out := []any{}
		for i, a := range f.s.Acls {
			out = append(out, map[string]any{"id": fmt.Sprintf("acl%d", i), "name": a.Name})
		}
		body = out
	case strings.Contains(path, "/acl/") && strings.HasSuffix(path, "/entries"):
		out := []any{}
		id := strings.TrimSuffix(path[strings.Index(path, "/acl/")+len("/acl/"):], "/entries")
		if i, err := strconv.Atoi(strings.TrimPrefix(id, "acl")); err == nil && i < len(f.s.Acls) {
			for _, e := range f.s.Acls[i].Entries {
				m := map[string]any{"ip": e.IP, "negated": b2s(e.Negated), "comment": e.Comment, "subnet": nil}
				if e.Subnet != "" {
					n, _ := strconv.ParseInt(e.Subnet, 10, 64)
					m["subnet"] = n
				}
				out = append(out, m)
			}
		}
		body = out
	case strings.HasSuffix(path, "/backend"):
		out := []any{}
		for _, b := range f.s.Backends {
			out = append(out, map[string]any{"name": b.Name, "shield": nil, "address": b.Address})
		}
		body = out
	case strings.HasSuffix(path, "/director"):
		out := []any{}
		for _, d := range f.s.Directors {
			out = append(out, map[string]any{"name": d.Name, "type": d.Type, "backends": d.Backends, "retries": d.Retries, "quorum": d.Quorum})
		}
		body = out
	case strings.HasSuffix(path, "/snippet"):
		out := []any{}
		for i, sn := range f.s.Snippets {
			out = append(out, map[string]any{"id": fmt.Sprintf("snip%d", i), "name": sn.Name, "dynamic": "0", "type": sn.Type, "priority": strconv.FormatInt(sn.Priority, 10), "content": sn.Content})
		}
		body = out
	default:
		return &http.Response{StatusCode: 404, Body: io.NopCloser(strings.NewReader(`{"msg":"no such endpoint in the fake API: ` + path + `"}`)), Header: http.Header{}, Request: req}, nil
	}
	b, _ := json.Marshal(body)
	return &http.Response{StatusCode: 200, Body: io.NopCloser(bytes.NewReader(b)), Header: http.Header{"Content-Type": []string{"application/json"}}, Request: req}, nil
}
