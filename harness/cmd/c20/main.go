// C20 — VCL generated from remote/Terraform resources is valid and faithful.
package main

import (
	"bytes"
	"encoding/json"
	"fmt"
	"math/rand"
	"net/http"
	"os"
	"os/exec"
	"regexp"
	"sort"
	"strconv"
	"strings"
	"time"

	"github.com/ysugimoto/falco/v2/ast"
	"github.com/ysugimoto/falco/v2/lexer"
	"github.com/ysugimoto/falco/v2/parser"
	"github.com/ysugimoto/falco/v2/snippet"
	"github.com/ysugimoto/falco/v2/snippet/remote"
	"github.com/ysugimoto/falco/v2/snippet/terraform"

	"verif/harness/fw"
)

// ---- resource sets as data -------------------------------------------------------------------

type dictItem struct{ K, V string }
type dict struct {
	Name  string
	Items []dictItem
	// WriteOnly: a private dictionary. The Fastly API lists it but does not give its items: the remote
	// path declares the table without items
	WriteOnly bool `json:",omitempty"`
}
type aclEntry struct {
	IP      string
	Subnet  string // "" = none
	Negated bool
	Comment string
}
type acl struct {
	Name    string
	Entries []aclEntry
}
type backend struct {
	Name    string
	Address string
	Shield  string
}
type director struct {
	Name     string
	Type     int
	Backends []string
	Retries  int
	Quorum   int
	// OmitOptional leaves "retries"/"quorum" out of the Terraform plan (both are optional attributes)
	OmitOptional bool
}
type header struct {
	Name, Action, Type, Source, Destination, Regex, Substitution string
	IgnoreIfSet                                                  bool
	Condition                                                    string
}
type respObj struct {
	Name, ContentType, Content, Response string
	Status                               int64
	RequestCondition                     string
}
type vclSnippet struct {
	Name, Type, Content string
	Priority            int64
}
type condition struct{ Name, Statement, Type string }

type resSet struct {
	// PlanShape: how the Terraform plan is laid out: "" flat, "child-items" (ACL entries / dictionary items
	// in a child module), "child-all" (everything in a child module), "two-services" (another service with
	// decoy resources comes first; the same fetcher serves it first and is then pointed to ours with SetName)
	PlanShape  string `json:",omitempty"`
	Dicts      []dict
	Acls       []acl
	Backends   []backend
	Directors  []director
	Headers    []header
	RespObjs   []respObj
	Snippets   []vclSnippet
	Conditions []condition
}
type batch struct{ Sets []resSet }

func main() {
	fw.Main(&fw.Prop{
		ID:    "C20",
		Level: "exploration",
		Rule: "resource sets are generated as data (dictionaries, ACLs, backends, directors, header rules, response objects, VCL snippets, conditions) with names Fastly accepts and values over an alphabet weighted " +
			"towards \" % %20 %u00e9 { } {\" \"} # // /* ; \\ newline CR tab and multibyte text; each set is turned into a Terraform plan JSON and fed to terraform.ParseStdin -> NewTerraformFetcher -> snippet.Fetch -> EmbedSnippets (plan layouts: flat, entries / items in a child module, everything in nested child modules, a second service with decoy resources in front served first by the same fetcher; private write_only dictionaries on the API path; EmbedSnippets called twice must change nothing), " +
			"and also handed to snippet.Fetch through a fake API fetcher. Every generated item is parsed with falco's parser and compared field by field with the source data (dictionary keys/values as decoded strings, " +
			"ACL address/mask/negation, backend identifier and host, director members each naming a declared backend). non-trivial = a set with >=1 value containing a special character class; distinct by hash of the set",
		Assumptions: []string{
			"names are restricted to what Fastly accepts: identifier characters for dictionaries and ACLs; letters, digits, '-', '.', ' ' and '_' for backends and directors",
			"user-written content (VCL snippets, header sources, condition statements) is passed through and only required to arrive byte-identical",
		},
		Gen:           gen,
		Run:           run,
		Timeout:       120 * time.Second,
		MinNonTrivial: 200,
	})
}

// ---- generator -------------------------------------------------------------------------------

var frags = []string{
	`"`, `%`, `%20`, `%25`, `%u00e9`, `%u{1F600}`, `%zz`, `{`, `}`, `{"`, `"}`, `#`, `//`, `/*`, `*/`, `;`, `\`, "\n", "\r", "\t", `'`, "é", "日本", " ", "a", "Z", "0", "-", "_", ".", "/", ":", "=", ",", "+", "&", "<", ">", "|", "~", "!", "?",
}
var fragClass = map[string]string{`"`: "quote", `%`: "percent", `%20`: "pct-escape", `%25`: "pct-escape", `%u00e9`: "pct-escape", `%u{1F600}`: "pct-escape", `%zz`: "pct-escape",
	`{`: "brace", `}`: "brace", `{"`: "longstring", `"}`: "longstring", `#`: "comment", `//`: "comment", `/*`: "comment", `*/`: "comment", `;`: "semicolon", `\`: "backslash",
	"\n": "newline", "\r": "cr", "\t": "tab", "é": "multibyte", "日本": "multibyte"}

func randText(r *rand.Rand, maxLen int) string {
	n := r.Intn(maxLen + 1)
	if r.Intn(6) == 0 {
		n = r.Intn(300)
	}
	var sb strings.Builder
	special := r.Intn(3) > 0
	for sb.Len() < n {
		if special && r.Intn(3) == 0 {
			sb.WriteString(frags[r.Intn(22)]) // the special ones
		} else {
			sb.WriteString(frags[22+r.Intn(len(frags)-22)])
		}
	}
	return sb.String()
}

var keywords = map[string]bool{"acl": true, "backend": true, "director": true, "table": true, "sub": true, "add": true, "call": true, "declare": true, "error": true, "esi": true,
	"include": true, "import": true, "log": true, "restart": true, "return": true, "set": true, "synthetic": true, "unset": true, "if": true, "else": true, "elseif": true, "elsif": true,
	"true": true, "false": true, "remove": true, "penaltybox": true, "ratecounter": true, "goto": true, "switch": true, "case": true, "default": true, "break": true, "fallthrough": true, "pragma": true,
	"rol": true, "ror": true, "c": false}

// ident returns an identifier that is not a VCL keyword (Fastly does not accept those as resource names).
func ident(r *rand.Rand) string {
	for {
		s := ident0(r)
		if !keywords[strings.ToLower(s)] && s != "C" && s != "W" {
			return s
		}
	}
}

func ident0(r *rand.Rand) string {
	const first = "abcdefghijklmnopqrstuvwxyzABCDEFGHIJKLMNOPQRSTUVWXYZ"
	const rest = first + "0123456789_"
	n := 1 + r.Intn(10)
	b := []byte{first[r.Intn(len(first))]}
	for i := 1; i < n; i++ {
		b = append(b, rest[r.Intn(len(rest))])
	}
	return string(b)
}

func looseName(r *rand.Rand) string {
	s := ident(r)
	for k := r.Intn(3); k > 0; k-- {
		// also RUNS of non-identifier characters: each one is sanitised on its own
		s += []string{"-", ".", " ", "_", "-1", ".example.com", " origin", " - ", "--", "..", " (eu) ", "__"}[r.Intn(12)] + ident(r)
	}
	return s
}

func randIP(r *rand.Rand) (string, int) {
	if r.Intn(3) == 0 {
		v6 := []string{"::1", "2001:db8::", "2001:db8::1", "fe80::1", "::", "2001:db8:ffff:ffff:ffff:ffff:ffff:ffff", "::ffff:192.0.2.1"}
		return v6[r.Intn(len(v6))], 128
	}
	return fmt.Sprintf("%d.%d.%d.%d", r.Intn(256), r.Intn(256), r.Intn(256), r.Intn(256)), 32
}

func genSet(r *rand.Rand) resSet {
	var s resSet
	uniq := map[string]bool{}
	name := func(f func(*rand.Rand) string) string {
		for {
			n := f(r)
			if !uniq[strings.ToLower(n)] {
				uniq[strings.ToLower(n)] = true
				return n
			}
		}
	}
	for k := r.Intn(3); k > 0; k-- {
		d := dict{Name: name(ident)}
		keys := map[string]bool{}
		n := r.Intn(8)
		if r.Intn(10) == 0 {
			n = r.Intn(50)
		}
		for ; n > 0; n-- {
			key := randText(r, 16)
			if keys[key] {
				continue
			}
			keys[key] = true
			d.Items = append(d.Items, dictItem{key, randText(r, 24)})
		}
		d.WriteOnly = r.Intn(6) == 0
		s.Dicts = append(s.Dicts, d)
	}
	s.PlanShape = []string{"", "", "child-items", "child-all", "two-services"}[r.Intn(5)]
	for k := r.Intn(3); k > 0; k-- {
		a := acl{Name: name(ident)}
		for n := r.Intn(8); n > 0; n-- {
			ip, bits := randIP(r)
			e := aclEntry{IP: ip, Negated: r.Intn(3) == 0}
			switch r.Intn(4) {
			case 0:
			case 1:
				e.Subnet = "0"
			case 2:
				e.Subnet = strconv.Itoa(bits)
			default:
				e.Subnet = strconv.Itoa(r.Intn(bits + 1))
			}
			if r.Intn(2) == 0 {
				e.Comment = randText(r, 20)
			}
			a.Entries = append(a.Entries, e)
		}
		s.Acls = append(s.Acls, a)
	}
	for k := r.Intn(4); k > 0; k-- {
		b := backend{Name: name(looseName)}
		switch r.Intn(7) {
		case 0:
		case 1:
			b.Address = "192.0.2." + strconv.Itoa(r.Intn(256))
		case 5:
			// IPv6 literals and other addresses with colons, dots at the edges, upper case, a trailing dot
			b.Address = []string{"2001:db8::10", "::1", "2001:db8:0:0:0:0:0:1", "fe80::1", "::ffff:192.0.2.1"}[r.Intn(5)]
		case 6:
			b.Address = []string{"Origin.EXAMPLE.com", "origin.example.com.", "xn--caf-dma.example", "a-b_c.example.com", "localhost", "10.0.0.1"}[r.Intn(6)]
		default:
			b.Address = strings.ToLower(ident(r)) + ".example.com"
		}
		if r.Intn(4) == 0 {
			b.Shield = []string{"tyo-tokyo-jp", "iad-va-us", "lhr"}[r.Intn(3)]
		}
		s.Backends = append(s.Backends, b)
	}
	if len(s.Backends) > 0 {
		for k := r.Intn(3); k > 0; k-- {
			d := director{Name: name(looseName), Type: 1 + r.Intn(3), Quorum: []int{0, 1, 50, 75, 100}[r.Intn(5)], Retries: r.Intn(6), OmitOptional: r.Intn(8) == 0}
			if d.OmitOptional {
				d.Quorum, d.Retries = 0, 0
			}
			for n := 1 + r.Intn(3); n > 0; n-- {
				d.Backends = append(d.Backends, s.Backends[r.Intn(len(s.Backends))].Name)
			}
			s.Directors = append(s.Directors, d)
		}
	}
	for k := r.Intn(3); k > 0; k-- {
		c := condition{Name: looseName(r), Statement: `req.url ~ "^/` + ident(r) + `"`, Type: "REQUEST"}
		s.Conditions = append(s.Conditions, c)
	}
	for k := r.Intn(3); k > 0; k-- {
		h := header{Name: name(looseName), Action: []string{"set", "append", "delete", "regex", "regex_repeat"}[r.Intn(5)], Type: []string{"request", "cache", "response"}[r.Intn(3)],
			Source: `"` + ident(r) + `"`, Destination: "http.X-" + ident(r), Regex: "^" + ident(r), Substitution: ident(r), IgnoreIfSet: r.Intn(3) == 0}
		if r.Intn(2) == 0 {
			// regular expression and substitution are arbitrary text (quotes, percent signs, braces)
			h.Regex, h.Substitution = randText(r, 16), randText(r, 16)
		}
		if h.Type == "request" && len(s.Conditions) > 0 && r.Intn(2) == 0 {
			h.Condition = s.Conditions[r.Intn(len(s.Conditions))].Name
		}
		s.Headers = append(s.Headers, h)
	}
	for k := r.Intn(2); k > 0; k-- {
		ro := respObj{Name: looseName(r), ContentType: "text/html", Status: int64([]int{200, 301, 404, 503}[r.Intn(4)]), Response: "OK", Content: "<html>" + ident(r) + "</html>"}
		switch r.Intn(4) {
		case 0:
			ro.Content = `{"a":{"b":"c"}}` + randText(r, 20) // JSON: contains the sequence that closes a long string
		case 1:
			ro.Content = randText(r, 40)
			ro.ContentType = "text/plain; x=" + randText(r, 8)
		}
		if len(s.Conditions) > 0 && r.Intn(2) == 0 {
			ro.RequestCondition = s.Conditions[r.Intn(len(s.Conditions))].Name
		}
		s.RespObjs = append(s.RespObjs, ro)
	}
	for k := r.Intn(3); k > 0; k-- {
		s.Snippets = append(s.Snippets, vclSnippet{Name: name(looseName), Type: []string{"recv", "fetch", "deliver", "init", "none"}[r.Intn(5)], Content: "# " + randText(r, 12) + "\n", Priority: int64(r.Intn(200))})
	}
	return s
}

func forcedSets() []resSet {
	one := func(k, v string) resSet { return resSet{Dicts: []dict{{Name: "d", Items: []dictItem{{k, v}}}}} }
	out := []resSet{
		{},
		{Dicts: []dict{{Name: "empty"}}},
		one("k", `a"b`), one(`k"x`, "v"), one("k", "%20"), one("%20", "v"), one("k", "100%"), one("k", "%"), one("k", "%u00e9"), one("k", "%zz"), one("k", "a\nb"), one("k", "a\rb"),
		one("k", `{"x"}`), one("k", `"}`), one("k", `\`), one("k", `\"`), one("k", "# c"), one("k", "// c"), one("k", "/* c */"), one("k", ";"), one("", ""), one("é", "日本"), one("k", "\t"),
		one("k", strings.Repeat("x", 9000)),
		{Dicts: []dict{{Name: "api_keys", WriteOnly: true, Items: []dictItem{{"secret", "s"}}}, {Name: "redirects", Items: []dictItem{{"/a", "/b"}}}, {Name: "flags", Items: []dictItem{{"f", "1"}, {"g", "2"}}}}},
		{Dicts: []dict{{Name: "redirects", Items: []dictItem{{"/a", "/b"}}}, {Name: "api_keys", WriteOnly: true}, {Name: "flags", Items: []dictItem{{"f", "1"}}}, {Name: "more_keys", WriteOnly: true}}},
		{PlanShape: "child-items", Dicts: []dict{{Name: "redirects", Items: []dictItem{{"/a", "/b"}}}}, Acls: []acl{{Name: "internal", Entries: []aclEntry{{IP: "192.0.2.0", Subnet: "24"}, {IP: "10.0.0.1", Negated: true}}}}},
		{PlanShape: "child-all", Dicts: []dict{{Name: "redirects", Items: []dictItem{{"/a", "/b"}}}}, Acls: []acl{{Name: "internal", Entries: []aclEntry{{IP: "192.0.2.0", Subnet: "24"}}}}, Backends: []backend{{Name: "origin", Address: "o.example.com"}}},
		{PlanShape: "two-services", Dicts: []dict{{Name: "redirects", Items: []dictItem{{"/a", "/b"}}}}, Acls: []acl{{Name: "internal", Entries: []aclEntry{{IP: "192.0.2.0", Subnet: "24"}}}}, Backends: []backend{{Name: "origin", Address: "o.example.com"}}},
		{Acls: []acl{{Name: "a"}}},
		{Acls: []acl{{Name: "a", Entries: []aclEntry{{IP: "192.0.2.0", Subnet: "24"}, {IP: "192.0.2.1", Negated: true}, {IP: "10.0.0.0", Subnet: "0"}, {IP: "2001:db8::", Subnet: "32", Negated: true}, {IP: "::1", Subnet: "128"},
			{IP: "1.2.3.4", Comment: "office \"main\""}, {IP: "1.2.3.5", Comment: "line1\nline2"}, {IP: "1.2.3.6", Comment: "50% } {"}, {IP: "1.2.3.7", Subnet: "32", Comment: "x;\"1.1.1.1\";"}}}}},
		{Backends: []backend{{Name: "origin-1", Address: "a.example.com"}, {Name: "my origin.example.com", Address: "192.0.2.1"}, {Name: "noaddr"}, {Name: "sh", Address: "b.example.com", Shield: "tyo-tokyo-jp"}},
			Directors: []director{{Name: "dir-1", Type: 1, Backends: []string{"origin-1", "my origin.example.com"}, Quorum: 75, Retries: 5}, {Name: "d.2", Type: 2, Backends: []string{"noaddr"}, Quorum: 0}, {Name: "d3", Type: 3, Backends: []string{"origin-1"}, Quorum: 100}}},
	}
	return out
}

func gen(g *fw.GenCtx) {
	var b batch
	for _, s := range forcedSets() {
		b.Sets = append(b.Sets, s)
	}
	g.Emit("forced", b)
	b = batch{}
	total := g.Pick(30000, 300000)
	for k := 0; k < total; k++ {
		b.Sets = append(b.Sets, genSet(g.Rand))
		if len(b.Sets) == 100 {
			g.Emit("rand", b)
			b = batch{}
		}
	}
	if len(b.Sets) > 0 {
		g.Emit("rand", b)
	}
	// end to end through the CLI
	b = batch{Sets: forcedSets()}
	g.Emit("cli", b)
	b = batch{}
	for k := 0; k < g.Pick(60, 2000); k++ {
		b.Sets = append(b.Sets, genSet(g.Rand))
		if len(b.Sets) == 10 {
			g.Emit("cli", b)
			b = batch{}
		}
	}
	if len(b.Sets) > 0 {
		g.Emit("cli", b)
	}
}

// ---- Terraform plan construction -------------------------------------------------------------

const provider = "registry.terraform.io/fastly/fastly"

func planJSON(s resSet) []byte {
	type m = map[string]any
	svc := m{"id": "svc1", "name": "service"}
	var acls, dicts, backends, directors, headers, ros, snips, conds []m
	var resources []m
	for _, a := range s.Acls {
		acls = append(acls, m{"name": a.Name})
		var entries []m
		for _, e := range a.Entries {
			entries = append(entries, m{"ip": e.IP, "subnet": e.Subnet, "negated": e.Negated, "comment": e.Comment})
		}
		resources = append(resources, m{"provider_name": provider, "type": "fastly_service_acl_entries", "index": a.Name, "values": m{"service_id": "svc1", "entry": entries}})
	}
	for _, d := range s.Dicts {
		dicts = append(dicts, m{"name": d.Name})
		items := map[string]string{}
		for _, it := range d.Items {
			items[it.K] = it.V
		}
		resources = append(resources, m{"provider_name": provider, "type": "fastly_service_dictionary_items", "index": d.Name, "values": m{"service_id": "svc1", "items": items}})
	}
	for _, b := range s.Backends {
		bm := m{"name": b.Name}
		if b.Address != "" {
			bm["address"] = b.Address
		}
		if b.Shield != "" {
			bm["shield"] = b.Shield
		}
		backends = append(backends, bm)
	}
	for _, d := range s.Directors {
		dm := m{"name": d.Name, "type": d.Type, "backends": d.Backends}
		if !d.OmitOptional {
			dm["retries"], dm["quorum"] = d.Retries, d.Quorum
		}
		directors = append(directors, dm)
	}
	for _, c := range s.Conditions {
		conds = append(conds, m{"name": c.Name, "statement": c.Statement, "type": c.Type, "priority": 10})
	}
	for _, h := range s.Headers {
		hm := m{"name": h.Name, "action": h.Action, "type": h.Type, "source": h.Source, "destination": h.Destination, "regex": h.Regex, "substitution": h.Substitution, "ignore_if_set": h.IgnoreIfSet, "priority": 10}
		if h.Condition != "" {
			hm["request_condition"] = h.Condition
		}
		headers = append(headers, hm)
	}
	for _, r := range s.RespObjs {
		ros = append(ros, m{"name": r.Name, "content_type": r.ContentType, "content": r.Content, "status": r.Status, "response": r.Response, "request_condition": r.RequestCondition})
	}
	for _, sn := range s.Snippets {
		snips = append(snips, m{"name": sn.Name, "type": sn.Type, "content": sn.Content, "priority": sn.Priority})
	}
	svc["acl"], svc["dictionary"], svc["backend"], svc["director"], svc["condition"], svc["header"], svc["response_object"], svc["snippet"] = acls, dicts, backends, directors, conds, headers, ros, snips
	svc["vcl"] = []m{{"name": "main", "main": true, "content": "sub vcl_recv {\n#FASTLY RECV\n}\n"}}
	service := m{"provider_name": provider, "type": "fastly_service_vcl", "values": svc}
	var root m
	switch s.PlanShape {
	case "child-items":
		root = m{"resources": []m{service}, "child_modules": []m{{"address": "module.cdn", "resources": resources}}}
	case "child-all":
		root = m{"resources": []m{}, "child_modules": []m{{"address": "module.cdn", "resources": []m{service}, "child_modules": []m{{"address": "module.cdn.module.data", "resources": resources}}}}}
	case "two-services":
		// the other service comes first and has a dictionary, an ACL and a backend of its own
		other := m{"id": "svc0", "name": "other", "acl": []m{{"name": "decoy_acl"}}, "dictionary": []m{{"name": "decoy_dict"}}, "backend": []m{{"name": "decoy_backend", "address": "decoy.example.com"}},
			"director": []m{}, "condition": []m{}, "header": []m{}, "response_object": []m{}, "snippet": []m{},
			"vcl": []m{{"name": "main", "main": true, "content": "sub vcl_recv {\n#FASTLY RECV\n}\n"}}}
		decoys := []m{
			{"provider_name": provider, "type": "fastly_service_vcl", "values": other},
			{"provider_name": provider, "type": "fastly_service_dictionary_items", "index": "decoy_dict", "values": m{"service_id": "svc0", "items": map[string]string{"decoy": "item"}}},
			{"provider_name": provider, "type": "fastly_service_acl_entries", "index": "decoy_acl", "values": m{"service_id": "svc0", "entry": []m{{"ip": "203.0.113.9", "subnet": "", "negated": false, "comment": ""}}}},
		}
		root = m{"resources": append(append(decoys, service), resources...)}
	default:
		root = m{"resources": append([]m{service}, resources...)}
	}
	b, _ := json.Marshal(m{"planned_values": m{"root_module": root}})
	return b
}

// ---- fake API fetcher ------------------------------------------------------------------------

type fakeFetcher struct{ s resSet }

func (f *fakeFetcher) LookupCache(bool) *snippet.Snippets { return nil }
func (f *fakeFetcher) WriteCache(*snippet.Snippets)       {}
func (f *fakeFetcher) Backends() ([]*snippet.Backend, error) {
	var out []*snippet.Backend
	for _, b := range f.s.Backends {
		sb := &snippet.Backend{Name: b.Name}
		if b.Address != "" {
			a := b.Address
			sb.Address = &a
		}
		if b.Shield != "" {
			sh := b.Shield
			sb.Shield = &sh
		}
		out = append(out, sb)
	}
	return out, nil
}
func (f *fakeFetcher) Directors() ([]*snippet.Director, error) {
	var out []*snippet.Director
	for _, d := range f.s.Directors {
		out = append(out, &snippet.Director{Type: d.Type, Name: d.Name, Backends: append([]string{}, d.Backends...), Retries: d.Retries, Quorum: d.Quorum})
	}
	return out, nil
}
func (f *fakeFetcher) Dictionaries() ([]*snippet.Dictionary, error) {
	var out []*snippet.Dictionary
	for _, d := range f.s.Dicts {
		sd := &snippet.Dictionary{Name: d.Name}
		for _, it := range d.Items {
			sd.Items = append(sd.Items, &snippet.DictionaryItem{Key: it.K, Value: it.V})
		}
		out = append(out, sd)
	}
	return out, nil
}
func (f *fakeFetcher) Acls() ([]*snippet.Acl, error) {
	var out []*snippet.Acl
	for _, a := range f.s.Acls {
		sa := &snippet.Acl{Name: a.Name}
		for _, e := range a.Entries {
			se := &snippet.AclEntry{Ip: e.IP, Negated: e.Negated, Comment: e.Comment}
			if e.Subnet != "" {
				n, _ := strconv.ParseInt(e.Subnet, 10, 64)
				se.Subnet = &n
			}
			sa.Entries = append(sa.Entries, se)
		}
		out = append(out, sa)
	}
	return out, nil
}
func (f *fakeFetcher) Conditions() ([]*snippet.Condition, error) {
	var out []*snippet.Condition
	for _, c := range f.s.Conditions {
		out = append(out, &snippet.Condition{Name: c.Name, Statement: c.Statement, Type: snippet.Phase(c.Type), Priority: 10})
	}
	return out, nil
}
func (f *fakeFetcher) Snippets() ([]*snippet.VCLSnippet, error) {
	var out []*snippet.VCLSnippet
	for _, s := range f.s.Snippets {
		out = append(out, &snippet.VCLSnippet{Name: s.Name, Type: s.Type, Content: s.Content, Priority: s.Priority})
	}
	return out, nil
}
func (f *fakeFetcher) Headers() ([]*snippet.Header, error) {
	var out []*snippet.Header
	for _, h := range f.s.Headers {
		sh := &snippet.Header{Type: snippet.Phase(strings.ToUpper(h.Type)), Action: snippet.Action(h.Action), Name: h.Name, IgnoreIfSet: h.IgnoreIfSet, Priority: 10,
			Source: h.Source, Destination: h.Destination, Regex: h.Regex, Substitution: h.Substitution}
		if h.Condition != "" {
			c := h.Condition
			sh.Condition = &c
		}
		out = append(out, sh)
	}
	return out, nil
}
func (f *fakeFetcher) ResponseObjects() ([]*snippet.ResponseObject, error) {
	var out []*snippet.ResponseObject
	for _, r := range f.s.RespObjs {
		c := r.Content
		out = append(out, &snippet.ResponseObject{Content: &c, Response: r.Response, RequestCondition: r.RequestCondition, Status: r.Status, ContentType: r.ContentType, Name: r.Name})
	}
	return out, nil
}
func (f *fakeFetcher) RequestSetting() (*snippet.RequestSetting, error) { return nil, nil }
func (f *fakeFetcher) LoggingEndpoints() ([]string, error)              { return nil, nil }

// ---- oracle ----------------------------------------------------------------------------------

var nonWord = regexp.MustCompile(`\W`)

func sanitize(s string) string { return nonWord.ReplaceAllString(s, "_") }

func charClasses(s string) []string {
	set := map[string]bool{}
	for f, c := range fragClass {
		if strings.Contains(s, f) {
			set[c] = true
		}
	}
	var out []string
	for c := range set {
		out = append(out, c)
	}
	sort.Strings(out)
	return out
}

// cause names why a generated string literal reads back differently.
func cause(want, got string) string {
	switch {
	case strings.Contains(want, "%") && len(got) < len(want):
		return "percent-decoded"
	case strings.Contains(want, "%"):
		return "percent"
	case strings.Contains(want, `"`):
		return "quote"
	case strings.ContainsAny(want, "\n\r"):
		return "linebreak"
	}
	return worstClass(want)
}

func worstClass(s string) string {
	cs := charClasses(s)
	if len(cs) == 0 {
		return "plain"
	}
	return cs[0]
}

func parseDecls(src string) ([]ast.Statement, error) {
	v, err := parser.New(lexer.NewFromString(src)).ParseVCL()
	if err != nil {
		return nil, err
	}
	return v.Statements, nil
}

type checker struct {
	oc   *fw.Outcome
	set  resSet
	path string
}

func (c *checker) viol(key, what string, item *snippet.Item) {
	d := map[string]any{"path": c.path, "resources": c.set}
	if item != nil {
		d["generated"] = clip(item.Data, 1500)
		d["item"] = item.Name
	}
	c.oc.Violate(key, what, d)
}

func clip(s string, n int) string {
	if len(s) > n {
		return s[:n] + "…"
	}
	return s
}

func findItem(items []snippet.Item, name string) *snippet.Item {
	for i := range items {
		if items[i].Name == name {
			return &items[i]
		}
	}
	return nil
}

func (c *checker) checkAll(sn *snippet.Snippets, items []snippet.Item) {
	s := c.set
	// every embedded declaration item must parse
	declared := map[string]bool{} // backend identifiers declared
	for i := range items {
		it := &items[i]
		if strings.HasPrefix(it.Name, "Remote.") {
			if _, err := parseDecls(it.Data); err != nil {
				kind := strings.SplitN(strings.TrimPrefix(it.Name, "Remote."), ":", 2)[0]
				c.viol(kind+"/"+c.culprit(it.Name)+"/noparse", fmt.Sprintf("generated item %s does not parse: %v", it.Name, firstLine(err.Error())), it)
			}
		}
	}
	for _, b := range s.Backends {
		it := findItem(items, "Remote.Backend:"+b.Name)
		if it == nil {
			c.viol("Backend/missing", "no item generated for backend "+b.Name, nil)
			continue
		}
		st, err := parseDecls(it.Data)
		if err != nil {
			continue
		}
		bd, ok := one(st).(*ast.BackendDeclaration)
		if !ok {
			c.viol("Backend/kind", "backend item does not hold exactly one backend declaration", it)
			continue
		}
		want := "F_" + sanitize(b.Name)
		if bd.Name.Value != want {
			c.viol("Backend.name/"+nameClass(b.Name)+"/mismatch", fmt.Sprintf("backend %q declared as %q, expected %q", b.Name, bd.Name.Value, want), it)
		}
		declared[bd.Name.Value] = true
		host := ""
		for _, p := range bd.Properties {
			if p.Key.Value == "host" {
				if sv, ok := p.Value.(*ast.String); ok {
					host = sv.Value
				}
			}
		}
		if host != b.Address {
			c.viol("Backend.host/mismatch", fmt.Sprintf("backend %q has .host %q, resource address %q", b.Name, host, b.Address), it)
		}
	}
	for _, d := range s.Dicts {
		it := findItem(items, "Remote.EdgeDictionary:"+d.Name)
		if it == nil {
			c.viol("EdgeDictionary/missing", "no item generated for dictionary "+d.Name, nil)
			continue
		}
		st, err := parseDecls(it.Data)
		if err != nil {
			continue
		}
		td, ok := one(st).(*ast.TableDeclaration)
		if !ok {
			c.viol("EdgeDictionary/kind", "dictionary item does not hold exactly one table declaration", it)
			continue
		}
		if td.Name.Value != d.Name {
			c.viol("EdgeDictionary.name/mismatch", fmt.Sprintf("table named %q, dictionary %q", td.Name.Value, d.Name), it)
		}
		want := append([]dictItem{}, d.Items...)
		if c.path == "remote" && d.WriteOnly {
			want = nil // the API does not hand out the items of a private dictionary
		}
		if c.path == "terraform" {
			sort.Slice(want, func(i, j int) bool { return want[i].K < want[j].K })
		}
		if len(td.Properties) != len(want) {
			c.viol("EdgeDictionary.items/count", fmt.Sprintf("dictionary %s has %d items, table declares %d", d.Name, len(want), len(td.Properties)), it)
			continue
		}
		for i, p := range td.Properties {
			val := ""
			if sv, ok := p.Value.(*ast.String); ok {
				val = sv.Value
			} else {
				c.viol("EdgeDictionary.value/kind", "table value is not a string literal", it)
				continue
			}
			if p.Key.Value != want[i].K {
				c.viol("EdgeDictionary.key/"+cause(want[i].K, p.Key.Value)+"/mismatch", fmt.Sprintf("dictionary key %q became %q", want[i].K, p.Key.Value), it)
			}
			if val != want[i].V {
				c.viol("EdgeDictionary.value/"+cause(want[i].V, val)+"/mismatch", fmt.Sprintf("dictionary value %q became %q", want[i].V, val), it)
			}
		}
	}
	for _, a := range s.Acls {
		it := findItem(items, "Remote.Acl:"+a.Name)
		if it == nil {
			c.viol("Acl/missing", "no item generated for ACL "+a.Name, nil)
			continue
		}
		st, err := parseDecls(it.Data)
		if err != nil {
			continue
		}
		ad, ok := one(st).(*ast.AclDeclaration)
		if !ok {
			c.viol("Acl/kind", "ACL item does not hold exactly one acl declaration", it)
			continue
		}
		if ad.Name.Value != a.Name {
			c.viol("Acl.name/mismatch", fmt.Sprintf("acl named %q, resource %q", ad.Name.Value, a.Name), it)
		}
		if len(ad.CIDRs) != len(a.Entries) {
			c.viol("Acl.entries/count", fmt.Sprintf("ACL %s has %d entries, declaration has %d", a.Name, len(a.Entries), len(ad.CIDRs)), it)
			continue
		}
		for i, e := range a.Entries {
			got := ad.CIDRs[i]
			if got.IP.Value != e.IP {
				c.viol("Acl.ip/mismatch", fmt.Sprintf("entry %d address %q became %q", i, e.IP, got.IP.Value), it)
			}
			neg := got.Inverse != nil && got.Inverse.Value
			if neg != e.Negated {
				c.viol("Acl.negated/mismatch", fmt.Sprintf("entry %d (%s) negated=%v became %v", i, e.IP, e.Negated, neg), it)
			}
			mask := ""
			if got.Mask != nil {
				mask = strconv.FormatInt(got.Mask.Value, 10)
			}
			if mask != e.Subnet {
				c.viol("Acl.mask/"+maskClass(e.Subnet)+"/mismatch", fmt.Sprintf("entry %d (%s) mask %q became %q", i, e.IP, e.Subnet, mask), it)
			}
		}
	}
	for _, d := range s.Directors {
		it := findItem(items, "Remote.Director:"+d.Name)
		if it == nil {
			c.viol("Director/missing", "no item generated for director "+d.Name, nil)
			continue
		}
		st, err := parseDecls(it.Data)
		if err != nil {
			continue
		}
		dd, ok := one(st).(*ast.DirectorDeclaration)
		if !ok {
			c.viol("Director/kind", "director item does not hold exactly one director declaration", it)
			continue
		}
		if dd.Name.Value != sanitize(d.Name) {
			c.viol("Director.name/"+nameClass(d.Name)+"/mismatch", fmt.Sprintf("director %q declared as %q", d.Name, dd.Name.Value), it)
		}
		var members []string
		for _, p := range dd.Properties {
			if bo, ok := p.(*ast.DirectorBackendObject); ok {
				for _, v := range bo.Values {
					if v.Key.Value == "backend" {
						if id, ok := v.Value.(*ast.Ident); ok {
							members = append(members, id.Value)
						}
					}
				}
			}
		}
		if len(members) != len(d.Backends) {
			c.viol("Director.members/count", fmt.Sprintf("director %q has %d members, declaration has %d", d.Name, len(d.Backends), len(members)), it)
			continue
		}
		for i, m := range d.Backends {
			want := "F_" + sanitize(m)
			if members[i] != want {
				c.viol("Director.member/"+nameClass(m)+"/mismatch", fmt.Sprintf("director %q member %q is written %q but the backend is declared as %q", d.Name, m, members[i], want), it)
			} else if !declared[members[i]] {
				c.viol("Director.member/undeclared", fmt.Sprintf("director %q names backend %q which no generated item declares", d.Name, members[i]), it)
			}
		}
	}
	// scoped snippets rendered from header rules / response objects must parse as statements
	for scope, list := range sn.ScopedSnippets {
		for i := range list {
			it := &list[i]
			isUser := false
			for _, us := range s.Snippets {
				if us.Name == it.Name {
					isUser = true
					if it.Data != us.Content {
						c.viol("VCLSnippet.content/mismatch", "user snippet content was altered", it)
					}
				}
			}
			if isUser {
				continue
			}
			stmts, err := parser.New(lexer.NewFromString(it.Data)).ParseSnippetVCL()
			if err != nil {
				kind := strings.SplitN(strings.TrimPrefix(it.Name, "Remote."), ":", 2)[0]
				c.viol(kind+"/noparse", fmt.Sprintf("generated %s snippet %s does not parse: %s", scope, it.Name, firstLine(err.Error())), it)
				continue
			}
			c.checkRuleFaithful(it, stmts)
		}
	}
}

// checkRuleFaithful: the regular expression / substitution of a regex header rule and the content / content type
// of a response object must read back from the generated statements exactly as given.
func (c *checker) checkRuleFaithful(it *snippet.Item, stmts []ast.Statement) {
	parts := strings.SplitN(strings.TrimPrefix(it.Name, "Remote."), ":", 2)
	if len(parts) != 2 {
		return
	}
	var strs func(n any, out *[][]string)
	_ = strs
	switch parts[0] {
	case "Header":
		for _, h := range c.set.Headers {
			if h.Name != parts[1] || h.Action != "regex" && h.Action != "regex_repeat" {
				continue
			}
			found := false
			walkStatements(stmts, func(st ast.Statement) {
				set, ok := st.(*ast.SetStatement)
				if !ok {
					return
				}
				call, ok := set.Value.(*ast.FunctionCallExpression)
				if !ok || len(call.Arguments) != 3 {
					return
				}
				re, ok1 := call.Arguments[1].(*ast.String)
				su, ok2 := call.Arguments[2].(*ast.String)
				if !ok1 || !ok2 {
					return
				}
				found = true
				if re.Value != h.Regex {
					c.viol("Header.regex/"+worstClass(h.Regex)+"/mismatch", fmt.Sprintf("header rule regex %q became %q", clip(h.Regex, 80), clip(re.Value, 80)), it)
				}
				if su.Value != h.Substitution {
					c.viol("Header.substitution/"+worstClass(h.Substitution)+"/mismatch", fmt.Sprintf("header rule substitution %q became %q", clip(h.Substitution, 80), clip(su.Value, 80)), it)
				}
			})
			if !found {
				c.viol("Header.regex/missing", "no regsub/regsuball call with literal pattern and substitution in the generated rule", it)
			}
		}
	case "ResponseObject":
		for _, ro := range c.set.RespObjs {
			if ro.Name != parts[1] {
				continue
			}
			walkStatements(stmts, func(st ast.Statement) {
				switch t := st.(type) {
				case *ast.SyntheticStatement:
					// an empty content falls back to the response text
					if v, ok := t.Value.(*ast.String); ok && v.Value != ro.Content && !(ro.Content == "" && v.Value == ro.Response) {
						c.viol("ResponseObject.content/"+worstClass(ro.Content)+"/mismatch", fmt.Sprintf("response object content %q became %q", clip(ro.Content, 80), clip(v.Value, 80)), it)
					}
				case *ast.SetStatement:
					if v, ok := t.Value.(*ast.String); ok && strings.EqualFold(t.Ident.Value, "obj.http.Content-Type") && v.Value != ro.ContentType {
						c.viol("ResponseObject.content_type/"+worstClass(ro.ContentType)+"/mismatch", fmt.Sprintf("content type %q became %q", ro.ContentType, v.Value), it)
					}
				}
			})
		}
	}
}

func walkStatements(stmts []ast.Statement, f func(ast.Statement)) {
	for _, st := range stmts {
		f(st)
		switch t := st.(type) {
		case *ast.IfStatement:
			walkStatements(t.Consequence.Statements, f)
			for _, a := range t.Another {
				walkStatements(a.Consequence.Statements, f)
			}
			if t.Alternative != nil {
				walkStatements(t.Alternative.Consequence.Statements, f)
			}
		case *ast.BlockStatement:
			walkStatements(t.Statements, f)
		}
	}
}

func (c *checker) culprit(itemName string) string {
	// the worst character class among the values that went into this item
	parts := strings.SplitN(strings.TrimPrefix(itemName, "Remote."), ":", 2)
	if len(parts) != 2 {
		return "?"
	}
	var vals []string
	switch parts[0] {
	case "EdgeDictionary":
		for _, d := range c.set.Dicts {
			if d.Name == parts[1] {
				for _, it := range d.Items {
					vals = append(vals, it.K, it.V)
				}
			}
		}
	case "Acl":
		for _, a := range c.set.Acls {
			if a.Name == parts[1] {
				for _, e := range a.Entries {
					vals = append(vals, e.Comment)
				}
			}
		}
	default:
		return nameClass(parts[1])
	}
	set := map[string]bool{}
	for _, v := range vals {
		for _, cl := range charClasses(v) {
			set[cl] = true
		}
	}
	var cls []string
	for cl := range set {
		cls = append(cls, cl)
	}
	sort.Strings(cls)
	if len(cls) == 0 {
		return "plain"
	}
	// localise: prefer the classes that break a double-quoted string / a line comment
	for _, pref := range []string{"quote", "newline", "cr"} {
		if set[pref] {
			return pref
		}
	}
	return cls[0]
}

func nameClass(n string) string {
	switch {
	case strings.Contains(n, " "):
		return "space"
	case strings.Contains(n, "."):
		return "dot"
	case strings.Contains(n, "-"):
		return "dash"
	}
	return "ident"
}
func maskClass(m string) string {
	switch m {
	case "":
		return "none"
	case "0":
		return "zero"
	}
	return "n"
}

func one(st []ast.Statement) ast.Statement {
	if len(st) != 1 {
		return nil
	}
	return st[0]
}

func firstLine(s string) string {
	if i := strings.IndexByte(s, '\n'); i >= 0 {
		return s[:i]
	}
	return s
}

func runSet(oc *fw.Outcome, s resSet) {
	b, _ := json.Marshal(s)
	fw.Journal(b)
	nt := false
	for _, d := range s.Dicts {
		for _, it := range d.Items {
			for _, cl := range append(charClasses(it.K), charClasses(it.V)...) {
				oc.Tag("dict-char:" + cl)
				nt = true
			}
		}
	}
	for _, a := range s.Acls {
		for _, e := range a.Entries {
			oc.Tag("acl-mask:" + maskClass(e.Subnet))
			for _, cl := range charClasses(e.Comment) {
				oc.Tag("acl-comment-char:" + cl)
				nt = true
			}
		}
	}
	for _, bk := range s.Backends {
		oc.Tag("backend-name:" + nameClass(bk.Name))
		if nameClass(bk.Name) != "ident" {
			nt = true
		}
	}
	for _, path := range []string{"terraform", "api", "remote"} {
		oc.Evals++
		c := &checker{oc: oc, set: s, path: path}
		var sn *snippet.Snippets
		var items []snippet.Item
		var err error
		embedTwice := ""
		p, msg, st := fw.Guard(func() {
			var f snippet.Fetcher
			if path == "terraform" {
				svcs, perr := terraform.ParseStdin(bytes.NewReader(planJSON(s)))
				if perr != nil {
					err = perr
					return
				}
				tf := terraform.NewTerraformFetcher(svcs)
				if s.PlanShape == "two-services" {
					// one fetcher for all services of the plan, pointed to each in turn (cmd/falco/main.go)
					tf.SetName("other")
					if osn, oerr := snippet.Fetch(tf); oerr == nil {
						osn.EmbedSnippets(false) // nolint:errcheck
					}
					tf.SetName("service")
				}
				f = tf
			} else if path == "remote" {
				// the real snippet/remote fetcher against a fake Fastly API
				saved := http.DefaultTransport
				http.DefaultTransport = &fakeAPI{s: s}
				defer func() { http.DefaultTransport = saved }()
				f = remote.NewFastlyApiFetcher("svc", "key", 20*time.Second)
			} else {
				f = &fakeFetcher{s: s}
			}
			sn, err = snippet.Fetch(f)
			if err != nil {
				return
			}
			items, err = sn.EmbedSnippets(false)
			if err == nil {
				// every resource is rendered once: embedding again (the simulator does it for every request)
				// gives the same items and leaves the scoped snippets as they are
				before, _ := json.Marshal(sn.ScopedSnippets)
				items2, err2 := sn.EmbedSnippets(false)
				after, _ := json.Marshal(sn.ScopedSnippets)
				b1, _ := json.Marshal(items)
				b2, _ := json.Marshal(items2)
				if err2 != nil || !bytes.Equal(before, after) || !bytes.Equal(b1, b2) {
					embedTwice = fmt.Sprintf("second EmbedSnippets call: err=%v, items equal=%v, scoped snippets %d -> %d bytes", err2, bytes.Equal(b1, b2), len(before), len(after))
				}
			}
		})
		if embedTwice != "" {
			c.viol("embed-twice/"+path, "embedding the snippets a second time changes the result: "+embedTwice, nil)
		}
		if p {
			c.viol(fw.PanicKey(st)+"/"+path, "generating VCL from the resources panicked: "+msg+"\n"+fw.TrimStack(st), nil)
			continue
		}
		if err != nil {
			c.viol("fetch-error/"+path+"/"+clip(firstLine(err.Error()), 40), "Fetch/EmbedSnippets returned an error for a valid resource set: "+firstLine(err.Error()), nil)
			continue
		}
		c.checkAll(sn, items)
	}
	if nt {
		oc.NonTrivial(b)
	}
}

// runCLI feeds the plan to the real `falco terraform` binary: a syntax error located in a generated
// (Remote.*) item is a violation; diagnostics about the user's own VCL are not.
func runCLI(oc *fw.Outcome, s resSet) {
	oc.Evals++
	cmd := exec.Command(fw.FalcoBin(), "terraform", "-vv")
	cmd.Stdin = bytes.NewReader(planJSON(s))
	cmd.Env = []string{"HOME=/nonexistent", "PATH=/usr/bin:/bin", "TERM=xterm", "NO_COLOR=1"}
	var out bytes.Buffer
	cmd.Stdout, cmd.Stderr = &out, &out
	done := make(chan error, 1)
	if err := cmd.Start(); err != nil {
		oc.Inconc = append(oc.Inconc, "cannot start falco: "+err.Error())
		return
	}
	go func() { done <- cmd.Wait() }()
	select {
	case <-done:
	case <-time.After(60 * time.Second):
		cmd.Process.Kill()
		<-done
		oc.Violate("cli/hang", "`falco terraform` did not finish within 60 s", map[string]any{"resources": s})
		return
	}
	txt := out.String()
	oc.Tag("cli-run")
	if strings.Contains(txt, "panic:") || strings.Contains(txt, "goroutine 1 [") {
		oc.Violate("cli/"+fw.PanicKey(txt), "`falco terraform` crashed on a generated plan", map[string]any{"resources": s, "output": clip(txt, 3000)})
		return
	}
	if m := regexp.MustCompile(`(?s)💥\s+([^\n]*)\nin (Remote\.[A-Za-z.]+):`).FindStringSubmatch(txt); m != nil {
		oc.Violate("cli/"+m[2]+"/noparse", "`falco terraform` reports a syntax error inside a generated item: "+m[1], map[string]any{"resources": s, "output": clip(txt, 3000)})
	}
}

func run(c fw.Case) fw.Outcome {
	var oc fw.Outcome
	var b batch
	json.Unmarshal(c.Data, &b)
	if c.Kind == "cli" {
		for _, s := range b.Sets {
			runCLI(&oc, s)
		}
		return oc
	}
	// snippet.Fetch prints progress to stdout, which is the worker's reply channel: silence it
	null, _ := os.OpenFile(os.DevNull, os.O_WRONLY, 0)
	saved := os.Stdout
	os.Stdout = null
	for _, s := range b.Sets {
		runSet(&oc, s)
	}
	os.Stdout = saved
	null.Close()
	if len(b.Sets) > 0 {
		oc.Sample = b.Sets[len(b.Sets)/2]
	}
	return oc
}
