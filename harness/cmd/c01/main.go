// C01 — lexing and parsing are total; diagnostics are located in the input.
package main

import (
	"encoding/base64"
	"encoding/json"
	"fmt"
	"os"
	"path/filepath"
	"regexp"
	"sort"
	"strings"
	"time"
	"unicode/utf8"

	"github.com/pkg/errors"
	"github.com/ysugimoto/falco/v2/lexer"
	"github.com/ysugimoto/falco/v2/parser"
	"github.com/ysugimoto/falco/v2/token"

	"verif/harness/fw"
	"verif/harness/seeds"
)

type input struct {
	Mut string `json:"m"`
	B64 string `json:"b"`
}
type batch struct {
	Inputs []input `json:"in"`
}

func main() {
	fw.Main(&fw.Prop{
		ID:    "C01",
		Level: "exploration",
		Rule: "inputs = seed programs (examples/**/*.vcl, /verif/corpus, hostile hand corpus) and their mutants (token-boundary truncation, " +
			"token delete/dup/swap/replace-by-class, splice, byte flips, hostile fragment insertion, depth bombs); each is lexed to EOF under the token monitor " +
			"(T1 type non-empty, T2 position designates the spelling, T3 strict advance, T4 token budget) and parsed through ParseVCL, ParseSnippetVCL and " +
			"ParseVCLOrSnippet under the EOF-budget tokenizer (T5) with result/err exclusivity and error-token-was-delivered checks; a tree without an error for an input whose braces or parentheses do not pair up (counted on falco's own token stream; inputs with pragma / control tokens exempt) is a violation (A6); " +
			"770 numeric literal forms (ten count spellings x {no unit, ms, s, m, h, d, y} x eleven contexts) must each be delivered as one INT / FLOAT / RTIME token whose literal is the text written. " +
			"non-trivial = reaches the parser with >=3 tokens and is not byte-identical to a seed; distinct by input hash",
		Assumptions: []string{
			"termination is restated as bounded progress: <=64 token pulls after the first EOF, <=len(runes)+2 tokens before it, and a per-batch wall-clock watchdog with isolated re-run",
			"tokens synthesised for long strings (inner STRING, CLOSE_LONG_STRING) are only required to lie inside the input, not to designate their spelling",
		},
		Gen:           gen,
		Run:           run,
		Timeout:       90 * time.Second,
		MinNonTrivial: 1000,
		CrashKey:      crashKey,
	})
}

// ---------------------------------------------------------------------------------------------
// generator

var tokRe = regexp.MustCompile(`(?s)"[^"\n]*"|\{"|"\}|[A-Za-z_][A-Za-z0-9_.:\-]*|[0-9][0-9a-fx.]*[a-z]*|/\*.*?\*/|//[^\n]*|#[^\n]*|[ \t\r]+|\n|==|!=|!~|&&|\|\||[-+*/%|&^]=|<<=|>>=|<=|>=|.`)

func splitTokens(s string) []string { return tokRe.FindAllString(s, -1) }

var classReps = []string{
	"acl", "backend", "director", "table", "sub", "penaltybox", "ratecounter", "import", "include",
	"set", "unset", "remove", "add", "call", "declare", "local", "error", "esi", "log", "restart", "return", "synthetic", "synthetic.base64",
	"if", "else", "elseif", "elsif", "switch", "case", "default", "break", "fallthrough", "goto", "pragma", "true", "false",
	"x", "req.http.Foo", "req.http.Foo:bar", "var.x", "STRING", "lbl:", "1", "0x1f", "1.5", "1e3", "0x1.8p3", "10s", "5ms", "9223372036854775808",
	`"s"`, `"%u{1F600}"`, `"%zz"`, `{"l"}`, `{X"l"X}`, "{", "}", "(", ")", "[", "]", ",", ";", ".", ":", "/", "+", "-", "!", "~", "!~", "%",
	"=", "==", "!=", "<", ">", "<=", ">=", "&&", "||", "+=", "-=", "*=", "/=", "%=", "|=", "&=", "^=", "<<=", ">>=", "rol=", "ror=", "&&=", "||=",
	"|", "&", "^", "*", "<<", ">>", "C!", "W!", "# c\n", "// c\n", "/* c */", "/*", "\n", "\x00", "\xff", "\r", "é", "@", "$", "\\", "`", "'",
}

var hostile = []string{
	"", " ", "\n", "\x00", "\xff\xfe", "\xef\xbb\xbf", "\r", " ",
	`"`, `"abc`, `{"`, `{"abc`, `{xyz"`, `{xyz"abc"xy}`, `/*`, `/* abc`, `//`, `#`,
	"|", "&", "^", "*", "<<", ">>", "<< =", "| |", "a | b", "sub f { set x = 1 | 2; }", "sub f { if (a & b) {} }",
	"pragma", "pragma foo", "pragma foo;", "pragma optional_param geoip_opt_in true;", "sub vcl_recv { pragma foo", "sub vcl_recv { pragma foo; }",
	"sub f { pragma", "pragma ; pragma", "C!", "W!", "C! W! C!", "sub f { C! }", "C", "W", "CW!",
	"sub", "sub f", "sub f {", "sub f { set", "sub f { set x", "sub f { set x =", "sub f { set x = 1", "sub f { set x = 1;", "sub f(", "sub f(STRING", "sub f(STRING var.x", "sub f(STRING var.x,",
	"acl", "acl a", "acl a {", `acl a { "1.2.3.4"`, `acl a { "1.2.3.4"/`, `acl a { "1.2.3.4"/8`, `acl a { !`, "acl a { 1; }",
	"backend", "backend b {", "backend b { .", "backend b { .host", "backend b { .host =", "backend b { .probe = {", "backend b { .probe = { .x = 1;",
	"director d", "director d random", "director d random {", "director d random { {", "director d random { { .backend", "director d random { .quorum = 50",
	"table t", "table t {", `table t { "a"`, `table t { "a":`, `table t { "a": "b"`, `table t { "a": "b",`, "table t STRING", "table t STRING {",
	"penaltybox", "penaltybox p", "penaltybox p {", "ratecounter r {", "import", "import x", "include", `include "x"`, "include x;",
	"sub f { if", "sub f { if (", "sub f { if (a", "sub f { if (a)", "sub f { if (a) {", "sub f { if (a) {} else", "sub f { if (a) {} else if", "sub f { if (a) {} elseif (",
	"sub f { switch", "sub f { switch (", "sub f { switch (a) {", "sub f { switch (a) { case", `sub f { switch (a) { case "1"`, `sub f { switch (a) { case "1":`, `sub f { switch (a) { case "1": break`,
	`sub f { switch (a) { case "1": } }`, `sub f { switch (a) { default: } }`, `sub f { switch (a) { case "1": case "2": } }`, `sub f { switch (a) { } }`, `sub f { switch (a) { case "1": break; case "2": } }`,
	`sub f { switch (a) { case "1": esi; } }`, `sub f { switch (a) { case "1": fallthrough; } }`, `sub f() {}`, `sub f() STRING { return "x"; }`, `sub f()`, `sub f( ) { }`, `call f();`, `sub f { call g(); }`,
	`sub f { switch (a) { default: default: } }`, `sub f { switch (a) { case "1": break; case "1": break; } }`, "sub f { switch (a) { case ~", "sub f { switch (a) { fallthrough; } }",
	"sub f { return", "sub f { return (", "sub f { return (a", "sub f { return a", "sub f { error", "sub f { error 1", "sub f { error 1 2", "sub f { error;", "sub f { error; }",
	"sub f { log", `sub f { log "a"`, "sub f { synthetic", "sub f { synthetic.base64", "sub f { esi", "sub f { restart", "sub f { goto", "sub f { goto x", "sub f { x:", "sub f { x", "sub f { x(", "sub f { x(1", "sub f { x(1,", "sub f { x(1,)",
	"sub f { declare", "sub f { declare local", "sub f { declare local var.x", "sub f { declare local var.x STRING", "sub f { call", "sub f { call g", "sub f { call g(", "sub f { call g(1",
	"sub f { unset", "sub f { remove", "sub f { add", "sub f { add x", "sub f { add x =", "sub f { {", "sub f { { {", "sub f { } }", "}", "{", ")", "(", ";", ";;;",
	"sub f { set x = if", "sub f { set x = if(", "sub f { set x = if(a", "sub f { set x = if(a,", "sub f { set x = if(a,b", "sub f { set x = if(a,b,", "sub f { set x = if(a,b,c", "sub f { set x = if(a,b,c)",
	"sub f { set x = -", "sub f { set x = !", "sub f { set x = (", "sub f { set x = ()", "sub f { set x = 1 +", "sub f { set x = 1 ==", "sub f { set x = a ~", "sub f { set x = 50%", "sub f { set x = %;",
	"sub f { set x = 99999999999999999999; }", "sub f { set x = 0x; }", "sub f { set x = 0x1.; }", "sub f { set x = 1e; }", "sub f { set x = 1e+; }", "sub f { set x = 1.2.3; }", "sub f { set x = 1s2; }", "sub f { set x = .5; }",
	"sub f { set x = 0xFFFFFFFFFFFFFFFF; }", "sub f { set x = -0x8000000000000000; }", "sub f { set x = 0x8000000000000000; }", "sub f { set x = 1E3; }", "sub f { set x = 1e3s; }", "sub f { set x = 0x1fs; }",
	`sub f { set x = "%"; }`, `sub f { set x = "%u"; }`, `sub f { set x = "%u{"; }`, `sub f { set x = "%u{}"; }`, `sub f { set x = "%u{1234567}"; }`, `sub f { set x = "%u{110000}"; }`, `sub f { set x = "%uD800"; }`, `sub f { set x = "%00abc"; }`, `sub f { set x = "%FF"; }`, `sub f { set x = "%4"; }`,
	"sub f { set x = now - 5m; }", "sub f { set x = a b c d e f g; }", "sub f { set x rol= 1; }", "sub f { set rol = 1; }", "sub f { set x rol 1; }", "rol=", "ror", "rol",
	"sub f { set req.http.a:b:c = 1; }", "sub f { unset req.http.*; }", "sub f { set a- = 1; }", "sub f { set a..b = 1; }", "sub f { set a. = 1; }", "sub f { default }", "default", "default:",
	"sub f {\n#FASTLY recv\n}", "sub f {\n# falco-ignore-next-line\n}", "sub f { set x = {\"a\"} {\"b\"}; }", "sub f { set x = {\"\n\n\n\"}\n; }", "sub f { set x = {\"é\"} y; }", "sub f { set x = {\"a\"}", "sub f { set x = {\"",
}

func depthBombs(n int) []string {
	rep := strings.Repeat
	return []string{
		"sub f { set x = " + rep("(", n),
		"sub f { set x = " + rep("(", n) + "1" + rep(")", n) + "; }",
		"sub f { set x = " + rep("!", n) + "a; }",
		"sub f { set x = " + rep("-", n) + "1; }",
		"sub f { set x = " + rep("if(", n),
		"sub f { set x = " + rep("if(a,", n) + "b" + rep(",c)", n) + "; }",
		"sub f { " + rep("{", n),
		"sub f { " + rep("{", n) + rep("}", n) + " }",
		"sub f { " + rep("if (a) {", n),
		"sub f { " + rep("if (a) {} else ", n) + "{} }",
		"sub f { set x = " + rep("f(", n) + rep(")", n) + "; }",
		"sub f { set x = " + rep("a ", n) + "; }",
		"sub f { set x = " + rep("a + ", n) + "a; }",
		"sub f { set x = " + rep("a && ", n) + "a; }",
		"sub f { " + rep("switch (a) { default: ", n),
		"sub f { set x = " + rep(`"a" `, n) + "; }",
		"backend b { .probe = " + rep("{ .probe = ", n),
		rep("sub f {} ", n),
		"sub f { " + rep("x: ", n) + "}",
		"sub f { set x = \"" + rep("a", n*8) + "\"; }",
		"sub f { set x = " + rep("a", n*8) + "; }",
		"sub f { set x = {\"" + rep("a", n*8),
		rep("/*", n),
		rep("#\n", n),
		rep("\n", n),
		rep("pragma ", n),
		rep("C!", n),
	}
}

type emitter struct {
	g     *fw.GenCtx
	buf   []input
	n     int
	limit int
}

func (e *emitter) add(mut string, s string) {
	if len(s) > 1<<20 {
		return
	}
	e.buf = append(e.buf, input{Mut: mut, B64: base64.StdEncoding.EncodeToString([]byte(s))})
	e.n++
	if len(e.buf) >= 128 {
		e.flush()
	}
}
func (e *emitter) flush() {
	if len(e.buf) > 0 {
		e.g.Emit("batch", batch{Inputs: e.buf})
		e.buf = nil
	}
}

func gen(g *fw.GenCtx) {
	e := &emitter{g: g}
	r := g.Rand
	sd := seeds.Load(g.Repo, g.Verif)
	// seed texts cut into pieces of manageable size (top-level declarations of large files)
	var pieces []string
	for _, s := range sd {
		e.add("seed", s.Text)
		for _, p := range seeds.Pieces(s.Text, 2500) {
			pieces = append(pieces, p)
		}
	}
	for _, h := range hostile {
		e.add("hostile", h)
	}
	// long strings that are valid by construction: plain and named delimiters, bodies around the 4096-byte
	// read buffer of the lexer and beyond; the mutator name carries the delimiter and the body length
	for _, delim := range []string{"", "xyz", "HTML", "a1"} {
		for _, n := range []int{0, 1, 100, 4000, 4080, 4090, 4096, 4100, 5000, 8192, 9000, 70000} {
			body := strings.Repeat("abcdefghi\n", n/10+1)[:n]
			e.add(fmt.Sprintf("longstr|%s|%d", delim, n), "sub f { set req.http.X = {"+delim+"\""+body+"\""+delim+"}; }\n")
			e.add(fmt.Sprintf("longstr|%s|%d", delim, n), "synthetic {"+delim+"\""+body+"\""+delim+"};\nset req.http.After = \"1\";\n")
		}
	}
	// numeric literal forms: every count spelling x every RTIME unit (and none) x contexts. The
	// mutator name carries the expected token: litform|<TYPE>|<literal>
	for _, cnt := range []string{"0", "1", "15", "300", "1.5", "0.25", "2.5", "10.0", "0.001", "86400"} {
		for _, unit := range []string{"", "ms", "s", "m", "h", "d", "y"} {
			typ := "INT"
			if strings.Contains(cnt, ".") {
				typ = "FLOAT"
			}
			if unit != "" {
				typ = "RTIME"
			}
			lit := cnt + unit
			for _, ctx := range []string{"sub f { set x = %s; }", "sub f { set x = %s ; }", "sub f {\n  set beresp.ttl = %s;\n}\n", "sub f { if (x > %s) { } }", "sub f { if (x > %s && y) { } }",
				"sub f { set x = g(%s); }", "sub f { set x = g(%s, 1); }", "sub f { set x = %s\n; }", "sub f { set x = %s/* c */; }", "sub f { set x -= %s;}", "sub f { set x = (%s); }"} {
				e.add("litform|"+typ+"|"+lit, fmt.Sprintf(ctx, lit))
			}
		}
	}
	for _, n := range []int{10, 100, 1000, g.Pick(3000, 10000)} {
		for _, b := range depthBombs(n) {
			e.add(fmt.Sprintf("bomb%d", n), b)
		}
	}
	sort.Strings(pieces)
	r.Shuffle(len(pieces), func(i, j int) { pieces[i], pieces[j] = pieces[j], pieces[i] })
	perPiece := g.Pick(600, 6000)
	maxPieces := g.Pick(400, 600)
	if len(pieces) > maxPieces {
		pieces = pieces[:maxPieces]
	}
	for pi, p := range pieces {
		toks := splitTokens(p)
		if len(toks) < 3 {
			continue
		}
		join := func(t []string) string { return strings.Join(t, "") }
		// every token-boundary truncation (bounded)
		step := 1
		if len(toks) > g.Pick(40, 400) {
			step = len(toks) / g.Pick(40, 400)
		}
		for i := 1; i < len(toks); i += step {
			e.add("trunc-token", join(toks[:i]))
		}
		for k := 0; k < perPiece; k++ {
			i := r.Intn(len(toks))
			switch k % 9 {
			case 0:
				e.add("trunc-byte", p[:r.Intn(len(p))])
			case 1:
				t := append(append([]string{}, toks[:i]...), toks[i+1:]...)
				e.add("delete", join(t))
			case 2:
				t := append(append(append([]string{}, toks[:i]...), toks[i]), toks[i:]...)
				e.add("dup", join(t))
			case 3:
				j := r.Intn(len(toks))
				t := append([]string{}, toks...)
				t[i], t[j] = t[j], t[i]
				e.add("swap", join(t))
			case 4, 5:
				t := append([]string{}, toks...)
				t[i] = classReps[r.Intn(len(classReps))]
				e.add("replace", join(t))
			case 6:
				q := pieces[r.Intn(len(pieces))]
				qt := splitTokens(q)
				if len(qt) == 0 {
					continue
				}
				j := r.Intn(len(qt))
				e.add("splice", join(toks[:i])+join(qt[j:]))
			case 7:
				b := []byte(p)
				for n := 1 + r.Intn(3); n > 0; n-- {
					b[r.Intn(len(b))] ^= 1 << uint(r.Intn(8))
				}
				e.add("bitflip", string(b))
			case 8:
				h := hostile[r.Intn(len(hostile))]
				if r.Intn(2) == 0 {
					h = classReps[r.Intn(len(classReps))]
				}
				t := append(append(append([]string{}, toks[:i]...), " "+h+" "), toks[i:]...)
				e.add("insert", join(t))
			}
		}
		_ = pi
	}
	// token soup from class representatives
	for k := 0; k < g.Pick(30000, 1000000); k++ {
		n := 1 + r.Intn(12)
		var sb strings.Builder
		if r.Intn(2) == 0 {
			sb.WriteString("sub f { ")
		}
		for ; n > 0; n-- {
			sb.WriteString(classReps[r.Intn(len(classReps))])
			sb.WriteByte(' ')
		}
		e.add("soup", sb.String())
	}
	e.flush()
}

// ---------------------------------------------------------------------------------------------
// monitors

type srcMap struct{ lines [][]rune }

func newSrcMap(b []byte) *srcMap {
	m := &srcMap{lines: [][]rune{{}}}
	for len(b) > 0 {
		r, sz := utf8.DecodeRune(b)
		b = b[sz:]
		if r == '\n' {
			m.lines = append(m.lines, []rune{})
			continue
		}
		m.lines[len(m.lines)-1] = append(m.lines[len(m.lines)-1], r)
	}
	return m
}

// at returns the text starting at 1-based (line, pos), crossing lines; ok=false if outside.
func (m *srcMap) at(line, pos, n int) (string, bool) {
	if line < 1 || line > len(m.lines) || pos < 1 || pos > len(m.lines[line-1])+1 {
		return "", false
	}
	var sb strings.Builder
	l, p := line-1, pos-1
	for n > 0 && l < len(m.lines) {
		if p < len(m.lines[l]) {
			sb.WriteRune(m.lines[l][p])
			p++
		} else {
			if l+1 < len(m.lines) {
				sb.WriteRune('\n')
			}
			l++
			p = 0
		}
		n--
	}
	return sb.String(), true
}

type violation struct{ key, what string }

func charClass(s string) string {
	if s == "" {
		return "empty"
	}
	r, _ := utf8.DecodeRuneInString(s)
	switch {
	case r == 0:
		return "nul"
	case r == utf8.RuneError:
		return "badutf8"
	case r > 127:
		return "nonascii"
	case r >= 'a' && r <= 'z' || r >= 'A' && r <= 'Z' || r == '_':
		return "letter"
	case r >= '0' && r <= '9':
		return "digit"
	case r == '"':
		return "quote"
	case r == '\n' || r == '\r' || r == ' ' || r == '\t':
		return "space"
	default:
		return "punct:" + string(r)
	}
}

// checkToken applies T1, T2 to one token. synthesized = inner tokens of a long string.
func checkToken(m *srcMap, t token.Token, synthesized bool) *violation {
	if t.Type == "" {
		txt, _ := m.at(max(t.Line, 1), max(t.Position, 1), 4)
		return &violation{"token:T1:empty-type", fmt.Sprintf("token with empty type (literal %q line %d pos %d), text there %q", t.Literal, t.Line, t.Position, txt)}
	}
	if t.Line < 1 || t.Position < 1 {
		return &violation{"token:T2:nonpositive/" + string(t.Type), fmt.Sprintf("token %s has line %d position %d", t.Type, t.Line, t.Position)}
	}
	if synthesized {
		if t.Line > len(m.lines)+1 {
			return &violation{"token:T2:outside/" + string(t.Type), fmt.Sprintf("synthesised token %s at line %d beyond input (%d lines)", t.Type, t.Line, len(m.lines))}
		}
		return nil
	}
	var want string
	switch t.Type {
	case token.EOF:
		// EOF designates no text; falco reports it one past the last rune (and, for a NUL byte, at
		// the NUL). Only its line is required to be inside the input (+1 for the line after a final LF).
		if t.Line > len(m.lines)+1 {
			return &violation{"token:T2:outside/EOF", fmt.Sprintf("EOF token at line %d pos %d outside the input (%d lines)", t.Line, t.Position, len(m.lines))}
		}
		return nil
	case token.LF:
		want = "\n"
	case token.STRING:
		want = `"`
	case token.ILLEGAL:
		// a string that is not closed before the end of the input is delivered as an ILLEGAL token whose
		// literal is the text behind the opening quote
		want = t.Literal
		if got, ok := m.at(t.Line, t.Position, 1); ok && got == `"` && !strings.HasPrefix(t.Literal, `"`) {
			want = `"`
		}
	case token.OPEN_LONG_STRING:
		want = "{" + t.Literal + `"`
	default:
		want = t.Literal
	}
	n := utf8.RuneCountInString(want)
	got, ok := m.at(t.Line, t.Position, n)
	if !ok {
		return &violation{"token:T2:outside/" + string(t.Type), fmt.Sprintf("token %s %q at line %d pos %d lies outside the input", t.Type, t.Literal, t.Line, t.Position)}
	}
	if got != want {
		return &violation{"token:T2:spelling/" + string(t.Type), fmt.Sprintf("token %s at line %d pos %d should designate %q but the input there reads %q", t.Type, t.Line, t.Position, want, got)}
	}
	return nil
}

const errSpin = "ErrParserSpinsOnEOF"

// monTok wraps the lexer as parser.Tokenizer and enforces the EOF budget (T5).
type monTok struct {
	l         *lexer.Lexer
	starts    map[[2]int]bool
	afterEOF  int
	pulls     int
	maxPulls  int
	nonEOF    int
}

func (m *monTok) note(t token.Token) token.Token {
	m.pulls++
	// T5: a NUL byte is delivered as an EOF token in mid-stream and real tokens may follow it, so the
	// budget counts consecutive EOF tokens: past the real end of input every pull yields EOF.
	if t.Type == token.EOF {
		m.afterEOF++
		if m.afterEOF > 65 {
			panic(errSpin)
		}
	} else {
		m.afterEOF = 0
		m.nonEOF++
	}
	if m.pulls > m.maxPulls {
		panic(errSpin)
	}
	m.starts[[2]int{t.Line, t.Position}] = true
	return t
}
func (m *monTok) NextToken() token.Token { return m.note(m.l.NextToken()) }
func (m *monTok) PeekToken() token.Token {
	// peeks do not consume; they are not charged against the budget
	t := m.l.PeekToken()
	m.starts[[2]int{t.Line, t.Position}] = true
	return t
}
func (m *monTok) RegisterCustomTokens(c map[string]token.TokenType) { m.l.RegisterCustomTokens(c) }

func run(c fw.Case) fw.Outcome {
	var oc fw.Outcome
	var b batch
	if err := json.Unmarshal(c.Data, &b); err != nil {
		oc.Inconc = append(oc.Inconc, "bad case")
		return oc
	}
	seedSet := seedHashes()
	for _, in := range b.Inputs {
		src, _ := base64.StdEncoding.DecodeString(in.B64)
		fw.Journal(src)
		oc.Evals++
		oc.Tag("mut:" + in.Mut)
		viols, ntok := checkOne(src, &oc)
		if strings.HasPrefix(in.Mut, "longstr|") {
			if v := checkLongStr(in.Mut, string(src)); v != nil {
				viols = append(viols, *v)
			} else {
				oc.Tag("longstr:ok")
			}
		}
		if strings.HasPrefix(in.Mut, "litform|") {
			if v := checkLitForm(in.Mut, string(src)); v != nil {
				viols = append(viols, *v)
			} else {
				oc.Tag("litform:" + strings.SplitN(in.Mut, "|", 3)[1] + ":one-token")
			}
		}
		for _, v := range viols {
			oc.Violate(v.key, v.what, map[string]any{"input_b64": in.B64, "input": clip(string(src), 600), "mutator": in.Mut})
		}
		if ntok >= 3 && !seedSet[fw.Hash64(src)] {
			oc.NonTrivial(src)
		}
	}
	return oc
}

var seedHashSet map[uint64]bool

func seedHashes() map[uint64]bool {
	if seedHashSet == nil {
		seedHashSet = map[uint64]bool{}
		for _, s := range seeds.Load(fw.Repo, fw.Verif) {
			seedHashSet[fw.Hash64([]byte(s.Text))] = true
		}
	}
	return seedHashSet
}

func clip(s string, n int) string {
	if len(s) > n {
		return s[:n] + "…"
	}
	return s
}

func msgClass(msg string) string {
	msg = regexp.MustCompile(`"[^"]*"`).ReplaceAllString(msg, `"…"`)
	msg = regexp.MustCompile(`for \S+`).ReplaceAllString(msg, "for …")
	msg = regexp.MustCompile(`token \S+ to`).ReplaceAllString(msg, "token … to")
	msg = regexp.MustCompile(`: .*$`).ReplaceAllString(msg, ": …")
	if len(msg) > 60 {
		msg = msg[:60]
	}
	return msg
}

func checkOne(src []byte, oc *fw.Outcome) (viols []violation, ntok int) {
	add := func(v *violation) {
		if v != nil {
			viols = append(viols, *v)
		}
	}
	m := newSrcMap(src)
	nrunes := utf8.RuneCount(src)
	// 1. lexer alone
	p, msg, st := fw.Guard(func() {
		l := lexer.NewFromString(string(src))
		var prev token.Token
		havePrev := false
		synth := 0
		for i := 0; ; i++ {
			t := l.NextToken()
			if i > nrunes+2 {
				add(&violation{"token:T4:budget", fmt.Sprintf("more than len(runes)+2=%d tokens before EOF", nrunes+2)})
				return
			}
			isSynth := synth > 0
			if synth > 0 {
				synth--
			}
			if v := checkToken(m, t, isSynth); v != nil {
				add(v)
				if t.Type == "" {
					// keep lexing: an empty type is not EOF
					continue
				}
			}
			if t.Type == token.OPEN_LONG_STRING {
				synth = 2
			}
			oc.Tag("tok:" + string(t.Type))
			if t.Type == token.EOF {
				// a NUL byte in the middle of the input is reported as EOF; the parser stops there
				return
			}
			ntok++
			if havePrev && !isSynth {
				if t.Line < prev.Line || (t.Line == prev.Line && t.Position <= prev.Position) {
					add(&violation{"token:T3:order/" + string(t.Type), fmt.Sprintf("token %s at (%d,%d) does not advance past previous %s at (%d,%d)", t.Type, t.Line, t.Position, prev.Type, prev.Line, prev.Position)})
				}
			}
			if !isSynth || t.Type == token.CLOSE_LONG_STRING {
				if !isSynth {
					prev, havePrev = t, true
				}
			}
		}
	})
	if p {
		add(&violation{fw.PanicKey(st) + "/lex", "lexer panicked: " + msg + "\n" + fw.TrimStack(st)})
	}
	// 2. the three parser entry points
	type entry struct {
		name string
		f    func(p *parser.Parser) (any, error)
	}
	entries := []entry{
		{"ParseVCL", func(p *parser.Parser) (any, error) {
			v, err := p.ParseVCL()
			if v == nil {
				return nil, err
			}
			return v, err
		}},
		{"ParseSnippetVCL", func(p *parser.Parser) (any, error) {
			v, err := p.ParseSnippetVCL()
			if err != nil && v == nil {
				return nil, err
			}
			return v, err
		}},
		{"ParseVCLOrSnippet", func(p *parser.Parser) (any, error) {
			v, err := p.ParseVCLOrSnippet()
			if v == nil {
				return nil, err
			}
			return v, err
		}},
	}
	for _, e := range entries {
		mt := &monTok{l: lexer.NewFromString(string(src)), starts: map[[2]int]bool{}, maxPulls: 4*nrunes + 200}
		var res any
		var err error
		p, msg, st := fw.Guard(func() {
			res, err = e.f(parser.New(mt))
		})
		if p {
			if msg == errSpin {
				add(&violation{"hang:" + spinFrame(st) + "/" + e.name, fmt.Sprintf("%s keeps pulling tokens at EOF (>64 consecutive EOF pulls or more than 4*len+200 pulls; %d pulls in all)\n%s", e.name, mt.pulls, fw.TrimStack(st))})
			} else {
				add(&violation{fw.PanicKey(st) + "/" + e.name, e.name + " panicked: " + msg + "\n" + fw.TrimStack(st)})
			}
			continue
		}
		if err != nil && res != nil {
			add(&violation{"result:both/" + e.name, e.name + " returned both a tree and an error"})
		}
		if err == nil {
			oc.Tag("parse-ok:" + e.name)
			// A6: a tree for an input whose braces or parentheses do not balance is not a tree of the input
			if what := unbalanced(src); what != "" {
				add(&violation{"accept:unbalanced-" + what + "/" + e.name, fmt.Sprintf("%s returned a tree and no error although the %s of the input do not balance", e.name, what)})
			}
			if unterminatedString(src, m) {
				add(&violation{"accept:unterminated-string/" + e.name, e.name + " returned a tree and no error although the input ends inside a double-quoted string"})
			}
			continue
		}
		pe, ok := errors.Cause(err).(*parser.ParseError)
		if !ok {
			add(&violation{"errtype:" + e.name, fmt.Sprintf("%s returned an error that is not a *parser.ParseError: %T %v", e.name, errors.Cause(err), err)})
			continue
		}
		oc.Tag("err:" + msgClass(pe.Message) + "@" + string(pe.Token.Type))
		// The error must be located: a non-empty token type and a (line, position) at which the
		// lexer delivered a token for this input (the parser moves the token of a postfix/infix
		// expression to the start of its left operand, so the spelling there may be another token's).
		if pe.Token.Type == "" || pe.Token.Line < 1 || pe.Token.Position < 1 {
			add(&violation{"errpos:" + msgClass(pe.Message), fmt.Sprintf("%s: parse error %q has no location: %s", e.name, pe.Message, pe.Token.String())})
		} else if !mt.starts[[2]int{pe.Token.Line, pe.Token.Position}] {
			add(&violation{"errpos:" + msgClass(pe.Message), fmt.Sprintf("%s: parse error %q carries token %s whose line/position is not the start of any token of the input", e.name, pe.Message, pe.Token.String())})
		}
	}
	return
}

func spinFrame(st string) string {
	// innermost parser frame below the monitor
	for _, line := range strings.Split(st, "\n") {
		line = strings.TrimSpace(line)
		if strings.HasPrefix(line, "github.com/ysugimoto/falco/v2/parser.") {
			if i := strings.LastIndex(line, "("); i > 0 {
				line = line[:i]
			}
			return strings.TrimPrefix(line, "github.com/ysugimoto/falco/v2/")
		}
	}
	return "?"
}

func crashKey(c fw.Case, kind, stderr string) string {
	if strings.Contains(stderr, "stack exceeds") || strings.Contains(stderr, "stack overflow") {
		return "fatal:stack-overflow/parser"
	}
	return ""
}

var _ = os.Stderr
var _ = filepath.Join

// unbalanced reports whether the token stream (up to the first EOF token, which is where the
// parser stops) has braces or parentheses that do not pair up.
func unbalanced(src []byte) string {
	l := lexer.NewFromString(string(src))
	brace, paren := 0, 0
	for i := 0; i < len(src)+4; i++ {
		t := l.NextToken()
		switch t.Type {
		case token.EOF:
			switch {
			case brace != 0:
				return "braces"
			case paren != 0:
				return "parentheses"
			}
			return ""
		case token.PRAGMA, token.FASTLY_CONTROL:
			// the parser skips the tokens of a pragma / control line without looking at them
			return ""
		case token.LEFT_BRACE:
			brace++
		case token.RIGHT_BRACE:
			brace--
		case token.LEFT_PAREN:
			paren++
		case token.RIGHT_PAREN:
			paren--
		}
		if brace < 0 {
			return "braces"
		}
		if paren < 0 {
			return "parentheses"
		}
	}
	return ""
}

// checkLitForm: the numeric literal of the input is delivered as ONE token of the expected type
// whose literal is the text written.
func checkLitForm(mut, src string) *violation {
	parts := strings.SplitN(mut, "|", 3)
	typ, lit := parts[1], parts[2]
	l := lexer.NewFromString(src)
	var seen []string
	for i := 0; i < len(src)+4; i++ {
		t := l.NextToken()
		if t.Type == token.EOF {
			break
		}
		if t.Literal == lit {
			if string(t.Type) == typ {
				return nil
			}
			return &violation{"litform:type/" + typ + "/" + unitOf(lit), fmt.Sprintf("literal %s is delivered as a %s token, expected %s", lit, t.Type, typ)}
		}
		seen = append(seen, fmt.Sprintf("%s(%s)", t.Type, t.Literal))
	}
	return &violation{"litform:split/" + typ + "/" + unitOf(lit), fmt.Sprintf("literal %s is not delivered as one token; tokens: %s", lit, clip(strings.Join(seen, " "), 300))}
}

func unitOf(lit string) string {
	u := strings.TrimLeft(lit, "0123456789.")
	if u == "" {
		u = "no-unit"
	}
	if strings.Contains(lit, ".") {
		u += "+fraction"
	}
	return u
}

// checkLongStr: a long string that is valid by construction parses (as a file or as a snippet), and the
// token that closes it carries the delimiter that was written.
func checkLongStr(mut, src string) *violation {
	parts := strings.SplitN(mut, "|", 3)
	delim := parts[1]
	l := lexer.NewFromString(src)
	closed := false
	for i := 0; i < len(src)+4; i++ {
		t := l.NextToken()
		if t.Type == token.EOF {
			break
		}
		if t.Type == token.CLOSE_LONG_STRING {
			closed = true
			if t.Literal != delim {
				return &violation{"longstr:close-delimiter/" + sizeClass(parts[2]), fmt.Sprintf("the CLOSE_LONG_STRING token of a %s-byte long string with delimiter %q carries the literal %q", parts[2], delim, t.Literal)}
			}
		}
	}
	if !closed {
		return &violation{"longstr:not-closed/" + sizeClass(parts[2]), fmt.Sprintf("no CLOSE_LONG_STRING token for a %s-byte long string with delimiter %q", parts[2], delim)}
	}
	var err error
	pn, msg, _ := fw.Guard(func() { _, err = parser.New(lexer.NewFromString(src)).ParseVCLOrSnippet() })
	if pn {
		return nil // reported by the panic monitor
	}
	_ = msg
	if err != nil {
		return &violation{"longstr:rejected/" + sizeClass(parts[2]), fmt.Sprintf("a %s-byte long string with delimiter %q, valid by construction, is rejected: %v", parts[2], delim, err)}
	}
	return nil
}

func sizeClass(n string) string {
	if len(n) >= 4 {
		return ">=1000-bytes"
	}
	return "<1000-bytes"
}

// unterminatedString: a STRING token (up to the first EOF token, pragma / control lines exempt) behind
// whose opening quote the source has no closing quote.
func unterminatedString(src []byte, m *srcMap) bool {
	l := lexer.NewFromString(string(src))
	var prev token.TokenType
	for i := 0; i < len(src)+4; i++ {
		t := l.NextToken()
		inner := prev == token.OPEN_LONG_STRING
		prev = t.Type
		switch t.Type {
		case token.EOF:
			return false
		case token.PRAGMA, token.FASTLY_CONTROL:
			return false
		case token.STRING:
			if inner {
				// the payload of a long string (its position is the quote of the opening delimiter): long strings are
				// judged by the longstr family
				continue
			}
			// rune position -> the rest of the input behind the token start
			if t.Line < 1 || t.Line > len(m.lines) || t.Position < 1 || t.Position > len(m.lines[t.Line-1]) || m.lines[t.Line-1][t.Position-1] != '"' {
				continue // the inner token of a long string, or a position the other monitors judge
			}
			rest := string(m.lines[t.Line-1][t.Position:])
			for _, ln := range m.lines[t.Line:] {
				rest += "\n" + string(ln)
			}
			if !strings.Contains(rest, "\"") {
				return true
			}
		}
	}
	return false
}
