// C16 — `falco fmt --write` never damages the file it rewrites (fault enumeration at the syscall boundary).
package main

import (
	"bytes"
	"encoding/base64"
	"encoding/json"
	"fmt"
	"os"
	"os/exec"
	"path/filepath"
	"regexp"
	"sort"
	"strconv"
	"strings"
	"syscall"
	"time"

	"verif/harness/fw"
	"verif/harness/seeds"
)

type inCase struct {
	Class   string `json:"class"`
	B64     string `json:"b64"`
	Mode    uint32 `json:"mode"`     // file mode
	DirMode uint32 `json:"dir_mode"` // directory mode (0 = 0755)
	Symlink bool   `json:"symlink,omitempty"`
	Second  string `json:"second_b64,omitempty"` // optional second file given on the same command line
	Errnos  int    `json:"errnos"`               // how many error codes per syscall
	Args    []string `json:"args,omitempty"`     // extra fmt arguments
}

func main() {
	fw.Main(&fw.Prop{
		ID:    "C16",
		Level: "fault_enumeration",
		Rule: "for every input class (parseable small/large, snippet, syntax error, empty, read-only file, read-only directory, symlink, two files with the second failing) the real " +
			"`falco fmt -w FILE` binary is run as an unprivileged user: fault-free, then once per enumerated fault point. Fault points are taken from a fault-free `strace -f` trace of the same " +
			"invocation: every (syscall, occurrence) after the first open of FILE that touches FILE, its descriptors or its directory, each injected with error codes (strace -e inject=…:error=) and with " +
			"SIGKILL at syscall entry (crash point); plus RLIMIT_FSIZE at {0,1,half,size-1,size} and a size-limited tmpfs. After each run FILE must equal its original bytes or the exact stdout of `falco fmt FILE`, " +
			"and must equal the original bytes whenever the command failed or was killed. A faulted run counts only if its own trace shows the injection landed on the intended syscall. " +
			"Fault-free families: `fmt -w F1 F2 F3` for all 216 ordered triples of six file kinds (each file held to its own {original, `falco fmt Fi` output}, refused files byte-identical, exit status non-zero exactly when a file is refused) and thirteen further content classes (CRLF, CR, no final newline, BOM, invalid UTF-8, 70 kB line, 2 MB, 4 MB) compared byte for byte with `falco fmt FILE` (also: same length but different content, fewer / more lines after formatting, percent signs); persistent faults (every call of rename / fsync / chmod / unlink / link / truncate fails, so a retry fails as well); histories (a run on a large file is killed at fsync, rename, chmod or close, the file gets new shorter content, a fault-free `fmt -w` must yield exactly the formatted new content whatever the killed run left in the directory). " +
			"non-trivial = a run in which a fault or crash was actually injected on a syscall touching the target (or a limit that the write exceeded); distinct by (input class, syscall, occurrence, fault)",
		Assumptions: []string{
			"exhaustive only over the (syscall, occurrence) points of the recorded traces of these inputs, not over all crash points",
			"the oracle compares with `falco fmt FILE` (no -w) of the same binary and configuration",
			"power-loss durability (fsync ordering) is not observable at this boundary and is not claimed",
		},
		Gen:           gen,
		Run:           run,
		Timeout:       600 * time.Second,
		MinNonTrivial: 20,
		Workers:       8,
		Exhaustive:    true,
	})
}

func b64(s string) string { return base64.StdEncoding.EncodeToString([]byte(s)) }

func gen(g *fw.GenCtx) {
	small := "sub vcl_recv {\nset req.http.A=\"b\";\n   if(req.http.B){ unset req.http.B; }\n}\n"
	var big strings.Builder
	for i := 0; big.Len() < g.Pick(200<<10, 1<<20); i++ {
		fmt.Fprintf(&big, "sub s%d {\nset req.http.A%d=\"%s\";\n}\n", i, i, strings.Repeat("x", 200))
	}
	n := g.Pick(2, 3)
	cases := []inCase{
		{Class: "parseable-small", B64: b64(small), Mode: 0o644, Errnos: n},
		{Class: "parseable-large", B64: b64(big.String()), Mode: 0o644, Errnos: 1},
		{Class: "already-formatted", B64: b64("sub vcl_recv {\n  set req.http.A = \"b\";\n}\n"), Mode: 0o644, Errnos: n},
		{Class: "snippet", B64: b64("set req.http.A=\"b\";\nunset req.http.C;\n"), Mode: 0o644, Errnos: n},
		{Class: "syntax-error", B64: b64("sub vcl_recv {\nset req.http.A=\"b\"\n}\n"), Mode: 0o644, Errnos: n},
		{Class: "formatter-hostile", B64: b64("sub vcl_recv {\nerror;\n}\n"), Mode: 0o644, Errnos: n},
		{Class: "empty", B64: b64(""), Mode: 0o644, Errnos: n},
		{Class: "comment-only", B64: b64("# just a comment\n"), Mode: 0o644, Errnos: n},
		{Class: "readonly-file", B64: b64(small), Mode: 0o444, Errnos: 1},
		{Class: "readonly-dir", B64: b64(small), Mode: 0o644, DirMode: 0o555, Errnos: 1},
		{Class: "symlink", B64: b64(small), Mode: 0o644, Symlink: true, Errnos: n},
		{Class: "two-files-second-fails", B64: b64(small), Mode: 0o644, Second: b64("sub vcl_recv {\nset req.http.A=\"b\"\n}\n"), Errnos: 1},
		{Class: "two-files-both-ok", B64: b64(small), Mode: 0o644, Second: b64("sub vcl_deliver {\nset resp.http.A=\"b\";\n}\n"), Errnos: 1},
	}
	if !g.Quick() {
		// more inputs: example files of several sizes and option variants
		sd := seeds.Load(g.Repo, g.Verif)
		r := g.Rand
		r.Shuffle(len(sd), func(i, j int) { sd[i], sd[j] = sd[j], sd[i] })
		k := 0
		for _, s := range sd {
			if len(s.Text) < 200 || len(s.Text) > 60000 {
				continue
			}
			cases = append(cases, inCase{Class: "example:" + filepath.Base(s.Name), B64: b64(s.Text), Mode: 0o644, Errnos: 2})
			k++
			if k >= 24 {
				break
			}
		}
	}
	for _, c := range cases {
		g.Emit("input", c)
	}
	genMulti(g)
}

// ---------------------------------------------------------------------------------------------

const nobody = 65534

type runResult struct {
	exit     int
	killed   bool
	signal   string
	stdout   []byte
	stderr   []byte
	timedOut bool
}

func falcoBin() string { return fw.FalcoBin() }

func runCmd(dir string, asNobody bool, argv []string, timeout time.Duration) runResult {
	cmd := exec.Command(argv[0], argv[1:]...)
	cmd.Dir = dir
	cmd.Env = []string{"HOME=" + dir, "PATH=/usr/bin:/bin", "GOMAXPROCS=1", "NO_COLOR=1", "TERM=xterm"}
	var so, se bytes.Buffer
	cmd.Stdout, cmd.Stderr = &so, &se
	cmd.SysProcAttr = &syscall.SysProcAttr{Setpgid: true}
	if asNobody {
		cmd.SysProcAttr.Credential = &syscall.Credential{Uid: nobody, Gid: nobody}
	}
	var rr runResult
	if err := cmd.Start(); err != nil {
		rr.exit = -1
		rr.stderr = []byte(err.Error())
		return rr
	}
	done := make(chan error, 1)
	go func() { done <- cmd.Wait() }()
	select {
	case <-done:
	case <-time.After(timeout):
		syscall.Kill(-cmd.Process.Pid, syscall.SIGKILL)
		<-done
		rr.timedOut = true
	}
	rr.stdout, rr.stderr = so.Bytes(), se.Bytes()
	if ws, ok := cmd.ProcessState.Sys().(syscall.WaitStatus); ok {
		if ws.Signaled() {
			rr.killed = true
			rr.signal = ws.Signal().String()
			rr.exit = 128 + int(ws.Signal())
		} else {
			rr.exit = ws.ExitStatus()
		}
	}
	return rr
}

type workspace struct {
	root   string // owned by root, holds trace logs
	dir    string // working directory handed to falco (owned by nobody)
	file   string // path given on the command line
	real   string // where the bytes live (differs for symlink)
	second string
	c      inCase
	orig   []byte
	orig2  []byte
	tmpfs  bool
}

func newWorkspace(c inCase, tmpfsSize int) (*workspace, error) {
	base := filepath.Join(fw.Verif, ".build", "tmp")
	os.MkdirAll(base, 0o755)
	os.Chmod(filepath.Join(fw.Verif, ".build"), 0o755)
	os.Chmod(base, 0o755)
	root, err := os.MkdirTemp(base, "c16-")
	if err != nil {
		return nil, err
	}
	os.Chmod(root, 0o755)
	w := &workspace{root: root, dir: filepath.Join(root, "w"), c: c}
	os.Mkdir(w.dir, 0o755)
	if tmpfsSize > 0 {
		if err := syscall.Mount("tmpfs", w.dir, "tmpfs", 0, fmt.Sprintf("size=%d,mode=0755", tmpfsSize)); err != nil {
			os.RemoveAll(root)
			return nil, fmt.Errorf("tmpfs: %w", err)
		}
		w.tmpfs = true
	}
	w.orig, _ = base64.StdEncoding.DecodeString(c.B64)
	w.file = filepath.Join(w.dir, "main.vcl")
	w.real = w.file
	if c.Symlink {
		os.Mkdir(filepath.Join(w.dir, "real"), 0o755)
		w.real = filepath.Join(w.dir, "real", "target.vcl")
		os.Symlink(w.real, w.file)
		os.Lchown(w.file, nobody, nobody)
		os.Chown(filepath.Join(w.dir, "real"), nobody, nobody)
	}
	if err := os.WriteFile(w.real, w.orig, 0o644); err != nil {
		w.cleanup()
		return nil, err
	}
	os.Chown(w.real, nobody, nobody)
	os.Chmod(w.real, os.FileMode(c.Mode))
	if c.Second != "" {
		w.orig2, _ = base64.StdEncoding.DecodeString(c.Second)
		w.second = filepath.Join(w.dir, "second.vcl")
		os.WriteFile(w.second, w.orig2, 0o644)
		os.Chown(w.second, nobody, nobody)
	}
	os.Chown(w.dir, nobody, nobody)
	if c.DirMode != 0 {
		os.Chmod(w.dir, os.FileMode(c.DirMode))
	}
	return w, nil
}

func (w *workspace) cleanup() {
	if w.tmpfs {
		syscall.Unmount(w.dir, syscall.MNT_DETACH)
	}
	os.Chmod(w.dir, 0o755)
	os.RemoveAll(w.root)
}

func (w *workspace) fmtArgs(write bool) []string {
	a := []string{falcoBin(), "fmt"}
	if write {
		a = append(a, "-w")
	}
	a = append(a, w.c.Args...)
	a = append(a, w.file)
	if w.second != "" {
		a = append(a, w.second)
	}
	return a
}

// ---------------------------------------------------------------------------------------------
// trace parsing

var traceSet = "openat,open,creat,write,pwrite64,writev,fsync,fdatasync,close,rename,renameat,renameat2,fchmod,fchmodat,chmod,fchown,unlinkat,unlink,ftruncate,truncate,link,linkat,symlinkat"

type tline struct {
	tid     string
	name    string
	args    string
	ret     string
	inj     bool
	raw     string
	nth     int  // index (1-based) of this syscall name on this tid
	touches bool // touches the target dir / its fds
	what    string
}

var retRe = regexp.MustCompile(`\)\s+= (.*)$`)
var lineRe = regexp.MustCompile(`^(\d+)\s+([a-z0-9_]+)\((.*)$`)

func parseTrace(path, dir string) ([]tline, string) {
	b, err := os.ReadFile(path)
	if err != nil {
		return nil, ""
	}
	var out []tline
	counts := map[string]int{}
	fds := map[string]string{} // fd -> path
	killedLine := ""
	for _, ln := range strings.Split(string(b), "\n") {
		if strings.Contains(ln, "+++ killed by") {
			killedLine = ln
		}
		m := lineRe.FindStringSubmatch(ln)
		if m == nil {
			continue
		}
		if strings.Contains(ln, "resumed>") {
			continue
		}
		t := tline{tid: m[1], name: m[2], args: m[3], raw: ln}
		counts[t.tid+"/"+t.name]++
		t.nth = counts[t.tid+"/"+t.name]
		t.inj = strings.Contains(ln, "(INJECTED)")
		if m := retRe.FindStringSubmatch(ln); m != nil {
			t.ret = strings.TrimSpace(m[1])
		}
		// path arguments
		touch := false
		for _, q := range regexp.MustCompile(`"([^"]*)"`).FindAllStringSubmatch(t.args, -1) {
			if strings.HasPrefix(q[1], dir) {
				touch = true
				t.what = strings.TrimPrefix(q[1], dir)
			}
		}
		firstArg := t.args
		if i := strings.IndexAny(firstArg, ",) <"); i >= 0 {
			firstArg = firstArg[:i]
		}
		switch t.name {
		case "openat", "open", "creat":
			if touch {
				if fd, err := strconv.Atoi(strings.Fields(t.ret + " x")[0]); err == nil && fd >= 0 {
					fds[strconv.Itoa(fd)] = t.what
				}
			}
		case "write", "pwrite64", "writev", "fsync", "fdatasync", "close", "fchmod", "fchown", "ftruncate":
			if p, ok := fds[firstArg]; ok {
				touch = true
				t.what = "fd:" + p
				if t.name == "close" {
					delete(fds, firstArg)
				}
			}
		}
		t.touches = touch
		out = append(out, t)
	}
	return out, killedLine
}

type point struct {
	tid  string
	name string
	nth  int
	what string
	ord  int // ordinal among touching syscalls
}

func faultPoints(tr []tline, fileRel string) []point {
	var pts []point
	started := false
	ord := 0
	for _, t := range tr {
		if !t.touches {
			continue
		}
		if !started {
			// the first syscall that touches the directory is falco reading FILE; faults start after it
			started = true
		}
		// read-only opens/closes of the source are pre-formatting; they are still enumerated (a fault there must leave the file intact too)
		ord++
		pts = append(pts, point{tid: t.tid, name: t.name, nth: t.nth, what: t.what, ord: ord})
	}
	return pts
}

var errnosFor = map[string][]string{
	"openat": {"EACCES", "ENOSPC", "EMFILE"}, "open": {"EACCES", "ENOSPC", "EMFILE"}, "creat": {"EACCES", "ENOSPC", "EMFILE"},
	"write": {"ENOSPC", "EIO", "EINTR"}, "pwrite64": {"ENOSPC", "EIO"}, "writev": {"ENOSPC", "EIO"},
	"fsync": {"EIO", "ENOSPC"}, "fdatasync": {"EIO", "ENOSPC"}, "close": {"EIO", "ENOSPC"},
	"rename": {"EACCES", "EXDEV", "ENOSPC"}, "renameat": {"EACCES", "EXDEV", "ENOSPC"}, "renameat2": {"EACCES", "EXDEV", "ENOSPC"},
	"fchmod": {"EPERM", "EIO"}, "fchmodat": {"EPERM", "EIO"}, "chmod": {"EPERM", "EIO"}, "fchown": {"EPERM"},
	"unlinkat": {"EACCES", "EIO"}, "unlink": {"EACCES", "EIO"}, "ftruncate": {"EIO", "ENOSPC"}, "truncate": {"EIO"},
	"link": {"EACCES"}, "linkat": {"EACCES"}, "symlinkat": {"EACCES"},
}

// ---------------------------------------------------------------------------------------------

func run(c fw.Case) fw.Outcome {
	var oc fw.Outcome
	if c.Kind == "multi" {
		var mc mcase
		json.Unmarshal(c.Data, &mc)
		runMultiCase(&oc, mc)
		return oc
	}
	var ic inCase
	json.Unmarshal(c.Data, &ic)

	// reference: `falco fmt FILE` (no -w), fault-free
	ws, err := newWorkspace(ic, 0)
	if err != nil {
		oc.Inconc = append(oc.Inconc, "workspace: "+err.Error())
		return oc
	}
	orig := ws.orig
	ref := runCmd(ws.dir, true, ws.fmtArgs(false), 60*time.Second)
	ws.cleanup()
	oc.Evals++
	refOK := ref.exit == 0 && !ref.killed
	var formatted, formatted2 []byte
	if refOK {
		formatted = ref.stdout
		if ic.Second != "" {
			// stdout holds both files; get each separately
			for i, b := range []string{ic.B64, ic.Second} {
				c1 := ic
				c1.B64, c1.Second = b, ""
				w1, err := newWorkspace(c1, 0)
				if err != nil {
					continue
				}
				r1 := runCmd(w1.dir, true, w1.fmtArgs(false), 60*time.Second)
				w1.cleanup()
				if i == 0 {
					formatted = r1.stdout
				} else {
					formatted2 = r1.stdout
				}
			}
		}
	} else if ic.Second != "" {
		c1 := ic
		c1.Second = ""
		w1, err := newWorkspace(c1, 0)
		if err == nil {
			r1 := runCmd(w1.dir, true, w1.fmtArgs(false), 60*time.Second)
			w1.cleanup()
			if r1.exit == 0 {
				formatted = r1.stdout
			}
		}
	}
	oc.Tag(fmt.Sprintf("ref:%s/exit=%d", classOf(ic.Class), ref.exit))

	judge := func(ws *workspace, rr runResult, faultKey string, injected bool, extra map[string]any) {
		after, rerr := os.ReadFile(ws.real)
		// A run that reports failure (or dies from a write fault such as SIGXFSZ) must leave the
		// original bytes. A SIGKILL injected at a crash point is not a reported failure: the process
		// may die after the new content is completely in place, so only atomicity (original or
		// formatted, nothing else) is required there.
		// With two files on the command line a failure is that of one file (falco stops at the first
		// failing one); which one is not observable from the exit status, so there each file is held
		// to atomicity, and a file that cannot be formatted at all must keep its original bytes.
		failed := (rr.exit != 0 || rr.killed) && !strings.HasSuffix(faultKey, "/kill") && ws.second == ""
		detail := map[string]any{"class": ic.Class, "fault": faultKey, "exit": rr.exit, "signal": rr.signal, "stderr": clip(string(rr.stderr), 600),
			"original_len": len(ws.orig), "after_len": len(after), "formatted_len": len(formatted), "after_head": clip(string(after), 200)}
		for k, v := range extra {
			detail[k] = v
		}
		if rerr != nil {
			oc.Violate(classOf(ic.Class)+"/"+faultKey+"/file-gone", "after the run FILE cannot be read: "+rerr.Error(), detail)
			return
		}
		isOrig := bytes.Equal(after, ws.orig)
		isFmt := formatted != nil && bytes.Equal(after, formatted)
		switch {
		case failed && !isOrig:
			oc.Violate(classOf(ic.Class)+"/"+faultKey+"/failed-but-changed", fmt.Sprintf("the command failed (exit %d %s) but FILE is no longer its original bytes (%d bytes before, %d after)", rr.exit, rr.signal, len(ws.orig), len(after)), detail)
		case !isOrig && !isFmt:
			oc.Violate(classOf(ic.Class)+"/"+faultKey+"/neither", fmt.Sprintf("FILE is neither its original bytes nor the output of `falco fmt FILE` (%d bytes before, %d after, %d formatted)", len(ws.orig), len(after), len(formatted)), detail)
		}
		if ws.second != "" {
			after2, _ := os.ReadFile(ws.second)
			is2o := bytes.Equal(after2, ws.orig2)
			is2f := formatted2 != nil && bytes.Equal(after2, formatted2)
			if !is2o && !is2f {
				oc.Violate(classOf(ic.Class)+"/"+faultKey+"/second-neither", "the second FILE is neither original nor formatted", detail)
			}
		}
		if isFmt && !isOrig {
			oc.Tag("outcome:formatted")
		} else {
			oc.Tag("outcome:original")
		}
		if injected {
			oc.NonTrivialS(ic.Class + "|" + faultKey)
		}
	}

	// 1. fault-free -w
	ws, err = newWorkspace(ic, 0)
	if err != nil {
		oc.Inconc = append(oc.Inconc, "workspace: "+err.Error())
		return oc
	}
	rr := runCmd(ws.dir, true, ws.fmtArgs(true), 60*time.Second)
	oc.Evals++
	judge(ws, rr, "no-fault", false, nil)
	if refOK != (rr.exit == 0) {
		oc.Tag("note:exit-differs-between-fmt-and-fmt-w")
	}
	ws.cleanup()

	// 2. fault-free trace to enumerate the points
	ws, err = newWorkspace(ic, 0)
	if err != nil {
		return oc
	}
	tlog := filepath.Join(ws.root, "trace.log")
	os.WriteFile(tlog, nil, 0o666)
	os.Chmod(tlog, 0o666)
	straceBase := []string{"strace", "-f", "-o", tlog, "-e", "trace=" + traceSet}
	rr = runCmd(ws.dir, true, append(append([]string{}, straceBase...), ws.fmtArgs(true)...), 120*time.Second)
	tr, _ := parseTrace(tlog, ws.dir)
	pts := faultPoints(tr, "main.vcl")
	ws.cleanup()
	oc.Evals++
	if len(tr) == 0 {
		oc.Inconc = append(oc.Inconc, "strace produced no trace for class "+ic.Class+": "+clip(string(rr.stderr), 200))
		return oc
	}
	oc.TagN("points:"+classOf(ic.Class), int64(len(pts)))
	var sampleTrace []string
	for _, p := range pts {
		sampleTrace = append(sampleTrace, fmt.Sprintf("%s#%d %s", p.name, p.nth, p.what))
	}
	oc.Sample = map[string]any{"class": ic.Class, "fault_points": clipList(sampleTrace, 40)}

	// 3. one run per (point, fault)
	maxPts := 400
	if len(pts) > maxPts {
		// keep first, last and an even sample of the middle (large files: many identical writes)
		var keep []point
		step := float64(len(pts)) / float64(maxPts)
		for i := 0; i < maxPts; i++ {
			keep = append(keep, pts[int(float64(i)*step)])
		}
		keep = append(keep, pts[len(pts)-1])
		pts = keep
	}
	candidates := map[int][]int{}
	for _, p := range pts {
		candidates[p.ord] = []int{p.nth}
	}
	// more fault-free traces: the per-thread index of a point varies with goroutine placement
	for extra := 0; extra < 3; extra++ {
		ws, err = newWorkspace(ic, 0)
		if err != nil {
			break
		}
		tlog = filepath.Join(ws.root, "trace.log")
		os.WriteFile(tlog, nil, 0o666)
		os.Chmod(tlog, 0o666)
		runCmd(ws.dir, true, append(append([]string{}, straceBase...)[:0:0], append([]string{"strace", "-f", "-o", tlog, "-e", "trace=" + traceSet}, ws.fmtArgs(true)...)...), 120*time.Second)
		trx, _ := parseTrace(tlog, ws.dir)
		ws.cleanup()
		oc.Evals++
		ord := 0
		for _, t := range trx {
			if !t.touches {
				continue
			}
			ord++
			if c, ok := candidates[ord]; ok {
				seen := false
				for _, x := range c {
					seen = seen || x == t.nth
				}
				if !seen {
					candidates[ord] = append(c, t.nth)
				}
			}
		}
	}
	for _, p := range pts {
		faults := []string{"kill"}
		en := errnosFor[p.name]
		if len(en) > ic.Errnos {
			en = en[:ic.Errnos]
		}
		for _, e := range en {
			faults = append(faults, e)
		}
		for _, f := range faults {
			fkey := fmt.Sprintf("%s@%s#%d/%s", p.name, sanitizeWhat(p.what), p.ord, f)
			landed := false
			// strace counts `when=N` per thread and the Go scheduler moves the goroutine between
			// threads from run to run, so N is a guess: candidates are the per-thread indices seen for
			// this point in any trace of this input so far; a run counts only if its own trace shows
			// the fault on the intended syscall, otherwise it is retried with what that trace taught.
			cands := candidates[p.ord]
			for attempt := 0; attempt < 10 && !landed; attempt++ {
				n := cands[attempt%len(cands)]
				inj := fmt.Sprintf("inject=%s:when=%d", p.name, n)
				if f == "kill" {
					inj += ":signal=KILL"
				} else {
					inj += ":error=" + f
				}
				ws, err = newWorkspace(ic, 0)
				if err != nil {
					break
				}
				tlog = filepath.Join(ws.root, "trace.log")
				os.WriteFile(tlog, nil, 0o666)
				os.Chmod(tlog, 0o666)
				argv := append([]string{"strace", "-f", "-o", tlog, "-e", "trace=" + traceSet, "-e", inj}, ws.fmtArgs(true)...)
				rr = runCmd(ws.dir, true, argv, 120*time.Second)
				oc.Evals++
				tr2, killedLine := parseTrace(tlog, ws.dir)
				// learn this run's thread-local index of the point
				ord := 0
				for _, t := range tr2 {
					if t.touches {
						ord++
						if ord == p.ord && t.name == p.name {
							seen := false
							for _, c := range cands {
								seen = seen || c == t.nth
							}
							if !seen {
								cands = append([]int{t.nth}, cands...)
								candidates[p.ord] = cands
							}
						}
					}
				}
				// verify from the run's own trace that the fault landed on the intended syscall
				ord = 0
				for _, t := range tr2 {
					if !t.touches {
						continue
					}
					ord++
					if ord != p.ord || t.name != p.name {
						continue
					}
					if f == "kill" {
						landed = killedLine != "" && (t.ret == "?" || strings.Contains(t.raw, "<unfinished")) && ord == countTouching(tr2)
					} else {
						landed = t.inj
					}
				}
				if !landed && os.Getenv("C16_DEBUG") != "" {
					b, _ := os.ReadFile(tlog)
					var tl []string
					for _, t := range tr2 {
						if t.touches {
							tl = append(tl, fmt.Sprintf("%s#%d ret=%q inj=%v", t.name, t.nth, t.ret, t.inj))
						}
					}
					fmt.Fprintf(os.Stderr, "NOT LANDED %s %s attempt %d want ord=%d name=%s cands=%v killed=%q touching=%v\n%s\n", ic.Class, inj, attempt, p.ord, p.name, cands, killedLine, tl, clip(string(b[max(0, len(b)-600):]), 600))
				}
				if landed {
					judge(ws, rr, fkey, true, map[string]any{"inject": inj})
					oc.Tag("fault:" + p.name + "/" + f)
					oc.TagN("attempts-needed", int64(attempt+1))
				}
				ws.cleanup()
			}
			if !landed {
				oc.Tag("not-landed:" + p.name + "/" + f)
				oc.Inconc = append(oc.Inconc, fmt.Sprintf("fault %s on class %s did not land on the intended syscall in 10 attempts", fkey, ic.Class))
			}
		}
	}

	// 4. RLIMIT_FSIZE family
	sizes := map[int]bool{0: true, 1: true, len(orig) / 2: true}
	if len(formatted) > 0 {
		sizes[len(formatted)/2] = true
		sizes[len(formatted)-1] = true
		sizes[len(formatted)] = true
	}
	var szs []int
	for s := range sizes {
		if s >= 0 {
			szs = append(szs, s)
		}
	}
	sort.Ints(szs)
	for _, s := range szs {
		ws, err = newWorkspace(ic, 0)
		if err != nil {
			break
		}
		argv := append([]string{"prlimit", fmt.Sprintf("--fsize=%d", s)}, ws.fmtArgs(true)...)
		rr = runCmd(ws.dir, true, argv, 60*time.Second)
		oc.Evals++
		exceeded := len(formatted) > s && refOK
		judge(ws, rr, fmt.Sprintf("fsize=%s", sizeClass(s, len(formatted))), exceeded, map[string]any{"fsize": s})
		oc.Tag("fault:fsize")
		ws.cleanup()
	}

	// 5. tmpfs with limited space (real ENOSPC from the kernel); skipped if mount is not permitted
	if !ic.Symlink && ic.DirMode == 0 {
		page := 4096
		need := (len(orig)+page-1)/page*page + page // room for the original (+1 page for the directory)
		for _, extra := range []int{0, page, (len(formatted)/page + 1) * page / 2} {
			ws, err = newWorkspace(ic, need+extra)
			if err != nil {
				if strings.Contains(err.Error(), "tmpfs") {
					oc.Tag("tmpfs:unavailable")
				}
				break
			}
			rr = runCmd(ws.dir, true, ws.fmtArgs(true), 60*time.Second)
			oc.Evals++
			enospc := strings.Contains(string(rr.stderr), "no space")
			judge(ws, rr, fmt.Sprintf("tmpfs+%dpages", extra/page), enospc, map[string]any{"tmpfs_size": need + extra})
			if enospc {
				oc.Tag("fault:tmpfs-enospc")
			} else {
				oc.Tag("tmpfs:fit")
			}
			ws.cleanup()
		}
	}
	return oc
}

func countTouching(tr []tline) int {
	n := 0
	for _, t := range tr {
		if t.touches {
			n++
		}
	}
	return n
}

func classOf(c string) string {
	if strings.HasPrefix(c, "example:") {
		return "example"
	}
	return c
}

func sizeClass(s, n int) string {
	switch {
	case s == 0:
		return "0"
	case s == 1:
		return "1"
	case s == n:
		return "exact"
	case s == n-1:
		return "size-1"
	default:
		return "partial"
	}
}

func sanitizeWhat(s string) string {
	// temp file names are random: keep only the stable part
	s = regexp.MustCompile(`[0-9]{4,}`).ReplaceAllString(s, "N")
	s = regexp.MustCompile(`\.tmp[^/]*|tmp[^/]*$`).ReplaceAllString(s, "TMP")
	if len(s) > 40 {
		s = s[:40]
	}
	return s
}

func clip(s string, n int) string {
	if len(s) > n {
		return s[:n] + "…"
	}
	return s
}
func clipList(s []string, n int) []string {
	if len(s) > n {
		return append(s[:n:n], fmt.Sprintf("… %d more", len(s)-n))
	}
	return s
}
