package main

// Fault-free families next to the fault enumeration:
//   multi   - `falco fmt -w F1 F2 F3` for every ordered triple of file kinds (formattable, already
//             formatted, syntax error, statement-only snippet, CRLF): every file is held to its OWN
//             {original, `falco fmt Fi` output}; a file that `falco fmt Fi` refuses must keep its bytes;
//             a command line with a refused file must exit non-zero, one without must exit zero with
//             every file formatted;
//   content - single files of further content classes (CRLF throughout, one CRLF in a comment, no
//             final newline, byte-order mark, invalid UTF-8, 2 MB and 4 MB inputs): after a successful
//             `fmt -w` the file is exactly what `falco fmt FILE` prints; the non -w run leaves it alone.

import (
	"bytes"
	"fmt"
	"os"
	"path/filepath"
	"strings"
	"time"

	"verif/harness/fw"
)

type mcase struct {
	Fam  string `json:"fam"`
	From int    `json:"from"`
	To   int    `json:"to"`
}

type fileKind struct {
	name, text string
}

func multiKinds() []fileKind {
	return []fileKind{
		{"ok", "sub vcl_recv {\nset req.http.A=\"b\";\n   if(req.http.B){ unset req.http.B; }\n}\n"},
		{"ok2", "sub vcl_deliver {\n set   resp.http.A = \"d\" ;\n}\n"},
		{"formatted", "sub vcl_fetch {\n  set beresp.ttl = 1h;\n}\n"},
		{"syntax-error", "sub vcl_recv {\nset req.http.A=\"b\"\n}\n"},
		{"snippet", "set req.http.Snippet=\"1\";\nunset req.http.C;\n"},
		{"crlf", "sub vcl_hit {\r\nset req.http.A=\"h\";\r\n}\r\n"},
	}
}

func genMulti(g *fw.GenCtx) {
	n := len(multiKinds())
	total := n * n * n
	step := 36
	for a := 0; a < total; a += step {
		g.Emit("multi", mcase{Fam: "multi", From: a, To: min(a+step, total)})
	}
	g.Emit("multi", mcase{Fam: "content"})
	g.Emit("multi", mcase{Fam: "persistent"})
	g.Emit("multi", mcase{Fam: "history"})
}

type mws struct {
	root, dir string
}

func newMws() (*mws, error) {
	base := filepath.Join(fw.Verif, ".build", "tmp")
	os.MkdirAll(base, 0o755)
	os.Chmod(filepath.Join(fw.Verif, ".build"), 0o755)
	os.Chmod(base, 0o755)
	root, err := os.MkdirTemp(base, "c16m-")
	if err != nil {
		return nil, err
	}
	os.Chmod(root, 0o755)
	w := &mws{root: root, dir: filepath.Join(root, "w")}
	os.Mkdir(w.dir, 0o755)
	os.Chown(w.dir, nobody, nobody)
	return w, nil
}

func (w *mws) put(name string, data []byte) string {
	p := filepath.Join(w.dir, name)
	os.WriteFile(p, data, 0o644)
	os.Chown(p, nobody, nobody)
	return p
}

// fmtOne returns what `falco fmt FILE` prints for the bytes, and whether it succeeded.
func fmtOne(data []byte) ([]byte, bool, error) {
	w, err := newMws()
	if err != nil {
		return nil, false, err
	}
	defer os.RemoveAll(w.root)
	p := w.put("one.vcl", data)
	rr := runCmd(w.dir, true, []string{falcoBin(), "fmt", p}, 120*time.Second)
	after, _ := os.ReadFile(p)
	if !bytes.Equal(after, data) {
		return nil, false, fmt.Errorf("`falco fmt FILE` (without -w) modified FILE")
	}
	return rr.stdout, rr.exit == 0 && !rr.killed, nil
}

func runMultiCase(oc *fw.Outcome, mc mcase) {
	switch mc.Fam {
	case "content":
		runContent(oc)
		return
	case "persistent":
		runPersistent(oc)
		return
	case "history":
		runHistory(oc)
		return
	}
	kinds := multiKinds()
	n := len(kinds)
	ref := map[string][]byte{}
	refOK := map[string]bool{}
	for _, k := range kinds {
		out, ok, err := fmtOne([]byte(k.text))
		oc.Evals++
		if err != nil {
			oc.Violate("multi/no-w-modifies/"+k.name, err.Error(), map[string]any{"kind": k.name})
			return
		}
		ref[k.name], refOK[k.name] = out, ok
	}
	for idx := mc.From; idx < mc.To; idx++ {
		tri := []fileKind{kinds[idx%n], kinds[(idx/n)%n], kinds[(idx/(n*n))%n]}
		w, err := newMws()
		if err != nil {
			oc.Inconc = append(oc.Inconc, "workspace: "+err.Error())
			return
		}
		var paths []string
		var shape []string
		for i, k := range tri {
			paths = append(paths, w.put(fmt.Sprintf("f%d_%s.vcl", i+1, k.name), []byte(k.text)))
			shape = append(shape, k.name)
		}
		sh := strings.Join(shape, ",")
		rr := runCmd(w.dir, true, append([]string{falcoBin(), "fmt", "-w"}, paths...), 120*time.Second)
		oc.Evals++
		anyRefused := false
		firstRefused := -1
		for i, k := range tri {
			if !refOK[k.name] {
				anyRefused = true
				if firstRefused < 0 {
					firstRefused = i
				}
			}
		}
		detail := map[string]any{"files": shape, "exit": rr.exit, "stderr": clip(string(rr.stderr), 800), "stdout": clip(string(rr.stdout), 400)}
		pos := []string{"first", "middle", "last"}
		for i, k := range tri {
			after, _ := os.ReadFile(paths[i])
			isOrig := bytes.Equal(after, []byte(k.text))
			isFmt := refOK[k.name] && bytes.Equal(after, ref[k.name])
			d2 := map[string]any{"file_index": i, "kind": k.name, "after_head": clip(string(after), 300)}
			for a, b := range detail {
				d2[a] = b
			}
			switch {
			case !refOK[k.name] && !isOrig:
				oc.Violate("multi/refused-file-changed/"+k.name+"/"+pos[i], fmt.Sprintf("`falco fmt` refuses this file (%s) but after `fmt -w %s` it no longer holds its original bytes", k.name, sh), d2)
			case !isOrig && !isFmt:
				oc.Violate("multi/neither/"+k.name+"/"+pos[i], fmt.Sprintf("after `fmt -w %s` file %d (%s) is neither its original bytes nor what `falco fmt` prints for it", sh, i+1, k.name), d2)
			case !anyRefused && !isFmt:
				oc.Violate("multi/not-formatted/"+k.name+"/"+pos[i], fmt.Sprintf("`fmt -w %s` succeeded for every file but file %d (%s) was not rewritten", sh, i+1, k.name), d2)
			}
		}
		switch {
		case anyRefused && rr.exit == 0:
			oc.Violate("multi/exit-zero-with-refused-file/"+pos[firstRefused], fmt.Sprintf("`fmt -w %s` exits 0 although file %d cannot be formatted", sh, firstRefused+1), detail)
		case !anyRefused && rr.exit != 0:
			oc.Violate("multi/exit-nonzero-without-failure", fmt.Sprintf("`fmt -w %s` exits %d although every file can be formatted", sh, rr.exit), detail)
		}
		os.RemoveAll(w.root)
		if anyRefused {
			oc.Tag("multi:first-refused-file=" + pos[firstRefused])
		} else {
			oc.Tag("multi:all-formattable")
		}
		oc.NonTrivialS("multi|" + sh)
	}
}

func runContent(oc *fw.Outcome) {
	var big2, big4 strings.Builder
	for i := 0; big2.Len() < 2<<20; i++ {
		fmt.Fprintf(&big2, "sub generated_subroutine_%d {\nset req.http.A%d=\"%s\";\n}\n", i, i, strings.Repeat("y", 120))
	}
	for i := 0; big4.Len() < 4<<20; i++ {
		fmt.Fprintf(&big4, "sub g%d {\n  set req.http.A%d = \"%s\";\n}\n\n", i, i, strings.Repeat("z", 300))
	}
	classes := []fileKind{
		// the formatted text has exactly the length of the source, and differs from it
		{"same-size-different-content", "sub vcl_recv {\n    set req.http.A=\"1\";\n}\n"},
		{"same-size-different-content-large", strings.Repeat("sub vcl_recv {\n    set req.http.A=\"1\";\n}\n", 300)},
		{"percent-signs", "sub vcl_recv {\n    set req.http.X   =   \"a%20b\";\n  # 100% of the traffic %s %d %v\n}\n"},
		{"fewer-lines-after-format", "sub vcl_recv {\n  set req.http.A = \"1\";\n}\n\n\n\nsub vcl_deliver {\n}\n"},
		{"more-lines-after-format", "sub vcl_recv { set req.http.A = \"1\"; if (req.http.B) { esi; } }\n"},
		{"crlf", "sub vcl_recv {\r\nset req.http.A=\"a\";\r\nif(req.http.B){\r\nunset req.http.B;\r\n}\r\n}\r\n"},
		{"crlf-in-comment-only", "sub vcl_recv {\n# a comment line\r\nset req.http.A=\"a\";\n}\n"},
		{"crlf-block-comment", "sub vcl_recv {\n/* a\r\n b */\nset req.http.A=\"a\";\n}\n"},
		{"cr-only", "sub vcl_recv {\rset req.http.A=\"a\";\r}\r"},
		{"no-final-newline", "sub vcl_recv {\nset req.http.A=\"a\";\n}"},
		{"final-comment-no-newline", "sub vcl_recv {\nset req.http.A=\"a\";\n}\n# end"},
		{"bom", "\xef\xbb\xbfsub vcl_recv {\nset req.http.A=\"a\";\n}\n"},
		{"invalid-utf8-in-string", "sub vcl_recv {\nset req.http.A=\"a\xff\xfeb\";\n}\n"},
		{"invalid-utf8-in-comment", "sub vcl_recv {\n# \xff\xfe\nset req.http.A=\"a\";\n}\n"},
		{"tabs-and-trailing-blanks", "sub vcl_recv {\t\n\tset req.http.A=\"a\";   \n}\t\n\n\n"},
		{"long-line", "sub vcl_recv {\nset req.http.A=\"" + strings.Repeat("q", 70000) + "\";\n}\n"},
		{"2MB", big2.String()},
		{"4MB", big4.String()},
	}
	for _, k := range classes {
		data := []byte(k.text)
		out, ok, err := fmtOne(data)
		oc.Evals++
		if err != nil {
			oc.Violate("content/no-w-modifies/"+k.name, err.Error(), map[string]any{"class": k.name})
			continue
		}
		w, err := newMws()
		if err != nil {
			oc.Inconc = append(oc.Inconc, "workspace: "+err.Error())
			return
		}
		p := w.put("main.vcl", data)
		rr := runCmd(w.dir, true, []string{falcoBin(), "fmt", "-w", p}, 180*time.Second)
		oc.Evals++
		after, _ := os.ReadFile(p)
		os.RemoveAll(w.root)
		detail := map[string]any{"class": k.name, "exit": rr.exit, "stderr": clip(string(rr.stderr), 600), "original_len": len(data), "after_len": len(after), "formatted_len": len(out), "ref_ok": ok}
		isOrig := bytes.Equal(after, data)
		isFmt := ok && bytes.Equal(after, out)
		failed := rr.exit != 0 || rr.killed
		switch {
		case failed && !isOrig:
			oc.Violate("content/failed-but-changed/"+k.name, "`fmt -w` failed but FILE no longer holds its original bytes", detail)
		case !isOrig && !isFmt:
			// where does it differ
			at := 0
			for at < len(after) && at < len(out) && after[at] == out[at] {
				at++
			}
			detail["first_difference_at"] = at
			oc.Violate("content/neither/"+k.name, fmt.Sprintf("after `fmt -w` FILE (%d bytes) is neither its original bytes (%d) nor what `falco fmt FILE` prints (%d bytes; first difference at byte %d)", len(after), len(data), len(out), at), detail)
		case !failed && ok && !isFmt:
			oc.Violate("content/reported-success-not-written/"+k.name, "`fmt -w` exits 0 but FILE was not rewritten with the formatted text", detail)
		case !failed && !ok:
			oc.Violate("content/exit-zero-on-refused-file/"+k.name, "`falco fmt FILE` fails for this content but `fmt -w FILE` exits 0", detail)
		}
		oc.Tag(fmt.Sprintf("content:%s/fmt-ok=%v/w-exit=%d", k.name, ok, rr.exit))
		oc.NonTrivialS("content|" + k.name)
	}
}

// straceAll runs `falco fmt -w FILE` under strace with a fault on EVERY call of the syscalls (no
// occurrence filter: a retry of the failed call fails as well). landed reports whether the trace shows
// the injection.
func straceAll(w *mws, p string, inject string) (runResult, bool) {
	tlog := filepath.Join(w.root, "trace.log")
	os.WriteFile(tlog, nil, 0o666)
	os.Chmod(tlog, 0o666)
	argv := []string{"strace", "-f", "-o", tlog, "-e", "trace=" + traceSet, "-e", "inject=" + inject, falcoBin(), "fmt", "-w", p}
	rr := runCmd(w.dir, true, argv, 120*time.Second)
	tr, _ := os.ReadFile(tlog)
	landed := bytes.Contains(tr, []byte("(INJECTED)")) || bytes.Contains(tr, []byte("+++ killed by SIGKILL"))
	return rr, landed
}

func runPersistent(oc *fw.Outcome) {
	src := []byte("sub vcl_recv {\nset req.http.A=\"b\";\n   if(req.http.B){ unset req.http.B; }\n}\n")
	out, ok, err := fmtOne(src)
	oc.Evals++
	if err != nil || !ok {
		oc.Inconc = append(oc.Inconc, fmt.Sprintf("persistent: reference run failed: %v", err))
		return
	}
	classes := map[string]string{
		"rename":   "rename,renameat,renameat2",
		"sync":     "fsync,fdatasync",
		"chmod":    "fchmod,fchmodat,chmod",
		"unlink":   "unlink,unlinkat",
		"link":     "link,linkat,symlinkat",
		"truncate": "ftruncate,truncate",
	}
	for name, calls := range classes {
		for _, errno := range []string{"EIO", "EACCES", "ENOSPC"} {
			w, err := newMws()
			if err != nil {
				oc.Inconc = append(oc.Inconc, "workspace: "+err.Error())
				return
			}
			p := w.put("main.vcl", src)
			rr, landed := straceAll(w, p, calls+":error="+errno)
			oc.Evals++
			after, rerr := os.ReadFile(p)
			// debris next to the file is not judged; the file itself is
			os.RemoveAll(w.root)
			key := "persistent/" + name + "/" + errno
			detail := map[string]any{"syscalls": calls, "errno": errno, "exit": rr.exit, "stderr": clip(string(rr.stderr), 600), "after_len": len(after), "landed": landed}
			if !landed {
				oc.Tag("persistent:not-reached/" + name)
				continue
			}
			isOrig := rerr == nil && bytes.Equal(after, src)
			isFmt := rerr == nil && bytes.Equal(after, out)
			failed := rr.exit != 0 || rr.killed
			switch {
			case rerr != nil:
				oc.Violate(key+"/file-gone", "with every "+name+" call failing ("+errno+") FILE does not exist any more after `fmt -w`: "+rerr.Error(), detail)
			case failed && !isOrig:
				oc.Violate(key+"/failed-but-changed", "with every "+name+" call failing ("+errno+") the command failed but FILE no longer holds its original bytes", detail)
			case !isOrig && !isFmt:
				oc.Violate(key+"/neither", "with every "+name+" call failing ("+errno+") FILE is neither its original bytes nor the formatted text", detail)
			}
			oc.Tag("persistent:landed/" + name)
			oc.NonTrivialS(key)
		}
	}
}

// runHistory: a run that is killed while it writes (SIGKILL at fsync / at rename / at the first write
// of the new content) leaves whatever it leaves; the file then gets NEW, shorter content and a
// fault-free `fmt -w` must produce exactly what `falco fmt FILE` prints for the new content.
func runHistory(oc *fw.Outcome) {
	var big strings.Builder
	for i := 0; i < 40; i++ {
		fmt.Fprintf(&big, "sub s%d {\nset req.http.A%d=\"%s\";\n}\n", i, i, strings.Repeat("x", 60))
	}
	short := []byte("sub vcl_recv {\nset req.http.A=\"b\";\n}\n")
	outShort, ok, err := fmtOne(short)
	oc.Evals++
	if err != nil || !ok {
		oc.Inconc = append(oc.Inconc, fmt.Sprintf("history: reference run failed: %v", err))
		return
	}
	for _, kill := range []string{"fsync,fdatasync", "rename,renameat,renameat2", "fchmod,fchmodat,chmod", "close"} {
		w, err := newMws()
		if err != nil {
			oc.Inconc = append(oc.Inconc, "workspace: "+err.Error())
			return
		}
		p := w.put("main.vcl", []byte(big.String()))
		_, landed := straceAll(w, p, kill+":signal=KILL")
		oc.Evals++
		if !landed {
			oc.Tag("history:kill-not-reached/" + kill)
		}
		// what the killed run left in the directory stays; the file gets new content
		os.WriteFile(p, short, 0o644)
		os.Chown(p, nobody, nobody)
		rr := runCmd(w.dir, true, []string{falcoBin(), "fmt", "-w", p}, 120*time.Second)
		oc.Evals++
		after, _ := os.ReadFile(p)
		entries, _ := os.ReadDir(w.dir)
		var names []string
		for _, e := range entries {
			names = append(names, e.Name())
		}
		os.RemoveAll(w.root)
		key := "history/after-kill-at-" + strings.SplitN(kill, ",", 2)[0]
		detail := map[string]any{"killed_at": kill, "exit": rr.exit, "stderr": clip(string(rr.stderr), 600), "after_len": len(after), "formatted_len": len(outShort), "directory": names, "after_head": clip(string(after), 300)}
		switch {
		case rr.exit != 0 && !bytes.Equal(after, short):
			oc.Violate(key+"/failed-but-changed", "the run after a killed run failed and FILE no longer holds its bytes", detail)
		case rr.exit == 0 && !bytes.Equal(after, outShort):
			oc.Violate(key+"/neither", fmt.Sprintf("the run after a killed run reports success but FILE (%d bytes) is not what `falco fmt FILE` prints (%d bytes)", len(after), len(outShort)), detail)
		}
		if landed {
			oc.Tag("history:" + key)
			oc.NonTrivialS(key)
		}
	}
}
