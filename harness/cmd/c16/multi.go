package main

// Fault-free families next to the fault enumeration:
//   multi   - `falco fmt -w F1 F2 F3` for every ordered triple of file kinds (formattable, already
//             formatted, syntax error, statement-only snippet, CRLF): every file is held to its OWN
//             {original, `falco fmt Fi` output}; a file that `falco fmt Fi` refuses must keep its bytes;
//             a command line with a refused file must exit non-zero, one without must exit zero with
//             every file formatted;
//   content - single files of further content classes (CRLF throughout, one CRLF in a comment, no
//             final newline, byte-order mark, invalid UTF-8, 2 MB and 4 MB inputs): after a successful
//             `fmt -w` the file is exactly what `falco fmt FILE` prints; the non -w run leaves it alone.

import (
	"bytes"
	"fmt"
	"os"
	"path/filepath"
	"strings"
	"time"

	"verif/harness/fw"
)

type mcase struct {
	Fam  string `json:"fam"`
	From int    `json:"from"`
	To   int    `json:"to"`
}

type fileKind struct {
	name, text string
}

func multiKinds() []fileKind {
	return []fileKind{
		{"ok", "sub vcl_recv {\nset req.http.A=\"b\";\n   if(req.http.B){ unset req.http.B; }\n}\n"},
		{"ok2", "sub vcl_deliver {\n set   resp.http.A = \"d\" ;\n}\n"},
		{"formatted", "sub vcl_fetch {\n  set beresp.ttl = 1h;\n}\n"},
		{"syntax-error", "sub vcl_recv {\nset req.http.A=\"b\"\n}\n"},
		{"snippet", "set req.http.Snippet=\"1\";\nunset req.http.C;\n"},
		{"crlf", "sub vcl_hit {\r\nset req.http.A=\"h\";\r\n}\r\n"},
	}
}

func genMulti(g *fw.GenCtx) {
	n := len(multiKinds())
	total := n * n * n
	step := 36
	for a := 0; a < total; a += step {
		g.Emit("multi", mcase{Fam: "multi", From: a, To: min(a+step, total)})
	}
	g.Emit("multi", mcase{Fam: "content"})
}

type mws struct {
	root, dir string
}

func newMws() (*mws, error) {
	base := filepath.Join(fw.Verif, ".build", "tmp")
	os.MkdirAll(base, 0o755)
	os.Chmod(filepath.Join(fw.Verif, ".build"), 0o755)
	os.Chmod(base, 0o755)
	root, err := os.MkdirTemp(base, "c16m-")
	if err != nil {
		return nil, err
	}
	os.Chmod(root, 0o755)
	w := &mws{root: root, dir: filepath.Join(root, "w")}
	os.Mkdir(w.dir, 0o755)
	os.Chown(w.dir, nobody, nobody)
	return w, nil
}

func (w *mws) put(name string, data []byte) string {
	p := filepath.Join(w.dir, name)
	os.WriteFile(p, data, 0o644)
	os.Chown(p, nobody, nobody)
	return p
}

// fmtOne returns what `falco fmt FILE` prints for the bytes, and whether it succeeded.
func fmtOne(data []byte) ([]byte, bool, error) {
	w, err := newMws()
	if err != nil {
		return nil, false, err
	}
	defer os.RemoveAll(w.root)
	p := w.put("one.vcl", data)
	rr := runCmd(w.dir, true, []string{falcoBin(), "fmt", p}, 120*time.Second)
	after, _ := os.ReadFile(p)
	if !bytes.Equal(after, data) {
		return nil, false, fmt.Errorf("`falco fmt FILE` (without -w) modified FILE")
	}
	return rr.stdout, rr.exit == 0 && !rr.killed, nil
}

func runMultiCase(oc *fw.Outcome, mc mcase) {
	if mc.Fam == "content" {
		runContent(oc)
		return
	}
	kinds := multiKinds()
	n := len(kinds)
	ref := map[string][]byte{}
	refOK := map[string]bool{}
	for _, k := range kinds {
		out, ok, err := fmtOne([]byte(k.text))
		oc.Evals++
		if err != nil {
			oc.Violate("multi/no-w-modifies/"+k.name, err.Error(), map[string]any{"kind": k.name})
			return
		}
		ref[k.name], refOK[k.name] = out, ok
	}
	for idx := mc.From; idx < mc.To; idx++ {
		tri := []fileKind{kinds[idx%n], kinds[(idx/n)%n], kinds[(idx/(n*n))%n]}
		w, err := newMws()
		if err != nil {
			oc.Inconc = append(oc.Inconc, "workspace: "+err.Error())
			return
		}
		var paths []string
		var shape []string
		for i, k := range tri {
			paths = append(paths, w.put(fmt.Sprintf("f%d_%s.vcl", i+1, k.name), []byte(k.text)))
			shape = append(shape, k.name)
		}
		sh := strings.Join(shape, ",")
		rr := runCmd(w.dir, true, append([]string{falcoBin(), "fmt", "-w"}, paths...), 120*time.Second)
		oc.Evals++
		anyRefused := false
		firstRefused := -1
		for i, k := range tri {
			if !refOK[k.name] {
				anyRefused = true
				if firstRefused < 0 {
					firstRefused = i
				}
			}
		}
		detail := map[string]any{"files": shape, "exit": rr.exit, "stderr": clip(string(rr.stderr), 800), "stdout": clip(string(rr.stdout), 400)}
		pos := []string{"first", "middle", "last"}
		for i, k := range tri {
			after, _ := os.ReadFile(paths[i])
			isOrig := bytes.Equal(after, []byte(k.text))
			isFmt := refOK[k.name] && bytes.Equal(after, ref[k.name])
			d2 := map[string]any{"file_index": i, "kind": k.name, "after_head": clip(string(after), 300)}
			for a, b := range detail {
				d2[a] = b
			}
			switch {
			case !refOK[k.name] && !isOrig:
				oc.Violate("multi/refused-file-changed/"+k.name+"/"+pos[i], fmt.Sprintf("`falco fmt` refuses this file (%s) but after `fmt -w %s` it no longer holds its original bytes", k.name, sh), d2)
			case !isOrig && !isFmt:
				oc.Violate("multi/neither/"+k.name+"/"+pos[i], fmt.Sprintf("after `fmt -w %s` file %d (%s) is neither its original bytes nor what `falco fmt` prints for it", sh, i+1, k.name), d2)
			case !anyRefused && !isFmt:
				oc.Violate("multi/not-formatted/"+k.name+"/"+pos[i], fmt.Sprintf("`fmt -w %s` succeeded for every file but file %d (%s) was not rewritten", sh, i+1, k.name), d2)
			}
		}
		switch {
		case anyRefused && rr.exit == 0:
			oc.Violate("multi/exit-zero-with-refused-file/"+pos[firstRefused], fmt.Sprintf("`fmt -w %s` exits 0 although file %d cannot be formatted", sh, firstRefused+1), detail)
		case !anyRefused && rr.exit != 0:
			oc.Violate("multi/exit-nonzero-without-failure", fmt.Sprintf("`fmt -w %s` exits %d although every file can be formatted", sh, rr.exit), detail)
		}
		os.RemoveAll(w.root)
		if anyRefused {
			oc.Tag("multi:first-refused-file=" + pos[firstRefused])
		} else {
			oc.Tag("multi:all-formattable")
		}
		oc.NonTrivialS("multi|" + sh)
	}
}

func runContent(oc *fw.Outcome) {
	var big2, big4 strings.Builder
	for i := 0; big2.Len() < 2<<20; i++ {
		fmt.Fprintf(&big2, "sub generated_subroutine_%d {\nset req.http.A%d=\"%s\";\n}\n", i, i, strings.Repeat("y", 120))
	}
	for i := 0; big4.Len() < 4<<20; i++ {
		fmt.Fprintf(&big4, "sub g%d {\n  set req.http.A%d = \"%s\";\n}\n\n", i, i, strings.Repeat("z", 300))
	}
	classes := []fileKind{
		{"crlf", "sub vcl_recv {\r\nset req.http.A=\"a\";\r\nif(req.http.B){\r\nunset req.http.B;\r\n}\r\n}\r\n"},
		{"crlf-in-comment-only", "sub vcl_recv {\n# a comment line\r\nset req.http.A=\"a\";\n}\n"},
		{"crlf-block-comment", "sub vcl_recv {\n/* a\r\n b */\nset req.http.A=\"a\";\n}\n"},
		{"cr-only", "sub vcl_recv {\rset req.http.A=\"a\";\r}\r"},
		{"no-final-newline", "sub vcl_recv {\nset req.http.A=\"a\";\n}"},
		{"final-comment-no-newline", "sub vcl_recv {\nset req.http.A=\"a\";\n}\n# end"},
		{"bom", "\xef\xbb\xbfsub vcl_recv {\nset req.http.A=\"a\";\n}\n"},
		{"invalid-utf8-in-string", "sub vcl_recv {\nset req.http.A=\"a\xff\xfeb\";\n}\n"},
		{"invalid-utf8-in-comment", "sub vcl_recv {\n# \xff\xfe\nset req.http.A=\"a\";\n}\n"},
		{"tabs-and-trailing-blanks", "sub vcl_recv {\t\n\tset req.http.A=\"a\";   \n}\t\n\n\n"},
		{"long-line", "sub vcl_recv {\nset req.http.A=\"" + strings.Repeat("q", 70000) + "\";\n}\n"},
		{"2MB", big2.String()},
		{"4MB", big4.String()},
	}
	for _, k := range classes {
		data := []byte(k.text)
		out, ok, err := fmtOne(data)
		oc.Evals++
		if err != nil {
			oc.Violate("content/no-w-modifies/"+k.name, err.Error(), map[string]any{"class": k.name})
			continue
		}
		w, err := newMws()
		if err != nil {
			oc.Inconc = append(oc.Inconc, "workspace: "+err.Error())
			return
		}
		p := w.put("main.vcl", data)
		rr := runCmd(w.dir, true, []string{falcoBin(), "fmt", "-w", p}, 180*time.Second)
		oc.Evals++
		after, _ := os.ReadFile(p)
		os.RemoveAll(w.root)
		detail := map[string]any{"class": k.name, "exit": rr.exit, "stderr": clip(string(rr.stderr), 600), "original_len": len(data), "after_len": len(after), "formatted_len": len(out), "ref_ok": ok}
		isOrig := bytes.Equal(after, data)
		isFmt := ok && bytes.Equal(after, out)
		failed := rr.exit != 0 || rr.killed
		switch {
		case failed && !isOrig:
			oc.Violate("content/failed-but-changed/"+k.name, "`fmt -w` failed but FILE no longer holds its original bytes", detail)
		case !isOrig && !isFmt:
			// where does it differ
			at := 0
			for at < len(after) && at < len(out) && after[at] == out[at] {
				at++
			}
			detail["first_difference_at"] = at
			oc.Violate("content/neither/"+k.name, fmt.Sprintf("after `fmt -w` FILE (%d bytes) is neither its original bytes (%d) nor what `falco fmt FILE` prints (%d bytes; first difference at byte %d)", len(after), len(data), len(out), at), detail)
		case !failed && ok && !isFmt:
			oc.Violate("content/reported-success-not-written/"+k.name, "`fmt -w` exits 0 but FILE was not rewritten with the formatted text", detail)
		case !failed && !ok:
			oc.Violate("content/exit-zero-on-refused-file/"+k.name, "`falco fmt FILE` fails for this content but `fmt -w FILE` exits 0", detail)
		}
		oc.Tag(fmt.Sprintf("content:%s/fmt-ok=%v/w-exit=%d", k.name, ok, rr.exit))
		oc.NonTrivialS("content|" + k.name)
	}
}
