package main

// Aliasing workload: straight-line programs built from statement templates over locals of EVERY
// type (INTEGER, FLOAT, STRING, BOOL, RTIME, TIME, IP; three per type plus never-assigned STRING
// locals), headers whose names share prefixes or differ in case, header sub-fields, helper
// subroutines and FUNCTIONAL subroutines that mutate their by-value parameter. Each template knows
// the set of pool entries its statement names; everything else must keep its value.

import (
	"fmt"
	"math/rand"
	"strings"

	"verif/harness/fw"
	"verif/harness/sim"
)

const aliasMain = `backend be_one { .host = "127.0.0.1"; .port = "1"; }
backend be_two { .host = "127.0.0.1"; .port = "2"; }
backend be_three { .host = "127.0.0.1"; .port = "3"; }
sub vcl_recv {
#FASTLY RECV
return(lookup);
}
sub h_i(INTEGER var.p) { set var.p += 1; }
sub h_f(FLOAT var.p) { set var.p += 0.5; }
sub h_s(STRING var.p) { set var.p = var.p "X"; if (var.p ~ "(X)$") { set var.p = re.group.1; } }
sub h_b(BOOL var.p) { set var.p = false; }
sub h_r(RTIME var.p) { set var.p += 1s; }
sub h_t(TIME var.p) { set var.p += 1s; }
sub h_ip(IP var.p) { set var.p = "198.51.100.1"; }
sub f_i(INTEGER var.p) INTEGER { if (req.url ~ "^/(can)(ary)") { set var.p += 1; } return var.p; }
sub f_f(FLOAT var.p) FLOAT { set var.p += 0.5; return var.p; }
sub f_s(STRING var.p) STRING { set var.p = var.p "X"; if (var.p ~ "(X)$") { set var.p = var.p re.group.1; } return var.p; }
sub f_b(BOOL var.p) BOOL { if (req.method ~ "^(G)(ET)$") { set var.p = true; } return var.p; }
sub f_r(RTIME var.p) RTIME { set var.p += 1s; return var.p; }
sub f_t(TIME var.p) TIME { if (req.url ~ "(x)=(1)") { set var.p += 1s; } return var.p; }
sub h_x(REGEX var.p) { set var.p = "^never"; }
sub h_k(BACKEND var.p) { set var.p = be_three; }
sub h_nest(INTEGER var.p) {
  declare local var.i_a INTEGER;
  declare local var.s_a STRING;
  declare local var.own INTEGER;
  set var.i_a = 99;
  set var.s_a = "nest";
  set var.own = var.p;
  call h_i(var.i_a);
  set var.s_a = f_s(var.s_a);
  call h_s(var.s_a);
  set var.own = f_i(var.own);
}
sub f_rec(INTEGER var.p, INTEGER var.depth) INTEGER {
  declare local var.mine INTEGER;
  declare local var.q INTEGER;
  declare local var.d INTEGER;
  declare local var.ignored INTEGER;
  set var.mine = var.p;
  if (var.depth > 0) {
    set var.q = var.p;
    set var.q += 1000;
    set var.d = var.depth;
    set var.d -= 1;
    set var.ignored = f_rec(var.q, var.d);
  }
  return var.mine;
}
sub h_rec(INTEGER var.p, INTEGER var.depth, BOOL var.outermost) {
  declare local var.mine INTEGER;
  declare local var.q INTEGER;
  declare local var.d INTEGER;
  declare local var.top BOOL;
  set var.mine = var.p;
  set var.top = var.outermost;
  if (var.depth > 0) {
    set var.q = var.p;
    set var.q += 1000;
    set var.d = var.depth;
    set var.d -= 1;
    call h_rec(var.q, var.d, false);
  }
  if (var.top) { set req.http.X-Rec = "mine=" var.mine; }
  if (var.outermost != var.top) { set req.http.X-Rec = "flag"; }
}
sub f_nest(STRING var.p) STRING {
  declare local var.s_b STRING;
  declare local var.i_b INTEGER;
  set var.s_b = "fnest";
  set var.i_b = 7;
  call h_nest(var.i_b);
  return f_s(var.s_b);
}
`

type atype struct {
	tag, vcl string
	inits    [3]string
	lits     []string
	ops      []string // compound operators usable with a literal / a variable of the same type
	neg      bool
}

var atypes = []atype{
	{"i", "INTEGER", [3]string{"5", "70", "-3"}, []string{"1", "2", "7", "9", "65", "130"}, []string{"+=", "-=", "|=", "&=", "^=", "*=", "rol=", "ror=", "<<=", ">>="}, true},
	{"f", "FLOAT", [3]string{"1.5", "-2.25", "10.0"}, []string{"0.5", "2.0", "1.25"}, []string{"+=", "-=", "*="}, true},
	{"s", "STRING", [3]string{"\"abc\"", "\"\"", "\"x y\""}, []string{"\"z\"", "\"ab\"", "\"\""}, []string{"+="}, false},
	{"b", "BOOL", [3]string{"true", "false", "true"}, []string{"true", "false"}, []string{"&&=", "||="}, false},
	{"r", "RTIME", [3]string{"90s", "5m", "1500ms"}, []string{"1s", "10s", "250ms"}, []string{"+=", "-="}, true},
	{"t", "TIME", [3]string{"std.integer2time(1000000000)", "std.integer2time(1500000000)", "std.integer2time(86400)"}, []string{"1s", "10s", "5m"}, []string{"+=", "-="}, false},
	{"ip", "IP", [3]string{"\"192.0.2.1\"", "\"10.1.2.3\"", "\"2001:db8::1\""}, []string{"\"198.51.100.7\"", "\"::1\""}, nil, false},
	{"k", "BACKEND", [3]string{"be_one", "be_two", "be_one"}, []string{"be_one", "be_two"}, nil, false},
}

// the last name contains the text of a capture variable: it is a header like the others
var aliasHeaders = []string{"X-Foo", "X-Foo-Bar", "X-Fo", "X-Other", "X-re.group.1"}

type astmt struct {
	text    string
	allowed map[string]bool
	groups  bool
	kind    string
	same    [2]string // value law: after the statement [0] holds what [1] held before it
}

// predefined variables writable in vcl_recv, with the tag of the local type they exchange values with
var aliasPredef = []struct{ name, tag string }{
	{"client.identity", "s"}, {"req.max_stale_if_error", "r"}, {"req.hash_always_miss", "b"}, {"req.esi", "b"}, {"req.max_stale_while_revalidate", "r"},
}

func hdrAllowed(name string) map[string]bool {
	// name may carry a sub-field and any letter case; entries of the pool use canonical spelling
	base, field, _ := strings.Cut(name, ":")
	canon := ""
	for _, h := range aliasHeaders {
		if strings.EqualFold(h, base) {
			canon = h
		}
	}
	out := map[string]bool{"req.http." + canon: true}
	if field != "" {
		out["req.http."+canon+":"+field] = true
	} else if canon == "X-Foo" {
		out["req.http.X-Foo:k"], out["req.http.X-Foo:k2"] = true, true
	}
	return out
}

func aliasProgram(r *rand.Rand, n int) (string, []astmt, []string) {
	var pool []string
	var sb strings.Builder
	sb.WriteString("sub t {\n")
	for _, t := range atypes {
		for _, x := range "abc" {
			name := fmt.Sprintf("var.%s_%c", t.tag, x)
			pool = append(pool, name)
			fmt.Fprintf(&sb, "declare local %s %s;\n", name, t.vcl)
		}
	}
	sb.WriteString("declare local var.u STRING;\ndeclare local var.u2 STRING;\n")
	pool = append(pool, "var.u", "var.u2")
	// REGEX locals (their initial value is a constant of the value package)
	for _, x := range "abc" {
		pool = append(pool, fmt.Sprintf("var.x_%c", x))
		fmt.Fprintf(&sb, "declare local var.x_%c REGEX;\n", x)
	}
	for _, h := range aliasHeaders {
		pool = append(pool, "req.http."+h)
	}
	pool = append(pool, "req.http.X-Foo:k", "req.http.X-Foo:k2", "re.group.0", "re.group.1", "re.group.2", "req.url", "req.method", "req.http.Canary")
	// the declared backends themselves (an identifier is evaluated again at every read) and the request's backend
	pool = append(pool, "be_one", "be_two", "be_three", "req.backend")
	// predefined variables that can be written in vcl_recv (they hold a value of their own, not the one assigned from)
	for _, pv := range aliasPredef {
		pool = append(pool, pv.name)
	}
	pool = append(pool, "req.http.X-Rec")
	var stmts []astmt
	add := func(kind, text string, allowed map[string]bool, groups bool) {
		stmts = append(stmts, astmt{text: text, allowed: allowed, groups: groups, kind: kind})
	}
	one := func(name string) map[string]bool { return map[string]bool{name: true} }
	for _, t := range atypes {
		for k, x := range "abc" {
			name := fmt.Sprintf("var.%s_%c", t.tag, x)
			add("init/"+t.vcl, fmt.Sprintf("set %s = %s;", name, t.inits[k]), one(name), false)
		}
	}
	// a fourth local of every type, declared WITH an initial value read from another local
	dset := map[string]bool{}
	for _, t := range atypes {
		name := fmt.Sprintf("var.%s_d", t.tag)
		pool = append(pool, name)
		add("declare-init/"+t.vcl, fmt.Sprintf("declare local %s %s = var.%s_%c;", name, t.vcl, t.tag, "abc"[r.Intn(3)]), one(name), false)
		dset[t.tag] = true
	}
	add("init/header", `set req.http.X-Foo = "k=1, k2=2";`, hdrAllowed("X-Foo"), false)
	add("init/header", `set req.http.X-Foo-Bar = "bar";`, hdrAllowed("X-Foo-Bar"), false)
	add("init/header", `set req.http.X-Other = "other";`, hdrAllowed("X-Other"), false)
	add("init/header", `set req.http.X-re.group.1 = "a header";`, hdrAllowed("X-re.group.1"), false)
	v := func(t atype) string { return fmt.Sprintf("var.%s_%c", t.tag, "abcd"[r.Intn(4)]) }
	for len(stmts) < n+24 {
		t := atypes[r.Intn(len(atypes))]
		x, y := v(t), v(t)
		switch k := r.Intn(27); {
		case k == 22:
			// unary minus of a parenthesised operand, as a value and inside a condition
			nt := atypes[[]int{0, 1, 4}[r.Intn(3)]]
			nx, ny := v(nt), v(nt)
			if r.Intn(2) == 0 {
				add("neg-group/"+nt.vcl, fmt.Sprintf("set %s = -(%s);", nx, ny), one(nx), false)
			} else {
				add("neg-group/condition", fmt.Sprintf("if (%s == -(%s)) { }", nx, ny), map[string]bool{}, false)
			}
		case k == 23:
			// a recursive functional subroutine that returns its own local after the inner calls: the identity
			ix, iy := fmt.Sprintf("var.i_%c", "abcd"[r.Intn(4)]), fmt.Sprintf("var.i_%c", "abcd"[r.Intn(4)])
			stmts = append(stmts, astmt{text: fmt.Sprintf("set %s = f_rec(%s, %d);", ix, iy, 1+r.Intn(3)), allowed: one(ix), kind: "functional/recursive", same: [2]string{ix, iy}})
		case k == 24:
			// a recursive subroutine whose outermost invocation reports its own local in a header
			iy := fmt.Sprintf("var.i_%c", "abcd"[r.Intn(4)])
			stmts = append(stmts, astmt{text: fmt.Sprintf("call h_rec(%s, %d, true);", iy, 1+r.Intn(3)), allowed: one("req.http.X-Rec"), kind: "call/recursive", same: [2]string{"req.http.X-Rec", iy}})
		case k == 25 || k == 26:
			pv := aliasPredef[r.Intn(len(aliasPredef))]
			lx := fmt.Sprintf("var.%s_%c", pv.tag, "abcd"[r.Intn(4)])
			if k == 25 {
				add("predefined-set/"+pv.name, fmt.Sprintf("set %s = %s;", pv.name, lx), one(pv.name), false)
			} else {
				add("predefined-to-local/"+pv.name, fmt.Sprintf("set %s = %s;", lx, pv.name), one(lx), false)
			}
		case k == 18:
			// a TIME shifted by an RTIME literal inside a string concatenation (a fresh value, the local stays)
			sx, ty := fmt.Sprintf("var.s_%c", "abcd"[r.Intn(4)]), fmt.Sprintf("var.t_%c", "abcd"[r.Intn(4)])
			if r.Intn(2) == 0 {
				add("time-in-concat", fmt.Sprintf("set %s = \"at \" + %s + %s + \" end\";", sx, ty, []string{"5m", "10s", "1h"}[r.Intn(3)]), one(sx), false)
			} else {
				add("time-in-concat/log", fmt.Sprintf("log \"expires \" + %s + %s + \".\";", ty, []string{"5m", "10s", "1h"}[r.Intn(3)]), map[string]bool{}, false)
			}
		case k == 19:
			// calls nested two deep whose callees declare locals of the caller's names
			if r.Intn(2) == 0 {
				add("call/nested", fmt.Sprintf("call h_nest(var.i_%c);", "abcd"[r.Intn(4)]), map[string]bool{}, false)
			} else {
				sx := fmt.Sprintf("var.s_%c", "abcd"[r.Intn(4)])
				add("functional/nested", fmt.Sprintf("set %s = f_nest(var.s_%c);", sx, "abcd"[r.Intn(4)]), one(sx), false)
			}
		case k == 20:
			add("backend-set", fmt.Sprintf("set req.backend = %s;", []string{"be_one", "be_two", "be_three", "var.k_a", "var.k_b"}[r.Intn(5)]), one("req.backend"), false)
		case k == 21:
			kx := fmt.Sprintf("var.k_%c", "abcd"[r.Intn(4)])
			add("backend-to-local", fmt.Sprintf("set %s = %s;", kx, []string{"req.backend", "be_one", "be_two"}[r.Intn(3)]), one(kx), false)
		case k == 16:
			xr := fmt.Sprintf("var.x_%c", "abc"[r.Intn(3)])
			if r.Intn(3) == 0 {
				add("call/REGEX", fmt.Sprintf("call h_x(%s);", xr), map[string]bool{}, false)
			} else {
				add("regex-local-set", fmt.Sprintf("set %s = \"%s\";", xr, []string{"^/can", "(x)=(1)", "ary"}[r.Intn(3)]), one(xr), false)
			}
		case k == 17:
			add("regex-local-match", fmt.Sprintf("if (req.url ~ var.x_%c) { }", "abc"[r.Intn(3)]), map[string]bool{}, true)
		case k == 0 || k == 1:
			add("copy/"+t.vcl, fmt.Sprintf("set %s = %s;", x, y), one(x), false)
		case k == 2 && len(t.ops) > 0:
			add("op-literal/"+t.vcl, fmt.Sprintf("set %s %s %s;", x, t.ops[r.Intn(len(t.ops))], t.lits[r.Intn(len(t.lits))]), one(x), false)
		case k == 3 && len(t.ops) > 0 && t.vcl != "TIME":
			op := t.ops[r.Intn(len(t.ops))]
			if op == "*=" {
				op = "+="
			}
			add("op-var/"+t.vcl, fmt.Sprintf("set %s %s %s;", x, op, y), one(x), false)
		case k == 3 && t.vcl == "TIME":
			add("op-var/TIME", fmt.Sprintf("set %s %s %s;", x, []string{"+=", "-="}[r.Intn(2)], fmt.Sprintf("var.r_%c", "abc"[r.Intn(3)])), one(x), false)
		case k == 4 && t.neg:
			add("neg/"+t.vcl, fmt.Sprintf("set %s = -%s;", x, y), one(x), false)
		case k == 5:
			add("call/"+t.vcl, fmt.Sprintf("call h_%s(%s);", t.tag, x), map[string]bool{}, false)
		case k == 6 && t.vcl != "IP" && t.vcl != "BACKEND":
			add("functional/"+t.vcl, fmt.Sprintf("set %s = f_%s(%s);", x, t.tag, y), one(x), false)
		case k == 7:
			sx := fmt.Sprintf("var.s_%c", "abc"[r.Intn(3)])
			add("concat-notset", fmt.Sprintf("set %s = %s;", sx, []string{"var.u \"-x\"", "var.u", "var.u var.u2", "\"a\" var.u2 \"b\""}[r.Intn(4)]), one(sx), false)
		case k == 8:
			// comparisons of variables (same and mixed numeric types) and logical operators: nothing is named
			cands := []string{
				fmt.Sprintf("var.i_%c < var.i_%c", "abc"[r.Intn(3)], "abc"[r.Intn(3)]),
				fmt.Sprintf("var.f_%c >= var.f_%c", "abc"[r.Intn(3)], "abc"[r.Intn(3)]),
				fmt.Sprintf("var.r_%c > var.r_%c", "abc"[r.Intn(3)], "abc"[r.Intn(3)]),
				fmt.Sprintf("var.t_%c <= var.t_%c", "abc"[r.Intn(3)], "abc"[r.Intn(3)]),
				fmt.Sprintf("var.s_%c == var.s_%c", "abc"[r.Intn(3)], "abc"[r.Intn(3)]),
				fmt.Sprintf("var.b_%c && !var.b_%c", "abc"[r.Intn(3)], "abc"[r.Intn(3)]),
				fmt.Sprintf("var.s_%c == req.http.X-Foo", "abc"[r.Intn(3)]),
				fmt.Sprintf("var.u || var.s_%c", "abc"[r.Intn(3)]),
				fmt.Sprintf("var.ip_%c == var.ip_%c", "abc"[r.Intn(3)], "abc"[r.Intn(3)]),
			}
			add("compare", "if ("+cands[r.Intn(len(cands))]+") { }", map[string]bool{}, false)
		case k == 9:
			add("regex", fmt.Sprintf("if (var.s_%c ~ \"(a)?(b|x)?\") { }", "abc"[r.Intn(3)]), map[string]bool{}, true)
		case k == 10:
			h := aliasHeaders[r.Intn(len(aliasHeaders))]
			sp := h
			if r.Intn(3) == 0 {
				sp = strings.ToLower(h)
			}
			add("header-set", fmt.Sprintf("set req.http.%s = \"v%d\";", sp, r.Intn(100)), hdrAllowed(h), false)
		case k == 11:
			h := aliasHeaders[r.Intn(len(aliasHeaders))]
			add("header-unset", fmt.Sprintf("unset req.http.%s;", h), hdrAllowed(h), false)
		case k == 12:
			h, m := aliasHeaders[r.Intn(len(aliasHeaders))], aliasHeaders[r.Intn(len(aliasHeaders))]
			add("header-copy", fmt.Sprintf("set req.http.%s = req.http.%s;", h, m), hdrAllowed(h), false)
		case k == 13:
			h := aliasHeaders[r.Intn(len(aliasHeaders))]
			add("header-append", fmt.Sprintf("set req.http.%s = req.http.%s \"z\";", h, h), hdrAllowed(h), false)
		case k == 14:
			f := []string{"k", "k2"}[r.Intn(2)]
			if r.Intn(2) == 0 {
				add("subfield-set", fmt.Sprintf("set req.http.X-Foo:%s = \"w%d\";", f, r.Intn(100)), hdrAllowed("X-Foo:"+f), false)
			} else {
				add("subfield-unset", fmt.Sprintf("unset req.http.X-Foo:%s;", f), hdrAllowed("X-Foo:"+f), false)
			}
		case k == 15:
			sx := fmt.Sprintf("var.s_%c", "abc"[r.Intn(3)])
			add("header-to-local", fmt.Sprintf("set %s = req.http.%s;", sx, aliasHeaders[r.Intn(len(aliasHeaders))]), one(sx), false)
		}
	}
	for _, s := range stmts {
		sb.WriteString(s.text + "\n")
	}
	sb.WriteString("log \"__end\";\n}\n")
	return sb.String(), stmts, pool
}

func runAlias(oc *fw.Outcome, cc ccase) {
	r := rand.New(rand.NewSource(cc.Seed))
	for i := 0; i < cc.N; i++ {
		src, stmts, pool := aliasProgram(r, 20+r.Intn(30))
		fw.JournalS(src)
		oc.Evals++
		var res *sim.Result
		pn, msg, _ := fw.Guard(func() {
			res = sim.RunSub(aliasMain, src, "RECV", pool, sim.Request{URL: "/canary?x=1", Headers: map[string]string{"Canary": "tweet"}})
		})
		if pn {
			oc.Tag("interpreter-panic (C08): " + clip(msg, 60))
			continue
		}
		if res.InitErr != nil || res.ParseErr != nil {
			oc.Inconc = append(oc.Inconc, "aliasing program does not load: "+fmt.Sprint(res.InitErr, res.ParseErr))
			continue
		}
		if i == 0 {
			oc.Sample = map[string]any{"sub": clip(src, 2500), "pool": pool}
		}
		// one statement per line: the first statement line is after the declarations
		firstLine := strings.Count(src[:strings.Index(src, stmts[0].text)], "\n") + 1
		type step struct {
			idx  int
			vals map[string]sim.Val
		}
		var seq []step
		for _, s := range res.Snaps {
			if s.File == "main.vcl" || strings.HasSuffix(s.Kind, "DeclareStatement") {
				continue
			}
			if k := s.Line - firstLine; k >= 0 && k <= len(stmts) {
				seq = append(seq, step{k, s.Vals})
			}
		}
		if res.Err != nil {
			// a statement the interpreter refuses is not a frame violation; what ran before it is still checked
			oc.Tag("alias:runtime-error-after-" + stmts[min(len(seq), len(stmts))-1].kind)
			em := res.Err.Error()
			if i := strings.Index(em, " at line"); i > 0 {
				em = em[:i]
			}
			oc.Tag("alias:runtime-error: " + clip(em, 90))
		}
		checked := 0
		for k := 0; k+1 < len(seq); k++ {
			if seq[k].idx >= len(stmts) || seq[k+1].idx != seq[k].idx+1 {
				continue
			}
			st := stmts[seq[k].idx]
			oc.Tag("transition:alias/" + st.kind)
			checked++
			if st.same[0] != "" {
				before, after := seq[k].vals[st.same[1]], seq[k+1].vals[st.same[0]]
				want := canon(before)
				if st.kind == "call/recursive" {
					want = "STRING:mine=" + before.Str
				}
				if before.Err == "" && canon(after) != want {
					oc.Violate("alias:"+st.kind+"/own-local", fmt.Sprintf("`%s`: %s reads %s afterwards, the invocation's own local held %s: the locals of an outer invocation were overwritten by an inner one", st.text, st.same[0], canon(after), want),
						map[string]any{"sub": clip(src, 6000), "statement": st.text})
				}
			}
			for _, nm := range pool {
				a, b := canon(seq[k].vals[nm]), canon(seq[k+1].vals[nm])
				if a == b || st.allowed[nm] || st.groups && strings.HasPrefix(nm, "re.group.") {
					continue
				}
				vk := "local"
				switch {
				case strings.HasPrefix(nm, "re.group."):
					vk = "re.group"
				case strings.HasPrefix(nm, "req.http.Canary"), nm == "req.url", nm == "req.method":
					vk = "canary"
				case strings.HasPrefix(nm, "req.http."):
					vk = "header"
				case nm == "var.u" || nm == "var.u2":
					vk = "local:STRING(never assigned)"
				default:
					for _, t := range atypes {
						if strings.HasPrefix(nm, "var."+t.tag+"_") {
							vk = "local:" + t.vcl
						}
					}
				}
				oc.Violate("alias:"+st.kind+"->"+vk, fmt.Sprintf("executing `%s` changed %s from %s to %s, which the statement does not name", st.text, nm, a, b),
					map[string]any{"sub": clip(src, 6000), "statement": st.text, "variable": nm, "before": a, "after": b})
				break
			}
		}
		if checked >= 10 {
			oc.NonTrivialS(src)
		}
	}
}
