package main

// Objects workload: the frame rule across HTTP objects and across requests. A generated program
// modifies headers of ONE object in each lifecycle subroutine (bereq in vcl_miss/vcl_pass, beresp in
// vcl_fetch, resp in vcl_deliver, obj in vcl_error) and logs what the OTHER objects read before it
// does so. Several requests for the same URL go through one interpreter (miss, then hits of the
// cached object). Invariants, none of which needs a reference semantics:
//   O1  what vcl_deliver reads from resp BEFORE its own modifications is the same for every request
//       to one URL: the cached object is what vcl_fetch left, not what an earlier vcl_deliver made
//       of its copy;
//   O2  what vcl_hit reads from obj is the same on every hit and equals what O1 read;
//   O3  modifying bereq in vcl_miss / vcl_pass leaves req as it was (read in vcl_deliver), and
//       modifying req in vcl_deliver does not reach the next request.

import (
	"encoding/json"
	"fmt"
	"math/rand"
	"net/http"
	"net/http/httptest"
	"net/url"
	"sort"
	"strings"

	"github.com/ysugimoto/falco/v2/interpreter"
	"github.com/ysugimoto/falco/v2/interpreter/context"
	"github.com/ysugimoto/falco/v2/resolver"

	"verif/harness/fw"
	"verif/harness/lintutil"
)

var originPort string

func workerInit() {
	srv := httptest.NewServer(http.HandlerFunc(func(w http.ResponseWriter, r *http.Request) {
		w.Header().Set("X-Origin", "yes")
		w.Header().Set("X-Origin-B", "b-"+r.Header.Get("B-Only"))
		w.Header().Set("Cache-Control", "max-age=3600")
		w.Header().Set("Vary-Probe", "p")
		w.Write([]byte("origin " + r.URL.Path))
	}))
	u, _ := url.Parse(srv.URL)
	originPort = u.Port()
}

var objHeaders = []string{"X-Origin", "X-Origin-B", "From-Fetch", "Marker", "Vary-Probe", "Cache-Control"}

// mods returns statements that modify headers of object o (set new, unset existing, append, sub-field)
func objMods(r *rand.Rand, o string, tag string) []string {
	all := []string{
		fmt.Sprintf(`set %s.http.Marker = "seen-%s";`, o, tag),
		fmt.Sprintf(`unset %s.http.X-Origin;`, o),
		fmt.Sprintf(`set %s.http.From-Fetch = %s.http.From-Fetch "+%s";`, o, o, tag),
		fmt.Sprintf(`set %s.http.X-Origin-B = "rewritten-%s";`, o, tag),
		fmt.Sprintf(`add %s.http.Vary-Probe = "added-%s";`, o, tag),
		fmt.Sprintf(`set %s.http.Cache-Control:private = "%s";`, o, tag),
		fmt.Sprintf(`unset %s.http.Vary-Probe;`, o),
		fmt.Sprintf(`set %s.http.x-origin = "lower-%s";`, o, tag),
	}
	r.Shuffle(len(all), func(i, j int) { all[i], all[j] = all[j], all[i] })
	return all[:2+r.Intn(4)]
}

func readLine(prefix, o string) string {
	var parts []string
	for _, h := range objHeaders {
		parts = append(parts, fmt.Sprintf(`"%s=" %s.http.%s`, h, o, h))
	}
	return `log "` + prefix + `|" ` + strings.Join(parts, ` "|" `) + `;`
}

// objectsModule is included at the root by half of the programs: it declares Fastly subroutines
// that the main file declares as well (the bodies are concatenated when the program is loaded)
const objectsModule = "sub vcl_deliver {\n  set resp.http.Common = \"c\";\n}\nsub vcl_recv {\n  set req.http.Common-Recv = req.http.Common-Recv \"r\";\n}\n"

func objectsProgram(r *rand.Rand) (string, bool, bool) {
	var sb strings.Builder
	withModule := r.Intn(2) == 0
	if withModule {
		sb.WriteString("include \"edge_common\";\n")
	}
	fmt.Fprintf(&sb, "backend origin { .host = \"127.0.0.1\"; .port = \"%s\"; }\n", originPort)
	sb.WriteString("sub vcl_recv {\n#FASTLY RECV\n  set req.backend = origin;\n  set req.http.Keep = \"keep\";\n  log \"recv-in|deliver-set=\" req.http.Set-In-Deliver;\n")
	if r.Intn(4) == 0 {
		sb.WriteString("  if (req.url ~ \"^/pass\") { return(pass); }\n")
	}
	sb.WriteString("  return(lookup);\n}\n")
	for _, s := range []string{"miss", "pass"} {
		fmt.Fprintf(&sb, "sub vcl_%s {\n#FASTLY %s\n", s, strings.ToUpper(s))
		sb.WriteString("  set bereq.http.B-Only = \"b\";\n  unset bereq.http.Keep;\n  set bereq.http.Keep2 = bereq.http.Keep2 \"+b\";\n")
		for _, m := range objMods(r, "bereq", "m") {
			sb.WriteString("  " + m + "\n")
		}
		sb.WriteString("}\n")
	}
	sb.WriteString("sub vcl_fetch {\n#FASTLY FETCH\n  set beresp.ttl = 1h;\n  set beresp.http.From-Fetch = \"f\";\n")
	if r.Intn(2) == 0 {
		for _, m := range objMods(r, "beresp", "f") {
			if !strings.Contains(m, "From-Fetch") {
				sb.WriteString("  " + m + "\n")
			}
		}
	}
	sb.WriteString("  return(deliver);\n}\n")
	// vcl_hit reads the object first and then (in half of the programs) modifies its copy: the cached
	// object must stay what vcl_fetch made
	sb.WriteString("sub vcl_hit {\n#FASTLY HIT\n  " + readLine("hit-obj", "obj") + "\n  log \"hit-status|\" obj.status \"|\" obj.response;\n")
	hitMods := r.Intn(2) == 0
	if hitMods {
		for _, m := range objMods(r, "obj", "h") {
			sb.WriteString("  " + m + "\n")
		}
		if r.Intn(2) == 0 {
			sb.WriteString("  set obj.status = 203;\n  set obj.response = \"Changed In Hit\";\n")
		}
	}
	sb.WriteString("}\n")
	sb.WriteString("sub vcl_deliver {\n#FASTLY DELIVER\n  " + readLine("deliver-in", "resp") + "\n")
	sb.WriteString("  log \"deliver-req|Keep=\" req.http.Keep \"|B-Only=\" req.http.B-Only \"|Keep2=\" req.http.Keep2;\n")
	// nothing that was written to bereq / beresp / obj / resp shows on req
	sb.WriteString("  " + readLine("deliver-reqall", "req") + "\n")
	for _, m := range objMods(r, "resp", "d") {
		sb.WriteString("  " + m + "\n")
	}
	sb.WriteString("  set req.http.Set-In-Deliver = \"1\";\n")
	if !withModule {
		sb.WriteString("  return(deliver);\n")
	}
	sb.WriteString("}\n")
	return sb.String(), withModule, hitMods
}

func logsOf(doc any) []string {
	m, _ := doc.(map[string]any)
	var out []string
	if ls, ok := m["logs"].([]any); ok {
		for _, l := range ls {
			switch t := l.(type) {
			case string:
				out = append(out, t)
			case map[string]any:
				if s, ok := t["message"].(string); ok {
					out = append(out, s)
				}
			}
		}
	}
	return out
}

func runObjects(oc *fw.Outcome, cc ccase) {
	r := rand.New(rand.NewSource(cc.Seed))
	for i := 0; i < cc.N; i++ {
		vcl, withModule, hitMods := objectsProgram(r)
		fw.JournalS(vcl)
		urls := []string{"/a", "/a", "/b", "/a", "/pass/x", "/b", "/a"}
		var rslv resolver.Resolver = resolver.NewStaticResolver("main.vcl", vcl)
		if withModule {
			rslv = &lintutil.MapResolver{Main: vcl, Modules: map[string]string{"edge_common": objectsModule}, Budget: 100}
		}
		it := interpreter.New(context.WithResolver(rslv))
		type seen struct{ deliverIn, hitObj string }
		first := map[string]seen{}
		hits := 0
		bad := false
		firstHitStatus := ""
		firstHitDeliver := map[string]string{}
		for k, u := range urls {
			rec := httptest.NewRecorder()
			req := httptest.NewRequest("GET", "http://localhost"+u, nil)
			req.Header.Set("Keep2", "k2")
			oc.Evals++
			pn, msg, _ := fw.Guard(func() { it.ServeHTTP(rec, req) })
			if pn {
				oc.Tag("interpreter-panic (C08): " + clip(msg, 60))
				bad = true
				break
			}
			var doc any
			if err := json.Unmarshal(rec.Body.Bytes(), &doc); err != nil {
				oc.Inconc = append(oc.Inconc, "objects: no process document: "+clip(rec.Body.String(), 200))
				bad = true
				break
			}
			logs := logsOf(doc)
			if len(logs) == 0 {
				oc.Inconc = append(oc.Inconc, "objects: the process document has no logs: "+clip(rec.Body.String(), 300))
				bad = true
				break
			}
			var cur seen
			nDeliverIn := 0
			detail := func() map[string]any {
				return map[string]any{"vcl": vcl, "request_index": k, "url": u, "logs": logs}
			}
			for _, l := range logs {
				switch {
				case strings.HasPrefix(l, "deliver-in|"):
					nDeliverIn++
					if nDeliverIn == 1 {
						cur.deliverIn = strings.TrimPrefix(l, "deliver-in|")
					}
				case strings.HasPrefix(l, "hit-obj|"):
					cur.hitObj = strings.TrimPrefix(l, "hit-obj|")
				case strings.HasPrefix(l, "deliver-req|"):
					if l != "deliver-req|Keep=keep|B-Only=(null)|Keep2=k2" {
						oc.Violate("objects:O3/bereq->req", "statements on bereq in vcl_miss/vcl_pass changed what req reads in vcl_deliver: "+l, detail())
						bad = true
					}
				case strings.HasPrefix(l, "deliver-reqall|"):
					if l != "deliver-reqall|X-Origin=(null)|X-Origin-B=(null)|From-Fetch=(null)|Marker=(null)|Vary-Probe=(null)|Cache-Control=(null)" {
						oc.Violate("objects:O3/other-object->req", "a statement on bereq, beresp, obj or resp wrote to req: "+l, detail())
						bad = true
					}
				case strings.HasPrefix(l, "hit-status|"):
					if firstHitStatus == "" {
						firstHitStatus = l
					}
					if !strings.HasPrefix(l, "hit-status|200|") || l != firstHitStatus {
						oc.Violate("objects:O2/obj-status-in-hit", "vcl_hit reads "+l+" from the cached object of a 200 response before it changes anything (first hit: "+firstHitStatus+")", detail())
						bad = true
					}
				case strings.HasPrefix(l, "recv-in|"):
					if l != "recv-in|deliver-set=(null)" {
						oc.Violate("objects:O3/req->next-request", "a header set on req in vcl_deliver is visible to the next request: "+l, detail())
						bad = true
					}
				}
			}
			if bad {
				break
			}
			if nDeliverIn > 1 {
				oc.Violate("objects:O4/body-runs-more-than-once", fmt.Sprintf("request %d for %s: the body of vcl_deliver ran %d times in one request", k, u, nDeliverIn), detail())
				bad = true
				break
			}
			if cur.deliverIn == "" {
				continue // error flow
			}
			f, ok := first[u]
			if !ok {
				first[u] = cur
				continue
			}
			if cur.hitObj != "" {
				hits++
			}
			// a hit delivers the cached object as vcl_hit of THIS request changed it: where vcl_hit modifies obj, the
			// hits are compared with the first hit (every hit starts from the same cached object and applies the same statements)
			if hitMods && cur.hitObj != "" {
				if fh, ok := firstHitDeliver[u]; !ok {
					firstHitDeliver[u] = cur.deliverIn
				} else if cur.deliverIn != fh {
					oc.Violate("objects:O1/obj-in-hit->cached-object:"+diffHeader(fh, cur.deliverIn), fmt.Sprintf("request %d for %s: vcl_deliver of a hit reads resp as %q, the first hit read %q: the statements on obj in an earlier vcl_hit reached the cached object", k, u, cur.deliverIn, fh), detail())
					bad = true
					break
				}
			} else if cur.deliverIn != f.deliverIn && !strings.HasPrefix(u, "/pass") {
				oc.Violate("objects:O1/resp->cached-object:"+diffHeader(f.deliverIn, cur.deliverIn), fmt.Sprintf("request %d for %s: vcl_deliver reads resp as %q, the first request read %q: the statements on resp in an earlier vcl_deliver reached the cached object", k, u, cur.deliverIn, f.deliverIn), detail())
				bad = true
				break
			}
			if cur.hitObj != "" && cur.hitObj != f.deliverIn {
				oc.Violate("objects:O2/obj-in-hit:"+diffHeader(f.deliverIn, cur.hitObj), fmt.Sprintf("request %d for %s: vcl_hit reads obj as %q, vcl_deliver of the first request read %q", k, u, cur.hitObj, f.deliverIn), detail())
				bad = true
				break
			}
		}
		if !bad && withModule {
			oc.Tag("objects:with-root-module(duplicated Fastly subroutines)")
		}
		if !bad && hits >= 2 {
			oc.NonTrivialS(vcl)
			oc.Tag(fmt.Sprintf("objects:hits-per-history=%d", hits))
		} else if !bad {
			oc.Tag("objects:history-without-two-hits")
		}
	}
}

// diffHeader names the headers whose readings differ (the finding key)
func diffHeader(a, b string) string {
	pa, pb := strings.Split(a, "|"), strings.Split(b, "|")
	var out []string
	for i := range pa {
		if i < len(pb) && pa[i] != pb[i] {
			out = append(out, strings.SplitN(pa[i], "=", 2)[0])
		}
	}
	sort.Strings(out)
	if len(out) == 0 {
		return "?"
	}
	return strings.Join(out, "+")
}
