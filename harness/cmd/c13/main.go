// C13 — evaluation changes only what it names.
package main

import (
	"encoding/json"
	"fmt"
	"math/rand"
	"strings"
	"time"

	"verif/harness/fw"
	"verif/harness/gen"
	"verif/harness/render"
	"verif/harness/sim"
	"verif/harness/tsim"
)

type ccase struct {
	Seed int64 `json:"seed"`
	N    int   `json:"n"`
}

func main() {
	fw.Main(&fw.Prop{
		ID:    "C13",
		Level: "exploration",
		Rule: "frame-rule checker over the debugger-snapshot event log of the real interpreter: typed core-language programs (locals of INTEGER/FLOAT/STRING/BOOL/RTIME, req.http.* headers, every assignment operator, unary minus and every comparison applied to VARIABLES, the same variable on both sides, " +
			"values copied between variables and headers, helper subroutines with by-value parameters that mutate their parameters, own locals and run their own regex matches, nested if/else-if/switch) are executed; the whole pool (every local, three headers, re.group.0-2 and the canaries req.url, req.method, req.http.Canary) is read before every statement. " +
			"For each executed statement S of the driven subroutine the set of pool entries that differ between the snapshot before S and the snapshot before the next executed statement must be inside W(S): set/add T -> {T} (+ re.group.* if its value runs a regex match); unset T -> {T}; log, return -> {}; " +
			"if / switch -> re.group.* only, and only if a condition or case is a regex; call -> headers only: no local of the caller and no re.group.* of the caller. No reference semantics is involved: only WHICH entries change is judged. " +
			"A third workload (objects) serves histories of seven requests (miss, hits, pass, a second URL) through Interpreter.ServeHTTP against a loopback origin with generated programs that modify bereq in vcl_miss/vcl_pass, beresp in vcl_fetch, resp and req in vcl_deliver, and log what the other objects read beforehand: the cached object read in vcl_hit and the resp read at the start of vcl_deliver are the same on every request for a URL, bereq statements leave req alone, req statements do not reach the next request. " +
			"non-trivial = program with >=10 checked transitions including >=1 call or >=1 unary minus or >=1 compound assignment with a variable operand; distinct by program text",
		Assumptions: []string{
			"operands are kept in range by construction (out of range belongs to C08)",
			"the pool is read through Interpreter.ProcessExpression on an identifier, the way the debugger does; reading is assumed not to write",
		},
		Gen:           genCases,
		Run:           run,
		WorkerInit:    workerInit,
		Timeout:       180 * time.Second,
		MinNonTrivial: 300,
	})
}

func genCases(g *fw.GenCtx) {
	for k := 0; k < g.Pick(200, 8000); k++ {
		g.Emit("frame", ccase{Seed: g.Rand.Int63(), N: 20})
	}
	for k := 0; k < g.Pick(150, 6000); k++ {
		g.Emit("alias", ccase{Seed: g.Rand.Int63(), N: 10})
	}
	for k := 0; k < g.Pick(40, 1500); k++ {
		g.Emit("objects", ccase{Seed: g.Rand.Int63(), N: 10})
	}
}

func clip(s string, n int) string {
	if len(s) > n {
		return s[:n] + "…"
	}
	return s
}

func canon(v sim.Val) string {
	if v.Err != "" {
		return "<err>"
	}
	if v.NotSet {
		return v.Type + ":<notset>"
	}
	return v.Type + ":" + v.Str
}

func exprKind(x gen.TExpr) string {
	switch t := x.(type) {
	case gen.TLit:
		return "literal"
	case gen.TVar:
		return "var"
	case gen.THdr:
		return "header"
	case gen.TConcat:
		return "concat"
	case gen.TNeg:
		return "neg-var"
	case gen.TGroup:
		return exprKind(t.X)
	case gen.TCmp, gen.TRegex, gen.TLogic, gen.TNot:
		return "bool-expr"
	}
	return "?"
}

func victimKind(name string, types map[string]string) string {
	switch {
	case strings.HasPrefix(name, "re.group."):
		return "re.group"
	case strings.HasPrefix(name, "req.http.Canary"), name == "req.url", name == "req.method":
		return "canary"
	case strings.HasPrefix(name, "req.http."):
		return "header"
	}
	return "local:" + types[name]
}

func run(c fw.Case) fw.Outcome {
	var oc fw.Outcome
	var cc ccase
	json.Unmarshal(c.Data, &cc)
	if c.Kind == "alias" {
		runAlias(&oc, cc)
		return oc
	}
	if c.Kind == "objects" {
		runObjects(&oc, cc)
		return oc
	}
	r := rand.New(rand.NewSource(cc.Seed))
	for i := 0; i < cc.N; i++ {
		p := gen.TypedProgram(r, 5+r.Intn(26))
		names := append(tsim.PoolNames(p), "req.url", "req.method", "req.http.Canary")
		types := map[string]string{}
		for _, l := range p.Locals {
			types[l.Name] = l.T.String()
		}
		flat := gen.Flatten(append(append([]gen.TStmt{}, p.Init...), p.Body...))
		mainSrc := render.Canonical(p.MainToks)
		subSrc, pos := render.RenderPos(p.SubToks, render.Plan{Mode: "canonical"})
		fw.JournalS(mainSrc + "\n" + subSrc)
		oc.Evals++
		var res *sim.Result
		pn, _, _ := fw.Guard(func() {
			res = sim.RunSub(mainSrc, subSrc, "RECV", names, sim.Request{URL: "/canary?x=1", Headers: map[string]string{"Canary": "tweet"}})
		})
		if pn {
			oc.Tag("interpreter-panic (C08)")
			continue
		}
		if res.InitErr != nil || res.ParseErr != nil {
			oc.Inconc = append(oc.Inconc, "typed program does not load: "+fmt.Sprint(res.InitErr, res.ParseErr))
			continue
		}
		preOf := map[[2]int]int{}
		for k, ti := range p.PreTok {
			if ti < len(pos) {
				preOf[[2]int{pos[ti].Line, pos[ti].Col}] = k
			}
		}
		type step struct {
			idx  int
			vals map[string]sim.Val
		}
		var seq []step
		for _, s := range res.Snaps {
			if s.File == "main.vcl" {
				continue
			}
			if k, ok := preOf[[2]int{s.Line, s.Pos}]; ok && !strings.HasSuffix(s.Kind, "DeclareStatement") {
				seq = append(seq, step{k, s.Vals})
			}
		}
		if i == 0 {
			oc.Sample = map[string]any{"sub": clip(subSrc, 1500), "pool": names, "statements_executed": len(seq)}
		}
		checked, interesting := 0, false
		for k := 0; k+1 < len(seq); k++ {
			if seq[k].idx >= len(flat) {
				continue // the closing __end log
			}
			st := flat[seq[k].idx]
			allowed := map[string]bool{}
			groups := false
			kind := ""
			switch t := st.(type) {
			case gen.TSet:
				allowed[t.Target] = true
				groups = gen.HasRegex(t.Val)
				tk := "local"
				if t.Header {
					tk = "header"
				}
				kind = fmt.Sprintf("set/%s/%s:%s/%s", t.Op, tk, t.T.String(), exprKind(t.Val))
				if _, ok := t.Val.(gen.TNeg); ok {
					interesting = true
				}
				if _, ok := t.Val.(gen.TVar); ok && t.Op != "=" {
					interesting = true
				}
			case gen.TUnset:
				allowed[t.Target] = true
				kind = "unset"
			case gen.TLog:
				kind = "log"
			case gen.TReturn:
				kind = "return"
			case gen.TIf:
				groups = gen.HasRegex(t.Cond)
				for _, ei := range t.ElseIfs {
					groups = groups || gen.HasRegex(ei.Cond)
				}
				kind = "if"
			case gen.TSwitch:
				for _, cs := range t.Cases {
					groups = groups || cs.Regex
				}
				kind = "switch"
			case gen.TCall:
				for _, h := range []string{"req.http.H0", "req.http.H1", "req.http.H2"} {
					allowed[h] = true
				}
				kind = fmt.Sprintf("call/%d-args", len(t.Args))
				interesting = true
			}
			oc.Tag("transition:" + strings.SplitN(kind, ":", 2)[0])
			checked++
			for _, nm := range names {
				a, b := canon(seq[k].vals[nm]), canon(seq[k+1].vals[nm])
				if a == b || allowed[nm] || groups && strings.HasPrefix(nm, "re.group.") {
					continue
				}
				oc.Violate(kind+"->"+victimKind(nm, types), fmt.Sprintf("executing statement #%d (%s) changed %s from %s to %s, which the statement does not name", seq[k].idx, kind, nm, a, b),
					map[string]any{"main": clip(mainSrc, 3000), "sub": clip(subSrc, 5000), "statement_token": p.PreTok[seq[k].idx], "variable": nm, "before": a, "after": b})
				break
			}
		}
		if checked >= 10 && interesting {
			oc.NonTrivialS(subSrc)
		}
	}
	return oc
}
