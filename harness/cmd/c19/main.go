// C19 — the AST codec round-trips every statement; decoding is total.
package main

import (
	"bytes"
	"encoding/base64"
	"encoding/json"
	"fmt"
	"io"
	"math/rand"
	"reflect"
	"strings"
	"time"

	"github.com/ysugimoto/falco/v2/ast"
	"github.com/ysugimoto/falco/v2/ast/codec"
	"github.com/ysugimoto/falco/v2/lexer"
	"github.com/ysugimoto/falco/v2/parser"
	"github.com/ysugimoto/falco/v2/plugin"

	"verif/harness/astcmp"
	"verif/harness/fw"
	"verif/harness/gen"
	"verif/harness/render"
	"verif/harness/seeds"
)

type rtCase struct {
	Src     string `json:"src"`
	Snippet bool   `json:"snippet,omitempty"`
}
type decCase struct {
	Src  string `json:"src"`
	Seed int64  `json:"seed"`
	N    int    `json:"n"`    // PRNG mutations per encoding
	Full bool   `json:"full"` // systematic families (truncations, per-byte flips, type-byte sweep)
}
type streamCase struct {
	Src string `json:"src"`
}
type rawCase struct {
	B64 []string `json:"b64"`
}

func main() {
	fw.Main(&fw.Prop{
		ID:    "C19",
		Level: "exploration",
		Rule: "round trip: every statement (top-level and nested, individually via Encode and per file via Encodes) of the seed programs, of the forced corpus " +
			"(empty/64KiB literals, error;, return;, sub parameters, call arguments, empty blocks, switch without default, nesting) is encoded, decoded and compared structurally " +
			"(Meta and presentational flags ignored, numeric source literal compared). totality: every valid encoding is truncated at every length, bit-flipped, type-byte swept, " +
			"length-field rewritten, spliced and randomly overwritten; each mutant is decoded (Decode and plugin.ReadLinterRequest) under a panic guard and an EOF-budget reader after pool poisoning. " +
			"non-trivial = a round trip of a statement with >=1 nested node, or a decode of a byte string that differs from every valid encoding; distinct by hash",
		Assumptions: []string{
			"decoder termination is restated as bounded progress: <=64 reads after the reader first returned EOF, plus a wall-clock watchdog with isolated re-run",
			"presentational flags exempt from the round trip: HasParenthesis, HasComma, Keyword, LongString, Delimiter, Explicit, comments, positions, Nest",
		},
		Gen:           genCases,
		Run:           run,
		Timeout:       30 * time.Second,
		MinNonTrivial: 500,
	})
}

// ---------------------------------------------------------------------------------------------

func forced() []rtCase {
	big := func(n int) string { return strings.Repeat("a", n) }
	subs := []string{
		`sub f { set req.http.A = ""; }`,
		`sub f { log ""; }`,
		`sub f { error; }`,
		`sub f { error 600; }`,
		`sub f { error 600 "x"; }`,
		`sub f { error var.i "x" "y"; }`,
		`sub f { return; }`,
		`sub f { return(lookup); }`,
		`sub f { return lookup; }`,
		`sub f BOOL { return true; }`,
		`sub f STRING { return "a" "b"; }`,
		`sub f(STRING var.s) { log var.s; }`,
		`sub f(STRING var.s, INTEGER var.n, BOOL var.b) STRING { return var.s; }`,
		`sub f { call g; }`,
		`sub f { call g(); }`,
		`sub f { call g(1); }`,
		`sub f { call g("a", var.x, 1.5, true, 10s); }`,
		`sub f { }`,
		`sub f { {} }`,
		`sub f { { { { log "deep"; } } } }`,
		`sub f { if (a) {} }`,
		`sub f { if (a) {} else {} }`,
		`sub f { if (a) {} else if (b) {} }`,
		`sub f { if (a) {} elseif (b) {} elsif (c) {} else if (d) {} else {} }`,
		`sub f { if (a) { if (b) { if (c) { log "x"; } else { log "y"; } } } }`,
		`sub f { switch (a) { } }`,
		`sub f { switch (a) { case "1": break; } }`,
		`sub f { switch (a) { case "1": fallthrough; case ~ "2": break; default: break; } }`,
		`sub f { switch (a) { default: break; case "1": break; } }`,
		`sub f { switch (a) { case "1": log "a"; log "b"; break; case "2": { log "c"; break; } } }`,
		`sub f { switch (f()) { case "1": break; } }`,
		`sub f { declare local var.x STRING; }`,
		`sub f { set var.x = 0x1f; set var.y = 1e3; set var.z = 0x1.8p3; set var.w = 007; set var.v = -0x8000000000000000; set var.u = 9223372036854775807; }`,
		`sub f { set var.x = 1.50; set var.t = 1.5s; set var.t = 0ms; set var.b = true; set var.b = false; }`,
		`sub f { set var.x = -1; set var.x = !a; set var.x = -(-1); set var.x = !(!a); }`,
		`sub f { set var.x = 50%; }`,
		`sub f { set var.s = {"long"}; set var.s = {X"long"X}; set var.s = {""}; }`,
		`sub f { set var.s = "%u00e9%20"; set var.s = "é日本"; }`,
		`sub f { set var.s = a b c; set var.s = a + b + c; set var.s = (a b) c; set var.s = a (b c); }`,
		`sub f { set var.b = a == b && c != d || e ~ "f" && g !~ "h" || i < 1 && j > 2 || k <= 3 && l >= 4; }`,
		`sub f { set var.s = if(a, "b", "c"); set var.s = if(a == b, if(c, "d", "e"), f(g, h(i))); }`,
		`sub f { set var.s = f(); set var.s = f(1); set var.s = f(1, "2", x, 3.0, 4s, true); }`,
		`sub f { f(); f(1); std.collect(req.http.A, ","); }`,
		`sub f { unset req.http.A; remove req.http.B; unset req.http.X-*; }`,
		`sub f { add resp.http.A = "b"; set req.http.A:b = "c"; }`,
		`sub f { set x += 1; set x -= 1; set x *= 1; set x /= 1; set x %= 1; set x |= 1; set x &= 1; set x ^= 1; set x <<= 1; set x >>= 1; set x rol= 1; set x ror= 1; set x &&= true; set x ||= true; }`,
		`sub f { esi; restart; goto a; a: log "x"; }`,
		`sub f { synthetic "a"; synthetic.base64 "YQ=="; synthetic {"a"} "b"; }`,
		`sub f { log "a" + b + {"c"}; }`,
		// leaf payloads at the chunk and size-field boundaries (one statement each: string, long string, identifier, comment-free)
		`sub f { set var.s = "` + big(255) + `"; set var.s = "` + big(256) + `"; set var.s = "` + big(257) + `"; }`,
		`sub f { set var.s = "` + big(511) + `"; set var.s = "` + big(512) + `"; set var.s = "` + big(513) + `"; }`,
		`sub f { set var.s = "` + big(1023) + `"; set var.s = "` + big(1024) + `"; set var.s = "` + big(1025) + `"; set var.s = "` + big(1536) + `"; }`,
		`sub f { set var.s = "` + big(2048) + `"; set var.s = "` + big(4095) + `"; set var.s = "` + big(4096) + `"; set var.s = "` + big(4097) + `"; }`,
		`sub f { set var.s = {"` + big(512) + `"}; set var.s = {"` + big(1024) + `"}; set req.http.` + big(512) + ` = "x"; set req.http.` + big(1024) + ` = "y"; }`,
		`sub f { set var.s = "` + big(32767) + `"; set var.s = "` + big(32768) + `"; set var.s = "` + big(65534) + `"; }`,
		`table t { "` + big(512) + `": "` + big(1024) + `", }`,
		`sub f { set var.s = "` + big(65535) + `"; }`,
		`sub f { set var.s = "` + big(65536) + `"; }`,
		`sub f { set var.s = "` + big(200000) + `"; }`,
		`sub f { set req.http.` + big(65536) + ` = "x"; }`,
		`sub f { set var.s = {"` + big(70000) + `"}; }`,
		`acl a { }`,
		`acl a { "1.2.3.4"; !"5.6.7.8"/24; "::1"/128; ! "10.0.0.0"/8; }`,
		`backend b { }`,
		`backend b { .host = "h"; .port = "80"; .ssl = true; .connect_timeout = 1s; .max_connections = 10; .probe = { .request = "GET / HTTP/1.1" "Host: x"; .interval = 1s; } }`,
		`backend b { .probe = { } }`,
		`director d random { }`,
		`director d random { .quorum = 50%; .retries = 3; { .backend = b; .weight = 1; } { .backend = c; } }`,
		`director d hash { .quorum = 1%; { .backend = b; .weight = 1; } }`,
		`table t { }`,
		`table t { "a": "b" }`,
		`table t { "a": "b", "c": "d", }`,
		`table t STRING { "a": "b" }`,
		`table t BOOL { "a": true }`,
		`table t INTEGER { "a": 1, "b": 0x10 }`,
		`table t FLOAT { "a": 1.5 }`,
		`table t RTIME { "a": 10s }`,
		`table t BACKEND { "a": b }`,
		`table t ACL { "a": c }`,
		`table t { "": "" }`,
		`penaltybox p { }`,
		`ratecounter r { }`,
		`import x;`,
		`include "x";`,
		// statements in blocks that "must be empty", an object nested in a probe object: the parser accepts them
		`penaltybox p { esi; }`,
		`ratecounter r { set req.http.A = "b"; log "x"; }`,
		`backend b { .host = "h"; .probe = { .request = "a"; .probe = { .x = 1; .y = { .z = "2"; } } } }`,
	}
	var out []rtCase
	for _, s := range subs {
		out = append(out, rtCase{Src: s})
	}
	out = append(out, rtCase{Src: `set req.http.A = "b"; if (a) { esi; } return(lookup);`, Snippet: true})
	return out
}

func genCases(g *fw.GenCtx) {
	sd := seeds.Load(g.Repo, g.Verif)
	var srcs []rtCase
	for _, f := range forced() {
		srcs = append(srcs, f)
	}
	for _, s := range sd {
		for _, p := range seeds.Pieces(s.Text, 6000) {
			srcs = append(srcs, rtCase{Src: p, Snippet: strings.Contains(s.Name, "snippet.vcl")})
		}
	}
	// programs from the grammar-directed generator (every node kind, optional parts present and absent,
	// director members and scalar properties interleaved, every literal class)
	nForcedAndSeeds := len(srcs)
	for k := 0; k < g.Pick(300, 8000); k++ {
		p := gen.New(rand.New(rand.NewSource(g.Rand.Int63())), gen.Opts{MaxDepth: 3, Decls: 2 + g.Rand.Intn(4)}).Program()
		srcs = append(srcs, rtCase{Src: render.Canonical(p.Toks)})
	}
	for _, s := range srcs {
		g.Emit("rt", s)
	}
	// streams: whole seed files (not cut into pieces) and long files whose frames slide over every
	// alignment with respect to the decoder's 4096-byte read buffer, decoded through readers that
	// deliver the bytes in every legal chunking (an io.Reader may return fewer bytes than asked for:
	// a plugin reads its request from a pipe)
	for _, s := range sd {
		if len(s.Text) < 200000 && !strings.Contains(s.Name, "snippet.vcl") {
			g.Emit("stream", streamCase{Src: s.Text})
		}
	}
	sr := rand.New(rand.NewSource(g.Seed*1000003 + 19)) // own stream: the other families keep their draws
	for pad := 0; pad < g.Pick(48, 640); pad++ {
		var sb strings.Builder
		fmt.Fprintf(&sb, "sub pad { log \"%s\"; }\n", strings.Repeat("p", pad))
		limit := 2600 + sr.Intn(g.Pick(4000, 30000))
		for sb.Len() < limit {
			p := gen.New(rand.New(rand.NewSource(sr.Int63())), gen.Opts{MaxDepth: 2, Decls: 2}).Program()
			sb.WriteString(render.Canonical(p.Toks))
			sb.WriteString("\n")
		}
		g.Emit("stream", streamCase{Src: sb.String()})
	}
	srcs = srcs[:nForcedAndSeeds+g.Pick(40, 400)]
	// decoder totality: systematic families on a subset, PRNG mutations on all
	r := g.Rand
	for i, s := range srcs {
		if len(s.Src) > 20000 || s.Snippet {
			continue
		}
		// the systematic families are quadratic in the encoding size: the boundary-length leaves of the
		// forced corpus go through the round trip and the PRNG mutations only
		full := (i < len(forced()) || r.Intn(g.Pick(8, 2)) == 0) && len(s.Src) < 1500
		g.Emit("dec", decCase{Src: s.Src, Seed: r.Int63(), N: g.Pick(150, 4000), Full: full})
	}
	// raw byte strings
	for k := 0; k < g.Pick(40, 2000); k++ {
		var rc rawCase
		for j := 0; j < 500; j++ {
			n := r.Intn(64)
			if r.Intn(10) == 0 {
				n = r.Intn(2000)
			}
			b := make([]byte, n)
			switch r.Intn(3) {
			case 0:
				r.Read(b)
			case 1: // small alphabet of low bytes (frame types are small numbers)
				for x := range b {
					b[x] = byte(r.Intn(80))
				}
			case 2: // nested container headers
				for x := range b {
					switch x % 3 {
					case 0:
						b[x] = byte(1 + r.Intn(60))
					case 1:
						b[x] = 0
					case 2:
						b[x] = byte(r.Intn(8))
					}
				}
			}
			rc.B64 = append(rc.B64, base64.StdEncoding.EncodeToString(b))
		}
		g.Emit("raw", rc)
	}
	// 64 KiB of nested container headers for each frame type (~21 000 levels: the decoder is
	// recursive-descent without a depth limit, so the bomb is sized to fit the 64 MiB worker stack;
	// a larger one overflows any finite stack and says nothing a realistic change could alter)
	for ft := 1; ft < 80; ft += g.Pick(8, 1) {
		b := bytes.Repeat([]byte{byte(ft), 0xff, 0xff}, 1<<16/3)
		g.Emit("raw", rawCase{B64: []string{base64.StdEncoding.EncodeToString(b)}})
	}
	// else-if frames nest through decodeIfStatement itself: one unit = IF_STATEMENT header, empty keyword,
	// a one-byte condition, an empty block, and the next IF_STATEMENT in the else-if position
	{
		unit := []byte{0x1e, 0, 0, 0x36, 0, 0, 0x33, 0, 1, 1, 0x11, 0, 0, 1}
		b := bytes.Repeat(unit, g.Pick(1000000, 3000000))
		g.Emit("raw", rawCase{B64: []string{base64.StdEncoding.EncodeToString(b)}})
	}
	// much deeper bombs (0.3 / 1 million levels, behind a statement header that expects an expression and bare):
	// they overflow the 64 MiB worker stack unless the decoder bounds its recursion
	for ft := 1; ft < 80; ft += g.Pick(4, 1) {
		levels := g.Pick(300000, 1000000)
		for _, lenBytes := range [][]byte{{0, 0}, {0xff, 0xff}} {
			unit := append([]byte{byte(ft)}, lenBytes...)
			b := bytes.Repeat(unit, levels)
			g.Emit("raw", rawCase{B64: []string{base64.StdEncoding.EncodeToString(b), base64.StdEncoding.EncodeToString(append([]byte{0x21, 0, 0}, b...))}})
		}
	}
}

// ---------------------------------------------------------------------------------------------

// prevEncodes are the statements of the previous file of this worker (monitor of the Encodes buffer)
var prevEncodes []ast.Statement

var cmpOpts = &astcmp.Opts{
	Ignore: map[string]bool{
		"HasParenthesis": true, "HasComma": true, "Keyword": true, "LongString": true, "Delimiter": true, "Explicit": true,
		"VCL.IsSnippet": true,
	},
	NumLiteral: true,
}

func parse(src string, snippet bool) ([]ast.Statement, error) {
	p := parser.New(lexer.NewFromString(src))
	if snippet {
		return p.ParseSnippetVCL()
	}
	v, err := p.ParseVCL()
	if err != nil {
		return nil, err
	}
	return v.Statements, nil
}

// collect returns every statement that can be handed to the encoder on its own: top-level
// statements and every statement nested in a block.
func collect(stmts []ast.Statement) []ast.Statement {
	var out []ast.Statement
	var walk func(s ast.Statement)
	walkBlock := func(b *ast.BlockStatement) {
		if b == nil {
			return
		}
		for _, s := range b.Statements {
			walk(s)
		}
	}
	walk = func(s ast.Statement) {
		if s == nil || reflect.ValueOf(s).IsNil() {
			return
		}
		out = append(out, s)
		switch t := s.(type) {
		case *ast.SubroutineDeclaration:
			walkBlock(t.Block)
		case *ast.BlockStatement:
			walkBlock(t)
		case *ast.IfStatement:
			walkBlock(t.Consequence)
			for _, a := range t.Another {
				walkBlock(a.Consequence)
			}
			if t.Alternative != nil {
				walkBlock(t.Alternative.Consequence)
			}
		case *ast.SwitchStatement:
			for _, c := range t.Cases {
				for _, s := range c.Statements {
					walk(s)
				}
			}
		}
	}
	for _, s := range stmts {
		walk(s)
	}
	return out
}

func kindOf(s any) string {
	t := reflect.TypeOf(s)
	for t.Kind() == reflect.Ptr {
		t = t.Elem()
	}
	return t.Name()
}

type budgetReader struct {
	r    io.Reader
	eofs int
}

const errDecSpin = "ErrDecoderSpinsAtEOF"

func (b *budgetReader) Read(p []byte) (int, error) {
	n, err := b.r.Read(p)
	if err == io.EOF {
		b.eofs++
		if b.eofs > 65 {
			panic(errDecSpin)
		}
	}
	return n, err
}

func decodeGuarded(bin []byte) (stmts []ast.Statement, err error, pk string, pmsg string) {
	p, msg, st := fw.Guard(func() {
		stmts, err = codec.NewDecoder(&budgetReader{r: bytes.NewReader(bin)}).Decode()
	})
	if p {
		if msg == errDecSpin {
			return nil, nil, "dec-hang:" + fw.TopFalcoFrame(st), "decoder keeps reading after EOF (>64 reads past the end of the input)\n" + fw.TrimStack(st)
		}
		return nil, nil, "dec-" + fw.PanicKey(st), "Decode panicked: " + msg + "\n" + fw.TrimStack(st)
	}
	return stmts, err, "", ""
}

func roundTrip(oc *fw.Outcome, s ast.Statement, src string) (enc []byte) {
	kind := kindOf(s)
	var bin []byte
	var err error
	p, msg, st := fw.Guard(func() { bin, err = codec.NewEncoder().Encode(s) })
	detail := func() map[string]any {
		return map[string]any{"source": clip(src, 400), "statement": clip(safeString(s), 400)}
	}
	if p {
		oc.Violate("enc-"+fw.PanicKey(st)+"/"+kind, "Encode panicked: "+msg+"\n"+fw.TrimStack(st), detail())
		return nil
	}
	if err != nil {
		oc.Violate("enc-error:"+kind, "Encode returned an error for a parser-produced statement: "+err.Error(), detail())
		return nil
	}
	out, derr, pk, pmsg := decodeGuarded(bin)
	if pk != "" {
		oc.Violate("rt-"+pk+"/"+kind, "decoding a valid encoding: "+pmsg, detail())
		return bin
	}
	if derr != nil {
		oc.Violate("rt:decode-error/"+kind+"/"+errClass(derr.Error()), "decoding the encoding of a parser-produced statement fails: "+derr.Error(), detail())
		return bin
	}
	if len(out) != 1 {
		oc.Violate("rt:count/"+kind, fmt.Sprintf("one statement encoded, %d decoded", len(out)), detail())
		return bin
	}
	a, b := astcmp.Build(s, cmpOpts), astcmp.Build(out[0], cmpOpts)
	if d := astcmp.Compare(a, b); d != nil {
		dd := detail()
		dd["path"], dd["original"], dd["decoded"] = d.Path, d.A, d.B
		oc.Violate("rt:"+d.Key(), fmt.Sprintf("decode(encode(s)) differs at %s: %s vs %s", d.Path, clip(d.A, 120), clip(d.B, 120)), dd)
	}
	return bin
}

// oversizeLeaf names the kind of the first leaf literal longer than the 16-bit frame size allows.
func oversizeLeaf(s ast.Statement) string {
	out := ""
	astcmp.Build(s, cmpOpts).Walk(func(n *astcmp.N) {
		if out != "" || n.T == "" {
			return
		}
		if v := n.Get("Value"); v != nil && v.T == "" && !v.IsList && len(v.S) > 65535+2 {
			out = n.T
		}
	})
	return out
}

func errClass(s string) string {
	if i := strings.Index(s, ":"); i > 0 {
		s = s[:i]
	}
	return clip(s, 40)
}

func safeString(s ast.Statement) (out string) {
	defer func() {
		if r := recover(); r != nil {
			out = fmt.Sprintf("<String() panicked: %v>", r)
		}
	}()
	return s.String()
}

func clip(s string, n int) string {
	if len(s) > n {
		return s[:n] + "…"
	}
	return s
}

func run(c fw.Case) fw.Outcome {
	var oc fw.Outcome
	switch c.Kind {
	case "rt":
		var rc rtCase
		json.Unmarshal(c.Data, &rc)
		runRT(&oc, rc)
	case "dec":
		var dc decCase
		json.Unmarshal(c.Data, &dc)
		runDec(&oc, dc)
	case "stream":
		var sc streamCase
		json.Unmarshal(c.Data, &sc)
		runStream(&oc, sc)
	case "raw":
		var rc rawCase
		json.Unmarshal(c.Data, &rc)
		for _, s := range rc.B64 {
			b, _ := base64.StdEncoding.DecodeString(s)
			hostileDecode(&oc, b, "raw", nil)
		}
	}
	return oc
}

// chunkReader hands out the bytes of b in pieces of at most n bytes (n <= 0: a piece of k%7+1 bytes at the k-th call).
type chunkReader struct {
	b []byte
	n int
	k int
}

func (c *chunkReader) Read(p []byte) (int, error) {
	if len(c.b) == 0 {
		return 0, io.EOF
	}
	n := c.n
	if n <= 0 {
		n = c.k%7 + 1
	}
	c.k++
	if n > len(p) {
		n = len(p)
	}
	if n > len(c.b) {
		n = len(c.b)
	}
	copy(p, c.b[:n])
	c.b = c.b[n:]
	return n, nil
}

// runStream: Encodes of a whole file decodes to the file's statements whatever the chunking of the byte stream.
// Files with a statement that does not round-trip alone are left to the rt family.
func runStream(oc *fw.Outcome, sc streamCase) {
	fw.JournalS(sc.Src)
	top, err := parse(sc.Src, false)
	if err != nil || len(top) == 0 {
		oc.Tag("stream:unparseable-seed")
		return
	}
	for _, s := range top {
		var one []byte
		var eerr error
		if p, _, _ := fw.Guard(func() { one, eerr = codec.NewEncoder().Encode(s) }); p || eerr != nil {
			oc.Tag("stream:skipped-failing-statement")
			return
		}
		out, derr, pk, _ := decodeGuarded(one)
		if pk != "" || derr != nil || len(out) != 1 || astcmp.Compare(astcmp.Build(s, cmpOpts), astcmp.Build(out[0], cmpOpts)) != nil {
			oc.Tag("stream:skipped-failing-statement")
			return
		}
	}
	var bin []byte
	if p, _, _ := fw.Guard(func() { bin, err = codec.NewEncoder().Encodes(top) }); p || err != nil {
		oc.Tag("stream:encodes-failed") // judged by the rt family
		return
	}
	bin = append([]byte(nil), bin...)
	oc.Tag(fmt.Sprintf("stream:bytes<=%d", 4096*((len(bin)+4095)/4096)))
	for _, n := range []int{1 << 30, 1, 2, 3, 0, 511, 512, 513, 4095, 4096, 4097} {
		oc.Evals++
		name := fmt.Sprint(n)
		if n == 1<<30 {
			name = "unlimited"
		} else if n == 0 {
			name = "1..7"
		}
		var out []ast.Statement
		var derr error
		p, msg, st := fw.Guard(func() {
			out, derr = codec.NewDecoder(&budgetReader{r: &chunkReader{b: bin, n: n}}).Decode()
		})
		if p {
			oc.Violate("stream:dec-"+fw.PanicKey(st)+"/chunk="+name, "Decode of a file's encoding panicked when the stream arrives in pieces of "+name+" bytes: "+msg, map[string]any{"source": clip(sc.Src, 400), "encoded_bytes": len(bin)})
			return
		}
		if derr != nil {
			oc.Violate("stream:decode-failed/chunk="+name, fmt.Sprintf("Encodes of a file (%d bytes) whose statements all round-trip alone does not decode when the stream arrives in pieces of %s bytes: %v", len(bin), name, derr), map[string]any{"source": clip(sc.Src, 400), "encoded_bytes": len(bin)})
			return
		}
		if len(out) != len(top) {
			oc.Violate("stream:count/chunk="+name, fmt.Sprintf("Encodes of %d statements (%d bytes) decodes to %d when the stream arrives in pieces of %s bytes", len(top), len(bin), len(out), name), map[string]any{"source": clip(sc.Src, 400)})
			return
		}
		for i := range top {
			if d := astcmp.Compare(astcmp.Build(top[i], cmpOpts), astcmp.Build(out[i], cmpOpts)); d != nil {
				oc.Violate("stream:"+d.Key()+"/chunk="+name, fmt.Sprintf("file round trip (%d bytes, pieces of %s bytes) differs at [%d]%s: %s vs %s", len(bin), name, i, d.Path, clip(d.A, 120), clip(d.B, 120)), map[string]any{"source": clip(sc.Src, 400)})
				return
			}
		}
		oc.NonTrivialS(fmt.Sprintf("stream|%s|%d|%x", name, len(bin), fw.Hash64(bin)))
	}
}

func runRT(oc *fw.Outcome, rc rtCase) {
	fw.JournalS(rc.Src)
	top, err := parse(rc.Src, rc.Snippet)
	if err != nil {
		oc.Tag("rt:unparseable-seed")
		return
	}
	all := collect(top)
	// innermost first: a container whose nested statement already fails on its own is not
	// reported again (the finding key names the smallest failing statement)
	failed := map[ast.Statement]bool{}
	for i := len(all) - 1; i >= 0; i-- {
		s := all[i]
		oc.Evals++
		oc.Tag("rt:" + kindOf(s))
		nestedFails := false
		for _, n := range collect([]ast.Statement{s})[1:] {
			if failed[n] {
				nestedFails = true
			}
		}
		if nestedFails {
			failed[s] = true
			oc.Tag("rt:container-of-failing-statement")
			continue
		}
		before := len(oc.Viols)
		var tmp fw.Outcome
		roundTrip(&tmp, s, rc.Src)
		if len(tmp.Viols) > 0 {
			failed[s] = true
			for _, v := range tmp.Viols {
				key := v.Key
				if big := oversizeLeaf(s); big != "" {
					key = "rt:oversize-leaf/" + big
				}
				oc.Violate(key, v.What, v.Detail)
			}
		}
		_ = before
		n := astcmp.Build(s, cmpOpts)
		cnt := 0
		n.Walk(func(*astcmp.N) { cnt++ })
		if cnt > 3 {
			oc.NonTrivialS("rt|" + n.String())
		}
	}
	// whole file through Encodes
	oc.Evals++
	var bin []byte
	p, msg, st := fw.Guard(func() { bin, err = codec.NewEncoder().Encodes(top) })
	if p {
		oc.Violate("encs-"+fw.PanicKey(st), "Encodes panicked: "+msg, map[string]any{"source": clip(rc.Src, 400)})
		return
	}
	if err != nil {
		oc.Violate("encs-error", "Encodes returned an error: "+err.Error(), map[string]any{"source": clip(rc.Src, 400)})
		return
	}
	// the bytes belong to the caller: a later Encodes call (of another file) must not change them
	keep := append([]byte{}, bin...)
	if prevEncodes != nil {
		fw.Guard(func() { codec.NewEncoder().Encodes(prevEncodes) }) // nolint
	}
	if !bytes.Equal(keep, bin) {
		oc.Violate("encs:bytes-overwritten-by-next-call", "the byte slice returned by Encodes changed when Encodes was called again for other statements", map[string]any{"source": clip(rc.Src, 400)})
		bin = keep
	}
	prevEncodes = top
	out, derr, pk, pmsg := decodeGuarded(bin)
	if pk != "" || derr != nil {
		if len(failed) == 0 {
			oc.Violate("rt-file:decode-failed", "Encodes of a file whose statements all round-trip alone does not decode: "+pmsg+fmt.Sprint(derr), map[string]any{"source": clip(rc.Src, 400)})
		}
		oc.Tag("encs:decode-failed")
		return
	}
	if len(out) != len(top) {
		oc.Violate("rt:file-count", fmt.Sprintf("Encodes of %d statements decodes to %d", len(top), len(out)), map[string]any{"source": clip(rc.Src, 400)})
		return
	}
	for i := range top {
		if failed[top[i]] {
			continue
		}
		if d := astcmp.Compare(astcmp.Build(top[i], cmpOpts), astcmp.Build(out[i], cmpOpts)); d != nil {
			oc.Violate("rt-file:"+d.Key(), fmt.Sprintf("file round trip (Encodes) differs at [%d]%s although the statement round-trips alone: %s vs %s", i, d.Path, clip(d.A, 120), clip(d.B, 120)), map[string]any{"source": clip(rc.Src, 400)})
			break
		}
	}
}

var poisons [][]byte

func buildPoisons() {
	if poisons != nil {
		return
	}
	stmts, err := parse(`sub f { log "`+strings.Repeat("A", 509)+`"; }`, false)
	if err != nil {
		poisons = [][]byte{}
		return
	}
	bin, err := codec.NewEncoder().Encode(stmts[0].(*ast.SubroutineDeclaration).Block.Statements[0])
	if err != nil {
		poisons = [][]byte{}
		return
	}
	for _, pat := range [][]byte{{0x00}, {0xff}, {0x0d, 0x00, 0xff}, {0x01, 0x02}, {0x7f}} {
		b := append([]byte{}, bin...)
		k := 0
		for i := range b {
			if b[i] == 'A' {
				b[i] = pat[k%len(pat)]
				k++
			}
		}
		poisons = append(poisons, b)
	}
}

func poison(i int) {
	if len(poisons) == 0 {
		return
	}
	fw.Guard(func() { codec.NewDecoder(bytes.NewReader(poisons[i%len(poisons)])).Decode() })
}

// hostileDecode decodes one byte string under every pool poison and through the plugin entry point.
func hostileDecode(oc *fw.Outcome, b []byte, family string, valid map[uint64]bool) {
	buildPoisons()
	if fwJournalOn() {
		fw.JournalS(base64.StdEncoding.EncodeToString(b))
	}
	h := fw.Hash64(b)
	if !valid[h] && len(b) > 0 {
		oc.NT = append(oc.NT, h)
	}
	np := len(poisons)
	if np == 0 {
		np = 1
	}
	for pi := 0; pi < np; pi++ {
		poison(pi)
		oc.Evals++
		_, err, pk, pmsg := decodeGuarded(b)
		if pk != "" {
			oc.Violate(pk, pmsg, map[string]any{"bytes_b64": base64.StdEncoding.EncodeToString(clipB(b, 4096)), "family": family, "poison": pi})
			return
		}
		if err != nil {
			oc.Tag("dec:error")
		} else {
			oc.Tag("dec:ok")
		}
	}
	// plugin entry point
	oc.Evals++
	p, msg, st := fw.Guard(func() {
		plugin.ReadLinterRequest[*ast.SetStatement](&budgetReader{r: bytes.NewReader(b)})
	})
	if p {
		k := "plugin-" + fw.PanicKey(st)
		if msg == errDecSpin {
			k = "plugin-hang:" + fw.TopFalcoFrame(st)
		}
		oc.Violate(k, "plugin.ReadLinterRequest panicked: "+msg+"\n"+fw.TrimStack(st), map[string]any{"bytes_b64": base64.StdEncoding.EncodeToString(clipB(b, 4096)), "family": family})
	}
	oc.Tag("fam:" + family)
}

func fwJournalOn() bool { return true }

func clipB(b []byte, n int) []byte {
	if len(b) > n {
		return b[:n]
	}
	return b
}

func runDec(oc *fw.Outcome, dc decCase) {
	top, err := parse(dc.Src, false)
	if err != nil {
		return
	}
	var encs [][]byte
	valid := map[uint64]bool{}
	for _, s := range collect(top) {
		var bin []byte
		p, _, _ := fw.Guard(func() { bin, err = codec.NewEncoder().Encode(s) })
		if p || err != nil || len(bin) == 0 || len(bin) > 8192 {
			continue
		}
		encs = append(encs, bin)
		valid[fw.Hash64(bin)] = true
	}
	if len(encs) == 0 {
		return
	}
	r := rand.New(rand.NewSource(dc.Seed))
	if dc.Full {
		// systematic families on up to 6 encodings of this source
		idx := r.Perm(len(encs))
		if len(idx) > 6 {
			idx = idx[:6]
		}
		for _, i := range idx {
			e := encs[i]
			for n := 0; n < len(e); n++ {
				hostileDecode(oc, e[:n], "trunc", valid)
			}
			lim := len(e)
			if lim > 256 {
				lim = 256
			}
			for p := 0; p < lim; p++ {
				for bit := 0; bit < 8; bit++ {
					m := append([]byte{}, e...)
					m[p] ^= 1 << uint(bit)
					hostileDecode(oc, m, "bitflip", valid)
				}
			}
			lim2 := len(e)
			if lim2 > 48 {
				lim2 = 48
			}
			for p := 0; p < lim2; p++ {
				for v := 0; v < 256; v += 1 {
					if byte(v) == e[p] {
						continue
					}
					m := append([]byte{}, e...)
					m[p] = byte(v)
					hostileDecode(oc, m, "bytesweep", valid)
				}
			}
			for p := 0; p+1 < lim; p++ {
				for _, v := range [][2]byte{{0, 0}, {0, 1}, {0, 7}, {0xff, 0xff}, {0, 0xff}} {
					m := append([]byte{}, e...)
					m[p], m[p+1] = v[0], v[1]
					hostileDecode(oc, m, "lenfield", valid)
				}
			}
		}
	}
	for k := 0; k < dc.N; k++ {
		e := encs[r.Intn(len(encs))]
		m := append([]byte{}, e...)
		fam := ""
		switch r.Intn(6) {
		case 0:
			m = m[:r.Intn(len(m))]
			fam = "r-trunc"
		case 1:
			for n := 1 + r.Intn(3); n > 0; n-- {
				m[r.Intn(len(m))] ^= 1 << uint(r.Intn(8))
			}
			fam = "r-bitflip"
		case 2:
			for n := 1 + r.Intn(3); n > 0; n-- {
				m[r.Intn(len(m))] = byte(r.Intn(256))
			}
			fam = "r-byte"
		case 3:
			o := encs[r.Intn(len(encs))]
			m = append(m[:r.Intn(len(m))], o[r.Intn(len(o)):]...)
			fam = "r-splice"
		case 4:
			p := r.Intn(len(m))
			ins := make([]byte, 1+r.Intn(6))
			r.Read(ins)
			m = append(append(append([]byte{}, m[:p]...), ins...), m[p:]...)
			fam = "r-insert"
		case 5:
			p := r.Intn(len(m))
			q := p + 1 + r.Intn(4)
			if q > len(m) {
				q = len(m)
			}
			m = append(append([]byte{}, m[:p]...), m[q:]...)
			fam = "r-delete"
		}
		hostileDecode(oc, m, fam, valid)
	}
}
