#!/usr/bin/env python3
"""Prints the C05 findings document (markdown) on stdout and rewrites known_findings_proposed.json,
both from the full violation list the check writes to /verif/.build/tmp/C05-violations-<tier>.json
(the orchestrator itself prints only the first 20 violations).

usage: ./check C05 thorough ; python3 harness/cmd/c05/mkfindings.py > harness/cmd/c05/FINDINGS.md
The root-cause grouping below is hand-written judgement; a key matching no rule is listed under
UNCLASSIFIED so that a new disagreement cannot hide in an old group."""
import json, re, collections, os, sys

HERE = os.path.dirname(os.path.abspath(__file__))
SRC = sys.argv[1] if len(sys.argv) > 1 else '/verif/.build/tmp/C05-violations-thorough.json'
rows = json.load(open(SRC))

# hand-written part of the document (numbers are those of the pinned tree, thorough tier)
HEAD = r'''
# C05 — findings on the pinned tree

(printed by `python3 harness/cmd/c05/mkfindings.py` from the complete violation list the check
writes to `/verif/.build/tmp/C05-violations-<tier>.json`.)

## What was run

| family | cells quick | cells thorough | linter accepts | executed | exec ok | exec fails | panics |
|---|---|---|---|---|---|---|---|
| B1 variables: 473 keys x {get, set, unset, gettype} x 9 scopes | 16 974 | 16 974 | 5 702 | 5 702 | 5 050 | 350 (+302 gettype reads of an undefined variable, reported by the `get` cell only) | 0 |
| B2 functions: 199 keys x declared signatures x 9 scopes x {expr, stmt} | 3 654 | 3 654 | 1 872 | 1 872 | 1 842 | 12 | 18 |
| B2n argument variants (-1 arg, +1 arg, one wrongly typed argument per position) | - | 13 761 | 0 (all rejected, as the reference demands) | - | - | - | - |
| B3 restart / error / esi / synthetic / synthetic.base64 / return(9 actions) x 9 scopes | 126 | 126 | 47 | 47 | 39 | 8 | 0 |
| A 15 assignment + 8 comparison operators x left x right x form | 5 880 | 5 880 | 437 | 437 | 416 | 21 | 0 |
| P two-scope `@scope: a,b` (36 pairs) x B1 {get,set,unset} + B2 + B3, lint only | - | 66 204 | 17 400 | - | - | - | - |

`gettype` is an addition to the brief: a type-strict read `if (var.t == X) {} if (X == var.t) {}`
with `var.t` a local of the declared `get:` type. `==` demands identical operand types in the
linter and (per operand order) in the simulator, so it observes whether table, linter and
simulator agree on the *type* of a variable, which a plain assignment (implicit conversions)
does not. It found `client.ip`, `client.identified`, `beresp.backend.ip`.

Not-executable cells: none. Inconclusive (value-dependent) runtime errors after the operand
fixes below: none (no `inconclusive:*` tag in the evidence).
In thorough the linter-rejected single-scope cells are executed too, as information only
(`info/lint-rejects-sim-accepts/*`: A 33, B1 83, B2n 98, B3 55; `info/lint-rejects-sim-panics/B2n 9`
= `early_hints` variants).

## `esi` - what the repository says

* `linter/statement_linter.go` `lintEsiStatement`: "Nothing to lint because this statement is
  simply esi; and enabled in all subroutines" - the linter never rejects it.
* `docs/parser.md` documents only the syntax; `docs/rules.md` has scope rules for restart, error,
  synthetic, synthetic.base64 and none for esi; `docs/simulator.md` only says "ESI will not work
  correctly".
* `interpreter/statement.go` `ProcessEsiStatement`: "Fastly document says the esi will be triggered
  when esi statement is executed in FETCH directive" - a runtime error in the other eight scopes.

The check's reference therefore allows `esi` in all nine scopes (no lint-direction finding); the
eight non-FETCH scopes are execution-half findings (group S1).

## Frozen assignment/comparison table (`reftab/assign_table.json`, 5 880 cells, 437 accept)

Generated with `C05_FREEZE=1 /verif/.build/bin/c05` from the linter's verdicts on the pinned tree.
Compact form of the accepted cells (`lit`/`loc`/`pre` = literal / local / predefined right operand):

```
=    BACKEND <- BACKEND[lit,loc,pre]   REQBACKEND(req.backend) <- BACKEND[lit,loc,pre]   BOOL <- BOOL[lit,loc,pre]   ACL(local) <- ACL[lit]
     INTEGER <- INTEGER[lit,loc,pre] FLOAT[loc,pre] RTIME[loc,pre] TIME[loc,pre]
     FLOAT   <- INTEGER[lit,loc,pre] FLOAT[lit,loc,pre] RTIME[loc,pre] TIME[loc,pre]
     RTIME   <- RTIME[lit,loc,pre] TIME[loc,pre] INTEGER[loc,pre] FLOAT[loc,pre]
     TIME    <- RTIME[lit,loc,pre] TIME[loc,pre] INTEGER[loc,pre] FLOAT[loc,pre]
     IP      <- IP[loc,pre] STRING[lit,loc,pre] header[pre]
     STRING, header <- STRING[lit,loc,pre] header[pre] BOOL[lit,loc,pre] INTEGER/FLOAT/RTIME/TIME/IP[loc,pre] BACKEND[pre = req.backend only]
+=   INTEGER, FLOAT, RTIME as for `=`; TIME <- RTIME[lit,loc,pre] INTEGER[loc,pre] FLOAT[loc,pre] (not TIME); STRING, header as for `=`
-=   as += for INTEGER, FLOAT, RTIME, TIME; nothing for STRING/header
*= /= %=   INTEGER <- INTEGER[lit,loc,pre] FLOAT[loc,pre];  FLOAT, RTIME <- INTEGER[lit,loc,pre] FLOAT[lit,loc,pre]
|= &= ^= <<= >>= rol= ror=   INTEGER <- INTEGER[lit,loc,pre]
&&= ||=    BOOL <- BOOL[lit,loc,pre]
== !=      same type only (INTEGER, FLOAT, STRING/header, BOOL, RTIME, TIME, IP, BACKEND incl. req.backend, ACL==ACL)
< > <= >=  INTEGER vs INTEGER, RTIME;  FLOAT, RTIME vs INTEGER, FLOAT, RTIME  (all three forms); nothing for TIME, STRING, ...
~ !~       STRING, header, IP  ~  STRING[lit only], ACL[lit]
```

Cells where the linter ACCEPTS but the simulator FAILS at the pin (violations of the execution
half on every run; groups O1-O4 below): `~`/`!~` IP vs STRING literal (2); `==`/`!=` ACL vs ACL
(2); `=` ACL local <- ACL (1); `< > <= >=` INTEGER|FLOAT vs RTIME literal and RTIME vs
INTEGER|FLOAT literal (16). 21 cells.

Cells that look wrong or doubtful against the comments in `linter/operator.go` /
`expression_linter.go` and what I remember of the Fastly operator documentation (no network; the
spreadsheet the source cites could not be consulted) - they ARE in the table as the linter has
them, the table was not corrected by hand:

1. `IP ~ "literal"` accepted (O1): certainly a linter mistake (left and right operand sets are
   checked independently).
2. `ACL == ACL` accepted (O2) and `set <ACL local> = acl` accepted (O3): no such operations exist.
3. `< > <= >=` with a *literal* of the other type across RTIME/INTEGER/FLOAT accepted (O4): the
   interpreter encodes "variable only" for exactly these pairs.
4. `=`: the RTIME and TIME rows are merged in `lintAssignOperator` (`case types.RTimeType,
   types.TimeType:` ... `case types.RTimeType, types.TimeType: return`), so `set var.time = 5s;`
   (TIME <- RTIME literal) and `set var.rtime = now;` (RTIME <- TIME variable) lint clean; `+=`/`-=`
   keep the two rows apart. The simulator executes both. Looks like over-acceptance, not provable offline.
5. `%=` is linted together with `*=` and `/=`, so `FLOAT %= FLOAT` and `RTIME %= INTEGER` are
   accepted (and executed). Fastly's modulus is, as far as I remember, INTEGER-only. Doubtful.
6. `STRING/header <- BACKEND` is accepted only for `req.backend` (type REQBACKEND), rejected for a
   BACKEND local and for a backend name, although the function-argument coercion table of the
   same linter lets BACKEND coerce to STRING. Inconsistent rather than wrong.
7. `IP <- STRING` is accepted for variables and headers as well as literals (`set var.ip =
   req.http.X;`). Fastly, as far as I remember, wants a literal or `std.ip()`. Doubtful.
8. `STRING ~ ACL` / `header ~ ACL` accepted (the simulator parses the string as an IP). Doubtful.
9. `INTEGER < FLOAT` is rejected while `FLOAT < INTEGER` is accepted, `INTEGER == FLOAT` rejected:
   asymmetric but matches the comment in the source.
10. Because predefined.yml types `client.ip` as STRING, `if (var.ip == client.ip)` is rejected and
    `if (req.http.X == client.ip)` accepted (then fails at run time) - a table defect (group T2),
    not an operator-table cell: family A uses `server.ip` as its IP representative for this reason
    (the brief named `client.ip`).

## Oracle / instantiation mistakes made and fixed (none of these is reported)

* Generic function arguments outside the value domain (31 functions): base64/hex/PEM inputs,
  bases, units, separators, UUID namespace, ratelimit windows/limits/TTL, typed tables for
  `table.lookup_<type>`, declared ratecounter/penaltybox identifiers, crypto identifiers
  (`aes128, cbc, nopad`), `sha256`/`der`/`url_nopad`, real RSA/EC public keys with valid
  signatures (`fnArgs`, `fnExtraPre` in main.go). All former `inconclusive:*` classes are gone.
  Side observation: with a STRING table the linter accepts `table.lookup_integer(tbl, ...)` and the
  simulator refuses ("value type is not INTEGER") - the linter does not check the table's value type.
* `table.lookup_acl` returns an ACL: used as `if (var.ip ~ table.lookup_acl(...)) {}` instead of an
  assignment to an ACL local (which can never execute, O3); `table.lookup_regex` as `req.url ~ ...`.
* `setcookie.*`: first argument `beresp` in FETCH, `resp` elsewhere (what remains is F3).
* Operand values: STRING operands are IP-formatted ("192.0.2.9", "192.0.2.7", `client.identity`)
  so that `IP = STRING` and `STRING ~ ACL` are value-benign; the INTEGER predefined operand is
  `client.requests` (1) instead of `req.restarts` (0: division by zero) - and not `client.port`
  (1111), with which `rol=`/`ror=` PANIC the interpreter ("negative shift amount", rotate count
  > 64): a real crash, value-dependent, outside this property's cell space, worth a look under C07/C08.
  FLOAT `client.geo.latitude`, RTIME `client.sess_timeout` (600 s; `time.elapsed` is wall-clock).
* `table t IP { "k": "192.0.2.1" }` is rejected by the linter ("requires type IP but STRING was
  assigned") - an IP table with entries cannot be written lint-clean at all; the scaffold uses an
  empty IP table. Side observation, not a C05 cell.
* `gettype` on a variable that is undefined in the simulator reports "comparison NULL and T":
  suppressed (tag `gettype-undefined(reported-by-get-cell)`), the plain `get` cell carries the finding.
* `digest.time_hmac_*` read the wall clock: interval pinned beyond the epoch (see F2).
* A runtime error on a plain read/unset of a variable has no operand to blame, so any error class
  there is a violation (`exec:error:<slug>`; this is how `req.is_ipv6` is reported).

## Ambiguities in the brief

* "req.http.Y STRING": `header` is kept as its own right type (`req.http.Y`) and `client.identity`
  is the STRING predefined representative; the linter types both STRING.
* left type ACL: for comparisons the bare acl name; for assignments a declared ACL local.
* REQBACKEND (`req.backend`) is an extra assignment target besides a BACKEND local.
* TIME and IP have no literal form, headers no local form, ACL no local/predefined right form:
  those (type, form) combinations do not exist and are not cells (5 880 = what remains).
* The too-few/too-many variants are skipped where another declared signature has that argument
  count or the signature is variadic; the wrongly-typed-argument variants (an ACL name where no
  parameter coerces from ACL) are an addition.
'''

# (group id, regex on key, title, one-line "what" for known_findings, judgement text)
GROUPS = [
 ('V1', r'^var:geoip\..*/exec:undefined$',
  'legacy `geoip.*` variables are not implemented by the interpreter at all',
  'linter accepts (predefined.yml declares it for this scope); simulator: undefined variable (geoip.* namespace not implemented in interpreter/variable)',
  'GENUINE. predefined.yml (and therefore the linter) declares 22 `geoip.*` names readable in all nine scopes and `geoip.ip_override` / `geoip.use_x_forwarded_for` writable; no `interpreter/variable/*.go` has a case for any of them (only the `client.geo.*` successors exist), so every read or write fails with "undefined variable".'),
 ('V2', r'^var:fastly\.bot\..*/exec:undefined$',
  '`fastly.bot.*` is implemented only for RECV, HASH, DELIVER and LOG',
  'linter accepts (predefined.yml: all scopes); simulator: undefined variable in HIT/MISS/PASS/FETCH/ERROR',
  'GENUINE. predefined.yml lists all nine scopes; the interpreter defines the 15 names only in recv/hash/deliver/log scope variables, the other five scope files fall through to "undefined variable".'),
 ('V3', r'^var:tls\.client\.certificate\..*/HASH/exec:undefined$',
  '`tls.client.certificate.*` is missing from the HASH scope variables',
  'linter accepts in HASH; simulator: undefined variable (interpreter/variable/hash.go has no case)',
  'GENUINE. 13 names declared for HASH in predefined.yml, readable in the simulator everywhere except HASH.'),
 ('V4', r'^var:(fastly_info\.version|req\.digest\.ratio|waf\.sql_injection_score)/get/.*/exec:undefined$',
  'single variables declared in predefined.yml but never implemented in the interpreter for the declared scopes',
  'linter accepts; simulator: undefined variable',
  'GENUINE. `fastly_info.version` (all scopes), `req.digest.ratio` (RECV, HASH), `waf.sql_injection_score` (LOG; the other waf.* are implemented there).'),
 ('V5', r'^var:beresp\.saintmode/set/FETCH/exec:undefined$',
  'write-only variable `beresp.saintmode` cannot be written',
  'linter accepts `set beresp.saintmode = 10s;` in FETCH; simulator: undefined variable (ProcessSetStatement reads the target first)',
  'GENUINE. The variable has `set: RTIME` and no `get`; `Interpreter.ProcessSetStatement` starts with `vars.Get(...)` to learn the left type, which fails for a write-only variable.'),
 ('V6', r'^var:esi\.allow_inside_cdata/set/DELIVER/exec:undefined$',
  '`esi.allow_inside_cdata` is not settable in DELIVER in the interpreter',
  'linter accepts `set esi.allow_inside_cdata = true;` in DELIVER; simulator: not found or could not set in scope DELIVER',
  'GENUINE. predefined.yml: `on: [FETCH, DELIVER] set: BOOL`; the deliver scope variables only implement the getter.'),
 ('V7', r'^var:req\.is_ipv6/get/.*/exec:error:',
  '`req.is_ipv6` fails on every ordinary remote address',
  'linter accepts; simulator: "could not parse remote address" (netip.ParseAddr applied to host:port)',
  'GENUINE. recv/hash/deliver/log.go call `netip.ParseAddr(req.RemoteAddr)`; RemoteAddr always carries a port ("192.0.2.1:11111" is what `falco test` itself sets), so the read fails whenever the value is used outside an `if` condition. Reproduced with `falco test`. No operand is involved, so this is not a value error of the cell.'),
 ('T1', r'^var:client\.identified/(get|gettype)/.*/exec:type$',
  'type of `client.identified`: predefined.yml/linter say INTEGER, the interpreter returns BOOL',
  'linter types client.identified as INTEGER (predefined.yml) and accepts; simulator returns BOOL: type error',
  'GENUINE (table defect: Fastly documents BOOL). A program that lints (`declare local var.i INTEGER; set var.i = client.identified;`) cannot run, and the program that runs (`BOOL`) does not lint.'),
 ('T2', r'^var:client\.ip/gettype/.*/exec:type$',
  'type of `client.ip`: predefined.yml/linter say STRING, the interpreter returns IP',
  'linter types client.ip as STRING (predefined.yml) and accepts `if (var.string == client.ip)`; simulator: invalid type comparison STRING and IP',
  'GENUINE (table defect: Fastly documents IP). Only visible through the type-strict read probe (`==` in both operand orders) because plain assignment to a STRING local converts. Reproduced with `falco test`: `if (req.http.X == client.ip) {}` lints clean and fails at run time. Side effect: `if (var.ip == client.ip)` is rejected by the linter although both are IPs.'),
 ('T3', r'^var:beresp\.backend\.ip/gettype/FETCH/exec:type$',
  'type of `beresp.backend.ip`: predefined.yml/linter say IP, the interpreter returns STRING',
  'linter types beresp.backend.ip as IP and accepts `if (beresp.backend.ip == var.ip)`; simulator: invalid type comparison STRING and IP',
  'GENUINE (interpreter defect: fetch.go returns a *value.String).'),
 ('T4', r'^var:backend\.%any%\.healthy/(get|gettype)/.*/lint:rejects-ref-accepts$',
  'type of `backend.{NAME}.healthy`: predefined.yml says INTEGER, the linter (and the interpreter) say BOOL',
  'predefined.yml declares get: INTEGER; linter types backend.<name>.healthy as BOOL and rejects the INTEGER read',
  'GENUINE disagreement between the reference table and the linter; the table is the wrong side (Fastly: BOOL; `director.%any%.healthy` right below it is BOOL). The linter does not take this entry from the generated table (linter/context/dynamic.go injects `healthy: BOOL` for every declared backend, shadowing the generated INTEGER entry). 9 single-scope get + 9 gettype + 36 two-scope get cells, one root cause.'),
 ('F1', r'^fn:early_hints/.*/exec:panic:',
  '`early_hints` with two or more arguments panics the interpreter',
  'linter accepts `early_hints("abc", "abc");`; simulator panics: index out of range [1] with length 1 in Early_hints_Validate',
  'GENUINE crash. builtin.yml declares `[STRING, STRING_LIST]` (the linter even demands at least two arguments); `Early_hints_Validate` indexes the one-element `Early_hints_ArgumentTypes` with the argument index. Reproduced with `falco test` (the whole test run dies).'),
 ('F2', r'^fn:digest\.time_hmac_md5/.*/exec:panic:',
  '`digest.time_hmac_md5` panics for 3 of 16 HMAC values',
  'linter accepts `digest.time_hmac_md5("c2VjcmV0", 99999999999, 1)`; simulator panics: index out of range [16] with length 16 (HOTP dynamic truncation on a 16-byte MD5 digest)',
  'GENUINE crash, value- and time-dependent in general: pquerna/otp truncates at offset `sum[len-1]&0xf` and reads 4 bytes, which overruns a 16-byte MD5 HMAC when the offset is 13..15. With the generic arguments ("YWJj", 30, 1) the cell panicked or not depending on the 30 s wall-clock window of the run. To keep the check deterministic the cell now uses an interval longer than the epoch (TOTP counter pinned to 0) and a key whose counter-0 HMAC has offset 15, i.e. a fixed witness of the crash. If you consider a hand-picked crashing value outside C05 (it is a totality defect more than a signature defect), change the key back to "YWJj" (offset 3, never panics at counter 0) in fnArgs and drop these 9 keys. Reproduced with `falco test`.'),
 ('F3', r'^fn:setcookie\.(get_value_by_name|delete_by_name)/.*/exec:scope$',
  '`setcookie.*` is declared for all scopes but its first argument only exists in FETCH (beresp) and DELIVER/LOG (resp)',
  'linter accepts `setcookie.get_value_by_name(resp, "abc")` (ID argument is not scope-checked, function `on:` lists all scopes); simulator: resp is not accessible in this scope',
  'GENUINE. In RECV, HASH, HIT, MISS, PASS and ERROR no argument exists that the simulator accepts (`beresp` is refused outside FETCH, `resp` outside DELIVER/LOG, anything else is "Invalid ident"), yet builtin.yml declares the functions for all nine scopes and the linter resolves `resp`/`beresp` through its global identifier list without looking at the scope. The cell uses `beresp` in FETCH and `resp` elsewhere, so FETCH, DELIVER and LOG pass.'),
 ('S1', r'^stmt:esi/[A-Z]+/exec:scope$',
  '`esi;` is accepted by the linter everywhere but executable only in FETCH',
  'linter accepts `esi;` (no scope rule); simulator: esi statement found but it could only be enable on FETCH directive',
  'GENUINE linter/simulator disagreement; which side is right depends on Fastly (no network here). What the repository says: linter/statement_linter.go lintEsiStatement: "Nothing to lint because this statement is simply esi; and enabled in all subroutines"; docs/parser.md documents the syntax only; docs/rules.md has no esi scope rule; interpreter/statement.go ProcessEsiStatement cites the Fastly page as saying ESI is triggered in vcl_fetch and raises a runtime error in the other eight scopes. The reference in the check therefore allows esi in all scopes (so there is no lint-direction finding) and the eight non-FETCH scopes fail the execution half. Reproduced with `falco test`.'),
 ('O1', r'^op:!?~/IP/STRING/literal/exec:type$',
  'linter accepts `IP ~ "string literal"`',
  'linter accepts `if (var.ip ~ "192.0.2.7") {}`; simulator: invalid type comparison IP and STRING',
  'GENUINE linter over-acceptance: lintInfixExpression checks left in {STRING, IP} and right in {STRING, ACL, REGEX} independently; an IP can only be matched against an ACL. Baked into the frozen table as "accept" (the table records the linter at the pin) — flagged here.'),
 ('O2', r'^op:[!=]=/ACL/ACL/literal/exec:type$',
  'linter accepts comparing two ACL names with == / !=',
  'linter accepts `if (acl1 == acl1) {}`; simulator: could not use literal for equal operator of left hand',
  'GENUINE but marginal: `==` only demands equal types, and a bare ACL name has type ACL. No such comparison exists in Fastly VCL.'),
 ('O3', r'^op:=/ACL/ACL/literal/exec:type$',
  'a declared ACL local can never be assigned',
  'linter accepts `declare local var.l ACL; set var.l = acl1;`; simulator: could not use assignment for type ACL',
  'GENUINE: lintAssignOperator falls into the default branch (`left != right` only), the interpreter has no assignment for ACL values.'),
 ('O4', r'^op:(<|>|<=|>=)/(INTEGER|FLOAT)/RTIME/literal/exec:type$|^op:(<|>|<=|>=)/RTIME/(INTEGER|FLOAT)/literal/exec:type$',
  'relational operators between RTIME and INTEGER/FLOAT: linter accepts a literal on the right, simulator only a variable',
  'linter accepts e.g. `if (var.int < 5s) {}` / `if (var.rtime < 3) {}`; simulator: right RTIME/INTEGER/FLOAT type could not be a literal',
  'GENUINE disagreement (16 cells: 4 operators x {INTEGER<RTIME, FLOAT<RTIME, RTIME<INTEGER, RTIME<FLOAT}, literal form only; the local and predefined forms execute). The linter comment says "When left type is INTEGER, right type must be INTEGER or RTIME" with no literal/variable distinction, interpreter/operator encodes "variable only" for the mixed pairs — the same allowed / variable-only / disallowed trichotomy the assignment table uses, so the interpreter is probably the faithful side.'),
 ('P1', r'^stmt:(restart|error|synthetic|synthetic\.base64)/[A-Z]+,[A-Z]+/lint:accepts-ref-rejects$',
  'two-scope subroutines: restart / error / synthetic / synthetic.base64 are accepted when ANY annotated scope allows them',
  'linter accepts the statement in a `@scope: a,b` subroutine although one of the two scopes forbids it (mode & allowed == 0 test)',
  'GENUINE against the property as stated ("exactly when every one of those scopes allows it"): the four statement linters test `ctx.Mode() & allowed == 0`, i.e. they reject only when no annotated scope allows the statement; variables use the correct all-scopes test (`(objScope & cur) != cur`) and all 51 084 two-scope variable cells agree with the reference. Reproduced with `falco lint` (`// @scope: recv,log` + `restart;` lints clean).'),
 ('P2', r'^fn:(h2\.push|resp\.tarpit)/.*/[A-Z]+,[A-Z]+/stmt/lint:accepts-ref-rejects$',
  'two-scope subroutines: scope-restricted functions are accepted when ANY annotated scope allows them',
  'linter accepts the call in a `@scope: a,b` subroutine although builtin.yml excludes one of the two scopes (Scopes & curMode == 0 test in Context.GetFunction)',
  'GENUINE, same root cause as P1 in `linter/context.GetFunction`. Only `h2.push` (no LOG) and `resp.tarpit` (DELIVER only) have restricted `on:` lists, hence 2 functions x 2 signatures x 8 pairs.'),
 ('P3', r'^stmt:return\([a-z_]+\)/[A-Z]+,[A-Z]+/lint:rejects-ref-accepts$',
  'two-scope subroutines: every `return(<action>)` is rejected, even when both scopes allow the action',
  'linter rejects `return(<action>);` in a `@scope: a,b` subroutine where both scopes allow the action (scope reported as UNKNOWN, empty expectation list)',
  'GENUINE: lintReturnStatement switches on the exact value of ctx.Mode(); a two-bit mode matches no case, the expectation list stays empty and any action is reported as `invalid in UNKNOWN, expected `. 39 (action, pair) cells where both scopes allow the action. Reproduced with `falco lint` (`// @scope: hit,pass` + `return(pass);`).'),
]

by_group = collections.OrderedDict((g[0], []) for g in GROUPS)
unclassified = []
for r in rows:
    for gid, rx, *_ in GROUPS:
        if re.search(rx, r['key']):
            by_group[gid].append(r)
            break
    else:
        unclassified.append(r)


def prog_of(r):
    lines = r['detail']['lint_program'].split('\n')
    # drop the shared declarations (everything before the subroutine / its annotation)
    for i, l in enumerate(lines):
        if l.startswith('sub ') or l.startswith('// @scope'):
            return '\n'.join(x for x in lines[i:] if x != '')
    return r['detail']['lint_program']


def err_of(r):
    d = r['detail']
    if d.get('error'):
        return d['error']
    if d.get('lint_errors'):
        return ' | '.join(d['lint_errors'])
    m = re.search(r'simulator panics: (.*)$', r['what'])
    if m:
        return 'panic: ' + m.group(1)
    return r['what']


def compress(keys):
    """var:x/get/{A,B}/exec:..: group keys that differ only in the scope component."""
    out = collections.OrderedDict()
    for k, sc in keys:
        pat = k.replace('/' + sc + '/', '/{}/', 1) if ('/' + sc + '/') in k else k
        out.setdefault(pat, []).append(sc)
    return [p.replace('{}', '{' + ' '.join(v) + '}') if '{}' in p else p for p, v in out.items()]


direction = collections.Counter()
for r in rows:
    k = r['key']
    direction['exec' if '/exec:' in k else k[k.index('/lint:') + 1:]] += 1

md = []
md.append('<!-- appendix generated by mkfindings.py from %s -->' % os.path.basename(SRC))
md.append('')
md.append('## Violation keys by root cause (%d distinct keys: %s)' % (len(rows), ', '.join('%s %d' % kv for kv in sorted(direction.items()))))
md.append('')
for gid, rx, title, what, judgement in GROUPS:
    rs = by_group[gid]
    if not rs:
        md.append('### %s — %s' % (gid, title))
        md.append('')
        md.append('(no key of this group in the run this file was generated from)')
        md.append('')
        continue
    rep = rs[0]
    md.append('### %s — %s  (%d keys)' % (gid, title, len(rs)))
    md.append('')
    md.append('Judgement: ' + judgement)
    md.append('')
    md.append('Representative `%s` (scope %s):' % (rep['key'], rep['detail']['scope']))
    md.append('')
    md.append('```vcl')
    md.append(prog_of(rep))
    md.append('```')
    md.append('')
    md.append('observed: `%s`' % err_of(rep))
    md.append('')
    md.append('Keys:')
    md.append('')
    for line in compress([(r['key'], r['detail']['scope']) for r in rs]):
        md.append('- `%s`' % line)
    md.append('')
if unclassified:
    md.append('### UNCLASSIFIED (%d keys) — not yet judged' % len(unclassified))
    md.append('')
    for r in unclassified:
        md.append('- `%s` — %s' % (r['key'], err_of(r)))
    md.append('')

print(HEAD.strip('\n') + '\n\n' + '\n'.join(md))

whats = {g[0]: g[3] for g in GROUPS}
kf = []
for gid in by_group:
    for r in by_group[gid]:
        kf.append({'property': 'C05', 'key': r['key'], 'status': 'open', 'what': '[%s] %s' % (gid, whats[gid])})
kf.sort(key=lambda x: x['key'])
with open(os.path.join(HERE, 'known_findings_proposed.json'), 'w') as f:
    f.write('[\n' + ',\n'.join(' ' + json.dumps(x, ensure_ascii=False) for x in kf) + '\n]\n')
print('groups:', {g: len(v) for g, v in by_group.items()}, 'unclassified:', len(unclassified), 'total:', len(rows), file=sys.stderr)
