package main

// Route cells (family R). The scope of a user subroutine is determined in three ways (docs/linter.md):
// an annotation (`@scope: a, b` or the older `@a, b`, blanks around the commas allowed, any case),
// the suffix of its name (`sub t_recv`), or the call graph (the union of the scopes of its callers,
// transitively). For item × route × scope set the lint verdict on the one-use statement must equal
// the conjunction of the verdicts the same statement gets in the Fastly subroutine of each scope.
// The oracle is differential: it needs neither the reference tables nor the list of open cells.

import (
	"fmt"
	"hash/fnv"
	"sort"
	"strings"

	"verif/harness/fw"
)

func hash32(s string) uint32 {
	h := fnv.New32a()
	h.Write([]byte(s))
	return h.Sum32()
}

// annotation renders the scope list in one of the documented spellings (chosen by the cell id)
func annotation(id string, ss []string) (text string, lines int) {
	lo := make([]string, len(ss))
	for i, s := range ss {
		lo[i] = strings.ToLower(s)
	}
	switch hash32(id) % 9 {
	case 0:
		return "// @scope: " + strings.Join(lo, ",") + "\n", 1
	case 1:
		return "// @scope: " + strings.Join(lo, ", ") + "\n", 1
	case 2:
		return "//@scope:" + strings.Join(lo, ",") + "\n", 1
	case 3:
		return "# @scope: " + strings.Join(lo, " , ") + "\n", 1
	case 4:
		return "// @" + strings.Join(lo, ", ") + "\n", 1
	case 5:
		return "//@" + strings.Join(lo, ",") + "\n", 1
	case 6:
		return "// @scope: " + strings.Join(ss, ", ") + "\n", 1 // upper case
	case 7:
		return "// a helper used in several places\n// @scope: " + strings.Join(lo, ", ") + "\n", 2
	default:
		return "# @" + strings.Join(lo, " ,") + "\n", 1
	}
}

func fastlySub(scope, body string) string {
	return "sub vcl_" + strings.ToLower(scope) + " {\n#FASTLY " + scope + "\n" + body + "}\n"
}

// routeSource renders a route cell; the one-use statement is on the returned line
func routeSource(c cell) (string, int) {
	var sb strings.Builder
	sb.WriteString(decls)
	line := declLines
	ss := strings.Split(c.Scope, ",")
	tail := ""
	switch c.Route {
	case "sfx":
		sb.WriteString("sub t_" + strings.ToLower(ss[0]) + " {\n")
		line++
	case "an":
		a, n := annotation(c.ID, ss)
		sb.WriteString(a + "sub t {\n")
		line += n + 1
	case "cg":
		sb.WriteString("sub t {\n")
		line++
		for _, s := range ss {
			tail += fastlySub(s, "call t;\n")
		}
	case "cg2":
		sb.WriteString("sub t {\n")
		line++
		tail = "sub outer {\ncall t;\n}\n"
		for _, s := range ss {
			tail += fastlySub(s, "call outer;\n")
		}
	case "an+call":
		// the annotation names ss[0]; the subroutine is also called from ss[1]: the annotation decides
		a, n := annotation(c.ID, ss[:1])
		sb.WriteString(a + "sub t {\n")
		line += n + 1
		tail = fastlySub(ss[1], "call t;\n")
	}
	if c.Pre != "" {
		sb.WriteString(c.Pre + "\n")
		line += strings.Count(c.Pre, "\n") + 1
	}
	sb.WriteString(c.Stmt + "\n}\n" + tail)
	return sb.String(), line + 1
}

// judged scopes of a route cell
func routeScopes(c cell) []string {
	ss := strings.Split(c.Scope, ",")
	if c.Route == "an+call" {
		return ss[:1]
	}
	return ss
}

func itemID(id, scope string) string {
	if strings.HasSuffix(id, "/"+scope) {
		return strings.TrimSuffix(id, "/"+scope)
	}
	return strings.Replace(id, "/"+scope+"/", "/", 1)
}

// routeCells derives the route cells from the single-scope cells of one scope (the statements do not depend on the scope)
func routeCells(base []cell, quick bool, seed int64) []cell {
	type item struct{ id, pre, stmt string }
	seen := map[string]bool{}
	var items []item
	for _, c := range base {
		if c.Scope != "RECV" || strings.Contains(c.ID, "/gettype/") {
			continue
		}
		k := c.Pre + "\x00" + c.Stmt
		if seen[k] {
			continue
		}
		seen[k] = true
		items = append(items, item{itemID(c.ID, "RECV"), c.Pre, c.Stmt})
	}
	var prs [][]string
	for _, p := range pairs() {
		prs = append(prs, strings.Split(p, ","))
	}
	var triples [][]string
	for i := range scopes {
		for j := i + 1; j < len(scopes); j++ {
			for k := j + 1; k < len(scopes); k++ {
				triples = append(triples, []string{scopes[i], scopes[j], scopes[k]})
			}
		}
	}
	var out []cell
	for _, it := range items {
		h := int(hash32(fmt.Sprintf("%s#%d", it.id, seed)) & 0x7fffffff)
		add := func(route string, ss []string) {
			sc := strings.Join(ss, ",")
			out = append(out, cell{ID: it.id + "@" + route + "/" + sc, Fam: "R", Scope: sc, Route: route, Pre: it.pre, Stmt: it.stmt})
		}
		pick := func(n, of int) []int { // n distinct indices below of, starting at a seed-determined place
			var ix []int
			for i := 0; i < n && i < of; i++ {
				ix = append(ix, (h+i*(of/n+1))%of)
			}
			return ix
		}
		nS, nP, nT := 9, 36, 12
		if quick {
			nS, nP, nT = 2, 3, 2
		}
		for _, i := range pick(nS, 9) {
			add("sfx", scopes[i:i+1])
			add("an", scopes[i:i+1])
		}
		for _, i := range pick(nP, len(prs)) {
			add("cg", prs[i])
			add("an+call", prs[i])
			add("an+call", []string{prs[i][1], prs[i][0]})
		}
		for _, i := range pick((nS+1)/2, 9) {
			add("cg2", scopes[i:i+1])
			add("cg", scopes[i:i+1])
		}
		for _, i := range pick(nT, len(triples)) {
			add("an", triples[i])
			if i%3 == 0 {
				add("cg2", triples[i])
			}
		}
		if !quick {
			for _, i := range pick(12, len(prs)) {
				add("an", prs[i]) // spellings other than the one family P happens to use for this pair
				add("cg2", prs[i])
			}
		}
	}
	// pick() may name an index twice when of is small
	sort.SliceStable(out, func(a, b int) bool { return out[a].ID < out[b].ID })
	w := 0
	for i := range out {
		if i > 0 && out[i].ID == out[i-1].ID {
			continue
		}
		out[w] = out[i]
		w++
	}
	return out[:w]
}

var baseVerdicts = map[string]*lintObs{}

func baseVerdict(scope, pre, stmt string) lintObs {
	k := scope + "\x00" + pre + "\x00" + stmt
	if o, ok := baseVerdicts[k]; ok {
		return *o
	}
	o := lintCell(cell{Scope: scope, Pre: pre, Stmt: stmt})
	baseVerdicts[k] = &o
	return o
}

func runRouteCell(oc *fw.Outcome, c cell) {
	src, _ := routeSource(c)
	fw.JournalS(c.ID + "\n" + src)
	oc.Evals++
	oc.Tag("cells/R/" + c.Route)
	kind := strings.SplitN(c.ID, ":", 2)[0]
	var lo lintObs
	want := true
	var baseRows []string
	harness := ""
	p, msg, st := fw.Guard(func() {
		lo = lintCell(c)
		for _, s := range routeScopes(c) {
			b := baseVerdict(s, c.Pre, c.Stmt)
			if b.parseErr != "" || len(b.elsewhere) > 0 {
				harness = "base cell " + s + ": " + b.parseErr + strings.Join(b.elsewhere, " | ")
			}
			baseRows = append(baseRows, fmt.Sprintf("sub vcl_%s: %s %s", strings.ToLower(s), verdict(b.accepted), strings.Join(b.onLine, " | ")))
			want = want && b.accepted
		}
	})
	if p {
		oc.Violate("route:"+c.Route+"/lint:panic/"+kind, "linter panicked on a one-use program: "+msg, map[string]any{"cell": c.ID, "lint_program": src, "stack": fw.TrimStack(st)})
		return
	}
	if lo.parseErr != "" || len(lo.elsewhere) > 0 || harness != "" {
		oc.Tag("harness/route-not-clean/" + c.Route)
		oc.Inconc = append(oc.Inconc, fmt.Sprintf("harness: route cell %s: %s %s %s", c.ID, firstLine(lo.parseErr), strings.Join(lo.elsewhere, " | "), harness))
		return
	}
	oc.NonTrivialS(c.ID)
	oc.Tag(fmt.Sprintf("route-%s/%d-scopes/%s", c.Route, len(strings.Split(c.Scope, ",")), verdict(lo.accepted)))
	if lo.accepted == want {
		return
	}
	dir := "rejects-more"
	if lo.accepted {
		dir = "accepts-more"
	}
	oc.Violate("route:"+c.Route+"/"+dir+"/"+kind,
		fmt.Sprintf("`%s` in a user subroutine whose scope is %s by route %q: the linter %ss it, but in the Fastly subroutines of those scopes: %s", c.Stmt, strings.Join(routeScopes(c), "+"), c.Route, verdict(lo.accepted), strings.Join(baseRows, "; ")),
		map[string]any{"cell": c.ID, "lint_program": src, "lint_errors": lo.onLine, "base": baseRows})
}
