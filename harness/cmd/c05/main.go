// C05 — linter, reference tables and simulator agree on types, scopes and signatures.
//
// Every cell of four finite families is instantiated as a one-use VCL program, linted by falco's
// real linter in the cell's scope, compared with the reference verdict (the bundled YAML tables
// read at run time, the documented statement scopes, the frozen assignment table), and — whenever
// the linter accepts — executed by falco's real interpreter in that scope the way `falco test`
// does. The verdict comes only from those two observations.
package main

import (
	"encoding/json"
	"fmt"
	"os"
	"path/filepath"
	"sort"
	"strings"
	"time"

	"gopkg.in/yaml.v3"

	"github.com/ysugimoto/falco/v2/config"
	"github.com/ysugimoto/falco/v2/lexer"
	"github.com/ysugimoto/falco/v2/linter"
	lcontext "github.com/ysugimoto/falco/v2/linter/context"
	"github.com/ysugimoto/falco/v2/parser"

	"verif/harness/fw"
	"verif/harness/sim"
)

// ---- cells -----------------------------------------------------------------------------------

type cell struct {
	ID     string `json:"id"`
	Fam    string `json:"f"`            // B1 | B2 | B2n | B3 | A | P
	Scope  string `json:"s"`            // "RECV" or a pair "RECV,HIT"
	Pre    string `json:"p,omitempty"`  // statements before the one-use statement (one per line)
	Stmt   string `json:"st"`           // the one-use statement (one line)
	Ref    string `json:"r,omitempty"`  // accept | reject | "" (no reference: reported inconclusive)
	NoExec string `json:"nx,omitempty"` // reason why the accepted cell is not executed
	Route  string `json:"rt,omitempty"` // family R: how the scope of the user subroutine is determined (routes.go)
}
type batch struct {
	Cells []cell `json:"cells"`
}

var scopes = []string{"RECV", "HASH", "HIT", "MISS", "PASS", "FETCH", "ERROR", "DELIVER", "LOG"}

// declarations shared by the linted program and by the main VCL given to the interpreter
// (one declaration per line)
const decls = `backend example { .host = "127.0.0.1"; .port = "80"; }
backend example2 { .host = "127.0.0.1"; .port = "81"; }
director dir1 random { { .backend = example; .weight = 1; } { .backend = example2; .weight = 1; } }
acl acl1 { "192.0.2.0"/24; }
table tbl { "abc": "abc", }
table tbl_str STRING { "abc": "abc", }
table tbl_int INTEGER { "abc": 1, }
table tbl_float FLOAT { "abc": 1.5, }
table tbl_bool BOOL { "abc": true, }
table tbl_ip IP { }
table tbl_rtime RTIME { "abc": 10s, }
table tbl_acl ACL { "abc": acl1, }
table tbl_backend BACKEND { "abc": example, }
table tbl_regex REGEX { "abc": "a.c", }
ratecounter rc1 {}
ratecounter rc2 {}
penaltybox pb1 {}
`

var declLines = strings.Count(decls, "\n")

const mainTail = "sub vcl_recv {\n#FASTLY RECV\nreturn(lookup);\n}\n"

func lintSource(c cell) (src string, stmtLine int) {
	var sb strings.Builder
	sb.WriteString(decls)
	line := declLines
	if c.Route != "" {
		return routeSource(c)
	}
	if strings.Contains(c.Scope, ",") {
		a, n := annotation(c.ID, strings.Split(c.Scope, ","))
		sb.WriteString(a + "sub t {\n")
		line += n + 1
	} else {
		sb.WriteString("sub vcl_" + strings.ToLower(c.Scope) + " {\n#FASTLY " + c.Scope + "\n")
		line += 2
	}
	if c.Pre != "" {
		sb.WriteString(c.Pre)
		sb.WriteByte('\n')
		line += strings.Count(c.Pre, "\n") + 1
	}
	sb.WriteString(c.Stmt)
	sb.WriteString("\n}\n")
	return sb.String(), line + 1
}

func execSource(c cell) (mainVCL, subVCL string) {
	sub := "sub t {\n"
	if c.Pre != "" {
		sub += c.Pre + "\n"
	}
	sub += c.Stmt + "\n}\n"
	return decls + mainTail, sub
}

// ---- reference tables (read at run time from the repository) ---------------------------------

type varDef struct {
	On    []string `yaml:"on"`
	Get   string   `yaml:"get"`
	Set   string   `yaml:"set"`
	Unset bool     `yaml:"unset"`
}
type fnDef struct {
	On        []string   `yaml:"on"`
	Arguments [][]string `yaml:"arguments"`
	Return    string     `yaml:"return"`
}

func loadYAML(repo string) (map[string]varDef, map[string]fnDef, error) {
	vars := map[string]varDef{}
	fns := map[string]fnDef{}
	b, err := os.ReadFile(filepath.Join(repo, "__generator__", "predefined.yml"))
	if err != nil {
		return nil, nil, err
	}
	if err := yaml.Unmarshal(b, &vars); err != nil {
		return nil, nil, err
	}
	b, err = os.ReadFile(filepath.Join(repo, "__generator__", "builtin.yml"))
	if err != nil {
		return nil, nil, err
	}
	if err := yaml.Unmarshal(b, &fns); err != nil {
		return nil, nil, err
	}
	return vars, fns, nil
}

func sortedKeys[V any](m map[string]V) []string {
	k := make([]string, 0, len(m))
	for s := range m {
		k = append(k, s)
	}
	sort.Strings(k)
	return k
}

func has(list []string, s string) bool {
	for _, x := range list {
		if x == s {
			return true
		}
	}
	return false
}

func verdict(ok bool) string {
	if ok {
		return "accept"
	}
	return "reject"
}

// ---- family B1: predefined variables -----------------------------------------------------------

func concreteVar(name string) string {
	switch {
	case strings.HasPrefix(name, "backend.%any%"):
		return strings.Replace(name, "%any%", "example", 1)
	case strings.HasPrefix(name, "director.%any%"):
		return strings.Replace(name, "%any%", "dir1", 1)
	case strings.HasPrefix(name, "ratecounter.%any%"):
		return strings.Replace(name, "%any%", "rc1", 1)
	}
	name = strings.ReplaceAll(name, "%any%", "X-Any")
	name = strings.ReplaceAll(name, "{NAME}", "example")
	return name
}

// local type used to read a variable of the declared get type
func localTypeFor(t string) string {
	switch t {
	case "REQBACKEND":
		return "BACKEND"
	}
	return t
}

// benign literal of a declared type
func literalFor(t string) string {
	switch t {
	case "STRING":
		return `"abc"`
	case "INTEGER":
		return "1"
	case "FLOAT":
		return "1.5"
	case "BOOL":
		return "true"
	case "RTIME":
		return "10s"
	case "TIME":
		return "now"
	case "IP":
		return `"192.0.2.1"`
	case "BACKEND", "REQBACKEND":
		return "example"
	case "ACL":
		return "acl1"
	}
	return `"abc"`
}

// per-variable benign values where the generic literal of the type is out of the variable's domain
var setValue = map[string]string{
	"beresp.status":                      "200",
	"obj.status":                         "200",
	"resp.status":                        "200",
	"beresp.response":                    `"OK"`,
	"obj.response":                       `"OK"`,
	"resp.response":                      `"OK"`,
	"req.method":                         `"GET"`,
	"bereq.method":                       `"GET"`,
	"req.url":                            `"/abc"`,
	"bereq.url":                          `"/abc"`,
	"client.geo.ip_override":             `"192.0.2.1"`,
	"req.proto":                          `"HTTP/1.1"`,
	"bereq.proto":                        `"HTTP/1.1"`,
	"beresp.proto":                       `"HTTP/1.1"`,
	"obj.proto":                          `"HTTP/1.1"`,
	"resp.proto":                         `"HTTP/1.1"`,
	"client.socket.congestion_algorithm": `"cubic"`,
}

func varCells(vars map[string]varDef, scopeList []string, fam string, ops []string) []cell {
	var out []cell
	for _, name := range sortedKeys(vars) {
		d := vars[name]
		cn := concreteVar(name)
		for _, op := range ops {
			for _, sc := range scopeList {
				inScope := true
				for _, s := range strings.Split(sc, ",") {
					if !has(d.On, s) {
						inScope = false
					}
				}
				c := cell{ID: fmt.Sprintf("var:%s/%s/%s", name, op, sc), Fam: fam, Scope: sc}
				switch op {
				case "get":
					c.Ref = verdict(inScope && d.Get != "")
					switch d.Get {
					case "":
						c.Stmt = "log " + cn + ";"
					case "ID":
						c.Pre = "declare local var.t INTEGER;"
						c.Stmt = "set var.t = std.count(" + cn + ");"
					default:
						c.Pre = "declare local var.t " + localTypeFor(d.Get) + ";"
						c.Stmt = "set var.t = " + cn + ";"
					}
				case "set":
					c.Ref = verdict(inScope && d.Set != "")
					t := d.Set
					if t == "" {
						t = d.Get
					}
					v := literalFor(t)
					if sv, ok := setValue[name]; ok {
						v = sv
					}
					if name == "req.hash" {
						c.Stmt = "set " + cn + " += " + v + ";"
					} else {
						c.Stmt = "set " + cn + " = " + v + ";"
					}
				case "unset":
					c.Ref = verdict(inScope && d.Unset)
					c.Stmt = "unset " + cn + ";"
				case "gettype":
					// type-strict read: `==` demands identical operand types in the linter and in the
					// simulator, so the declared get type, the linter's type and the runtime type must agree
					if d.Get == "" || d.Get == "ID" {
						continue
					}
					c.Ref = verdict(inScope)
					c.Pre = "declare local var.t " + localTypeFor(d.Get) + ";\nset var.t = " + literalFor(d.Get) + ";"
					// both operand orders: the simulator coerces the right operand when the left one is an IP
					c.Stmt = "if (var.t == " + cn + ") {} if (" + cn + " == var.t) {}"
				}
				out = append(out, c)
			}
		}
	}
	return out
}

// ---- family B2: built-in functions ---------------------------------------------------------------

// representative argument per parameter type
func argFor(t string) string {
	switch t {
	case "STRING", "STRING_LIST":
		return `"abc"`
	case "INTEGER":
		return "1"
	case "FLOAT":
		return "1.5"
	case "BOOL":
		return "true"
	case "RTIME":
		return "10s"
	case "TIME":
		return "now"
	case "IP":
		return "var.ip"
	case "BACKEND":
		return "example"
	case "ACL":
		return "acl1"
	case "TABLE":
		return "tbl"
	case "ID":
		return "req"
	}
	return `"abc"`
}

// fnArgs: complete benign argument lists for functions whose generic representatives are outside
// the function's value domain (key "name" applies to every signature, truncated to the signature's
// length; "name#i" to signature i only). Found by running the generic representatives and reading
// the value errors the simulator returned.
var fnArgs = map[string][]string{
	"accept.media_lookup": {`"text/plain:text/html"`, `"text/plain"`, `"image/*"`, `"text/html"`},
	// cipher, mode, padding, key (hex), iv (hex), text (hex / base64 of one 16-byte block)
	"crypto.encrypt_hex":    {"aes128", "cbc", "nopad", hexKey, hexKey, hexBlock},
	"crypto.decrypt_hex":    {"aes128", "cbc", "nopad", hexKey, hexKey, hexBlock},
	"crypto.encrypt_base64": {"aes128", "cbc", "nopad", hexKey, hexKey, b64Block},
	"crypto.decrypt_base64": {"aes128", "cbc", "nopad", hexKey, hexKey, b64Block},
	// hash method, public key (PEM), payload, signature, [format,] base64 variant
	"digest.rsa_verify":                  {"sha256", "var.pem", `"abc"`, rsaSig, "url_nopad"},
	"digest.ecdsa_verify":                {"sha256", "var.pem", `"abc"`, ecSig, "der", "url_nopad"},
	"digest.hash_sha1_from_base64":       {`"YWJj"`},
	"digest.hash_sha256_from_base64":     {`"YWJj"`},
	"digest.hash_sha512_from_base64":     {`"YWJj"`},
	"digest.hash_xxh32_from_base64":      {`"YWJj"`},
	"digest.hash_xxh64_from_base64":      {`"YWJj"`},
	"digest.hmac_sha256_with_base64_key": {`"YWJj"`, `"YWJj"`},
	// key (base64), interval, offset. The functions read the wall clock: an interval longer than the
	// current epoch time pins the TOTP counter to 0 so that the cell is deterministic. For MD5 the key
	// is one whose counter-0 HMAC ends in a nibble >= 13 (3 of 16 keys/time steps do): with the generic
	// key the cell panicked or not depending on the 30 s window the run happened to fall in.
	"digest.time_hmac_md5":        {`"c2VjcmV0"`, "99999999999", "1"},
	"digest.time_hmac_sha1":       {`"c2VjcmV0"`, "99999999999", "1"},
	"digest.time_hmac_sha256":     {`"c2VjcmV0"`, "99999999999", "1"},
	"digest.time_hmac_sha512":     {`"c2VjcmV0"`, "99999999999", "1"},
	"setcookie.delete_by_name":    {"resp", `"abc"`},
	"setcookie.get_value_by_name": {"resp", `"abc"`},
	"std.atof":                    {`"1.5"`},
	"std.atoi":                    {`"1"`},
	"std.ip":                      {`"192.0.2.1"`, `"192.0.2.2"`},
	"std.str2ip":                  {`"192.0.2.1"`, `"192.0.2.2"`},
	"std.itoa":                    {"1", "10"},
	"std.strtof":                  {`"1.5"`, "10"},
	"std.strtol":                  {`"1"`, "10"},
	"std.count":                   {"req.headers"},
	"subfield":                    {`"a=b"`, `"a"`, `";"`},
	"time.runits":                 {`"s"`, "10s"},
	"time.units":                  {`"s"`, "now"},
	"uuid.version3":               {`"6ba7b810-9dad-11d1-80b4-00c04fd430c8"`, `"abc"`},
	"uuid.version5":               {`"6ba7b810-9dad-11d1-80b4-00c04fd430c8"`, `"abc"`},
	// entry, ratecounter, delta, window (1|10|60), limit (10..), [ratecounter, delta, window, limit,] penaltybox, ttl (1m..1h)
	"ratelimit.check_rate":            {`"abc"`, "rc1", "1", "10", "100", "pb1", "10m"},
	"ratelimit.check_rates":           {`"abc"`, "rc1", "1", "10", "100", "rc2", "1", "60", "100", "pb1", "10m"},
	"ratelimit.penaltybox_add":        {"pb1", `"abc"`, "10m"},
	"ratelimit.penaltybox_has":        {"pb1", `"abc"`},
	"ratelimit.ratecounter_increment": {"rc1", `"abc"`, "1"},
	"table.lookup_acl":                {"tbl_acl", `"abc"`, "acl1"},
	"table.lookup_backend":            {"tbl_backend", `"abc"`, "example"},
	"table.lookup_bool":               {"tbl_bool", `"abc"`, "true"},
	"table.lookup_float":              {"tbl_float", `"abc"`, "1.5"},
	"table.lookup_integer":            {"tbl_int", `"abc"`, "1"},
	"table.lookup_ip":                 {"tbl_ip", `"abc"`, "var.ip"},
	"table.lookup_rtime":              {"tbl_rtime", `"abc"`, "10s"},
	"table.lookup_regex":              {"tbl_regex", `"abc"`},
}

const (
	hexKey   = `"000102030405060708090a0b0c0d0e0f"`
	hexBlock = `"00112233445566778899aabbccddeeff"`
	b64Block = `"ABEiM0RVZneImaq7zN3u/w=="`
	ecSig    = `"MEUCIQDJs-XsHz5PKpc6vw8OMP8Fd-NHGeglN74vNnBhHq7tnwIgYuVctW3XLnHGIZujLNyXexN35hVTS6P_tJ-lBCuwlkg"`
	rsaSig   = `"oMEu2vadYcPUmMGBuswPFvYVFta89xMKcFhncizc4vExgGFXw-kArpXcG1OgMmIer_qSHSpX7GlrISKj5E5QGXQIH9Xce4MHQsR4Tg9zsdrFkkLIv_JZ-3dvyrHuwg-dWBi-pP0dW1B4AjSGnFFaqXaP7XXA3bqV9pCcoYQnzNIzzDBb9Rn2tHKSU4-zPRmFZv2bF80kyp1wepugqs5DzK7zYFOAgRSv8jhkm9P22g4OeXwsOZx2aKSL1CRTaeHslYcqjnBAICyf365ZEkiV8lbXGVojskRlABGnIPO4JYT0xntjgnb9pXX_F8H1dqzFvA8wPc9KkqFqpBdcRiwbgw"`
	ecPEM    = "-----BEGIN PUBLIC KEY-----\nMFkwEwYHKoZIzj0CAQYIKoZIzj0DAQcDQgAEG6XHMuku8w/pMHTZHws4axDhsMVn\nZft8sZ87xBPqiT92NfMLnb5vwMHwCW2iZOuU8RM9FPsqwVmRjJY27yd+uw==\n-----END PUBLIC KEY-----\n"
	rsaPEM   = "-----BEGIN PUBLIC KEY-----\nMIIBIjANBgkqhkiG9w0BAQEFAAOCAQ8AMIIBCgKCAQEAqN8D/jsjeGHhQvrmo/1g\nBAFi2WKkFSyJsU+bnz2OhLTPyc+IJotpJ2XyKxo3QlhEZy4XFbG4hqSk7+NmSM7e\nHxNkK0DCvsrcbshkh+H79076Qkxy3ygxZ/vdZPu2pd90lMaDFFZ5UarxFdrlsOuy\ngBc/UIj0s2XdasJ/O/r8qf0EAco2O4smvP8a85EWQIKTuYE069dM4d3wojdJ64PK\nml00fv2RBzG37sBEOFqpQIlh6dAAFSyxiI4rV9n7e3eYpTaRGZ6nd9N3SHxGHzXL\nyGxresPQCduRgspEa0Y8KbX5D2VTZVwPGCfRWXixABzZuuqjbWQQbP6WAAqtscRf\n/QIDAQAB\n-----END PUBLIC KEY-----\n"
)

// extra scaffolding statements a function's representative arguments need
func fnExtraPre(name string) string {
	switch name {
	case "digest.rsa_verify":
		return "declare local var.pem STRING;\nset var.pem = {\"" + rsaPEM + "\"};"
	case "digest.ecdsa_verify":
		return "declare local var.pem STRING;\nset var.pem = {\"" + ecPEM + "\"};"
	}
	return ""
}

func argsFor(name string, sigIdx int, sig []string) []string {
	if a, ok := fnArgs[fmt.Sprintf("%s#%d", name, sigIdx)]; ok {
		return append([]string{}, a...)
	}
	if a, ok := fnArgs[name]; ok && len(a) >= len(sig) {
		return append([]string{}, a[:len(sig)]...)
	}
	out := make([]string, len(sig))
	for i, t := range sig {
		out[i] = argFor(t)
	}
	return out
}

const fnPre = "declare local var.ip IP;\nset var.ip = \"192.0.2.1\";"

func fnCells(fns map[string]fnDef, scopeList []string, fam string, variants bool) []cell {
	var out []cell
	for _, name := range sortedKeys(fns) {
		d := fns[name]
		sigs := d.Arguments
		if len(sigs) == 0 {
			sigs = [][]string{{}}
		}
		counts := map[int]bool{}
		variadic := false
		for _, s := range sigs {
			counts[len(s)] = true
			if has(s, "STRING_LIST") {
				variadic = true
			}
		}
		pre := fnPre
		if x := fnExtraPre(name); x != "" {
			pre += "\n" + x
		}
		for si, sig := range sigs {
			args := argsFor(name, si, sig)
			type form struct {
				tag  string
				args []string
				ok   bool // the argument list matches the signature
			}
			forms := []form{{"", args, true}}
			if variants {
				if len(args) > 0 && !counts[len(args)-1] {
					forms = append(forms, form{"-1arg", args[:len(args)-1], false})
				}
				if !counts[len(args)+1] && !variadic {
					forms = append(forms, form{"+1arg", append(append([]string{}, args...), `"abc"`), false})
				}
				// one argument of a type no parameter coerces from (an ACL; a STRING where an ACL is declared)
				for i := range args {
					bad := append([]string{}, args...)
					bad[i] = "acl1"
					if sig[i] == "ACL" {
						bad[i] = `"abc"`
					}
					forms = append(forms, form{fmt.Sprintf("!arg%d", i+1), bad, false})
				}
			}
			for _, f := range forms {
				for _, sc := range scopeList {
					fargs := f.args
					if strings.HasPrefix(name, "setcookie.") && sc == "FETCH" && len(fargs) > 0 && fargs[0] == "resp" {
						// the response object readable in vcl_fetch is beresp (resp elsewhere)
						fargs = append([]string{"beresp"}, fargs[1:]...)
					}
					call := name + "(" + strings.Join(fargs, ", ") + ")"
					inScope := true
					for _, s := range strings.Split(sc, ",") {
						if !has(d.On, s) {
							inScope = false
						}
					}
					fm := fam
					if f.tag != "" {
						fm = "B2n"
					}
					sigID := fmt.Sprintf("sig%d%s", si, f.tag)
					if d.Return != "" {
						c := cell{ID: fmt.Sprintf("fn:%s/%s/%s/expr", name, sigID, sc), Fam: fm, Scope: sc, Ref: verdict(inScope && f.ok)}
						switch d.Return {
						case "REGEX":
							c.Pre = pre
							c.Stmt = `if (req.url ~ ` + call + `) {}`
						case "ACL":
							// an ACL value is only usable as the right operand of a match
							c.Pre = pre
							c.Stmt = `if (var.ip ~ ` + call + `) {}`
						default:
							c.Pre = pre + "\ndeclare local var.x " + d.Return + ";"
							c.Stmt = "set var.x = " + call + ";"
						}
						out = append(out, c)
					}
					// type-strict use of the result (like the gettype cells of the variables): `==` demands identical operand
					// types in the linter and in the simulator, so the declared return type, the linter's and the runtime type
					// must agree; once per signature, in the first scope of the function
					rtScope := ""
					if len(d.On) > 0 {
						rtScope = d.On[0]
					}
					if strings.HasPrefix(name, "setcookie.") {
						rtScope = "DELIVER" // the resp argument exists there (the other scopes are cells of their own)
					}
					if f.tag == "" && f.ok && inScope && sc == rtScope {
						switch d.Return {
						case "INTEGER", "FLOAT", "STRING", "BOOL", "RTIME", "TIME", "IP":
							c := cell{ID: fmt.Sprintf("fn:%s/%s/%s/rettype", name, sigID, sc), Fam: fm, Scope: sc, Ref: "accept"}
							c.Pre = pre + "\ndeclare local var.x " + d.Return + ";\nset var.x = " + literalFor(d.Return) + ";"
							c.Stmt = "if (var.x == " + call + ") {}"
							out = append(out, c)
						}
					}
					c := cell{ID: fmt.Sprintf("fn:%s/%s/%s/stmt", name, sigID, sc), Fam: fm, Scope: sc, Ref: verdict(inScope && f.ok && d.Return == "")}
					c.Pre = pre
					c.Stmt = call + ";"
					out = append(out, c)
				}
			}
		}
	}
	return out
}

// ---- family B3: scope-restricted statements --------------------------------------------------------

var actions = []string{"lookup", "pass", "hash", "error", "restart", "deliver", "fetch", "deliver_stale", "hit_for_pass"}

var returnRef = map[string][]string{
	"RECV": {"lookup", "pass", "error", "restart"}, "HASH": {"hash"}, "HIT": {"deliver", "pass", "error", "restart"},
	"MISS": {"fetch", "deliver_stale", "pass", "error"}, "PASS": {"pass"},
	"FETCH": {"deliver", "deliver_stale", "hit_for_pass", "pass", "error", "restart"},
	"ERROR": {"deliver", "deliver_stale", "restart"}, "DELIVER": {"deliver", "restart"}, "LOG": {"deliver"},
}

var stmtRef = map[string][]string{
	"restart":          {"RECV", "HIT", "FETCH", "ERROR", "DELIVER"},
	"error":            {"RECV", "HIT", "MISS", "PASS", "FETCH"},
	"synthetic":        {"ERROR"},
	"synthetic.base64": {"ERROR"},
	// esi: neither docs/rules.md nor docs/parser.md restricts the statement and the linter's own
	// comment says "enabled in all subroutines": the reference allows it everywhere
	"esi": scopes,
}
var stmtText = map[string]string{
	"restart": "restart;", "error": "error 601;", "esi": "esi;", "synthetic": `synthetic "x";`, "synthetic.base64": `synthetic.base64 "eA==";`,
}

func stmtCells(scopeList []string, fam string) []cell {
	var out []cell
	for _, st := range []string{"restart", "error", "esi", "synthetic", "synthetic.base64"} {
		for _, sc := range scopeList {
			ok := true
			for _, s := range strings.Split(sc, ",") {
				if !has(stmtRef[st], s) {
					ok = false
				}
			}
			out = append(out, cell{ID: fmt.Sprintf("stmt:%s/%s", st, sc), Fam: fam, Scope: sc, Stmt: stmtText[st], Ref: verdict(ok)})
		}
	}
	for _, a := range actions {
		for _, sc := range scopeList {
			ok := true
			for _, s := range strings.Split(sc, ",") {
				if !has(returnRef[s], a) {
					ok = false
				}
			}
			out = append(out, cell{ID: fmt.Sprintf("stmt:return(%s)/%s", a, sc), Fam: fam, Scope: sc, Stmt: "return(" + a + ");", Ref: verdict(ok)})
		}
	}
	return out
}

// ---- family A: operators ---------------------------------------------------------------------------

var assignOps = []string{"=", "+=", "-=", "*=", "/=", "%=", "|=", "&=", "^=", "<<=", ">>=", "rol=", "ror=", "&&=", "||="}
var cmpOps = []string{"==", "!=", "<", ">", "<=", ">=", "~", "!~"}

// left operands: a declared and initialised local (non-zero, in range), a header, req.backend
type operand struct {
	typ  string
	pre  string // declarations/initialisation
	expr string
}

func leftOperand(t string) (operand, bool) {
	switch t {
	case "INTEGER":
		return operand{t, "declare local var.l INTEGER;\nset var.l = 7;", "var.l"}, true
	case "FLOAT":
		return operand{t, "declare local var.l FLOAT;\nset var.l = 7.5;", "var.l"}, true
	case "STRING":
		return operand{t, "declare local var.l STRING;\nset var.l = \"192.0.2.9\";", "var.l"}, true
	case "BOOL":
		return operand{t, "declare local var.l BOOL;\nset var.l = true;", "var.l"}, true
	case "RTIME":
		return operand{t, "declare local var.l RTIME;\nset var.l = 9s;", "var.l"}, true
	case "TIME":
		return operand{t, "declare local var.l TIME;\nset var.l = now;", "var.l"}, true
	case "IP":
		return operand{t, "declare local var.l IP;\nset var.l = \"10.0.0.9\";", "var.l"}, true
	case "BACKEND":
		return operand{t, "declare local var.l BACKEND;\nset var.l = example;", "var.l"}, true
	case "REQBACKEND":
		return operand{t, "", "req.backend"}, true
	case "header":
		return operand{t, "set req.http.X = \"192.0.2.9\";", "req.http.X"}, true
	case "ACL":
		return operand{t, "", "acl1"}, true
	case "ACLlocal":
		return operand{"ACL", "declare local var.l ACL;", "var.l"}, true
	}
	return operand{}, false
}

// assignment targets: ACL is a declared local of type ACL (uninitialised: initialising it is the cell itself)
var leftTypesAssign = []string{"INTEGER", "FLOAT", "STRING", "BOOL", "RTIME", "TIME", "IP", "BACKEND", "REQBACKEND", "ACL", "header"}
var leftTypesCmp = []string{"INTEGER", "FLOAT", "STRING", "BOOL", "RTIME", "TIME", "IP", "BACKEND", "ACL", "header"}
var rightTypes = []string{"INTEGER", "FLOAT", "STRING", "BOOL", "RTIME", "TIME", "IP", "BACKEND", "ACL", "header"}
var forms = []string{"literal", "local", "notset-local", "predefined"}

// rightOperand returns the operand or ok=false when the (type, form) combination does not exist
// in VCL (no TIME/IP literal distinct from a string, no local header, no ACL local/predefined).
func rightOperand(t, form string) (operand, bool) {
	switch form {
	case "literal":
		switch t {
		case "INTEGER":
			return operand{t, "", "3"}, true
		case "FLOAT":
			return operand{t, "", "2.5"}, true
		case "STRING":
			return operand{t, "", `"192.0.2.7"`}, true
		case "BOOL":
			return operand{t, "", "true"}, true
		case "RTIME":
			return operand{t, "", "5s"}, true
		case "BACKEND":
			return operand{t, "", "example2"}, true
		case "ACL":
			return operand{t, "", "acl1"}, true
		}
	case "local":
		switch t {
		case "INTEGER":
			return operand{t, "declare local var.r INTEGER;\nset var.r = 3;", "var.r"}, true
		case "FLOAT":
			return operand{t, "declare local var.r FLOAT;\nset var.r = 2.5;", "var.r"}, true
		case "STRING":
			return operand{t, "declare local var.r STRING;\nset var.r = \"192.0.2.7\";", "var.r"}, true
		case "BOOL":
			return operand{t, "declare local var.r BOOL;\nset var.r = true;", "var.r"}, true
		case "RTIME":
			return operand{t, "declare local var.r RTIME;\nset var.r = 5s;", "var.r"}, true
		case "TIME":
			return operand{t, "declare local var.r TIME;\nset var.r = now;", "var.r"}, true
		case "IP":
			return operand{t, "declare local var.r IP;\nset var.r = \"10.0.0.1\";", "var.r"}, true
		case "BACKEND":
			return operand{t, "declare local var.r BACKEND;\nset var.r = example2;", "var.r"}, true
		case "ACL":
			return operand{t, "declare local var.r ACL;\nset var.r = acl1;", "var.r"}, true
		}
	case "notset-local":
		// a declared ACL variable that refers to no ACL yet
		if t == "ACL" {
			return operand{t, "declare local var.r ACL;", "var.r"}, true
		}
	case "predefined":
		switch t {
		case "INTEGER":
			return operand{t, "", predefInteger}, true
		case "FLOAT":
			return operand{t, "", predefFloat}, true
		case "STRING":
			return operand{t, "", predefString}, true
		case "BOOL":
			return operand{t, "", "req.is_ssl"}, true
		case "RTIME":
			return operand{t, "", predefRTime}, true
		case "TIME":
			return operand{t, "", "now"}, true
		case "IP":
			return operand{t, "", predefIP}, true
		case "BACKEND":
			return operand{t, "", "req.backend"}, true
		case "header":
			return operand{t, "set req.http.Y = \"192.0.2.7\";", "req.http.Y"}, true
		}
	}
	return operand{}, false
}

// fixed predefined representatives with non-zero values in the simulator's RECV scope
const (
	predefInteger = "client.requests"     // 1
	predefFloat   = "client.geo.latitude" // 37.779
	predefRTime   = "client.sess_timeout" // 600s
	predefIP      = "server.ip"           // client.ip is typed STRING by predefined.yml (and so by the linter): see the gettype cells
	predefString  = "client.identity"     // "192.0.2.1": a STRING that is also a valid IP, so that IP = STRING is value-benign
)

func opCells() []cell {
	var out []cell
	join := func(a, b string) string {
		switch {
		case a == "":
			return b
		case b == "":
			return a
		}
		return a + "\n" + b
	}
	for _, op := range assignOps {
		for _, lt := range leftTypesAssign {
			l, _ := leftOperand(lt)
			if lt == "ACL" {
				l, _ = leftOperand("ACLlocal")
			}
			for _, rt := range rightTypes {
				for _, f := range forms {
					r, ok := rightOperand(rt, f)
					if !ok {
						continue
					}
					out = append(out, cell{ID: fmt.Sprintf("op:%s/%s/%s/%s", op, lt, rt, f), Fam: "A", Scope: "RECV",
						Pre: join(l.pre, r.pre), Stmt: fmt.Sprintf("set %s %s %s;", l.expr, op, r.expr)})
				}
			}
		}
	}
	for _, op := range cmpOps {
		for _, lt := range leftTypesCmp {
			l, _ := leftOperand(lt)
			for _, rt := range rightTypes {
				for _, f := range forms {
					r, ok := rightOperand(rt, f)
					if !ok {
						continue
					}
					out = append(out, cell{ID: fmt.Sprintf("op:%s/%s/%s/%s", op, lt, rt, f), Fam: "A", Scope: "RECV",
						Pre: join(l.pre, r.pre), Stmt: fmt.Sprintf("if (%s %s %s) {}", l.expr, op, r.expr)})
				}
			}
		}
	}
	return out
}

func tablePath(verif string) string {
	return filepath.Join(verif, "harness", "reftab", "assign_table.json")
}

func loadTable(verif string) (map[string]string, error) {
	b, err := os.ReadFile(tablePath(verif))
	if err != nil {
		return nil, err
	}
	m := map[string]string{}
	if err := json.Unmarshal(b, &m); err != nil {
		return nil, err
	}
	return m, nil
}

// ---- generator ---------------------------------------------------------------------------------

func pairs() []string {
	var out []string
	for i := range scopes {
		for j := i + 1; j < len(scopes); j++ {
			out = append(out, scopes[i]+","+scopes[j])
		}
	}
	return out
}

func gen(g *fw.GenCtx) {
	vars, fns, err := loadYAML(g.Repo)
	if err != nil {
		panic(err)
	}
	var all []cell
	all = append(all, varCells(vars, scopes, "B1", []string{"get", "set", "unset", "gettype"})...)
	all = append(all, fnCells(fns, scopes, "B2", !g.Quick())...)
	all = append(all, stmtCells(scopes, "B3")...)
	tab, terr := loadTable(g.Verif)
	for _, c := range opCells() {
		if terr == nil {
			c.Ref = tab[c.ID] // "" when the cell is missing from the frozen table
			if c.Ref == "" {
				// an ACL held in a local variable is typed like the ACL name itself
				for _, f := range []string{"/ACL/local", "/ACL/notset-local"} {
					if strings.HasSuffix(c.ID, f) {
						c.Ref = tab[strings.TrimSuffix(c.ID, f)+"/ACL/literal"]
					}
				}
			}
		}
		all = append(all, c)
	}
	all = append(all, routeCells(all, g.Quick(), g.Seed)...)
	{
		// the two-scope annotations: all 36 pairs (thorough), a third of them chosen by the seed (quick)
		p := pairs()
		if g.Quick() {
			var q []string
			for i, x := range p {
				if (i+int(g.Seed))%3 == 0 {
					q = append(q, x)
				}
			}
			p = q
		}
		all = append(all, varCells(vars, p, "P", []string{"get", "set", "unset"})...)
		all = append(all, fnCells(fns, p, "P", false)...)
		all = append(all, stmtCells(p, "P")...)
	}
	// one case = up to 300 cells of one family (the case kind names the family so that the evidence
	// carries written-out samples of every family)
	const per = 300
	sort.SliceStable(all, func(a, b int) bool { return all[a].Fam < all[b].Fam })
	for i := 0; i < len(all); {
		j := i
		for j < len(all) && j-i < per && all[j].Fam == all[i].Fam {
			j++
		}
		g.Emit("cells/"+all[i].Fam, batch{Cells: all[i:j]})
		i = j
	}
}

// ---- worker ------------------------------------------------------------------------------------

type lintObs struct {
	accepted  bool
	onLine    []string // ERROR messages on the one-use line
	elsewhere []string // ERROR messages located on another line (harness problem)
	parseErr  string
}

func lintCell(c cell) lintObs {
	src, line := lintSource(c)
	var o lintObs
	v, err := parser.New(lexer.NewFromString(src)).ParseVCL()
	if err != nil {
		o.parseErr = err.Error()
		return o
	}
	l := linter.New(&config.LinterConfig{})
	l.Lint(v, lcontext.New())
	if l.FatalError != nil {
		o.parseErr = "fatal: " + l.FatalError.Error.Error()
		return o
	}
	for _, e := range l.Errors {
		if e.Severity != linter.ERROR {
			continue
		}
		m := firstLine(e.Message)
		if e.Token.Line == line {
			o.onLine = append(o.onLine, m)
		} else {
			o.elsewhere = append(o.elsewhere, fmt.Sprintf("line %d: %s", e.Token.Line, m))
		}
	}
	o.accepted = len(o.onLine) == 0
	return o
}

func firstLine(s string) string {
	if i := strings.IndexByte(s, '\n'); i >= 0 {
		s = s[:i]
	}
	return s
}

// errClass reduces a runtime error message to a message class. ok=false means the class is not
// one of those the property forbids (value-dependent or environmental): reported as inconclusive.
func errClass(msg string) (class string, violation bool) {
	m := strings.ToLower(firstLine(msg))
	switch {
	case strings.Contains(m, "undefined variable"), strings.Contains(m, "is not defined"), strings.Contains(m, "undefined"), strings.Contains(m, "not found"), strings.Contains(m, "is not found"):
		return "undefined", true
	case strings.Contains(m, "only available in"), strings.Contains(m, "could only be enable"), strings.Contains(m, "could not call"), strings.Contains(m, "not available in"), strings.Contains(m, "scope"):
		return "scope", true
	case strings.Contains(m, "argument") || strings.Contains(m, "arity"):
		return "arguments", true
	case strings.Contains(m, "could not set"), strings.Contains(m, "cannot set"), strings.Contains(m, "could not unset"), strings.Contains(m, "cannot unset"), strings.Contains(m, "read-only"), strings.Contains(m, "readonly"), strings.Contains(m, "could not assign"), strings.Contains(m, "cannot assign"):
		return "cannot-set", true
	case strings.Contains(m, "type"), strings.Contains(m, "invalid operator"), strings.Contains(m, "could not use"), strings.Contains(m, "unexpected value"), strings.Contains(m, "comparison"), strings.Contains(m, "literal"):
		return "type", true
	case strings.Contains(m, "not implemented"), strings.Contains(m, "unimplemented"), strings.Contains(m, "not support"):
		return "not-implemented", true
	}
	return slug(m), false
}

func slug(s string) string {
	var b strings.Builder
	last := byte('-')
	for i := 0; i < len(s) && b.Len() < 48; i++ {
		ch := s[i]
		switch {
		case ch >= 'a' && ch <= 'z', ch >= '0' && ch <= '9', ch == '.', ch == '_':
			b.WriteByte(ch)
			last = ch
		default:
			if last != '-' {
				b.WriteByte('-')
				last = '-'
			}
		}
	}
	return strings.Trim(b.String(), "-")
}

// stripPos removes the "in <file> at line N, position M" tail exception.Runtime adds.
func stripPos(s string) string {
	s = firstLine(s)
	s = strings.TrimPrefix(s, "[RuntimeException] ")
	if i := strings.Index(s, " at line: "); i >= 0 {
		s = s[:i]
	}
	if i := strings.Index(s, " in "); i >= 0 && strings.Contains(s[i:], " at line ") {
		s = s[:i]
	}
	return s
}

func runCell(oc *fw.Outcome, c cell) {
	src, _ := lintSource(c)
	fw.JournalS(c.ID + "\n" + src)
	oc.Evals++
	fam := c.Fam
	oc.Tag("cells/" + fam)
	var lo lintObs
	p, msg, st := fw.Guard(func() { lo = lintCell(c) })
	detail := func(extra map[string]any) map[string]any {
		d := map[string]any{"cell": c.ID, "scope": c.Scope, "lint_program": src, "reference": c.Ref}
		for k, v := range extra {
			d[k] = v
		}
		return d
	}
	if p {
		oc.Violate(c.ID+"/lint:panic", "linter panicked on a one-use program: "+msg, detail(map[string]any{"stack": fw.TrimStack(st)}))
		return
	}
	if lo.parseErr != "" {
		oc.Tag("harness/parse-error/" + fam)
		oc.Inconc = append(oc.Inconc, fmt.Sprintf("harness: cell %s does not parse: %s", c.ID, firstLine(lo.parseErr)))
		return
	}
	oc.NonTrivialS(c.ID)
	if len(lo.elsewhere) > 0 {
		// an ERROR outside the one-use statement means the scaffolding is not lint-clean
		oc.Tag("harness/lint-error-elsewhere/" + fam)
		oc.Inconc = append(oc.Inconc, fmt.Sprintf("harness: cell %s: lint ERROR outside the one-use statement: %s", c.ID, strings.Join(lo.elsewhere, " | ")))
		return
	}
	got := verdict(lo.accepted)
	oc.Tag("lint-" + got + "/" + fam)
	switch {
	case c.Ref == "":
		oc.Tag("no-reference/" + fam)
		oc.Inconc = append(oc.Inconc, "no reference verdict for cell "+c.ID+" (frozen table missing or incomplete)")
	case c.Ref == got:
		oc.Tag("lint-agrees/" + fam)
	case got == "accept":
		oc.Violate(c.ID+"/lint:accepts-ref-rejects", fmt.Sprintf("linter accepts `%s` in %s but the reference rejects it", c.Stmt, c.Scope), detail(nil))
	default:
		oc.Violate(c.ID+"/lint:rejects-ref-accepts", fmt.Sprintf("linter rejects `%s` in %s (%s) but the reference allows it", c.Stmt, c.Scope, strings.Join(lo.onLine, " | ")), detail(map[string]any{"lint_errors": lo.onLine}))
	}
	if !lo.accepted {
		if fw.Tier == "thorough" && !strings.Contains(c.Scope, ",") && c.NoExec == "" {
			// information only (the property is one-directional here): does the simulator run what the linter rejects?
			mainVCL, subVCL := execSource(c)
			fw.JournalS(c.ID + "\nEXEC(rejected) " + c.Scope + "\n" + subVCL)
			var res *sim.Result
			p, _, _ := fw.Guard(func() {
				res = sim.RunSub(mainVCL, subVCL, c.Scope, nil, sim.Request{}, func(m *sim.Monitor) { m.NoSnaps = true })
			})
			switch {
			case p:
				oc.Tag("info/lint-rejects-sim-panics/" + fam)
			case res.InitErr != nil || res.ParseErr != nil || res.Err != nil:
				oc.Tag("info/lint-rejects-sim-rejects/" + fam)
			default:
				oc.Tag("info/lint-rejects-sim-accepts/" + fam)
			}
		}
		return
	}
	if strings.Contains(c.Scope, ",") {
		oc.Tag("not-executed/two-scope-annotation(lint-only)")
		return
	}
	if c.NoExec != "" {
		oc.Tag("not-executable/" + c.NoExec)
		return
	}
	mainVCL, subVCL := execSource(c)
	fw.JournalS(c.ID + "\nEXEC " + c.Scope + "\n" + subVCL)
	var res *sim.Result
	p, msg, st = fw.Guard(func() {
		res = sim.RunSub(mainVCL, subVCL, c.Scope, nil, sim.Request{}, func(m *sim.Monitor) { m.NoSnaps = true })
	})
	oc.Tag("executed/" + fam)
	xd := map[string]any{"exec_sub": subVCL}
	if p {
		oc.Tag("exec-panic/" + fam)
		oc.Violate(c.ID+"/exec:"+fw.PanicKey(st), fmt.Sprintf("linter accepts `%s` in %s but the simulator panics: %s", c.Stmt, c.Scope, msg), detail(map[string]any{"exec_sub": subVCL, "stack": fw.TrimStack(st)}))
		return
	}
	if res.InitErr != nil || res.ParseErr != nil {
		oc.Tag("harness/exec-init-error/" + fam)
		oc.Inconc = append(oc.Inconc, fmt.Sprintf("harness: cell %s: init/parse error %v %v", c.ID, res.InitErr, res.ParseErr))
		return
	}
	if res.Err == nil {
		oc.Tag("exec-ok/" + fam)
		return
	}
	em := stripPos(res.Err.Error())
	class, viol := errClass(em)
	xd["error"] = em
	if strings.Contains(c.ID, "/gettype/") && (strings.Contains(em, "comparison NULL and") || strings.HasSuffix(em, "and NULL")) {
		// the variable is not readable at all: that is the finding of the plain `get` cell
		oc.Tag("gettype-undefined(reported-by-get-cell)")
		return
	}
	if !viol && strings.HasPrefix(c.ID, "var:") && (strings.Contains(c.ID, "/get/") || strings.Contains(c.ID, "/gettype/") || strings.Contains(c.ID, "/unset/")) {
		// a plain read or unset has no operand whose value could be to blame
		class, viol = "error:"+class, true
	}
	if !viol {
		if os.Getenv("C05_TRACE") != "" {
			fmt.Fprintf(os.Stderr, "TRACE inconclusive %s `%s`: %s\n", c.ID, c.Stmt, em)
		}
		oc.Tag("inconclusive:" + class)
		oc.Tag("exec-inconclusive/" + fam)
		return
	}
	oc.Tag("exec-fail/" + fam)
	oc.Violate(c.ID+"/exec:"+class, fmt.Sprintf("linter accepts `%s` in %s but the simulator fails: %s", c.Stmt, c.Scope, em), detail(xd))
}

func run(c fw.Case) fw.Outcome {
	var oc fw.Outcome
	var b batch
	if err := json.Unmarshal(c.Data, &b); err != nil {
		oc.Inconc = append(oc.Inconc, "bad case: "+err.Error())
		return oc
	}
	for _, cl := range b.Cells {
		if cl.Route != "" {
			runRouteCell(&oc, cl)
			continue
		}
		runCell(&oc, cl)
	}
	if len(b.Cells) > 0 {
		src, _ := lintSource(b.Cells[0])
		oc.Sample = map[string]any{"cell": b.Cells[0].ID, "reference": b.Cells[0].Ref, "lint_program": src}
	}
	return oc
}

// finish writes the complete list of violation keys (the orchestrator prints only the first 20).
func finish(r *fw.Report) {
	type row struct {
		Key    string `json:"key"`
		What   string `json:"what"`
		Detail any    `json:"detail,omitempty"`
	}
	keys := sortedKeys(r.Viols)
	rows := make([]row, 0, len(keys))
	dir := map[string]int64{}
	for _, k := range keys {
		v := r.Viols[k]
		rows = append(rows, row{k, v.What, v.Detail})
		d := "other"
		switch {
		case strings.Contains(k, "/exec:"):
			d = "exec"
		case strings.Contains(k, "/lint:"):
			d = k[strings.Index(k, "/lint:")+1:]
		}
		dir[d]++
	}
	r.Extra["violation_keys_by_direction"] = dir
	r.Extra["violation_keys_total"] = len(keys)
	b, _ := json.MarshalIndent(rows, "", " ")
	os.MkdirAll(filepath.Join(fw.Verif, ".build", "tmp"), 0o755)
	os.WriteFile(filepath.Join(fw.Verif, ".build", "tmp", "C05-violations-"+r.Tier+".json"), b, 0o644)
}

// ---- freezing the assignment table -----------------------------------------------------------------

// freeze writes reftab/assign_table.json from the linter's verdicts on the current tree and lists
// the cells where the linter accepts but the simulator fails. Run once: C05_FREEZE=1 <binary>.
func freeze(verif string) {
	tab := map[string]string{}
	cells := opCells()
	for _, c := range cells {
		var lo lintObs
		p, msg, _ := fw.Guard(func() { lo = lintCell(c) })
		if p || lo.parseErr != "" || len(lo.elsewhere) > 0 {
			fmt.Printf("NOT-FROZEN %s: panic=%v %s parse=%s elsewhere=%v\n", c.ID, p, msg, lo.parseErr, lo.elsewhere)
			continue
		}
		tab[c.ID] = verdict(lo.accepted)
		if lo.accepted {
			mainVCL, subVCL := execSource(c)
			var res *sim.Result
			p, msg, _ := fw.Guard(func() {
				res = sim.RunSub(mainVCL, subVCL, c.Scope, nil, sim.Request{}, func(m *sim.Monitor) { m.NoSnaps = true })
			})
			switch {
			case p:
				fmt.Printf("ACCEPT-BUT-SIM-PANICS %s `%s`: %s\n", c.ID, c.Stmt, msg)
			case res.InitErr != nil || res.ParseErr != nil:
				fmt.Printf("HARNESS %s: %v %v\n", c.ID, res.InitErr, res.ParseErr)
			case res.Err != nil:
				fmt.Printf("ACCEPT-BUT-SIM-FAILS %s `%s`: %s\n", c.ID, c.Stmt, stripPos(res.Err.Error()))
			}
		} else if os.Getenv("C05_FREEZE_VERBOSE") != "" {
			fmt.Printf("reject %s `%s`: %s\n", c.ID, c.Stmt, strings.Join(lo.onLine, " | "))
		}
	}
	// deterministic, diff-friendly: one cell per line, sorted
	keys := sortedKeys(tab)
	var sb strings.Builder
	sb.WriteString("{\n")
	for i, k := range keys {
		kb, _ := json.Marshal(k)
		fmt.Fprintf(&sb, " %s: %q", kb, tab[k])
		if i < len(keys)-1 {
			sb.WriteByte(',')
		}
		sb.WriteByte('\n')
	}
	sb.WriteString("}\n")
	os.MkdirAll(filepath.Dir(tablePath(verif)), 0o755)
	if err := os.WriteFile(tablePath(verif), []byte(sb.String()), 0o644); err != nil {
		fmt.Println("cannot write table:", err)
		os.Exit(2)
	}
	fmt.Printf("frozen %d cells (%d total) into %s\n", len(tab), len(cells), tablePath(verif))
}

func main() {
	if os.Getenv("C05_FREEZE") != "" {
		verif := os.Getenv("VERIF_DIR")
		if verif == "" {
			verif = "/verif"
		}
		freeze(verif)
		return
	}
	fw.Main(&fw.Prop{
		ID:    "C05",
		Level: "exploration",
		Rule: "every cell of four finite families is instantiated as a one-use VCL program: (B1) every key of __generator__/predefined.yml x {get,set,unset} x 9 scopes, (B2) every key of __generator__/builtin.yml x each declared signature x 9 scopes x {expression, statement} " +
			"(thorough: also one argument too few / too many), (B3) restart, error, esi, synthetic, synthetic.base64 and return(<9 actions>) x 9 scopes, (A) 15 assignment + 8 comparison operators x left type x right type x {literal, local, predefined}, " +
			"(P, thorough) the B families under all 36 two-scope `@scope:` annotations (lint only). Each program is linted by the real linter in the cell's scope (accept = no ERROR diagnostic on the line of the one-use statement), the verdict is compared with the reference " +
			"(YAML tables read at run time: scope in `on:` and operation/signature declared, multi-scope = every scope; documented statement scopes; frozen reftab/assign_table.json for A), and every accepted single-scope cell is executed by the real interpreter in that scope " +
			"(TestProcessInit + ProcessTestSubroutine) with benign operands; a returned error of class undefined/scope/arguments/cannot-set/type/not-implemented or a panic is a violation. non-trivial = cell whose program parsed and was linted; distinct by cell id",
		Assumptions: []string{
			"`esi` has no documented scope restriction in the repository (docs/parser.md, docs/rules.md, linter comment: enabled in all subroutines): the reference allows it in every scope",
			"family A has no YAML reference: the reference is the frozen table generated from the linter at the pinned commit and reviewed by hand (a later one-cell change is detected); the execution half is checked live",
			"runtime errors whose message class is value-dependent are counted as inconclusive:<class> tags, not violations; operands are chosen benign so that none is expected",
			"the statement form of a function call is allowed by the reference exactly when the function declares no return type; the expression form exactly when it declares one",
			"too-few/too-many argument variants are skipped when another declared signature has that argument count or the signature is variadic (STRING_LIST)",
			"scope PIPE in `on:` lists is ignored (not one of the nine simulated scopes)",
		},
		Gen:           gen,
		Run:           run,
		Finish:        finish,
		Timeout:       300 * time.Second,
		MinNonTrivial: 20000,
		Exhaustive:    true,
	})
}
