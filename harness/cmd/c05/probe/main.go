package main

import (
	"fmt"
	"os"
	"strings"

	"verif/harness/sim"
)

func main() {
	names := os.Args[2:]
	res := sim.RunSub("sub vcl_recv {\n#FASTLY RECV\nreturn(lookup);\n}\n", "sub t {\nlog \"x\";\n}\n", os.Args[1], names, sim.Request{})
	if res.Err != nil || res.InitErr != nil {
		fmt.Println(res.Err, res.InitErr)
	}
	for _, n := range names {
		v := res.Snaps[0].Vals[n]
		fmt.Printf("%-40s %s %q err=%s\n", n, v.Type, v.Str, strings.TrimSpace(v.Err))
	}
}
