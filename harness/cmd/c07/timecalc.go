package main

// Time calculation inside a string concatenation: `TIME + RTIME-literal` is a
// TIME (rendered as an HTTP date) wherever it stands in the series: alone, first, in the middle, last.
// The TIME is a fixed instant (std.integer2time), so the expectation is computed here with the Go
// time package; nothing depends on the wall clock.

import (
	"fmt"
	"net/http"
	"strings"
	"time"

	"verif/harness/fw"
	"verif/harness/sim"
)

type tcLit struct {
	text string
	d    time.Duration
}

func runTimeCalc(oc *fw.Outcome) {
	const base = 1700000000
	lits := []tcLit{{"5m", 5 * time.Minute}, {"90s", 90 * time.Second}, {"1h", time.Hour}, {"2d", 48 * time.Hour}, {"1500ms", 1500 * time.Millisecond}, {"0s", 0}, {"1y", 365 * 24 * time.Hour}}
	type place struct{ name, pre, post string }
	places := []place{{"alone", "", ""}, {"first", "", ` ";tail"`}, {"middle", `"head=" `, ` ";tail"`}, {"last", `"head=" `, ""}}
	for _, l := range lits {
		for _, op := range []string{"+"} { // the grammar has no infix minus
			for _, p := range places {
				for _, target := range []string{"req.http.T", "var.s"} {
					src := "sub t {\ndeclare local var.t TIME;\ndeclare local var.s STRING;\nset var.t = std.integer2time(" + fmt.Sprint(base) + ");\n" +
						"set " + target + " = " + p.pre + "var.t " + op + " " + l.text + p.post + ";\nlog \"r=\" " + target + ";\n}\n"
					d := l.d
					if op == "-" {
						d = -d
					}
					want := "r=" + strings.Trim(p.pre, `" `) + time.Unix(base, 0).Add(d).UTC().Format(http.TimeFormat) + strings.Trim(p.post, `" `)
					fw.JournalS(src)
					oc.Evals++
					var res *sim.Result
					pn, msg, _ := fw.Guard(func() {
						res = sim.RunSub(notsetMain, src, "RECV", nil, sim.Request{}, func(m *sim.Monitor) { m.NoSnaps = true })
					})
					if pn {
						oc.Tag("interpreter-panic (C08): " + msg)
						continue
					}
					if res.ParseErr != nil || res.InitErr != nil {
						oc.Inconc = append(oc.Inconc, fmt.Sprintf("timecalc: program does not load: %v %v\n%s", res.ParseErr, res.InitErr, src))
						continue
					}
					key := "timecalc:" + p.name + "/" + op
					if res.Err != nil {
						oc.Violate(key+"/error", fmt.Sprintf("`%s %s %s` (%s operand of the concatenation) is a runtime error: %s", "var.t", op, l.text, p.name, firstLineOf(res.Err.Error())), map[string]any{"vcl": src})
						continue
					}
					if len(res.Logs) != 1 || res.Logs[0] != want {
						oc.Violate(key+"/value", fmt.Sprintf("`var.t %s %s` (%s operand) gives %v, expected %q", op, l.text, p.name, res.Logs, want), map[string]any{"vcl": src})
						continue
					}
					oc.NonTrivialS(src)
					oc.Tag("timecalc:" + p.name)
				}
			}
		}
	}
}

func firstLineOf(s string) string {
	if i := strings.IndexByte(s, '\n'); i >= 0 {
		return s[:i]
	}
	return s
}
