package main

// Not-set STRING locals: the first write to a local that was only declared, in every form, and what the
// local reads afterwards. Expectations come from the property text: a not-set string is falsy and
// equals nothing; once a value is assigned the local holds that value (appending to a not-set local
// gives the appended text); a not-set value assigned to a local reads as empty.

import (
	"fmt"
	"strings"

	"verif/harness/fw"
	"verif/harness/sim"
)

const notsetMain = "sub vcl_recv {\n#FASTLY RECV\nreturn(lookup);\n}\n"

type nsCase struct {
	write string   // statements after `declare local var.s STRING;`
	want  []string // expected log lines of the probe
}

// probe logs: the value in brackets, truthiness, equality with "x" and with ""
const nsProbe = `log "v=[" var.s "]"; if (var.s) { log "truthy"; } else { log "falsy"; } if (var.s == "x") { log "eq-x"; } else { log "ne-x"; } if (var.s == "") { log "eq-empty"; } else { log "ne-empty"; }`

func nsCases() []nsCase {
	return []nsCase{
		{``, []string{"v=[(null)]", "falsy", "ne-x", "ne-empty"}},
		{`set var.s = "x";`, []string{"v=[x]", "truthy", "eq-x", "ne-empty"}},
		{`set var.s += "x";`, []string{"v=[x]", "truthy", "eq-x", "ne-empty"}},
		{`set var.s += "x"; set var.s += "y"; set var.s = "x";`, []string{"v=[x]", "truthy", "eq-x", "ne-empty"}},
		{`set var.s += "x" "";`, []string{"v=[x]", "truthy", "eq-x", "ne-empty"}},
		{`declare local var.t STRING; set var.t = "x"; set var.s += var.t;`, []string{"v=[x]", "truthy", "eq-x", "ne-empty"}},
		{`declare local var.t STRING; set var.t = "x"; set var.s = var.t;`, []string{"v=[x]", "truthy", "eq-x", "ne-empty"}},
		{`set req.http.Set = "x"; set var.s += req.http.Set;`, []string{"v=[x]", "truthy", "eq-x", "ne-empty"}},
		{`set var.s = "";`, []string{"v=[]", "", "ne-x", "eq-empty"}},
		{`set var.s = req.http.Never-Set;`, []string{"", "", "ne-x", "eq-empty"}},
		{`declare local var.u STRING; set var.s = var.u;`, []string{"", "", "ne-x", "eq-empty"}},
		// an IP local that was only declared holds no address: it renders as nothing, directly and after a copy
		{`declare local var.ip IP; set var.s = var.ip;`, []string{"v=[]", "", "ne-x", ""}},
		{`declare local var.ip IP; declare local var.ip2 IP; set var.ip2 = var.ip; set var.s = var.ip2;`, []string{"v=[]", "", "ne-x", ""}},
		{`declare local var.ip IP; declare local var.ip2 IP; set var.ip2 = var.ip; set var.s = "[" var.ip2 "]";`, []string{"v=[[]]", "truthy", "ne-x", "ne-empty"}},
	}
}

func runNotSet(oc *fw.Outcome) {
	for ci, c := range nsCases() {
		// the same write in the driven subroutine, in a helper with a parameter, and inside a block
		for _, shape := range []string{"plain", "in-if", "in-switch"} {
			body := c.write
			switch shape {
			case "in-if":
				body = "if (!req.http.Never-Set) { " + c.write + " }"
			case "in-switch":
				body = "switch (req.method) { case \"GET\": " + c.write + " break; default: break; }"
			}
			if c.write == "" && shape != "plain" {
				continue
			}
			src := "sub t {\ndeclare local var.s STRING;\n" + body + "\n" + nsProbe + "\n}\n"
			if strings.Contains(c.write, "declare local") && shape != "plain" {
				continue // declarations stay at the top level of the subroutine
			}
			fw.JournalS(src)
			oc.Evals++
			var res *sim.Result
			pn, msg, _ := fw.Guard(func() {
				res = sim.RunSub(notsetMain, src, "RECV", nil, sim.Request{}, func(m *sim.Monitor) { m.NoSnaps = true })
			})
			if pn {
				oc.Tag("interpreter-panic (C08): " + msg)
				continue
			}
			if res.ParseErr != nil || res.InitErr != nil || res.Err != nil {
				oc.Inconc = append(oc.Inconc, fmt.Sprintf("notset: program does not run: %v %v %v\n%s", res.ParseErr, res.InitErr, res.Err, src))
				continue
			}
			if len(res.Logs) != len(c.want) {
				oc.Violate("notset-local:logs", fmt.Sprintf("%d log lines, expected %d: %v", len(res.Logs), len(c.want), res.Logs), map[string]any{"vcl": src})
				continue
			}
			ok := true
			for i, w := range c.want {
				if w != "" && res.Logs[i] != w {
					what := []string{"value", "truthiness", "equality", "equality-with-empty"}[i]
					oc.Violate(fmt.Sprintf("notset-local:%s/write%d", what, ci), fmt.Sprintf("after `%s` the local reads %q, expected %q (all lines: %v)", c.write, res.Logs[i], w, res.Logs), map[string]any{"vcl": src, "shape": shape})
					ok = false
					break
				}
			}
			if ok {
				oc.Tag("notset-local:" + shape)
				oc.NonTrivialS(src)
			}
		}
	}
}
