package main

import (
	"fmt"
	"math/rand"
	"net/netip"
	"strings"

	"verif/harness/fw"
	"verif/harness/lintutil"
	"verif/harness/sim"
)

const mainVCL = "sub vcl_recv {\n#FASTLY RECV\nreturn(lookup);\n}\n"

// runText executes a driven subroutine given as text and returns its log lines.
func runText(oc *fw.Outcome, mainSrc, subSrc string) ([]string, string) {
	fw.JournalS(mainSrc + "\n" + subSrc)
	oc.Evals++
	var res *sim.Result
	pn, msg, _ := fw.Guard(func() { res = sim.RunSub(mainSrc, subSrc, "RECV", nil, sim.Request{}, func(m *sim.Monitor) { m.NoSnaps = true }) })
	if pn {
		return nil, "panic: " + msg
	}
	if res.InitErr != nil {
		return nil, "init: " + res.InitErr.Error()
	}
	if res.ParseErr != nil {
		return nil, "parse: " + res.ParseErr.Error()
	}
	if res.Err != nil {
		return res.Logs, "runtime: " + strings.SplitN(res.Err.Error(), "\n", 2)[0]
	}
	return res.Logs, ""
}

// ---- (2) duality monitor ---------------------------------------------------------------------

var dualVals = map[string][]string{
	"INTEGER": {"0", "1", "-1", "2", "7", "-7", "100", "255", "65536", "-65536", "2147483647", "-2147483648", "4294967296", "9223372036854775807", "-9223372036854775807"},
	"FLOAT":   {"0.0", "0.5", "-0.5", "1.0", "1.5", "-1.5", "2.25", "100.125", "0.001", "-0.001", "1000000.5", "-1000000.5", "3.0"},
	"RTIME":   {"0s", "1ms", "999ms", "1s", "1.5s", "10s", "5m", "2h", "1d", "100ms", "60s", "1m"},
	"STRING":  {"\"\"", "\"a\"", "\"b\"", "\"A\"", "\"ab\"", "\"abc\"", "\"10\"", "\"9\"", "\" a\"", "\"é\"", "\"a b\""},
}

func runDual(oc *fw.Outcome, cc ccase) {
	r := rand.New(rand.NewSource(cc.Seed))
	for i := 0; i < cc.N; i++ {
		// one program holds 12 pairs
		var sb strings.Builder
		sb.WriteString("sub t {\n")
		for _, t := range []string{"INTEGER", "FLOAT", "RTIME", "STRING"} {
			fmt.Fprintf(&sb, "declare local var.a_%s %s;\ndeclare local var.b_%s %s;\n", t[:1], t, t[:1], t)
		}
		type pair struct{ typ, a, b string }
		var pairs []pair
		for k := 0; k < 12; k++ {
			t := []string{"INTEGER", "INTEGER", "FLOAT", "RTIME", "STRING"}[r.Intn(5)]
			vs := dualVals[t]
			a, b := vs[r.Intn(len(vs))], vs[r.Intn(len(vs))]
			if r.Intn(4) == 0 {
				b = a
			}
			pairs = append(pairs, pair{t, a, b})
			va, vb := "var.a_"+t[:1], "var.b_"+t[:1]
			fmt.Fprintf(&sb, "set %s = %s;\nset %s = %s;\n", va, a, vb, b)
			ops := []string{"==", "!=", "<", ">", "<=", ">="}
			if t == "STRING" {
				ops = []string{"==", "!="}
			}
			for _, op := range ops {
				// a OP b, b OP a, !(a OP b), and against the literal on the right
				fmt.Fprintf(&sb, "if (%s %s %s) { log \"%d|%s|ab|1\"; } else { log \"%d|%s|ab|0\"; }\n", va, op, vb, k, op, k, op)
				fmt.Fprintf(&sb, "if (%s %s %s) { log \"%d|%s|ba|1\"; } else { log \"%d|%s|ba|0\"; }\n", vb, op, va, k, op, k, op)
				fmt.Fprintf(&sb, "if (!(%s %s %s)) { log \"%d|%s|not|1\"; } else { log \"%d|%s|not|0\"; }\n", va, op, vb, k, op, k, op)
				fmt.Fprintf(&sb, "if (%s %s %s) { log \"%d|%s|lit|1\"; } else { log \"%d|%s|lit|0\"; }\n", va, op, b, k, op, k, op)
			}
			if t == "STRING" {
				pat := []string{"^a", "b$", "^$", "a", "[0-9]+", "^A", " "}[r.Intn(7)]
				fmt.Fprintf(&sb, "if (%s ~ \"%s\") { log \"%d|~|ab|1\"; } else { log \"%d|~|ab|0\"; }\n", va, pat, k, k)
				fmt.Fprintf(&sb, "if (%s !~ \"%s\") { log \"%d|!~|ab|1\"; } else { log \"%d|!~|ab|0\"; }\n", va, pat, k, k)
			}
		}
		// mixed numeric types: the documentation does not fix the VALUE of such a comparison, the order laws must hold anyway
		type mpair struct{ lt, rt, a, b string }
		var mpairs []mpair
		for k := 0; k < 6; k++ {
			combos := [][2]string{{"FLOAT", "RTIME"}, {"RTIME", "FLOAT"}, {"INTEGER", "RTIME"}, {"RTIME", "INTEGER"}, {"FLOAT", "INTEGER"}}
			c := combos[r.Intn(len(combos))]
			a, b := dualVals[c[0]][r.Intn(len(dualVals[c[0]]))], dualVals[c[1]][r.Intn(len(dualVals[c[1]]))]
			if strings.HasPrefix(a, "9223372036854775807") || strings.HasPrefix(b, "9223372036854775807") || strings.HasPrefix(a, "-9223372036854775807") || strings.HasPrefix(b, "-9223372036854775807") {
				a, b = dualVals[c[0]][1], dualVals[c[1]][1]
			}
			mpairs = append(mpairs, mpair{c[0], c[1], a, b})
			va, vb := "var.a_"+c[0][:1], "var.b_"+c[1][:1]
			fmt.Fprintf(&sb, "set %s = %s;\nset %s = %s;\n", va, a, vb, b)
			for _, op := range []string{"<", ">", "<=", ">="} {
				fmt.Fprintf(&sb, "if (%s %s %s) { log \"x%d|%s|ab|1\"; } else { log \"x%d|%s|ab|0\"; }\n", va, op, vb, k, op, k, op)
				if !(c[0] == "FLOAT" && c[1] == "INTEGER") {
					// the reverse order is linter-accepted too (INTEGER < FLOAT is not)
					fmt.Fprintf(&sb, "if (%s %s %s) { log \"x%d|%s|ba|1\"; } else { log \"x%d|%s|ba|0\"; }\n", vb, op, va, k, op, k, op)
				}
			}
		}
		sb.WriteString("}\n")
		src := sb.String()
		logs, status := runText(oc, mainVCL, src)
		if status != "" {
			oc.Violate("dual:does-not-run", "a program made only of comparisons of two locals of the same type does not run: "+clip(status, 200), map[string]any{"sub": clip(src, 4000)})
			continue
		}
		if i == 0 {
			oc.Sample = map[string]any{"sub": clip(src, 1200), "log_lines": len(logs)}
		}
		got := map[string]bool{}
		for _, l := range logs {
			f := strings.Split(l, "|")
			if len(f) == 4 {
				got[f[0]+"|"+f[1]+"|"+f[2]] = f[3] == "1"
			}
		}
		for k, pr := range pairs {
			g := func(op, form string) (bool, bool) {
				v, ok := got[fmt.Sprintf("%d|%s|%s", k, op, form)]
				return v, ok
			}
			law := func(name string, x, y bool, okx, oky bool) {
				if !okx || !oky {
					return
				}
				oc.Tag("law:" + name + "/" + pr.typ)
				if x != y {
					oc.Violate("dual:"+name+"/"+pr.typ, fmt.Sprintf("with a = %s and b = %s (%s): %s does not hold", pr.a, pr.b, pr.typ, name),
						map[string]any{"sub": clip(src, 4000), "pair": k, "a": pr.a, "b": pr.b})
				}
			}
			eq, okEq := g("==", "ab")
			ne, okNe := g("!=", "ab")
			law("(a != b) = not (a == b)", ne, !eq, okNe, okEq)
			eqba, okEqba := g("==", "ba")
			law("(a == b) = (b == a)", eq, eqba, okEq, okEqba)
			for _, op := range []string{"==", "!=", "<", ">", "<=", ">="} {
				v, ok := g(op, "ab")
				nv, nok := g(op, "not")
				law("!(a "+op+" b) = not (a "+op+" b)", nv, !v, nok, ok)
				lv, lok := g(op, "lit")
				law("(a "+op+" <literal of b>) = (a "+op+" b)", lv, v, lok, ok)
			}
			if pr.typ != "STRING" {
				lt, ok1 := g("<", "ab")
				gtba, ok2 := g(">", "ba")
				law("(a < b) = (b > a)", lt, gtba, ok1, ok2)
				le, ok3 := g("<=", "ab")
				geba, ok4 := g(">=", "ba")
				law("(a <= b) = (b >= a)", le, geba, ok3, ok4)
				gt, ok5 := g(">", "ab")
				law("(a <= b) = not (a > b)", le, !gt, ok3, ok5)
				ge, ok6 := g(">=", "ab")
				law("(a >= b) = not (a < b)", ge, !lt, ok6, ok1)
				law("(a <= b) = (a < b) or (a == b)", le, lt || eq, ok3, ok1 && okEq)
			} else {
				m, ok1 := g("~", "ab")
				nm, ok2 := g("!~", "ab")
				law("(a !~ p) = not (a ~ p)", nm, !m, ok2, ok1)
			}
		}
		for k, mp := range mpairs {
			g := func(op, form string) (bool, bool) {
				v, ok := got[fmt.Sprintf("x%d|%s|%s", k, op, form)]
				return v, ok
			}
			typ := mp.lt + "-" + mp.rt
			law := func(name string, x, y bool, okx, oky bool) {
				if !okx || !oky {
					return
				}
				oc.Tag("law:" + name + "/" + typ)
				if x != y {
					oc.Violate("dual:"+name+"/"+typ, fmt.Sprintf("with a = %s (%s) and b = %s (%s): %s does not hold", mp.a, mp.lt, mp.b, mp.rt, name),
						map[string]any{"sub": clip(src, 5000), "a": mp.a, "b": mp.b})
				}
			}
			lt, ok1 := g("<", "ab")
			gt, ok2 := g(">", "ab")
			le, ok3 := g("<=", "ab")
			ge, ok4 := g(">=", "ab")
			law("(a <= b) = not (a > b)", le, !gt, ok3, ok2)
			law("(a >= b) = not (a < b)", ge, !lt, ok4, ok1)
			gtba, ok5 := g(">", "ba")
			ltba, ok6 := g("<", "ba")
			geba, ok7 := g(">=", "ba")
			leba, ok8 := g("<=", "ba")
			law("(a < b) = (b > a)", lt, gtba, ok1, ok5)
			law("(a > b) = (b < a)", gt, ltba, ok2, ok6)
			law("(a <= b) = (b >= a)", le, geba, ok3, ok7)
			law("(a >= b) = (b <= a)", ge, leba, ok4, ok8)
		}
		oc.NonTrivialS(src)
	}
}

// ---- (3) ACL monitor ---------------------------------------------------------------------------

type aclEntry struct {
	addr netip.Addr
	bits int // -1 = no mask written
	neg  bool
}

func (e aclEntry) prefix() netip.Prefix {
	b := e.bits
	if b < 0 {
		b = e.addr.BitLen()
	}
	p, _ := e.addr.Prefix(b)
	return p
}

func (e aclEntry) text() string {
	s := ""
	if e.neg {
		s = "!"
	}
	s += "\"" + e.addr.String() + "\""
	if e.bits >= 0 {
		s += fmt.Sprintf("/%d", e.bits)
	}
	return s + ";"
}

// refMatch: the most specific entry containing the address decides; a negated one means no match.
func refMatch(es []aclEntry, a netip.Addr) (bool, string) {
	best, bestBits := -1, -1
	for i, e := range es {
		p := e.prefix()
		if p.Addr().Is4() != a.Is4() {
			continue
		}
		if p.Contains(a) && p.Bits() > bestBits {
			best, bestBits = i, p.Bits()
		}
	}
	if best < 0 {
		return false, "no entry contains it"
	}
	return !es[best].neg, "decided by " + es[best].text()
}

func lastAddr(p netip.Prefix) netip.Addr {
	b := p.Addr().AsSlice()
	for i := p.Bits(); i < len(b)*8; i++ {
		b[i/8] |= 1 << (7 - uint(i%8))
	}
	a, _ := netip.AddrFromSlice(b)
	return a
}

func genACL(r *rand.Rand) []aclEntry {
	v4bases := []string{"10.0.0.0", "10.1.2.3", "192.0.2.0", "192.0.2.128", "192.0.2.77", "198.51.100.1", "172.16.0.0", "0.0.0.0", "255.255.255.255", "10.0.0.255"}
	v6bases := []string{"2001:db8::", "2001:db8::1", "2001:db8:1::", "::1", "fe80::", "2001:db8:ffff::1", "::"}
	n := 1 + r.Intn(8)
	var es []aclEntry
	seen := map[string]bool{}
	for len(es) < n {
		var e aclEntry
		if r.Intn(4) == 0 {
			e.addr = netip.MustParseAddr(v6bases[r.Intn(len(v6bases))])
			e.bits = []int{-1, 128, 64, 48, 32, 127, 16, 0}[r.Intn(8)]
		} else {
			e.addr = netip.MustParseAddr(v4bases[r.Intn(len(v4bases))])
			e.bits = []int{-1, 32, 24, 25, 16, 8, 31, 30, 0, 12}[r.Intn(10)]
		}
		e.neg = r.Intn(3) == 0
		// the same prefix twice with different polarity has no defined answer: allow exact duplicates only
		k := e.prefix().String()
		if seen[k] {
			continue
		}
		seen[k] = true
		es = append(es, e)
		if r.Intn(6) == 0 {
			es = append(es, e) // exact duplicate
		}
	}
	return es
}

func aclClass(es []aclEntry, a netip.Addr, want bool) string {
	neg, v6, nomask, nested := false, a.Is6(), false, 0
	for _, e := range es {
		if e.prefix().Addr().Is4() != a.Is4() {
			continue
		}
		if e.prefix().Contains(a) {
			nested++
			if e.neg {
				neg = true
			}
			if e.bits < 0 {
				nomask = true
			}
		}
	}
	var parts []string
	if v6 {
		parts = append(parts, "v6")
	} else {
		parts = append(parts, "v4")
	}
	if nested > 1 {
		parts = append(parts, "nested")
	}
	if neg {
		parts = append(parts, "negated")
	}
	if nomask {
		parts = append(parts, "unmasked")
	}
	if nested == 0 {
		parts = append(parts, "outside")
	}
	return strings.Join(parts, "+")
}

func runACL(oc *fw.Outcome, cc ccase) {
	r := rand.New(rand.NewSource(cc.Seed))
	for i := 0; i < cc.N; i++ {
		es := genACL(r)
		// probes
		var probes []netip.Addr
		add := func(a netip.Addr) {
			if a.IsValid() {
				probes = append(probes, a)
			}
		}
		for _, e := range es {
			p := e.prefix()
			first, last := p.Addr(), lastAddr(p)
			add(first)
			add(last)
			add(first.Prev())
			add(last.Next())
			add(e.addr)
		}
		for k := 0; k < 6; k++ {
			var b [4]byte
			r.Read(b[:])
			add(netip.AddrFrom4(b))
		}
		add(netip.MustParseAddr("2001:db8::2"))
		add(netip.MustParseAddr("::2"))
		render := func(order []int) (string, string) {
			var mb strings.Builder
			mb.WriteString("acl probe_acl {\n")
			for _, k := range order {
				mb.WriteString("  " + es[k].text() + "\n")
			}
			mb.WriteString("}\n" + mainVCL)
			var sb strings.Builder
			sb.WriteString("sub t {\ndeclare local var.ip IP;\n")
			for k, a := range probes {
				fmt.Fprintf(&sb, "set var.ip = \"%s\";\nif (var.ip ~ probe_acl) { log \"%d|1\"; } else { log \"%d|0\"; }\n", a.String(), k, k)
				fmt.Fprintf(&sb, "if (var.ip !~ probe_acl) { log \"n%d|1\"; } else { log \"n%d|0\"; }\n", k, k)
			}
			sb.WriteString("}\n")
			return mb.String(), sb.String()
		}
		id := make([]int, len(es))
		for k := range id {
			id[k] = k
		}
		var base map[string]bool
		matched, unmatched := 0, 0
		for perm := 0; perm < 4; perm++ {
			order := append([]int{}, id...)
			if perm > 0 {
				r.Shuffle(len(order), func(a, b int) { order[a], order[b] = order[b], order[a] })
			}
			mainSrc, subSrc := render(order)
			if perm == 0 && i == 0 {
				if lr := lintutil.Lint(mainSrc+subSrc, nil); lr.ParseErr == nil {
					oc.Sample = map[string]any{"acl": clip(mainSrc, 600), "probes": len(probes), "lint_diagnostics": len(lr.Diags)}
				}
			}
			logs, status := runText(oc, mainSrc, subSrc)
			if status != "" {
				oc.Violate("acl:does-not-run", "an ACL probe program does not run: "+clip(status, 200), map[string]any{"main": mainSrc, "sub": clip(subSrc, 3000)})
				break
			}
			got := map[string]bool{}
			for _, l := range logs {
				f := strings.Split(l, "|")
				if len(f) == 2 {
					got[f[0]] = f[1] == "1"
				}
			}
			if perm == 0 {
				base = got
				for k, a := range probes {
					want, why := refMatch(es, a)
					g, ok := got[fmt.Sprint(k)]
					if !ok {
						continue
					}
					cls := aclClass(es, a, want)
					oc.Tag("acl-probe:" + cls)
					if want {
						matched++
					} else {
						unmatched++
					}
					if g != want {
						oc.Violate("acl:"+cls, fmt.Sprintf("%s ~ acl is %v in the interpreter, longest-prefix semantics say %v (%s)", a, g, want, why),
							map[string]any{"main": mainSrc, "address": a.String(), "reference": want, "interpreter": g})
					}
					if ng, ok := got[fmt.Sprintf("n%d", k)]; ok && ng == g {
						oc.Violate("acl:not-match-duality/"+cls, fmt.Sprintf("%s: `~` gives %v and `!~` gives %v", a, g, ng), map[string]any{"main": mainSrc, "address": a.String()})
					}
				}
				continue
			}
			for k, a := range probes {
				ks := fmt.Sprint(k)
				if base[ks] != got[ks] {
					want, _ := refMatch(es, a)
					oc.Violate("acl:order/"+aclClass(es, a, want), fmt.Sprintf("%s ~ acl changes from %v to %v when the entries of the ACL are permuted", a, base[ks], got[ks]),
						map[string]any{"permuted": mainSrc, "address": a.String()})
					break
				}
			}
		}
		if len(es) >= 2 && matched > 0 && unmatched > 0 {
			oc.NonTrivialS(fmt.Sprint(es))
		}
	}
}
