// C07 — expressions and assignments compute what VCL semantics prescribe.
package main

import (
	"encoding/json"
	"fmt"
	"math/rand"
	"sort"
	"strings"
	"time"

	"verif/harness/fw"
	"verif/harness/gen"
	"verif/harness/render"
	"verif/harness/sim"
	"verif/harness/tsim"
)

type ccase struct {
	Seed int64 `json:"seed"`
	N    int   `json:"n"`
}

func main() {
	fw.Main(&fw.Prop{
		ID:    "C07",
		Level: "exploration",
		Rule: "three monitors over executions of the real interpreter. (1) reference trace differ: typed core-language programs (INTEGER/FLOAT/STRING/BOOL/RTIME locals, req.http.* headers, every assignment operator the linter accepts per type, comparisons, regex match with capture groups, !, &&, ||, grouping, implicit and explicit concatenation, " +
			"if / else-if (all spellings) / else, switch with string and regex cases, default anywhere, fallthrough, call of helper subroutines with by-value parameters, early return) are executed under the debugger snapshot monitor; a reference evaluator that interprets the generator's own IR " +
			"(never falco's AST or values) predicts the state before EVERY executed statement; the first statement whose predicted state differs is reported, named by the statement executed just before it. Operands stay within range by construction (out of range belongs to C08). " +
			"(2) duality monitor: for generated comparison pairs the program evaluates a OP b, b OP' a and !(a OP b); `<` iff swapped `>`, `<=` iff swapped `>=`, `!=` = not `==`, `!~` = not `~`. " +
			"(3) ACL monitor: generated ACLs (<=8 entries, nested / overlapping / duplicated / negated, IPv4 and IPv6, default masks) probed with the network, first, last, first-1, last+1 address of every entry and PRNG addresses against a longest-prefix reference, and re-probed under permutations of the entries. " +
			"non-trivial = program whose execution takes >=1 branch and executes >=3 distinct assignment/comparison operators (1), a pair with both orders evaluated (2), an ACL with >=2 entries where >=1 probe matches and >=1 does not (3); distinct by program text",
		Assumptions: []string{
			"the reference evaluator's semantics are the documented core-language semantics for the type combinations the linter accepts; constructs where the documentation is silent are not generated (DESIGN.md section 7)",
			"operands are kept in range: no overflow, no division by zero, shift counts 0..63, finite floats below 1e15",
		},
		Gen:           genCases,
		Run:           run,
		Timeout:       180 * time.Second,
		MinNonTrivial: 300,
	})
}

func genCases(g *fw.GenCtx) {
	g.Emit("notset", ccase{})
	g.Emit("timecalc", ccase{})
	for k := 0; k < g.Pick(150, 6000); k++ {
		g.Emit("trace", ccase{Seed: g.Rand.Int63(), N: 20})
	}
	for k := 0; k < g.Pick(40, 1500); k++ {
		g.Emit("dual", ccase{Seed: g.Rand.Int63(), N: 10})
	}
	for k := 0; k < g.Pick(60, 3000); k++ {
		g.Emit("acl", ccase{Seed: g.Rand.Int63(), N: 30})
	}
}

func clip(s string, n int) string {
	if len(s) > n {
		return s[:n] + "…"
	}
	return s
}

// ---- (1) reference trace differ --------------------------------------------------------------

func refCanon(v gen.TVal, ok bool) string {
	if !ok || v.T == gen.TS && v.NotSet {
		return "STRING:<notset>"
	}
	return v.T.String() + ":" + v.Render()
}

func falcoCanon(v sim.Val) string {
	if v.Err != "" {
		return "<err:" + v.Err + ">"
	}
	if v.NotSet {
		return v.Type + ":<notset>"
	}
	return v.Type + ":" + v.Str
}

func refLookup(vals map[string]gen.TVal, name string) string {
	key := name
	if strings.HasPrefix(name, "req.http.") {
		key = "req.http." + strings.ToLower(strings.TrimPrefix(name, "req.http."))
	}
	v, ok := vals[key]
	return refCanon(v, ok)
}

func typeOfExpr(x gen.TExpr) string {
	switch t := x.(type) {
	case gen.TLit:
		return t.V.T.String() + "-literal"
	case gen.TVar:
		return t.T.String() + "-var"
	case gen.THdr:
		return "header"
	case gen.TConcat:
		return "concat"
	case gen.TCmp:
		return "cmp(" + t.Op + ")"
	case gen.TRegex:
		if t.Neg {
			return "regex(!~)"
		}
		return "regex(~)"
	case gen.TNot:
		return "not"
	case gen.TLogic:
		return "logic(" + t.Op + ")"
	case gen.TGroup:
		return "group:" + typeOfExpr(t.X)
	case gen.TNeg:
		return "neg:" + t.X.T.String() + "-var"
	}
	return "?"
}

// exprOps lists the operators of a condition (for keys and coverage).
func exprOps(x gen.TExpr, out map[string]bool) {
	switch t := x.(type) {
	case gen.TCmp:
		out["cmp:"+t.Op+"/"+typeOfExpr(t.L)+"/"+typeOfExpr(t.R)] = true
	case gen.TRegex:
		out[typeOfExpr(t)+"/"+typeOfExpr(t.L)] = true
	case gen.TNot:
		out["!"] = true
		exprOps(t.X, out)
	case gen.TLogic:
		out[t.Op] = true
		exprOps(t.L, out)
		exprOps(t.R, out)
	case gen.TGroup:
		exprOps(t.X, out)
	case gen.TConcat:
		out["concat"] = true
	case gen.TVar:
		out["truthy:"+t.T.String()] = true
	case gen.THdr:
		out["truthy:header"] = true
	}
}

func condKey(x gen.TExpr) string {
	m := map[string]bool{}
	exprOps(x, m)
	var ks []string
	for k := range m {
		ks = append(ks, k)
	}
	sort.Strings(ks)
	if len(ks) > 3 {
		ks = ks[:3]
	}
	return strings.Join(ks, "+")
}

// culpritKey names the statement that was executed just before the first divergence.
func culpritKey(s gen.TStmt) string {
	switch t := s.(type) {
	case gen.TSet:
		kind := "local"
		if t.Header {
			kind = "header"
		}
		return fmt.Sprintf("stmt:set/%s/%s/%s/%s", t.Op, kind, t.T.String(), typeOfExpr(t.Val))
	case gen.TUnset:
		return "stmt:unset/header"
	case gen.TLog:
		return "stmt:log"
	case gen.TIf:
		return "stmt:if/" + condKey(t.Cond)
	case gen.TSwitch:
		return "stmt:switch/" + typeOfExpr(t.Ctl)
	case gen.TCall:
		return fmt.Sprintf("stmt:call/%d-args", len(t.Args))
	case gen.TReturn:
		return "stmt:return"
	}
	return "stmt:?"
}

type fstep struct {
	idx  int
	vals map[string]sim.Val
}

func runTrace(oc *fw.Outcome, cc ccase) {
	r := rand.New(rand.NewSource(cc.Seed))
	for i := 0; i < cc.N; i++ {
		p := gen.TypedProgram(r, 5+r.Intn(26))
		ref := p.ReferencePre()
		if ref.OutOfRange {
			oc.Tag("generator:out-of-range-program")
			continue
		}
		names := tsim.PoolNames(p)
		mainSrc := render.Canonical(p.MainToks)
		subSrc, pos := render.RenderPos(p.SubToks, render.Plan{Mode: "canonical"})
		fw.JournalS(mainSrc + "\n" + subSrc)
		oc.Evals++
		var res *sim.Result
		pn, msg, st := fw.Guard(func() { res = sim.RunSub(mainSrc, subSrc, "RECV", names, sim.Request{}) })
		detail := func(extra map[string]any) map[string]any {
			d := map[string]any{"main": clip(mainSrc, 3000), "sub": clip(subSrc, 5000)}
			for k, v := range extra {
				d[k] = v
			}
			return d
		}
		if pn {
			oc.Tag("interpreter-panic (C08)")
			_ = msg
			_ = st
			continue
		}
		if res.InitErr != nil || res.ParseErr != nil {
			oc.Inconc = append(oc.Inconc, "typed program does not load: "+fmt.Sprint(res.InitErr, res.ParseErr)+"\n"+clip(subSrc, 600))
			continue
		}
		// token position -> pre-order index
		preOf := map[[2]int]int{}
		for k, ti := range p.PreTok {
			if ti < len(pos) {
				preOf[[2]int{pos[ti].Line, pos[ti].Col}] = k
			}
		}
		var seq []fstep
		for _, s := range res.Snaps {
			if s.File == "main.vcl" {
				continue
			}
			if k, ok := preOf[[2]int{s.Line, s.Pos}]; ok && !strings.HasSuffix(s.Kind, "DeclareStatement") {
				seq = append(seq, fstep{k, s.Vals})
			}
		}
		if i == 0 {
			oc.Sample = map[string]any{"sub": clip(subSrc, 1500), "statements_executed": len(ref.Pre), "logs": ref.Logs}
		}
		// coverage / non-triviality
		ops := map[string]bool{}
		branches := 0
		for _, ps := range ref.Pre {
			switch t := ps.Stmt.(type) {
			case gen.TSet:
				ops["set:"+t.Op+"/"+t.T.String()] = true
				exprOps(t.Val, ops)
			case gen.TIf:
				branches++
				exprOps(t.Cond, ops)
				for _, ei := range t.ElseIfs {
					exprOps(ei.Cond, ops)
				}
			case gen.TSwitch:
				branches++
				ops["switch"] = true
			}
		}
		for o := range ops {
			oc.Tag("op:" + o)
		}
		// compare the two sequences
		diverged := false
		n := len(seq)
		if len(ref.Pre) < n {
			n = len(ref.Pre)
		}
		culprit := func(k int) gen.TStmt {
			if k == 0 {
				return nil
			}
			return ref.Pre[k-1].Stmt
		}
		// root cause known by construction: the statement executed before the divergence evaluated a
		// regex whose (successful) match has length zero
		zeroLen := func(k int) bool {
			if k == 0 {
				return false
			}
			after := ref.ZeroLenMatch
			if k < len(ref.Pre) {
				after = ref.Pre[k].ZeroLen
			}
			return after > ref.Pre[k-1].ZeroLen
		}
		for k := 0; k < n && !diverged; k++ {
			if seq[k].idx != ref.Pre[k].Idx {
				c := culprit(k)
				key := "flow:start"
				if c != nil {
					key = strings.Replace(culpritKey(c), "stmt:", "flow:", 1)
				}
				if zeroLen(k) {
					key = "regex:zero-length-match/flow"
				}
				oc.Violate(key, fmt.Sprintf("control flow diverges after executed statement %d: the interpreter continues with statement #%d, the reference semantics with #%d", k, seq[k].idx, ref.Pre[k].Idx),
					detail(map[string]any{"executed_before": k, "falco_next_statement_token": p.PreTok[seq[k].idx], "reference_next_statement_token": p.PreTok[min(ref.Pre[k].Idx, len(p.PreTok)-1)]}))
				diverged = true
				break
			}
			for _, nm := range names {
				fv, rv := falcoCanon(seq[k].vals[nm]), refLookup(ref.Pre[k].Vals, nm)
				if fv != rv {
					c := culprit(k)
					key := "stmt:start"
					if c != nil {
						key = culpritKey(c)
					}
					victim := "local"
					switch {
					case strings.HasPrefix(nm, "req.http."):
						victim = "header"
					case strings.HasPrefix(nm, "re.group."):
						victim = "re.group"
					}
					if zeroLen(k) {
						key = "regex:zero-length-match"
					}
					oc.Violate(key+"->"+victim, fmt.Sprintf("after executed statement %d, %s reads %s in the interpreter but %s by the reference semantics", k, nm, fv, rv),
						detail(map[string]any{"executed_before": k, "statement_token": p.PreTok[ref.Pre[max(k-1, 0)].Idx], "variable": nm, "interpreter": fv, "reference": rv}))
					diverged = true
					break
				}
			}
		}
		if !diverged && len(seq) != len(ref.Pre) {
			c := culprit(n)
			key := "flow:start"
			if c != nil {
				key = strings.Replace(culpritKey(c), "stmt:", "flow:", 1)
			}
			if zeroLen(n) {
				key = "regex:zero-length-match/flow"
			}
			errs := ""
			if res.Err != nil {
				errs = clip(strings.SplitN(res.Err.Error(), "\n", 2)[0], 200)
				key += "/runtime-error"
			}
			oc.Violate(key, fmt.Sprintf("the interpreter executed %d statements, the reference semantics %d; interpreter error: %q", len(seq), len(ref.Pre), errs), detail(map[string]any{"executed_before": n}))
			diverged = true
		}
		if !diverged {
			if res.Err != nil {
				oc.Violate("runtime-error:"+culpritKey(ref.Pre[len(ref.Pre)-1].Stmt), "the interpreter reports a runtime error on an in-range program: "+clip(res.Err.Error(), 200), detail(nil))
				continue
			}
			if strings.Join(res.Logs, "\n") != strings.Join(ref.Logs, "\n") {
				for k := 0; k < len(res.Logs) || k < len(ref.Logs); k++ {
					a, b := "<none>", "<none>"
					if k < len(res.Logs) {
						a = res.Logs[k]
					}
					if k < len(ref.Logs) {
						b = ref.Logs[k]
					}
					if a != b {
						key := "log:value"
						if ref.ZeroLenMatch > 0 {
							key = "regex:zero-length-match/log" // evaluated inside a helper subroutine: only its log lines show it
						}
						oc.Violate(key, fmt.Sprintf("log line %d is %q in the interpreter but %q by the reference semantics", k, a, b), detail(nil))
						break
					}
				}
				continue
			}
			if res.State != ref.State && !(res.State == "NONE" && ref.State == "") {
				oc.Violate("return:state", fmt.Sprintf("returned state %q, reference %q", res.State, ref.State), detail(nil))
				continue
			}
		}
		if branches >= 1 && len(ops) >= 3 {
			oc.NonTrivialS(subSrc)
		}
	}
}

func run(c fw.Case) fw.Outcome {
	var oc fw.Outcome
	var cc ccase
	json.Unmarshal(c.Data, &cc)
	switch c.Kind {
	case "trace":
		runTrace(&oc, cc)
	case "dual":
		runDual(&oc, cc)
	case "acl":
		runACL(&oc, cc)
	case "notset":
		runNotSet(&oc)
	case "timecalc":
		runTimeCalc(&oc)
	}
	return oc
}
