// explore is a debugging aid of the C12 check (it is not part of the check):
//
//	explore              reads candidate statements from stdin (one per line, "\n" escapes) and lints each alone in
//	                     vcl_recv, vcl_deliver and a user subroutine called from vcl_recv (catalogue calibration)
//	explore FILE         lints every program of a repro file ("== name" starts a program, "-- file.vcl" a file of it)
package main

import (
	"bufio"
	"fmt"
	"os"
	"strings"

	"verif/harness/lintutil"
)

func lintFiles(files map[string]string) {
	mods := map[string]string{}
	for f, t := range files {
		if f != "main.vcl" {
			mods[strings.TrimSuffix(f, ".vcl")] = t
		}
	}
	r := lintutil.Lint(files["main.vcl"], &lintutil.MapResolver{Main: files["main.vcl"], Modules: mods, Budget: 100})
	if r.ParseErr != nil {
		fmt.Println("   PARSE ERROR", r.ParseErr)
	}
	if r.Fatal != "" {
		fmt.Println("   FATAL", r.Fatal)
	}
	for _, d := range r.Diags {
		fmt.Printf("   %s:%d:%d [%s] %s: %s\n", d.File, d.Line, d.Pos, d.Rule, d.Severity, strings.SplitN(d.Msg, "\n", 2)[0])
	}
	fmt.Printf("   (%d diagnostics)\n", len(r.Diags))
}

var ignoreLine = strings.NewReplacer()

func stripDirectives(t string) string {
	var out []string
	for _, l := range strings.Split(t, "\n") {
		if i := strings.Index(l, "falco-ignore"); i >= 0 {
			// drop the comment (a whole-line comment becomes an empty line so that line numbers stay)
			for _, m := range []string{"//", "#", "/*"} {
				if j := strings.Index(l, m+" falco-ignore"); j >= 0 {
					l = strings.TrimRight(l[:j], " ")
				}
			}
		}
		out = append(out, l)
	}
	return strings.Join(out, "\n")
}

func main() {
	if len(os.Args) > 1 {
		b, err := os.ReadFile(os.Args[1])
		if err != nil {
			panic(err)
		}
		var name, file string
		files := map[string]string{}
		flush := func() {
			if name == "" {
				return
			}
			fmt.Println("== " + name)
			plain := map[string]string{}
			for f, t := range files {
				plain[f] = stripDirectives(t)
			}
			fmt.Println("  D0 (directive comments removed, same line numbers):")
			lintFiles(plain)
			fmt.Println("  D1 (as written):")
			lintFiles(files)
		}
		for _, l := range strings.Split(string(b), "\n") {
			switch {
			case strings.HasPrefix(l, "== "):
				flush()
				name, files, file = l[3:], map[string]string{}, ""
			case strings.HasPrefix(l, "-- "):
				file = strings.TrimSpace(l[3:])
			case file != "":
				files[file] += l + "\n"
			}
		}
		flush()
		return
	}
	ctxs := []struct{ name, pre, post string }{
		{"recv", "sub vcl_recv {\n#FASTLY RECV\n", "\n}\n"},
		{"deliver", "sub vcl_deliver {\n#FASTLY DELIVER\n", "\n}\n"},
		{"user", "sub helper {\n", "\n}\nsub vcl_recv {\n#FASTLY RECV\ncall helper;\n}\n"},
	}
	sc := bufio.NewScanner(os.Stdin)
	for sc.Scan() {
		st := sc.Text()
		if strings.TrimSpace(st) == "" {
			continue
		}
		st = strings.ReplaceAll(st, "\\n", "\n")
		for _, c := range ctxs {
			src := c.pre + st + c.post
			r := lintutil.Lint(src, nil)
			fmt.Printf("%-8s %s\n", c.name, strings.ReplaceAll(st, "\n", "\\n"))
			if r.ParseErr != nil {
				fmt.Printf("      PARSE ERROR %v\n", r.ParseErr)
				continue
			}
			for _, d := range r.Diags {
				fmt.Printf("      %s\n", d.String())
			}
		}
	}
}
