package main

import (
	"bufio"
	"fmt"
	"os"
	"path/filepath"
	"strings"

	"verif/harness/lintutil"
)

// usage: explore            reads candidate statements from stdin (one per line, \n escapes) and lints each in three contexts
//        explore DIR        lints DIR/main.vcl with the other *.vcl files of DIR as modules
func main() {
	if len(os.Args) > 1 {
		dir := os.Args[1]
		mainb, err := os.ReadFile(filepath.Join(dir, "main.vcl"))
		if err != nil {
			panic(err)
		}
		mods := map[string]string{}
		fs, _ := filepath.Glob(filepath.Join(dir, "*.vcl"))
		for _, f := range fs {
			if filepath.Base(f) != "main.vcl" {
				b, _ := os.ReadFile(f)
				mods[strings.TrimSuffix(filepath.Base(f), ".vcl")] = string(b)
			}
		}
		r := lintutil.Lint(string(mainb), &lintutil.MapResolver{Main: string(mainb), Modules: mods, Budget: 100})
		if r.ParseErr != nil {
			fmt.Println("PARSE ERROR", r.ParseErr)
		}
		if r.Fatal != "" {
			fmt.Println("FATAL", r.Fatal)
		}
		for _, d := range r.Diags {
			fmt.Printf("%s:%d:%d [%s] %s: %s\n", d.File, d.Line, d.Pos, d.Rule, d.Severity, strings.SplitN(d.Msg, "\n", 2)[0])
		}
		fmt.Printf("(%d diagnostics)\n", len(r.Diags))
		return
	}
	ctxs := []struct{ name, pre, post string }{
		{"recv", "sub vcl_recv {\n#FASTLY RECV\n", "\n}\n"},
		{"deliver", "sub vcl_deliver {\n#FASTLY DELIVER\n", "\n}\n"},
		{"user", "sub helper {\n", "\n}\nsub vcl_recv {\n#FASTLY RECV\ncall helper;\n}\n"},
	}
	sc := bufio.NewScanner(os.Stdin)
	for sc.Scan() {
		st := sc.Text()
		if strings.TrimSpace(st) == "" {
			continue
		}
		st = strings.ReplaceAll(st, "\\n", "\n")
		for _, c := range ctxs {
			src := c.pre + st + c.post
			r := lintutil.Lint(src, nil)
			fmt.Printf("%-8s %s\n", c.name, strings.ReplaceAll(st, "\n", "\\n"))
			if r.ParseErr != nil {
				fmt.Printf("      PARSE ERROR %v\n", r.ParseErr)
				continue
			}
			for _, d := range r.Diags {
				fmt.Printf("      %s\n", d.String())
			}
		}
	}
}
