package main

import (
	"fmt"
	"math/rand"
	"os"
	"path/filepath"
	"regexp"
	"sort"
	"strings"

	"verif/harness/fw"
	"verif/harness/lintutil"
)

// ---- diagnostics in original coordinates ---------------------------------------------------------

type odiag struct {
	At   lineRef `json:"at"`
	Rule string  `json:"rule"`
	Sev  string  `json:"sev"`
	Msg  string  `json:"msg"`
}

var digits = regexp.MustCompile(`[0-9]+`)

func (d odiag) String() string {
	return fmt.Sprintf("%s:%d [%s] %s: %s", d.At.File, d.At.Line, d.Rule, d.Sev, d.Msg)
}

func maskMsg(s string) string {
	s = digits.ReplaceAllString(s, "N")
	if i := strings.IndexByte(s, '\n'); i >= 0 {
		s = s[:i]
	}
	return strings.TrimSpace(s)
}

// ---- placements ---------------------------------------------------------------------------------------

type edit struct {
	File  string
	Line  int    // original line the edit refers to
	Where string // before | after | append
	Lines []string
}

type coverEntry struct {
	Lines map[lineRef]bool
	Rules []string // nil = all rules
}

type placement struct {
	Form, Marker, RKind, Site, Layout string
	Edits                             []edit
	Covers                            []coverEntry
	Own                               map[lineRef]bool
	File                              string
	Anchor                            *block
	AP, AQ                            int
	CRLF                              bool
	// Observe: the documentation does not say whether this layout is covered; what falco does with the
	// covered statement is recorded as an observation tag, not as a violation (leaks and new diagnostics are
	// still violations)
	Observe string
	Desc    string
	// parts: the single directives a pair consists of
	parts []*placement
	pair  bool
	// variant rebuilds the same placement with another marker / without the rule list / in the plain layout
	variant func(marker string, bare, plain, compact bool) *placement
}

func (pl *placement) formName() string {
	if pl.Layout != "" {
		return pl.Form + "[" + pl.Layout + "]"
	}
	return pl.Form
}

// siteQualifier names the attachment site of the comment whose loss could explain the deviation:
// the comment that opens the coverage for an under-suppression, the comment that closes it for a
// leak (both for anything else). Ordinary statements and top-level declarations are not named.
func (pl *placement) siteQualifier(kind string) string {
	var out []string
	for _, site := range strings.Split(pl.Site, ",") {
		st, en, isRange := strings.Cut(site, "..")
		switch {
		case !isRange:
		case kind == "under":
			en = ""
		case kind == "leak":
			st = ""
		}
		q := ""
		if st != "" && st != "stmt" && st != "top" {
			q = st
		}
		if en != "" && en != "stmt" && en != "top" {
			q += ".." + en
		}
		if q != "" {
			out = append(out, q)
		}
	}
	return strings.Join(out, ",")
}

func comment(marker, keyword string, rules []string, sep string) string {
	body := keyword
	if len(rules) > 0 {
		body += " " + strings.Join(rules, sep)
	}
	switch marker {
	case "hash":
		return "# " + body
	case "slash":
		return "// " + body
	}
	return "/* " + body + " */"
}

var markers = []string{"slash", "hash", "block"}

func indentOf(s string) string {
	return s[:len(s)-len(strings.TrimLeft(s, " \t"))]
}

func startSite(p *node) string {
	switch {
	case p.Kind == "include":
		return "include"
	case p.Blk.Kind == "case":
		return "case"
	case p.Blk.Kind == "file":
		return "top"
	}
	return "stmt"
}

func endSite(q *node) string {
	b := q.Blk
	if q.Idx+1 < len(b.Stmts) {
		return startSite(b.Stmts[q.Idx+1])
	}
	switch b.Kind {
	case "case":
		return "case-end"
	case "file", "module":
		return "file-end"
	}
	return "block-end"
}

// ---- the world of one program -----------------------------------------------------------------------

type world struct {
	p     *program
	d0    []odiag
	oc    *fw.Outcome
	r     *rand.Rand
	cache map[string]*result
	reported map[string]bool
	// sampleDone: one written-out example per case
	sampleDone bool
}

type viol struct {
	Kind string // leak | under | new | parse-error | panic
	Rel  string
	D    odiag
}

type result struct {
	vs []viol
	d1 []odiag
}

func (w *world) lintTexts(texts map[string]string, orig map[string][]int) (ds []odiag, perr string, ok bool) {
	mods := map[string]string{}
	for f, t := range texts {
		if f != "main.vcl" {
			mods[strings.TrimSuffix(f, ".vcl")] = t
		}
	}
	var res *lintutil.Result
	w.oc.Evals++
	fw.JournalS(texts["main.vcl"])
	panicked, msg, st := fw.Guard(func() {
		res = lintutil.Lint(texts["main.vcl"], &lintutil.MapResolver{Main: texts["main.vcl"], Modules: mods, Budget: 1000})
	})
	if panicked {
		w.oc.Violate(fw.PanicKey(st), "the linter panicked on a program with ignore comments: "+msg+"\n"+fw.TrimStack(st), map[string]any{"files": texts})
		return nil, "", false
	}
	if res.ParseErr != nil {
		return nil, res.ParseErr.Error(), true
	}
	if res.Fatal != "" {
		return nil, "fatal: " + res.Fatal, true
	}
	for _, d := range res.Diags {
		line := d.Line
		if om, found := orig[d.File]; found {
			if line >= 1 && line < len(om) {
				line = om[line]
			} else {
				line = -1
			}
		}
		ds = append(ds, odiag{At: lineRef{d.File, line}, Rule: d.Rule, Sev: d.Severity, Msg: maskMsg(d.Msg)})
	}
	return ds, "", true
}

func (w *world) decorate(pl *placement) (map[string]string, map[string][]int) {
	texts := map[string]string{}
	orig := map[string][]int{}
	nl := "\n"
	if pl.CRLF {
		nl = "\r\n"
	}
	for _, f := range w.p.Order {
		lines := w.p.Files[f]
		var out []string
		om := []int{0}
		for L := 1; L <= len(lines); L++ {
			for _, e := range pl.Edits {
				if e.File == f && e.Line == L && e.Where == "before" {
					for _, x := range e.Lines {
						out = append(out, x)
						om = append(om, 0)
					}
				}
			}
			t := lines[L-1]
			for _, e := range pl.Edits {
				if e.File == f && e.Line == L && e.Where == "append" {
					t += e.Lines[0]
				}
			}
			out = append(out, t)
			om = append(om, L)
			for _, e := range pl.Edits {
				if e.File == f && e.Line == L && e.Where == "after" {
					for _, x := range e.Lines {
						out = append(out, x)
						om = append(om, 0)
					}
				}
			}
		}
		texts[f] = strings.Join(out, nl) + nl
		orig[f] = om
	}
	return texts, orig
}

func (pl *placement) covered(d odiag) (inS, suppressed bool) {
	for _, c := range pl.Covers {
		if !c.Lines[d.At] {
			continue
		}
		inS = true
		if c.Rules == nil {
			suppressed = true
			continue
		}
		for _, r := range c.Rules {
			if r == d.Rule && r != "" {
				suppressed = true
			}
		}
	}
	return
}

func (w *world) blockLast(b *block) int {
	last := 0
	for _, s := range b.Stmts {
		if s.Last > last {
			last = s.Last
		}
	}
	return last
}

func (w *world) relation(pl *placement, at lineRef) string {
	if at.File != pl.File {
		if pl.File == "main.vcl" {
			return "included-file"
		}
		return "including-file"
	}
	if pl.Own[at] {
		return "same-statement"
	}
	for _, c := range pl.Covers {
		if c.Lines[at] {
			return "nested-in-covered"
		}
	}
	b := pl.Anchor
	for i, s := range b.Stmts {
		if at.Line >= s.First && at.Line <= s.Last {
			switch {
			case i > pl.AQ && b.Kind == "file":
				return "next-subroutine"
			case i > pl.AQ:
				return "later-same-block"
			case i < pl.AP:
				return "earlier-same-block"
			}
			return "other"
		}
	}
	dirLine := b.Stmts[pl.AP].First
	t1, t2 := w.p.topOf[lineRef{pl.File, dirLine}], w.p.topOf[at]
	if t1 == t2 {
		if at.Line > w.blockLast(b) {
			return "enclosing-block-after"
		}
		return "other"
	}
	if at.Line > dirLine {
		return "next-subroutine"
	}
	return "other"
}

func msKey(d odiag) string {
	return fmt.Sprintf("%s\x00%d\x00%s\x00%s\x00%s", d.At.File, d.At.Line, d.Rule, d.Sev, d.Msg)
}

// check runs the decorated program and applies the conservation oracle.
func (w *world) check(pl *placement) []viol {
	return w.checkR(pl).vs
}

func (w *world) checkR(pl *placement) *result {
	if v, ok := w.cache[pl.Desc]; ok {
		return v
	}
	texts, orig := w.decorate(pl)
	d1, perr, ok := w.lintTexts(texts, orig)
	res := &result{d1: d1}
	w.cache[pl.Desc] = res
	if !ok {
		res.vs = []viol{{Kind: "panic", Rel: "-"}}
		return res
	}
	if perr != "" {
		res.vs = []viol{{Kind: "parse-error", Rel: "-", D: odiag{Msg: maskMsg(perr)}}}
		return res
	}
	var vs []viol
	have := map[string]int{}
	for _, d := range d1 {
		have[msKey(d)]++
	}
	nIn, nOut := 0, 0
	var supOK, presOK int64
	underInS := false
	for _, d := range w.d0 {
		inS, sup := pl.covered(d)
		if inS {
			nIn++
		} else {
			nOut++
		}
		k := msKey(d)
		switch {
		case sup && have[k] > 0:
			have[k]--
			vs = append(vs, viol{Kind: "under", Rel: w.relation(pl, d.At), D: d})
			underInS = true
		case sup:
			supOK++
		case have[k] > 0:
			have[k]--
			presOK++
		default:
			vs = append(vs, viol{Kind: "leak", Rel: w.relation(pl, d.At), D: d})
		}
	}
	for _, d := range d1 {
		k := msKey(d)
		if have[k] > 0 {
			have[k]--
			rel := "inserted-line"
			if d.At.Line > 0 {
				rel = w.relation(pl, d.At)
			}
			vs = append(vs, viol{Kind: "new", Rel: rel, D: d})
		}
	}
	w.oc.TagN("diags:suppressed-as-expected", supOK)
	w.oc.TagN("diags:preserved-as-expected", presOK)
	// evidence: form x marker x rule-list kind x relation matrix (moved out of the tag table by Finish)
	if pl.pair {
		w.oc.Tag("pair:" + pl.Form + "/" + pl.RKind)
		w.oc.Tag("pair-marker:" + pl.Marker)
	} else {
		if pl.Layout != "" {
			w.oc.Tag("layout:" + pl.formName() + "/" + pl.Marker)
		}
		w.oc.Tag("site:" + pl.Form + "/" + pl.Site)
		for _, d := range w.d0 {
			w.oc.Tag("m:" + pl.Form + "/" + pl.Marker + "/" + pl.RKind + "/" + w.relation(pl, d.At))
		}
	}
	_ = underInS
	if nIn > 0 && nOut > 0 {
		var sb strings.Builder
		for _, f := range w.p.Order {
			sb.WriteString(texts[f])
			sb.WriteByte(0)
		}
		w.oc.NonTrivialS(sb.String())
		if !w.sampleDone && len(vs) == 0 {
			w.sampleDone = true
			w.oc.Sample = map[string]any{"directive": pl.Desc, "files": texts, "plain_diagnostics": diagStrings(w.d0), "decorated_diagnostics_in_original_lines": diagStrings(d1)}
		}
	}
	res.vs = vs
	return res
}

func diagStrings(ds []odiag) []string {
	out := make([]string, len(ds))
	for i, d := range ds {
		out[i] = d.String()
	}
	sort.Strings(out)
	return out
}

func hasViol(vs []viol, v viol) bool {
	for _, x := range vs {
		if x.Kind == v.Kind && msKey(x.D) == msKey(v.D) {
			return true
		}
	}
	return false
}

func (w *world) isLate(d odiag) bool {
	for _, in := range w.p.Intended {
		if in.At == d.At && in.Rule == d.Rule && in.Late {
			return true
		}
	}
	return false
}

// run checks one placement and reports violations under localised keys: the marker field says
// "slash" and the rule field "all" whenever the same violation (kind, relation) is also observed
// with the plain `//` marker / without the rule list, so that a key names the feature that is
// needed to produce the violation.
func (w *world) run(pl *placement) {
	res := w.checkR(pl)
	vs := res.vs
	observedDiffers := false
	if pl.Observe != "" {
		defer func() {
			if observedDiffers {
				w.oc.Tag("obs:" + pl.Observe + ":does-not-cover(unlike-the-plain-layout)")
			} else {
				w.oc.Tag("obs:" + pl.Observe + ":covers-like-the-plain-layout")
			}
		}()
	}
	if len(vs) == 0 {
		return
	}
	for _, v := range vs {
		rel := v.Rel
		if v.Kind == "panic" {
			continue // already reported by lintTexts
		}
		if pl.pair && v.Kind == "under" && w.isLate(v.D) {
			w.oc.Tag("pairs:late-diagnostic-not-reached(reported-by-single-directives)")
			continue
		}
		// a pair: a deviation that one of its directives shows when it is placed alone is reported under
		// that single directive's key
		attributed := false
		for _, part := range pl.parts {
			for _, pv := range w.check(part) {
				if pv.Kind == v.Kind && msKey(pv.D) == msKey(v.D) {
					attributed = true
				}
			}
			if attributed {
				w.run(part)
				break
			}
		}
		if attributed {
			continue
		}
		form, marker, rk := pl.formName(), pl.Marker, pl.RKind
		if pl.variant != nil && v.Kind != "parse-error" {
			if pl.Layout != "" {
				if p2 := pl.variant(marker, false, true, false); p2 != nil && hasViol(w.check(p2), v) {
					form = pl.Form
				}
			}
			plain := form == pl.Form
			if marker != "slash" {
				if p2 := pl.variant("slash", false, plain, false); p2 != nil && hasViol(w.check(p2), v) {
					marker = "slash"
				}
			}
			if rk != "all" {
				if p2 := pl.variant(marker, true, plain, false); p2 != nil && hasViol(w.check(p2), v) {
					rk = "all"
				}
			}
			if rk == "spaced" {
				if p2 := pl.variant(marker, false, plain, true); p2 != nil && hasViol(w.check(p2), v) {
					rk = "two"
				}
			}
		}
		if pl.Observe != "" && form != pl.Form && v.Kind == "under" {
			// the documentation is silent on this layout and the plain layout does cover the diagnostic:
			// an observation, not a violation
			observedDiffers = true
			continue
		}
		// a diagnostic that is issued only when the subroutine has been linted completely (calibrated: a
		// directive on its statement never reaches it) is named in the key instead of the site
		if late := v.Kind == "under" && w.isLate(v.D) && marker == "slash"; late {
			rel += "[" + v.D.Rule + "]"
		} else if q := pl.siteQualifier(v.Kind); q != "" {
			rel += "@" + q
		}
		key := form + "/" + marker + "/" + rk + "/" + v.Kind + "/" + rel
		if w.reported[key] {
			continue
		}
		w.reported[key] = true
		texts, _ := w.decorate(pl)
		what := ""
		switch v.Kind {
		case "leak":
			what = "a diagnostic that the directive does not cover disappears: " + v.D.String()
		case "under":
			what = "a diagnostic that the directive covers is still reported: " + v.D.String()
		case "new":
			what = "a diagnostic appears that the plain program does not have: " + v.D.String()
		case "parse-error":
			what = "the program no longer parses after the comment was inserted: " + v.D.Msg
		}
		dumpViolation(key, what, pl, texts, w.d0, res.d1, vs)
		w.oc.Violate(key, what+"   ["+pl.Desc+"]", map[string]any{
			"directive": pl.Desc, "observed_with": map[string]string{"form": pl.formName(), "marker": pl.Marker, "rules": pl.RKind, "site": pl.Site},
			"files": texts, "plain_diagnostics_D0": diagStrings(w.d0), "decorated_diagnostics_D1_in_original_lines": diagStrings(res.d1),
			"all_deviations": violStrings(vs),
		})
	}
}

func violStrings(vs []viol) []string {
	var out []string
	for _, v := range vs {
		out = append(out, v.Kind+" "+v.Rel+" "+v.D.String())
	}
	return out
}

// ---- rule lists ---------------------------------------------------------------------------------------

var ruleKinds = []string{"all", "listed", "unlisted", "two", "unknown", "spaced"}

func (w *world) rulesIn(S map[lineRef]bool) (in, out []string) {
	si, so := map[string]bool{}, map[string]bool{}
	for _, d := range w.d0 {
		if d.Rule == "" {
			continue
		}
		if S[d.At] {
			si[d.Rule] = true
		} else {
			so[d.Rule] = true
		}
	}
	for r := range si {
		in = append(in, r)
	}
	for r := range so {
		if !si[r] {
			out = append(out, r)
		}
	}
	sort.Strings(in)
	sort.Strings(out)
	if len(out) == 0 {
		for _, r := range allRuleNames() {
			if !si[r] {
				out = append(out, r)
			}
		}
	}
	return
}

// pickRules returns the rule list of the given kind for a directive covering S.
func (w *world) pickRules(kind string, S map[lineRef]bool) (rules []string, sep string, ok bool) {
	in, out := w.rulesIn(S)
	sep = ","
	switch kind {
	case "all":
		return nil, sep, true
	case "listed":
		if len(in) == 0 {
			return nil, sep, false
		}
		return []string{in[w.r.Intn(len(in))]}, sep, true
	case "unlisted":
		if len(out) == 0 {
			return nil, sep, false
		}
		return []string{out[w.r.Intn(len(out))]}, sep, true
	case "unknown":
		return []string{"no-such/rule"}, sep, true
	case "two", "spaced":
		if len(in) == 0 {
			return nil, sep, false
		}
		a := in[w.r.Intn(len(in))]
		b := "no-such/rule"
		if len(out) > 0 {
			b = out[w.r.Intn(len(out))]
		}
		if len(in) > 1 && w.r.Intn(2) == 0 {
			for b = a; b == a; {
				b = in[w.r.Intn(len(in))]
			}
		}
		rules = []string{a, b}
		if w.r.Intn(2) == 0 {
			rules = []string{b, a}
		}
		if kind == "spaced" {
			sep = ", "
			if w.r.Intn(3) == 0 {
				sep = " ,  "
			}
		}
		return rules, sep, true
	}
	return nil, sep, false
}

// ---- single directives -----------------------------------------------------------------------------

type dirSpec struct {
	Form   string
	P, Q   *node
	Marker string
	Rules  []string
	RKind  string
	Sep    string
	Layout string
}

func (w *world) single(s dirSpec) *placement {
	p, q := s.P, s.Q
	if q == nil {
		q = p
	}
	pl := &placement{Form: s.Form, Marker: s.Marker, RKind: s.RKind, Layout: s.Layout, File: p.File, Anchor: p.Blk, AP: p.Idx, AQ: q.Idx,
		Own: map[lineRef]bool{}, CRLF: s.Layout == "crlf"}
	S := map[lineRef]bool{}
	for i := p.Idx; i <= q.Idx; i++ {
		st := p.Blk.Stmts[i]
		cover(st, S)
		pl.Own[lineRef{st.File, st.First}] = true
	}
	var rules []string
	if s.Rules != nil {
		rules = append([]string{}, s.Rules...)
	}
	pl.Covers = []coverEntry{{Lines: S, Rules: rules}}
	ind := indentOf(w.p.Files[p.File][p.First-1])
	if s.Layout == "tab" {
		ind = "\t\t"
	}
	switch s.Form {
	case "next-line":
		pl.Site = startSite(p)
		c := ind + comment(s.Marker, "falco-ignore-next-line", s.Rules, s.Sep)
		lines := []string{c}
		switch s.Layout {
		case "blank":
			// the comment is still a leading comment "before the statement": an expectation (it was an
			// observation until a seeded change showed that nothing judged it)
			lines = []string{c, ""}
		case "first-of-several":
			// docs/linter.md: "you can put leading/trailing comments for each statements": a directive that is
			// followed by further leading comments is still a leading comment of the statement (expectation, not observation)
			lines = []string{c, ind + "# a remark about the statement", ind + "// and another one"}
		case "last-of-several":
			lines = []string{ind + "# a remark about the statement", ind + "// You can disable specific rules only", c}
		}
		pl.Edits = []edit{{File: p.File, Line: p.First, Where: "before", Lines: lines}}
	case "trailing":
		pl.Site = startSite(p)
		gap := " "
		switch s.Layout {
		case "tab":
			gap = "\t"
		case "nospace":
			gap = ""
		}
		pl.Edits = []edit{{File: p.File, Line: p.First, Where: "append", Lines: []string{gap + comment(s.Marker, "falco-ignore", s.Rules, s.Sep)}}}
	case "range":
		pl.Site = startSite(p) + ".." + endSite(q)
		st := []string{ind + comment(s.Marker, "falco-ignore-start", s.Rules, s.Sep)}
		en := []string{ind + comment(s.Marker, "falco-ignore-end", nil, "")}
		if s.Layout == "blank" {
			st = append(st, "")
			en = append([]string{""}, en...)
		}
		pl.Edits = []edit{{File: p.File, Line: p.First, Where: "before", Lines: st}, {File: q.File, Line: q.Last, Where: "after", Lines: en}}
	}
	if s.Layout == "tab" {
		// a tab also between the directive keyword and its rule list
		for ei := range pl.Edits {
			for li, l := range pl.Edits[ei].Lines {
				for _, kw := range []string{"falco-ignore-next-line ", "falco-ignore-start ", "falco-ignore-end ", "falco-ignore "} {
					if i := strings.Index(l, kw); i >= 0 && !strings.HasPrefix(l[i+len(kw):], "*/") {
						l = l[:i+len(kw)-1] + "\t" + l[i+len(kw):]
						break
					}
				}
				pl.Edits[ei].Lines[li] = l
			}
		}
	}
	pl.Desc = fmt.Sprintf("%s marker=%s rules=%s(%s) layout=%q at %s:%d..%d `%s`", s.Form, s.Marker, s.RKind, strings.Join(s.Rules, s.Sep), s.Layout, p.File, p.First, q.Last, p.Text)
	pl.variant = func(marker string, bare, plain, compact bool) *placement {
		s2 := s
		s2.Marker = marker
		if bare {
			s2.Rules, s2.RKind = nil, "all"
		}
		if plain {
			s2.Layout = ""
		}
		if compact {
			s2.Sep, s2.RKind = ",", "two"
		}
		return w.single(s2)
	}
	return pl
}

func (w *world) sOf(p, q *node) map[lineRef]bool {
	S := map[lineRef]bool{}
	for i := p.Idx; i <= q.Idx; i++ {
		cover(p.Blk.Stmts[i], S)
	}
	return S
}

func (w *world) hasDiag(S map[lineRef]bool) bool {
	for _, d := range w.d0 {
		if S[d.At] {
			return true
		}
	}
	return false
}

// singles enumerates every statement position x every form; markers and rule-list kinds are
// enumerated completely (full) or rotated/sampled (nKinds extra rule-list kinds per position and form).
func (w *world) singles(full bool, nKinds int) {
	rot := 0
	for _, p := range w.p.Nodes {
		type fq struct {
			form string
			q    *node
		}
		var forms []fq
		forms = append(forms, fq{"next-line", nil})
		if p.Kind == "simple" || p.Kind == "include" {
			forms = append(forms, fq{"trailing", nil})
		}
		b := p.Blk
		forms = append(forms, fq{"range", p})
		if p.Idx+1 < len(b.Stmts) {
			if full {
				for i := p.Idx + 1; i < len(b.Stmts); i++ {
					forms = append(forms, fq{"range", b.Stmts[i]})
				}
			} else {
				forms = append(forms, fq{"range", b.Stmts[p.Idx+1+w.r.Intn(len(b.Stmts)-p.Idx-1)]})
			}
		}
		for _, f := range forms {
			q := f.q
			if q == nil {
				q = p
			}
			S := w.sOf(p, q)
			try := func(kind, marker string) {
				rules, sep, ok := w.pickRules(kind, S)
				if !ok {
					return
				}
				w.run(w.single(dirSpec{Form: f.form, P: p, Q: f.q, Marker: marker, Rules: rules, RKind: kind, Sep: sep}))
			}
			if full {
				for _, m := range markers {
					for _, k := range ruleKinds {
						try(k, m)
					}
				}
				continue
			}
			try("all", markers[rot%3])
			rot++
			if !w.hasDiag(S) {
				// nothing to suppress: one more run with a rule list checks that nothing else changes
				if w.r.Intn(3) == 0 {
					try([]string{"unlisted", "unknown"}[w.r.Intn(2)], markers[w.r.Intn(3)])
				}
				continue
			}
			perm := w.r.Perm(len(ruleKinds) - 1)
			for i := 0; i < nKinds && i < len(perm); i++ {
				try(ruleKinds[1+perm[i]], markers[w.r.Intn(3)])
			}
		}
	}
}

// ---- layouts ------------------------------------------------------------------------------------------

var layoutsOf = map[string][]string{
	"next-line": {"crlf", "blank", "tab", "first-of-several", "last-of-several"},
	"trailing":  {"crlf", "tab", "nospace"},
	"range":     {"crlf", "blank", "tab"},
}

// plainPositions are the statements whose directive comments attach to ordinary statements of a
// subroutine body or an if branch (pairs and layouts are placed only there, so that their keys
// isolate what the pair / the layout adds).
func (w *world) plainPositions(needNext bool) []*node {
	var out []*node
	for _, p := range w.p.Nodes {
		if startSite(p) != "stmt" {
			continue
		}
		if needNext && endSite(p) != "stmt" {
			continue
		}
		out = append(out, p)
	}
	return out
}

func (w *world) layouts(full bool, per int) {
	pos := w.plainPositions(false)
	var withDiag []*node
	for _, p := range pos {
		if w.hasDiag(w.sOf(p, p)) {
			withDiag = append(withDiag, p)
		}
	}
	if len(withDiag) == 0 {
		return
	}
	for _, form := range []string{"next-line", "trailing", "range"} {
		for _, lay := range layoutsOf[form] {
			var cands []*node
			for _, p := range withDiag {
				if form == "trailing" && p.Kind != "simple" {
					continue
				}
				if form == "range" && endSite(p) != "stmt" {
					continue
				}
				cands = append(cands, p)
			}
			if len(cands) == 0 {
				continue
			}
			n := per
			if full {
				n = len(cands)
			}
			for i := 0; i < n; i++ {
				p := cands[i%len(cands)]
				if !full {
					p = cands[w.r.Intn(len(cands))]
				}
				kinds := []string{"all", "listed", "two"}
				ms := markers
				if !full {
					kinds = []string{kinds[w.r.Intn(3)]}
					ms = []string{markers[w.r.Intn(3)]}
				}
				for _, k := range kinds {
					for _, m := range ms {
						var q *node
						if form == "range" {
							q = p
						}
						rules, sep, ok := w.pickRules(k, w.sOf(p, p))
						if !ok {
							continue
						}
						w.run(w.single(dirSpec{Form: form, P: p, Q: q, Marker: m, Rules: rules, RKind: k, Sep: sep, Layout: lay}))
					}
				}
			}
		}
	}
}

// ---- pairs ---------------------------------------------------------------------------------------------

// combine merges single placements into one placement (edits are applied in order).
func (w *world) combine(form string, parts ...*placement) *placement {
	pl := &placement{Form: form, Marker: parts[0].Marker, File: parts[0].File, Anchor: parts[0].Anchor, AP: parts[0].AP, AQ: parts[0].AQ, Own: map[lineRef]bool{}}
	var rk, sites, descs []string
	for _, x := range parts {
		pl.Edits = append(pl.Edits, x.Edits...)
		pl.Covers = append(pl.Covers, x.Covers...)
		for k := range x.Own {
			pl.Own[k] = true
		}
		rk = append(rk, x.RKind)
		sites = append(sites, x.Site)
		descs = append(descs, x.Desc)
		if x.Anchor == pl.Anchor && x.AQ > pl.AQ {
			pl.AQ = x.AQ
		}
	}
	pl.parts, pl.pair = parts, true
	pl.RKind = strings.Join(rk, "+")
	pl.Site = strings.Join(sites, ",")
	pl.Desc = form + " { " + strings.Join(descs, " | ") + " }"
	return pl
}

func subtree(n *node) []*node {
	var out []*node
	for _, a := range n.Arms {
		for _, c := range a.Body.Stmts {
			out = append(out, c)
			out = append(out, subtree(c)...)
		}
	}
	return out
}

func (w *world) spec(form string, p, q *node, marker, kind string) (dirSpec, bool) {
	if q == nil {
		q = p
	}
	rules, sep, ok := w.pickRules(kind, w.sOf(p, q))
	s := dirSpec{Form: form, P: p, Marker: marker, Rules: rules, RKind: kind, Sep: sep}
	if form == "range" {
		s.Q = q
	}
	return s, ok
}

func (w *world) pairs(full bool, per int) {
	kindsPairs := [][2]string{{"all", "all"}, {"all", "listed"}, {"listed", "all"}, {"listed", "listed"}}
	// nested pairs also with the inner directive naming the SAME rule as the outer one ("same"); "listed"
	// then means a different rule
	nestedKinds := append([][2]string{{"listed", "same"}}, kindsPairs...)
	// inner returns the inner directive's spec for the kind pair
	innerSpec := func(form string, c *node, kind string, outerRules []string) (dirSpec, bool) {
		s, ok := w.spec(form, c, nil, "slash", kind)
		if kind != "listed" && kind != "same" || len(outerRules) != 1 {
			return s, ok && kind != "same"
		}
		in, _ := w.rulesIn(w.sOf(c, c))
		var cands []string
		for _, r := range in {
			if (r == outerRules[0]) == (kind == "same") {
				cands = append(cands, r)
			}
		}
		if len(cands) == 0 {
			return s, false
		}
		s.Rules, s.RKind, s.Sep = []string{cands[w.r.Intn(len(cands))]}, kind, ","
		return s, true
	}
	pick := func(n int) []int {
		if full || n <= per {
			out := make([]int, n)
			for i := range out {
				out[i] = i
			}
			return out
		}
		return w.r.Perm(n)[:per]
	}
	pairVariant := func(mk func(marker string) *placement) func(string, bool, bool, bool) *placement {
		return func(marker string, bare, plain, compact bool) *placement {
			if bare || compact {
				return nil
			}
			return mk(marker)
		}
	}
	emit := func(mk func(marker string) *placement) {
		ms := []string{markers[w.r.Intn(3)]}
		if full {
			ms = markers
		}
		for _, m := range ms {
			pl := mk(m)
			if pl == nil {
				continue
			}
			pl.variant = pairVariant(mk)
			w.run(pl)
		}
	}

	// (a) a directive inside a block that an outer directive already covers
	var compounds []*node
	for _, p := range w.plainPositions(true) {
		if p.Kind == "if" && w.hasDiag(w.sOf(p, p)) {
			compounds = append(compounds, p)
		}
	}
	for _, ci := range pick(len(compounds)) {
		outer := compounds[ci]
		var inner []*node
		for _, c := range subtree(outer) {
			if startSite(c) == "stmt" && endSite(c) == "stmt" {
				inner = append(inner, c)
			}
		}
		if len(inner) == 0 {
			continue
		}
		multiFile := false
		for l := range w.sOf(outer, outer) {
			if l.File != outer.File {
				multiFile = true
			}
		}
		if multiFile {
			continue // what a directive does to an included module is checked by the single directives
		}
		reps := 1
		if full {
			reps = 3
		}
		for _, of := range []string{"next-line", "range"} {
			for _, inf := range []string{"next-line", "trailing", "range"} {
				cs := []*node{inner[w.r.Intn(len(inner))]}
				if full {
					cs = inner
				}
				for _, c := range cs {
					if inf == "trailing" && c.Kind != "simple" {
						continue
					}
					if of == "range" && inf == "range" && multiFile {
						continue // the flat range semantics below are computed on one file
					}
					kps := [][2]string{nestedKinds[w.r.Intn(len(nestedKinds))]}
					if full {
						kps = nestedKinds
					}
					for _, kp := range kps {
						for rep := 0; rep < reps; rep++ {
							so, ok1 := w.spec(of, outer, nil, "slash", kp[0])
							si, ok2 := innerSpec(inf, c, kp[1], so.Rules)
							if !ok1 || !ok2 {
								continue
							}
							emit(func(marker string) *placement {
								so.Marker, si.Marker = marker, marker
								pl := w.combine(of+">"+inf, w.single(so), w.single(si))
								if of == "range" && inf == "range" {
									// docs/linter.md: ranges do not nest - a falco-ignore-end without rule names re-enables all
									// rules, so the outer range ends at the inner end comment
									lines := map[lineRef]bool{}
									for l := range pl.Covers[0].Lines {
										if l.File == c.File && l.Line <= c.Last {
											lines[l] = true
										}
									}
									pl.Covers[0] = coverEntry{Lines: lines, Rules: pl.Covers[0].Rules}
									// inside the inner range both rule sets are ignored
									if pl.Covers[0].Rules != nil && pl.Covers[1].Rules != nil {
										pl.Covers[1] = coverEntry{Lines: pl.Covers[1].Lines, Rules: append(append([]string{}, pl.Covers[0].Rules...), pl.Covers[1].Rules...)}
									}
								}
								return pl
							})
						}
					}
				}
			}
		}
	}

	// (b) two ranges in sequence in the same block; (e) a range whose end names rules
	pos := w.plainPositions(true)
	for _, pi := range pick(len(pos)) {
		p := pos[pi]
		b := p.Blk
		// need p .. q1 < p2 .. q2 with q2 not last in the block
		if p.Idx+2 >= len(b.Stmts) {
			continue
		}
		p2 := b.Stmts[p.Idx+1]
		if startSite(p2) != "stmt" || endSite(p2) != "stmt" {
			continue
		}
		kp := kindsPairs[w.r.Intn(len(kindsPairs))]
		s1, ok1 := w.spec("range", p, p, "slash", kp[0])
		s2, ok2 := w.spec("range", p2, p2, "slash", kp[1])
		if ok1 && ok2 {
			emit(func(marker string) *placement {
				s1.Marker, s2.Marker = marker, marker
				return w.combine("range;range", w.single(s1), w.single(s2))
			})
		}
		// range-end-rules: start A,B before p / end A,B after p: covers p for A and B
		in, out := w.rulesIn(w.sOf(p, p2))
		if len(in) > 0 {
			a := in[w.r.Intn(len(in))]
			bb := "no-such/rule"
			if len(out) > 0 {
				bb = out[w.r.Intn(len(out))]
			}
			if len(in) > 1 {
				for bb = a; bb == a; {
					bb = in[w.r.Intn(len(in))]
				}
			}
			emit(func(marker string) *placement {
				if marker == "block" {
					return nil
				}
				x := w.single(dirSpec{Form: "range", P: p, Q: p, Marker: marker, Rules: []string{a, bb}, RKind: "two", Sep: ", "})
				x.pair = true
				x.Edits[1].Lines = []string{indentOf(x.Edits[0].Lines[0]) + comment(marker, "falco-ignore-end", []string{a, bb}, ", ")}
				x.Form = "range-end-same-rules"
				x.Desc = "range-end-same-rules: " + x.Desc
				return x
			})
			// start A,B before p / end A after p / bare end after p2: p is covered for A and B, p2 for B only
			emit(func(marker string) *placement {
				if marker == "block" {
					return nil
				}
				x := w.single(dirSpec{Form: "range", P: p, Q: p, Marker: marker, Rules: []string{a, bb}, RKind: "two", Sep: ", "})
				x.pair = true
				ind := indentOf(x.Edits[0].Lines[0])
				x.Edits[1].Lines = []string{ind + comment(marker, "falco-ignore-end", []string{a}, ", ")}
				x.Edits = append(x.Edits, edit{File: p2.File, Line: p2.Last, Where: "after", Lines: []string{ind + comment(marker, "falco-ignore-end", nil, "")}})
				S2 := w.sOf(p2, p2)
				x.Covers = append(x.Covers, coverEntry{Lines: S2, Rules: []string{bb}})
				x.Own[lineRef{p2.File, p2.First}] = true
				x.AQ = p2.Idx
				x.Form = "range-end-subset-rules"
				x.Desc = "range-end-subset-rules(second statement stays covered for " + bb + " until the bare end): " + x.Desc
				return x
			})
		}
	}

	// (c) stacked next-line directives, (d) next-line before a statement with its own trailing ignore
	var simple []*node
	for _, p := range w.plainPositions(false) {
		if w.hasDiag(w.sOf(p, p)) {
			simple = append(simple, p)
		}
	}
	for _, pi := range pick(len(simple)) {
		p := simple[pi]
		multi := false
		for l := range w.sOf(p, p) {
			if l.File != p.File {
				multi = true
			}
		}
		if multi {
			continue // included modules are the single directives' business
		}
		kps := [][2]string{kindsPairs[1+w.r.Intn(3)]}
		if full {
			kps = kindsPairs
		}
		for _, kp := range kps {
			s1, ok1 := w.spec("next-line", p, nil, "slash", kp[0])
			s2, ok2 := w.spec("next-line", p, nil, "slash", kp[1])
			if ok1 && ok2 {
				emit(func(marker string) *placement {
					s1.Marker, s2.Marker = marker, marker
					return w.combine("next-line+next-line", w.single(s1), w.single(s2))
				})
			}
			if p.Kind == "simple" {
				s3, ok3 := w.spec("trailing", p, nil, "slash", kp[1])
				if ok1 && ok3 {
					emit(func(marker string) *placement {
						s1.Marker, s3.Marker = marker, marker
						return w.combine("next-line+trailing", w.single(s1), w.single(s3))
					})
				}
			}
		}
	}
}

// dumpViolation writes every reported violation to $C12_DUMP/<key>.txt (debugging aid).
func dumpViolation(key, what string, pl *placement, texts map[string]string, d0, d1 []odiag, vs []viol) {
	dir := os.Getenv("C12_DUMP")
	if dir == "" {
		return
	}
	name := strings.NewReplacer("/", "_", ">", "-in-", ";", "-then-", "*", "x", " ", "").Replace(key)
	f, err := os.OpenFile(filepath.Join(dir, name+".txt"), os.O_CREATE|os.O_EXCL|os.O_WRONLY, 0o644)
	if err != nil {
		return
	}
	defer f.Close()
	fmt.Fprintf(f, "KEY %s\n%s\n%s\n", key, what, pl.Desc)
	var fs []string
	for k := range texts {
		fs = append(fs, k)
	}
	sort.Strings(fs)
	for _, k := range fs {
		fmt.Fprintf(f, "---- %s\n", k)
		for i, l := range strings.Split(texts[k], "\n") {
			fmt.Fprintf(f, "%3d %s\n", i+1, l)
		}
	}
	fmt.Fprintf(f, "---- D0 (plain, original lines)\n%s\n---- D1 (decorated, mapped to original lines)\n%s\n---- deviations\n%s\n",
		strings.Join(diagStrings(d0), "\n"), strings.Join(diagStrings(d1), "\n"), strings.Join(violStrings(vs), "\n"))
}
