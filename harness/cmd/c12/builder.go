package main

import (
	"fmt"
	"math/rand"
	"strings"
)

// ---- catalogue ----------------------------------------------------------------------------------
//
// Every entry was established by linting the statement alone (see the "catalogue" case kind, which
// repeats that calibration in every run): it produces exactly the listed diagnostics, all located
// on its own line. Rule "" is a diagnostic without a rule name (it cannot be named in a rule list).

type catEntry struct {
	ID    string   `json:"id"`
	Text  string   `json:"text"`  // statement text; %v = a fresh variable name; for IfHead: the condition
	Rules []string `json:"rules"` // rule names of the diagnostics this line produces
	Sevs  []string `json:"sevs"`
	Ctx   string   `json:"ctx"` // any | recv (vcl_recv and subroutines called from it) | deliver | fastly (vcl_recv, vcl_deliver)
	// Late: the diagnostic is located on this line but is issued when the enclosing subroutine has
	// been linted completely (observed: a directive on the statement itself does not reach it)
	Late   bool `json:"late,omitempty"`
	IfHead bool `json:"if_head,omitempty"`
}

var catalogue = []*catEntry{
	{ID: "S01", Text: `set req.http.A = std.itoa(1, 2, 3);`, Rules: []string{"function/arguments"}, Sevs: []string{"Error"}, Ctx: "any"},
	{ID: "S02", Text: `set req.http.A = std.itoa(req.http.B);`, Rules: []string{"function/argument-type"}, Sevs: []string{"Error"}, Ctx: "any"},
	{ID: "S03", Text: `synthetic "x";`, Rules: []string{"synthetic-statement/scope"}, Sevs: []string{"Error"}, Ctx: "any"},
	{ID: "S04", Text: `synthetic.base64 "eA==";`, Rules: []string{"synthetic-base64-statement/scope"}, Sevs: []string{"Error"}, Ctx: "any"},
	{ID: "S05", Text: `set req.http.A = re.group.1;`, Rules: []string{"deprecated"}, Sevs: []string{"Warning"}, Ctx: "any"},
	{ID: "S06", Text: `declare local var.%v STRING;`, Rules: []string{"unused/variable"}, Sevs: []string{"Warning"}, Ctx: "any", Late: true},
	{ID: "S07", Text: `call nosuchsub;`, Rules: []string{"call-statement/subroutine-notfound"}, Sevs: []string{"Error"}, Ctx: "any"},
	{ID: "S08", Text: `set req.http.A = 1;`, Rules: []string{"operator/assignment"}, Sevs: []string{"Error"}, Ctx: "any"},
	{ID: "S09", Text: `add req.url = "x";`, Rules: []string{"add-statement/syntax"}, Sevs: []string{"Error"}, Ctx: "any"},
	{ID: "S10", Text: `set req.http.A = "a" + 1;`, Rules: []string{"operator/conditional"}, Sevs: []string{"Error"}, Ctx: "any"},
	{ID: "S11", Text: `error 1000;`, Rules: []string{"error-statement/code"}, Sevs: []string{"Info"}, Ctx: "recv"},
	{ID: "S12", Text: `return;`, Rules: []string{"disallow-empty-return"}, Sevs: []string{"Error"}, Ctx: "fastly"},
	{ID: "S13", Text: `std.collect(1);`, Rules: []string{"function/argument-type"}, Sevs: []string{"Error"}, Ctx: "any"},
	{ID: "S14", Text: `set resp.http.Vary = "X";`, Rules: []string{"set-statement/overwrite-vary"}, Sevs: []string{"Warning"}, Ctx: "deliver"},
	{ID: "S15", Text: `set req.http.Fastly-FF = "x";`, Rules: []string{""}, Sevs: []string{"Error"}, Ctx: "any"},
	{ID: "S16", Text: `log 1;`, Rules: []string{""}, Sevs: []string{"Error"}, Ctx: "any"},
	// two diagnostics of different rules on the same line: a rule list can split them
	{ID: "T01", Text: `set req.http.A = std.itoa(req.http.B) + std.itoa(0, 1, 2);`, Rules: []string{"function/argument-type", "function/arguments"}, Sevs: []string{"Error", "Error"}, Ctx: "any"},
	{ID: "T02", Text: `set req.http.A = some.undefined.variable;`, Rules: []string{"", "operator/assignment"}, Sevs: []string{"Error", "Error"}, Ctx: "any"},
	{ID: "T03", Text: `declare local %v STRING;`, Rules: []string{"declare-statement/syntax", "declare-statement/duplicated"}, Sevs: []string{"Error", "Error"}, Ctx: "any"},
	{ID: "T04", Text: `set req.http.A = now + 5;`, Rules: []string{"", "operator/conditional"}, Sevs: []string{"Info", "Error"}, Ctx: "any"},
	{ID: "T05", Text: `error 1000;`, Rules: []string{"error-statement/scope", "error-statement/code"}, Sevs: []string{"Error", "Info"}, Ctx: "deliver"},
	// conditions of if / else if headers
	{ID: "H01", Text: `"lit"`, Rules: []string{"condition/literal"}, Sevs: []string{"Error"}, Ctx: "any", IfHead: true},
	{ID: "H02", Text: `req.http.A == 1`, Rules: []string{"operator/conditional"}, Sevs: []string{"Error"}, Ctx: "any", IfHead: true},
	{ID: "H03", Text: `1`, Rules: []string{"condition/literal", ""}, Sevs: []string{"Error", "Error"}, Ctx: "any", IfHead: true},
}

// the unused table declared at top level of some programs
var rawTableRule = "unused/declaration"

var cleanStmts = []string{
	`set req.http.K = "v";`, `unset req.http.Cookie;`, `log "x";`, `set req.http.Q = req.url;`, `esi;`, `set req.http.Host = "example.com";`,
}
var cleanConds = []string{`req.http.C`, `req.http.C == "x"`, `!req.http.D`, `req.url == "/"`}

func catByID(id string) *catEntry {
	for _, e := range catalogue {
		if e.ID == id {
			return e
		}
	}
	panic("no catalogue entry " + id)
}

func ctxAllows(entryCtx, ctx string) bool {
	switch entryCtx {
	case "any":
		return true
	case "recv":
		return ctx == "recv" || ctx == "user"
	case "deliver":
		return ctx == "deliver"
	case "fastly":
		return ctx == "recv" || ctx == "deliver"
	}
	return false
}

func allRuleNames() []string {
	seen := map[string]bool{}
	var out []string
	for _, e := range catalogue {
		for _, r := range e.Rules {
			if r != "" && !seen[r] {
				seen[r] = true
				out = append(out, r)
			}
		}
	}
	return append(out, rawTableRule)
}

// ---- program model -----------------------------------------------------------------------------

type lineRef struct {
	File string
	Line int
}

type node struct {
	Kind  string // simple | if | switch | include | sub | raw
	Text  string // first line (without indentation)
	Extra []string
	Ent   *catEntry
	Rules []string // rules of the diagnostics intended on the first line (Ent's, or a raw declaration's)
	Arms  []*arm
	Mod   *module

	File        string
	First, Last int
	Blk         *block
	Idx         int
	Depth       int
	Seq         int // index in program.Nodes
}

type arm struct {
	Sep     string
	Ent     *catEntry
	Body    *block
	Tail    string
	SepLine int
}

type block struct {
	Kind  string // file | sub | if | case | module
	Stmts []*node
	Owner *node
	File  string
	Depth int
	Ctx   string
}

type module struct {
	Name     string
	Top      *block
	rendered bool
}

type intended struct {
	At   lineRef
	Rule string
	Late bool
}

type program struct {
	Files    map[string][]string
	Order    []string // file names, main first
	Main     *block
	Nodes    []*node
	Intended []intended
	// topOf maps every line of a file to the top-level declaration (node of the file-level block) owning it
	topOf map[lineRef]*node
}

func (p *program) emit(file string, indent int, text string) int {
	if _, ok := p.Files[file]; !ok {
		p.Order = append(p.Order, file)
	}
	p.Files[file] = append(p.Files[file], strings.Repeat("  ", indent)+text)
	return len(p.Files[file])
}

func (p *program) intend(file string, line int, rules []string, late bool) {
	for _, r := range rules {
		p.Intended = append(p.Intended, intended{At: lineRef{file, line}, Rule: r, Late: late})
	}
}

func (p *program) renderBlock(b *block, file string, indent int, owner *node) {
	b.File, b.Owner = file, owner
	for i, s := range b.Stmts {
		s.Blk, s.Idx, s.Depth = b, i, b.Depth
		p.renderNode(s, file, indent)
	}
}

func (p *program) renderNode(s *node, file string, indent int) {
	s.File = file
	s.Seq = len(p.Nodes)
	p.Nodes = append(p.Nodes, s)
	s.First = p.emit(file, indent, s.Text)
	if s.Ent != nil {
		s.Rules = s.Ent.Rules
		p.intend(file, s.First, s.Ent.Rules, s.Ent.Late)
	} else if len(s.Rules) > 0 {
		p.intend(file, s.First, s.Rules, false)
	}
	for _, x := range s.Extra {
		p.emit(file, 0, x)
	}
	switch s.Kind {
	case "include":
		if !s.Mod.rendered {
			s.Mod.rendered = true
			p.renderBlock(s.Mod.Top, s.Mod.Name+".vcl", 0, s)
		}
	case "if", "sub":
		for i, a := range s.Arms {
			if i > 0 {
				a.SepLine = p.emit(file, indent, a.Sep)
				if a.Ent != nil {
					p.intend(file, a.SepLine, a.Ent.Rules, false)
				}
			}
			p.renderBlock(a.Body, file, indent+1, s)
		}
		p.emit(file, indent, "}")
	case "switch":
		for _, a := range s.Arms {
			a.SepLine = p.emit(file, indent, a.Sep)
			p.renderBlock(a.Body, file, indent+1, s)
			p.emit(file, indent+1, a.Tail)
		}
		p.emit(file, indent, "}")
	}
	s.Last = len(p.Files[file])
}

func render(main *block) *program {
	p := &program{Files: map[string][]string{}, Main: main, topOf: map[lineRef]*node{}}
	p.renderBlock(main, "main.vcl", 0, nil)
	for _, n := range p.Nodes {
		if n.Blk.Kind == "file" {
			for l := n.First; l <= n.Last; l++ {
				p.topOf[lineRef{n.File, l}] = n
			}
		}
	}
	return p
}

func (p *program) text(file string) string {
	return strings.Join(p.Files[file], "\n") + "\n"
}

// cover returns the lines a directive on statement s covers: its whole extent including nested
// blocks, and - an include being replaced by the module's statements - the included module.
func cover(s *node, into map[lineRef]bool) {
	for l := s.First; l <= s.Last; l++ {
		into[lineRef{s.File, l}] = true
	}
	var walk func(n *node)
	walk = func(n *node) {
		if n.Kind == "include" {
			for _, m := range n.Mod.Top.Stmts {
				for l := m.First; l <= m.Last; l++ {
					into[lineRef{m.File, l}] = true
				}
				walk(m)
			}
		}
		for _, a := range n.Arms {
			for _, c := range a.Body.Stmts {
				walk(c)
			}
		}
	}
	walk(s)
}

// ---- random programs ---------------------------------------------------------------------------

type pgen struct {
	r    *rand.Rand
	nvar int
	// PErr is the probability that a simple statement carries an injected error
	PErr float64
}

func (g *pgen) varName() string {
	g.nvar++
	n, s := g.nvar, ""
	for n > 0 {
		s = string(rune('a'+(n-1)%26)) + s
		n = (n - 1) / 26
	}
	return "u" + s
}

func (g *pgen) entry(ctx string, ifHead bool) *catEntry {
	for {
		e := catalogue[g.r.Intn(len(catalogue))]
		if e.IfHead == ifHead && ctxAllows(e.Ctx, ctx) {
			return e
		}
	}
}

func (g *pgen) instantiate(e *catEntry) string {
	if strings.Contains(e.Text, "%v") {
		return strings.ReplaceAll(e.Text, "%v", g.varName())
	}
	return e.Text
}

func (g *pgen) simple(ctx string, forceErr bool) *node {
	if forceErr || g.r.Float64() < g.PErr {
		e := g.entry(ctx, false)
		return &node{Kind: "simple", Text: g.instantiate(e), Ent: e}
	}
	return &node{Kind: "simple", Text: cleanStmts[g.r.Intn(len(cleanStmts))]}
}

func (g *pgen) cond(ctx string) (string, *catEntry) {
	if g.r.Intn(5) == 0 {
		e := g.entry(ctx, true)
		return e.Text, e
	}
	return cleanConds[g.r.Intn(len(cleanConds))], nil
}

func (g *pgen) ifStmt(ctx string, depth int) *node {
	c, e := g.cond(ctx)
	n := &node{Kind: "if", Text: "if (" + c + ") {", Ent: e}
	n.Arms = append(n.Arms, &arm{Body: g.block("if", ctx, depth+1, 1+g.r.Intn(2))})
	if g.r.Intn(5) < 2 {
		c, e := g.cond(ctx)
		kw := []string{"else if", "elsif", "elseif"}[g.r.Intn(3)]
		n.Arms = append(n.Arms, &arm{Sep: "} " + kw + " (" + c + ") {", Ent: e, Body: g.block("if", ctx, depth+1, 1+g.r.Intn(2))})
	}
	if g.r.Intn(2) == 0 {
		n.Arms = append(n.Arms, &arm{Sep: "} else {", Body: g.block("if", ctx, depth+1, 1+g.r.Intn(2))})
	}
	return n
}

func (g *pgen) switchStmt(ctx string, depth int) *node {
	n := &node{Kind: "switch", Text: "switch (req.http.S) {"}
	nc := 2 + g.r.Intn(2)
	for i := 0; i < nc; i++ {
		sep := fmt.Sprintf("case \"%c\":", 'a'+i)
		if i == nc-1 && g.r.Intn(2) == 0 {
			sep = "default:"
		}
		n.Arms = append(n.Arms, &arm{Sep: sep, Body: g.block("case", ctx, depth+1, 1+g.r.Intn(2)), Tail: "break;"})
	}
	return n
}

func (g *pgen) block(kind, ctx string, depth, n int) *block {
	b := &block{Kind: kind, Depth: depth, Ctx: ctx}
	for i := 0; i < n; i++ {
		k := g.r.Intn(20)
		switch {
		case depth < 2 && k < 5:
			b.Stmts = append(b.Stmts, g.ifStmt(ctx, depth))
		case depth < 2 && k < 7 && kind != "module":
			b.Stmts = append(b.Stmts, g.switchStmt(ctx, depth))
		default:
			b.Stmts = append(b.Stmts, g.simple(ctx, false))
		}
	}
	return b
}

func subDecl(name, macro string, body *block) *node {
	n := &node{Kind: "sub", Text: "sub " + name + " {"}
	if macro != "" {
		n.Extra = []string{"#FASTLY " + macro}
	}
	body.Kind = "sub"
	n.Arms = []*arm{{Body: body}}
	return n
}

func rawTable(name string) *node {
	return &node{Kind: "raw", Text: "table " + name + " {", Extra: []string{`  "k": "v",`, "}"}, Rules: []string{rawTableRule}}
}

// randomProgram builds one program that satisfies the workload requirements: at least 4 intended
// diagnostics of at least 3 rules, at nesting depths 0, 1 and 2, in a later subroutine, and (when a
// module is included) in the included file.
func randomProgram(r *rand.Rand) *program {
	for attempt := 0; ; attempt++ {
		g := &pgen{r: r, PErr: 0.5}
		recv := g.block("sub", "recv", 0, 3+r.Intn(3))
		// a guaranteed two-level nest with errors at every level, followed by a later error
		nest := &node{Kind: "if", Text: "if (req.http.N) {"}
		inner := &node{Kind: "if", Text: "if (req.http.M) {"}
		inner.Arms = []*arm{{Body: &block{Kind: "if", Depth: 2, Ctx: "recv", Stmts: []*node{g.simple("recv", true)}}}}
		b1 := &block{Kind: "if", Depth: 1, Ctx: "recv", Stmts: []*node{g.simple("recv", true), inner, g.simple("recv", false)}}
		nest.Arms = []*arm{{Body: b1}, {Sep: "} else {", Body: &block{Kind: "if", Depth: 1, Ctx: "recv", Stmts: []*node{g.simple("recv", true)}}}}
		at := r.Intn(len(recv.Stmts) + 1)
		recv.Stmts = append(recv.Stmts[:at], append([]*node{nest, g.simple("recv", true)}, recv.Stmts[at:]...)...)
		recv.Stmts = append(recv.Stmts, &node{Kind: "simple", Text: "call helper;"})

		helper := g.block("sub", "user", 0, 2+r.Intn(2))
		deliver := g.block("sub", "deliver", 0, 2+r.Intn(2))
		deliver.Stmts = append(deliver.Stmts, g.simple("deliver", true))

		top := &block{Kind: "file"}
		incl := r.Intn(4) // 0 none, 1 in-sub, 2 top-level, 3 both
		if incl == 1 || incl == 3 {
			ctx, host := "recv", recv
			switch r.Intn(4) {
			case 0:
				ctx, host = "user", helper
			case 1:
				ctx, host = "deliver", deliver
			}
			mb := g.block("module", ctx, 0, 2+r.Intn(2))
			mb.Stmts = append(mb.Stmts, g.simple(ctx, true))
			if r.Intn(2) == 0 {
				mb.Stmts = append(mb.Stmts, g.simple(ctx, false))
			}
			inc := &node{Kind: "include", Text: `include "modin";`, Mod: &module{Name: "modin", Top: mb}}
			if host == recv && r.Intn(3) == 0 {
				// inside the nested block
				k := r.Intn(len(b1.Stmts) + 1)
				b1.Stmts = append(b1.Stmts[:k], append([]*node{inc}, b1.Stmts[k:]...)...)
			} else {
				k := r.Intn(len(host.Stmts) + 1)
				host.Stmts = append(host.Stmts[:k], append([]*node{inc}, host.Stmts[k:]...)...)
			}
		}
		decls := []*node{subDecl("helper", "", helper), subDecl("vcl_recv", "RECV", recv), subDecl("vcl_deliver", "DELIVER", deliver)}
		if r.Intn(2) == 0 {
			decls[0], decls[1] = decls[1], decls[0]
		}
		if r.Intn(3) == 0 {
			decls[1], decls[2] = decls[2], decls[1]
		}
		if incl == 2 || incl == 3 {
			ms := g.block("sub", "user", 0, 2+r.Intn(2))
			ms.Stmts = append(ms.Stmts, g.simple("user", true))
			mtop := &block{Kind: "file", Stmts: []*node{subDecl("modsub", "", ms)}}
			if r.Intn(2) == 0 {
				mtop.Stmts = append(mtop.Stmts, rawTable("modtab"))
			}
			recv.Stmts = append(recv.Stmts, &node{Kind: "simple", Text: "call modsub;"})
			inc := &node{Kind: "include", Text: `include "modtop";`, Mod: &module{Name: "modtop", Top: mtop}}
			k := r.Intn(len(decls) + 1)
			decls = append(decls[:k], append([]*node{inc}, decls[k:]...)...)
		}
		if r.Intn(3) == 0 {
			k := r.Intn(len(decls) + 1)
			decls = append(decls[:k], append([]*node{rawTable("tabu")}, decls[k:]...)...)
		}
		top.Stmts = decls
		p := render(top)
		if p.meetsRequirements() || attempt > 50 {
			return p
		}
	}
}

func (p *program) meetsRequirements() bool {
	rules := map[string]bool{}
	for _, in := range p.Intended {
		rules[in.Rule] = true
	}
	return len(p.Intended) >= 4 && len(rules) >= 3
}

// ---- fixed programs (enumerated with every variant) ----------------------------------------------

func simpleE(g *pgen, id string) *node {
	e := catByID(id)
	return &node{Kind: "simple", Text: g.instantiate(e), Ent: e}
}
func clean(i int) *node { return &node{Kind: "simple", Text: cleanStmts[i%len(cleanStmts)]} }
func blk(kind, ctx string, depth int, st ...*node) *block {
	return &block{Kind: kind, Ctx: ctx, Depth: depth, Stmts: st}
}

func fixedPrograms() []*program {
	var out []*program
	{
		// the documentation's statements, nested blocks, a later subroutine and a module included inside vcl_recv
		g := &pgen{}
		inner := &node{Kind: "if", Text: "if (req.http.M) {", Arms: []*arm{{Body: blk("if", "recv", 2, simpleE(g, "S03"), simpleE(g, "S02"), simpleE(g, "S03"), clean(0))}}}
		nest := &node{Kind: "if", Text: "if (req.http.N) {", Arms: []*arm{
			{Body: blk("if", "recv", 1, simpleE(g, "S01"), inner, simpleE(g, "S08"), simpleE(g, "S01"), clean(5))},
			{Sep: `} else if ("lit") {`, Ent: catByID("H01"), Body: blk("if", "recv", 1, simpleE(g, "S02"))},
			{Sep: "} else {", Body: blk("if", "recv", 1, simpleE(g, "S09"), clean(1))},
		}}
		mod := blk("module", "recv", 0, simpleE(g, "S07"), clean(2), simpleE(g, "T01"))
		recv := blk("sub", "recv", 0,
			simpleE(g, "T02"), simpleE(g, "T01"), clean(3), nest, simpleE(g, "S10"), simpleE(g, "S06"),
			&node{Kind: "include", Text: `include "modin";`, Mod: &module{Name: "modin", Top: mod}},
			simpleE(g, "S11"), &node{Kind: "simple", Text: "call helper;"})
		helper := blk("sub", "user", 0, simpleE(g, "S05"), simpleE(g, "S15"))
		deliver := blk("sub", "deliver", 0, simpleE(g, "S14"), simpleE(g, "T05"))
		out = append(out, render(blk("file", "", 0, subDecl("vcl_recv", "RECV", recv), subDecl("helper", "", helper), subDecl("vcl_deliver", "DELIVER", deliver))))
	}
	{
		// switch-case bodies, a top-level module, an unused table, an if header with two diagnostics
		g := &pgen{}
		sw := &node{Kind: "switch", Text: "switch (req.http.S) {", Arms: []*arm{
			{Sep: `case "a":`, Body: blk("case", "recv", 1, simpleE(g, "S01"), simpleE(g, "S08")), Tail: "break;"},
			{Sep: `case "b":`, Body: blk("case", "recv", 1, &node{Kind: "if", Text: "if (req.http.C) {", Arms: []*arm{{Body: blk("if", "recv", 2, simpleE(g, "S03"), simpleE(g, "S02"))}}}), Tail: "break;"},
			{Sep: "default:", Body: blk("case", "recv", 1, simpleE(g, "S09")), Tail: "break;"},
		}}
		h3 := &node{Kind: "if", Text: "if (1) {", Ent: catByID("H03"), Arms: []*arm{{Body: blk("if", "recv", 1, simpleE(g, "S13"))}, {Sep: "} else {", Body: blk("if", "recv", 1, sw2(g))}}}
		recv := blk("sub", "recv", 0, simpleE(g, "S12"), sw, simpleE(g, "T04"), h3, simpleE(g, "S16"),
			&node{Kind: "simple", Text: "call helper;"}, &node{Kind: "simple", Text: "call modsub;"})
		helper := blk("sub", "user", 0, simpleE(g, "T03"), clean(0), simpleE(g, "S04"))
		deliver := blk("sub", "deliver", 0, simpleE(g, "S12"), simpleE(g, "S06"))
		ms := blk("sub", "user", 0, simpleE(g, "S02"), simpleE(g, "S10"))
		mtop := blk("file", "", 0, subDecl("modsub", "", ms), rawTable("modtab"))
		out = append(out, render(blk("file", "", 0,
			rawTable("tabu"),
			subDecl("helper", "", helper),
			&node{Kind: "include", Text: `include "modtop";`, Mod: &module{Name: "modtop", Top: mtop}},
			subDecl("vcl_recv", "RECV", recv), subDecl("vcl_deliver", "DELIVER", deliver))))
	}
	{
		// a module included in the middle of a nested block, late diagnostics (unused variables) at depth 0,
		// nested, in the module and twice in one subroutine
		g := &pgen{}
		mod := blk("module", "recv", 0, simpleE(g, "S06"), simpleE(g, "S01"),
			&node{Kind: "if", Text: "if (req.http.C) {", Arms: []*arm{{Body: blk("if", "recv", 1, simpleE(g, "S02"), clean(0))}}}, simpleE(g, "T01"))
		nest := &node{Kind: "if", Text: "if (req.http.N) {", Arms: []*arm{
			{Body: blk("if", "recv", 1, simpleE(g, "S03"),
				&node{Kind: "include", Text: `include "modin";`, Mod: &module{Name: "modin", Top: mod}},
				simpleE(g, "S06"), simpleE(g, "S10"),
				&node{Kind: "if", Text: "if (req.http.M) {", Arms: []*arm{{Body: blk("if", "recv", 2, simpleE(g, "S06"), simpleE(g, "T02"), clean(3))}}},
				simpleE(g, "S13"))},
			{Sep: "} else {", Body: blk("if", "recv", 1, simpleE(g, "S09"), simpleE(g, "S02"), clean(1))},
		}}
		recv := blk("sub", "recv", 0, simpleE(g, "S08"), nest, simpleE(g, "S06"), simpleE(g, "S07"), simpleE(g, "T04"), &node{Kind: "simple", Text: "call helper;"})
		helper := blk("sub", "user", 0, simpleE(g, "S06"), simpleE(g, "S05"), simpleE(g, "S06"), simpleE(g, "S15"), clean(2))
		deliver := blk("sub", "deliver", 0, simpleE(g, "S14"), simpleE(g, "S16"))
		out = append(out, render(blk("file", "", 0, rawTable("tabv"), subDecl("helper", "", helper), subDecl("vcl_recv", "RECV", recv), subDecl("vcl_deliver", "DELIVER", deliver))))
	}
	return out
}

func sw2(g *pgen) *node {
	return &node{Kind: "switch", Text: "switch (req.http.T) {", Arms: []*arm{
		{Sep: `case "x":`, Body: blk("case", "recv", 2, simpleE(g, "S05")), Tail: "break;"},
		{Sep: "default:", Body: blk("case", "recv", 2, simpleE(g, "S07"), clean(4)), Tail: "break;"},
	}}
}
