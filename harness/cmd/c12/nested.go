package main

// "ranges" family: sequences and nestings of falco-ignore-start / falco-ignore-end pairs over a flat run of
// statements (optionally with whole pairs inside an if block, in a second subroutine and around
// top-level declarations). The reference keeps the stack of open pairs: a diagnostic is expected to be
// suppressed iff an enclosing pair is bare or names its rule. Where docs/linter.md's flat wording ("an
// end without rule names re-enables all rules", "an end with rules re-enables those rules") and the pair
// reading disagree, the statement/rule is "either" and not judged:
//   - after a bare end that closes an inner pair, until every enclosing pair has ended;
//   - for rule r after a listed end naming r, while an enclosing *listed* pair also names r.

import (
	"fmt"
	"math/rand"
	"sort"
	"strings"

	"verif/harness/fw"
	"verif/harness/lintutil"
)

type rcase struct {
	Seed int64 `json:"seed"`
	N    int   `json:"n"`
}

const (
	ruleArgs = "function/arguments"
	ruleType = "function/argument-type"
)

type rstmt struct {
	text  string
	rules []string // diagnostics it produces, all on its own (single) line
}

var rstmts = []rstmt{
	{`set req.http.A = std.itoa(0, 1, 2);`, []string{ruleArgs}},
	{`set req.http.B = std.itoa(req.http.bar);`, []string{ruleType}},
	{`set req.http.C = std.itoa(0, 1, 2) std.itoa(req.http.bar);`, []string{ruleArgs, ruleType}},
	{`set req.http.D = "ok";`, nil},
}

type rpair struct {
	rules []string // nil: bare
}

// item of the generated body: a statement, a directive or a block boundary
type ritem struct {
	kind  string // stmt | start | end | open-if | close-if
	stmt  int
	rules []string
}

func listText(r *rand.Rand, rules []string) string {
	if len(rules) == 0 {
		return ""
	}
	sep := []string{", ", ",", " , ", ",\t"}[r.Intn(4)]
	return " " + strings.Join(rules, sep)
}

func dirText(r *rand.Rand, marker int, kind string, rules []string) string {
	body := "falco-ignore-" + kind + listText(r, rules)
	switch marker {
	case 0:
		return "// " + body
	case 1:
		return "# " + body
	}
	return "/* " + body + " */"
}

// genBody produces a properly nested sequence: Body := (stmt | pair(Body) | if(Body))*
func genBody(r *rand.Rand, depth, budget int, out *[]ritem) {
	n := 1 + r.Intn(4)
	for i := 0; i < n && len(*out) < budget; i++ {
		switch k := r.Intn(10); {
		case k < 5 || depth >= 3:
			*out = append(*out, ritem{kind: "stmt", stmt: r.Intn(len(rstmts))})
		case k < 9:
			var rules []string
			switch r.Intn(4) {
			case 0: // bare
			case 1:
				rules = []string{ruleArgs}
			case 2:
				rules = []string{ruleType}
			case 3:
				rules = []string{ruleArgs, ruleType}
				if r.Intn(2) == 0 {
					rules = []string{ruleType, ruleArgs}
				}
			}
			*out = append(*out, ritem{kind: "start", rules: rules})
			genBody(r, depth+1, budget, out)
			*out = append(*out, ritem{kind: "stmt", stmt: r.Intn(len(rstmts))}) // the end comment needs a statement (or the closing brace) to hang on
			// the end comment is placed in front of the statement just appended: swap
			last := len(*out) - 1
			st := (*out)[last]
			(*out)[last] = ritem{kind: "end", rules: rules}
			*out = append(*out, st)
		default:
			*out = append(*out, ritem{kind: "open-if"})
			genBody(r, depth+1, budget, out)
			*out = append(*out, ritem{kind: "stmt", stmt: r.Intn(len(rstmts))})
			*out = append(*out, ritem{kind: "close-if"})
		}
	}
}

type expectation struct {
	line int
	rule string
	want string // suppressed | reported | either
}

func runRanges(oc *fw.Outcome, rc rcase) {
	r := rand.New(rand.NewSource(rc.Seed))
	for k := 0; k < rc.N; k++ {
		oneRanges(oc, r)
	}
}

func oneRanges(oc *fw.Outcome, r *rand.Rand) {
	var items []ritem
	genBody(r, 0, 24, &items)
	marker := r.Intn(3)
	mixed := r.Intn(4) == 0
	var lines []string
	lines = append(lines, "sub vcl_recv {", "#FASTLY RECV")
	type open struct {
		rules []string
	}
	var stack []open
	ambAll := false              // after an inner bare end: nothing is judged until the stack is empty
	ambRule := map[string]bool{} // rule -> ambiguous until the enclosing listed pair naming it ends
	var exps []expectation
	nStart := 0
	indent := "  "
	names := func(o open, rule string) bool {
		for _, x := range o.rules {
			if x == rule {
				return true
			}
		}
		return false
	}
	for _, it := range items {
		m := marker
		if mixed {
			m = r.Intn(3)
		}
		switch it.kind {
		case "stmt":
			st := rstmts[it.stmt]
			lines = append(lines, indent+st.text)
			for _, rule := range st.rules {
				want := "reported"
				for _, o := range stack {
					if o.rules == nil || names(o, rule) {
						want = "suppressed"
					}
				}
				if ambAll || ambRule[rule] {
					want = "either"
				}
				exps = append(exps, expectation{len(lines), rule, want})
			}
		case "start":
			nStart++
			stack = append(stack, open{it.rules})
			lines = append(lines, indent+dirText(r, m, "start", it.rules))
		case "end":
			top := stack[len(stack)-1]
			stack = stack[:len(stack)-1]
			lines = append(lines, indent+dirText(r, m, "end", it.rules))
			if len(stack) == 0 {
				ambAll = false
				ambRule = map[string]bool{}
				break
			}
			if top.rules == nil {
				ambAll = true
			}
			for _, rule := range top.rules {
				for _, o := range stack {
					if o.rules != nil && names(o, rule) {
						ambRule[rule] = true
					}
				}
			}
			// a rule stops being ambiguous when no enclosing listed pair names it any more
			for rule := range ambRule {
				still := false
				for _, o := range stack {
					if o.rules != nil && names(o, rule) {
						still = true
					}
				}
				if !still {
					delete(ambRule, rule)
				}
			}
		case "open-if":
			lines = append(lines, indent+"if (req.http.Cond) {")
			indent += "  "
		case "close-if":
			indent = indent[:len(indent)-2]
			lines = append(lines, indent+"}")
		}
	}
	lines = append(lines, "  return(lookup);", "}")
	// a later subroutine: nothing of the ranges above (all closed) may reach it
	lines = append(lines, "sub vcl_deliver {", "#FASTLY DELIVER", "  set resp.http.A = std.itoa(0, 1, 2);", "}")
	exps = append(exps, expectation{len(lines) - 1, ruleArgs, "reported"})
	src := strings.Join(lines, "\n") + "\n"
	fw.JournalS(src)
	oc.Evals++
	var res *lintutil.Result
	panicked, msg, st := fw.Guard(func() {
		res = lintutil.Lint(src, &lintutil.MapResolver{Main: src, Budget: 10})
	})
	if panicked {
		oc.Violate(fw.PanicKey(st), "the linter panicked on nested ignore ranges: "+msg, map[string]any{"vcl": src})
		return
	}
	if res.ParseErr != nil || res.Fatal != "" {
		oc.Inconc = append(oc.Inconc, fmt.Sprintf("ranges: generated program does not lint: %v %s\n%s", res.ParseErr, res.Fatal, src))
		return
	}
	got := map[string]int{}
	for _, d := range res.Diags {
		got[fmt.Sprintf("%d|%s", d.Line, d.Rule)]++
	}
	judged, nested := 0, false
	for _, e := range exps {
		k := fmt.Sprintf("%d|%s", e.line, e.rule)
		n := got[k]
		delete(got, k)
		switch e.want {
		case "either":
			oc.Tag("ranges:not-judged(docs-vs-pair-reading)")
			continue
		case "reported":
			if n != 1 {
				oc.Violate("ranges/leak/"+shape(items), fmt.Sprintf("line %d: the %s diagnostic lies outside every open range that covers its rule but was reported %d times", e.line, e.rule, n), map[string]any{"vcl": src, "line": e.line, "rule": e.rule})
				return
			}
		case "suppressed":
			if n != 0 {
				oc.Violate("ranges/under/"+shape(items), fmt.Sprintf("line %d: the %s diagnostic lies inside an open range that covers its rule but was reported", e.line, e.rule), map[string]any{"vcl": src, "line": e.line, "rule": e.rule})
				return
			}
		}
		judged++
	}
	if len(got) > 0 {
		var ks []string
		for k := range got {
			ks = append(ks, k)
		}
		sort.Strings(ks)
		oc.Violate("ranges/new/"+shape(items), "diagnostics that the plain statements do not produce: "+strings.Join(ks, " "), map[string]any{"vcl": src})
		return
	}
	depth, maxDepth := 0, 0
	for _, it := range items {
		if it.kind == "start" {
			depth++
			if depth > maxDepth {
				maxDepth = depth
			}
		} else if it.kind == "end" {
			depth--
		}
	}
	nested = maxDepth >= 2
	oc.Tag(fmt.Sprintf("ranges:max-open-pairs=%d", maxDepth))
	if nStart >= 1 && judged >= 2 {
		oc.NonTrivialS(src)
	}
	_ = nested
}

// shape names the nesting of the first two levels of pairs (bare / listed), for the finding key
func shape(items []ritem) string {
	var sb strings.Builder
	depth := 0
	for _, it := range items {
		switch it.kind {
		case "start":
			depth++
			if depth <= 2 && sb.Len() < 12 {
				if it.rules == nil {
					sb.WriteString("B")
				} else {
					sb.WriteString("L")
				}
			}
		case "end":
			depth--
		}
	}
	seen := map[string]bool{}
	s := sb.String()
	switch {
	case strings.Contains(s, "B") && strings.Contains(s, "L"):
		s = "bare+listed"
	case strings.Contains(s, "B"):
		s = "bare"
	default:
		s = "listed"
	}
	_ = seen
	maxDepth, d := 0, 0
	for _, it := range items {
		if it.kind == "start" {
			d++
			if d > maxDepth {
				maxDepth = d
			}
		} else if it.kind == "end" {
			d--
		}
	}
	if maxDepth >= 2 {
		return "nested/" + s
	}
	return "sequence/" + s
}

// ---------------------------------------------------------------------------------------------
// "decls" family: diagnostics located in top-level declarations (duplicated definitions, invalid
// return types, unused declarations) under each directive form. The oracle is purely differential:
// D1 (lines mapped back) == D0 minus the diagnostics on the covered declaration's line whose rule the
// directive names (all of them for a bare directive).

var declUnits = [][]string{
	{`acl a1 { "10.0.0.1"; }`, `acl a1 { "10.0.0.2"; }`},
	{`backend b1 { .host = "example.com"; }`, `backend b1 { .host = "example.org"; }`},
	{`table t1 { "a": "b" }`, `table t1 { "a": "c" }`},
	{`director d1 random { { .backend = b0; .weight = 1; } }`, `director d1 random { { .backend = b0; .weight = 2; } }`},
	{`sub s1 { esi; }`, `sub s1 { esi; }`},
	{`penaltybox p1 {}`, `penaltybox p1 {}`},
	{`ratecounter r1 {}`, `ratecounter r1 {}`},
	{`sub f1 STRANGE { return "x"; }`},
	{`table t2 UNKNOWNTYPE { "a": "b" }`},
	{`acl a2 { "10.0.0.999"; }`},
	{`table t3 { "k": "v" }`}, // unused
	{`acl a3 { "192.0.2.0"/24; }`},
}

func runDecls(oc *fw.Outcome, rc rcase) {
	r := rand.New(rand.NewSource(rc.Seed))
	for k := 0; k < rc.N; k++ {
		oneDecls(oc, r)
	}
}

type ldiag struct {
	line int
	rule string
	msg  string
}

func lintDecl(oc *fw.Outcome, src string) ([]ldiag, bool) {
	fw.JournalS(src)
	oc.Evals++
	var res *lintutil.Result
	panicked, msg, st := fw.Guard(func() {
		res = lintutil.Lint(src, &lintutil.MapResolver{Main: src, Budget: 10})
	})
	if panicked {
		oc.Violate(fw.PanicKey(st), "the linter panicked on declarations with ignore comments: "+msg, map[string]any{"vcl": src})
		return nil, false
	}
	if res.ParseErr != nil || res.Fatal != "" {
		oc.Inconc = append(oc.Inconc, fmt.Sprintf("decls: generated program does not lint: %v %s\n%s", res.ParseErr, res.Fatal, src))
		return nil, false
	}
	var out []ldiag
	for _, d := range res.Diags {
		out = append(out, ldiag{d.Line, d.Rule, maskMsg(d.Msg)})
	}
	return out, true
}

func oneDecls(oc *fw.Outcome, r *rand.Rand) {
	// program: backend b0 first (directors refer to it), then a shuffle of unit lines that keeps the
	// order inside a unit, then vcl_recv using what can be used
	var lines []string
	lines = append(lines, `backend b0 { .host = "example.net"; }`)
	type pending struct{ rest []string }
	var pool []*pending
	for _, u := range declUnits {
		if r.Intn(4) != 0 {
			pool = append(pool, &pending{append([]string{}, u...)})
		}
	}
	for len(pool) > 0 {
		i := r.Intn(len(pool))
		lines = append(lines, pool[i].rest[0])
		pool[i].rest = pool[i].rest[1:]
		if len(pool[i].rest) == 0 {
			pool = append(pool[:i], pool[i+1:]...)
		}
	}
	nDecl := len(lines)
	lines = append(lines, "sub vcl_recv {", "#FASTLY RECV", "  set req.backend = b0;", "  return(lookup);", "}")
	plain := strings.Join(lines, "\n") + "\n"
	d0, ok := lintDecl(oc, plain)
	if !ok {
		return
	}
	byLine := map[int][]ldiag{}
	for _, d := range d0 {
		byLine[d.line] = append(byLine[d.line], d)
	}
	// every declaration line with a diagnostic x every form x rule list kind
	for L := 2; L <= nDecl; L++ {
		ds := byLine[L]
		if len(ds) == 0 && r.Intn(6) != 0 {
			continue
		}
		for _, form := range []string{"next-line", "trailing", "range"} {
			if dk := strings.SplitN(lines[L-1], " ", 2)[0]; form == "trailing" && (dk == "sub" || dk == "penaltybox" || dk == "ratecounter") {
				// a comment behind the closing brace of a block belongs to the block, not to the declaration
				// (same as for if/else): whether `} // falco-ignore` covers a compound is not documented
				oc.Tag("decls:not-judged(trailing-after-block)")
				continue
			}
			marker := r.Intn(3)
			var rules []string
			kind := []string{"bare", "listed", "other"}[r.Intn(3)]
			switch kind {
			case "listed":
				if len(ds) == 0 || ds[r.Intn(len(ds))].rule == "" {
					kind = "bare"
				} else {
					rules = []string{ds[r.Intn(len(ds))].rule}
					if rules[0] == "" {
						rules, kind = nil, "bare"
					}
				}
			case "other":
				rules = []string{"function/arguments"}
			}
			var out []string
			orig := []int{0}
			for i, t := range lines {
				ln := i + 1
				if ln == L {
					switch form {
					case "next-line":
						out = append(out, dirText(r, marker, "next-line", rules))
						orig = append(orig, 0)
					case "range":
						out = append(out, dirText(r, marker, "start", rules))
						orig = append(orig, 0)
					case "trailing":
						body := "falco-ignore" + listText(r, rules)
						switch marker {
						case 0:
							t += " // " + body
						case 1:
							t += " # " + body
						default:
							t += " /* " + body + " */"
						}
					}
				}
				if ln == L+1 && form == "range" {
					out = append(out, dirText(r, marker, "end", rules))
					orig = append(orig, 0)
				}
				out = append(out, t)
				orig = append(orig, ln)
			}
			src := strings.Join(out, "\n") + "\n"
			d1, ok := lintDecl(oc, src)
			if !ok {
				return
			}
			want := map[string]int{}
			covered := 0
			for _, d := range d0 {
				named := rules == nil
				for _, x := range rules {
					if x == d.rule && x != "" {
						named = true
					}
				}
				if d.line == L && named {
					covered++
					continue
				}
				want[fmt.Sprintf("%d|%s|%s", d.line, d.rule, d.msg)]++
			}
			got := map[string]int{}
			for _, d := range d1 {
				ln := -1
				if d.line >= 1 && d.line < len(orig) {
					ln = orig[d.line]
				}
				got[fmt.Sprintf("%d|%s|%s", ln, d.rule, d.msg)]++
			}
			declKind := strings.SplitN(lines[L-1], " ", 2)[0]
			for k, n := range want {
				if got[k] < n {
					oc.Violate("decls/leak/"+form+"/"+declKind, fmt.Sprintf("a %s directive (%s) on the declaration at line %d removed a diagnostic it does not cover: %s", form, kind, L, k), map[string]any{"vcl": src, "plain": plain})
					return
				}
			}
			for k, n := range got {
				if want[k] < n {
					rule := strings.SplitN(k, "|", 3)[1]
					what := "under"
					if !strings.HasPrefix(k, fmt.Sprintf("%d|", L)) {
						what = "new"
					}
					oc.Violate("decls/"+what+"/"+form+"/"+declKind+"/"+rule, fmt.Sprintf("a %s directive (%s) on the declaration at line %d: diagnostic still or newly reported: %s", form, kind, L, k), map[string]any{"vcl": src, "plain": plain})
					return
				}
			}
			oc.Tag("decls:" + form + "/" + kind)
			if covered > 0 && len(want) > 0 {
				oc.NonTrivialS(src)
				oc.Tag("decls:covered-rule:" + ds[0].rule)
			}
		}
	}
}
