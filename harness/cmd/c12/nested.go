package main

// "ranges" family: sequences and nestings of falco-ignore-start / falco-ignore-end pairs over a flat run of
// statements (optionally with whole pairs inside an if block, in a second subroutine and around
// top-level declarations). The reference keeps the stack of open pairs: a diagnostic is expected to be
// suppressed iff an enclosing pair is bare or names its rule. Where docs/linter.md's flat wording ("an
// end without rule names re-enables all rules", "an end with rules re-enables those rules") and the pair
// reading disagree, the statement/rule is "either" and not judged:
//   - after a bare end that closes an inner pair, until every enclosing pair has ended;
//   - for rule r after a listed end naming r, while an enclosing *listed* pair also names r.

import (
	"fmt"
	"math/rand"
	"sort"
	"strings"

	"github.com/ysugimoto/falco/v2/config"
	"github.com/ysugimoto/falco/v2/lexer"
	"github.com/ysugimoto/falco/v2/linter"
	lcontext "github.com/ysugimoto/falco/v2/linter/context"
	"github.com/ysugimoto/falco/v2/parser"

	"verif/harness/fw"
	"verif/harness/lintutil"
)

type rcase struct {
	Seed int64 `json:"seed"`
	N    int   `json:"n"`
}

const (
	ruleArgs = "function/arguments"
	ruleType = "function/argument-type"
)

type rdiag struct {
	off  int // line offset inside the statement
	rule string
}

type rstmt struct {
	lines []string
	diags []rdiag
}

var rstmts = []rstmt{
	{[]string{`set req.http.A = std.itoa(0, 1, 2);`}, []rdiag{{0, ruleArgs}}},
	{[]string{`set req.http.B = std.itoa(req.http.bar);`}, []rdiag{{0, ruleType}}},
	{[]string{`set req.http.C = std.itoa(0, 1, 2) std.itoa(req.http.bar);`}, []rdiag{{0, ruleArgs}, {0, ruleType}}},
	{[]string{`set req.http.D = "ok";`}, nil},
	// statements that span several lines, diagnostics on the first, the second and the last line
	{[]string{`set req.http.E = std.itoa(0, 1, 2)`, `    std.itoa(req.http.bar);`}, []rdiag{{0, ruleArgs}, {1, ruleType}}},
	{[]string{`set req.http.F = "a"`, `    "b"`, `    std.itoa(0, 1, 2);`}, []rdiag{{2, ruleArgs}}},
	{[]string{`set req.http.G =`, `    std.itoa(req.http.bar)`, `    "c";`}, []rdiag{{1, ruleType}}},
	// include statements whose module cannot be loaded: the diagnostic is located in the statement
	{[]string{`include "nosuch_module";`}, []rdiag{{0, "include/module-load-failed"}}},
	{[]string{`include "snippet::nosuch_snippet";`}, []rdiag{{0, "include/module-not-found"}}},
}

// item of the generated body: a statement, a directive or a block boundary
type ritem struct {
	kind    string // stmt | start | end | open-if | close-if | include
	stmt    int
	rules   []string
	own     string   // directive on the statement itself: "" | next-line | trailing
	ownList []string // nil: bare
	blank   bool     // blank line between the next-line comment and the statement
}

func listText(r *rand.Rand, rules []string) string {
	if len(rules) == 0 {
		return ""
	}
	sep := []string{", ", ",", " , ", ",\t"}[r.Intn(4)]
	return " " + strings.Join(rules, sep)
}

func dirText(r *rand.Rand, marker int, kind string, rules []string) string {
	body := "falco-ignore-" + kind + listText(r, rules)
	if kind == "" {
		body = "falco-ignore" + listText(r, rules)
	}
	switch marker {
	case 0:
		return "// " + body
	case 1:
		return "# " + body
	}
	return "/* " + body + " */"
}

func pickList(r *rand.Rand) []string {
	switch r.Intn(4) {
	case 1:
		return []string{ruleArgs}
	case 2:
		return []string{ruleType}
	case 3:
		if r.Intn(2) == 0 {
			return []string{ruleType, ruleArgs}
		}
		return []string{ruleArgs, ruleType}
	}
	return nil
}

// noIncludeStmts: include statements are generated in the main file only (an include at the top level of
// a module or of a snippet file is resolved ahead of linting, without its comments)
var noIncludeStmts bool

func genStmt(r *rand.Rand) ritem {
	n := len(rstmts)
	if noIncludeStmts {
		n -= 2
	}
	it := ritem{kind: "stmt", stmt: r.Intn(n)}
	switch r.Intn(8) {
	case 0:
		it.own, it.ownList, it.blank = "next-line", pickList(r), r.Intn(3) == 0
	case 1:
		it.own, it.ownList = "trailing", pickList(r)
	}
	return it
}

// genBody produces a properly nested sequence: Body := (stmt | pair(Body) | if(Body))*
// A listed outermost pair is sometimes closed by a bare end (docs: it re-enables all rules).
func genBody(r *rand.Rand, depth, pairDepth, budget int, out *[]ritem) {
	n := 1 + r.Intn(4)
	for i := 0; i < n && len(*out) < budget; i++ {
		switch k := r.Intn(10); {
		case k < 5 || depth >= 3:
			*out = append(*out, genStmt(r))
		case k < 9:
			rules := pickList(r)
			*out = append(*out, ritem{kind: "start", rules: rules})
			genBody(r, depth+1, pairDepth+1, budget, out)
			endRules := rules
			if pairDepth == 0 && rules != nil && r.Intn(4) == 0 {
				endRules = nil
			}
			// the end comment needs a statement to hang on
			*out = append(*out, ritem{kind: "end", rules: endRules}, genStmt(r))
		default:
			*out = append(*out, ritem{kind: "open-if"})
			genBody(r, depth+1, pairDepth, budget, out)
			*out = append(*out, genStmt(r), ritem{kind: "close-if"})
		}
	}
}

type expectation struct {
	file string
	line int
	rule string
	want string // suppressed | reported | either
}

func runRanges(oc *fw.Outcome, rc rcase) {
	r := rand.New(rand.NewSource(rc.Seed))
	for k := 0; k < rc.N; k++ {
		oneRanges(oc, r)
	}
}

type open struct {
	rules []string
}

func names(o open, rule string) bool {
	for _, x := range o.rules {
		if x == rule {
			return true
		}
	}
	return false
}

// rworld renders items into the lines of one file and records the expectations. The stack of
// open pairs belongs to the file (an included module starts with an empty one).
type rworld struct {
	r        *rand.Rand
	marker   int
	mixed    bool
	exps     []expectation
	nStart   int
	maxOpen  int
	feats    map[string]bool
	modLines []string
}

func (w *rworld) render(file string, items []ritem, indent string, lines *[]string, outer []open, module []ritem) {
	var stack []open
	ambAll := false              // after an inner bare end: nothing is judged until the stack is empty
	ambRule := map[string]bool{} // rule -> ambiguous while an enclosing listed pair names it too
	covered := func(rule string, own *ritem) string {
		want := "reported"
		for _, o := range append(append([]open{}, outer...), stack...) {
			if o.rules == nil || names(o, rule) {
				want = "suppressed"
			}
		}
		if ambAll || ambRule[rule] {
			want = "either"
		}
		if own != nil && own.own != "" && (own.ownList == nil || names(open{own.ownList}, rule)) {
			want = "suppressed"
		}
		return want
	}
	for idx := range items {
		it := items[idx]
		m := w.marker
		if w.mixed {
			m = w.r.Intn(3)
		}
		switch it.kind {
		case "stmt":
			st := rstmts[it.stmt]
			if it.own == "next-line" {
				*lines = append(*lines, indent+dirText(w.r, m, "next-line", it.ownList))
				w.feats["own:next-line"] = true
				if it.blank {
					*lines = append(*lines, "")
					w.feats["own:next-line+blank"] = true
				}
			}
			first := len(*lines) + 1
			for li, l := range st.lines {
				if li == len(st.lines)-1 && it.own == "trailing" {
					l += " " + dirText(w.r, m, "", it.ownList)
					w.feats["own:trailing"] = true
					if len(st.lines) > 1 {
						w.feats["own:trailing-on-multi-line"] = true
					}
				}
				*lines = append(*lines, indent+l)
			}
			for _, d := range st.diags {
				w.exps = append(w.exps, expectation{file, first + d.off, d.rule, covered(d.rule, &it)})
			}
		case "include":
			*lines = append(*lines, indent+`include "mod";`)
			var mlines []string
			mw := *w
			mw.exps = nil
			// the module's own ranges start from nothing; what is open here covers the whole module
			mw.render("mod", module, "", &mlines, append(append([]open{}, outer...), stack...), nil)
			if ambAll || len(ambRule) > 0 {
				for i := range mw.exps {
					mw.exps[i].want = "either"
				}
			}
			w.exps = append(w.exps, mw.exps...)
			w.nStart += mw.nStart - w.nStart
			w.modLines = mlines
		case "start":
			w.nStart++
			stack = append(stack, open{it.rules})
			if len(stack) > w.maxOpen {
				w.maxOpen = len(stack)
			}
			*lines = append(*lines, indent+dirText(w.r, m, "start", it.rules))
		case "end":
			top := stack[len(stack)-1]
			stack = stack[:len(stack)-1]
			*lines = append(*lines, indent+dirText(w.r, m, "end", it.rules))
			if top.rules != nil && it.rules == nil {
				w.feats["listed-start-closed-by-bare-end"] = true
			}
			// what is still open around this end: the file's own pairs and, in a module, the pairs
			// which are open around the include statement
			enclosing := append(append([]open{}, outer...), stack...)
			if len(enclosing) == 0 {
				ambAll = false
				ambRule = map[string]bool{}
				break
			}
			if it.rules == nil {
				ambAll = true
			}
			for _, rule := range it.rules {
				for _, o := range enclosing {
					if o.rules != nil && names(o, rule) {
						ambRule[rule] = true
					}
				}
			}
			for rule := range ambRule {
				still := false
				for _, o := range enclosing {
					if o.rules != nil && names(o, rule) {
						still = true
					}
				}
				if !still {
					delete(ambRule, rule)
				}
			}
		case "open-if":
			*lines = append(*lines, indent+"if (req.http.Cond) {")
			indent += "  "
		case "close-if":
			indent = indent[:len(indent)-2]
			*lines = append(*lines, indent+"}")
		}
	}
	// a range left open at the end of a module must not reach the including file (the caller goes on
	// with its own stack); in the main file every pair is closed
}

func oneRanges(oc *fw.Outcome, r *rand.Rand) {
	var items []ritem
	// every fifth program is a statement-only snippet file with a scope annotation
	snippetFile := r.Intn(5) == 0
	noIncludeStmts = snippetFile
	genBody(r, 0, 0, 24, &items)
	noIncludeStmts = true
	w := &rworld{r: r, marker: r.Intn(3), mixed: r.Intn(4) == 0, feats: map[string]bool{}}
	// optionally a module included from the subroutine body (at block depth 0) which has ranges of its
	// own, one of them possibly left open at its end
	var module []ritem
	if !snippetFile && r.Intn(3) == 0 {
		genBody(r, 1, 0, 10, &module)
		if r.Intn(3) == 0 {
			module = append(module, ritem{kind: "start", rules: pickList(r)}, genStmt(r))
			w.feats["module:range-left-open"] = true
		}
		// a position at block depth 0
		var cands []int
		depth := 0
		for i, it := range items {
			switch it.kind {
			case "open-if":
				depth++
			case "close-if":
				depth--
			}
			if depth == 0 && it.kind != "end" {
				cands = append(cands, i+1)
			}
		}
		// never between an end comment and the statement it hangs on
		var ok []int
		for _, c := range cands {
			if c < len(items) && items[c-1].kind == "end" {
				continue
			}
			if c > 0 && c <= len(items) && items[c-1].kind == "start" {
				continue
			}
			ok = append(ok, c)
		}
		if len(ok) > 0 {
			at := ok[r.Intn(len(ok))]
			items = append(items[:at], append([]ritem{{kind: "include"}}, items[at:]...)...)
			w.feats["module"] = true
		} else {
			module = nil
		}
	}
	noIncludeStmts = false
	var lines []string
	if snippetFile {
		w.feats["snippet-file"] = true
		lines = append(lines, "# @scope: recv", "")
		w.render("main", items, "", &lines, nil, nil)
		lines = append(lines, "set req.http.Last = std.itoa(0, 1, 2);")
		w.exps = append(w.exps, expectation{"main", len(lines), ruleArgs, "reported"})
	} else {
		lines = append(lines, "sub vcl_recv {", "#FASTLY RECV")
		w.render("main", items, "  ", &lines, nil, module)
		lines = append(lines, "  return(lookup);", "}")
		// a later subroutine: nothing of the ranges above (all closed) may reach it
		lines = append(lines, "sub vcl_deliver {", "#FASTLY DELIVER", "  set resp.http.A = std.itoa(0, 1, 2);", "}")
		w.exps = append(w.exps, expectation{"main", len(lines) - 1, ruleArgs, "reported"})
	}
	src := strings.Join(lines, "\n") + "\n"
	mods := map[string]string{}
	if w.modLines != nil {
		mods["mod"] = strings.Join(w.modLines, "\n") + "\n"
	}
	fw.JournalS(src)
	oc.Evals++
	var res *lintutil.Result
	panicked, msg, st := fw.Guard(func() {
		if snippetFile {
			res = lintSnippetFile(src)
		} else {
			res = lintutil.Lint(src, &lintutil.MapResolver{Main: src, Modules: mods, Budget: 1000})
		}
	})
	detail := map[string]any{"vcl": src, "mod": mods["mod"]}
	if panicked {
		oc.Violate(fw.PanicKey(st), "the linter panicked on nested ignore ranges: "+msg, detail)
		return
	}
	if res.ParseErr != nil || res.Fatal != "" {
		oc.Inconc = append(oc.Inconc, fmt.Sprintf("ranges: generated program does not lint: %v %s\n%s\n-- mod:\n%s", res.ParseErr, res.Fatal, src, mods["mod"]))
		return
	}
	got := map[string]int{}
	for _, d := range res.Diags {
		f := "main"
		if strings.Contains(d.File, "mod") {
			f = "mod"
		}
		got[fmt.Sprintf("%s|%d|%s", f, d.Line, d.Rule)]++
	}
	judged := 0
	sh := shape(items, w)
	for _, e := range w.exps {
		k := fmt.Sprintf("%s|%d|%s", e.file, e.line, e.rule)
		n := got[k]
		delete(got, k)
		switch e.want {
		case "either":
			oc.Tag("ranges:not-judged(docs-vs-pair-reading)")
			continue
		case "reported":
			if n != 1 {
				oc.Violate("ranges/leak/"+sh, fmt.Sprintf("%s line %d: the %s diagnostic lies outside every directive that covers its rule but was reported %d times", e.file, e.line, e.rule, n), detail)
				return
			}
		case "suppressed":
			if n != 0 {
				oc.Violate("ranges/under/"+sh, fmt.Sprintf("%s line %d: the %s diagnostic lies inside a directive that covers its rule but was reported", e.file, e.line, e.rule), detail)
				return
			}
		}
		judged++
	}
	if len(got) > 0 {
		var ks []string
		for k := range got {
			ks = append(ks, k)
		}
		sort.Strings(ks)
		oc.Violate("ranges/new/"+sh, "diagnostics that the plain statements do not produce: "+strings.Join(ks, " "), detail)
		return
	}
	oc.Tag(fmt.Sprintf("ranges:max-open-pairs=%d", w.maxOpen))
	for f := range w.feats {
		oc.Tag("ranges:feature:" + f)
	}
	if (w.nStart >= 1 || len(w.feats) > 0) && judged >= 2 {
		oc.NonTrivialS(src + mods["mod"])
	}
}

// shape names the features of the program for the finding key
func shape(items []ritem, w *rworld) string {
	bare, listed := false, false
	for _, it := range items {
		if it.kind == "start" {
			if it.rules == nil {
				bare = true
			} else {
				listed = true
			}
		}
	}
	s := "no-range"
	switch {
	case bare && listed:
		s = "bare+listed"
	case bare:
		s = "bare"
	case listed:
		s = "listed"
	}
	pre := "sequence/"
	if w.maxOpen >= 2 {
		pre = "nested/"
	}
	if w.feats["module"] {
		pre = "module/" + pre
	}
	if w.feats["snippet-file"] {
		pre = "snippet-file/" + pre
	}
	for _, f := range []string{"own:trailing-on-multi-line", "own:next-line+blank", "listed-start-closed-by-bare-end"} {
		if w.feats[f] {
			s += "+" + strings.TrimPrefix(f, "own:")
		}
	}
	return pre + s
}

// ---------------------------------------------------------------------------------------------
// "decls" family: diagnostics located in top-level declarations (duplicated definitions, invalid
// return types, unused declarations) under each directive form. The oracle is purely differential:
// D1 (lines mapped back) == D0 minus the diagnostics on the covered declaration's line whose rule the
// directive names (all of them for a bare directive).

var declUnits = [][]string{
	{`acl a1 { "10.0.0.1"; }`, `acl a1 { "10.0.0.2"; }`},
	{`backend b1 { .host = "example.com"; }`, `backend b1 { .host = "example.org"; }`},
	{`table t1 { "a": "b" }`, `table t1 { "a": "c" }`},
	{`director d1 random { { .backend = b0; .weight = 1; } }`, `director d1 random { { .backend = b0; .weight = 2; } }`},
	{`sub s1 { esi; }`, `sub s1 { esi; }`},
	{`penaltybox p1 {}`, `penaltybox p1 {}`},
	{`ratecounter r1 {}`, `ratecounter r1 {}`},
	{`sub f1 STRANGE { return "x"; }`},
	{`table t2 UNKNOWNTYPE { "a": "b" }`},
	{`acl a2 { "10.0.0.999"; }`},
	{`sub rec1 { call rec1; }`},                            // recursive (and unused)
	{`sub rec2 { call rec3; }`, `sub rec3 { call rec2; }`}, // mutually recursive
	{`include "nosuch_root_module";`},                      // cannot be loaded
	{`include "snippet::nosuch_root_snippet";`},
	{`table t3 { "k": "v" }`}, // unused
	{`acl a3 { "192.0.2.0"/24; }`},
}

func runDecls(oc *fw.Outcome, rc rcase) {
	r := rand.New(rand.NewSource(rc.Seed))
	for k := 0; k < rc.N; k++ {
		oneDecls(oc, r)
	}
}

type ldiag struct {
	line int
	rule string
	msg  string
}

func lintDecl(oc *fw.Outcome, src string) ([]ldiag, bool) {
	fw.JournalS(src)
	oc.Evals++
	var res *lintutil.Result
	panicked, msg, st := fw.Guard(func() {
		res = lintutil.Lint(src, &lintutil.MapResolver{Main: src, Budget: 10})
	})
	if panicked {
		oc.Violate(fw.PanicKey(st), "the linter panicked on declarations with ignore comments: "+msg, map[string]any{"vcl": src})
		return nil, false
	}
	if res.ParseErr != nil || res.Fatal != "" {
		oc.Inconc = append(oc.Inconc, fmt.Sprintf("decls: generated program does not lint: %v %s\n%s", res.ParseErr, res.Fatal, src))
		return nil, false
	}
	var out []ldiag
	for _, d := range res.Diags {
		out = append(out, ldiag{d.Line, d.Rule, maskMsg(d.Msg)})
	}
	return out, true
}

func oneDecls(oc *fw.Outcome, r *rand.Rand) {
	// program: backend b0 first (directors refer to it), then a shuffle of unit lines that keeps the
	// order inside a unit, then vcl_recv using what can be used
	var lines []string
	lines = append(lines, `backend b0 { .host = "example.net"; }`)
	type pending struct{ rest []string }
	var pool []*pending
	for _, u := range declUnits {
		if r.Intn(4) != 0 {
			pool = append(pool, &pending{append([]string{}, u...)})
		}
	}
	for len(pool) > 0 {
		i := r.Intn(len(pool))
		lines = append(lines, pool[i].rest[0])
		pool[i].rest = pool[i].rest[1:]
		if len(pool[i].rest) == 0 {
			pool = append(pool[:i], pool[i+1:]...)
		}
	}
	nDecl := len(lines)
	lines = append(lines, "sub vcl_recv {", "#FASTLY RECV", "  set req.backend = b0;", "  return(lookup);", "}")
	plain := strings.Join(lines, "\n") + "\n"
	d0, ok := lintDecl(oc, plain)
	if !ok {
		return
	}
	byLine := map[int][]ldiag{}
	for _, d := range d0 {
		byLine[d.line] = append(byLine[d.line], d)
	}
	// every declaration line with a diagnostic x every form x rule list kind
	for L := 2; L <= nDecl; L++ {
		ds := byLine[L]
		if len(ds) == 0 && r.Intn(6) != 0 {
			continue
		}
		for _, form := range []string{"next-line", "trailing", "range"} {
			if dk := strings.SplitN(lines[L-1], " ", 2)[0]; form == "trailing" && (dk == "sub" || dk == "penaltybox" || dk == "ratecounter") {
				// a comment behind the closing brace of a block belongs to the block, not to the declaration
				// (same as for if/else): whether `} // falco-ignore` covers a compound is not documented
				oc.Tag("decls:not-judged(trailing-after-block)")
				continue
			}
			marker := r.Intn(3)
			var rules []string
			kind := []string{"bare", "listed", "other"}[r.Intn(3)]
			switch kind {
			case "listed":
				if len(ds) == 0 || ds[r.Intn(len(ds))].rule == "" {
					kind = "bare"
				} else {
					rules = []string{ds[r.Intn(len(ds))].rule}
					if rules[0] == "" {
						rules, kind = nil, "bare"
					}
				}
			case "other":
				rules = []string{"function/arguments"}
			}
			var out []string
			orig := []int{0}
			for i, t := range lines {
				ln := i + 1
				if ln == L {
					switch form {
					case "next-line":
						out = append(out, dirText(r, marker, "next-line", rules))
						orig = append(orig, 0)
					case "range":
						out = append(out, dirText(r, marker, "start", rules))
						orig = append(orig, 0)
					case "trailing":
						body := "falco-ignore" + listText(r, rules)
						switch marker {
						case 0:
							t += " // " + body
						case 1:
							t += " # " + body
						default:
							t += " /* " + body + " */"
						}
					}
				}
				if ln == L+1 && form == "range" {
					out = append(out, dirText(r, marker, "end", rules))
					orig = append(orig, 0)
				}
				out = append(out, t)
				orig = append(orig, ln)
			}
			src := strings.Join(out, "\n") + "\n"
			d1, ok := lintDecl(oc, src)
			if !ok {
				return
			}
			want := map[string]int{}
			covered := 0
			for _, d := range d0 {
				named := rules == nil
				for _, x := range rules {
					if x == d.rule && x != "" {
						named = true
					}
				}
				if d.line == L && named {
					covered++
					continue
				}
				want[fmt.Sprintf("%d|%s|%s", d.line, d.rule, d.msg)]++
			}
			got := map[string]int{}
			for _, d := range d1 {
				ln := -1
				if d.line >= 1 && d.line < len(orig) {
					ln = orig[d.line]
				}
				got[fmt.Sprintf("%d|%s|%s", ln, d.rule, d.msg)]++
			}
			declKind := strings.SplitN(lines[L-1], " ", 2)[0]
			for k, n := range want {
				if got[k] < n {
					oc.Violate("decls/leak/"+form+"/"+declKind, fmt.Sprintf("a %s directive (%s) on the declaration at line %d removed a diagnostic it does not cover: %s", form, kind, L, k), map[string]any{"vcl": src, "plain": plain})
					return
				}
			}
			for k, n := range got {
				if want[k] < n {
					rule := strings.SplitN(k, "|", 3)[1]
					what := "under"
					if !strings.HasPrefix(k, fmt.Sprintf("%d|", L)) {
						what = "new"
					}
					oc.Violate("decls/"+what+"/"+form+"/"+declKind+"/"+rule, fmt.Sprintf("a %s directive (%s) on the declaration at line %d: diagnostic still or newly reported: %s", form, kind, L, k), map[string]any{"vcl": src, "plain": plain})
					return
				}
			}
			oc.Tag("decls:" + form + "/" + kind)
			if covered > 0 && len(want) > 0 {
				oc.NonTrivialS(src)
				oc.Tag("decls:covered-rule:" + ds[0].rule)
			}
		}
	}
}

// lintSnippetFile lints a statement-only file (ParseVCLOrSnippet sets IsSnippet) the way falco lint does.
func lintSnippetFile(src string) *lintutil.Result {
	r := &lintutil.Result{}
	v, err := parser.New(lexer.NewFromString(src, lexer.WithFile("main.vcl"))).ParseVCLOrSnippet()
	if err != nil {
		r.ParseErr = err
		return r
	}
	l := linter.New(&config.LinterConfig{})
	l.Lint(v, lcontext.New(lcontext.WithResolver(&lintutil.MapResolver{Main: src, Budget: 10})))
	if l.FatalError != nil {
		r.Fatal = fmt.Sprint(l.FatalError.Error)
	}
	for _, e := range l.Errors {
		r.Diags = append(r.Diags, lintutil.Diag{Rule: string(e.Rule), Severity: string(e.Severity), File: e.Token.File, Line: e.Token.Line, Pos: e.Token.Position, Msg: e.Message})
	}
	return r
}
