// C12 — ignore comments suppress exactly what they cover.
//
// Runtime monitoring: every verdict comes from running falco's linter on a program and on the same
// program with ignore comments inserted, and comparing the two diagnostic multisets with a
// conservation oracle (expected = plain diagnostics minus the ones located in the covered
// statements and, when a rule list is given, named in it).
package main

import (
	"encoding/json"
	"fmt"
	"math/rand"
	"os"
	"sort"
	"strings"
	"time"

	"verif/harness/fw"
)

type ccase struct {
	Seed   int64  `json:"seed,omitempty"`
	Fixed  int    `json:"fixed,omitempty"`
	Part   string `json:"part,omitempty"`
	NKinds int    `json:"nkinds,omitempty"`
	Per    int    `json:"per,omitempty"`
}

func main() {
	fw.Main(&fw.Prop{
		ID:    "C12",
		Level: "exploration",
		Rule: "programs: line-based builder (one statement per line; if / else if / else and switch-case nests two levels deep; vcl_recv, vcl_deliver, a user subroutine called from vcl_recv, optionally a module included at top level and/or inside a subroutine body or nested block, optionally an unused table) with injected lint errors from a calibrated catalogue (24 entries, 20 rule names + rule-less diagnostics, three severities, six entries with two diagnostics on one line); every random program has >=4 intended diagnostics of >=3 rules at depth 0, 1 and 2, in a later statement, in a later subroutine; the plain program's diagnostics must equal the intended ones or the program is discarded (inconclusive). " +
			"directives: every statement position (top-level declarations included) x {next-line, trailing (simple statements), range p..q in the same block} x markers {#, //, /* */} x rule lists {none, one rule occurring in S, one rule not occurring in S, two rules, unknown rule, list with spaces}; exhaustive on two fixed programs, position x form exhaustive with rotated markers and sampled rule lists on random programs; layouts (CRLF, blank line, tab indentation, directive first / last of several leading comments, no space before a trailing comment); pairs (directive inside a block covered by an outer directive, two ranges in sequence, stacked next-line directives, next-line + own trailing, range end naming the same / a subset of the start's rules). " +
			"oracle: D1 (mapped back to original lines) == D0 minus {d in S and (no list or rule(d) in list)}; S = the statement with its nested blocks (an include statement: the included module); leak / under / new; violations are re-run with the // marker, without the rule list and in the plain layout to name the feature the violation needs. " +
			"non-trivial = (program, directive) where S contains >=1 diagnostic and >=1 diagnostic lies outside S; distinct by decorated source text",
		Assumptions: []string{
			"diagnostics are compared as multisets of (file, original line, rule, severity, message with digits masked, first line)",
			"a diagnostic without a rule name cannot be named in a rule list: it is expected to disappear under a bare directive (observed in calibration: it does) and to stay under any rule list",
			"an include statement is replaced by the included statements: a directive covering the include statement is taken to cover the included module (keys with relation included-file)",
			"range semantics follow docs/linter.md: `end` without rules re-enables everything, `end` with rules re-enables those rules; the `ranges` family generates properly nested and consecutive start/end pairs (bare and listed, up to four open at once, inside if blocks) and judges them by the stack of open pairs, except where that reading and the documentation's flat wording disagree (after an inner bare end; for a rule named by both an inner and an enclosing listed pair), which is tagged and not judged",
			"a blank line between a directive comment and its statement, or inside a range next to its comments, does not detach the comment: it stays a leading comment of the statement (expectation; docs/linter.md does not mention it, falco behaves so)",
			"only balanced ranges inside one block are generated",
		},
		Gen:           genCases,
		Run:           run,
		Timeout:       300 * time.Second,
		MinNonTrivial: 2000,
		Finish:        finish,
	})
}

func genCases(g *fw.GenCtx) {
	g.Emit("catalogue", ccase{})
	for i := range fixedPrograms() {
		for _, part := range []string{"singles-a", "singles-b", "singles-c", "singles-d", "layouts", "pairs"} {
			g.Emit("fixed", ccase{Fixed: i, Part: part})
		}
	}
	for k, nr := 0, g.Pick(40, 400); k < nr; k++ {
		g.Emit("ranges", rcase{Seed: g.Rand.Int63(), N: g.Pick(100, 500)})
	}
	for k, nr := 0, g.Pick(20, 200); k < nr; k++ {
		g.Emit("decls", rcase{Seed: g.Rand.Int63(), N: g.Pick(10, 40)})
	}
	n := g.Pick(150, 5000)
	if os.Getenv("C12_ONLY") == "fixed" {
		n = 0 // debugging aid: only the exhaustive fixed programs
	}
	for k := 0; k < n; k++ {
		g.Emit("prog", ccase{Seed: g.Rand.Int63(), NKinds: 2, Per: 2})
	}
}

func newWorld(p *program, oc *fw.Outcome, r *rand.Rand) *world {
	return &world{p: p, oc: oc, r: r, cache: map[string]*result{}, reported: map[string]bool{}}
}

// baseline lints the plain program and checks that its diagnostics are the intended ones.
func (w *world) baseline(count bool) bool {
	texts := map[string]string{}
	for _, f := range w.p.Order {
		texts[f] = w.p.text(f)
	}
	d0, perr, ok := w.lintTexts(texts, nil)
	if !ok {
		return false
	}
	if perr != "" {
		w.oc.Inconc = append(w.oc.Inconc, "builder: the plain program does not parse: "+perr+"\n"+texts["main.vcl"])
		return false
	}
	w.d0 = d0
	// every diagnostic must sit on a line on which the builder injected an error (the rule names are
	// taken from the run: a module included inside a subroutine resets the linter's scope for the
	// statements that follow it - not a matter of this property - so they can differ from the catalogue's)
	var got, want []string
	wantLine := map[lineRef]bool{}
	for _, in := range w.p.Intended {
		want = append(want, fmt.Sprintf("%s:%d:%s", in.At.File, in.At.Line, in.Rule))
		wantLine[in.At] = true
	}
	stray := ""
	for _, d := range d0 {
		got = append(got, fmt.Sprintf("%s:%d:%s", d.At.File, d.At.Line, d.Rule))
		if !wantLine[d.At] {
			stray = d.String()
		}
	}
	sort.Strings(got)
	sort.Strings(want)
	if stray != "" {
		w.oc.Tag("builder:plain-diagnostic-on-unintended-line")
		w.oc.Inconc = append(w.oc.Inconc, "builder: the plain program has a diagnostic on a line without an injected error: "+stray+"\n"+texts["main.vcl"])
		return false
	}
	exact := strings.Join(got, "\n") == strings.Join(want, "\n")
	if !count {
		// calibration of one catalogue entry: the diagnostics must be exactly the listed ones
		if !exact {
			w.oc.Inconc = append(w.oc.Inconc, "catalogue: entry does not produce the listed diagnostics\n got: "+strings.Join(got, " ")+"\nwant: "+strings.Join(want, " ")+"\n"+texts["main.vcl"])
		}
		return exact
	}
	if exact {
		w.oc.Tag("programs:plain-diagnostics-exactly-as-intended")
	} else {
		w.oc.Tag("programs:plain-diagnostics-differ-in-rule-from-catalogue(after-in-sub-include)")
	}
	w.oc.Tag("programs")
	w.oc.TagN("program-diagnostics", int64(len(d0)))
	w.oc.TagN("statement-positions", int64(len(w.p.Nodes)))
	for _, n := range w.p.Nodes {
		if len(n.Rules) > 0 && n.Blk.Kind != "file" {
			w.oc.Tag(fmt.Sprintf("diag-at-depth:%d", n.Depth))
		}
	}
	if len(w.p.Order) > 1 {
		w.oc.Tag("programs-with-included-module")
	}
	for _, d := range d0 {
		w.oc.Tag("rule:" + d.Rule + "/" + d.Sev)
	}
	return true
}

func run(c fw.Case) fw.Outcome {
	var oc fw.Outcome
	var cc ccase
	json.Unmarshal(c.Data, &cc)
	switch c.Kind {
	case "catalogue":
		calibrate(&oc)
	case "fixed":
		p := fixedPrograms()[cc.Fixed]
		w := newWorld(p, &oc, rand.New(rand.NewSource(int64(cc.Fixed)+1)))
		if !w.baseline(true) {
			break
		}
		switch {
		case strings.HasPrefix(cc.Part, "singles-"):
			// the statement positions are split over four cases
			k := int(cc.Part[len(cc.Part)-1] - 'a')
			all := w.p.Nodes
			var mine []*node
			for i, n := range all {
				if i%4 == k {
					mine = append(mine, n)
				}
			}
			w.p.Nodes = mine
			w.singles(true, 0)
			w.p.Nodes = all
		case cc.Part == "layouts":
			w.layouts(true, 0)
		case cc.Part == "pairs":
			w.pairs(true, 0)
		}
	case "decls":
		var rc rcase
		json.Unmarshal(c.Data, &rc)
		runDecls(&oc, rc)
	case "ranges":
		var rc rcase
		json.Unmarshal(c.Data, &rc)
		runRanges(&oc, rc)
	case "prog":
		r := rand.New(rand.NewSource(cc.Seed))
		p := randomProgram(r)
		w := newWorld(p, &oc, r)
		if !w.baseline(true) {
			break
		}
		w.singles(false, cc.NKinds)
		w.layouts(false, 1)
		w.pairs(false, cc.Per)
	}
	return oc
}

// calibrate lints every catalogue entry alone in every context it is allowed in and checks that it
// produces exactly the listed diagnostics on its own line; it also records what a bare directive
// does to a diagnostic without a rule name.
func calibrate(oc *fw.Outcome) {
	for _, e := range catalogue {
		for _, ctx := range []string{"recv", "deliver", "user"} {
			if !ctxAllows(e.Ctx, ctx) {
				continue
			}
			for _, nested := range []bool{false, true} {
				g := &pgen{}
				var st *node
				if e.IfHead {
					st = &node{Kind: "if", Text: "if (" + e.Text + ") {", Ent: e, Arms: []*arm{{Body: blk("if", ctx, 1, clean(0))}}}
				} else {
					st = &node{Kind: "simple", Text: g.instantiate(e), Ent: e}
				}
				body := blk("sub", ctx, 0, clean(1), st, clean(2))
				if nested {
					body = blk("sub", ctx, 0, clean(1), &node{Kind: "if", Text: "if (req.http.C) {", Arms: []*arm{{Body: blk("if", ctx, 1, st)}}}, clean(2))
				}
				var top *block
				switch ctx {
				case "recv":
					top = blk("file", "", 0, subDecl("vcl_recv", "RECV", body))
				case "deliver":
					top = blk("file", "", 0, subDecl("vcl_deliver", "DELIVER", body))
				default:
					top = blk("file", "", 0, subDecl("helper", "", body), subDecl("vcl_recv", "RECV", blk("sub", "recv", 0, &node{Kind: "simple", Text: "call helper;"})))
				}
				w := newWorld(render(top), oc, rand.New(rand.NewSource(1)))
				if w.baseline(false) {
					oc.Tag("catalogue:calibrated")
					for i, d := range w.d0 {
						_ = i
						found := false
						for j, r := range e.Rules {
							if r == d.Rule && e.Sevs[j] == d.Sev {
								found = true
							}
						}
						if !found {
							oc.Inconc = append(oc.Inconc, fmt.Sprintf("catalogue entry %s: unexpected severity in %v", e.ID, d))
						}
					}
					if e.ID == "S15" && !nested {
						pl := w.single(dirSpec{Form: "next-line", P: st, Marker: "slash", RKind: "all"})
						if len(w.check(pl)) == 0 {
							oc.Tag("obs:rule-less-diagnostic:bare-directive-suppresses-it")
						} else {
							oc.Tag("obs:rule-less-diagnostic:bare-directive-does-not-suppress-it")
						}
					}
				}
			}
		}
	}
	// the unused table
	w := newWorld(render(blk("file", "", 0, rawTable("tabu"), subDecl("vcl_recv", "RECV", blk("sub", "recv", 0, clean(0))))), oc, rand.New(rand.NewSource(1)))
	if w.baseline(false) {
		oc.Tag("catalogue:calibrated")
	}
}

// finish moves the form x marker x rule-list kind x relation matrix out of the (capped) tag table.
func finish(r *fw.Report) {
	matrix := map[string]int64{}
	for k, n := range r.Tags {
		if strings.HasPrefix(k, "m:") {
			matrix[k[2:]] = n
			delete(r.Tags, k)
		}
	}
	r.Extra["matrix_form_marker_rules_relation(diagnostics of the plain program by their relation to the directive)"] = matrix
	r.Extra["matrix_cells"] = len(matrix)
}
