// C04 — the lint command's verdict is consistent.
//
// Inputs whose verdict is known by construction (a lint-clean skeleton plus injected constructs
// from an empirically established catalogue of (snippet, rule, default severity), optional syntax
// errors, ignore comments, rule overrides in .falco.yml, statement-only snippet files) are linted
// by the REAL `falco lint` binary in all six combinations of {plain, -json} x {default, -v, -vv},
// each in a private directory. Verdicts come only from the exit status and the output of those
// runs. The in-process linter is used solely to cross-check the construction: a disagreement
// between construction and library makes the input inconclusive, never a violation.
package main

import (
	"bytes"
	"encoding/json"
	"fmt"
	"math/rand"
	"os"
	"os/exec"
	"path/filepath"
	"regexp"
	"sort"
	"strconv"
	"strings"
	"syscall"
	"time"

	"verif/harness/fw"
)

func main() {
	fw.Main(&fw.Prop{
		ID:    "C04",
		Level: "exploration",
		Rule: "inputs with a verdict known by construction: a lint-clean skeleton (vcl_recv/vcl_deliver with #FASTLY macros, backend, table, ACL, helper subroutine, optional included module resolved through -I or next to the main file) " +
			"plus k_E/k_W/k_I injected constructs from a catalogue of (snippet, rule, default severity) entries that each produce exactly one diagnostic (32 ERROR entries: 29 over 22 rules + 3 without rule name; 15 WARNING entries: 13 over 7 rules + 2 without rule name; " +
			"4 INFO entries: 3 over 2 rules + 1 without rule name; plus the rule snippet-scope-required of snippets without @scope), placed in the main file or the module, at top level of a subroutine or nested in if/else; syntax errors from 15 token-level breakers in the main file, the module or a snippet; " +
			"`// falco-ignore-next-line` comments (bare, naming the rule, naming another rule) covering all or some errors; .falco.yml rule overrides mapping injected ERROR rules down to WARNING/INFO/IGNORE (all or only some), injected WARNING/INFO rules up to ERROR, " +
			"unrelated rules and invalid levels; statement-only snippet files with and without @scope. Every (input, configuration) is linted by the real `falco lint` binary in a private directory in all 6 combinations {plain,-json} x {default,-v,-vv}. " +
			"Monitors: (i) exit status != 0 iff [syntax error or >=1 diagnostic of effective severity ERROR]; (ii) all six runs agree on exit status and on (errors, warnings, infos) parsed from the summary line and from the -json document; " +
			"(iii) those counts equal the constructed multiset after ignores and overrides; (iv) with -json stdout is exactly one JSON document, whose counts agree with the summary line on stderr and with its own LintErrors list. " +
			"Deterministic families: three included modules in all 8 arrangements of {fine, syntax error} plus a broken module below a fine one and a broken statement module inside a subroutine; rule overrides combined with `--generated` (in front of and behind the file name), `-I`, and a configuration file in a parent directory. " +
			"non-trivial = an input with >=1 constructed diagnostic or a syntax error; distinct by (file texts, configuration)",
		Assumptions: []string{
			"the construction is cross-checked against the in-process linter on the same sources (ParseVCLOrSnippet + linter.Lint with an in-memory resolver); a mismatch is inconclusive for that input and only the construction-independent monitors (ii) and (iv) are applied to it",
			"a syntax-error input has no defined error/warning/info counts: only exit status (and agreement of whatever counts are printed) is checked for it",
			"diagnostics without a rule name cannot be overridden from .falco.yml and keep their default severity in the oracle",
			"a CLI run exceeding 60 s is inconclusive",
		},
		Gen:           gen,
		Run:           run,
		Timeout:       900 * time.Second,
		MinNonTrivial: 30,
	})
}

// =============================================================================================
// generator

type batch struct {
	Inputs []Input `json:"inputs"`
}

type gctx struct {
	r     *rand.Rand
	n     int
	downs int
}

func (g *gctx) nextN() int { g.n++; return g.n }

type picked struct {
	in    *Input
	once  map[string]bool
	regex map[string]bool // file/scope already holding a regex-group entry
}

func newPicked(in *Input) *picked {
	return &picked{in: in, once: map[string]bool{}, regex: map[string]bool{}}
}

type filter struct {
	sev      string
	ruled    bool   // must have a rule name
	ignAt    bool   // must be suppressible by a next-line comment
	snippet  string // "" or the snippet scope name: must be usable in a snippet of that scope
	file     string
	notRules map[string]bool
}

func (g *gctx) candidates(f filter) []*entry {
	var out []*entry
	for i := range catalogue {
		e := &catalogue[i]
		if e.Sev != f.sev {
			continue
		}
		if f.ruled && e.Rule == "" {
			continue
		}
		if f.ignAt && e.IgnAt == "" {
			continue
		}
		if f.snippet != "" && (!e.Snippet || e.Decl != "" || (e.Scope != "any" && e.Scope != f.snippet)) {
			continue
		}
		if f.file != "main" && e.MainOnly {
			continue
		}
		if f.file == "stm" && (e.Decl != "" || e.Stmt == "" || e.Scope == "deliver") {
			continue
		}
		if f.notRules != nil && f.notRules[e.Rule] {
			continue
		}
		out = append(out, e)
	}
	return out
}

// inject picks k entries matching f and returns their injections (fewer if constraints forbid).
func (g *gctx) inject(pk *picked, k int, f filter, files []string, snippet bool) []Inj {
	var out []Inj
	for i := 0; i < k; i++ {
		for try := 0; try < 12; try++ {
			ff := f
			ff.file = files[g.r.Intn(len(files))]
			cands := g.candidates(ff)
			if len(cands) == 0 {
				break
			}
			e := cands[g.r.Intn(len(cands))]
			if e.Once && pk.once[e.ID] {
				continue
			}
			if e.TopInclude && pk.in.HasStm {
				// any top-level include statement combined with an include inside vcl_recv trips the
				// scope-UNKNOWN linter defect described in layout()
				continue
			}
			n := g.nextN()
			if e.Group == "regex" {
				key := ff.file + "/" + scopeOf(e, n)
				if ff.file == "stm" {
					key = "main/recv" // the statements module is inlined into vcl_recv of the main file
				}
				if snippet {
					key = "snippet"
				}
				if pk.regex[key] {
					continue
				}
				pk.regex[key] = true
			}
			pk.once[e.ID] = true
			ij := Inj{Entry: e.ID, N: n, File: ff.file}
			if e.Stmt != "" {
				ij.Nested = g.r.Intn(3)
			}
			ij.Bottom = g.r.Intn(2) == 0
			out = append(out, ij)
			break
		}
	}
	return out
}

func (g *gctx) layout(in *Input) []string {
	// decides whether the input has a module and where injections may go
	// never both modules at once: on this tree a top-level include combined with an include inside
	// vcl_recv makes the linter treat vcl_recv as scope UNKNOWN (spurious errors; a linter defect that
	// is not C04's subject and that the construction cannot predict)
	switch g.r.Intn(6) {
	case 0, 1, 2:
		in.HasMod = true
	case 3, 4:
		in.HasStm = true
	}
	in.ModDir = []string{"inc", "inc", "."}[g.r.Intn(3)]
	files := []string{"main"}
	if in.HasMod {
		files = append(files, "mod")
	}
	if in.HasStm {
		files = append(files, "stm")
	}
	return files
}

func spell(r *rand.Rand, sev string) string {
	switch r.Intn(4) {
	case 0:
		return strings.ToLower(sev)
	case 1:
		return sev[:1] + strings.ToLower(sev[1:])
	}
	return sev
}

var none = Cfg{Label: "none"}

func rulesOf(injs []Inj, sev string) []string {
	seen := map[string]bool{}
	var out []string
	for _, ij := range injs {
		e := catIndex[ij.Entry]
		if e.Sev == sev && e.Rule != "" && !seen[e.Rule] {
			seen[e.Rule] = true
			out = append(out, e.Rule)
		}
	}
	sort.Strings(out)
	return out
}

func (g *gctx) downCfg(rules []string, target string) Cfg {
	c := Cfg{Label: "down:" + strings.ToLower(target), Class: "override-down:" + strings.ToLower(target)}
	tg := []string{"WARNING", "INFO", "IGNORE"}
	for _, r := range rules {
		t := target
		if target == "MIXED" {
			t = tg[g.r.Intn(3)]
		}
		c.Rules = append(c.Rules, [2]string{r, spell(g.r, t)})
	}
	return c
}

func (g *gctx) makeInput(class string, thorough bool) *Input {
	r := g.r
	in := &Input{Class: class, Cfgs: []Cfg{none}}
	pk := newPicked(in)
	any := func(files []string, kE, kW, kI int) {
		in.Injs = append(in.Injs, g.inject(pk, kE, filter{sev: sevE}, files, false)...)
		in.Injs = append(in.Injs, g.inject(pk, kW, filter{sev: sevW}, files, false)...)
		in.Injs = append(in.Injs, g.inject(pk, kI, filter{sev: sevI}, files, false)...)
	}
	switch class {
	case "clean":
		g.layout(in)
	case "warn-only":
		any(g.layout(in), 0, 1+r.Intn(3), 0)
	case "info-only":
		any(g.layout(in), 0, 0, 1+r.Intn(3))
	case "warn-info":
		any(g.layout(in), 0, 1+r.Intn(2), 1+r.Intn(2))
	case "error":
		any(g.layout(in), 1+r.Intn(3), 0, 0)
	case "mixed":
		w, i := r.Intn(3), r.Intn(3)
		if w+i == 0 {
			w = 1
		}
		any(g.layout(in), 1+r.Intn(3), w, i)
	case "error-in-include":
		in.ModDir = []string{"inc", "."}[r.Intn(2)]
		var files []string
		if r.Intn(3) != 0 {
			in.HasMod, files = true, []string{"mod"}
		} else {
			in.HasStm, files = true, []string{"stm"}
		}
		any(files, 1+r.Intn(2), r.Intn(2), r.Intn(2))
	case "syntax-main", "syntax-include":
		files := g.layout(in)
		file := "main"
		if class == "syntax-include" {
			if r.Intn(3) == 0 {
				in.HasStm, in.HasMod, file = true, false, "stm"
			} else {
				in.HasMod, in.HasStm, file = true, false, "mod"
			}
			files = []string{"main", file}
		}
		any(files, r.Intn(2), r.Intn(2), r.Intn(2))
		b := breakers[r.Intn(len(breakers))]
		for file == "stm" && b.Top {
			b = breakers[r.Intn(len(breakers))]
		}
		in.Syntax = &Syn{File: file, Breaker: b.ID, Scope: []string{"recv", "deliver"}[r.Intn(2)]}
	case "override-down":
		files := g.layout(in)
		in.Injs = g.inject(pk, 1+r.Intn(3), filter{sev: sevE, ruled: true}, files, false)
		errRules := map[string]bool{}
		for _, x := range rulesOf(in.Injs, sevE) {
			errRules[x] = true
		}
		// warnings/infos of other rules, so that the override does not touch them unexpectedly
		in.Injs = append(in.Injs, g.inject(pk, r.Intn(2), filter{sev: sevW, notRules: errRules}, files, false)...)
		in.Injs = append(in.Injs, g.inject(pk, r.Intn(2), filter{sev: sevI, notRules: errRules}, files, false)...)
		rules := rulesOf(in.Injs, sevE)
		targets := []string{"WARNING", "INFO", "IGNORE", "MIXED"}
		if thorough {
			for _, t := range targets {
				in.Cfgs = append(in.Cfgs, g.downCfg(rules, t))
			}
		} else {
			// rotate so that even a small quick run maps down to every level
			in.Cfgs = append(in.Cfgs, g.downCfg(rules, targets[g.downs%4]))
			g.downs++
		}
	case "override-partial":
		files := g.layout(in)
		// at least two error diagnostics of different rules (or one without a rule name): only some are mapped down
		in.Injs = g.inject(pk, 1, filter{sev: sevE, ruled: true}, files, false)
		first := rulesOf(in.Injs, sevE)
		not := map[string]bool{}
		for _, x := range first {
			not[x] = true
		}
		in.Injs = append(in.Injs, g.inject(pk, 1+r.Intn(2), filter{sev: sevE, notRules: not}, files, false)...)
		in.Injs = append(in.Injs, g.inject(pk, r.Intn(2), filter{sev: sevW, notRules: not}, files, false)...)
		c := g.downCfg(first, []string{"WARNING", "INFO", "IGNORE"}[r.Intn(3)])
		c.Label, c.Class = "partial:"+strings.TrimPrefix(c.Label, "down:"), "override-partial"
		in.Cfgs = append(in.Cfgs, c)
	case "override-up":
		files := g.layout(in)
		sev := []string{sevW, sevI}[r.Intn(2)]
		in.Injs = g.inject(pk, 1+r.Intn(2), filter{sev: sev, ruled: true}, files, false)
		up := rulesOf(in.Injs, sev)
		not := map[string]bool{}
		for _, x := range up {
			not[x] = true
		}
		other := sevI
		if sev == sevI {
			other = sevW
		}
		in.Injs = append(in.Injs, g.inject(pk, r.Intn(2), filter{sev: other, notRules: not}, files, false)...)
		if len(up) > 0 {
			c := Cfg{Label: "up:" + strings.ToLower(sev), Class: "override-up:" + strings.ToLower(sev)}
			c.Rules = append(c.Rules, [2]string{up[r.Intn(len(up))], spell(r, "ERROR")})
			in.Cfgs = append(in.Cfgs, c)
		}
	case "override-irrelevant":
		files := g.layout(in)
		any(files, r.Intn(2), r.Intn(3), r.Intn(2))
		c := Cfg{Label: "irrelevant", Class: "override-irrelevant"}
		for _, x := range r.Perm(len(unrelatedRules))[:2] {
			c.Rules = append(c.Rules, [2]string{unrelatedRules[x], spell(r, []string{"ERROR", "IGNORE", "WARNING"}[r.Intn(3)])})
		}
		in.Cfgs = append(in.Cfgs, c)
		// an invalid level for an injected rule is skipped by falco: the default severity stays
		var ruled []string
		for _, s := range []string{sevE, sevW, sevI} {
			ruled = append(ruled, rulesOf(in.Injs, s)...)
		}
		if len(ruled) > 0 {
			in.Cfgs = append(in.Cfgs, Cfg{Label: "invalid-level", Class: "override-invalid", Rules: [][2]string{{ruled[r.Intn(len(ruled))], []string{"FATAL", "off", "2"}[r.Intn(3)]}}})
		}
	case "ignored-all", "ignored-some":
		files := g.layout(in)
		in.Injs = g.inject(pk, 1+r.Intn(3), filter{sev: sevE, ignAt: true}, files, false)
		for i := range in.Injs {
			e := catIndex[in.Injs[i].Entry]
			in.Injs[i].Ign = "bare"
			if e.Rule != "" && r.Intn(2) == 0 {
				in.Injs[i].Ign = "rule"
			}
		}
		if class == "ignored-some" {
			// one more error that is not covered (no comment, or a comment naming another rule)
			extra := g.inject(pk, 1+r.Intn(2), filter{sev: sevE}, files, false)
			for i := range extra {
				if catIndex[extra[i].Entry].IgnAt != "" && r.Intn(2) == 0 {
					extra[i].Ign = "other"
				}
			}
			in.Injs = append(in.Injs, extra...)
		}
		in.Injs = append(in.Injs, g.inject(pk, r.Intn(2), filter{sev: sevW}, files, false)...)
		in.Injs = append(in.Injs, g.inject(pk, r.Intn(2), filter{sev: sevI}, files, false)...)
	case "snippet+scope", "snippet-noscope", "syntax-snippet", "snippet-noscope+override-down":
		in.Snippet = "scope"
		if strings.HasPrefix(class, "snippet-noscope") {
			in.Snippet = "noscope"
		}
		in.ScopeName = []string{"recv", "recv", "deliver"}[r.Intn(3)]
		in.ScopeStyle = r.Intn(len(scopeStyles))
		f := filter{snippet: in.ScopeName}
		for _, s := range []string{sevE, sevW, sevI} {
			f.sev = s
			k := r.Intn(2)
			if class == "snippet+scope" && s == sevE {
				k = r.Intn(3)
			}
			injs := g.inject(pk, k, f, []string{"main"}, true)
			for i := range injs {
				injs[i].Bottom = false
			}
			in.Injs = append(in.Injs, injs...)
		}
		if class == "syntax-snippet" {
			var st []breaker
			for _, b := range breakers {
				if !b.Top {
					st = append(st, b)
				}
			}
			in.Syntax = &Syn{File: "main", Breaker: st[r.Intn(len(st))].ID}
		}
		if class == "snippet-noscope+override-down" {
			t := []string{"WARNING", "INFO", "IGNORE"}[r.Intn(3)]
			in.Cfgs = append(in.Cfgs, Cfg{Label: "down:" + strings.ToLower(t), Class: "snippet-noscope+override-down", Rules: [][2]string{{"snippet-scope-required", spell(r, t)}}})
		}
	default:
		panic("unknown class " + class)
	}
	// an entry with an invalid level (for an unrelated rule) next to overrides that matter: falco skips
	// that entry only, the other overrides still apply
	for i := range in.Cfgs {
		if strings.HasPrefix(in.Cfgs[i].Class, "override-") && in.Cfgs[i].Class != "override-invalid" && len(in.Cfgs[i].Rules) > 0 && r.Intn(3) == 0 {
			bad := [2]string{unrelatedRules[r.Intn(len(unrelatedRules))], []string{"FATAL", "off", "2"}[r.Intn(3)]}
			at := r.Intn(len(in.Cfgs[i].Rules) + 1)
			rules := append([][2]string{}, in.Cfgs[i].Rules[:at]...)
			rules = append(rules, bad)
			in.Cfgs[i].Rules = append(rules, in.Cfgs[i].Rules[at:]...)
			in.Cfgs[i].Label += "+invalid-entry"
		}
	}
	return in
}

// classPlan is the repeating schedule of input classes (one period = 24 inputs).
var classPlan = []string{
	"error", "warn-only", "override-down", "syntax-main", "mixed", "info-only", "override-up", "syntax-include",
	"ignored-all", "snippet+scope", "error-in-include", "override-partial", "ignored-some", "snippet-noscope", "warn-info", "override-irrelevant",
	"override-down", "syntax-snippet", "mixed", "override-up", "snippet+scope", "clean", "snippet-noscope+override-down", "error",
}

func gen(g *fw.GenCtx) {
	genExtra(g)
	gc := &gctx{r: g.Rand}
	thorough := !g.Quick()
	per := g.Pick(4, 8)

	// 1. catalogue sweep: every entry alone, so that each rule is exercised (and re-validated against
	// the library) in every run; in the thorough tier in every placement
	var sweep []Input
	for i := range catalogue {
		e := &catalogue[i]
		class := map[string]string{sevE: "error", sevW: "warn-only", sevI: "info-only"}[e.Sev]
		type place struct {
			file    string
			nested  int
			snippet bool
			ign     string
		}
		var places []place
		places = append(places, place{file: "main"})
		if e.Stmt != "" {
			places = append(places, place{file: "main", nested: 1}, place{file: "main", nested: 2})
		}
		if !e.MainOnly {
			places = append(places, place{file: "mod"})
			if e.Stmt != "" {
				places = append(places, place{file: "mod", nested: 1 + i%2})
			}
		}
		if e.Decl == "" && e.Stmt != "" && e.Scope != "deliver" && !e.MainOnly {
			places = append(places, place{file: "stm", nested: i % 3})
		}
		if e.Snippet && e.Decl == "" {
			places = append(places, place{file: "main", snippet: true})
		}
		if e.IgnAt != "" {
			places = append(places, place{file: "main", ign: "bare", nested: i % 3})
			if e.Rule != "" {
				places = append(places, place{file: []string{"main", "mod"}[b2i(!e.MainOnly)], ign: "rule"}, place{file: "main", ign: "other"})
			}
		}
		if !thorough {
			// one placement per entry, rotating with the seed
			places = []place{places[(i+int(g.Seed))%len(places)]}
		}
		for _, p := range places {
			in := Input{Class: class, Cfgs: []Cfg{none}}
			ij := Inj{Entry: e.ID, N: gc.nextN(), File: p.file, Nested: p.nested, Ign: p.ign, Bottom: i%2 == 0}
			if e.Stmt == "" {
				ij.Nested = 0
			}
			if p.file == "stm" {
				in.HasStm, in.ModDir = true, []string{"inc", "."}[i%2]
				in.Class = "error-in-include"
				if e.Sev != sevE {
					in.Class = class
				}
			}
			if p.file == "mod" {
				in.HasMod, in.ModDir = true, []string{"inc", "."}[i%2]
				in.Class = "error-in-include"
				if e.Sev != sevE {
					in.Class = class
				}
			}
			if p.snippet {
				in.Snippet, in.ScopeName, in.ScopeStyle = "scope", e.Scope, i
				if e.Scope == "any" {
					in.ScopeName = []string{"recv", "deliver"}[i%2]
				}
				in.Class = "snippet+scope"
			}
			switch p.ign {
			case "bare", "rule":
				in.Class = "ignored-all"
			case "other":
				in.Class = "ignored-some"
				if e.Sev != sevE {
					in.Class = class
				}
			}
			if (p.ign == "bare" || p.ign == "rule") && e.Sev != sevE {
				in.Class = "clean" // the only diagnostic is suppressed
			}
			in.Injs = []Inj{ij}
			sweep = append(sweep, in)
		}
	}
	for i := 0; i < len(sweep); i += per {
		g.Emit("sweep", batch{Inputs: sweep[i:min(i+per, len(sweep))]})
	}

	// 2. every syntax breaker once in the main file and once in the module (thorough: + snippet)
	var syn []Input
	for i, b := range breakers {
		sc := []string{"recv", "deliver"}[i%2]
		syn = append(syn, Input{Class: "syntax-main", Cfgs: []Cfg{none}, HasMod: i%2 == 0, ModDir: "inc", Syntax: &Syn{File: "main", Breaker: b.ID, Scope: sc}})
		if thorough || (i+int(g.Seed))%2 == 0 {
			syn = append(syn, Input{Class: "syntax-include", Cfgs: []Cfg{none}, HasMod: true, ModDir: []string{"inc", "."}[i%2], Syntax: &Syn{File: "mod", Breaker: b.ID, Scope: sc}})
		}
		if !b.Top && (thorough || (i+int(g.Seed))%2 == 1) {
			syn = append(syn, Input{Class: "syntax-include", Cfgs: []Cfg{none}, HasStm: true, ModDir: []string{"inc", "."}[i%2], Syntax: &Syn{File: "stm", Breaker: b.ID}})
		}
		if !b.Top && (thorough || (i+int(g.Seed))%3 == 0) {
			syn = append(syn, Input{Class: "syntax-snippet", Cfgs: []Cfg{none}, Snippet: "scope", ScopeName: "recv", ScopeStyle: i, Syntax: &Syn{File: "main", Breaker: b.ID}})
		}
	}
	for i := 0; i < len(syn); i += per {
		g.Emit("syntax", batch{Inputs: syn[i:min(i+per, len(syn))]})
	}

	// 3. random inputs over the class plan
	n := g.Pick(144, 1320)
	var cur []Input
	for i := 0; i < n; i++ {
		in := gc.makeInput(classPlan[i%len(classPlan)], thorough)
		cur = append(cur, *in)
		if len(cur) == per {
			g.Emit("random", batch{Inputs: cur})
			cur = nil
		}
	}
	if len(cur) > 0 {
		g.Emit("random", batch{Inputs: cur})
	}
}

func b2i(b bool) int {
	if b {
		return 1
	}
	return 0
}

// =============================================================================================
// CLI driver

type flagSet struct {
	Name string
	Args []string
	JSON bool
}

var flagSets = []flagSet{
	{"plain", nil, false},
	{"plain-v", []string{"-v"}, false},
	{"plain-vv", []string{"-vv"}, false},
	{"json", []string{"-json"}, true},
	{"json-v", []string{"-json", "-v"}, true},
	{"json-vv", []string{"-json", "-vv"}, true},
}

type runResult struct {
	exit     int
	signal   string
	stdout   []byte
	stderr   []byte
	timedOut bool
	startErr string
}

func runCLI(dir string, args []string, timeout time.Duration) runResult {
	return runCLIStdin(dir, args, nil, timeout)
}

func runCLIStdin(dir string, args []string, stdin []byte, timeout time.Duration) runResult {
	cmd := exec.Command(fw.FalcoBin(), args...)
	cmd.Dir = dir
	if stdin != nil {
		cmd.Stdin = bytes.NewReader(stdin)
	}
	cmd.Env = []string{"HOME=" + dir, "PATH=/usr/bin:/bin", "TERM=xterm", "NO_COLOR=1"}
	var so, se bytes.Buffer
	cmd.Stdout, cmd.Stderr = &so, &se
	cmd.SysProcAttr = &syscall.SysProcAttr{Setpgid: true}
	var rr runResult
	if err := cmd.Start(); err != nil {
		rr.exit, rr.startErr = -1, err.Error()
		return rr
	}
	done := make(chan error, 1)
	go func() { done <- cmd.Wait() }()
	select {
	case <-done:
	case <-time.After(timeout):
		syscall.Kill(-cmd.Process.Pid, syscall.SIGKILL)
		<-done
		rr.timedOut = true
	}
	rr.stdout, rr.stderr = so.Bytes(), se.Bytes()
	if ws, ok := cmd.ProcessState.Sys().(syscall.WaitStatus); ok {
		if ws.Signaled() {
			rr.signal = ws.Signal().String()
			rr.exit = 128 + int(ws.Signal())
		} else {
			rr.exit = ws.ExitStatus()
		}
	}
	return rr
}

// observation of one run
type obs struct {
	flags    string
	rr       runResult
	failed   bool   // exit status != 0
	has      bool   // counts available
	c        counts // the counts this mode reports (json: the document; plain: the summary line)
	sumHas   bool   // summary line found on stderr
	sum      counts // counts of the summary line
	jsonOK   bool   // stdout is exactly one JSON document
	jsonErr  string
	parseErr int // number of entries in ParseErrors (json)
	lintErrs int // number of entries in LintErrors (json)
}

var summaryRe = regexp.MustCompile(`(\d+) errors, [^0-9\n]*(\d+) warnings, [^0-9\n]*(\d+) recommendations\.`)

func parseSummary(stderr []byte) (counts, bool) {
	ms := summaryRe.FindAllSubmatch(stderr, -1)
	if len(ms) == 0 {
		return counts{}, false
	}
	m := ms[len(ms)-1]
	e, _ := strconv.Atoi(string(m[1]))
	w, _ := strconv.Atoi(string(m[2]))
	i, _ := strconv.Atoi(string(m[3]))
	return counts{e, w, i}, true
}

type jsonDoc struct {
	Infos       *int                         `json:"Infos"`
	Warnings    *int                         `json:"Warnings"`
	Errors      *int                         `json:"Errors"`
	LintErrors  map[string][]json.RawMessage `json:"LintErrors"`
	ParseErrors map[string]json.RawMessage   `json:"ParseErrors"`
}

func parseJSON(stdout []byte) (doc jsonDoc, ok bool, why string) {
	if len(bytes.TrimSpace(stdout)) == 0 {
		return doc, false, "stdout is empty"
	}
	dec := json.NewDecoder(bytes.NewReader(stdout))
	if err := dec.Decode(&doc); err != nil {
		return doc, false, "stdout does not start with a JSON document: " + err.Error()
	}
	// everything after the end of the first document must be white space
	tail := stdout[dec.InputOffset():]
	if len(bytes.TrimSpace(tail)) != 0 {
		return doc, false, fmt.Sprintf("%d bytes follow the JSON document on stdout: %q", len(bytes.TrimSpace(tail)), clip(string(bytes.TrimSpace(tail)), 120))
	}
	if doc.Errors == nil || doc.Warnings == nil || doc.Infos == nil {
		return doc, false, "the JSON document lacks Errors/Warnings/Infos"
	}
	return doc, true, ""
}

func observe(fs flagSet, rr runResult) obs {
	o := obs{flags: fs.Name, rr: rr, failed: rr.exit != 0}
	o.sum, o.sumHas = parseSummary(rr.stderr)
	if fs.JSON {
		doc, ok, why := parseJSON(rr.stdout)
		o.jsonOK, o.jsonErr = ok, why
		if ok {
			o.has = true
			o.c = counts{*doc.Errors, *doc.Warnings, *doc.Infos}
			o.parseErr = len(doc.ParseErrors)
			for _, l := range doc.LintErrors {
				o.lintErrs += len(l)
			}
		}
	} else {
		o.has, o.c = o.sumHas, o.sum
	}
	return o
}

// =============================================================================================
// worker

func run(c fw.Case) fw.Outcome {
	var oc fw.Outcome
	if c.Kind == "extra" {
		var xc xcase
		json.Unmarshal(c.Data, &xc)
		if p := strayConfig(); p != "" {
			oc.Inconc = append(oc.Inconc, "a falco configuration file exists in a parent of the work directory: "+p)
			return oc
		}
		runExtra(&oc, xc)
		return oc
	}
	var bt batch
	if err := json.Unmarshal(c.Data, &bt); err != nil {
		oc.Inconc = append(oc.Inconc, "bad case: "+err.Error())
		return oc
	}
	if p := strayConfig(); p != "" {
		oc.Inconc = append(oc.Inconc, "a falco configuration file exists in a parent of the work directory: "+p)
		return oc
	}
	for i := range bt.Inputs {
		runInput(&oc, &bt.Inputs[i])
	}
	return oc
}

func workBase() string { return filepath.Join(fw.Verif, ".build", "tmp") }

// strayConfig looks for a .falco.yml/.falco.yaml in the parents of the work directories (falco
// searches upwards from the working directory).
func strayConfig() string {
	d := workBase()
	for {
		for _, f := range []string{".falco.yaml", ".falco.yml"} {
			if _, err := os.Stat(filepath.Join(d, f)); err == nil {
				return filepath.Join(d, f)
			}
		}
		if d == "/" {
			return ""
		}
		d = filepath.Dir(d)
	}
}

func runInput(oc *fw.Outcome, in *Input) {
	b, err := build(in)
	if err != nil {
		oc.Inconc = append(oc.Inconc, "generator: "+err.Error())
		return
	}
	fw.JournalS(b.Main)

	// cross-check of the construction against the library
	constructionOK := true
	lib := libLint(b.Main, b.Mod, b.Stm)
	switch {
	case lib.Panic != "":
		constructionOK = false
		oc.Inconc = append(oc.Inconc, fmt.Sprintf("library cross-check panicked on class %s: %s", in.Class, clip(lib.Panic, 200)))
	case lib.Syntax != b.Syntax:
		constructionOK = false
		oc.Inconc = append(oc.Inconc, fmt.Sprintf("construction/library mismatch (class %s, %s): constructed syntax error=%v, library=%v (%s)\n--- main.vcl\n%s\n--- mod.vcl\n%s\n--- stm.vcl\n%s", in.Class, describe(in), b.Syntax, lib.Syntax, lib.SyntaxMsg, b.Main, b.Mod, b.Stm))
	case !b.Syntax && strings.Join(multiset(lib.Diags), "; ") != strings.Join(multiset(b.Diags), "; "):
		constructionOK = false
		oc.Inconc = append(oc.Inconc, fmt.Sprintf("construction/library mismatch (class %s, %s): constructed [%s], library [%s] %v\n--- main.vcl\n%s\n--- mod.vcl\n%s\n--- stm.vcl\n%s", in.Class, describe(in),
			strings.Join(multiset(b.Diags), "; "), strings.Join(multiset(lib.Diags), "; "), lib.Msgs, b.Main, b.Mod, b.Stm))
	}
	if !constructionOK {
		oc.Tag("construction-mismatch:" + in.Class)
	}

	for _, ij := range in.Injs {
		e := catIndex[ij.Entry]
		rule := e.Rule
		if rule == "" {
			rule = "(no rule name)"
		}
		oc.Tag("injected:" + e.Sev + " " + rule)
		oc.Tag(fmt.Sprintf("placement:%s/nest%d", ij.File, ij.Nested))
		if ij.Ign != "" {
			oc.Tag("ignore-comment:" + ij.Ign)
		}
	}
	if in.Syntax != nil {
		oc.Tag("syntax:" + in.Syntax.File + "/" + in.Syntax.Breaker)
	}
	if in.Snippet != "" {
		oc.Tag("snippet:" + in.Snippet)
	}
	if in.HasMod {
		oc.Tag("module:declarations/dir=" + in.ModDir)
	}
	if in.HasStm {
		oc.Tag("module:statements-in-vcl_recv/dir=" + in.ModDir)
	}

	for _, cfg := range in.Cfgs {
		runVariant(oc, in, b, cfg, constructionOK)
	}
}

func describe(in *Input) string {
	var parts []string
	for _, ij := range in.Injs {
		s := fmt.Sprintf("%s@%s/nest%d", ij.Entry, ij.File, ij.Nested)
		if ij.Ign != "" {
			s += "/ign=" + ij.Ign
		}
		parts = append(parts, s)
	}
	if in.Syntax != nil {
		parts = append(parts, "syntax:"+in.Syntax.Breaker+"@"+in.Syntax.File)
	}
	if in.Snippet != "" {
		parts = append(parts, "snippet:"+in.Snippet+"/"+in.ScopeName)
	}
	return strings.Join(parts, " ")
}

func runVariant(oc *fw.Outcome, in *Input, b *Built, cfg Cfg, constructionOK bool) {
	exp := effective(b.Diags, cfg)
	expFail := b.Syntax || exp.E > 0

	// the class that names findings: the generator's class, the configuration's class for runs with
	// an override file, and for the run WITHOUT the override file of an override input simply what
	// the input then is (error, mixed, warn-only, …)
	class := in.Class
	if cfg.Class != "" {
		class = cfg.Class
	} else if strings.HasPrefix(in.Class, "override-") || in.Class == "snippet-noscope+override-down" {
		if in.Snippet == "noscope" {
			class = "snippet-noscope"
		} else {
			class = baseClass(exp, b.Syntax)
		}
	}

	dir, err := os.MkdirTemp(workBase(), "c04-")
	if err != nil {
		oc.Inconc = append(oc.Inconc, "mkdir: "+err.Error())
		return
	}
	defer os.RemoveAll(dir)
	files := map[string]string{"main.vcl": b.Main}
	var pre []string
	if in.HasMod || in.HasStm {
		sub := ""
		if in.ModDir == "inc" {
			os.Mkdir(filepath.Join(dir, "inc"), 0o755)
			sub = "inc/"
			pre = []string{"-I", "inc"}
		}
		if in.HasMod {
			files[sub+"mod.vcl"] = b.Mod
		}
		if in.HasStm {
			files[sub+"stm.vcl"] = b.Stm
		}
	}
	if cfg.Label != "none" {
		files[".falco.yml"] = yamlOf(cfg)
		for _, r := range cfg.Rules {
			oc.Tag("overridden-rule:" + r[0])
			oc.Tag("override-to:" + strings.ToUpper(r[1]))
		}
	}
	for name, text := range files {
		if err := os.WriteFile(filepath.Join(dir, name), []byte(text), 0o644); err != nil {
			oc.Inconc = append(oc.Inconc, "write: "+err.Error())
			return
		}
	}
	oc.Tag("config:" + cfg.Label)

	var os6 []obs
	for _, fs := range flagSets {
		args := append([]string{"lint"}, pre...)
		args = append(args, fs.Args...)
		args = append(args, "main.vcl")
		rr := runCLI(dir, args, 60*time.Second)
		oc.Evals++
		if rr.timedOut || rr.startErr != "" {
			oc.Inconc = append(oc.Inconc, fmt.Sprintf("falco lint %s did not complete (timeout=%v %s) on class %s", fs.Name, rr.timedOut, rr.startErr, class))
			return
		}
		os6 = append(os6, observe(fs, rr))
		oc.Tag("runs:" + class + "/" + fs.Name)
	}

	witness := func(extra map[string]any) map[string]any {
		m := map[string]any{
			"class": class, "input": describe(in), "config": cfg.Label, "files": files,
			"command":  "falco lint " + strings.Join(pre, " ") + " <flags> main.vcl",
			"expected": map[string]any{"exit_nonzero": expFail, "syntax_error": b.Syntax, "counts": exp.String(), "diagnostics_before_overrides": multiset(b.Diags)},
		}
		var ob []map[string]any
		for _, o := range os6 {
			x := map[string]any{"flags": o.flags, "exit": o.rr.exit, "stderr_tail": tail(string(o.rr.stderr), 300)}
			if o.has {
				x["counts"] = o.c.String()
			} else {
				x["counts"] = "none reported"
			}
			if strings.HasPrefix(o.flags, "json") {
				x["stdout_head"] = clip(string(o.rr.stdout), 160)
				x["parse_errors_in_document"] = o.parseErr
			}
			ob = append(ob, x)
		}
		m["observed"] = ob
		for k, v := range extra {
			m[k] = v
		}
		return m
	}

	// crash detection: a verdict must come from linting, not from a dying process
	for _, o := range os6 {
		if o.rr.signal != "" || bytes.Contains(o.rr.stderr, []byte("goroutine ")) && bytes.Contains(o.rr.stderr, []byte("panic")) {
			oc.Violate("crash:"+o.flags+"/"+class, fmt.Sprintf("falco lint (%s) crashed on a %s input: exit %d %s", o.flags, class, o.rr.exit, o.rr.signal), witness(nil))
		}
	}

	// (iv) -json: stdout is exactly one JSON document
	for _, o := range os6 {
		if !strings.HasPrefix(o.flags, "json") {
			if len(o.rr.stdout) > 0 {
				oc.Tag("note:plain-mode-wrote-to-stdout")
			}
			continue
		}
		if !o.jsonOK {
			oc.Violate("json:not-a-document/"+class, fmt.Sprintf("falco lint %s on a %s input: %s (exit %d)", o.flags, class, o.jsonErr, o.rr.exit), witness(nil))
			continue
		}
		if o.sumHas && o.sum != o.c {
			oc.Violate("json:summary-vs-document/"+class, fmt.Sprintf("falco lint %s on a %s input: the summary line on stderr says %s but the JSON document says %s", o.flags, class, o.sum, o.c), witness(nil))
		}
		if o.lintErrs != o.c.E+o.c.W+o.c.I {
			oc.Violate("json:lint-errors-vs-counts/"+class, fmt.Sprintf("falco lint %s on a %s input: the JSON document lists %d LintErrors but counts %s", o.flags, class, o.lintErrs, o.c), witness(nil))
		}
		if b.Syntax {
			if o.parseErr > 0 {
				oc.Tag("json:syntax-error-reported-in-ParseErrors")
			} else {
				oc.Tag("json:syntax-error-NOT-in-ParseErrors")
			}
		} else if o.parseErr > 0 {
			oc.Tag("json:ParseErrors-nonempty-without-syntax-error")
		}
	}

	// (ii) mode independence: every run against the first run that reports the field
	field := func(o obs, f string) (int, bool) {
		switch f {
		case "exit":
			return b2i(o.failed), true
		case "errors":
			return o.c.E, o.has
		case "warnings":
			return o.c.W, o.has
		}
		return o.c.I, o.has
	}
	for _, f := range []string{"exit", "errors", "warnings", "infos"} {
		ref := -1
		for i, o := range os6 {
			v, ok := field(o, f)
			if !ok {
				continue
			}
			if ref < 0 {
				ref = i
				continue
			}
			rv, _ := field(os6[ref], f)
			if v != rv {
				what := fmt.Sprintf("same %s input and configuration (%s): %s of `falco lint` is %d with %s but %d with %s", class, cfg.Label, f, rv, os6[ref].flags, v, o.flags)
				if f == "exit" {
					what = fmt.Sprintf("same %s input and configuration (%s): `falco lint` exits %d with %s but %d with %s", class, cfg.Label, os6[ref].rr.exit, os6[ref].flags, o.rr.exit, o.flags)
				}
				oc.Violate("mode:"+os6[ref].flags+"-vs-"+o.flags+"/"+f+"/"+class, what, witness(nil))
			}
		}
	}

	if constructionOK {
		// (i) verdict
		for _, o := range os6 {
			if o.failed != expFail {
				why := fmt.Sprintf("%d diagnostics of effective severity ERROR", exp.E)
				if b.Syntax {
					why = "a syntax error (" + in.Syntax.Breaker + " in " + in.Syntax.File + ")"
				}
				oc.Violate("exit:"+o.flags+"/"+class, fmt.Sprintf("falco lint %s exits %d on a %s input that has %s (expected exit status %s)", o.flags, o.rr.exit, class, why, map[bool]string{true: "!= 0", false: "0"}[expFail]), witness(nil))
			}
		}
		// (iii) counts = constructed multiset after ignores and overrides (not defined for syntax errors)
		if !b.Syntax {
			for _, o := range os6 {
				if !o.has {
					if strings.HasPrefix(o.flags, "json") && !o.jsonOK {
						continue // already reported by (iv)
					}
					oc.Violate("count:"+o.flags+"/missing/"+class, fmt.Sprintf("falco lint %s on a %s input prints no error/warning/recommendation counts", o.flags, class), witness(nil))
					continue
				}
				for _, f := range [][3]any{{"errors", o.c.E, exp.E}, {"warnings", o.c.W, exp.W}, {"infos", o.c.I, exp.I}} {
					if f[1].(int) != f[2].(int) {
						oc.Violate(fmt.Sprintf("count:%s/%s/%s", o.flags, f[0], class), fmt.Sprintf("falco lint %s on a %s input (config %s) reports %d %s, constructed %d; reported %s, constructed %s", o.flags, class, cfg.Label, f[1], f[0], f[2], o.c, exp), witness(nil))
					}
				}
			}
		}
		oc.Tag("verdict-checked:" + class + "/" + map[bool]string{true: "fail-expected", false: "pass-expected"}[expFail])
	}

	if len(b.Diags) > 0 || b.Syntax {
		oc.NonTrivialS(b.Main + "\x00" + b.Mod + "\x00" + b.Stm + "\x00" + yamlOf(cfg) + "\x00" + cfg.Label)
	}
	if oc.Sample == nil && (len(b.Diags) > 0 || b.Syntax) {
		var ob []string
		for _, o := range os6 {
			cs := "no counts"
			if o.has {
				cs = o.c.String()
			}
			ob = append(ob, fmt.Sprintf("%s: exit %d %s", o.flags, o.rr.exit, cs))
		}
		oc.Sample = map[string]any{"class": class, "input": describe(in), "config": cfg.Label, "files": files, "expected_exit_nonzero": expFail, "expected_counts": exp.String(), "observed": ob}
	}
}

func clip(s string, n int) string {
	if len(s) > n {
		return s[:n] + "…"
	}
	return s
}

func tail(s string, n int) string {
	if len(s) > n {
		return "…" + s[len(s)-n:]
	}
	return s
}
