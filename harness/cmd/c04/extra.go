package main

// Deterministic families next to the constructed inputs:
//   modules - the main file includes three modules; every arrangement of {fine, syntax error}
//             over them (and a broken module included from a fine one): the exit status is
//             non-zero exactly when a file has a syntax error, in all six modes alike;
//   flags   - rule overrides from .falco.yml together with further command line options
//             (`--generated` behind the file name, `-I`, a config in a parent directory):
//             effective counts and exit status are the constructed ones in every mode;
//   repeats - the same diagnostic more than once (a statement module included from several
//             subroutines): the counts are the same in all six modes;
//   terraform - `falco terraform` with a plan of two or three services, every assignment of
//             {clean, lint error, syntax error} to them: the exit status is non-zero exactly
//             when one of the services is not clean, in all six modes.

import (
	"bytes"
	"encoding/json"
	"fmt"
	"os"
	"path/filepath"
	"strings"
	"time"

	"verif/harness/fw"
)

type xcase struct {
	Fam string `json:"fam"`
}

func genExtra(g *fw.GenCtx) {
	g.Emit("extra", xcase{Fam: "modules"})
	g.Emit("extra", xcase{Fam: "flags"})
	g.Emit("extra", xcase{Fam: "repeats"})
	g.Emit("extra", xcase{Fam: "terraform"})
}

func xdir(files map[string]string) (string, func(), error) {
	os.MkdirAll(workBase(), 0o755)
	dir, err := os.MkdirTemp(workBase(), "c04x-")
	if err != nil {
		return "", nil, err
	}
	for n, t := range files {
		p := filepath.Join(dir, n)
		os.MkdirAll(filepath.Dir(p), 0o755)
		os.WriteFile(p, []byte(t), 0o644)
	}
	return dir, func() { os.RemoveAll(dir) }, nil
}

// runModes runs `falco lint` in the six modes and checks the exit status (and, when want is not
// nil, the counts) in each.
func runModes(oc *fw.Outcome, key, what string, files map[string]string, tailArgs []string, wantFail bool, want *counts, subdir string) {
	dir, cleanup, err := xdir(files)
	if err != nil {
		oc.Inconc = append(oc.Inconc, "workspace: "+err.Error())
		return
	}
	defer cleanup()
	var seen []string // counts per mode
	distinct := map[counts]bool{}
	defer func() {
		if len(distinct) > 1 {
			oc.Violate("count-modes:"+key, "the reported counts depend on the output mode / verbosity: "+strings.Join(seen, "; ")+": "+what, map[string]any{"files": files, "args": tailArgs})
		}
	}()
	for _, fs := range flagSets {
		args := append([]string{"lint"}, fs.Args...)
		args = append(args, tailArgs...)
		rr := runCLI(filepath.Join(dir, subdir), args, 60*time.Second)
		oc.Evals++
		o := observe(fs, rr)
		detail := map[string]any{"files": files, "args": args, "exit": rr.exit, "stderr": clip(string(rr.stderr), 1200), "stdout": clip(string(rr.stdout), 1200), "what": what}
		if rr.timedOut || rr.signal != "" || strings.Contains(string(rr.stderr), "panic: ") {
			oc.Violate("extra:crash/"+key+"/"+fs.Name, "falco lint crashed or hung: "+what, detail)
			continue
		}
		if o.has {
			distinct[o.c] = true
			seen = append(seen, fs.Name+" ("+o.c.String()+")")
		}
		if o.failed != wantFail {
			oc.Violate("exit:"+fs.Name+"/"+key, fmt.Sprintf("falco lint %s exits %d, expected %s: %s", fs.Name, rr.exit, map[bool]string{true: "non-zero", false: "zero"}[wantFail], what), detail)
			continue
		}
		if want != nil && o.has && o.c != *want {
			oc.Violate("count:"+fs.Name+"/"+key, fmt.Sprintf("falco lint %s reports (%s), constructed (%s): %s", fs.Name, o.c, *want, what), detail)
			continue
		}
		if fs.JSON && !wantFail && !o.jsonOK {
			oc.Violate("json:"+fs.Name+"/"+key, "stdout is not one JSON document: "+o.jsonErr, detail)
			continue
		}
		oc.Tag("extra:" + strings.SplitN(key, "/", 2)[0] + "/" + fs.Name)
		oc.NonTrivialS(key + what + fs.Name)
	}
}

func runExtra(oc *fw.Outcome, xc xcase) {
	fine := func(n int) string {
		return fmt.Sprintf("sub mod_sub_%d {\n  set req.http.X-Mod-%d = \"1\";\n}\n", n, n)
	}
	broken := func(n int) string {
		return fmt.Sprintf("sub mod_sub_%d {\n  set req.http.X-Mod-%d = \"1\"\n}\n", n, n) // missing semicolon
	}
	switch xc.Fam {
	case "modules":
		for mask := 0; mask < 8; mask++ {
			files := map[string]string{}
			var calls, incs, shape []string
			for k := 1; k <= 3; k++ {
				incs = append(incs, fmt.Sprintf("include \"m%d\";", k))
				if mask&(1<<(k-1)) != 0 {
					files[fmt.Sprintf("m%d.vcl", k)] = broken(k)
					shape = append(shape, "broken")
				} else {
					files[fmt.Sprintf("m%d.vcl", k)] = fine(k)
					shape = append(shape, "fine")
					calls = append(calls, fmt.Sprintf("  call mod_sub_%d;", k))
				}
			}
			// a subroutine of a broken module cannot be called without a further diagnostic; the fine ones are
			files["main.vcl"] = strings.Join(incs, "\n") + "\nsub vcl_recv {\n  #FASTLY RECV\n" + strings.Join(calls, "\n") + "\n  return(lookup);\n}\n"
			pos := "none"
			for k := 2; k >= 0; k-- {
				if mask&(1<<k) != 0 {
					pos = []string{"first", "middle", "last"}[k]
					break
				}
			}
			runModes(oc, "modules/last-broken="+pos, "modules "+strings.Join(shape, ","), files, []string{"main.vcl"}, mask != 0, nil, "")
		}
		// a broken module that is included from a fine module, followed by fine ones; and inside a subroutine
		files := map[string]string{
			"main.vcl":  "include \"outer\";\ninclude \"m2\";\nsub vcl_recv {\n  #FASTLY RECV\n  call mod_sub_2;\n  return(lookup);\n}\n",
			"outer.vcl": "include \"inner\";\nsub outer_sub {\n  set req.http.O = \"1\";\n}\n",
			"inner.vcl": broken(9),
			"m2.vcl":    fine(2),
		}
		runModes(oc, "modules/nested-broken", "a fine module includes a broken one, a fine module follows", files, []string{"main.vcl"}, true, nil, "")
		files = map[string]string{
			"main.vcl":    "sub vcl_recv {\n  #FASTLY RECV\n  include \"stm_bad\";\n  include \"stm_ok\";\n  return(lookup);\n}\n",
			"stm_bad.vcl": "set req.http.A = \"1\"\n",
			"stm_ok.vcl":  "set req.http.B = \"2\";\n",
		}
		runModes(oc, "modules/statement-module-broken", "a broken statement module inside a subroutine, a fine one follows", files, []string{"main.vcl"}, true, nil, "")
	case "repeats":
		warnInfo := "if (req.url ~ \"\\.(jpg|png)$\") {\n  set req.http.X-Static = \"1\";\n}\nset req.http.X-Restarts = \"n=\" + req.restarts;\n"
		infoOnly := "set req.http.X-Restarts = \"n=\" + req.restarts;\n"
		withErr := warnInfo + "set req.http.X-Bad = undefined_variable;\n"
		mainOf := func(subs ...string) string {
			var sb strings.Builder
			for _, s := range subs {
				n := strings.Count(s, "+") + 1
				name := strings.TrimRight(s, "+")
				fmt.Fprintf(&sb, "sub vcl_%s {\n  #FASTLY %s\n%s}\n", name, strings.ToUpper(name), strings.Repeat("  include \"shared\";\n", n))
			}
			return sb.String()
		}
		for _, c := range []struct {
			name, shared string
			subs         []string
			fail         bool
		}{
			{"warning+info/2-subs", warnInfo, []string{"recv", "deliver"}, false},
			{"warning+info/3-subs", warnInfo, []string{"recv", "deliver", "miss"}, false},
			{"warning+info/twice-in-one-sub", warnInfo, []string{"recv+"}, false},
			{"info/2-subs", infoOnly, []string{"recv", "deliver"}, false},
			{"info/4-times", infoOnly, []string{"recv+", "fetch+"}, false},
			{"error+warning+info/2-subs", withErr, []string{"recv", "deliver"}, true},
			{"warning+info/once", warnInfo, []string{"recv"}, false},
		} {
			files := map[string]string{"main.vcl": mainOf(c.subs...), "shared.vcl": c.shared}
			runModes(oc, "repeats/"+c.name, "a statement module with diagnostics included in "+strings.Join(c.subs, ","), files, []string{"main.vcl"}, c.fail, nil, "")
			// the same with one of the rules lowered / raised by the configuration
			files[".falco.yml"] = "linter:\n  rules:\n    regex/matched-value-override: INFO\n    operator/concatenation: WARNING\n"
			runModes(oc, "repeats+override/"+c.name, "a statement module with diagnostics included in "+strings.Join(c.subs, ",")+", rule overrides", files, []string{"main.vcl"}, c.fail, nil, "")
		}
	case "terraform":
		runTerraform(oc)
	case "flags":
		gen := "table unused_table {\n  \"a\": \"b\",\n}\nsub vcl_recv {\n  set req.http.X-Foo = \"bar\";\n  return(lookup);\n}\n"
		for _, sev := range []struct {
			name string
			fail bool
			want counts
		}{{"ERROR", true, counts{1, 0, 0}}, {"WARNING", false, counts{0, 1, 0}}, {"INFO", false, counts{0, 0, 1}}, {"IGNORE", false, counts{0, 0, 0}}} {
			yml := "linter:\n  rules:\n    unused/declaration: " + sev.name + "\n"
			w := sev.want
			// --generated ignores the missing boilerplate macro; the override of the other rule stays
			runModes(oc, "flags/generated+override:"+sev.name, "`lint FILE --generated` with unused/declaration: "+sev.name, map[string]string{"gen.vcl": gen, ".falco.yml": yml}, []string{"gen.vcl", "--generated"}, sev.fail, &w, "")
			runModes(oc, "flags/generated-in-front+override:"+sev.name, "`lint --generated FILE` with unused/declaration: "+sev.name, map[string]string{"gen.vcl": gen, ".falco.yml": yml}, []string{"--generated", "gen.vcl"}, sev.fail, &w, "")
			// without --generated the missing macro is one more warning
			w2 := sev.want
			w2.W++
			runModes(oc, "flags/override:"+sev.name, "`lint FILE` with unused/declaration: "+sev.name, map[string]string{"gen.vcl": gen, ".falco.yml": yml}, []string{"gen.vcl"}, sev.fail, &w2, "")
			// the configuration file in a parent directory of the working directory
			runModes(oc, "flags/parent-config:"+sev.name, "configuration in the parent directory, unused/declaration: "+sev.name, map[string]string{"svc/gen.vcl": gen, ".falco.yml": yml}, []string{"gen.vcl"}, sev.fail, &w2, "svc")
			// an include path option in front of the file
			w3 := sev.want
			runModes(oc, "flags/include-path+override:"+sev.name, "`lint -I lib FILE` with unused/declaration: "+sev.name,
				map[string]string{"main.vcl": "include \"shared\";\n" + strings.Replace(gen, "  set req.http", "  #FASTLY RECV\n  call shared_sub;\n  set req.http", 1), "lib/shared.vcl": "sub shared_sub {\n  set req.http.S = \"1\";\n}\n", ".falco.yml": yml},
				[]string{"-I", "lib", "main.vcl"}, sev.fail, &w3, "")
		}
	}
}

const tfProvider = "registry.terraform.io/fastly/fastly"

var tfBodies = map[string]string{
	"clean":  "sub vcl_recv {\n  #FASTLY recv\n  set req.http.X-Ok = \"1\";\n  return (lookup);\n}\n",
	"error":  "sub vcl_recv {\n  #FASTLY recv\n  set req.http.X-Bad = undefined_variable;\n  return (lookup);\n}\n",
	"syntax": "sub vcl_recv {\n  #FASTLY recv\n  set req.http.X-Bad = \"1\"\n  return (lookup);\n}\n",
	"warn":   "sub vcl_recv {\n  set req.http.X-Ok = \"1\";\n  return (lookup);\n}\n", // no boilerplate macro: a warning
}

func tfPlan(kinds []string) []byte {
	type m = map[string]any
	var resources []m
	for i, k := range kinds {
		id := fmt.Sprintf("id-%c", 'a'+i)
		svc := m{"id": id, "name": fmt.Sprintf("svc-%c", 'a'+i), "acl": []m{}, "dictionary": []m{}, "backend": []m{}, "director": []m{}, "condition": []m{}, "header": []m{}, "response_object": []m{}, "snippet": []m{},
			"vcl": []m{{"name": "main", "main": true, "content": tfBodies[k]}}}
		resources = append(resources, m{"provider_name": tfProvider, "type": "fastly_service_vcl", "values": svc})
	}
	b, _ := json.Marshal(m{"planned_values": m{"root_module": m{"resources": resources}}})
	return b
}

func runTerraform(oc *fw.Outcome) {
	kindsOf := []string{"clean", "error", "syntax", "warn"}
	var plans [][]string
	for _, a := range kindsOf {
		for _, b := range kindsOf {
			plans = append(plans, []string{a, b})
			for _, c := range kindsOf {
				plans = append(plans, []string{a, b, c})
			}
		}
	}
	dir, cleanup, err := xdir(map[string]string{})
	if err != nil {
		oc.Inconc = append(oc.Inconc, "workspace: "+err.Error())
		return
	}
	defer cleanup()
	for _, kinds := range plans {
		wantFail := false
		for _, k := range kinds {
			if k == "error" || k == "syntax" {
				wantFail = true
			}
		}
		shape := strings.Join(kinds, ",")
		// key: which position holds the last not-clean service
		pos := "none"
		for i, k := range kinds {
			if k == "error" || k == "syntax" {
				pos = fmt.Sprintf("%s-at-%d-of-%d", k, i+1, len(kinds))
			}
		}
		for _, fs := range flagSets {
			args := append([]string{"terraform"}, fs.Args...)
			rr := runCLIStdin(dir, args, tfPlan(kinds), 60*time.Second)
			oc.Evals++
			detail := map[string]any{"services": kinds, "args": args, "exit": rr.exit, "stderr": clip(string(rr.stderr), 1500), "stdout": clip(string(rr.stdout), 1500)}
			if rr.timedOut || rr.signal != "" || strings.Contains(string(rr.stderr), "panic: ") {
				oc.Violate("extra:crash/terraform/"+fs.Name, "falco terraform crashed or hung on services "+shape, detail)
				continue
			}
			if !bytes.Contains(rr.stderr, []byte("Lint service of")) && !bytes.Contains(rr.stdout, []byte("Lint service of")) {
				oc.Inconc = append(oc.Inconc, "falco terraform did not lint any service: "+clip(string(rr.stderr), 300))
				continue
			}
			if (rr.exit != 0) != wantFail {
				oc.Violate("exit:"+fs.Name+"/terraform/last-bad="+pos, fmt.Sprintf("falco terraform %s exits %d on services (%s), expected %s", fs.Name, rr.exit, shape, map[bool]string{true: "non-zero", false: "zero"}[wantFail]), detail)
				continue
			}
			oc.Tag("extra:terraform/" + fs.Name)
			oc.NonTrivialS("terraform" + shape + fs.Name)
		}
	}
}
