package main

import (
	"fmt"
	"strings"

	"github.com/ysugimoto/falco/v2/config"
	"github.com/ysugimoto/falco/v2/lexer"
	"github.com/ysugimoto/falco/v2/linter"
	lcontext "github.com/ysugimoto/falco/v2/linter/context"
	"github.com/ysugimoto/falco/v2/parser"

	"verif/harness/fw"
	"verif/harness/lintutil"
)

// libResult is what the in-process linter says about the same sources. It is used ONLY to
// cross-check the construction (generator + catalogue); it never produces a violation.
type libResult struct {
	Syntax    bool
	SyntaxMsg string
	Diags     []Diag
	Msgs      []string
	Panic     string
}

func libLint(main, mod, stm string) (res libResult) {
	panicked, msg, _ := fw.Guard(func() {
		// the CLI parses the main file with ParseVCLOrSnippet (cmd/falco/runner.go parseVCL)
		v, err := parser.New(lexer.NewFromString(main, lexer.WithFile("main.vcl"))).ParseVCLOrSnippet()
		if err != nil {
			res.Syntax, res.SyntaxMsg = true, err.Error()
			return
		}
		mods := map[string]string{}
		if mod != "" {
			mods["mod"] = mod
		}
		if stm != "" {
			mods["stm"] = stm
		}
		rs := &lintutil.MapResolver{Main: main, Modules: mods, Budget: 1000}
		// config.New always appends vcl_pipe to IgnoreSubroutines
		l := linter.New(&config.LinterConfig{IgnoreSubroutines: []string{"vcl_pipe"}})
		l.Lint(v, lcontext.New(lcontext.WithResolver(rs)))
		if l.FatalError != nil {
			res.Syntax, res.SyntaxMsg = true, fmt.Sprint(l.FatalError.Error)
			return
		}
		for _, e := range l.Errors {
			if e == nil {
				continue
			}
			res.Diags = append(res.Diags, Diag{Rule: string(e.Rule), Sev: strings.ToUpper(string(e.Severity))})
			res.Msgs = append(res.Msgs, fmt.Sprintf("%s (%s) %s line %d: %s", e.Severity, e.Rule, e.Token.File, e.Token.Line, e.Message))
		}
	})
	if panicked {
		res.Panic = msg
	}
	return res
}
