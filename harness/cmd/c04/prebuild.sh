#!/bin/bash
exec "$1/tools/build_falco.sh" "$1"
