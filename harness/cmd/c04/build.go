package main

import (
	"fmt"
	"sort"
	"strings"
)

// Inj is one injected catalogue entry.
type Inj struct {
	Entry  string `json:"e"`
	N      int    `json:"n"`                // unique number substituted for @N@
	File   string `json:"f"`                // "main" | "mod" (declarations module included at top level) | "stm" (statements module included inside vcl_recv)
	Nested int    `json:"nest,omitempty"`   // 0 = top level of the subroutine body, 1 = inside an if branch, 2 = inside the else branch
	Ign    string `json:"ign,omitempty"`    // "" | "bare" | "rule" | "other": kind of `// falco-ignore-next-line` comment put before it
	Bottom bool   `json:"bottom,omitempty"` // declaration part goes after the skeleton declarations instead of before
}

// Syn is an injected syntax error.
type Syn struct {
	File    string `json:"f"` // "main" | "mod" | "stm"
	Breaker string `json:"b"`
	Scope   string `json:"scope,omitempty"` // for statement breakers: which subroutine
}

// Cfg is one .falco.yml variant.
type Cfg struct {
	Label string      `json:"label"` // "none" (no file), "down:warning", "up:info", …
	Rules [][2]string `json:"rules,omitempty"`
	// Class overrides the input class for runs with this configuration (override classes).
	Class string `json:"class,omitempty"`
}

// Input is one generated lint input: files, configurations and the verdict known by construction.
type Input struct {
	Class      string `json:"class"`
	Snippet    string `json:"snippet,omitempty"` // "" | "scope" | "noscope": main file is a statement-only snippet
	ScopeName  string `json:"scope_name,omitempty"`
	ScopeStyle int    `json:"scope_style,omitempty"`
	HasMod     bool   `json:"mod,omitempty"`
	HasStm     bool   `json:"stm,omitempty"`     // a statements-only module included inside the body of vcl_recv
	ModDir     string `json:"mod_dir,omitempty"` // "inc" (needs -I inc) or "." (next to the main file)
	Injs       []Inj  `json:"injs,omitempty"`
	Syntax     *Syn   `json:"syntax,omitempty"`
	Cfgs       []Cfg  `json:"cfgs"`
}

// Diag is one diagnostic expected by construction.
type Diag struct {
	Rule string
	Sev  string // default severity: ERROR|WARNING|INFO
}

// Built is the rendered input.
type Built struct {
	Main   string
	Mod    string
	Stm    string
	Diags  []Diag // diagnostics expected by construction after ignore comments, before overrides
	Syntax bool
}

const skelDecls = `backend origin_a {
  .host = "example.com";
  .port = "443";
  .ssl = true;
}

table redirects {
  "/old": "/new",
}

acl internal {
  "192.168.0.0"/16;
}
`

const skelHelper = `sub helper_recv {
  set req.http.X-Helper = "1";
}
`

const skelRecvHead = `sub vcl_recv {
  #FASTLY RECV
  set req.backend = origin_a;
  if (client.ip ~ internal) {
    set req.http.X-Internal = "1";
  } else {
    set req.http.X-Internal = "0";
  }
  if (table.contains(redirects, req.url.path)) {
    set req.http.X-Redirect = table.lookup(redirects, req.url.path);
  }
  call helper_recv;
`

const skelDeliverHead = `sub vcl_deliver {
  #FASTLY DELIVER
  set resp.http.X-Served = "1";
`

func indent(s, pad string) string {
	lines := strings.Split(s, "\n")
	for i, l := range lines {
		if l != "" {
			lines[i] = pad + l
		}
	}
	return strings.Join(lines, "\n")
}

func subst(s string, n int) string { return strings.ReplaceAll(s, "@N@", fmt.Sprint(n)) }

func ignoreComment(kind, rule string) string {
	switch kind {
	case "bare":
		return "// falco-ignore-next-line\n"
	case "rule":
		return "// falco-ignore-next-line " + rule + "\n"
	case "other":
		// names a rule that is not the one the statement violates: suppresses nothing
		other := "acl/syntax"
		if rule == other {
			other = "valid-ip"
		}
		return "// falco-ignore-next-line " + other + "\n"
	}
	return ""
}

// suppressed reports whether the ignore comment of the injection removes its diagnostic.
func suppressed(e *entry, in Inj) bool {
	if e.IgnAt == "" {
		return false
	}
	switch in.Ign {
	case "bare":
		return true
	case "rule":
		return e.Rule != ""
	}
	return false
}

// scopeOf picks the subroutine an injection's statement goes to.
func scopeOf(e *entry, n int) string {
	switch e.Scope {
	case "recv", "deliver":
		return e.Scope
	}
	if n%3 == 2 {
		return "deliver"
	}
	return "recv"
}

// scopeFor: statements of the statements module are inlined into vcl_recv.
func scopeFor(e *entry, ij Inj) string {
	if ij.File == "stm" {
		return "recv"
	}
	return scopeOf(e, ij.N)
}

func renderStmt(e *entry, in Inj) string {
	if e.Stmt == "" {
		return ""
	}
	st := subst(e.Stmt, in.N)
	if e.IgnAt == "stmt" && in.Ign != "" {
		st = ignoreComment(in.Ign, e.Rule) + st
	}
	switch in.Nested {
	case 1:
		return fmt.Sprintf("if (req.http.X-Cnd%d) {\n%s\n} else {\n  set req.http.X-Alt%d = \"0\";\n}", in.N, indent(st, "  "), in.N)
	case 2:
		return fmt.Sprintf("if (req.http.X-Cnd%d) {\n  set req.http.X-Alt%d = \"0\";\n} else {\n%s\n}", in.N, in.N, indent(st, "  "))
	}
	return st
}

func renderDecl(e *entry, in Inj) string {
	if e.Decl == "" {
		return ""
	}
	d := subst(e.Decl, in.N)
	if e.IgnAt == "decl" && in.Ign != "" {
		d = ignoreComment(in.Ign, e.Rule) + d
	}
	return d + "\n"
}

var scopeStyles = []string{"// @scope: %s", "# @scope: %s", "//@scope: %s", "// @scope:%s"}

// build renders the files of an input and derives the diagnostics expected by construction.
func build(in *Input) (*Built, error) {
	b := &Built{}
	type part struct{ declsTop, declsBottom, recv, deliver []string }
	parts := map[string]*part{"main": {}, "mod": {}, "stm": {}}
	for _, ij := range in.Injs {
		e := catIndex[ij.Entry]
		if e == nil {
			return nil, fmt.Errorf("unknown catalogue entry %q", ij.Entry)
		}
		p := parts[ij.File]
		if p == nil {
			return nil, fmt.Errorf("unknown file %q", ij.File)
		}
		if d := renderDecl(e, ij); d != "" {
			if ij.Bottom {
				p.declsBottom = append(p.declsBottom, d)
			} else {
				p.declsTop = append(p.declsTop, d)
			}
		}
		if s := renderStmt(e, ij); s != "" {
			if scopeFor(e, ij) == "deliver" {
				p.deliver = append(p.deliver, s)
			} else {
				p.recv = append(p.recv, s)
			}
		}
		if !suppressed(e, ij) {
			b.Diags = append(b.Diags, Diag{Rule: e.Rule, Sev: e.Sev})
		}
	}
	var brk *breaker
	if in.Syntax != nil {
		brk = breakerIndex[in.Syntax.Breaker]
		if brk == nil {
			return nil, fmt.Errorf("unknown breaker %q", in.Syntax.Breaker)
		}
		b.Syntax = true
	}
	brkStmt := func(file, scope string) string {
		if brk != nil && !brk.Top && in.Syntax.File == file && in.Syntax.Scope == scope {
			return indent(brk.Text, "  ") + "\n"
		}
		return ""
	}
	brkTop := func(file string, atEnd bool) string {
		if brk != nil && brk.Top && in.Syntax.File == file && brk.AtEnd == atEnd {
			return brk.Text
		}
		return ""
	}
	body := func(stmts []string) string {
		var sb strings.Builder
		for _, s := range stmts {
			sb.WriteString(indent(s, "  "))
			sb.WriteString("\n")
		}
		return sb.String()
	}

	if in.Snippet != "" {
		// statement-only snippet file
		var sb strings.Builder
		if in.Snippet == "scope" {
			fmt.Fprintf(&sb, scopeStyles[in.ScopeStyle%len(scopeStyles)]+"\n", in.ScopeName)
		} else {
			sb.WriteString("// a snippet without a scope annotation\n")
		}
		if in.ScopeName == "deliver" {
			sb.WriteString("set resp.http.X-Snip = \"1\";\n")
		} else {
			sb.WriteString("set req.http.X-Snip = \"1\";\n")
		}
		p := parts["main"]
		for _, s := range append(append([]string{}, p.recv...), p.deliver...) {
			sb.WriteString(s + "\n")
		}
		if brk != nil {
			sb.WriteString(brk.Text + "\n")
		}
		sb.WriteString("set req.http.X-Snip-End = \"1\";\n")
		b.Main = sb.String()
		if in.Snippet == "noscope" {
			// the statements are not linted at all: exactly one error of rule snippet-scope-required
			b.Diags = []Diag{{Rule: "snippet-scope-required", Sev: sevE}}
		}
		return b, nil
	}

	// main file
	{
		p := parts["main"]
		var sb strings.Builder
		for _, d := range p.declsTop {
			sb.WriteString(d + "\n")
		}
		sb.WriteString(brkTop("main", false))
		sb.WriteString(skelDecls + "\n")
		if in.HasMod {
			sb.WriteString("include \"mod\";\n\n")
		}
		for _, d := range p.declsBottom {
			sb.WriteString(d + "\n")
		}
		sb.WriteString(skelHelper + "\n")
		sb.WriteString(skelRecvHead)
		sb.WriteString(body(p.recv))
		sb.WriteString(brkStmt("main", "recv"))
		if in.HasStm {
			sb.WriteString("  include \"stm\";\n")
		}
		if in.HasMod {
			sb.WriteString("  call mod_recv;\n")
		}
		sb.WriteString("  return (lookup);\n}\n\n")
		sb.WriteString(skelDeliverHead)
		sb.WriteString(body(p.deliver))
		sb.WriteString(brkStmt("main", "deliver"))
		if in.HasMod {
			sb.WriteString("  call mod_deliver;\n")
		}
		sb.WriteString("  return (deliver);\n}\n")
		sb.WriteString(brkTop("main", true))
		b.Main = sb.String()
	}
	if in.HasMod {
		p := parts["mod"]
		var sb strings.Builder
		sb.WriteString(strings.Join(p.declsTop, "\n"))
		sb.WriteString(brkTop("mod", false))
		sb.WriteString("sub mod_recv {\n  set req.http.X-Mod = \"1\";\n")
		sb.WriteString(body(p.recv))
		sb.WriteString(brkStmt("mod", "recv"))
		sb.WriteString("}\n\n")
		sb.WriteString(strings.Join(p.declsBottom, "\n"))
		sb.WriteString("sub mod_deliver {\n  set resp.http.X-Mod = \"1\";\n")
		sb.WriteString(body(p.deliver))
		sb.WriteString(brkStmt("mod", "deliver"))
		sb.WriteString("}\n")
		sb.WriteString(brkTop("mod", true))
		b.Mod = sb.String()
	} else if len(parts["mod"].recv)+len(parts["mod"].deliver)+len(parts["mod"].declsTop)+len(parts["mod"].declsBottom) > 0 {
		return nil, fmt.Errorf("injection into a module but the input has no module")
	}
	if in.HasStm {
		p := parts["stm"]
		if len(p.declsTop)+len(p.declsBottom)+len(p.deliver) > 0 {
			return nil, fmt.Errorf("only recv-scope statements can be injected into the statements module")
		}
		var sb strings.Builder
		sb.WriteString("set req.http.X-Stm = \"1\";\n")
		for _, s := range p.recv {
			sb.WriteString(s + "\n")
		}
		if brk != nil && !brk.Top && in.Syntax.File == "stm" {
			sb.WriteString(brk.Text + "\n")
		}
		sb.WriteString("set req.http.X-Stm-End = \"1\";\n")
		b.Stm = sb.String()
	} else if len(parts["stm"].recv) > 0 {
		return nil, fmt.Errorf("injection into the statements module but the input has none")
	}
	return b, nil
}

// counts after applying the overrides of a configuration to the constructed diagnostics.
type counts struct{ E, W, I int }

func (c counts) String() string {
	return fmt.Sprintf("(%d errors, %d warnings, %d infos)", c.E, c.W, c.I)
}

func effective(diags []Diag, cfg Cfg) counts {
	ov := map[string]string{}
	for _, r := range cfg.Rules {
		switch strings.ToUpper(r[1]) {
		case "ERROR", "WARNING", "INFO", "IGNORE":
			ov[r[0]] = strings.ToUpper(r[1])
		}
	}
	var c counts
	for _, d := range diags {
		sev := d.Sev
		if d.Rule != "" {
			if v, ok := ov[d.Rule]; ok {
				sev = v
			}
		}
		switch sev {
		case sevE:
			c.E++
		case sevW:
			c.W++
		case sevI:
			c.I++
		}
	}
	return c
}

// baseClass names an input by what its effective diagnostics are.
func baseClass(c counts, syntax bool) string {
	switch {
	case syntax:
		return "syntax"
	case c.E > 0 && (c.W > 0 || c.I > 0):
		return "mixed"
	case c.E > 0:
		return "error"
	case c.W > 0 && c.I > 0:
		return "warn-info"
	case c.W > 0:
		return "warn-only"
	case c.I > 0:
		return "info-only"
	}
	return "clean"
}

func yamlOf(cfg Cfg) string {
	var sb strings.Builder
	sb.WriteString("linter:\n  rules:\n")
	for _, r := range cfg.Rules {
		fmt.Fprintf(&sb, "    %s: %s\n", r[0], r[1])
	}
	return sb.String()
}

func multiset(ds []Diag) []string {
	var out []string
	for _, d := range ds {
		out = append(out, d.Sev+" "+d.Rule)
	}
	sort.Strings(out)
	return out
}
