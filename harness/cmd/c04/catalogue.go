package main

// The catalogue of injectable constructs. Every entry was established empirically on the pinned
// tree by linting it alone inside the lint-clean skeleton (`falco lint -json -vv`): it produces
// EXACTLY ONE diagnostic, of the rule and default severity recorded here. Entries that produced
// zero or several diagnostics were discarded (examples: an undefined variable in `set` gives two
// errors; `declare local var.x FOO;` gives an error and an unused-variable warning; `now + 5m` in a
// string context gives a warning and an info). At run time every input is cross-checked against the
// in-process linter, so a catalogue entry that no longer holds makes the input INCONCLUSIVE
// instead of producing a false violation.
//
// `@N@` is replaced by a number unique to the injection so that names never collide.

const (
	sevE = "ERROR"
	sevW = "WARNING"
	sevI = "INFO"
)

type entry struct {
	ID    string
	Sev   string // default severity
	Rule  string // "" = the linter attaches no rule name (cannot be overridden from .falco.yml)
	Scope string // "recv" | "deliver" | "any": where Stmt may be placed
	Decl  string // top-level declaration part (may be empty)
	Stmt  string // statement part, placed in a subroutine body (may be empty)
	// IgnAt says where a `// falco-ignore-next-line` comment suppresses the diagnostic:
	// "stmt" (immediately before Stmt), "decl" (immediately before Decl) or "" (cannot be suppressed
	// by one next-line comment: multi-statement snippets, duplicates).
	IgnAt string
	// Snippet: Stmt produces the same single diagnostic in a statement-only snippet file with @scope.
	Snippet bool
	// Group "regex": reads or writes the re.group.N capture state; at most one such entry per
	// subroutine body so that entries cannot influence one another.
	Group string
	// Once: uses a fixed global name (a Fastly lifecycle subroutine): at most once per program.
	Once bool
	// MainOnly: only meaningful in the main file.
	MainOnly bool
	// TopInclude: the declaration part is a top-level include statement.
	TopInclude bool
}

var catalogue = []entry{
	// ---------------------------------------------------------------- ERROR, with a rule name
	{ID: "E-argtype", Sev: sevE, Rule: "function/argument-type", Scope: "any", Stmt: `set req.http.X-E@N@ = std.itoa("x");`, IgnAt: "stmt", Snippet: true},
	{ID: "E-arity", Sev: sevE, Rule: "function/arguments", Scope: "any", Stmt: `set req.http.X-E@N@ = std.itoa(1, 2, 3, 4);`, IgnAt: "stmt", Snippet: true},
	{ID: "E-arity0", Sev: sevE, Rule: "function/arguments", Scope: "any", Stmt: `set req.http.X-E@N@ = std.strlen();`, IgnAt: "stmt", Snippet: true},
	{ID: "E-call", Sev: sevE, Rule: "call-statement/subroutine-notfound", Scope: "any", Stmt: `call nosuch_sub_@N@;`, IgnAt: "stmt", Snippet: true},
	{ID: "E-synthetic", Sev: sevE, Rule: "synthetic-statement/scope", Scope: "any", Stmt: `synthetic "x@N@";`, IgnAt: "stmt", Snippet: true},
	{ID: "E-synthetic64", Sev: sevE, Rule: "synthetic-base64-statement/scope", Scope: "any", Stmt: `synthetic.base64 "eA==";`, IgnAt: "stmt", Snippet: true},
	{ID: "E-cond", Sev: sevE, Rule: "operator/conditional", Scope: "any", Stmt: "if (req.http.A@N@ == 1) {\n  set req.http.X-E@N@ = \"1\";\n}", IgnAt: "stmt", Snippet: true},
	{ID: "E-minus", Sev: sevE, Rule: "operator/conditional", Scope: "any", Stmt: `set req.http.X-E@N@ -= "1";`, IgnAt: "stmt", Snippet: true},
	{ID: "E-literal", Sev: sevE, Rule: "condition/literal", Scope: "any", Stmt: "if (\"literal\") {\n  set req.http.X-E@N@ = \"1\";\n}", IgnAt: "stmt", Snippet: true},
	{ID: "E-add", Sev: sevE, Rule: "add-statement/syntax", Scope: "any", Stmt: `add req.url = "x";`, IgnAt: "stmt", Snippet: true},
	{ID: "E-return-recv", Sev: sevE, Rule: "restart-statement/scope", Scope: "recv", Stmt: "if (req.http.G@N@) {\n  return (deliver);\n}", IgnAt: "stmt", Snippet: true},
	{ID: "E-return-deliver", Sev: sevE, Rule: "restart-statement/scope", Scope: "deliver", Stmt: "if (req.http.G@N@) {\n  return (lookup);\n}", IgnAt: "stmt", Snippet: true},
	{ID: "E-empty-return", Sev: sevE, Rule: "disallow-empty-return", Scope: "any", Stmt: "if (req.http.G@N@) {\n  return;\n}", IgnAt: "stmt", Snippet: false, MainOnly: true}, // only state-machine subroutines (vcl_*) must not return without a state
	{ID: "E-assign", Sev: sevE, Rule: "operator/assignment", Scope: "any", Stmt: `set req.http.X-E@N@ = 1;`, IgnAt: "stmt", Snippet: true},
	{ID: "E-assign-rtime", Sev: sevE, Rule: "operator/assignment", Scope: "any", Stmt: `set req.http.X-E@N@ = 10s;`, IgnAt: "stmt", Snippet: true},
	{ID: "E-assign-status", Sev: sevE, Rule: "operator/assignment", Scope: "deliver", Stmt: `set resp.status = "200";`, IgnAt: "stmt", Snippet: true},
	{ID: "E-assign-local", Sev: sevE, Rule: "operator/assignment", Scope: "any", Stmt: "declare local var.d@N@ INTEGER;\nset var.d@N@ = \"a\";", IgnAt: "", Snippet: true},
	{ID: "E-declare-dup", Sev: sevE, Rule: "declare-statement/duplicated", Scope: "any", Stmt: "declare local var.d@N@ STRING;\ndeclare local var.d@N@ STRING;\nset var.d@N@ = \"a\";", IgnAt: "", Snippet: true},
	{ID: "E-error-scope", Sev: sevE, Rule: "error-statement/scope", Scope: "deliver", Stmt: `error 601 "x";`, IgnAt: "stmt", Snippet: true},
	{ID: "E-table-dup", Sev: sevE, Rule: "table/duplicated", Scope: "any",
		Decl: "table dup_t@N@ {\n  \"a\": \"b\",\n}\ntable dup_t@N@ {\n  \"a\": \"b\",\n}", Stmt: `set req.http.X-D@N@ = table.lookup(dup_t@N@, "a");`},
	{ID: "E-acl-dup", Sev: sevE, Rule: "acl/duplicated", Scope: "any",
		Decl: "acl dup_a@N@ {\n  \"10.0.0.0\"/8;\n}\nacl dup_a@N@ {\n  \"10.0.0.0\"/8;\n}", Stmt: "if (client.ip ~ dup_a@N@) {\n  set req.http.X-D@N@ = \"1\";\n}"},
	{ID: "E-backend-dup", Sev: sevE, Rule: "backend/duplicated", Scope: "recv",
		Decl: "backend dup_b@N@ {\n  .host = \"example.org\";\n}\nbackend dup_b@N@ {\n  .host = \"example.org\";\n}", Stmt: "if (req.http.P@N@) {\n  set req.backend = dup_b@N@;\n}"},
	{ID: "E-sub-dup", Sev: sevE, Rule: "subroutine/duplicated", Scope: "recv",
		Decl: "sub dup_s@N@_recv {\n  set req.http.X-U@N@ = \"1\";\n}\nsub dup_s@N@_recv {\n  set req.http.X-U@N@ = \"1\";\n}", Stmt: `call dup_s@N@_recv;`},
	{ID: "E-backend-notfound", Sev: sevE, Rule: "backend/notfound", Scope: "recv",
		Decl: "director dir@N@ random {\n  { .backend = nosuch_b@N@; .weight = 1; }\n}", Stmt: "if (req.http.P@N@) {\n  set req.backend = dir@N@;\n}"},
	{ID: "E-table-type", Sev: sevE, Rule: "table/type-variation", Scope: "any",
		Decl: "table tt@N@ FOO {\n}", Stmt: `set req.http.X-D@N@ = table.lookup(tt@N@, "a");`},
	{ID: "E-backend-prop", Sev: sevE, Rule: "backend/syntax", Scope: "recv",
		Decl: "backend ub@N@ {\n  .host = \"example.org\";\n  .nosuch = 1;\n}", Stmt: "if (req.http.P@N@) {\n  set req.backend = ub@N@;\n}", IgnAt: "decl"},
	{ID: "E-backend-type", Sev: sevE, Rule: "backend/syntax", Scope: "recv",
		Decl: "backend ut@N@ {\n  .host = 1;\n}", Stmt: "if (req.http.P@N@) {\n  set req.backend = ut@N@;\n}", IgnAt: "decl"},
	{ID: "E-acl-cidr", Sev: sevE, Rule: "acl/syntax", Scope: "any",
		Decl: "acl bad_a@N@ {\n  \"10.0.0.0\"/99;\n}", Stmt: "if (client.ip ~ bad_a@N@) {\n  set req.http.X-D@N@ = \"1\";\n}", IgnAt: "decl"},
	{ID: "E-include-missing", Sev: sevE, Rule: "include/module-load-failed", Scope: "any", Decl: `include "nosuch@N@";`, MainOnly: true, TopInclude: true},
	// ---------------------------------------------------------------- ERROR, no rule name
	{ID: "E0-readonly", Sev: sevE, Rule: "", Scope: "any", Stmt: `unset req.url;`, IgnAt: "stmt", Snippet: true},
	{ID: "E0-protected", Sev: sevE, Rule: "", Scope: "any", Stmt: `set req.http.Fastly-FF = "x";`, IgnAt: "stmt", Snippet: true},
	{ID: "E0-log", Sev: sevE, Rule: "", Scope: "any", Stmt: `log 1;`, IgnAt: "stmt", Snippet: true},
	// ---------------------------------------------------------------- WARNING
	{ID: "W-unused-var", Sev: sevW, Rule: "unused/variable", Scope: "any", Stmt: `declare local var.w@N@ STRING;`, IgnAt: "", Snippet: false},
	{ID: "W-url-ext", Sev: sevW, Rule: "regex/url-extension", Scope: "any", Stmt: "if (req.url ~ \"\\.(jpg|png)$\") {\n  set req.http.X-W@N@ = \"1\";\n}", IgnAt: "stmt", Snippet: true, Group: "regex"},
	{ID: "W-uncaptured", Sev: sevW, Rule: "deprecated", Scope: "any", Stmt: `set req.http.X-W@N@ = re.group.1;`, IgnAt: "stmt", Snippet: true, Group: "regex"},
	{ID: "W-vary", Sev: sevW, Rule: "set-statement/overwrite-vary", Scope: "deliver", Stmt: `set resp.http.Vary = "X-W@N@";`, IgnAt: "stmt", Snippet: true},
	{ID: "W-unused-table", Sev: sevW, Rule: "unused/declaration", Scope: "any", Decl: "table unused_t@N@ {\n  \"a\": \"b\",\n}", IgnAt: "decl"},
	{ID: "W-unused-acl", Sev: sevW, Rule: "unused/declaration", Scope: "any", Decl: "acl unused_a@N@ {\n  \"10.0.0.0\"/8;\n}", IgnAt: "decl"},
	{ID: "W-unused-backend", Sev: sevW, Rule: "unused/declaration", Scope: "any", Decl: "backend unused_b@N@ {\n  .host = \"example.org\";\n}", IgnAt: "decl"},
	{ID: "W-unused-sub", Sev: sevW, Rule: "unused/declaration", Scope: "any", Decl: "sub unused_s@N@_recv {\n  set req.http.X-U@N@ = \"1\";\n}", IgnAt: "decl"},
	{ID: "W-unused-ratecounter", Sev: sevW, Rule: "unused/declaration", Scope: "any", Decl: "ratecounter rc@N@ {\n}"},
	{ID: "W-unused-director", Sev: sevW, Rule: "unused/declaration", Scope: "any", Decl: "director ud@N@ random {\n  { .backend = origin_a; .weight = 1; }\n}", IgnAt: "decl", MainOnly: true},
	{ID: "W-macro-fetch", Sev: sevW, Rule: "subroutine/boilerplate-macro", Scope: "any", Decl: "sub vcl_fetch {\n  set beresp.ttl = 10s;\n  return (deliver);\n}", IgnAt: "decl", Once: true},
	{ID: "W-macro-miss", Sev: sevW, Rule: "subroutine/boilerplate-macro", Scope: "any", Decl: "sub vcl_miss {\n  return (fetch);\n}", IgnAt: "decl", Once: true},
	{ID: "W-probe", Sev: sevW, Rule: "backend/prober-configuration", Scope: "recv",
		Decl: "backend pb@N@ {\n  .host = \"example.org\";\n  .probe = {\n    .request = \"GET / HTTP/1.1\";\n    .threshold = 3;\n    .initial = 1;\n    .window = 5;\n  }\n}", Stmt: "if (req.http.P@N@) {\n  set req.backend = pb@N@;\n}"},
	// ---------------------------------------------------------------- WARNING, no rule name
	{ID: "W0-deprecated-var", Sev: sevW, Rule: "", Scope: "any", Stmt: "if (client.class.checker) {\n  set req.http.X-W@N@ = \"1\";\n}", IgnAt: "stmt", Snippet: true},
	{ID: "W0-if-types", Sev: sevW, Rule: "", Scope: "any", Stmt: `set req.http.X-W@N@ = if(req.http.Q@N@, req.http.R@N@, req.restarts);`, IgnAt: "stmt", Snippet: true},
	// ---------------------------------------------------------------- INFO
	{ID: "I-error-code", Sev: sevI, Rule: "error-statement/code", Scope: "recv", Stmt: "if (req.http.C@N@) {\n  error 900 \"x\";\n}", IgnAt: "stmt", Snippet: true},
	{ID: "I-error-code-bare", Sev: sevI, Rule: "error-statement/code", Scope: "recv", Stmt: `error 1000;`, IgnAt: "stmt", Snippet: true},
	{ID: "I-regex-override", Sev: sevI, Rule: "regex/matched-value-override", Scope: "any", Stmt: "if (req.url ~ \"(aa@N@)\") {\n  if (req.url ~ \"(bb@N@)\") {\n    set req.http.X-J@N@ = re.group.1;\n  }\n}", IgnAt: "stmt", Snippet: true, Group: "regex"},
	// ---------------------------------------------------------------- INFO, no rule name
	{ID: "I0-implicit", Sev: sevI, Rule: "", Scope: "any", Stmt: `set req.http.X-I@N@ = "a" req.restarts;`, IgnAt: "stmt", Snippet: true},
}

var catIndex = func() map[string]*entry {
	m := map[string]*entry{}
	for i := range catalogue {
		m[catalogue[i].ID] = &catalogue[i]
	}
	return m
}()

// Rules that exist in falco but are never produced by the catalogue (used for "irrelevant" overrides).
var unrelatedRules = []string{"valid-ip", "goto/syntax", "penaltybox/syntax", "director/props-random", "unused/goto", "subroutine/recursive-call"}

// Syntax breakers: token sequences the parser rejects (established with `falco lint`, exit 1 and a
// parse error message, in the main file, in an included module and in a snippet file).
type breaker struct {
	ID   string
	Top  bool // a top-level fragment (otherwise a statement placed inside a subroutine body)
	Text string
	// AtEnd: the top-level fragment must be the last thing in the file (it swallows what follows)
	AtEnd bool
}

var breakers = []breaker{
	{ID: "double-assign", Text: `set req.http.X-Syn = = "1";`},
	{ID: "missing-semicolon", Text: `set req.http.X-Syn = "1"`},
	{ID: "stray-paren", Text: "if (req.http.X-Syn)) {\n  set req.http.X-Syn2 = \"1\";\n}"},
	{ID: "unterminated-string", Text: `set req.http.X-Syn = "abc;`},
	{ID: "declare-no-type", Text: `declare local var.syn;`},
	{ID: "if-no-paren", Text: "if req.http.X-Syn {\n  set req.http.X-Syn2 = \"1\";\n}"},
	{ID: "set-no-value", Text: `set req.http.X-Syn = ;`},
	{ID: "unknown-stmt", Text: `frobnicate req.http.X-Syn;`},
	{ID: "else-alone", Text: "set req.http.X-Syn0 = \"1\";\nelse {\n  set req.http.X-Syn2 = \"1\";\n}"},
	{ID: "unclosed-brace", Top: true, AtEnd: true, Text: "sub unclosed_recv {\n  set req.http.X-Syn = \"1\";\n"},
	{ID: "sub-no-name", Top: true, Text: "sub {\n}\n"},
	{ID: "unknown-toplevel", Top: true, AtEnd: true, Text: "frobnicate bar;\n"},
	{ID: "bad-acl-entry", Top: true, Text: "acl broken_acl {\n  1.2.3.4;\n}\n"},
	{ID: "backend-bad-prop", Top: true, Text: "backend broken_be {\n  host = \"example.com\";\n}\n"},
	{ID: "stray-close", Top: true, AtEnd: true, Text: "}\n"},
}

var breakerIndex = func() map[string]*breaker {
	m := map[string]*breaker{}
	for i := range breakers {
		m[breakers[i].ID] = &breakers[i]
	}
	return m
}()
