package main

import "verif/harness/fw"

func genF8(g *fw.GenCtx, em *emitter, reps []Exec) {}
