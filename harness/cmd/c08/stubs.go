package main

import "verif/harness/fw"

func genF5(g *fw.GenCtx, em *emitter)        {}
func genF7(g *fw.GenCtx, em *emitter)        {}
func genF8(g *fw.GenCtx, em *emitter, reps []Exec) {}
