package main

import "verif/harness/fw"

func genF2(g *fw.GenCtx, em *emitter) []Exec { return nil }
func genF3(g *fw.GenCtx, em *emitter) []Exec { return nil }
func genF4(g *fw.GenCtx, em *emitter)        {}
func genF5(g *fw.GenCtx, em *emitter)        {}
func genF6(g *fw.GenCtx, em *emitter)        {}
func genF7(g *fw.GenCtx, em *emitter)        {}
func genF8(g *fw.GenCtx, em *emitter, reps []Exec) {}
