package main

// Execution primitives of C08: every execution is one small VCL program run by falco's real
// interpreter (sub: TestProcessInit + ProcessTestSubroutine under the step-counting debugger;
// http: Interpreter.ServeHTTP with a recorder; tester: tester.New(conf, opts).Run(main) on a
// private directory, exactly the `falco test` path). The verdict is what was observed while it ran.

import (
	"bufio"
	"bytes"
	"encoding/json"
	"fmt"
	"net/http"
	"net/http/httptest"
	"os"
	"path/filepath"
	"sort"
	"strings"

	"github.com/ysugimoto/falco/v2/ast"
	"github.com/ysugimoto/falco/v2/config"
	"github.com/ysugimoto/falco/v2/interpreter"
	icontext "github.com/ysugimoto/falco/v2/interpreter/context"
	"github.com/ysugimoto/falco/v2/lexer"
	"github.com/ysugimoto/falco/v2/linter"
	lcontext "github.com/ysugimoto/falco/v2/linter/context"
	"github.com/ysugimoto/falco/v2/parser"
	"github.com/ysugimoto/falco/v2/resolver"
	"github.com/ysugimoto/falco/v2/tester"

	"verif/harness/fw"
	"verif/harness/sim"
)

// Exec is one execution.
type Exec struct {
	Fam   string            `json:"f"`            // F1..F8
	Con   string            `json:"c"`            // construct (finding-key suffix), never contains random values
	Mode  string            `json:"m"`            // sub | http | tester
	Scope string            `json:"s,omitempty"`  // sub/tester: scope (RECV…)
	Main  string            `json:"mn,omitempty"` // main VCL; "" = stdDecls+mainTail (sub), required for http
	Body  string            `json:"b,omitempty"`  // sub: statements of the driven subroutine; tester: complete test file
	Mods  map[string]string `json:"md,omitempty"` // include modules (in-memory resolver / files for tester)
	Reqs  []string          `json:"rq,omitempty"` // http: raw HTTP/1.x request heads (parsed by http.ReadRequest like net/http does)
	Lint  bool              `json:"l,omitempty"`  // member of the family only when the linter accepts the program
	Bound bool              `json:"bd,omitempty"` // carries at least one boundary operand / edge construct
	Tag   string            `json:"t,omitempty"`  // evidence tag (operator x type pair, function, …)
	Slow  bool              `json:"sl,omitempty"` // legitimately slow (sleeping director): wall time recorded as a tag only
	Alts  []Alt             `json:"a,omitempty"`  // parts of a combination, for localising a violation
	Iso   bool              `json:"i,omitempty"`  // run in a child process of the worker (may legitimately be able to kill the process)
	Test  string            `json:"ts,omitempty"` // tester: complete test file ("" = Body wrapped as `// @scope: <Scope>` + sub test_c08)
	Act   bool              `json:"ac,omitempty"` // http: the simulator answers with the actual response (context.WithActualResponse), not the process document
}

// Alt is one part of a combined program run alone.
type Alt struct {
	Con  string `json:"c"`
	Main string `json:"mn"`
}

type batch struct {
	Execs []Exec `json:"e"`
}

// ---- placeholders expanded in the worker (keep the case lines small) ----------------------------

var long70k = strings.Repeat("a", 70*1024)
var long8k = strings.Repeat("b", 8*1024)

func expand(s string) string {
	if !strings.Contains(s, "@") {
		return s
	}
	s = strings.ReplaceAll(s, "@LONG70K@", long70k)
	s = strings.ReplaceAll(s, "@LONG8K@", long8k)
	s = strings.ReplaceAll(s, "@FF@", "\xff")
	s = strings.ReplaceAll(s, "@FE@", "\xfe")
	s = strings.ReplaceAll(s, "@ORIGIN_HOST@", originHost)
	s = strings.ReplaceAll(s, "@ORIGIN_PORT@", originPort)
	return s
}

// ---- shared declarations (the identifiers C05 uses) ---------------------------------------------

const stdDecls = `backend example { .host = "127.0.0.1"; .port = "1"; }
backend example2 { .host = "127.0.0.1"; .port = "1"; }
director dir1 random { { .backend = example; .weight = 1; } { .backend = example2; .weight = 1; } }
acl acl1 { "192.0.2.0"/24; }
table tbl { "abc": "abc", }
table tbl_str STRING { "abc": "abc", }
table tbl_int INTEGER { "abc": 1, }
table tbl_float FLOAT { "abc": 1.5, }
table tbl_bool BOOL { "abc": true, }
table tbl_ip IP { }
table tbl_rtime RTIME { "abc": 10s, }
table tbl_acl ACL { "abc": acl1, }
table tbl_backend BACKEND { "abc": example, }
table tbl_regex REGEX { "abc": "a.c", }
ratecounter rc1 {}
ratecounter rc2 {}
penaltybox pb1 {}
`
const mainTail = "sub vcl_recv {\n#FASTLY RECV\nreturn(lookup);\n}\n"

func modsText(e *Exec) string {
	keys := make([]string, 0, len(e.Mods))
	for k := range e.Mods {
		keys = append(keys, k)
	}
	sort.Strings(keys)
	var sb strings.Builder
	for _, k := range keys {
		sb.WriteString("\n// module " + k + ":\n" + e.Mods[k])
	}
	return sb.String()
}

// ---- lint filter ----------------------------------------------------------------------------------

type lintRes struct {
	accepted bool
	errs     []string
	parseErr string
}

func lintProgram(src string) (r lintRes) {
	v, err := parser.New(lexer.NewFromString(src)).ParseVCL()
	if err != nil {
		r.parseErr = firstLine(err.Error())
		return
	}
	l := linter.New(&config.LinterConfig{})
	l.Lint(v, lcontext.New())
	if l.FatalError != nil {
		r.parseErr = "fatal: " + firstLine(l.FatalError.Error.Error())
		return
	}
	for _, e := range l.Errors {
		if e.Severity == linter.ERROR {
			r.errs = append(r.errs, fmt.Sprintf("line %d: %s", e.Token.Line, firstLine(e.Message)))
		}
	}
	r.accepted = len(r.errs) == 0
	return
}

func lintSourceSub(main, scope, body string) string {
	if main == "" {
		main = stdDecls
	}
	return main + "sub vcl_" + strings.ToLower(scope) + " {\n#FASTLY " + strings.ToUpper(scope) + "\n" + body + "\n}\n"
}

func firstLine(s string) string {
	if i := strings.IndexByte(s, '\n'); i >= 0 {
		s = s[:i]
	}
	if len(s) > 300 {
		s = s[:300] + "…"
	}
	return s
}

func clip(s string, n int) string {
	if len(s) > n {
		return s[:n] + fmt.Sprintf("…(%d bytes)", len(s))
	}
	return s
}

// ---- observation -------------------------------------------------------------------------------

// obs is what one execution showed.
type obs struct {
	class  string // ok | runtime-error | init-error | lint-rejected | parse-error | panic | steps | request-rejected
	msg    string
	stack  string
	detail map[string]any
}

// marker: the construct about to be executed is written to stderr so that a process-fatal crash
// (stack overflow, out of memory, a panic on the tester's own goroutine) is attributable by crashKey.
func marker(e *Exec) {
	fmt.Fprintf(os.Stderr, "\nC08-EXEC %s %s\n", e.Fam, e.Con)
}

type stepDebugger struct {
	steps  int
	budget int
}

func (d *stepDebugger) Run(ast.Node) interpreter.DebugState {
	d.steps++
	if d.steps > d.budget {
		panic(sim.ErrStepBudget)
	}
	return interpreter.DebugStepIn
}
func (d *stepDebugger) Message(string)                {}
func (d *stepDebugger) Log(*ast.LogStatement, string) {}

const stepBudget = 200000

// mapResolver serves the main VCL and include modules from memory.
type mapResolver struct {
	main string
	mods map[string]string
}

func (m *mapResolver) MainVCL() (*resolver.VCL, error) {
	return &resolver.VCL{Name: "main.vcl", Data: m.main}, nil
}
func (m *mapResolver) Resolve(stmt *ast.IncludeStatement) (*resolver.VCL, error) {
	if d, ok := m.mods[stmt.Module.Value]; ok {
		return &resolver.VCL{Name: stmt.Module.Value + ".vcl", Data: d}, nil
	}
	return nil, fmt.Errorf("module %s not found", stmt.Module.Value)
}
func (m *mapResolver) Name() string           { return "__MAP__" }
func (m *mapResolver) IncludePaths() []string { return []string{} }

// runSub: the `falco test` mechanics without the tester package (so that a panic is recoverable and
// the step counter can be attached).
func runSub(e *Exec) (o obs, program string) {
	mainVCL := expand(e.Main)
	if mainVCL == "" {
		mainVCL = stdDecls + mainTail
	}
	body := expand(e.Body)
	subVCL := "sub t {\n" + body + "\n}\n"
	program = "sub t {\n" + e.Body + "\n}\n"
	if e.Main != "" {
		program = e.Main + "\n// driven in " + e.Scope + ":\n" + program
	}
	program += modsText(e)
	if e.Lint {
		lm := expand(e.Main)
		lr := lintProgram(lintSourceSub(lm, e.Scope, body))
		if lr.parseErr != "" {
			return obs{class: "parse-error", msg: lr.parseErr}, program
		}
		if !lr.accepted {
			return obs{class: "lint-rejected", msg: strings.Join(lr.errs, " | ")}, program
		}
	}
	fw.JournalS(e.Con + "\n" + program)
	marker(e)
	var res *sim.Result
	run := func() {
		if len(e.Mods) > 0 {
			res = runSubWithResolver(&mapResolver{main: mainVCL, mods: e.Mods}, subVCL, e.Scope)
			return
		}
		res = sim.RunSub(mainVCL, subVCL, e.Scope, nil, sim.Request{URL: "http://localhost/path/a.html?x=1&y=2", Headers: map[string]string{"X-Any": "abc", "Cookie": "a=b; c=d", "User-Agent": "Mozilla/5.0"}},
			func(m *sim.Monitor) { m.NoSnaps = true; m.Budget = stepBudget })
	}
	p, msg, st := fw.Guard(run)
	switch {
	case p && msg == sim.ErrStepBudget:
		return obs{class: "steps", msg: msg}, program
	case p:
		return obs{class: "panic", msg: msg, stack: st}, program
	case res.ParseErr != nil:
		return obs{class: "parse-error", msg: firstLine(res.ParseErr.Error())}, program
	case res.InitErr != nil:
		return obs{class: "init-error", msg: firstLine(res.InitErr.Error())}, program
	case res.Err != nil:
		return obs{class: "runtime-error", msg: firstLine(res.Err.Error())}, program
	}
	return obs{class: "ok"}, program
}

func runSubWithResolver(rs resolver.Resolver, subVCL, scope string) *sim.Result {
	res := &sim.Result{}
	i := interpreter.New(icontext.WithResolver(rs))
	i.Debugger = &stepDebugger{budget: stepBudget}
	rq := httptest.NewRequest("GET", "http://localhost/", nil)
	rq.RemoteAddr = "192.0.2.1:1111"
	if err := i.TestProcessInit(wrapReq(rq)); err != nil {
		res.InitErr = err
		return res
	}
	v, err := parser.New(lexer.NewFromString(subVCL)).ParseVCL()
	if err != nil {
		res.ParseErr = err
		return res
	}
	var sub *ast.SubroutineDeclaration
	for _, st := range v.Statements {
		if s, ok := st.(*ast.SubroutineDeclaration); ok {
			sub = s
			break
		}
	}
	if sub == nil {
		res.ParseErr = fmt.Errorf("no subroutine")
		return res
	}
	sc, ok := sim.Scopes[scope]
	if !ok {
		sc = icontext.RecvScope
	}
	res.Err = i.ProcessTestSubroutine(sc, sub)
	return res
}

// ---- ServeHTTP ----------------------------------------------------------------------------------

type reply struct {
	Flows []struct {
		Subroutine string `json:"subroutine"`
	} `json:"flows"`
	Restarts int    `json:"restarts"`
	Error    string `json:"error"`
}

type httpObs struct {
	obs
	replies  []string // reply class per request
	restarts int
	recvs    int
	bad      string // reply oracle failure ("" = fine)
	badWhat  string
}

func parseRawRequest(raw string) (*http.Request, error) {
	raw = expand(raw)
	r, err := http.ReadRequest(bufio.NewReader(strings.NewReader(raw)))
	if err != nil {
		return nil, err
	}
	r.RemoteAddr = "192.0.2.1:40000"
	if v := r.Header.Get("X-C08-Remote"); v != "" {
		r.RemoteAddr = v
		r.Header.Del("X-C08-Remote")
	}
	return r, nil
}

func runHTTP(e *Exec) (ho httpObs, program string) {
	mainVCL := expand(e.Main)
	program = e.Main
	program += modsText(e)
	program += "\n// requests:\n"
	for _, r := range e.Reqs {
		program += "//   " + clip(strings.ReplaceAll(r, "\r\n", " | "), 200) + "\n"
	}
	if e.Lint {
		lr := lintProgram(mainVCL)
		if lr.parseErr != "" {
			ho.class, ho.msg = "parse-error", lr.parseErr
			return
		}
		if !lr.accepted {
			ho.class, ho.msg = "lint-rejected", strings.Join(lr.errs, " | ")
			return
		}
	}
	fw.JournalS(e.Con + "\n" + program)
	marker(e)
	var rs resolver.Resolver = resolver.NewStaticResolver("main.vcl", mainVCL)
	if len(e.Mods) > 0 {
		rs = &mapResolver{main: mainVCL, mods: e.Mods}
	}
	opts := []icontext.Option{icontext.WithResolver(rs)}
	if e.Act {
		opts = append(opts, icontext.WithActualResponse(true))
	}
	it := interpreter.New(opts...)
	ho.class = "ok"
	for ri, raw := range e.Reqs {
		req, err := parseRawRequest(raw)
		if err != nil {
			// net/http itself answers 400 to such a request; it never reaches the handler
			ho.replies = append(ho.replies, "request-rejected-by-net/http")
			continue
		}
		dbg := &stepDebugger{budget: stepBudget}
		it.Debugger = dbg
		rec := httptest.NewRecorder()
		method := req.Method // the program may rewrite req.method on this very object
		p, msg, st := fw.Guard(func() { it.ServeHTTP(rec, req) })
		if p {
			if msg == sim.ErrStepBudget {
				ho.class, ho.msg = "steps", msg
			} else {
				ho.class, ho.msg, ho.stack = "panic", msg, st
			}
			ho.detail = map[string]any{"request_index": ri}
			return // the interpreter's mutex is still held: abandon the instance
		}
		body := rec.Body.Bytes()
		if e.Act {
			// any response the recorder accepted is a response; only a crash / budget is judged
			ho.replies = append(ho.replies, fmt.Sprintf("actual-%dxx", rec.Code/100))
			continue
		}
		var rp reply
		jsonErr := json.Unmarshal(body, &rp)
		cls := ""
		switch {
		case method == "FASTLYPURGE" && jsonErr == nil && (rec.Code == 200 || rec.Code == 400):
			cls = fmt.Sprintf("purge-%d", rec.Code)
		case jsonErr == nil && rec.Code == 200 && rp.Error == "":
			cls = "200-json"
		case jsonErr == nil && rec.Code == 500 && rp.Error != "":
			cls = "500-json-error"
			ho.class, ho.msg = "runtime-error", firstLine(rp.Error)
		case jsonErr != nil && rec.Code == 500 && len(bytes.TrimSpace(body)) > 0:
			// ProcessInit failed: http.Error(w, err.Error(), 500) — a reported error in plain text
			cls = "500-text-init-error"
			ho.class, ho.msg = "init-error", firstLine(string(body))
		case jsonErr != nil && rec.Code == 503 && strings.Contains(string(body), "loop detected"):
			cls = "503-loop-detected"
		default:
			cls = "unexpected"
			switch {
			case len(bytes.TrimSpace(body)) == 0:
				ho.bad = "empty-body"
			case jsonErr != nil:
				ho.bad = "not-json"
			case rec.Code == 200 && rp.Error != "":
				ho.bad = "200-with-error"
			case rec.Code == 500:
				ho.bad = "500-without-error"
			default:
				ho.bad = fmt.Sprintf("status-%d", rec.Code)
			}
			ho.badWhat = fmt.Sprintf("request %d answered %d with body %q", ri, rec.Code, clip(string(body), 300))
		}
		ho.replies = append(ho.replies, cls)
		if jsonErr == nil {
			n := 0
			for _, f := range rp.Flows {
				if f.Subroutine == "vcl_recv" {
					n++
				}
			}
			if rp.Restarts > ho.restarts {
				ho.restarts = rp.Restarts
			}
			if n > ho.recvs {
				ho.recvs = n
			}
		}
	}
	return
}

// ---- tester (`falco test`) ------------------------------------------------------------------------

type testerObs struct {
	obs
	cases  int
	failed int
	errs   []string
}

// runTester writes main.vcl, the test file and the modules into a private directory and runs the
// tester package the way cmd/falco's Runner.Test does. The tester executes the test file on its own
// goroutine: a panic there cannot be recovered by anybody and takes the process down — exactly what
// `falco test` would do — so it is observed as the death of this worker (attributed by marker()).
func runTester(e *Exec) (to testerObs, program string) {
	mainVCL := expand(e.Main)
	if mainVCL == "" {
		mainVCL = stdDecls + mainTail
	}
	rawTest := e.Test
	if rawTest == "" {
		rawTest = testSub(e.Scope, e.Body)
	}
	test := expand(rawTest)
	program = "// main.test.vcl\n" + rawTest
	if e.Main != "" {
		program = "// main.vcl\n" + e.Main + "\n" + program
	}
	program += modsText(e)
	if e.Lint {
		lr := lintProgram(lintSourceSub(expand(e.Main), e.Scope, expand(e.Body)))
		if lr.parseErr != "" {
			to.class, to.msg = "parse-error", lr.parseErr
			return
		}
		if !lr.accepted {
			to.class, to.msg = "lint-rejected", strings.Join(lr.errs, " | ")
			return
		}
	}
	dir, err := os.MkdirTemp(filepath.Join(fw.Verif, ".build", "tmp"), "c08-tester-")
	if err != nil {
		to.class, to.msg = "harness-error", err.Error()
		return
	}
	defer os.RemoveAll(dir)
	mainPath := filepath.Join(dir, "main.vcl")
	os.WriteFile(mainPath, []byte(mainVCL), 0o644)
	os.WriteFile(filepath.Join(dir, "main.test.vcl"), []byte(test), 0o644)
	for k, v := range e.Mods {
		os.WriteFile(filepath.Join(dir, k+".vcl"), []byte(v), 0o644)
	}
	fw.JournalS(e.Con + "\n" + program)
	marker(e)
	rslv, err := resolver.NewFileResolvers(mainPath, nil)
	if err != nil {
		to.class, to.msg = "harness-error", err.Error()
		return
	}
	tc := &config.TestConfig{Filter: "*.test.vcl"} // Timeout 0 = the tester's default of 10 minutes: only the framework watchdog (120 s) decides about hangs
	opts := []icontext.Option{icontext.WithResolver(rslv[0]), icontext.WithMaxBackends(0), icontext.WithMaxAcls(0), icontext.WithOverrideVariables(map[string]any{})}
	var fac *tester.TestFactory
	var rerr error
	p, msg, st := fw.Guard(func() { fac, rerr = tester.New(tc, opts).Run(mainPath) })
	switch {
	case p:
		to.class, to.msg, to.stack = "panic", msg, st
	case rerr != nil && strings.Contains(rerr.Error(), "Panic occurred on running"):
		// the test runner's last-resort recover() caught a Go panic of the interpreter: the run of this
		// test file was aborted (ProcessTestSubroutine itself panics)
		to.class, to.msg, to.stack = "panic", firstLine(rerr.Error()), "recovered by tester.Run (no stack): "+firstLine(rerr.Error())
	case rerr != nil && strings.Contains(rerr.Error(), "Timeout"):
		to.class, to.msg = "tester-timeout", firstLine(rerr.Error())
	case rerr != nil:
		to.class, to.msg = "tester-error", firstLine(rerr.Error())
	default:
		to.class = "ok"
		for _, r := range fac.Results {
			for _, c := range r.Cases {
				to.cases++
				if c.Error != nil {
					to.failed++
					to.errs = append(to.errs, firstLine(c.Error.Error()))
				}
			}
		}
		if to.failed > 0 {
			to.class = "test-error"
			to.msg = to.errs[0]
		}
	}
	return
}
