package main

// Isolated executions. An execution that is expected to be able to take the whole process down
// (unbounded recursion -> stack overflow, huge counts -> out of memory, any panic on the tester's own
// goroutine) is run in a child process of the worker: the worker supervises it (exit status, stderr)
// and stays small itself. Without this a worker that survived a multi-GiB allocation keeps its
// address space and dies later, under RLIMIT_AS, in an innocent case (history-dependent false alarm),
// and a process-fatal execution takes the observations of its whole case with it.
// A hang is still left to the framework: the worker blocks on its child, the framework watchdog kills
// the process group and re-runs the case in isolation.

import (
	"bytes"
	"encoding/json"
	"fmt"
	"io"
	"os"
	"os/exec"
	"runtime/debug"
	"syscall"

	"verif/harness/fw"
)

const memLimit = 4 << 30 // RLIMIT_AS of workers and children (DESIGN: `ulimit -v 4 GiB`)

func childMain() {
	fw.Verif, fw.Repo, fw.Tier = os.Getenv("C08_VERIF"), os.Getenv("C08_REPO"), os.Getenv("C08_TIER")
	syscall.Setrlimit(syscall.RLIMIT_AS, &syscall.Rlimit{Cur: memLimit, Max: memLimit})
	in, _ := io.ReadAll(os.Stdin)
	var e Exec
	if err := json.Unmarshal(in, &e); err != nil {
		fmt.Fprintln(os.Stderr, "child: bad exec:", err)
		os.Exit(3)
	}
	e.Iso = false
	workerInit()
	var oc fw.Outcome
	runExec(&oc, &e, false)
	b, _ := json.Marshal(oc)
	os.Stdout.Write(append(b, '\n'))
}

func runIsolated(oc *fw.Outcome, e *Exec) {
	marker(e) // attribution of a watchdog firing while the child runs
	fw.JournalS(e.Con + "\n(isolated child) " + clip(e.Main, 2000) + "\n" + clip(e.Body+e.Test, 2000))
	self, _ := os.Executable()
	cmd := exec.Command(self)
	cmd.Env = append(os.Environ(), "C08_CHILD=1", "GOTRACEBACK=all", "C08_VERIF="+fw.Verif, "C08_REPO="+fw.Repo, "C08_TIER="+fw.Tier)
	in, _ := json.Marshal(e)
	cmd.Stdin = bytes.NewReader(in)
	var stdout, stderr bytes.Buffer
	cmd.Stdout, cmd.Stderr = &stdout, &stderr
	err := cmd.Run()
	if err == nil {
		// the last line of stdout is the outcome (falco itself may print to stdout)
		out := bytes.TrimRight(stdout.Bytes(), "\n")
		if i := bytes.LastIndexByte(out, '\n'); i >= 0 {
			out = out[i+1:]
		}
		var co fw.Outcome
		if jerr := json.Unmarshal(out, &co); jerr == nil {
			oc.Evals += co.Evals
			oc.NT = append(oc.NT, co.NT...)
			for k, n := range co.Tags {
				oc.TagN(k, n)
			}
			oc.Inconc = append(oc.Inconc, co.Inconc...)
			for _, v := range co.Viols {
				oc.Violate(v.Key, v.What, v.Detail)
			}
			return
		}
		oc.Inconc = append(oc.Inconc, "harness: isolated child of "+e.Con+" returned no outcome")
		return
	}
	// the child died: classify from its stderr
	oc.Evals++
	oc.Tag("fam/" + e.Fam)
	se := stderr.String()
	key := crashKey(fw.Case{}, "died", fmt.Sprintf("\nC08-EXEC %s %s\n", e.Fam, e.Con)+se)
	class := "process-fatal"
	oc.Tag(e.Fam + "/" + class)
	if e.Tag != "" {
		oc.Tag("x:" + e.Tag)
	}
	program := e.Main
	if e.Body != "" {
		program += "\n// driven/test subroutine body (" + e.Mode + ", " + e.Scope + "):\n" + e.Body
	}
	if e.Test != "" {
		program += "\n// main.test.vcl:\n" + e.Test
	}
	program += modsText(e)
	if e.Bound {
		oc.NonTrivialS(e.Mode + "|" + e.Scope + "|iso|" + program)
	}
	oc.Violate(key, fmt.Sprintf("%s took the whole process down (%v): %s\nprogram:\n%s", modeName(e.Mode), err, crashLine(se), clip(program, 1500)),
		map[string]any{"family": e.Fam, "construct": e.Con, "mode": e.Mode, "scope": e.Scope, "program": clip(program, 6000), "exit": err.Error(), "stderr": headTail(se, 6000)})
}

func crashLine(se string) string {
	for _, needle := range []string{"fatal error: ", "panic: ", "runtime: "} {
		if i := bytes.Index([]byte(se), []byte(needle)); i >= 0 {
			return firstLine(se[i:])
		}
	}
	return firstLine(se)
}

func headTail(s string, n int) string {
	if len(s) <= n {
		return s
	}
	return s[:n*3/4] + "\n…\n" + s[len(s)-n/4:]
}

var _ = debug.SetMaxStack
