package main

// F8 — the `falco test` path: representatives of F1/F2/F3 and of the include cycles wrapped as test
// subroutines, plus the testing.* / assert.* helpers with boundary arguments, all run through
// tester.New(conf, opts).Run(main). Requirement: a TestCase result (pass or Error) or a reported
// error of the run, never a panic/hang.

import (
	"strings"

	"verif/harness/fw"
)

// helper subroutines available to the testing.* programs (in the main VCL)
const f8MainSubs = `sub helper { set req.http.H = "1"; }
sub rec { call rec; }
sub fn_int INTEGER { return 1; }
sub fn_rec INTEGER { return fn_rec(); }
sub with_params(STRING var.a, INTEGER var.b) STRING { return var.a; }
sub bool_param(BOOL var.a) BOOL { return var.a; }
`

type f8prog struct {
	con  string
	test string // complete test file
}

func testSub(scope, body string) string {
	return "// @scope: " + strings.ToLower(scope) + "\nsub test_c08 {\n" + body + "\nassert.true(true);\n}\n"
}

func f8HelperPrograms() []f8prog {
	var ps []f8prog
	one := func(con string, stmts ...string) {
		for _, s := range stmts {
			c := con
			if con == "assert.*" {
				// the construct is the assertion the statement list ends with
				c = lastCallee(s, "assert")
			}
			ps = append(ps, f8prog{c, testSub("recv", s)})
		}
	}
	one("testing.call_subroutine",
		`testing.call_subroutine("nosuch");`, `testing.call_subroutine("");`, `testing.call_subroutine("rec");`, `testing.call_subroutine("fn_rec");`,
		`declare local var.i INTEGER; set var.i = testing.call_subroutine("fn_rec");`, `testing.call_subroutine("vcl_recv");`, `testing.call_subroutine("vcl_deliver");`,
		`testing.call_subroutine("test_c08");`, `testing.call_subroutine("with_params");`, `testing.call_subroutine("with_params", 1, "x");`,
		`declare local var.s STRING; set var.s = testing.call_subroutine("with_params", "a", 9223372036854775807);`, `testing.call_subroutine("with_params", req.http.Not-Set, -9223372036854775808);`,
		`testing.call_subroutine("with_params", "@LONG70K@", 1, 2, 3);`, `testing.call_subroutine("helper", "extra");`, `testing.call_subroutine(1);`, `testing.call_subroutine();`,
		`testing.call_subroutine(req.http.Not-Set);`, `declare local var.b BOOL; set var.b = testing.call_subroutine("bool_param", "notbool");`, `declare local var.b BOOL; set var.b = testing.call_subroutine("bool_param", now);`,
		`declare local var.i INTEGER; set var.i = testing.call_subroutine("helper");`, `declare local var.s STRING; set var.s = testing.call_subroutine("fn_int"); set var.s = testing.call_subroutine("fn_int") testing.call_subroutine("fn_int");`,
		`if (testing.call_subroutine("bool_param", true)) { log "x"; }`, `testing.call_subroutine("bool_param", example);`, `testing.call_subroutine("bool_param", acl1);`,
	)
	// mocks: the mock targets live in the test file
	mockDecls := "sub mock_plain { set req.http.M = \"1\"; }\nsub mock_loop { call helper; }\nsub mock_int INTEGER { return 2; }\nsub mock_int_loop INTEGER { return fn_int(); }\nsub mock_str STRING { return \"s\"; }\n"
	for _, s := range []string{
		`testing.mock("nosuch", "mock_plain");`, `testing.mock("helper", "nosuch");`, `testing.mock("helper", "mock_plain"); call helper; testing.restore_mock("helper"); call helper;`,
		`testing.mock("helper", "mock_loop"); call helper;`, `testing.mock("helper", "mock_loop"); testing.call_subroutine("helper");`,
		`testing.mock("fn_int", "mock_int_loop"); declare local var.i INTEGER; set var.i = fn_int();`, `testing.mock("fn_int", "mock_plain");`, `testing.mock("helper", "mock_int");`, `testing.mock("fn_int", "mock_str");`,
		`testing.mock("vcl_recv", "mock_plain");`, `testing.mock("", "");`, `testing.mock(1, 2);`, `testing.mock("helper");`, `testing.mock("helper", "mock_plain"); testing.mock("helper", "mock_plain"); testing.restore_all_mocks(); testing.restore_all_mocks();`,
		`testing.restore_mock("nosuch");`, `testing.restore_mock("");`, `testing.restore_mock(1);`, `testing.restore_mock();`, `testing.restore_all_mocks(1);`, `testing.mock("mock_plain", "mock_plain");`, `testing.mock("helper", "test_c08"); call helper;`,
		`testing.mock("rec", "mock_plain"); call rec;`, `testing.mock("fn_rec", "mock_int"); declare local var.i INTEGER; set var.i = fn_rec();`,
	} {
		ps = append(ps, f8prog{"testing.mock", mockDecls + testSub("recv", s)})
	}
	// mock targets that share a name with a main-VCL subroutine, chains and cycles of overrides,
	// each reached through a call statement and through testing.call_subroutine
	sameDecls := "sub helper { set req.http.M = \"same\"; }\nsub mock_plain { set req.http.M = \"1\"; }\nsub mock_b { call helper; }\nsub fn_int INTEGER { return 7; }\n"
	for _, s := range []string{
		`testing.mock("helper", "helper"); testing.call_subroutine("helper");`, `testing.mock("helper", "helper"); call helper;`,
		`testing.mock("helper", "helper"); testing.call_subroutine("vcl_recv");`, `testing.mock("helper", "helper"); testing.restore_mock("helper"); testing.call_subroutine("helper");`,
		`testing.mock("helper", "rec"); testing.mock("rec", "helper"); testing.call_subroutine("helper");`, `testing.mock("helper", "rec"); testing.mock("rec", "helper"); call helper;`,
		`testing.mock("helper", "mock_plain"); testing.mock("mock_plain", "helper"); testing.call_subroutine("helper"); call helper;`,
		`testing.mock("helper", "mock_b"); testing.mock("mock_b", "mock_plain"); testing.call_subroutine("helper"); testing.call_subroutine("mock_b");`,
		`testing.mock("fn_int", "fn_int"); declare local var.i INTEGER; set var.i = fn_int(); set var.i = testing.call_subroutine("fn_int");`,
		`testing.mock("helper", "helper"); testing.mock("helper", "helper"); testing.call_subroutine("helper"); testing.restore_all_mocks(); testing.call_subroutine("helper");`,
	} {
		ps = append(ps, f8prog{"testing.mock", sameDecls + testSub("recv", s)})
	}
	tableDecls := "table t2 { \"a\": \"b\", }\ntable t_int INTEGER { \"a\": 1, }\ntable tbl { \"own\": \"shadow\", }\n"
	for _, s := range []string{
		`testing.table_set(nosuch, "k", "v");`, `testing.table_set(tbl_int, "k", "v");`, `testing.table_set(tbl, "", ""); log table.lookup(tbl, "");`, `testing.table_set(tbl, "@LONG70K@", "@LONG70K@"); log table.lookup(tbl, "@LONG70K@");`,
		`testing.table_set("tbl", "k", "v");`, `testing.table_set(tbl, 1, 2);`, `testing.table_set(tbl);`, `testing.table_set(tbl, req.http.Not-Set, req.http.Not-Set); log table.lookup(tbl, req.http.Not-Set, "d");`,
		`testing.table_set(t2, "k", "v");`, `testing.table_set(tbl_ip, "k", "not-an-ip"); declare local var.ip IP; set var.ip = table.lookup_ip(tbl_ip, "k", client.ip);`,
		`testing.table_merge(tbl, nosuch);`, `testing.table_merge(nosuch, t2);`, `testing.table_merge(tbl, t_int);`, `testing.table_merge(tbl_int, t_int); log table.lookup_integer(tbl_int, "a", 0);`, `testing.table_merge(tbl, tbl); log table.lookup(tbl, "own");`,
		`testing.table_merge(tbl, t2); testing.table_merge(tbl, t2); log table.lookup(tbl, "a");`, `testing.table_merge("tbl", "t2");`, `testing.table_merge(tbl);`, `testing.table_merge(t2, t2);`,
	} {
		ps = append(ps, f8prog{"testing.table_*", tableDecls + testSub("recv", s)})
	}
	one("testing.inject_variable",
		`testing.inject_variable("req.http.X", 1); log req.http.X; set req.http.Y = req.http.X "s";`, `testing.inject_variable("client.ip", "not-ip"); if (client.ip ~ acl1) { log "x"; } log client.ip;`,
		`testing.inject_variable("now", "x"); log now; log strftime({"%Y"}, now); declare local var.t TIME; set var.t = now; set var.t += 1s;`, `testing.inject_variable("req.url", 1); log req.url; log req.url.path; log querystring.get(req.url, "a");`,
		`testing.inject_variable("", ""); log req.url;`, `testing.inject_variable("req.backend", "x"); log req.backend; set req.backend = example;`, `testing.inject_variable("client.geo.latitude", "str"); declare local var.f FLOAT; set var.f = client.geo.latitude; set var.f *= 2;`,
		`testing.inject_variable("req.restarts", "abc"); if (req.restarts > 1) { log "x"; } declare local var.i INTEGER; set var.i = req.restarts; set var.i += 1;`, `testing.inject_variable("req.restarts", 9223372036854775807); declare local var.i INTEGER; set var.i = req.restarts; set var.i += 1; restart;`,
		`testing.inject_variable("obj.status", "abc"); log testing.inspect("obj.status");`, `testing.inject_variable("req.is_ssl", "yes"); if (req.is_ssl) { log "x"; }`, `testing.inject_variable("req.protocol", 1); log req.protocol; if (req.is_ssl) { log "x"; }`,
		`testing.inject_variable("client.ip", acl1); log client.ip;`, `testing.inject_variable("req.http.X", example); log req.http.X;`, `testing.inject_variable("req.http.X", now); log req.http.X;`, `testing.inject_variable("req.http.X", req.http.Not-Set); log req.http.X; if (req.http.X) { log "set"; }`,
		`testing.inject_variable(1, 1);`, `testing.inject_variable("req.url");`, `testing.inject_variable("nosuch.variable", "v"); log nosuch.variable;`, `testing.inject_variable("var.local", 1); declare local var.local INTEGER; log var.local;`,
		`testing.inject_variable("client.requests", -9223372036854775808); declare local var.i INTEGER; set var.i = client.requests; set var.i -= 1; set var.i /= -1;`, `testing.inject_variable("req.body", "@LONG70K@"); log req.body; log std.strlen(req.body);`,
		`testing.inject_variable("math.PI", "x"); declare local var.f FLOAT; set var.f = math.PI;`, `testing.inject_variable("server.ip", "::"); log server.ip; if (server.ip ~ acl1) { log "x"; }`,
	)
	one("testing.fixed_time",
		`testing.fixed_time(0); log now; log now.sec; log strftime({"%Y-%m-%d"}, now);`, `testing.fixed_time(-1); log now; log now.sec;`, `testing.fixed_time(9223372036854775807); log now; log now.sec; log strftime({"%Y"}, now); declare local var.t TIME; set var.t = now; set var.t += 1s; log time.add(now, 9223372036s);`,
		`testing.fixed_time(-9223372036854775808); log now; log strftime({"%Y %s %c"}, now); log time.sub(now, 9223372036s); log time.units("ns", now);`, `testing.fixed_time("0000-00-00 00:00:00");`, `testing.fixed_time("9999-12-31 23:59:59"); log now; log time.add(now, 9223372036s);`,
		`testing.fixed_time("0000-01-01 00:00:00"); log now; log now.sec; log time.sub(now, 9223372036s);`, `testing.fixed_time(""); log now;`, `testing.fixed_time(std.integer2time(-1)); log now;`, `testing.fixed_time(std.integer2time(9223372036854775807)); log now; log time.is_after(now, std.integer2time(0));`,
		`testing.fixed_time(1.5);`, `testing.fixed_time(true);`, `testing.fixed_time();`, `testing.fixed_time(1, 2);`, `testing.fixed_time(req.http.Not-Set);`, `testing.fixed_time(253402300800); log now; log strftime({"%Y-%m-%dT%H:%M:%SZ"}, now); set req.http.Date = now;`,
		`testing.fixed_time(0); log time.interval_elapsed_ratio(now, now, now); log digest.time_hmac_sha256("c2VjcmV0", 30, 1); log digest.time_hmac_md5("c2VjcmV0", 1, 0);`,
	)
	one("testing.override_host", `testing.override_host(""); log req.http.Host;`, `testing.override_host("@LONG8K@"); log req.http.Host;`, `testing.override_host(1);`, `testing.override_host();`, `testing.override_host("a", "b");`, `testing.override_host(req.http.Not-Set); log req.http.Host;`)
	one("testing.inspect",
		`log testing.inspect("");`, `log testing.inspect("nosuch");`, `log testing.inspect("req.http.X");`, `log testing.inspect(1);`, `log testing.inspect("obj.status"); log testing.inspect("obj.response");`, `log testing.inspect("bereq.header_bytes_written");`,
		`log testing.inspect("bereq.body_bytes_written");`, `log testing.inspect("beresp.backend.ip");`, `log testing.inspect("resp.body_bytes_written");`, `log testing.inspect("var.nosuch");`, `log testing.inspect("req.backend");`, `log testing.inspect("client.ip");`,
		`log testing.inspect("obj.hits"); log testing.inspect("obj.ttl"); log testing.inspect("obj.age"); log testing.inspect("obj.lastuse");`, `log testing.inspect("beresp.ttl"); log testing.inspect("beresp.stale_if_error");`, `log testing.inspect();`, `log testing.inspect("a", "b");`,
		`log testing.inspect("time.elapsed"); log testing.inspect("time.to_first_byte"); log testing.inspect("time.end");`, `log testing.inspect("esi.allow_inside_cdata"); log testing.inspect("segmented_caching.total_blocks");`,
	)
	one("testing.fixed_access_rate",
		`testing.fixed_access_rate(-1); if (ratelimit.check_rate("k", rc1, 1, 10, 100, pb1, 1m)) { log "x"; } log ratecounter.rc1.rate.10s;`, `testing.fixed_access_rate(0); if (ratelimit.check_rate("k", rc1, 1, 10, 100, pb1, 1m)) { log "x"; }`,
		`testing.fixed_access_rate(1e308); if (ratelimit.check_rate("k", rc1, 1, 10, 100, pb1, 1m)) { log "x"; } log ratecounter.rc1.rate.1s; log ratecounter.rc1.bucket.10s;`, `testing.fixed_access_rate(math.NAN); if (ratelimit.check_rate("k", rc1, 1, 10, 100, pb1, 1m)) { log "x"; } log ratecounter.rc1.rate.60s;`,
		`testing.fixed_access_rate("x");`, `testing.fixed_access_rate();`, `testing.fixed_access_rate(9223372036854775807); if (ratelimit.check_rates("k", rc1, 1, 10, 100, rc2, 1, 60, 100, pb1, 1m)) { log "x"; }`, `testing.fixed_access_rate(math.POS_INFINITY); declare local var.i INTEGER; set var.i = ratelimit.ratecounter_increment(rc1, "k", 1); log ratecounter.rc1.rate.10s;`,
	)
	one("testing.set_backend_health",
		`testing.set_backend_health(example, false); log backend.example.healthy; log req.backend.healthy;`, `testing.set_backend_health(nosuch, true);`, `testing.set_backend_health("example", false);`, `testing.set_backend_health(dir1, false); log director.dir1.healthy;`,
		`testing.set_backend_health(example, false); testing.set_backend_health(example2, false); log director.dir1.healthy; set req.backend = dir1; log req.backend.healthy;`, `testing.set_backend_health(example);`, `testing.set_backend_health(example, 1);`, `testing.set_backend_health();`,
		`testing.set_backend_health(req.backend, false); log req.backend.healthy;`, `declare local var.b BACKEND; testing.set_backend_health(var.b, false);`, `testing.set_backend_health(acl1, false);`,
	)
	one("testing.get_env", `log testing.get_env("");`, `log testing.get_env("PATH");`, `log testing.get_env(1);`, `log testing.get_env();`, `log testing.get_env("=");`, `log testing.get_env("@LONG8K@");`)
	one("testing.variables", `log testing.state;`, `log testing.synthetic_body;`, `log testing.origin_host_header;`, `set testing.state = "x";`, `error 601; log testing.state; log testing.synthetic_body;`, `unset testing.state;`, `log testing.nosuch;`, `if (testing.state == lookup) { log "x"; }`)
	one("assert.*",
		`assert.equal(1);`, `assert.equal();`, `assert.equal(1, 1, 1, 1);`, `assert.equal(1, "1");`, `assert.equal(now, now);`, `assert.equal(example, dir1);`, `assert.equal(acl1, acl1);`, `assert.equal(math.NAN, math.NAN);`, `assert.equal(req.http.Not-Set, req.http.Not-Set);`,
		`assert.not_equal(1);`, `assert.strict_equal(example, example);`, `assert.strict_equal(1, 1.0);`, `assert.not_strict_equal(acl1, example);`, `assert.equal_fold(1, 2);`, `assert.equal_fold("ß", "SS");`,
		`assert.match("a", "(");`, `assert.match("aaaaaaaaaaaaaaaaaaaaaaaaaaaaaaaaaaaaaaaaaaaa!", "(a+)+$");`, `assert.match(1, 2);`, `assert.match("a");`, `assert.not_match("a", "a{100000}");`, `assert.match("@LONG70K@", "(a|aa)+$");`,
		`assert.is_json("@LONG70K@");`, `assert.is_json("");`, `assert.is_json({"{"a":{"a":{"a":[[[[[[[[[[1]]]]]]]]]]}}}"});`, `assert.is_json(1);`, `assert.is_json();`, `assert.is_json({"[[[[[[[[[[[[[[[[[[[[[[[[[[[[[[[[[[[[[[[[[[[[[[[[[[[[[[[[[[[["});`,
		`assert.subroutine_called("nosuch", -1);`, `assert.subroutine_called("x", 9223372036854775807);`, `assert.subroutine_called(1);`, `assert.subroutine_called();`, `call helper; assert.subroutine_called("helper", 1, "m", "extra");`, `assert.not_subroutine_called(1);`, `assert.subroutine_called("helper", "1");`,
		`assert.state(nosuch);`, `assert.state("lookup");`, `assert.state();`, `assert.state(lookup, 1);`, `assert.not_state(1);`, `return(lookup); assert.state(lookup);`, `assert.state(example);`,
		`assert.error(-1);`, `assert.error(9223372036854775807, "", "");`, `assert.error("601");`, `assert.error();`, `error 601 "x"; assert.error(601, 1);`, `assert.not_error(1);`, `assert.error(601, req.http.Not-Set);`,
		`assert.restart(1);`, `assert.not_restart(1, 2);`, `restart; assert.restart();`, `assert.true(1);`, `assert.true();`, `assert.false("false");`, `assert.true(req.http.Not-Set);`, `assert(1);`, `assert();`, `assert(req.http.Not-Set, 1);`,
		`assert.contains("", "");`, `assert.contains(1, 2);`, `assert.contains("a");`, `assert.not_contains("@LONG70K@", "");`, `assert.starts_with(1, 2);`, `assert.starts_with("", "");`, `assert.ends_with("", "@LONG70K@");`, `assert.ends_with();`,
		`assert.is_notset(1);`, `assert.is_notset();`, `assert.is_notset(req.http.Not-Set, 1);`, `declare local var.ip IP; assert.is_notset(var.ip);`, `assert.is_notset(example);`, `assert.true(true, "@LONG70K@");`, `assert.equal("a", "b", 1);`,
	)
	// lifecycle statements inside a test subroutine, in every scope
	for _, sc := range []string{"recv", "hash", "hit", "miss", "pass", "fetch", "error", "deliver", "log"} {
		for _, st := range []string{"restart;", "return(restart);", "error 601;", "error;", "return(lookup);", "return(deliver);", "return;", "synthetic \"x\";", "esi;",
			"testing.call_subroutine(\"vcl_" + sc + "\");", "testing.call_subroutine(\"vcl_recv\"); testing.call_subroutine(\"vcl_recv\"); assert.state(lookup);", "restart; restart; restart; restart; restart;",
			"set req.http.X = \"1\"; restart;", "if (req.restarts < 5) { restart; }", "log req.restarts; set req.http.R = req.restarts; return(restart);"} {
			ps = append(ps, f8prog{"lifecycle-in-test", testSub(sc, st)})
		}
	}
	// metadata / structure of the test file
	ps = append(ps,
		f8prog{"testfile:unknown-scope", "// @scope: nosuch\nsub test_x {\nassert.true(true);\n}\n"},
		f8prog{"testfile:all-scopes", "// @scope: recv, hash, hit, miss, pass, fetch, error, deliver, log\nsub test_x {\nlog req.url;\nassert.true(true);\n}\n"},
		f8prog{"testfile:all-scopes", "// @scope: recv, hash, hit, miss, pass, fetch, error, deliver, log\nsub test_x {\nlog beresp.status; log obj.status; log resp.status; log bereq.url;\nrestart;\n}\n"},
		f8prog{"testfile:duplicate-scopes", "// @scope: recv,recv,,recv, ,\nsub test_x {\nassert.true(true);\n}\n"},
		f8prog{"testfile:long-suite-name", "// @scope: recv\n// @suite: @LONG70K@\nsub test_x {\nassert.true(false, \"@LONG8K@\");\n}\n"},
		f8prog{"testfile:skip-and-tags", "// @scope: recv\n// @skip\n// @tag: !, a, !a, ,\nsub test_x {\nassert.true(true);\n}\n// @tag:\n// @recv\nsub test_y {\nassert.true(true);\n}\n"},
		f8prog{"testfile:empty", ""},
		f8prog{"testfile:comment-only", "// nothing\n"},
		f8prog{"testfile:parse-error", "sub test_recv {"},
		f8prog{"testfile:no-subroutine", "table t { }\nacl a { }\nbackend b { .host = \"127.0.0.1\"; }\n"},
		f8prog{"testfile:reserved-name", "// @scope: recv\nsub vcl_recv {\ncall vcl_recv;\nassert.true(true);\n}\n"},
		f8prog{"testfile:name-suffix-scope", "sub test_recv {\nassert.true(true);\n}\nsub test_log {\nassert.true(true);\n}\nsub test_noscope {\nassert.true(true);\n}\n"},
		f8prog{"testfile:duplicate-test-names", "// @scope: recv\nsub test_x {\nassert.true(true);\n}\n// @scope: recv\nsub test_x {\nassert.true(false);\n}\n"},
		f8prog{"testfile:self-recursive-test", "// @scope: recv\nsub test_x {\ncall test_x;\n}\n"},
		f8prog{"testfile:functional-test-sub", "// @scope: recv\nsub test_x INTEGER {\nreturn 1;\n}\n"},
		f8prog{"testfile:parameterised-test-sub", "// @scope: recv\nsub test_x(STRING var.a) {\nlog var.a;\n}\n"},
		f8prog{"testfile:redeclares-main-objects", "backend example { .host = \"127.0.0.1\"; }\nacl acl1 { }\ntable tbl INTEGER { }\nsub helper { log \"shadow\"; }\n// @scope: recv\nsub test_x {\ncall helper;\nif (client.ip ~ acl1) { log \"x\"; }\nset req.backend = example;\nlog table.lookup(tbl, \"abc\");\n}\n"},
		f8prog{"testfile:include-in-test-sub", "// @scope: recv\nsub test_x {\ninclude \"nosuch\";\nassert.true(true);\n}\n"},
		f8prog{"testfile:include-top-level", "include \"nosuch\";\n// @scope: recv\nsub test_x {\nassert.true(true);\n}\n"},
		f8prog{"describe:plain", "describe grp {\n  before_recv { set req.http.B = \"1\"; }\n  after_recv { unset req.http.B; }\n  // @scope: recv\n  sub test_a { assert.equal(req.http.B, \"1\"); }\n  // @scope: recv\n  sub test_b { assert.true(true); }\n}\n"},
		f8prog{"describe:empty", "describe grp {\n}\n"},
		f8prog{"describe:hook-errors", "describe grp {\n  before_recv { set req.http.B = nosuch.variable; }\n  // @scope: recv\n  sub test_a { assert.true(true); }\n}\n"},
		f8prog{"describe:hook-restarts", "describe grp {\n  before_recv { restart; }\n  after_recv { error 601; }\n  // @scope: recv\n  sub test_a { assert.true(true); }\n}\n"},
		f8prog{"describe:hook-recursion", "describe grp {\n  before_recv { call rec; }\n  // @scope: recv\n  sub test_a { assert.true(true); }\n}\n"},
		f8prog{"describe:hook-calls-test", "describe grp {\n  before_recv { call test_a; testing.call_subroutine(\"test_a\"); }\n  // @scope: recv\n  sub test_a { assert.true(true); }\n}\n"},
		f8prog{"describe:hook-other-scope", "describe grp {\n  before_log { log resp.status; }\n  after_hash { set req.hash += \"x\"; }\n  // @scope: recv, log, hash\n  sub test_a { assert.true(true); }\n}\n"},
		f8prog{"describe:duplicate-hooks", "describe grp {\n  before_recv { log \"1\"; }\n  before_recv { log \"2\"; }\n  // @scope: recv\n  sub test_a { assert.true(true); }\n}\n"},
		f8prog{"describe:nested", "describe outer {\n  describe inner {\n    // @scope: recv\n    sub test_a { assert.true(true); }\n  }\n}\n"},
		f8prog{"describe:duplicate-names", "describe grp {\n  // @scope: recv\n  sub test_a { assert.true(true); }\n  // @scope: recv\n  sub test_a { assert.true(false); }\n}\ndescribe grp {\n  // @scope: recv\n  sub test_a { assert.true(true); }\n}\n"},
		f8prog{"describe:mock-inside", "describe grp {\n  sub mock_h { set req.http.M = \"1\"; }\n  // @scope: recv\n  sub test_a { testing.mock(\"helper\", \"mock_h\"); call helper; assert.equal(req.http.M, \"1\"); }\n  // @scope: recv\n  sub test_b { call helper; call mock_h; }\n}\n// @scope: recv\nsub test_after { testing.mock(\"helper\", \"mock_h\"); call helper; }\n"},
		f8prog{"describe:unknown-statement", "describe grp {\n  set req.http.X = \"1\";\n}\n"},
		f8prog{"describe:unterminated", "describe grp {\n  // @scope: recv\n  sub test_a { assert.true(true); }\n"},
	)
	return ps
}

// f8ArgSweep: every assert.* / testing.* function with arguments of every type in every position
// (arity 0..3, all alike and mixed with the argument the function usually takes first)
var f8Functions = []string{
	"assert", "assert.true", "assert.false", "assert.is_notset", "assert.is_json", "assert.equal", "assert.not_equal", "assert.strict_equal", "assert.not_strict_equal",
	"assert.equal_fold", "assert.match", "assert.not_match", "assert.contains", "assert.not_contains", "assert.starts_with", "assert.ends_with", "assert.subroutine_called",
	"assert.not_subroutine_called", "assert.restart", "assert.not_restart", "assert.state", "assert.not_state", "assert.error", "assert.not_error",
	"testing.call_subroutine", "testing.fixed_access_rate", "testing.fixed_time", "testing.get_env", "testing.inject_variable", "testing.inspect", "testing.mock", "testing.override_host",
	"testing.restore_all_mocks", "testing.restore_mock", "testing.set_backend_health", "testing.table_merge", "testing.table_set",
}

func f8ArgSweep(quick bool, seed int64) []f8prog {
	vals := []string{`"helper"`, `""`, "1", "-1", "1.5", "true", "10s", "now", "req.http.Not-Set", "client.ip", "example", "acl1", "tbl", "lookup", "9223372036854775807"}
	var ps []f8prog
	n := 0
	for _, fn := range f8Functions {
		for vi, v := range vals {
			forms := []string{fn + "(" + v + ");", fn + "(" + v + ", " + v + ");", fn + "(" + v + ", " + v + ", " + v + ");",
				fn + `("helper", ` + v + ");", fn + `("helper", ` + v + ", " + v + ");", fn + "(" + v + `, "x");`, fn + `(tbl, "k", ` + v + ");", fn + `("req.http.X", ` + v + ");"}
			for fi, f := range forms {
				n++
				if quick && (vi+fi+int(seed))%4 != 0 {
					continue
				}
				call := f
				if !strings.HasPrefix(fn, "assert") && fn != "testing.call_subroutine" {
					// also in value position
					if n%2 == 0 {
						call = "log " + strings.TrimSuffix(f, ";") + ";"
					}
				}
				ps = append(ps, f8prog{fn, testSub("recv", `testing.call_subroutine("vcl_recv"); `+call)})
			}
		}
		ps = append(ps, f8prog{fn, testSub("recv", fn+"();")})
	}
	return ps
}

// lastCallee returns the name of the last called function starting with prefix in a statement list.
func lastCallee(stmts, prefix string) string {
	i := strings.LastIndex(stmts, prefix)
	if i < 0 {
		return prefix
	}
	j := i
	for j < len(stmts) && (stmts[j] == '.' || stmts[j] == '_' || stmts[j] >= 'a' && stmts[j] <= 'z' || stmts[j] >= '0' && stmts[j] <= '9') {
		j++
	}
	return stmts[i:j]
}

func genF8(g *fw.GenCtx, em *emitter, reps []Exec) {
	// (a) representatives of F1/F2/F3: same construct name, so that the same root cause on the same construct
	// has the same finding key whichever path reached it
	f1n := 0
	for _, e := range reps {
		if e.Fam == "F1" {
			// F1 contributes many representatives: every 3rd in the quick tier
			f1n++
			if g.Quick() && f1n%3 != 0 {
				continue
			}
		}
		t := Exec{Fam: "F8", Con: e.Con, Mode: "tester", Scope: e.Scope, Main: e.Main, Body: e.Body, Lint: e.Lint, Bound: true, Tag: "tester/" + e.Fam, Iso: true}
		em.add(t)
	}
	// (b) include cycles through the file resolver
	for _, p := range f6Programs() {
		if !strings.Contains(p.con, "self") && !strings.Contains(p.con, "cycle") && !strings.Contains(p.con, "missing") && !strings.Contains(p.con, "diamond") {
			continue
		}
		body := p.recv
		if body == "" {
			body = "log \"x\";"
		}
		em.add(Exec{Fam: "F8", Con: p.con, Mode: "tester", Scope: "RECV", Main: f6Backend + p.main + mainTail, Body: body, Mods: p.mods, Bound: true, Tag: "tester/F6", Iso: true})
	}
	// (c) testing.* / assert.* helpers, test-file structure
	for _, p := range f8HelperPrograms() {
		em.add(Exec{Fam: "F8", Con: p.con, Mode: "tester", Scope: "RECV", Main: stdDecls + f8MainSubs + mainTail, Test: p.test, Bound: true, Tag: "tester/" + p.con, Iso: true})
	}
	for _, p := range f8ArgSweep(g.Quick(), g.Seed) {
		em.add(Exec{Fam: "F8", Con: p.con, Mode: "tester", Scope: "RECV", Main: stdDecls + f8MainSubs + mainTail, Test: p.test, Bound: true, Tag: "tester/args:" + p.con, Iso: true})
	}
	em.flush()
}
