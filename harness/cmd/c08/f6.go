package main

// F6 — includes through an in-memory resolver (and, in F8, through the file resolver): self-including
// module, 2-cycle, 3-cycle, missing module, diamond, deep chain, at top level and inside a subroutine.
// Requirement: a reported error or completion.

import (
	"fmt"

	"verif/harness/fw"
)

type f6prog struct {
	con  string
	main string // top of the main VCL (before vcl_recv)
	recv string // statements of vcl_recv
	mods map[string]string
}

const f6Backend = "backend example { .host = \"127.0.0.1\"; .port = \"1\"; }\n"

func f6Programs() []f6prog {
	deep := map[string]string{}
	for i := 1; i <= 300; i++ {
		if i == 300 {
			deep[fmt.Sprintf("d%d", i)] = "sub leaf { log \"leaf\"; }\n"
		} else {
			deep[fmt.Sprintf("d%d", i)] = fmt.Sprintf("include \"d%d\";\n", i+1)
		}
	}
	deepS := map[string]string{}
	for i := 1; i <= 300; i++ {
		if i == 300 {
			deepS[fmt.Sprintf("d%d", i)] = "log \"leaf\";\n"
		} else {
			deepS[fmt.Sprintf("d%d", i)] = fmt.Sprintf("include \"d%d\";\n", i+1)
		}
	}
	return []f6prog{
		{"include:top/self", "include \"m\";\n", "", map[string]string{"m": "include \"m\";\n"}},
		{"include:top/self", "include \"m\";\n", "", map[string]string{"m": "acl a1 { \"192.0.2.1\"; }\ninclude \"m\";\n"}},
		{"include:top/2-cycle", "include \"a\";\n", "", map[string]string{"a": "include \"b\";\n", "b": "include \"a\";\n"}},
		{"include:top/3-cycle", "include \"a\";\n", "", map[string]string{"a": "include \"b\";\n", "b": "include \"c\";\n", "c": "include \"a\";\n"}},
		{"include:top/missing", "include \"nope\";\n", "", map[string]string{}},
		{"include:top/missing-nested", "include \"a\";\n", "", map[string]string{"a": "include \"nope\";\n"}},
		{"include:top/diamond", "include \"a\";\ninclude \"b\";\n", "call shared;", map[string]string{"a": "include \"c\";\n", "b": "include \"c\";\n", "c": "sub shared { log \"c\"; }\n"}},
		{"include:top/diamond-table", "include \"a\";\ninclude \"b\";\n", "", map[string]string{"a": "include \"c\";\n", "b": "include \"c\";\n", "c": "table t1 { \"a\": \"b\", }\n"}},
		{"include:top/same-twice", "include \"c\";\ninclude \"c\";\n", "", map[string]string{"c": "acl a1 { \"192.0.2.1\"; }\n"}},
		{"include:top/empty-module", "include \"e\";\n", "", map[string]string{"e": ""}},
		{"include:top/comment-only-module", "include \"e\";\n", "", map[string]string{"e": "// nothing\n"}},
		{"include:top/parse-error-module", "include \"e\";\n", "", map[string]string{"e": "sub {"}},
		{"include:top/statement-module", "include \"e\";\n", "", map[string]string{"e": "set req.http.X = \"1\";\n"}},
		{"include:top/deep-chain-300", "include \"d1\";\n", "call leaf;", deep},
		{"include:top/snippet-without-snippets", "include \"snippet::x\";\n", "", map[string]string{}},
		{"include:top/includes-main", "include \"main\";\n", "", map[string]string{}},
		{"include:sub/self", "", "include \"s\";", map[string]string{"s": "include \"s\";\n"}},
		{"include:sub/self", "", "include \"s\";", map[string]string{"s": "set req.http.X = \"1\";\ninclude \"s\";\n"}},
		{"include:sub/2-cycle", "", "include \"a\";", map[string]string{"a": "include \"b\";\n", "b": "include \"a\";\n"}},
		{"include:sub/3-cycle", "", "include \"a\";", map[string]string{"a": "include \"b\";\n", "b": "include \"c\";\n", "c": "include \"a\";\n"}},
		{"include:sub/missing", "", "include \"nope\";", map[string]string{}},
		{"include:sub/diamond", "", "include \"a\";\ninclude \"b\";", map[string]string{"a": "include \"c\";\n", "b": "include \"c\";\n", "c": "set req.http.X = req.http.X \"c\";\n"}},
		{"include:sub/empty-module", "", "include \"e\";", map[string]string{"e": ""}},
		{"include:sub/declaration-module", "", "include \"e\";", map[string]string{"e": "sub inner { log \"x\"; }\n"}},
		{"include:sub/parse-error-module", "", "include \"e\";", map[string]string{"e": "set req.http.X = ;"}},
		{"include:sub/deep-chain-300", "", "include \"d1\";", deepS},
		{"include:sub/in-if-arm-self", "", "if (req.http.X) { include \"s\"; }", map[string]string{"s": "if (req.http.X) { include \"s\"; }\n"}},
		{"include:sub/in-called-sub-cycle", "sub helper { include \"a\"; }\n", "call helper;", map[string]string{"a": "call helper;\n"}},
		{"include:sub/snippet-without-snippets", "", "include \"snippet::x\";", map[string]string{}},
		{"include:sub/return-in-module", "", "include \"e\";", map[string]string{"e": "return(pass);\n"}},
		{"include:sub/restart-in-module", "", "include \"e\";", map[string]string{"e": "restart;\n"}},
	}
}

func genF6(g *fw.GenCtx, em *emitter) {
	for _, p := range f6Programs() {
		main := f6Backend + p.main + "sub vcl_recv {\n#FASTLY RECV\n" + p.recv + "\nreturn(pass);\n}\n"
		// ServeHTTP, 2 requests on one instance
		em.add(Exec{Fam: "F6", Con: p.con, Mode: "http", Main: main, Mods: p.mods, Reqs: []string{stdReq("/a"), stdReq("/b")}, Bound: true, Tag: p.con, Iso: true})
		// `falco test` mechanics: main VCL initialised, the include statement inside the driven subroutine
		body := p.recv
		if body == "" {
			body = "log \"x\";"
		}
		em.add(Exec{Fam: "F6", Con: p.con, Mode: "sub", Scope: "RECV", Main: f6Backend + p.main + mainTail, Body: body, Mods: p.mods, Bound: true, Tag: p.con, Iso: true})
	}
	em.flush()
}
