package main

import (
	"encoding/json"
	"fmt"
	"os"
	"path/filepath"
	"strings"

	"verif/harness/fw"
)

// emitter groups executions into cases (batches). A group never spans two batches' worth of unrelated
// constructs more than necessary: flush() is called at construct boundaries chosen by the families.
type emitter struct {
	g    *fw.GenCtx
	kind string
	max  int // a construct boundary (mark) closes the batch once it holds this many executions
	hard int // add closes the batch at this size regardless of boundaries
	cur  []Exec
	n    map[string]int
}

func (em *emitter) add(e Exec) {
	em.cur = append(em.cur, e)
	em.n[e.Fam]++
	if len(em.cur) >= em.hard {
		em.flush()
	}
}

// mark is a construct boundary: the batch is closed here when it is full, so that all executions of
// one construct (one finding key) live in one case and the recorded witness is the first in value order
func (em *emitter) mark() {
	if len(em.cur) >= em.max {
		em.flush()
	}
}
func (em *emitter) flush() {
	if len(em.cur) > 0 {
		em.g.Emit(em.kind, batch{Execs: em.cur})
		em.cur = nil
	}
}

// only runs the families named in C08_FAMILIES (comma separated), all when unset (debugging aid)
func famEnabled(f string) bool {
	s := os.Getenv("C08_FAMILIES")
	if s == "" {
		return true
	}
	for _, x := range strings.Split(s, ",") {
		if x == f {
			return true
		}
	}
	return false
}

func gen(g *fw.GenCtx) {
	counts := map[string]int{}
	mk := func(kind string, max, hard int) *emitter {
		return &emitter{g: g, kind: kind, max: max, hard: hard, n: counts}
	}
	var f8 []Exec // representatives collected by F1/F2/F3 for the tester path
	if famEnabled("F1") {
		f8 = append(f8, genF1(g, mk("F1/assign", 150, 700))...)
	}
	if famEnabled("F2") {
		f8 = append(f8, genF2(g, mk("F2/builtin", 1, 3000), mk("F2/builtin-huge-count", 4, 4))...)
	}
	if famEnabled("F3") {
		f8 = append(f8, genF3(g, mk("F3/recursion", 2, 2))...)
	}
	if famEnabled("F4") {
		genF4(g, mk("F4/lifecycle", 100, 400))
	}
	if famEnabled("F5") {
		genF5(g, mk("F5/declarations", 30, 120))
	}
	if famEnabled("F6") {
		genF6(g, mk("F6/include", 2, 2))
	}
	if famEnabled("F7") {
		genF7(g, mk("F7/requests", 100, 300))
	}
	if famEnabled("F8") {
		genF8(g, mk("F8/tester", 10, 10), f8)
	}
	if os.Getenv("C08_COUNTS") != "" {
		b, _ := json.Marshal(counts)
		fmt.Fprintln(os.Stderr, "generated:", string(b))
	}
}

func loadAssignTable(verif string) map[string]string {
	b, err := os.ReadFile(filepath.Join(verif, "harness", "reftab", "assign_table.json"))
	if err != nil {
		return nil
	}
	m := map[string]string{}
	if json.Unmarshal(b, &m) != nil {
		return nil
	}
	return m
}
