package main

// F1 — assignment operators x boundary operands.

import (
	"fmt"
	"strings"

	"verif/harness/fw"
)

var assignOps = []string{"=", "+=", "-=", "*=", "/=", "%=", "|=", "&=", "^=", "<<=", ">>=", "rol=", "ror=", "&&=", "||="}

// bval is one boundary value of a type: either an expression usable directly as an operand
// (Expr != "") or statements that leave it in the variable %s (Setup, with %s = variable name), or both
// unset (a declared but never assigned variable: not-set / zero value).
type bval struct {
	Name  string
	Expr  string
	Setup string
}

var boundary = map[string][]bval{
	"INTEGER": {
		{Name: "0", Expr: "0"}, {Name: "1", Expr: "1"}, {Name: "-1", Expr: "-1"}, {Name: "2", Expr: "2"},
		{Name: "63", Expr: "63"}, {Name: "64", Expr: "64"}, {Name: "65", Expr: "65"},
		{Name: "2^31", Expr: "2147483648"}, {Name: "max", Expr: "9223372036854775807"}, {Name: "min", Expr: "-9223372036854775808"},
		{Name: "1e6", Expr: "1000000"},
		{Name: "max+1", Setup: "set %s = 9223372036854775807;\nset %s += 1;"},
		{Name: "min-by-sub", Setup: "set %s = -9223372036854775807;\nset %s -= 1;"},
	},
	"FLOAT": {
		{Name: "0.0", Expr: "0.0"}, {Name: "0.5", Expr: "0.5"}, {Name: "-0.5", Expr: "-0.5"}, {Name: "1.0", Expr: "1.0"}, {Name: "-1.0", Expr: "-1.0"},
		{Name: "1e308", Expr: "1e308"}, {Name: "-1e308", Expr: "-1e308"}, {Name: "5e-324", Expr: "5e-324"}, {Name: "1e19", Expr: "1e19"},
		{Name: "+inf", Expr: "math.POS_INFINITY"}, {Name: "-inf", Expr: "math.NEG_INFINITY"}, {Name: "nan", Expr: "math.NAN"},
		{Name: "inf-by-mul", Setup: "set %s = 1e308;\nset %s *= 10;"},
		{Name: "nan-by-sub", Setup: "set %s = 1e308;\nset %s *= 10;\nset %s -= %s;"},
		{Name: "nan-by-sqrt", Setup: "set %s = math.sqrt(-1.0);"},
	},
	"RTIME": {
		{Name: "0s", Expr: "0s"}, {Name: "1ms", Expr: "1ms"}, {Name: "1s", Expr: "1s"}, {Name: "-1s", Expr: "-1s"},
		{Name: "max", Expr: "9223372036s"}, {Name: "1.5s", Expr: "1.5s"},
		{Name: "-1s-by-sub", Setup: "set %s = 0s;\nset %s -= 1s;"},
	},
	"STRING": {
		{Name: "empty", Expr: `""`}, {Name: "notset"}, {Name: "abc", Expr: `"abc"`}, {Name: "0", Expr: `"0"`}, {Name: "-1", Expr: `"-1"`},
		{Name: "2^63", Expr: `"9223372036854775808"`}, {Name: "1e400", Expr: `"1e400"`}, {Name: "%00x", Expr: `"%00x"`}, {Name: "ip", Expr: `"192.0.2.1"`},
	},
	"BOOL": {{Name: "true", Expr: "true"}, {Name: "false", Expr: "false"}},
	"IP": {
		{Name: "0.0.0.0", Setup: `set %s = "0.0.0.0";`}, {Name: "::", Setup: `set %s = "::";`}, {Name: "255.255.255.255", Setup: `set %s = "255.255.255.255";`},
		{Name: "mapped", Setup: `set %s = "::ffff:192.0.2.1";`}, {Name: "notset"}, {Name: "client.ip", Expr: "client.ip"},
	},
	"TIME": {
		{Name: "now", Expr: "now"}, {Name: "epoch", Expr: "std.integer2time(0)"}, {Name: "-1", Expr: "std.integer2time(-1)"},
		{Name: "max", Expr: "std.integer2time(9223372036854775807)"}, {Name: "y9999", Expr: "std.integer2time(253402300799)"}, {Name: "zero"},
	},
	"BACKEND": {{Name: "example", Expr: "example"}, {Name: "director", Expr: "dir1"}, {Name: "notset"}},
}

var f1LeftTypes = []string{"INTEGER", "FLOAT", "RTIME", "STRING", "BOOL", "IP", "TIME", "BACKEND", "header"}
var f1RightTypes = []string{"INTEGER", "FLOAT", "RTIME", "STRING", "BOOL", "IP", "TIME", "BACKEND", "header"}

// statements that put boundary value v of type t into variable name (already declared)
func (v bval) into(name string) string {
	switch {
	case v.Setup != "":
		return strings.ReplaceAll(v.Setup, "%s", name)
	case v.Expr != "":
		return "set " + name + " = " + v.Expr + ";"
	}
	return "" // declared, never assigned
}

func declType(t string) string {
	if t == "header" {
		return "STRING"
	}
	return t
}

func valuesOf(t string) []bval { return boundary[declType(t)] }

// pairListed says whether the frozen assignment table knows an accept cell for (op, lt, rt) in any form.
func pairListed(tab map[string]string, op, lt, rt string) bool {
	for _, f := range []string{"literal", "local", "predefined"} {
		if tab[fmt.Sprintf("op:%s/%s/%s/%s", op, lt, rt, f)] == "accept" {
			return true
		}
	}
	return false
}

func genF1(g *fw.GenCtx, em *emitter) (reps []Exec) {
	tab := loadAssignTable(g.Verif)
	for _, op := range assignOps {
		for _, lt := range f1LeftTypes {
			for _, rt := range f1RightTypes {
				// quick: the type pairs the frozen table lists as accepted in some form (every program is still
				// linted); thorough (or no table): every pair, the linter alone decides membership
				if g.Quick() && tab != nil && !pairListed(tab, op, lt, rt) {
					continue
				}
				cell := fmt.Sprintf("op:%s/%s/%s", op, lt, rt)
				n := 0
				for _, lv := range valuesOf(lt) {
					var pre []string
					left := "var.l"
					if lt == "header" {
						left = "req.http.L"
						if s := lv.into(left); s != "" {
							pre = append(pre, s)
						} else {
							pre = append(pre, "unset req.http.L;")
						}
					} else {
						pre = append(pre, "declare local var.l "+lt+";")
						if s := lv.into("var.l"); s != "" {
							pre = append(pre, s)
						}
					}
					for _, rv := range valuesOf(rt) {
						// literal / direct-expression right operand
						if rv.Expr != "" && rt != "header" {
							body := strings.Join(pre, "\n") + "\nset " + left + " " + op + " " + rv.Expr + ";\nlog " + left + ";"
							e := Exec{Fam: "F1", Con: cell + "/literal", Mode: "sub", Scope: "RECV", Body: body, Lint: true, Bound: true, Tag: cell}
							em.add(e)
							if lv.Name == rv.Name || n%17 == 0 {
								reps = append(reps, e)
							}
							n++
						}
						// through a second variable
						var rp []string
						right := "var.r"
						if rt == "header" {
							right = "req.http.R"
							if s := rv.into(right); s != "" {
								rp = append(rp, s)
							} else {
								rp = append(rp, "unset req.http.R;")
							}
						} else {
							rp = append(rp, "declare local var.r "+rt+";")
							if s := rv.into("var.r"); s != "" {
								rp = append(rp, s)
							}
						}
						body := strings.Join(pre, "\n") + "\n" + strings.Join(rp, "\n") + "\nset " + left + " " + op + " " + right + ";\nlog " + left + ";"
						e := Exec{Fam: "F1", Con: cell + "/variable", Mode: "sub", Scope: "RECV", Body: body, Lint: true, Bound: true, Tag: cell}
						em.add(e)
						if lv.Name == rv.Name || n%17 == 0 {
							reps = append(reps, e)
						}
						n++
					}
				}
				em.mark()
			}
		}
		em.flush()
	}
	return reps
}
