package main

// F7 — boundary requests (method, path, query, headers, remote address) against programs that read
// request-derived variables and feed request data into built-in functions; 1-3 requests per instance.

import (
	"fmt"
	"math/rand"
	"os"
	"path/filepath"
	"sort"
	"strings"

	"gopkg.in/yaml.v3"

	"verif/harness/fw"
)

type varDef struct {
	On  []string `yaml:"on"`
	Get string   `yaml:"get"`
}

func loadPredefined(repo string) (map[string]varDef, error) {
	vars := map[string]varDef{}
	b, err := os.ReadFile(filepath.Join(repo, "__generator__", "predefined.yml"))
	if err != nil {
		return nil, err
	}
	if err := yaml.Unmarshal(b, &vars); err != nil {
		return nil, err
	}
	return vars, nil
}

func concreteVar(name string) string {
	switch {
	case strings.HasPrefix(name, "backend.%any%"):
		return strings.Replace(name, "%any%", "b", 1)
	case strings.HasPrefix(name, "director.%any%"):
		return strings.Replace(name, "%any%", "dd", 1)
	case strings.HasPrefix(name, "ratecounter.%any%"):
		return strings.Replace(name, "%any%", "rc1", 1)
	}
	name = strings.ReplaceAll(name, "%any%", "X-Any")
	name = strings.ReplaceAll(name, "{NAME}", "example")
	return name
}

const f7Decls = "backend b { .host = \"@ORIGIN_HOST@\"; .port = \"@ORIGIN_PORT@\"; }\n" +
	"director dd random { { .backend = b; .weight = 1; } }\nratecounter rc1 { }\npenaltybox pb1 { }\nacl acl1 { \"192.0.2.0\"/24; }\n" +
	"table tbl { \"/\": \"root\", \"abc\": \"abc\", }\ntable tbl_int INTEGER { \"/\": 1, }\n"

// ---- request pool --------------------------------------------------------------------------------

type rq struct{ name, raw string }

func buildReq(method, target, proto string, headers []string, body string) string {
	var sb strings.Builder
	sb.WriteString(method + " " + target + " " + proto + "\r\n")
	for _, h := range headers {
		sb.WriteString(h + "\r\n")
	}
	sb.WriteString("\r\n")
	sb.WriteString(body)
	return sb.String()
}

func manyHeaders(n int) []string {
	hs := []string{"Host: example.com"}
	for i := 0; i < n; i++ {
		hs = append(hs, fmt.Sprintf("X-H%d: v%d", i, i))
	}
	return hs
}

func requestPool() []rq {
	host := []string{"Host: example.com"}
	var out []rq
	for _, m := range []string{"GET", "POST", "HEAD", "PURGE", "FASTLYPURGE", "OPTIONS", "DELETE", "PATCH", "CONNECT", "TRACE", "get", "M-SEARCH", "", "@LONG8K@", "G\tET", "GET\x00"} {
		out = append(out, rq{"method:" + clip(m, 12), buildReq(m, "/", "HTTP/1.1", host, "")})
	}
	for _, p := range []string{"/", "/@LONG8K@", "/@LONG8K@?@LONG8K@", "/%zz", "/?a=b&a=c", "/\xc3\xa9\xe6\x97\xa5", "/%E3%81%82", "/a%00b", "/a%2Fb/../c/./d", "//", "///a//b", "/a?", "/a?&&&===", "/a?%zz=%", "/a?x=%00&y=%u00e9", "/a?@LONG8K@",
		"*", "http://other.example:8080/abs?q=1", "/a#frag", "/a;p=1", "/a b", "/..", "/../../etc/passwd", "/a?x=1&x=2&x=3&y", "/a.b.c.tar.gz", "/.hidden", "/a/", "/?", "/a?b?c?d", "/\\", "/a\x7f", "/a?x=" + strings.Repeat("%41", 2000), "/" + strings.Repeat("a/", 3000)} {
		out = append(out, rq{"path:" + clip(p, 16), buildReq("GET", p, "HTTP/1.1", host, "")})
	}
	out = append(out,
		rq{"headers:none/http1.0", buildReq("GET", "/", "HTTP/1.0", nil, "")},
		rq{"headers:96", buildReq("GET", "/", "HTTP/1.1", manyHeaders(95), "")},
		rq{"headers:97", buildReq("GET", "/", "HTTP/1.1", manyHeaders(96), "")},
		rq{"headers:300", buildReq("GET", "/", "HTTP/1.1", manyHeaders(300), "")},
		rq{"headers:huge-value", buildReq("GET", "/", "HTTP/1.1", []string{"Host: example.com", "X-Any: @LONG70K@", "Cookie: a=@LONG70K@"}, "")},
		rq{"headers:host-empty", buildReq("GET", "/", "HTTP/1.1", []string{"Host:"}, "")},
		rq{"headers:host-port", buildReq("GET", "/", "HTTP/1.1", []string{"Host: example.com:99999"}, "")},
		rq{"headers:host-ipv6", buildReq("GET", "/", "HTTP/1.1", []string{"Host: [::1]:80"}, "")},
		rq{"headers:host-odd", buildReq("GET", "/", "HTTP/1.1", []string{"Host: ..a..b%zz"}, "")},
		rq{"headers:duplicate", buildReq("GET", "/", "HTTP/1.1", []string{"Host: example.com", "X-Any: 1", "X-Any: 2", "x-any: 3", "Cookie: a=b", "Cookie: c=d"}, "")},
		rq{"headers:empty-values", buildReq("GET", "/", "HTTP/1.1", []string{"Host: example.com", "X-Any:", "Cookie:", "Accept-Language:", "User-Agent:", "X-Forwarded-For:"}, "")},
		rq{"headers:numeric-2^63", buildReq("GET", "/", "HTTP/1.1", []string{"Host: example.com", "X-Any: 9223372036854775808", "X-Name: X-Any", "X-Val: v"}, "")},
		rq{"headers:numeric-neg", buildReq("GET", "/", "HTTP/1.1", []string{"Host: example.com", "X-Any: -9223372036854775809", "X-Name: ", "X-Val: "}, "")},
		rq{"headers:numeric-float", buildReq("GET", "/", "HTTP/1.1", []string{"Host: example.com", "X-Any: 1e400", "X-Name: :", "X-Val: a:b"}, "")},
		rq{"headers:numeric-hex", buildReq("GET", "/", "HTTP/1.1", []string{"Host: example.com", "X-Any: 0x", "X-Name: Host", "X-Val: @FF@@FE@"}, "")},
		rq{"headers:cookie-odd", buildReq("GET", "/", "HTTP/1.1", []string{"Host: example.com", "Cookie: a=b; ; =; c; d==; \"q\"=\"r\"; a=again", "X-Any: a=b, c=\"d, e\", f"}, "")},
		rq{"headers:xff-list", buildReq("GET", "/", "HTTP/1.1", []string{"Host: example.com", "X-Forwarded-For: 192.0.2.1, garbage, ::1, 999.1.1.1", "Fastly-Client-IP: garbage", "X-Any: 192.0.2.999"}, "")},
		rq{"headers:fastly-ff-loop", buildReq("GET", "/", "HTTP/1.1", []string{"Host: example.com", "Fastly-FF: cache-localsimulator"}, "")},
		rq{"headers:fastly-ff-odd", buildReq("GET", "/", "HTTP/1.1", []string{"Host: example.com", "Fastly-FF: !!;;,,", "CDN-Loop: Fastly, Fastly, Fastly", "Surrogate-Capability: x", "Fastly-Debug: 1"}, "")},
		rq{"headers:accept-odd", buildReq("GET", "/", "HTTP/1.1", []string{"Host: example.com", "Accept-Language: en;q=9, *;q=-1, ;q=, de-DE-x-y-z;q=0.0001", "Accept-Encoding: gzip;q=0, br;q=1.0000, ,", "Accept: */*;q=nan", "Accept-Charset: ,,,"}, "")},
		rq{"headers:range-odd", buildReq("GET", "/", "HTTP/1.1", []string{"Host: example.com", "Range: bytes=9223372036854775808-", "If-Modified-Since: Mon, 99 Foo 99999 25:61:61 GMT", "If-None-Match: \"", "Cache-Control: max-age=99999999999999999999, s-maxage=-1"}, "")},
		rq{"headers:ua-odd", buildReq("GET", "/", "HTTP/1.1", []string{"Host: example.com", "User-Agent: Mozilla/5.0 (((((", "Sec-CH-UA: \"", "Authorization: Basic !!!", "X-Any: %00%zz"}, "")},
		rq{"headers:non-ascii", buildReq("GET", "/", "HTTP/1.1", []string{"Host: example.com", "X-Any: \xe6\x97\xa5\xe6\x9c\xac@FF@", "Cookie: @FF@=@FE@"}, "")},
		rq{"body:post-small", buildReq("POST", "/p", "HTTP/1.1", []string{"Host: example.com", "Content-Length: 5", "Content-Type: application/x-www-form-urlencoded"}, "a=b&c")},
		rq{"body:post-8k", buildReq("POST", "/p", "HTTP/1.1", []string{"Host: example.com", "Content-Length: 8192"}, "@LONG8K@")},
		rq{"body:post-9k", buildReq("POST", "/p", "HTTP/1.1", []string{"Host: example.com", "Content-Length: 8193"}, "@LONG8K@x")},
		rq{"body:post-70k", buildReq("POST", "/p", "HTTP/1.1", []string{"Host: example.com", "Content-Length: 71680"}, "@LONG70K@")},
		rq{"body:chunked", buildReq("POST", "/p", "HTTP/1.1", []string{"Host: example.com", "Transfer-Encoding: chunked"}, "3\r\nabc\r\n0\r\n\r\n")},
		rq{"body:get-with-body", buildReq("GET", "/p", "HTTP/1.1", []string{"Host: example.com", "Content-Length: 3"}, "abc")},
		rq{"body:short", buildReq("POST", "/p", "HTTP/1.1", []string{"Host: example.com", "Content-Length: 100"}, "abc")},
		rq{"remote:ipv6", f5Remote(buildReq("GET", "/", "HTTP/1.1", host, ""), "[::1]:1")},
		rq{"remote:v4-mapped", f5Remote(buildReq("GET", "/", "HTTP/1.1", host, ""), "[::ffff:192.0.2.1]:65535")},
		rq{"remote:no-port", f5Remote(buildReq("GET", "/", "HTTP/1.1", host, ""), "192.0.2.1")},
		rq{"remote:garbage", f5Remote(buildReq("GET", "/", "HTTP/1.1", host, ""), "garbage")},
		rq{"remote:unix", f5Remote(buildReq("GET", "/", "HTTP/1.1", host, ""), "@")},
		rq{"remote:zone", f5Remote(buildReq("GET", "/", "HTTP/1.1", host, ""), "[fe80::1%25lo]:1")},
		rq{"purge:surrogate-key", buildReq("FASTLYPURGE", "/service/x/purge/key", "HTTP/1.1", []string{"Host: example.com", "Surrogate-Key: @LONG8K@", "Fastly-Soft-Purge: 1"}, "")},
		rq{"plain", buildReq("GET", "/path/a.html?x=1&y=2", "HTTP/1.1", []string{"Host: example.com", "X-Any: abc", "Cookie: a=b; c=d", "User-Agent: Mozilla/5.0", "Accept-Language: en-US,de;q=0.5", "X-Name: X-Any", "X-Val: v"}, "")},
	)
	return out
}

// ---- programs --------------------------------------------------------------------------------------

type f7prog struct {
	con   string
	main  string
	scope string // lifecycle scope that must be reached
}

func lifecycleProgram(scope, stmts string) string {
	var sb strings.Builder
	sb.WriteString(f7Decls)
	recv := ""
	switch scope {
	case "ERROR":
		recv = "error 601;\n"
	case "PASS":
		recv = "return(pass);\n"
	}
	if scope == "RECV" {
		fmt.Fprintf(&sb, "sub vcl_recv {\n#FASTLY RECV\n%sreturn(lookup);\n}\n", stmts)
		return sb.String()
	}
	fmt.Fprintf(&sb, "sub vcl_recv {\n#FASTLY RECV\n%sreturn(lookup);\n}\n", recv)
	fmt.Fprintf(&sb, "sub vcl_%s {\n#FASTLY %s\n%s}\n", strings.ToLower(scope), scope, stmts)
	return sb.String()
}

func readStmt(name, typ string) string {
	switch typ {
	case "ID":
		return "declare local var.t INTEGER;\nset var.t = std.count(" + name + ");\nlog var.t;\n"
	case "REQBACKEND":
		typ = "BACKEND"
	case "":
		return "log " + name + ";\n"
	}
	return "declare local var.t " + typ + ";\nset var.t = " + name + ";\nlog var.t;\nlog \"[\" " + name + " \"]\";\n"
}

func f7FunctionPrograms() []f7prog {
	mk := func(con, stmts string) f7prog { return f7prog{"req:" + con, lifecycleProgram("RECV", stmts), "RECV"} }
	return []f7prog{
		mk("querystring.*", "log querystring.get(req.url, \"a\");\nlog querystring.sort(req.url);\nlog querystring.clean(req.url);\nlog querystring.remove(req.url);\nlog querystring.add(req.url, req.http.X-Name, req.http.X-Val);\nlog querystring.set(req.url, \"a\", req.url.qs);\nlog querystring.filter(req.url, req.http.X-Name);\nlog querystring.filter_except(req.url, \"a\" + querystring.filtersep() + \"x\");\nlog querystring.globfilter(req.url, req.http.X-Any);\nlog querystring.globfilter_except(req.url, \"*\");\nlog querystring.regfilter(req.url, req.http.X-Any);\nlog querystring.regfilter_except(req.url, \"^a\");\nlog boltsort.sort(req.url);\n"),
		mk("urldecode/urlencode", "log urldecode(req.url);\nlog urlencode(req.url);\nlog urldecode(req.http.X-Any);\nlog urldecode(urldecode(req.url.qs));\nlog url.normalize(req.url);\nlog cstr_escape(req.url);\nlog json.escape(req.http.X-Any);\nlog xml_escape(req.http.Cookie);\n"),
		mk("std.atoi-family", "declare local var.i INTEGER;\ndeclare local var.f FLOAT;\nset var.i = std.atoi(req.http.X-Any);\nlog var.i;\nset var.i = std.strtol(req.http.X-Any, 10);\nlog var.i;\nset var.i = std.strtol(req.http.X-Any, 16);\nset var.i = std.strtol(req.http.X-Any, 0);\nset var.f = std.atof(req.http.X-Any);\nlog var.f;\nset var.f = std.strtof(req.http.X-Any, 10);\nset var.i = parse_time_delta(req.http.X-Any);\nset var.i = std.strlen(req.url);\nlog var.i;\n"),
		mk("integer-arithmetic-on-header", "declare local var.i INTEGER;\nset var.i = std.atoi(req.http.X-Any);\nset var.i += 1;\nset var.i *= 2;\nset var.i <<= 1;\nlog var.i;\ndeclare local var.j INTEGER;\nset var.j = 100;\nset var.j /= var.i;\nset var.j %= var.i;\nlog var.j;\n"),
		mk("regex-on-url", "if (req.url ~ \"(a+)+$\") { log \"m\" re.group.1; }\nif (req.url ~ \"^/([^?]*)(\\?(.*))?$\") { log re.group.0 re.group.1 re.group.2 re.group.3 re.group.9; }\nif (req.url.path ~ \"(.)(.)(.)(.)(.)(.)(.)(.)(.)(.)(.)\") { log re.group.10; }\nlog regsub(req.url, \"(.*)\", \"\\1\\1\\1\\1\");\nlog regsuball(req.url, \"\", \"x\");\nlog regsuball(req.url, \"a*\", \"\\0\\0\");\nlog regsub(req.url, req.http.X-Any, \"y\");\nif (req.http.X-Any ~ req.http.X-Val) { log \"dyn\"; }\n"),
		mk("table.lookup-with-url", "log table.lookup(tbl, req.url, req.url);\nlog table.lookup(tbl, req.url.path);\nlog table.lookup(tbl, req.http.X-Any, req.http.Not-Set);\nif (table.contains(tbl, req.url)) { log \"c\"; }\ndeclare local var.i INTEGER;\nset var.i = table.lookup_integer(tbl_int, req.url.path, -1);\nlog var.i;\n"),
		mk("cookie-and-subfield", "log req.http.Cookie:a;\nlog req.http.Cookie:c;\nlog req.http.X-Any:a;\nlog req.http.X-Any:f;\nlog subfield(req.http.Cookie, \"a\", \";\");\nlog subfield(req.http.X-Any, \"c\");\nlog subfield(req.http.X-Any, req.http.X-Name, \",\");\nset req.http.Cookie:new = req.url;\nset req.http.X-Any:a = \"\";\nunset req.http.Cookie:a;\nlog req.http.Cookie;\nlog req.http.X-Any;\n"),
		mk("dynamic-header-names", "log header.get(req, req.http.X-Name);\nheader.set(req, req.http.X-Name, req.http.X-Val);\nheader.set(req, req.http.X-Val, req.url);\nheader.unset(req, req.http.X-Name);\nheader.filter(req, req.http.X-Name, \"X-Val\");\nheader.filter_except(req, \"Host\", req.http.X-Name);\nstd.collect(req.http.X-Any);\nstd.collect(req.http.Cookie, \";\");\ndeclare local var.i INTEGER;\nset var.i = std.count(req.headers);\nlog var.i;\n"),
		mk("ip-from-headers", "declare local var.ip IP;\nset var.ip = std.ip(req.http.X-Forwarded-For, \"0.0.0.0\");\nlog var.ip;\nset var.ip = std.str2ip(req.http.X-Any, \"::\");\nset var.ip = std.anystr2ip(req.http.X-Any, \"192.0.2.1\");\nset var.ip = req.http.Fastly-Client-IP;\nlog var.ip;\nif (var.ip ~ acl1) { log \"in\"; }\nif (req.http.Fastly-Client-IP ~ acl1) { log \"in\"; }\nset client.identity = req.http.X-Any;\nlog client.identity;\ndeclare local var.i INTEGER;\nset var.i = addr.extract_bits(client.ip, 0, 32);\nlog var.i;\n"),
		mk("mutate-request", "set req.url = req.url req.url;\nset req.url = req.url \"?\" req.url.qs;\nset req.http.Host = req.http.X-Any;\nset req.method = req.http.X-Any;\nset req.http.X-Any = req.http.X-Any req.http.X-Any req.http.X-Any;\nset req.url = regsub(req.url, \"\\?.*$\", \"\");\nunset req.http.Host;\nset req.http.Content-Length = req.http.X-Any;\nlog req.url req.method req.http.Host;\n"),
		mk("request-body", "log req.body;\nlog req.body.base64;\nlog req.postbody;\ndeclare local var.i INTEGER;\nset var.i = req.body_bytes_read;\nlog var.i;\nset var.i = std.strlen(req.body);\nlog var.i;\n"),
		mk("digest-of-request", "log digest.hash_sha256(req.url req.http.Cookie req.http.X-Any);\nlog digest.base64_decode(req.http.X-Any);\nlog digest.base64url_decode(req.url.qs);\nlog digest.hmac_sha256(req.http.X-Any, req.url);\nlog bin.hex_to_base64(req.http.X-Any);\nlog bin.base64_to_hex(req.http.X-Any);\nlog digest.hash_crc32(req.body);\n"),
		mk("string-functions-on-url", "log substr(req.url, 1, -1);\nlog substr(req.url, -3);\nlog substr(req.url, 9000, 1);\nlog utf8.substr(req.url, 1, 2);\nlog std.strrev(req.url);\nlog std.toupper(req.url);\nlog std.basename(req.url.path);\nlog std.dirname(req.url.path);\nlog std.strstr(req.url, \"?\");\nlog std.replaceall(req.url, \"\", \"x\");\nlog std.replace_prefix(req.url, \"/\", req.url);\nlog std.strpad(req.url, 8200, req.http.X-Val);\nlog std.strpad(req.url, -8200, \"ab\");\ndeclare local var.i INTEGER;\nset var.i = utf8.codepoint_count(req.url);\nif (utf8.is_valid(req.http.X-Any)) { log \"v\"; }\nif (std.prefixof(req.url, req.http.X-Any)) { log \"p\"; }\n"),
		mk("accept-negotiation", "log accept.language_lookup(\"en:de:fr\", \"en\", req.http.Accept-Language);\nlog accept.language_filter_basic(\"en:de\", \"en\", req.http.Accept-Language, 2);\nlog accept.language_filter_basic(req.http.Accept-Language, \"en\", req.http.Accept-Language, 0);\nlog accept.encoding_lookup(\"br:gzip\", \"identity\", req.http.Accept-Encoding);\nlog accept.charset_lookup(\"utf-8\", \"utf-8\", req.http.Accept-Charset);\nlog accept.media_lookup(\"text/html:image/*\", \"text/html\", \"image/*\", req.http.Accept);\n"),
		mk("time-from-headers", "declare local var.t TIME;\nset var.t = std.time(req.http.If-Modified-Since, now);\nlog var.t;\nset var.t = std.time(req.http.X-Any, std.integer2time(-1));\nlog strftime(req.http.X-Any, now);\nlog strftime({\"%Y-%m-%d %H:%M:%S %z %%\"}, var.t);\nset var.t = time.hex_to_time(1, req.http.X-Any);\nlog time.units(\"ms\", var.t);\nlog http_status_matches(std.atoi(req.http.X-Any), req.http.X-Val);\n"),
		mk("geo-and-client", "log client.geo.country_code client.geo.city client.geo.latitude client.geo.longitude client.as.number client.as.name;\nset client.geo.ip_override = req.http.X-Any;\nlog client.geo.country_code;\nlog client.ip client.port server.ip server.port client.identity client.requests;\nlog client.browser.name client.browser.version client.os.name client.os.version client.platform.mobile client.class.bot client.class.browser client.display.height;\n"),
		mk("hash-and-vary", "set req.hash += req.url;\nset req.hash += req.http.X-Any;\nset req.hash += req.http.Not-Set;\nlog req.digest;\nlog fastly.hash(req.url, 0, 0, 100);\nlog fastly.hash(req.url, std.atoi(req.http.X-Any), 0, 100);\n"),
		mk("esi-and-misc", "esi;\nlog req.topurl;\nlog req.restarts;\nlog req.is_purge req.is_ssl req.is_ipv6 req.is_background_fetch req.is_esi_subreq;\nlog fastly_info.state fastly_info.is_h2 fastly_info.host_header fastly_info.edge.is_tls;\nlog req.service_id req.vcl req.vcl.version server.identity server.hostname server.datacenter server.region server.pop;\n"),
	}
}

func genF7(g *fw.GenCtx, em *emitter) {
	vars, err := loadPredefined(g.Repo)
	if err != nil {
		panic(err)
	}
	names := make([]string, 0, len(vars))
	for n := range vars {
		names = append(names, n)
	}
	sort.Strings(names)
	pool := requestPool()
	byName := map[string]rq{}
	for _, q := range pool {
		byName[q.name] = q
	}
	r := g.Rand
	var progs []f7prog
	order := []string{"RECV", "DELIVER", "FETCH", "HIT", "MISS", "PASS", "ERROR", "HASH", "LOG"}
	for _, n := range names {
		d := vars[n]
		if d.Get == "" {
			continue
		}
		on := map[string]bool{}
		for _, s := range d.On {
			on[s] = true
		}
		var scopes []string
		for _, s := range order {
			if on[s] {
				scopes = append(scopes, s)
			}
		}
		for _, s := range scopes {
			progs = append(progs, f7prog{"var:" + n, lifecycleProgram(s, readStmt(concreteVar(n), d.Get)), s})
		}
	}
	progs = append(progs, f7FunctionPrograms()...)
	perProg := g.Pick(1, 40)
	for _, p := range progs {
		// always: one plain request, and the same plain request twice (the second one is a cache hit, which
		// takes the hit -> deliver path without a backend request)
		seqs := [][]rq{{byName["plain"]}, {byName["plain"], byName["plain"]}}
		nseq := perProg
		if strings.HasPrefix(p.con, "req:") && g.Quick() {
			nseq = 5
		}
		for k := 0; k < nseq; k++ {
			n := 1 + r.Intn(3)
			var s []rq
			for j := 0; j < n; j++ {
				s = append(s, pool[r.Intn(len(pool))])
			}
			seqs = append(seqs, s)
		}
		if strings.HasPrefix(p.con, "req:") {
			// the function programs see every request of the pool once (alone) in addition to the PRNG sequences
			for _, q := range pool {
				seqs = append(seqs, []rq{q})
			}
		}
		for _, s := range seqs {
			if p.scope == "HIT" {
				// the first request is repeated so that the second one is a cache hit
				s = append([]rq{s[0]}, s...)
				if len(s) > 3 {
					s = s[:3]
				}
			}
			raws := make([]string, len(s))
			for i, q := range s {
				raws[i] = q.raw
			}
			em.add(Exec{Fam: "F7", Con: p.con, Mode: "http", Main: p.main, Reqs: raws, Bound: true, Tag: p.con})
		}
		em.mark()
	}
	em.flush()
	_ = rand.Int
}
