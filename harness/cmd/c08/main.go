// C08 — simulation is total and bounded.
//
// Runtime monitoring: generated VCL programs are RUN by falco's real interpreter (ServeHTTP with a
// recorder, TestProcessInit+ProcessTestSubroutine under a step-counting debugger) and by the real
// tester package (`falco test` path) inside supervised worker processes. Observed: recovered panics
// (trace), process-fatal errors (stack overflow, out of memory: the worker dies and the framework
// attributes the death), the statement-step budget, the restarts field of the reply, the reply
// shape, and the framework's wall-clock watchdog for hangs.
package main

import (
	"bytes"
	"encoding/json"
	"fmt"
	"io"
	"net/http"
	"net/http/httptest"
	"net/url"
	"os"
	"runtime/debug"
	"strconv"
	"strings"
	"time"

	ihttp "github.com/ysugimoto/falco/v2/interpreter/http"

	"verif/harness/fw"
)

var originHost, originPort = "127.0.0.1", "1"

func wrapReq(r *http.Request) *ihttp.Request { return ihttp.WrapRequest(r) }

func workerInit() {
	// unbounded recursion must die quickly: with the runtime's default 1 GB limit one include cycle
	// churns for ~40 s (the garbage collector rescans the ever deeper stack), with 8 MB it dies in well
	// under a second. falco bounds its own call depth at 100, a legitimate run needs < 1 MB of stack.
	debug.SetMaxStack(8 << 20)
	srv := httptest.NewServer(http.HandlerFunc(func(w http.ResponseWriter, r *http.Request) {
		w.Header().Set("Cache-Control", "max-age=3600")
		// odd origin responses by path: no body at all, a status without body, huge / odd headers, odd statuses
		switch {
		case strings.HasPrefix(r.URL.Path, "/origin/empty"):
			w.Header().Set("Content-Length", "0")
			w.WriteHeader(200)
			return
		case strings.HasPrefix(r.URL.Path, "/origin/204"):
			w.WriteHeader(204)
			return
		case strings.HasPrefix(r.URL.Path, "/origin/304"):
			w.WriteHeader(304)
			return
		case strings.HasPrefix(r.URL.Path, "/origin/599"):
			w.WriteHeader(599)
			return
		case strings.HasPrefix(r.URL.Path, "/origin/redirect"):
			w.Header().Set("Location", "/origin/empty")
			w.WriteHeader(302)
			return
		case strings.HasPrefix(r.URL.Path, "/origin/headers"):
			for i := 0; i < 200; i++ {
				w.Header().Add("Set-Cookie", "c"+strconv.Itoa(i)+"="+strings.Repeat("v", 100))
			}
			w.Header().Set("Cache-Control", "max-age=99999999999999999999, s-maxage=-1, stale-while-revalidate=abc")
			w.Header().Set("Surrogate-Control", "max-age=x")
			w.Header().Set("Expires", "garbage")
			w.Header().Set("Age", "-5")
			w.Header().Set("Vary", "*")
		case strings.HasPrefix(r.URL.Path, "/origin/big"):
			w.Write(bytes.Repeat([]byte("x"), 3<<20))
			return
		}
		w.Write([]byte("origin:" + r.URL.Path))
	}))
	u, _ := url.Parse(srv.URL)
	originHost, originPort = u.Hostname(), u.Port()
}

func main() {
	if os.Getenv("C08_CHILD") != "" {
		childMain()
		return
	}
	if m := os.Getenv("C08_PROBE"); m != "" {
		probe(m)
		return
	}
	timeout := 120 * time.Second
	if v := os.Getenv("C08_TIMEOUT_S"); v != "" { // debugging aid only
		if n, err := strconv.Atoi(v); err == nil {
			timeout = time.Duration(n) * time.Second
		}
	}
	fw.Main(&fw.Prop{
		ID:    "C08",
		Level: "exploration",
		Rule: "eight families of small VCL programs are executed by the real interpreter / test runner: F1 all 15 assignment operators x lint-accepted (left,right) type pairs x complete product of boundary operands x {literal, variable} right operand; " +
			"F2 every built-in function of __generator__/builtin.yml x every signature x boundary arguments per declared type (all-minimum, all-maximum and one-at-a-time tuples always, PRNG sample of the product up to the cap) as expression and as statement; " +
			"F3 self/mutual/functional recursion and call chains of depth 50/99/100/101, call-tree fan-out; F4 restart/error/return actions in every scope through ServeHTTP with 1-3 requests per instance; F5 directors/backends/tables/ACLs/ratecounters with boundary values; " +
			"F6 self/cyclic/missing/diamond includes through an in-memory resolver; F7 boundary requests (method, path, query, headers) against a program reading request-derived variables; F8 F1/F2/F3 representatives and testing.* helpers through tester.New(conf, opts).Run (the `falco test` path). " +
			"A returned runtime error is fine; a panic, a process-fatal error, more than 200000 statements in one request, restarts > 3, a reply that is neither a 200 JSON document nor a 500 with a reported error, or a watchdog firing is a violation. " +
			"non-trivial = execution that reached the interpreter (lint-accepted where the family requires it) and carries at least one boundary operand or edge construct; distinct by program text (+ request sequence)",
		Assumptions: []string{
			"a program the linter rejects is not a member of F1/F2 (skipped, counted in lint-rejected tags); F3-F8 programs are run whether or not the linter accepts them (the property quantifies over parseable programs)",
			"a request net/http itself refuses to parse (http.ReadRequest error) never reaches the handler and is not an execution",
			"a ProcessInit failure answered by ServeHTTP as `500 <text>` counts as a reported error",
			"the tester runs test files on its own goroutine: a panic there kills the process (as it kills `falco test`); it is observed as the death of the worker and attributed through the construct marker on stderr",
			"the random director legitimately sleeps 10 ms per retry; wall time is recorded as a tag, only the framework watchdog (120 s) decides about hangs",
		},
		Gen:           gen,
		Run:           run,
		WorkerInit:    workerInit,
		Timeout:       timeout,
		MinNonTrivial: 3000,
		CrashKey:      crashKey,
		Finish:        finish,
		MemLimit:      memLimit,
	})
}

// probe: C08_PROBE=sub|http|tester reads an Exec as JSON on stdin (or, for sub, plain statements when
// the input does not start with '{') and prints what was observed. Used to minimise witnesses.
func probe(mode string) {
	workerInit()
	in, _ := io.ReadAll(os.Stdin)
	var e Exec
	if len(in) > 0 && in[0] == '{' {
		if err := json.Unmarshal(in, &e); err != nil {
			fmt.Println("bad exec:", err)
			os.Exit(2)
		}
	} else {
		e = Exec{Fam: "P", Con: "probe", Mode: mode, Scope: "RECV", Body: string(in), Lint: os.Getenv("C08_NOLINT") == ""}
		if mode == "http" {
			e.Main = string(in)
			e.Body = ""
			e.Reqs = []string{"GET / HTTP/1.1\r\nHost: example.com\r\n\r\n"}
		}
		if s := os.Getenv("C08_SCOPE"); s != "" {
			e.Scope = s
		}
	}
	if e.Mode == "" {
		e.Mode = mode
	}
	var oc fw.Outcome
	t0 := time.Now()
	runExec(&oc, &e, true)
	fmt.Printf("wall=%s\n", time.Since(t0))
	for _, v := range oc.Viols {
		fmt.Printf("VIOLATION key=%s\n  what=%s\n", v.Key, strings.ReplaceAll(v.What, "\n", "\n  "))
	}
	b, _ := json.Marshal(oc.Tags)
	fmt.Println("tags:", string(b))
}
