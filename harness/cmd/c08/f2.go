package main

// F2 — every built-in function of __generator__/builtin.yml x boundary arguments.

import (
	"fmt"
	"os"
	"path/filepath"
	"sort"
	"strconv"
	"strings"

	"gopkg.in/yaml.v3"

	"verif/harness/fw"
)

type fnDef struct {
	On        []string   `yaml:"on"`
	Arguments [][]string `yaml:"arguments"`
	Return    string     `yaml:"return"`
}

func loadBuiltins(repo string) (map[string]fnDef, error) {
	fns := map[string]fnDef{}
	b, err := os.ReadFile(filepath.Join(repo, "__generator__", "builtin.yml"))
	if err != nil {
		return nil, err
	}
	if err := yaml.Unmarshal(b, &fns); err != nil {
		return nil, err
	}
	return fns, nil
}

// ---- benign base arguments (the argument knowledge of C05: identifiers, crypto material) ----------

const (
	hexKey   = `"000102030405060708090a0b0c0d0e0f"`
	hexBlock = `"00112233445566778899aabbccddeeff"`
	b64Block = `"ABEiM0RVZneImaq7zN3u/w=="`
	ecSig    = `"MEUCIQDJs-XsHz5PKpc6vw8OMP8Fd-NHGeglN74vNnBhHq7tnwIgYuVctW3XLnHGIZujLNyXexN35hVTS6P_tJ-lBCuwlkg"`
	rsaSig   = `"oMEu2vadYcPUmMGBuswPFvYVFta89xMKcFhncizc4vExgGFXw-kArpXcG1OgMmIer_qSHSpX7GlrISKj5E5QGXQIH9Xce4MHQsR4Tg9zsdrFkkLIv_JZ-3dvyrHuwg-dWBi-pP0dW1B4AjSGnFFaqXaP7XXA3bqV9pCcoYQnzNIzzDBb9Rn2tHKSU4-zPRmFZv2bF80kyp1wepugqs5DzK7zYFOAgRSv8jhkm9P22g4OeXwsOZx2aKSL1CRTaeHslYcqjnBAICyf365ZEkiV8lbXGVojskRlABGnIPO4JYT0xntjgnb9pXX_F8H1dqzFvA8wPc9KkqFqpBdcRiwbgw"`
	ecPEM    = "-----BEGIN PUBLIC KEY-----\nMFkwEwYHKoZIzj0CAQYIKoZIzj0DAQcDQgAEG6XHMuku8w/pMHTZHws4axDhsMVn\nZft8sZ87xBPqiT92NfMLnb5vwMHwCW2iZOuU8RM9FPsqwVmRjJY27yd+uw==\n-----END PUBLIC KEY-----\n"
	rsaPEM   = "-----BEGIN PUBLIC KEY-----\nMIIBIjANBgkqhkiG9w0BAQEFAAOCAQ8AMIIBCgKCAQEAqN8D/jsjeGHhQvrmo/1g\nBAFi2WKkFSyJsU+bnz2OhLTPyc+IJotpJ2XyKxo3QlhEZy4XFbG4hqSk7+NmSM7e\nHxNkK0DCvsrcbshkh+H79076Qkxy3ygxZ/vdZPu2pd90lMaDFFZ5UarxFdrlsOuy\ngBc/UIj0s2XdasJ/O/r8qf0EAco2O4smvP8a85EWQIKTuYE069dM4d3wojdJ64PK\nml00fv2RBzG37sBEOFqpQIlh6dAAFSyxiI4rV9n7e3eYpTaRGZ6nd9N3SHxGHzXL\nyGxresPQCduRgspEa0Y8KbX5D2VTZVwPGCfRWXixABzZuuqjbWQQbP6WAAqtscRf\n/QIDAQAB\n-----END PUBLIC KEY-----\n"
)

var fnBase = map[string][]string{
	"accept.media_lookup":                {`"text/plain:text/html"`, `"text/plain"`, `"image/*"`, `"text/html"`},
	"crypto.encrypt_hex":                 {"aes128", "cbc", "nopad", hexKey, hexKey, hexBlock},
	"crypto.decrypt_hex":                 {"aes128", "cbc", "nopad", hexKey, hexKey, hexBlock},
	"crypto.encrypt_base64":              {"aes128", "cbc", "nopad", hexKey, hexKey, b64Block},
	"crypto.decrypt_base64":              {"aes128", "cbc", "nopad", hexKey, hexKey, b64Block},
	"digest.rsa_verify":                  {"sha256", "var.rsapem", `"abc"`, rsaSig, "url_nopad"},
	"digest.ecdsa_verify":                {"sha256", "var.ecpem", `"abc"`, ecSig, "der", "url_nopad"},
	"digest.hash_sha1_from_base64":       {`"YWJj"`},
	"digest.hash_sha256_from_base64":     {`"YWJj"`},
	"digest.hash_sha512_from_base64":     {`"YWJj"`},
	"digest.hash_xxh32_from_base64":      {`"YWJj"`},
	"digest.hash_xxh64_from_base64":      {`"YWJj"`},
	"digest.hmac_sha256_with_base64_key": {`"YWJj"`, `"YWJj"`},
	"digest.time_hmac_md5":               {`"c2VjcmV0"`, "30", "1"},
	"digest.time_hmac_sha1":              {`"c2VjcmV0"`, "30", "1"},
	"digest.time_hmac_sha256":            {`"c2VjcmV0"`, "30", "1"},
	"digest.time_hmac_sha512":            {`"c2VjcmV0"`, "30", "1"},
	"setcookie.delete_by_name":           {"resp", `"abc"`},
	"setcookie.get_value_by_name":        {"resp", `"abc"`},
	"std.atof":                           {`"1.5"`},
	"std.atoi":                           {`"1"`},
	"std.ip":                             {`"192.0.2.1"`, `"192.0.2.2"`},
	"std.str2ip":                         {`"192.0.2.1"`, `"192.0.2.2"`},
	"std.anystr2ip":                      {`"192.0.2.1"`, `"192.0.2.2"`},
	"std.itoa":                           {"1", "10"},
	"std.strtof":                         {`"1.5"`, "10"},
	"std.strtol":                         {`"1"`, "10"},
	"std.count":                          {"req.headers"},
	"std.collect":                        {"req.http.X-Any", `","`},
	"subfield":                           {`"a=b"`, `"a"`, `";"`},
	"time.runits":                        {`"s"`, "10s"},
	"time.units":                         {`"s"`, "now"},
	"time.hex_to_time":                   {"1", `"5f5e100"`},
	"strftime":                           {`"%Y-%m-%d"`, "now"},
	"std.time":                           {`"Mon, 02 Jan 2006 15:04:05 GMT"`, "now"},
	"uuid.version3":                      {`"6ba7b810-9dad-11d1-80b4-00c04fd430c8"`, `"abc"`},
	"uuid.version5":                      {`"6ba7b810-9dad-11d1-80b4-00c04fd430c8"`, `"abc"`},
	"ratelimit.check_rate":               {`"abc"`, "rc1", "1", "10", "100", "pb1", "10m"},
	"ratelimit.check_rates":              {`"abc"`, "rc1", "1", "10", "100", "rc2", "1", "60", "100", "pb1", "10m"},
	"ratelimit.penaltybox_add":           {"pb1", `"abc"`, "10m"},
	"ratelimit.penaltybox_has":           {"pb1", `"abc"`},
	"ratelimit.ratecounter_increment":    {"rc1", `"abc"`, "1"},
	"table.lookup_acl":                   {"tbl_acl", `"abc"`, "acl1"},
	"table.lookup_backend":               {"tbl_backend", `"abc"`, "example"},
	"table.lookup_bool":                  {"tbl_bool", `"abc"`, "true"},
	"table.lookup_float":                 {"tbl_float", `"abc"`, "1.5"},
	"table.lookup_integer":               {"tbl_int", `"abc"`, "1"},
	"table.lookup_ip":                    {"tbl_ip", `"abc"`, "var.ip"},
	"table.lookup_rtime":                 {"tbl_rtime", `"abc"`, "10s"},
	"table.lookup_regex":                 {"tbl_regex", `"abc"`},
	"header.get":                         {"req", `"X-Any"`},
	"header.set":                         {"req", `"X-Any"`, `"v"`},
	"header.unset":                       {"req", `"X-Any"`},
	"header.filter":                      {"req", `"X-Any"`},
	"header.filter_except":               {"req", `"X-Any"`},
	"regsub":                             {`"abcabc"`, `"b(c)"`, `"[\1]"`},
	"regsuball":                          {`"abcabc"`, `"b(c)"`, `"[\1]"`},
	"resp.tarpit":                        {"0", "1"},
	"randomstr":                          {"8", `"abc"`},
	"std.strpad":                         {`"abc"`, "8", `"-"`},
	"utf8.strpad":                        {`"abc"`, "8", `"-"`},
	"std.strrep":                         {`"abc"`, "2"},
	"substr":                             {`"abcdef"`, "1", "2"},
	"utf8.substr":                        {`"abcdef"`, "1", "2"},
	"addr.extract_bits":                  {"var.ip", "0", "8"},
	"fastly.hash":                        {`"abc"`, "0", "0", "100"},
	"http_status_matches":                {"200", `"200,404"`},
	"std.itoa_charset":                   {"10", `"0123456789abcdef"`},
	"randomint":                          {"0", "10"},
	"randomint_seeded":                   {"0", "10", "1"},
	"randombool":                         {"1", "2"},
	"randombool_seeded":                  {"1", "2", "1"},
	"parse_time_delta":                   {`"1d"`},
	"accept.language_filter_basic":       {`"en:de"`, `"en"`, `"en-US,de;q=0.5"`, "2"},
}

func baseFor(t string) string {
	switch t {
	case "STRING", "STRING_LIST":
		return `"abc"`
	case "INTEGER":
		return "1"
	case "FLOAT":
		return "1.5"
	case "BOOL":
		return "true"
	case "RTIME":
		return "10s"
	case "TIME":
		return "now"
	case "IP":
		return "var.ip"
	case "BACKEND":
		return "example"
	case "ACL":
		return "acl1"
	case "TABLE":
		return "tbl"
	case "ID":
		return "req"
	}
	return `"abc"`
}

func baseArgs(name string, sig []string) []string {
	out := make([]string, len(sig))
	b := fnBase[name]
	for i, t := range sig {
		if i < len(b) {
			out[i] = b[i]
		} else {
			out[i] = baseFor(t)
		}
	}
	return out
}

// ---- boundary arguments per declared type ---------------------------------------------------------

// declarations an F2 program may refer to (never-assigned locals give the not-set values); only the
// ones the argument list mentions are emitted, so that a witness is already minimal
var f2Decls = [][2]string{
	{"var.ip6", "declare local var.ip6 IP;\nset var.ip6 = \"::\";"},
	{"var.ipmax", "declare local var.ipmax IP;\nset var.ipmax = \"255.255.255.255\";"},
	{"var.ipns", "declare local var.ipns IP;"},
	{"var.ip", "declare local var.ip IP;\nset var.ip = \"192.0.2.1\";"},
	{"var.sns", "declare local var.sns STRING;"},
	{"var.bns", "declare local var.bns BACKEND;"},
	{"var.tz", "declare local var.tz TIME;"},
	{"var.iovf", "declare local var.iovf INTEGER;\nset var.iovf = 9223372036854775807;\nset var.iovf += 1;"},
	{"var.rsapem", "declare local var.rsapem STRING;\nset var.rsapem = {\"" + rsaPEM + "\"};"},
	{"var.ecpem", "declare local var.ecpem STRING;\nset var.ecpem = {\"" + ecPEM + "\"};"},
}

func f2PreFor(text string) string {
	var out []string
	for _, d := range f2Decls {
		// var.ip is a prefix of var.ip6/var.ipmax/var.ipns: match on a non-identifier boundary
		idx := 0
		for {
			i := strings.Index(text[idx:], d[0])
			if i < 0 {
				break
			}
			end := idx + i + len(d[0])
			if end == len(text) || !(text[end] >= 'a' && text[end] <= 'z' || text[end] >= '0' && text[end] <= '9' || text[end] == '_') {
				out = append(out, d[1])
				break
			}
			idx = end
		}
	}
	if len(out) == 0 {
		return ""
	}
	return strings.Join(out, "\n") + "\n"
}

// "..." literals decode %xx / %uXXXX escapes at parse time (a malformed escape is a parse error), {"..."}
// literals are raw: raw percent signs reach the functions through the long form
var f2Strings = []string{
	`""`, "var.sns", "req.http.Not-Set", `"a"`, `"@LONG70K@"`, `"%25"`, `"%00"`, `"a%00b"`, `{"%"}`, `{"%zz"}`, `{"%00"}`, `{"%u00e9%uD800%u"}`, `"%u00e9"`, `{"%25%32%35"}`,
	`"("`, `"["`, `"*"`, `"(?"`, `"\"`, `"\1\2\9"`, `"a{100000}"`, `"(a+)+$"`, `"(((((((((((((((((((((((((((((((a)))))))))))))))))))))))))))))))"`, `"aaaaaaaaaaaaaaaaaaaaaaaaaaaaaaaaaaaaaa!"`,
	`"/path/../a.html?x=1&y=2&x=3#frag"`, `"?"`, `"&&==&"`, `"http://[::1"`, `"YWJj"`, `"YWJ"`, `"===="`, `"00ff"`, `"0"`, `"zz"`, `"1"`, `"-1"`, `"9223372036854775808"`,
	`"-9223372036854775809"`, `"1e400"`, `"0x"`, `"nan"`, `"inf"`, `"192.0.2.1"`, `"::"`, `"999.1.1.1"`, `"Mon, 02 Jan 2006 15:04:05 GMT"`, `"Mon, 99 Foo 99999 25:61:61 GMT"`,
	`{"%d%s%n%Y-%m-%d %"}`, `{"%E%O%+%999999d%"}`, `{"{"a":1}"}`, `"日本語😀"`, `":"`, `","`, `" "`, `"a=b; c=d"`, `"text/html;q=0.5, */*;q=0"`, `"q=;;,,"`,
	`"6ba7b810-9dad-11d1-80b4-00c04fd430c8"`, `"s"`, `"ms"`, `"@LONG8K@=@LONG8K@"`,
}

var f2Values = map[string][]string{
	"INTEGER": {"0", "1", "-1", "2147483648", "9223372036854775807", "-9223372036854775808", "64", "1000000", "2", "10", "36", "37", "var.iovf"},
	"FLOAT":   {"0.0", "-0.5", "1.5", "1e308", "-1e308", "math.POS_INFINITY", "math.NEG_INFINITY", "math.NAN", "5e-324", "1e19"},
	"RTIME":   {"0s", "-1s", "9223372036s", "1ms", "10s", "1.5s", "-9223372036s"},
	"TIME":    {"now", "std.integer2time(0)", "std.integer2time(-1)", "std.integer2time(9223372036854775807)", "std.integer2time(-9223372036854775808)", "std.integer2time(253402300799)", "var.tz"},
	"BOOL":    {"true", "false"},
	"IP":      {"var.ip", "var.ip6", "var.ipmax", "var.ipns", "client.ip", `"0.0.0.0"`},
	"BACKEND": {"example", "example2", "dir1", "var.bns", "req.backend"},
	"ACL":     {"acl1"},
	"TABLE":   {"tbl", "tbl_str", "tbl_int", "tbl_float", "tbl_bool", "tbl_ip", "tbl_rtime", "tbl_acl", "tbl_backend", "tbl_regex"},
}

var f2IDs = []string{"req", "bereq", "beresp", "resp", "obj", "rc1", "rc2", "pb1", "tbl", "acl1", "example", "req.headers", "resp.headers", "bereq.headers", "req.http.X-Any", "req.http.Not-Set", "resp.http.Set-Cookie",
	"aes128", "aes192", "aes256", "cbc", "ctr", "gcm", "ecb", "pkcs7", "nopad", "sha1", "sha256", "sha384", "sha512", "md5", "standard", "url", "url_nopad", "der", "jwt", "unknown_identifier"}

func valuesFor(t string) []string {
	switch t {
	case "STRING", "STRING_LIST":
		return f2Strings
	case "ID":
		return f2IDs
	}
	if v, ok := f2Values[t]; ok {
		return v
	}
	return []string{baseFor(t)}
}

func isBase(v string, t string) bool { return v == baseFor(t) }

// callStatement renders the call as an expression consumer (expr=true) or as a bare statement.
func callProgram(name string, d fnDef, args []string, expr bool) string {
	call := name + "(" + strings.Join(args, ", ") + ")"
	pre := f2PreFor(call)
	if !expr {
		return pre + call + ";"
	}
	switch d.Return {
	case "REGEX":
		return pre + "if (req.url ~ " + call + ") { log \"m\"; }"
	case "ACL":
		if !strings.Contains(pre, "var.ip IP") {
			pre += "declare local var.ip IP;\nset var.ip = \"192.0.2.1\";\n"
		}
		return pre + "if (var.ip ~ " + call + ") { log \"m\"; }"
	case "BOOL":
		return pre + "declare local var.x BOOL;\nset var.x = " + call + ";\nif (" + call + ") { log \"t\"; }"
	case "BACKEND":
		return pre + "declare local var.x BACKEND;\nset var.x = " + call + ";\nset req.backend = " + call + ";"
	default:
		return pre + "declare local var.x " + d.Return + ";\nset var.x = " + call + ";\nlog var.x;"
	}
}

const (
	bombSubject = `"aaaaaaaaaaaaaaaaaaaaaaaaaaaaaaaaaaaaaaaaaaaaaaaa!"`
	bombPattern = `"(a+)+$"`
)

// f2Extra: argument tuples that only bite in combination (a backtracking pattern needs its subject),
// always executed in addition to the systematic tuples
var f2Extra = map[string][][]string{
	"regsub":                        {{bombSubject, bombPattern, `"x"`}, {`"@LONG70K@"`, `"(a|aa)+$"`, `"x"`}, {`"abc"`, `"(b)"`, `"\1\1\1\1\1\1\1\1\1\1\0\0"`}, {`"abc"`, `""`, `"@LONG70K@"`}, {`"@LONG70K@"`, `"a"`, `"@LONG70K@"`}},
	"regsuball":                     {{bombSubject, bombPattern, `"x"`}, {`"@LONG70K@"`, `"(a|aa)+$"`, `"x"`}, {`"@LONG70K@"`, `""`, `"@LONG70K@"`}, {`"@LONG70K@"`, `"a"`, `"\0\0\0\0\0\0\0\0\0\0\0\0\0\0\0\0"`}, {`"@LONG70K@"`, `"a*?"`, `"@LONG8K@"`}},
	"querystring.regfilter":         {{`"/?aaaaaaaaaaaaaaaaaaaaaaaaaaaaaaaaaaaaaaaaaaaaaaaa!=1"`, bombPattern}},
	"querystring.regfilter_except":  {{`"/?aaaaaaaaaaaaaaaaaaaaaaaaaaaaaaaaaaaaaaaaaaaaaaaa!=1"`, bombPattern}},
	"querystring.globfilter":        {{`"/?aaaaaaaaaaaaaaaaaaaaaaaaaaaaaaaaaaaaaaaaaaaaaaaab=1"`, `"*a*a*a*a*a*a*a*a*a*a*a*a*a*a*a*a*c"`}},
	"querystring.globfilter_except": {{`"/?aaaaaaaaaaaaaaaaaaaaaaaaaaaaaaaaaaaaaaaaaaaaaaaab=1"`, `"*a*a*a*a*a*a*a*a*a*a*a*a*a*a*a*a*c"`}},
	"std.replaceall":                {{`"@LONG70K@"`, `"a"`, `"@LONG70K@"`}, {`"@LONG70K@"`, `""`, `"@LONG8K@"`}},
	"std.strpad":                    {{`"abc"`, "70000", `"@LONG70K@"`}, {`""`, "-70000", `"ab"`}},
	"utf8.strpad":                   {{`"abc"`, "70000", `"日本"`}, {`""`, "-70000", `"日"`}},
	"std.strrep":                    {{`"@LONG70K@"`, "1000"}},
	"substr":                        {{`"@LONG70K@"`, "-9223372036854775808", "-9223372036854775808"}, {`"abc"`, "9223372036854775807", "9223372036854775807"}, {`"abc"`, "-1", "9223372036854775807"}},
	"utf8.substr":                   {{`"日本語"`, "-9223372036854775808", "-9223372036854775808"}, {`"日本語"`, "9223372036854775807", "9223372036854775807"}, {`"日本語"`, "-1", "9223372036854775807"}},
}

// functions whose memory use is driven by their arguments (learnt from earlier runs: an endless append
// loop in std.itoa_charset with a one-character charset, repeat counts, pad widths): every call of these
// runs in a child process, so that a process-fatal call cannot take the other observations with it
var f2AlwaysIso = map[string]bool{"std.itoa_charset": true, "randomstr": true, "std.strpad": true, "utf8.strpad": true, "std.strrep": true, "std.replaceall": true, "std.replace": true, "regsuball": true}

func hugeTuple(a []string) bool {
	long, big := 0, false
	for _, v := range a {
		switch v {
		case "2147483648", "9223372036854775807", "var.iovf", "1000000":
			return true
		}
		if strings.Contains(v, "@LONG70K@") {
			long++
		}
		if n, err := strconv.ParseInt(v, 10, 64); err == nil && (n >= 1000 || n <= -1000) {
			big = true
		}
	}
	// two 70 KiB strings, or a 70 KiB string with a count: the product may not fit the memory limit either
	return long >= 2 || (long >= 1 && big)
}

func genF2(g *fw.GenCtx, emNormal, emHuge *emitter) (reps []Exec) {
	fns, err := loadBuiltins(g.Repo)
	if err != nil {
		panic(err)
	}
	names := make([]string, 0, len(fns))
	for n := range fns {
		names = append(names, n)
	}
	sort.Strings(names)
	r := g.Rand
	randomPerSig := g.Pick(24, 64)
	for _, name := range names {
		d := fns[name]
		sigs := d.Arguments
		if len(sigs) == 0 {
			sigs = [][]string{{}}
		}
		scopes := []string{"RECV"}
		on := map[string]bool{}
		for _, s := range d.On {
			on[s] = true
		}
		if !on["RECV"] {
			scopes = nil
			for _, s := range []string{"DELIVER", "FETCH", "HIT", "MISS", "PASS", "ERROR", "HASH", "LOG"} {
				if on[s] {
					scopes = []string{s}
					break
				}
			}
		}
		if !g.Quick() {
			scopes = nil
			for _, s := range []string{"RECV", "HASH", "HIT", "MISS", "PASS", "FETCH", "ERROR", "DELIVER", "LOG"} {
				if on[s] {
					scopes = append(scopes, s)
				}
			}
		}
		con := "fn:" + name
		for si, sig := range sigs {
			base := baseArgs(name, sig)
			seen := map[string]bool{}
			repKeys := map[string]bool{} // tuples also sent through the tester path (F8)
			var tuples [][]string
			push := func(a []string) {
				k := strings.Join(a, "\x00")
				if !seen[k] {
					seen[k] = true
					tuples = append(tuples, append([]string{}, a...))
				}
			}
			push(base)
			// variadic STRING_LIST: 0, 1, 2 and 40 list members
			variadic := len(sig) > 0 && sig[len(sig)-1] == "STRING_LIST"
			if len(sig) > 0 {
				// all-minimum, all-maximum, diagonals
				maxLen := 0
				for _, t := range sig {
					if n := len(valuesFor(t)); n > maxLen {
						maxLen = n
					}
				}
				for k := 0; k < maxLen; k++ {
					a := make([]string, len(sig))
					for i, t := range sig {
						vs := valuesFor(t)
						if t == "ID" || t == "TABLE" || t == "ACL" {
							a[i] = base[i] // identifiers stay valid on the diagonals (otherwise the linter rejects all of them)
							continue
						}
						if k < len(vs) {
							a[i] = vs[k]
						} else {
							a[i] = vs[len(vs)-1]
						}
					}
					push(a)
					if k < 3 || k == maxLen-1 {
						repKeys[strings.Join(a, "\x00")] = true
					}
				}
				// one boundary value at a time against the benign base
				for i, t := range sig {
					for _, v := range valuesFor(t) {
						a := append([]string{}, base...)
						a[i] = v
						push(a)
					}
				}
				// PRNG sample of the cross product
				for k := 0; k < randomPerSig; k++ {
					a := make([]string, len(sig))
					for i, t := range sig {
						vs := valuesFor(t)
						if (t == "ID" || t == "TABLE") && r.Intn(4) != 0 {
							a[i] = base[i]
							continue
						}
						a[i] = vs[r.Intn(len(vs))]
					}
					push(a)
				}
				for _, x := range f2Extra[name] {
					if len(x) == len(sig) {
						push(x)
					}
				}
				if variadic {
					head := base[:len(sig)-1]
					push(append([]string{}, head...))
					push(append(append([]string{}, head...), `"a"`, `"b"`))
					many := append([]string{}, head...)
					for k := 0; k < 40; k++ {
						many = append(many, fmt.Sprintf(`"H%d"`, k))
					}
					push(many)
					push(append(append([]string{}, head...), `""`, "var.sns", `"@LONG70K@"`, `":"`))
				}
			}
			// tuples carrying a huge count go last: should one of them exhaust the memory (process-fatal, the rest
			// of the case is lost) everything else of this signature has already been executed
			sort.SliceStable(tuples[1:], func(x, y int) bool { return !hugeTuple(tuples[1+x]) && hugeTuple(tuples[1+y]) })
			repTuple := map[int]bool{}
			for ti, a := range tuples {
				if repKeys[strings.Join(a, "\x00")] {
					repTuple[ti] = true
				}
			}
			for ti, a := range tuples {
				// a tuple with a huge count may exhaust the memory, which kills the worker and with it every
				// observation of its case: such tuples are executed in a child process of the worker
				em, iso := emNormal, false
				if hugeTuple(a) || f2AlwaysIso[name] {
					em, iso = emHuge, true
				}
				for sci, sc := range scopes {
					args := a
					if strings.HasPrefix(name, "setcookie.") && sc == "FETCH" && len(args) > 0 && args[0] == "resp" {
						args = append([]string{"beresp"}, args[1:]...)
					}
					bound := ti > 0
					if d.Return != "" {
						e := Exec{Fam: "F2", Con: con, Mode: "sub", Scope: sc, Body: callProgram(name, d, args, true), Lint: true, Bound: bound, Tag: con, Iso: iso}
						em.add(e)
						if sci == 0 && repTuple[ti] {
							reps = append(reps, e)
						}
					}
					// statement form: always for procedures; for functions only the first tuples (the linter decides)
					if d.Return == "" || ti < 3 {
						e := Exec{Fam: "F2", Con: con, Mode: "sub", Scope: sc, Body: callProgram(name, d, args, false), Lint: true, Bound: bound, Tag: con, Iso: iso}
						em.add(e)
						if d.Return == "" && sci == 0 && repTuple[ti] {
							reps = append(reps, e)
						}
					}
				}
			}
			_ = si
		}
		emNormal.mark()
	}
	// the match operators (not assignment operators, hence not in F1): subject x pattern, literal and dynamic pattern
	subjects := []string{`""`, "req.http.Not-Set", `"abc"`, bombSubject, `"@LONG70K@"`, `"a%00b"`, `"日本語"`}
	patterns := []string{`""`, `"abc"`, bombPattern, `"("`, `"(?"`, `"\"`, `"a{100000}"`, `"(a|aa)+$"`, `"^(([a-z])+.)+[A-Z]([a-z])+$"`, `"(?R)"`, `"^(a(?1)?)$"`, `"(((((((((((a)))))))))))"`, `"@LONG70K@"`, `"(?i)ABC"`, `"\\x{110000}"`, `"[[:alpha:]"`, `"a**"`, `"(?<n>a)(?<n>b)"`}
	for _, op := range []string{"~", "!~"} {
		for _, sj := range subjects {
			for _, pt := range patterns {
				body := "set req.http.S = " + sj + ";\nif (req.http.S " + op + " " + pt + ") { log re.group.0 re.group.1; }"
				emNormal.add(Exec{Fam: "F2", Con: "op:" + op + "/literal-pattern", Mode: "sub", Scope: "RECV", Body: body, Lint: true, Bound: true, Tag: "op:" + op})
				body = "set req.http.S = " + sj + ";\nset req.http.P = " + pt + ";\nif (req.http.S " + op + " req.http.P) { log re.group.0 re.group.1; }"
				emNormal.add(Exec{Fam: "F2", Con: "op:" + op + "/variable-pattern", Mode: "sub", Scope: "RECV", Body: body, Lint: true, Bound: true, Tag: "op:" + op})
			}
		}
		emNormal.mark()
	}
	for _, ip := range []string{"client.ip", "var.ipns", "var.ip6", `"192.0.2.1"`, `"not-an-ip"`, "req.http.Not-Set"} {
		body := f2PreFor(ip) + "if (" + ip + " ~ acl1) { log \"in\"; }\nif (" + ip + " !~ acl1) { log \"out\"; }"
		emNormal.add(Exec{Fam: "F2", Con: "op:~/acl", Mode: "sub", Scope: "RECV", Body: body, Lint: true, Bound: true, Tag: "op:~"})
	}
	emNormal.flush()
	emHuge.flush()
	return reps
}
