package main

// F4 — restart/error loops and lifecycle edges through ServeHTTP. Requirement: restarts <= 3 in the
// reply, the reply is the process JSON with 200 or 500+error, no panic, no step budget.

import (
	"fmt"
	"sort"
	"strings"

	"verif/harness/fw"
)

var lcScopes = []string{"recv", "hash", "hit", "miss", "pass", "fetch", "error", "deliver", "log"}
var lcActions = []string{"lookup", "pass", "hash", "error", "restart", "deliver", "fetch", "deliver_stale", "hit_for_pass"}

type lcForm struct {
	name string // key part
	stmt string
}

func lcForms() []lcForm {
	var out []lcForm
	for _, a := range lcActions {
		out = append(out, lcForm{"return(" + a + ")", "return(" + a + ");"})
	}
	out = append(out,
		lcForm{"restart", "restart;"},
		lcForm{"error", "error 601;"},
		lcForm{"error-bare", "error;"},
		lcForm{"error-0", "error 0;"},
		lcForm{"error-999-msg", `error 999 "x";`},
		lcForm{"error-2^31", "error 2147483648;"},
		lcForm{"error-200", "error 200;"},
		lcForm{"return-bare", "return;"},
		lcForm{"synthetic", `synthetic "x";`},
		lcForm{"synthetic.base64-invalid", `synthetic.base64 "!!!";`},
		lcForm{"esi", "esi;"},
	)
	return out
}

// renderLC builds a program with all nine lifecycle subroutines; acts maps scope -> statements.
func renderLC(acts map[string]string) string {
	var sb strings.Builder
	sb.WriteString("backend b { .host = \"@ORIGIN_HOST@\"; .port = \"@ORIGIN_PORT@\"; }\n")
	sb.WriteString(acts["_decl"])
	for _, s := range lcScopes {
		fmt.Fprintf(&sb, "sub vcl_%s {\n#FASTLY %s\n", s, strings.ToUpper(s))
		if s == "recv" {
			sb.WriteString("if (req.url ~ \"^/pass\") { return(pass); }\n")
		}
		if a := acts[s]; a != "" {
			sb.WriteString(a + "\n")
		}
		sb.WriteString("}\n")
	}
	return sb.String()
}

func lcReqs(branch string) []string {
	switch branch {
	case "hit":
		return []string{stdReq("/a"), stdReq("/a")}
	case "pass":
		return []string{stdReq("/pass/a")}
	case "three":
		return []string{stdReq("/a"), stdReq("/a"), stdReq("/b")}
	}
	return []string{stdReq("/a")}
}

func genF4(g *fw.GenCtx, em *emitter) {
	forms := lcForms()
	add := func(con string, acts map[string]string, branch string) {
		em.add(Exec{Fam: "F4", Con: con, Mode: "http", Main: renderLC(acts), Reqs: lcReqs(branch), Bound: true, Tag: "lc:" + con})
	}
	// every (scope, form) pair x entry branch; vcl_error is reached through `error 601` in vcl_recv
	for _, s := range lcScopes {
		for _, f := range forms {
			for _, br := range []string{"miss", "hit", "pass", "three"} {
				acts := map[string]string{s: f.stmt}
				if s == "error" {
					acts["recv"] = "error 601;"
				}
				add(fmt.Sprintf("%s/%s", s, f.name), acts, br)
			}
			em.mark()
		}
	}
	// restart loops with every guard
	for _, s := range []string{"recv", "hit", "miss", "pass", "fetch", "error", "deliver", "log", "hash"} {
		for _, f := range []lcForm{{"restart", "restart;"}, {"return(restart)", "return(restart);"}} {
			for _, gd := range []string{"<1", "<2", "<3", "<4", "<5", "==1", "==3", ">=0"} {
				for _, br := range []string{"miss", "hit"} {
					acts := map[string]string{s: fmt.Sprintf("if (req.restarts %s %s) { %s }", gd[:len(gd)-1], gd[len(gd)-1:], f.stmt)}
					if s == "error" {
						acts["recv"] = "error 601;"
					}
					add(fmt.Sprintf("%s/%s-loop", s, f.name), acts, br)
				}
			}
			em.mark()
		}
	}
	// error <-> restart alternations
	for _, src := range []string{"recv", "miss", "fetch", "hit", "pass"} {
		for _, f := range []string{"restart;", "return(restart);"} {
			add("error-restart-alternation/"+src, map[string]string{src: "error 601;", "error": f}, "hit")
			add("error-restart-alternation/"+src, map[string]string{src: "error 601;", "error": f, "deliver": "restart;"}, "miss")
		}
	}
	em.mark()
	// restart in a called subroutine and in a functional subroutine
	add("restart-in-called-sub", map[string]string{"_decl": "sub rs { restart; }\n", "recv": "call rs;"}, "miss")
	add("return(restart)-in-called-sub", map[string]string{"_decl": "sub rs { return(restart); }\n", "deliver": "call rs;"}, "miss")
	add("error-in-called-sub", map[string]string{"_decl": "sub rs { error 601; }\n", "log": "call rs;"}, "miss")
	add("restart-in-functional-sub", map[string]string{"_decl": "sub rs BOOL { restart; return true; }\n", "recv": "if (rs()) { log \"x\"; }"}, "miss")
	add("error-in-functional-sub", map[string]string{"_decl": "sub rs BOOL { error 601; return true; }\n", "recv": "if (rs()) { log \"x\"; }"}, "miss")
	em.mark()
	// origin responses without a body, with odd statuses and odd headers: fetched (miss, then hit), passed, and with a
	// deliver-time read of the body related variables; process document and actual response
	for _, pth := range []string{"/origin/empty", "/origin/204", "/origin/304", "/origin/599", "/origin/redirect", "/origin/headers", "/origin/big"} {
		for _, act := range []bool{false, true} {
			for _, recv := range []string{"", "return(pass);"} {
				acts := map[string]string{"recv": recv, "fetch": "log beresp.status \" \" beresp.http.Content-Length;", "deliver": "log resp.status \" \" resp.http.Content-Length \" \" resp.body_bytes_written \" \" std.strlen(resp.response);"}
				e := Exec{Fam: "F4", Con: "origin-response" + pth[len("/origin"):], Mode: "http", Main: renderLC(acts), Reqs: []string{stdReq(pth), stdReq(pth), stdReq(pth + "?2")}, Bound: true, Tag: "lc:origin-response", Act: act}
				if act {
					e.Con += "/actual-response"
				}
				em.add(e)
			}
		}
	}
	em.mark()
	// status codes and reason phrases at and beyond the edges, written to the object of the scope; served as the process
	// document and as the actual response (net/http refuses codes outside 100..999)
	for _, sv := range []string{"0", "1", "99", "100", "101", "199", "204", "304", "599", "600", "999", "1000", "65536", "2147483647", "2147483648", "9223372036854775807", "-1", "-200"} {
		for _, tg := range []struct{ scope, obj string }{{"fetch", "beresp"}, {"error", "obj"}, {"deliver", "resp"}, {"hit", "obj"}} {
			for _, act := range []bool{false, true} {
				acts := map[string]string{tg.scope: fmt.Sprintf("set %s.status = %s;\nset %s.response = \"R\";", tg.obj, sv, tg.obj)}
				if strings.HasPrefix(sv, "-") {
					acts[tg.scope] = fmt.Sprintf("declare local var.st INTEGER;\nset var.st = %s;\nset %s.status = var.st;", sv, tg.obj)
				}
				if tg.scope == "error" {
					acts["recv"] = "error 601;"
				}
				e := Exec{Fam: "F4", Con: fmt.Sprintf("status/%s.status", tg.obj), Mode: "http", Main: renderLC(acts), Reqs: lcReqs("hit"), Bound: true, Tag: "lc:status", Act: act}
				if act {
					e.Con += "/actual-response"
				}
				em.add(e)
			}
		}
	}
	em.mark()
	// every form inside a functional subroutine (directly, and nested in if / block / switch), called from every scope
	for _, s := range lcScopes {
		for _, f := range forms {
			for _, nest := range []struct{ name, open, close string }{
				{"direct", "", ""}, {"in-if", "if (req.url) {", "}"}, {"in-block", "{", "}"}, {"in-switch", "switch (\"a\") { case \"a\":", "break; }"}, {"in-else", "if (!req.url) { log \"n\"; } else {", "}"},
			} {
				for _, typ := range []string{"BOOL", "STRING"} {
					ret := "true"
					use := "if (fs()) { log \"x\"; }"
					if typ == "STRING" {
						ret, use = "\"v\"", "log \"r=\" fs();"
					}
					acts := map[string]string{"_decl": fmt.Sprintf("sub fs %s {\n%s %s %s\nreturn %s;\n}\n", typ, nest.open, f.stmt, nest.close, ret), s: use}
					if s == "error" {
						acts["recv"] = "error 601;"
					}
					add(fmt.Sprintf("functional-sub/%s/%s", s, f.name), acts, "hit")
				}
			}
		}
		em.mark()
	}
	// programs that declare only some of the lifecycle subroutines x request methods (a purge request takes
	// its own path around vcl_recv): none, each one alone, all but each one, and seed-chosen subsets
	{
		host := []string{"Host: example.com"}
		mreq := func(m, p string) string { return buildReq(m, p, "HTTP/1.1", host, "") }
		histories := [][]string{
			{mreq("GET", "/a"), mreq("FASTLYPURGE", "/a"), mreq("GET", "/a")},
			{mreq("FASTLYPURGE", "/a")},
			{mreq("PURGE", "/a"), mreq("HEAD", "/a"), mreq("POST", "/a")},
			{mreq("GET", "/pass/a"), mreq("FASTLYPURGE", "/pass/a"), mreq("FASTLYPURGE", "/service/x/purge/key")},
		}
		var sets []map[string]bool
		var names []string
		sets, names = append(sets, map[string]bool{}), append(names, "none")
		for _, s := range lcScopes {
			sets, names = append(sets, map[string]bool{s: true}), append(names, "only-"+s)
			ab := map[string]bool{}
			for _, t := range lcScopes {
				ab[t] = t != s
			}
			sets, names = append(sets, ab), append(names, "all-but-"+s)
		}
		for k := 0; k < g.Pick(12, 120); k++ {
			m := map[string]bool{}
			for _, s := range lcScopes {
				m[s] = g.Rand.Intn(2) == 0
			}
			sets, names = append(sets, m), append(names, "subset")
		}
		recvActs := []string{"", "return(pass);", "return(lookup);", "error 601;", "restart;"}
		for i, set := range sets {
			for _, ra := range recvActs {
				if ra != "" && !set["recv"] {
					continue
				}
				var sb strings.Builder
				sb.WriteString("backend b { .host = \"@ORIGIN_HOST@\"; .port = \"@ORIGIN_PORT@\"; }\n")
				for _, s := range lcScopes {
					if !set[s] {
						continue
					}
					fmt.Fprintf(&sb, "sub vcl_%s {\n#FASTLY %s\n", s, strings.ToUpper(s))
					if s == "recv" && ra != "" {
						sb.WriteString("if (req.restarts == 0) { " + ra + " }\n")
					}
					sb.WriteString("}\n")
				}
				for _, h := range histories {
					em.add(Exec{Fam: "F4", Con: "declared-subs/" + names[i], Mode: "http", Main: sb.String(), Reqs: h, Bound: true, Tag: "lc:declared-subs"})
				}
			}
		}
		em.mark()
	}
	// pairs of deviations (PRNG sample; key = the later scope's form)
	type dev struct{ s, name, stmt string }
	var devs []dev
	for _, s := range lcScopes {
		for _, f := range forms {
			devs = append(devs, dev{s, f.name, f.stmt})
		}
	}
	r := g.Rand
	for k := 0; k < g.Pick(1500, 40000); k++ {
		n := 2 + r.Intn(2)
		acts := map[string]string{}
		var names []string
		var alts []Alt
		for j := 0; j < n; j++ {
			d := devs[r.Intn(len(devs))]
			st := d.stmt
			switch r.Intn(3) {
			case 0:
				st = fmt.Sprintf("if (req.restarts == %d) { %s }", r.Intn(3), st)
			case 1:
				st = fmt.Sprintf("if (req.restarts < %d) { %s }", 1+r.Intn(4), st)
			}
			if _, dup := acts[d.s]; dup {
				continue
			}
			names = append(names, d.s+"/"+d.name)
			acts[d.s] = st
			single := map[string]string{d.s: st}
			if d.s == "error" {
				single["recv"] = "error 601;"
			}
			alts = append(alts, Alt{Con: d.s + "/" + d.name, Main: renderLC(single)})
		}
		sort.Strings(names)
		br := []string{"miss", "hit", "pass", "three"}[r.Intn(4)]
		con := "combo:" + strings.Join(names, "+")
		em.add(Exec{Fam: "F4", Con: con, Mode: "http", Main: renderLC(acts), Reqs: lcReqs(br), Bound: true, Tag: "lc:combo", Alts: alts})
	}
	em.flush()
}
