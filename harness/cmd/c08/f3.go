package main

// F3 — recursion and call depth. Requirement: a reported error ("max call stack"-like, "too many sub
// calls") or normal completion — never a Go stack overflow, never the step budget.

import (
	"fmt"
	"strings"

	"verif/harness/fw"
)

type f3prog struct {
	con   string
	decls string // helper subroutines (main VCL)
	body  string // statements of the driven subroutine / of vcl_recv
}

func chain(n int, functional bool) (decls string) {
	var sb strings.Builder
	for i := 1; i <= n; i++ {
		if functional {
			if i == n {
				fmt.Fprintf(&sb, "sub c%d INTEGER { return %d; }\n", i, i)
			} else {
				fmt.Fprintf(&sb, "sub c%d INTEGER { declare local var.i INTEGER; set var.i = c%d(); return var.i; }\n", i, i+1)
			}
		} else {
			if i == n {
				fmt.Fprintf(&sb, "sub c%d { log \"leaf\"; }\n", i)
			} else {
				fmt.Fprintf(&sb, "sub c%d { call c%d; }\n", i, i+1)
			}
		}
	}
	return sb.String()
}

// fanout: every level calls the next one twice: 2^depth executions without any recursion
func fanout(depth int, functional bool) string {
	var sb strings.Builder
	for i := 1; i <= depth; i++ {
		if functional {
			if i == depth {
				fmt.Fprintf(&sb, "sub w%d INTEGER { return 1; }\n", i)
			} else {
				fmt.Fprintf(&sb, "sub w%d INTEGER { declare local var.i INTEGER; set var.i = w%d(); set var.i += w%d(); return var.i; }\n", i, i+1, i+1)
			}
		} else {
			if i == depth {
				fmt.Fprintf(&sb, "sub w%d { log \"leaf\"; }\n", i)
			} else {
				fmt.Fprintf(&sb, "sub w%d { call w%d; call w%d; }\n", i, i+1, i+1)
			}
		}
	}
	return sb.String()
}

func f3Programs() []f3prog {
	ps := []f3prog{
		{"recursion:self", "sub r { call r; }\n", "call r;"},
		{"recursion:mutual", "sub a { call b; }\nsub b { call a; }\n", "call a;"},
		{"recursion:mutual3", "sub a { call b; }\nsub b { call c; }\nsub c { call a; }\n", "call a;"},
		{"recursion:functional-self", "sub f INTEGER { declare local var.i INTEGER; set var.i = f(); return var.i; }\n", "declare local var.i INTEGER;\nset var.i = f();"},
		{"recursion:functional-return-expr", "sub f STRING { return f(); }\n", "declare local var.s STRING;\nset var.s = f();"},
		{"recursion:functional-mutual", "sub f INTEGER { declare local var.i INTEGER; set var.i = g(); return var.i; }\nsub g INTEGER { declare local var.i INTEGER; set var.i = f(); return var.i; }\n", "declare local var.i INTEGER;\nset var.i = f();"},
		{"recursion:functional-in-condition", "sub f BOOL { if (f()) { return true; } return false; }\n", "if (f()) { log \"x\"; }"},
		{"recursion:functional-in-argument", "sub f STRING { declare local var.s STRING; set var.s = std.toupper(f()); return var.s; }\n", "log f();"},
		{"recursion:functional-in-if-expression", "sub f STRING { declare local var.s STRING; set var.s = if(req.http.X, f(), f()); return var.s; }\n", "log f();"},
		{"recursion:call-to-functional-mixed", "sub f INTEGER { call p; return 1; }\nsub p { declare local var.i INTEGER; set var.i = f(); }\n", "call p;"},
		{"recursion:if-arm", "sub r { if (req.http.X) { call r; } else { call r; } }\n", "call r;"},
		{"recursion:else-if-arm", "sub r { if (req.http.Nope) { log \"a\"; } else if (req.http.X) { call r; } else { call r; } }\n", "call r;"},
		{"recursion:nested-block", "sub r { { { call r; } } }\n", "call r;"},
		{"recursion:switch-case", "sub r { switch (req.http.X) { case \"abc\": call r; break; default: call r; break; } }\n", "call r;"},
		{"recursion:with-locals", "sub r { declare local var.s STRING; set var.s = req.url + var.s; set req.http.D = req.http.D \"x\"; call r; }\n", "call r;"},
		{"recursion:two-calls", "sub r { call r; call r; }\n", "call r;"},
		{"recursion:with-parameters", "sub f(INTEGER var.n) INTEGER { declare local var.m INTEGER; set var.m = var.n; set var.m += 1; return f(var.m); }\n", "declare local var.i INTEGER;\nset var.i = f(0);"},
		{"recursion:parameter-count-mismatch", "sub f(INTEGER var.n) INTEGER { return f(); }\n", "declare local var.i INTEGER;\nset var.i = f(0);"},
	}
	for _, n := range []int{50, 99, 100, 101, 1000} {
		ps = append(ps, f3prog{fmt.Sprintf("chain:call/%d", n), chain(n, false), "call c1;"})
		ps = append(ps, f3prog{fmt.Sprintf("chain:functional/%d", n), chain(n, true), "declare local var.i INTEGER;\nset var.i = c1();"})
	}
	ps = append(ps,
		f3prog{"calltree:call-fanout/14", fanout(14, false), "call w1;"},
		f3prog{"calltree:call-fanout/40", fanout(40, false), "call w1;"},
		f3prog{"calltree:call-fanout/70", fanout(70, false), "call w1;"},
		f3prog{"calltree:functional-fanout/12", fanout(12, true), "declare local var.i INTEGER;\nset var.i = w1();"},
		f3prog{"calltree:functional-fanout/40", fanout(40, true), "declare local var.i INTEGER;\nset var.i = w1();"},
	)
	var out []f3prog
	for _, p := range ps {
		if p.body != "" {
			out = append(out, p)
		}
	}
	return out
}

func genF3(g *fw.GenCtx, em *emitter) (reps []Exec) {
	for _, p := range f3Programs() {
		// (a) driven like `falco test`: helper subroutines in the main VCL, body as the test subroutine
		e := Exec{Fam: "F3", Con: p.con, Mode: "sub", Scope: "RECV", Main: "backend example { .host = \"127.0.0.1\"; .port = \"1\"; }\n" + p.decls + mainTail, Body: p.body, Bound: true, Tag: p.con, Iso: true}
		em.add(e)
		// (b) through ServeHTTP: the body is vcl_recv
		h := Exec{Fam: "F3", Con: p.con, Mode: "http", Main: "backend example { .host = \"@ORIGIN_HOST@\"; .port = \"@ORIGIN_PORT@\"; }\n" + p.decls + "sub vcl_recv {\n#FASTLY RECV\n" + p.body + "\nreturn(pass);\n}\n",
			Reqs: []string{stdReq("/a"), stdReq("/b")}, Bound: true, Tag: p.con, Iso: true}
		em.add(h)
		if !strings.HasPrefix(p.con, "calltree:functional-fanout/40") {
			// the 2^40 fan-out never ends: the tester has no step budget, so that one stays out of F8
			reps = append(reps, e)
		}
	}
	// recursion of a lifecycle subroutine itself
	em.add(Exec{Fam: "F3", Con: "recursion:vcl_recv-calls-itself/http", Mode: "http", Main: "backend example { .host = \"@ORIGIN_HOST@\"; .port = \"@ORIGIN_PORT@\"; }\nsub vcl_recv {\n#FASTLY RECV\ncall vcl_recv;\n}\n", Reqs: []string{stdReq("/a")}, Bound: true, Tag: "recursion:vcl_recv", Iso: true})
	em.add(Exec{Fam: "F3", Con: "recursion:vcl_deliver-calls-vcl_recv/http", Mode: "http", Main: "backend example { .host = \"@ORIGIN_HOST@\"; .port = \"@ORIGIN_PORT@\"; }\nsub vcl_recv {\n#FASTLY RECV\nreturn(pass);\n}\nsub vcl_deliver {\n#FASTLY DELIVER\ncall vcl_recv;\ncall vcl_deliver;\n}\n", Reqs: []string{stdReq("/a")}, Bound: true, Tag: "recursion:vcl_deliver", Iso: true})
	em.flush()
	return reps
}

func stdReq(path string) string {
	return "GET " + path + " HTTP/1.1\r\nHost: example.com\r\nUser-Agent: c08\r\n\r\n"
}
