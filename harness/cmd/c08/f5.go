package main

// F5 — declarations with boundary values: directors, backends (+probes), tables, ACLs, rate counters
// and penalty boxes, each used by a request through ServeHTTP.

import (
	"fmt"
	"sort"
	"strings"

	"verif/harness/fw"
)

const (
	f5Good   = "backend b1 { .host = \"@ORIGIN_HOST@\"; .port = \"@ORIGIN_PORT@\"; }\n"
	f5Closed = "backend b2 { .host = \"127.0.0.1\"; .port = \"1\"; }\n"
	f5Good3  = "backend b3 { .host = \"@ORIGIN_HOST@\"; .port = \"@ORIGIN_PORT@\"; }\n"
)

// dirSpec describes one director declaration.
type dirSpec struct {
	typ     string
	quorum  string // "" = absent
	retries string
	key     string
	seed    string
	vnodes  string
	weights []string // one per member ("" = no .weight)
	ids     bool     // members carry .id
	members []string // backend names
	extra   string   // extra raw property
}

func (d dirSpec) render() string {
	var sb strings.Builder
	fmt.Fprintf(&sb, "director d %s {\n", d.typ)
	if d.quorum != "" {
		fmt.Fprintf(&sb, "  .quorum = %s;\n", d.quorum)
	}
	if d.retries != "" {
		fmt.Fprintf(&sb, "  .retries = %s;\n", d.retries)
	}
	if d.key != "" {
		fmt.Fprintf(&sb, "  .key = %s;\n", d.key)
	}
	if d.seed != "" {
		fmt.Fprintf(&sb, "  .seed = %s;\n", d.seed)
	}
	if d.vnodes != "" {
		fmt.Fprintf(&sb, "  .vnodes_per_node = %s;\n", d.vnodes)
	}
	if d.extra != "" {
		sb.WriteString("  " + d.extra + "\n")
	}
	for i, m := range d.members {
		sb.WriteString("  { .backend = " + m + ";")
		if i < len(d.weights) && d.weights[i] != "" {
			sb.WriteString(" .weight = " + d.weights[i] + ";")
		}
		if d.ids {
			fmt.Fprintf(&sb, " .id = \"%s\";", m)
		}
		sb.WriteString(" }\n")
	}
	sb.WriteString("}\n")
	return sb.String()
}

func baseDir(typ string) dirSpec {
	d := dirSpec{typ: typ, members: []string{"b1", "b2"}}
	switch typ {
	case "random", "hash", "client":
		d.weights = []string{"1", "1"}
	case "chash":
		d.ids = true
	}
	return d
}

func dirProgram(d dirSpec, ret string) string {
	return f5Good + f5Closed + f5Good3 + d.render() + "sub vcl_recv {\n#FASTLY RECV\nset req.backend = d;\nreturn(" + ret + ");\n}\n"
}

var dirTypes = []string{"random", "fallback", "hash", "client", "chash", "shield"}

type dirVar struct {
	axis string
	mod  func(d *dirSpec)
}

func dirVariants(typ string) []dirVar {
	var out []dirVar
	for _, q := range []string{"0%", "1%", "50%", "100%", "101%", "2147483648%", "50"} {
		q := q
		out = append(out, dirVar{".quorum", func(d *dirSpec) { d.quorum = q }})
	}
	for _, r := range []string{"0", "1", "1000", "2147483647", "-1", "9223372036854775807"} {
		r := r
		out = append(out, dirVar{".retries", func(d *dirSpec) { d.retries = r }})
	}
	for _, w := range []string{"0", "1", "1000", "1001", "2147483648", "-1", "999", "9223372036854775807"} {
		w := w
		out = append(out, dirVar{".weight", func(d *dirSpec) { d.weights = []string{w, "1"} }})
		out = append(out, dirVar{".weight", func(d *dirSpec) { d.weights = []string{w, w} }})
	}
	out = append(out,
		dirVar{"members", func(d *dirSpec) { d.members = nil }},
		dirVar{"members", func(d *dirSpec) { d.members = []string{"b1"}; d.weights = d.weights[:min(1, len(d.weights))] }},
		dirVar{"members", func(d *dirSpec) { d.members = []string{"b2"}; d.weights = d.weights[:min(1, len(d.weights))] }},
		dirVar{"members", func(d *dirSpec) { d.members = []string{"b2", "b2"} }},
		dirVar{"members", func(d *dirSpec) { d.members = []string{"b1", "b1"} }},
		dirVar{"members", func(d *dirSpec) {
			d.members = []string{"b1", "b2", "b3", "b1"}
			if len(d.weights) > 0 {
				d.weights = []string{"1", "1", "1", "1"}
			}
		}},
		dirVar{"members", func(d *dirSpec) { d.members = []string{"nosuch", "b1"} }},
		dirVar{"members", func(d *dirSpec) { d.members = []string{"d", "b1"} }},
		dirVar{"members", func(d *dirSpec) { d.ids = !d.ids }},
		dirVar{"members", func(d *dirSpec) { d.weights = nil }},
	)
	for _, k := range []string{"object", "client", "other"} {
		k := k
		out = append(out, dirVar{".key", func(d *dirSpec) { d.key = k }})
	}
	for _, s := range []string{"0", "4294967295", "4294967296", "-1", "9223372036854775807"} {
		s := s
		out = append(out, dirVar{".seed", func(d *dirSpec) { d.seed = s }})
	}
	for _, v := range []string{"0", "1", "8388608", "8388609", "-1"} {
		v := v
		out = append(out, dirVar{".vnodes_per_node", func(d *dirSpec) { d.vnodes = v }})
	}
	out = append(out,
		dirVar{"unknown-property", func(d *dirSpec) { d.extra = ".nosuch = 1;" }},
		dirVar{"shield-property", func(d *dirSpec) { d.extra = ".shield = \"lax-ca-us\";" }},
		dirVar{".quorum-non-literal", func(d *dirSpec) { d.extra = ".quorum = \"50\";" }},
	)
	return out
}

func min(a, b int) int {
	if a < b {
		return a
	}
	return b
}

func f5Remote(req, remote string) string {
	return strings.Replace(req, "\r\n\r\n", "\r\nX-C08-Remote: "+remote+"\r\n\r\n", 1)
}

func genF5(g *fw.GenCtx, em *emitter) {
	r := g.Rand
	add := func(con, main string, reqs []string, slow bool) {
		em.add(Exec{Fam: "F5", Con: con, Mode: "http", Main: main, Reqs: reqs, Bound: true, Tag: con, Slow: slow})
	}
	two := []string{stdReq("/a"), stdReq("/b?x=1")}
	// ---- directors: base, one axis at a time, PRNG combinations ---------------------------------
	// Every director program is localised against the plain idiom `set req.backend = <director>;` with an
	// unremarkable director: a violation that the idiom alone shows is keyed once, under the idiom.
	idiom := func(ret string) Alt {
		return Alt{Con: "director:set-req.backend", Main: dirProgram(baseDir("random"), ret)}
	}
	addDir := func(con string, d dirSpec, ret string, slow bool, alts ...Alt) {
		as := append([]Alt{idiom(ret), {Con: "director:" + d.typ + "/base", Main: dirProgram(baseDir(d.typ), ret)}}, alts...)
		em.add(Exec{Fam: "F5", Con: con, Mode: "http", Main: dirProgram(d, ret), Reqs: two, Bound: true, Tag: con, Slow: slow, Alts: as})
	}
	for _, typ := range dirTypes {
		for _, ret := range []string{"pass", "lookup"} {
			addDir("director:"+typ+"/base", baseDir(typ), ret, false)
		}
		vars := dirVariants(typ)
		for _, v := range vars {
			d := baseDir(typ)
			v.mod(&d)
			addDir("director:"+typ+"/"+v.axis, d, "pass", false)
		}
		em.mark()
		for k := 0; k < g.Pick(60, 1500); k++ {
			d := baseDir(typ)
			axes := map[string]bool{}
			var alts []Alt
			for j := 0; j < 2+r.Intn(2); j++ {
				v := vars[r.Intn(len(vars))]
				v.mod(&d)
				if !axes[v.axis] {
					s := baseDir(typ)
					v.mod(&s)
					alts = append(alts, Alt{Con: "director:" + typ + "/" + v.axis, Main: dirProgram(s, "pass")})
				}
				axes[v.axis] = true
			}
			// an unreachable quorum makes the random director sleep 10 ms per retry: with a large .retries that
			// is a (legitimately) slow run, kept out of the sample; it has its own recorded case below
			if q := d.quorum; (q == "101%" || q == "2147483648%") && d.retries != "" && d.retries != "0" && d.retries != "1" && d.retries != "-1" {
				d.retries = "1"
			}
			if len(d.members) > 0 && allClosed(d.members) && d.retries != "" && d.retries != "0" && d.retries != "1" && d.retries != "-1" {
				d.retries = "1"
			}
			names := make([]string, 0, len(axes))
			for a := range axes {
				names = append(names, a)
			}
			sort.Strings(names)
			addDir("director:"+typ+"/combo:"+strings.Join(names, "+"), d, []string{"pass", "lookup"}[r.Intn(2)], false, alts...)
		}
		em.mark()
	}
	em.flush()
	// the legitimately slow case: quorum never reached, 1000 retries x 10 ms (wall time recorded as a tag)
	{
		d := baseDir("random")
		d.quorum, d.retries = "101%", "1000"
		addDir("director:random/.quorum=101%+.retries=1000(slow)", d, "pass", true)
		em.flush()
		// the simulator bounds the retries of a director that can never choose a backend (10): 100000 or 2^31-1
		// declared retries x 10 ms must not be slept through; without the bound only the framework watchdog ends these
		for _, rt := range []string{"100000", "2147483647"} {
			d.retries = rt
			addDir("director:random/.quorum=101%+.retries=huge", d, "pass", true)
			em.flush()
		}
	}
	// ---- backends ---------------------------------------------------------------------------------
	type bv struct{ con, props string }
	var bvs []bv
	for _, p := range []string{"connect_timeout", "first_byte_timeout", "between_bytes_timeout", "fetch_timeout"} {
		for _, v := range []string{"0s", "-1s", "9223372036s", "1ms", "1.5s", "1", "\"1s\""} {
			bvs = append(bvs, bv{"backend:." + p, fmt.Sprintf(".host = \"@ORIGIN_HOST@\"; .port = \"@ORIGIN_PORT@\"; .%s = %s;", p, v)})
		}
	}
	for _, v := range []string{"0", "-1", "1", "2147483648", "9223372036854775807", "\"1\""} {
		bvs = append(bvs, bv{"backend:.max_connections", fmt.Sprintf(".host = \"@ORIGIN_HOST@\"; .port = \"@ORIGIN_PORT@\"; .max_connections = %s;", v)})
	}
	for _, v := range []string{`"0"`, `"65535"`, `"65536"`, `"-1"`, `"abc"`, `""`, `"99999999999999999999"`, `"1 1"`, "80", `"@LONG8K@"`} {
		bvs = append(bvs, bv{"backend:.port", fmt.Sprintf(".host = \"127.0.0.1\"; .port = %s;", v)})
	}
	for _, v := range []string{`""`, `"0.0.0.0"`, `"[::1]"`, `"::1"`, `"127.0.0.1:1"`, `"localhost"`, `"@LONG8K@"`, `"a b"`, `"%00"`, `"/"`, `"http://127.0.0.1"`, "1", "true"} {
		bvs = append(bvs, bv{"backend:.host", fmt.Sprintf(".host = %s; .port = \"1\";", v)})
	}
	bvs = append(bvs,
		bv{"backend:no-host", ".port = \"1\";"},
		bv{"backend:empty", ""},
		bv{"backend:.ssl", ".host = \"127.0.0.1\"; .port = \"1\"; .ssl = true;"},
		bv{"backend:.ssl", ".host = \"@ORIGIN_HOST@\"; .port = \"@ORIGIN_PORT@\"; .ssl = true; .ssl_check_cert = never;"},
		bv{"backend:.ssl", ".host = \"127.0.0.1\"; .port = \"1\"; .ssl = \"yes\";"},
		bv{"backend:.ssl", ".host = \"@ORIGIN_HOST@\"; .port = \"@ORIGIN_PORT@\"; .ssl = true; .ssl_sni_hostname = \"\"; .ssl_cert_hostname = \"@LONG8K@\"; .min_tls_version = \"9.9\"; .max_tls_version = \"0\";"},
		bv{"backend:.dynamic", ".host = \"@ORIGIN_HOST@\"; .port = \"@ORIGIN_PORT@\"; .dynamic = true; .host_header = \"\";"},
		bv{"backend:.dynamic", ".host = \"@ORIGIN_HOST@\"; .port = \"@ORIGIN_PORT@\"; .dynamic = true; .host_header = \"@LONG8K@\";"},
		bv{"backend:.dynamic", ".host = \"@ORIGIN_HOST@\"; .port = \"@ORIGIN_PORT@\"; .dynamic = 1; .host_header = 1;"},
		bv{"backend:.always_use_host_header", ".host = \"@ORIGIN_HOST@\"; .port = \"@ORIGIN_PORT@\"; .always_use_host_header = true;"},
		bv{"backend:.always_use_host_header", ".host = \"@ORIGIN_HOST@\"; .port = \"@ORIGIN_PORT@\"; .always_use_host_header = \"x\";"},
		bv{"backend:.share_key", ".host = \"@ORIGIN_HOST@\"; .port = \"@ORIGIN_PORT@\"; .share_key = \"\";"},
		bv{"backend:unknown-property", ".host = \"@ORIGIN_HOST@\"; .port = \"@ORIGIN_PORT@\"; .nosuch = 1;"},
		bv{"backend:duplicate-property", ".host = \"@ORIGIN_HOST@\"; .host = \"127.0.0.1\"; .port = \"@ORIGIN_PORT@\"; .port = \"1\";"},
		bv{"backend:.host-is-variable", ".host = req.http.Host; .port = \"1\";"},
		bv{"backend:.host-is-function", ".host = std.tolower(\"A\"); .port = \"1\";"},
	)
	probe := func(body string) string {
		return ".host = \"@ORIGIN_HOST@\"; .port = \"@ORIGIN_PORT@\"; .probe = { " + body + " }"
	}
	for _, p := range []string{
		`.request = "GET / HTTP/1.1" "Host: a" "Connection: close"; .threshold = 1; .window = 2; .timeout = 1s; .interval = 10s; .initial = 1; .expected_response = 200;`,
		`.request = ""; .threshold = 0; .window = 0; .timeout = 0s; .interval = 0s; .initial = 0; .expected_response = 0;`,
		`.request = "@LONG8K@"; .threshold = 2147483648; .window = 2147483648; .timeout = 9223372036s; .interval = 9223372036s; .initial = 2147483648; .expected_response = 999;`,
		`.threshold = -1; .window = -1; .timeout = -1s; .interval = -1s; .initial = -1; .expected_response = -1;`,
		`.threshold = 5; .window = 1; .initial = 9;`,
		`.dummy = true;`,
		`.url = "/"; .nosuch = 1;`,
		`.request = 1; .threshold = "1"; .timeout = 1; .interval = "1s";`,
		``,
	} {
		bvs = append(bvs, bv{"backend:.probe", probe(p)})
	}
	for _, b := range bvs {
		main := "backend bx {\n  " + strings.ReplaceAll(b.props, "; .", ";\n  .") + "\n}\nsub vcl_recv {\n#FASTLY RECV\nset req.backend = bx;\nreturn(pass);\n}\n"
		add(b.con, main, two, false)
		// the same backend as the default (first declared) one, looked up through the cache path
		add(b.con, "backend bx {\n  "+strings.ReplaceAll(b.props, "; .", ";\n  .")+"\n}\nsub vcl_recv {\n#FASTLY RECV\nreturn(lookup);\n}\n", []string{stdReq("/a")}, false)
	}
	em.mark()
	// resource limits: more backends/ACLs than allowed
	{
		var sb strings.Builder
		for i := 0; i < 7; i++ {
			fmt.Fprintf(&sb, "backend m%d { .host = \"127.0.0.1\"; .port = \"1\"; }\n", i)
		}
		add("backend:count>5", sb.String()+"sub vcl_recv {\n#FASTLY RECV\nreturn(pass);\n}\n", two, false)
		sb.Reset()
		sb.WriteString(f5Good)
		for i := 0; i < 1002; i++ {
			fmt.Fprintf(&sb, "acl a%d { \"192.0.2.1\"; }\n", i)
		}
		add("acl:count>1000", sb.String()+"sub vcl_recv {\n#FASTLY RECV\nreturn(pass);\n}\n", two, false)
		add("backend:duplicate-name", f5Good+f5Good+"sub vcl_recv {\n#FASTLY RECV\nreturn(pass);\n}\n", two, false)
		add("backend:none-declared", "sub vcl_recv {\n#FASTLY RECV\nreturn(pass);\n}\n", two, false)
		add("backend:none-declared", "sub vcl_recv {\n#FASTLY RECV\nreturn(lookup);\n}\n", two, false)
		add("backend:req.backend-notset-local", f5Good+"sub vcl_recv {\n#FASTLY RECV\ndeclare local var.b BACKEND;\nset req.backend = var.b;\nreturn(pass);\n}\n", two, false)
	}
	em.mark()
	// ---- tables --------------------------------------------------------------------------------------
	type tv struct{ con, decl, use string }
	lookup := func(fn, t, def string) string {
		if def != "" {
			def = ", " + def
		}
		var sb strings.Builder
		for _, k := range []string{`"k"`, `"missing"`, `""`, "req.http.Not-Set", "req.url", `"@LONG70K@"`} {
			fmt.Fprintf(&sb, "log %s(%s, %s%s);\n", fn, t, k, def)
		}
		fmt.Fprintf(&sb, "if (table.contains(%s, req.http.K)) { log \"c\"; }\n", t)
		return sb.String()
	}
	tvs := []tv{
		{"table:STRING/empty", "table t { }\n", lookup("table.lookup", "t", `"d"`) + lookup("table.lookup", "t", "")},
		{"table:STRING/boundary-values", "table t STRING { \"k\": \"\", \"\": \"e\", \"@LONG8K@\": \"@LONG70K@\", \"dup\": \"1\", \"dup\": \"2\", \"k%00x\": \"n\", }\n", lookup("table.lookup", "t", `"d"`) + lookup("table.lookup", "t", "req.http.Not-Set")},
		{"table:INTEGER/negative-values", "table t INTEGER { \"k\": -1, \"m\": -9223372036854775808, }\n", lookup("table.lookup_integer", "t", "0")},
		{"table:FLOAT/negative-values", "table t FLOAT { \"k\": -0.5, \"m\": -1e308, }\n", lookup("table.lookup_float", "t", "0.0")},
		{"table:RTIME/negative-values", "table t RTIME { \"k\": -1s, }\n", lookup("table.lookup_rtime", "t", "0s")},
		{"table:INTEGER/boundary-values", "table t INTEGER { \"k\": 9223372036854775807, \"m\": 2147483648, \"z\": 0, }\n", lookup("table.lookup_integer", "t", "0") + lookup("table.lookup_integer", "t", "-9223372036854775808")},
		{"table:INTEGER/empty", "table t INTEGER { }\n", lookup("table.lookup_integer", "t", "1")},
		{"table:FLOAT/boundary-values", "table t FLOAT { \"k\": 1e308, \"z\": 5e-324, \"i\": 1, }\n", lookup("table.lookup_float", "t", "0.0") + lookup("table.lookup_float", "t", "math.NAN")},
		{"table:FLOAT/empty", "table t FLOAT { }\n", lookup("table.lookup_float", "t", "1.5")},
		{"table:BOOL/boundary-values", "table t BOOL { \"k\": true, \"m\": false, }\n", "if (table.lookup_bool(t, \"k\", false)) { log \"t\"; }\nif (table.lookup_bool(t, req.http.Not-Set, true)) { log \"t\"; }\n"},
		{"table:BOOL/empty", "table t BOOL { }\n", "if (table.lookup_bool(t, \"k\", false)) { log \"t\"; }\n"},
		{"table:RTIME/boundary-values", "table t RTIME { \"k\": 9223372036s, \"z\": 0s, \"f\": 1.5s, }\n", lookup("table.lookup_rtime", "t", "0s") + lookup("table.lookup_rtime", "t", "9223372036s")},
		{"table:RTIME/empty", "table t RTIME { }\n", lookup("table.lookup_rtime", "t", "1s")},
		{"table:IP/boundary-values", "table t IP { \"k\": \"::\", \"m\": \"255.255.255.255\", \"z\": \"0.0.0.0\", \"bad\": \"999.1.1.1\", \"e\": \"\", }\n", "declare local var.ip IP;\n" + lookup("table.lookup_ip", "t", "var.ip") + "log table.lookup_ip(t, \"bad\", var.ip);\nlog table.lookup_ip(t, \"e\", client.ip);\n"},
		{"table:IP/empty", "table t IP { }\n", "declare local var.ip IP;\n" + lookup("table.lookup_ip", "t", "var.ip")},
		{"table:ACL/boundary-values", "acl a1 { \"192.0.2.0\"/24; }\ntable t ACL { \"k\": a1, \"m\": nosuch, }\n", "if (client.ip ~ table.lookup_acl(t, \"k\", a1)) { log \"m\"; }\nif (client.ip ~ table.lookup_acl(t, \"m\", a1)) { log \"m\"; }\nif (client.ip ~ table.lookup_acl(t, \"zz\", a1)) { log \"m\"; }\n"},
		{"table:ACL/empty", "acl a1 { \"192.0.2.0\"/24; }\ntable t ACL { }\n", "if (client.ip ~ table.lookup_acl(t, \"k\", a1)) { log \"m\"; }\n"},
		{"table:BACKEND/boundary-values", "table t BACKEND { \"k\": b1, \"m\": nosuch, }\n", "set req.backend = table.lookup_backend(t, \"k\", b1);\nset req.backend = table.lookup_backend(t, \"m\", b1);\nset req.backend = table.lookup_backend(t, \"zz\", b1);\n"},
		{"table:BACKEND/empty", "table t BACKEND { }\n", "set req.backend = table.lookup_backend(t, \"k\", b1);\n"},
		{"table:REGEX/boundary-values", "table t REGEX { \"k\": \"(\", \"m\": \"(a+)+$\", \"z\": \"\", \"c\": \"a{100000}\", }\n", "if (req.url ~ table.lookup_regex(t, \"k\")) { log \"m\"; }\nif (\"aaaaaaaaaaaaaaaaaaaaaaaaaaaaaaaaaaa!\" ~ table.lookup_regex(t, \"m\")) { log \"m\"; }\nif (req.url ~ table.lookup_regex(t, \"z\")) { log \"m\"; }\nif (req.url ~ table.lookup_regex(t, \"c\")) { log \"m\"; }\nif (req.url ~ table.lookup_regex(t, \"missing\")) { log \"m\"; }\n"},
		{"table:REGEX/empty", "table t REGEX { }\n", "if (req.url ~ table.lookup_regex(t, \"k\")) { log \"m\"; }\n"},
		{"table:type-mismatch", "table t INTEGER { \"k\": 1, }\ntable s STRING { \"k\": \"v\", }\n", "log table.lookup(t, \"k\");\nlog table.lookup_integer(s, \"k\", 1);\nlog table.lookup_float(t, \"k\", 1.0);\n"},
		{"table:value-type-mismatch", "table t INTEGER { \"k\": \"v\", \"m\": 1.5, \"z\": true, }\n", "log table.lookup_integer(t, \"k\", 1);\nlog table.lookup_integer(t, \"m\", 1);\nlog table.lookup_integer(t, \"z\", 1);\n"},
		{"table:unknown-type", "table t NOSUCH { \"k\": 1, }\n", "log table.lookup(t, \"k\");\n"},
		{"table:duplicate-name", "table t { }\ntable t { }\n", "log table.lookup(t, \"k\");\n"},
		{"table:undeclared", "", "log table.lookup(nosuch, \"k\");\n"},
	}
	{
		var sb strings.Builder
		sb.WriteString("table t {\n")
		for i := 0; i < 1500; i++ {
			fmt.Fprintf(&sb, "  \"k%d\": \"v%d\",\n", i, i)
		}
		sb.WriteString("}\n")
		tvs = append(tvs, tv{"table:STRING/1500-entries", sb.String(), lookup("table.lookup", "t", `"d"`) + "log table.lookup(t, \"k1499\");\n"})
	}
	for _, t := range tvs {
		main := f5Good + t.decl + "sub vcl_recv {\n#FASTLY RECV\n" + t.use + "return(pass);\n}\n"
		add(t.con, main, []string{"GET /a HTTP/1.1\r\nHost: example.com\r\nK: k\r\n\r\n", "GET /b HTTP/1.1\r\nHost: example.com\r\n\r\n"}, false)
	}
	em.mark()
	// ---- ACLs ----------------------------------------------------------------------------------------
	aclEntries := []struct{ name, entry string }{
		{"/0", `"0.0.0.0"/0;`}, {"/32", `"192.0.2.1"/32;`}, {"/33", `"192.0.2.1"/33;`}, {"/24", `"192.0.2.0"/24;`},
		{"v6/0", `"::"/0;`}, {"v6/128", `"::1"/128;`}, {"v6/129", `"::1"/129;`}, {"/-1", `"192.0.2.1"/-1;`},
		{"/2147483648", `"192.0.2.1"/2147483648;`}, {"negated", `!"192.0.2.1";`}, {"negated/0", `!"0.0.0.0"/0;`},
		{"v4-mapped", `"::ffff:192.0.2.1";`}, {"v4-mapped/128", `"::ffff:192.0.2.1"/128;`}, {"v4-mapped/120", `"::ffff:192.0.2.0"/120;`}, {"v4-mapped/24", `"::ffff:192.0.2.0"/24;`},
		{"invalid-ip", `"999.1.1.1";`}, {"not-an-ip", `"not-an-ip";`}, {"empty-string", `"";`}, {"hostname", `"localhost";`},
		{"empty-acl", ``}, {"zone", `"fe80::1%25eth0";`}, {"v6-brackets", `"[::1]";`}, {"v4-with-port", `"192.0.2.1:80";`},
		{"many", strings.Repeat(`"192.0.2.1"/32; !"192.0.2.2"; "::"/1; `, 200)},
	}
	aclUse := "declare local var.ipns IP;\ndeclare local var.ip6 IP;\nset var.ip6 = \"::ffff:192.0.2.1\";\n" +
		"if (client.ip ~ a) { log \"c\"; }\nif (client.ip !~ a) { log \"nc\"; }\nif (var.ipns ~ a) { log \"ns\"; }\nif (var.ip6 ~ a) { log \"m\"; }\nif (req.http.Fastly-Client-IP ~ a) { log \"h\"; }\nif (req.http.Not-Set ~ a) { log \"n\"; }\nif (\"not-an-ip\" ~ a) { log \"s\"; }\nif (server.ip ~ a) { log \"s\"; }\n"
	aclReqs := []string{
		f5Remote(stdReq("/a"), "192.0.2.1:1234"),
		f5Remote("GET /a HTTP/1.1\r\nHost: example.com\r\nFastly-Client-IP: ::ffff:192.0.2.1\r\n\r\n", "[::1]:1234"),
		f5Remote("GET /a HTTP/1.1\r\nHost: example.com\r\nFastly-Client-IP: garbage\r\n\r\n", "[::ffff:192.0.2.1]:1234"),
	}
	for _, a := range aclEntries {
		main := f5Good + "acl a {\n  " + a.entry + "\n}\nsub vcl_recv {\n#FASTLY RECV\n" + aclUse + "return(pass);\n}\n"
		add("acl:"+a.name, main, aclReqs, false)
	}
	add("acl:remote-addr-forms", f5Good+"acl a { \"192.0.2.0\"/24; }\nsub vcl_recv {\n#FASTLY RECV\n"+aclUse+"return(pass);\n}\n",
		[]string{f5Remote(stdReq("/a"), "192.0.2.1"), f5Remote(stdReq("/a"), "garbage"), f5Remote(stdReq("/a"), "@")}, false)
	add("acl:remote-addr-forms", f5Good+"acl a { \"192.0.2.0\"/24; }\nsub vcl_recv {\n#FASTLY RECV\n"+aclUse+"return(pass);\n}\n",
		[]string{f5Remote(stdReq("/a"), ":1"), f5Remote(stdReq("/a"), "[fe80::1%25lo]:1"), f5Remote(stdReq("/a"), "999.999.999.999:99999")}, false)
	em.mark()
	// ---- rate counters / penalty boxes over 3 requests ----------------------------------------------
	deltas := []string{"0", "1", "-1", "2147483648", "9223372036854775807", "-9223372036854775808"}
	ttls := []string{"0s", "-1s", "1ms", "1m", "1h", "61m", "9223372036s"}
	rcUse := func(delta, ttl, win, limit string) string {
		return "declare local var.n INTEGER;\nset var.n = ratelimit.ratecounter_increment(rc, req.http.K, " + delta + ");\nlog var.n;\n" +
			"log ratecounter.rc.bucket.10s;\nlog ratecounter.rc.bucket.60s;\nlog ratecounter.rc.rate.1s;\nlog ratecounter.rc.rate.10s;\nlog ratecounter.rc.rate.60s;\n" +
			"ratelimit.penaltybox_add(pb, req.http.K, " + ttl + ");\nif (ratelimit.penaltybox_has(pb, req.http.K)) { log \"in\"; }\n" +
			"if (ratelimit.check_rate(req.http.K, rc, " + delta + ", " + win + ", " + limit + ", pb, " + ttl + ")) { log \"limited\"; }\n" +
			"if (ratelimit.check_rates(req.http.K, rc, " + delta + ", " + win + ", " + limit + ", rc2, " + delta + ", 60, " + limit + ", pb, " + ttl + ")) { log \"limited\"; }\n"
	}
	rcReqs := []string{"GET /a HTTP/1.1\r\nHost: example.com\r\nK: k\r\n\r\n", "GET /a HTTP/1.1\r\nHost: example.com\r\nK: k\r\n\r\n", "GET /a HTTP/1.1\r\nHost: example.com\r\n\r\n"}
	rcMain := func(use string) string {
		return f5Good + "ratecounter rc { }\nratecounter rc2 { }\npenaltybox pb { }\nsub vcl_recv {\n#FASTLY RECV\n" + use + "return(pass);\n}\n"
	}
	for _, d := range deltas {
		add("ratecounter:delta", rcMain(rcUse(d, "1m", "10", "100")), rcReqs, false)
	}
	for _, t := range ttls {
		add("penaltybox:ttl", rcMain(rcUse("1", t, "10", "100")), rcReqs, false)
	}
	for _, w := range []string{"0", "1", "10", "60", "61", "-1", "2147483648"} {
		add("ratecounter:window", rcMain(rcUse("1", "1m", w, "100")), rcReqs, false)
	}
	for _, l := range []string{"0", "1", "9", "10", "-1", "2147483648", "9223372036854775807"} {
		add("ratecounter:limit", rcMain(rcUse("1", "1m", "10", l)), rcReqs, false)
	}
	add("ratecounter:undeclared", f5Good+"sub vcl_recv {\n#FASTLY RECV\ndeclare local var.n INTEGER;\nset var.n = ratelimit.ratecounter_increment(nosuch, \"k\", 1);\nreturn(pass);\n}\n", rcReqs, false)
	add("ratecounter:duplicate-name", f5Good+"ratecounter rc { }\nratecounter rc { }\npenaltybox pb { }\npenaltybox pb { }\nsub vcl_recv {\n#FASTLY RECV\nreturn(pass);\n}\n", rcReqs, false)
	add("ratecounter:variables-of-undeclared", f5Good+"sub vcl_recv {\n#FASTLY RECV\nlog ratecounter.nosuch.bucket.10s;\nreturn(pass);\n}\n", rcReqs, false)
	em.flush()
}

func allClosed(ms []string) bool {
	for _, m := range ms {
		if m != "b2" {
			return false
		}
	}
	return true
}
