package main

import (
	"encoding/json"
	"fmt"
	"os"
	"path/filepath"
	"regexp"
	"sort"
	"strings"
	"time"

	"verif/harness/fw"
)

func run(c fw.Case) fw.Outcome {
	var oc fw.Outcome
	var b batch
	if err := json.Unmarshal(c.Data, &b); err != nil {
		oc.Inconc = append(oc.Inconc, "bad case: "+err.Error())
		return oc
	}
	for i := range b.Execs {
		runExec(&oc, &b.Execs[i], false)
	}
	if oc.Sample == nil && len(b.Execs) > 0 {
		e := b.Execs[len(b.Execs)/2]
		oc.Sample = map[string]any{"family": e.Fam, "construct": e.Con, "mode": e.Mode, "main": clip(e.Main, 600), "body": clip(e.Body, 600), "requests": e.Reqs}
	}
	return oc
}

func reached(class string) bool {
	switch class {
	case "lint-rejected", "parse-error", "harness-error", "request-rejected":
		return false
	}
	return true
}

// finding is one violated requirement of one execution; the finding key is prefix + construct.
type finding struct {
	prefix string
	what   string
}

// observe performs one execution and returns its observation class and the violated requirements.
func observe(oc *fw.Outcome, e *Exec, count bool) (o obs, fs []finding, program string, extra map[string]any) {
	fam := e.Fam
	extra = map[string]any{}
	switch e.Mode {
	case "sub":
		o, program = runSub(e)
	case "http":
		var ho httpObs
		ho, program = runHTTP(e)
		o = ho.obs
		extra["replies"] = ho.replies
		if count {
			for _, r := range ho.replies {
				oc.Tag(fam + "/reply:" + r)
			}
			oc.TagN(fam+"/requests", int64(len(ho.replies)))
		}
		// vcl_recv entries are only a restart count where the program never calls vcl_recv itself (F4)
		if ho.restarts > 3 || (fam == "F4" && ho.recvs > 4) {
			fs = append(fs, finding{"restarts:", fmt.Sprintf("restarts=%d, vcl_recv entered %d times in one request (bound: 3 restarts)", ho.restarts, ho.recvs)})
		}
		if ho.bad != "" {
			fs = append(fs, finding{"reply:" + ho.bad + "/", "ServeHTTP returned neither a 200 JSON document nor a reported error: " + ho.badWhat})
		}
	case "tester":
		var to testerObs
		to, program = runTester(e)
		o = to.obs
		extra["test_cases"], extra["test_errors"] = to.cases, to.errs
		if to.class == "ok" && to.cases == 0 {
			o.class = "tester-no-case"
		}
	default:
		o.class, o.msg = "harness-error", "unknown mode "+e.Mode
	}
	switch o.class {
	case "panic":
		// a panic inside the implementation of one built-in function is keyed by that function whatever
		// family reached it (F2 directly, F7 with request data, F8 through the tester): one key per root cause
		if fn := builtinOfFrame(fw.TopFalcoFrame(o.stack)); fn != "" && e.Fam != "F2" {
			e.Con = "fn:" + fn
		}
		pk := fw.PanicKey(o.stack)
		if strings.HasPrefix(o.stack, "recovered by tester.Run") {
			pk = "panic:recovered-by-tester"
		}
		fs = append(fs, finding{pk + "/", fmt.Sprintf("%s panicked: %s\nprogram:\n%s\n%s", modeName(e.Mode), o.msg, clip(program, 1500), topFrames(o.stack, 8))})
	case "steps":
		fs = append(fs, finding{"steps:", fmt.Sprintf("%s executed more than %d statements for one request\nprogram:\n%s", modeName(e.Mode), stepBudget, clip(program, 1500))})
	case "tester-timeout":
		fs = append(fs, finding{"hang:tester-timeout/", "the tester gave up after its own timeout (the test goroutine keeps running)\nprogram:\n" + clip(program, 1500)})
	}
	return
}

// runExec performs one execution and turns the observation into tags / violations.
func runExec(oc *fw.Outcome, e *Exec, verbose bool) {
	if e.Iso && os.Getenv("C08_CHILD") == "" && !verbose {
		runIsolated(oc, e)
		return
	}
	fam := e.Fam
	t0 := time.Now()
	o, fs, program, extra := observe(oc, e, true)
	wall := time.Since(t0)
	oc.Tag(fam + "/" + o.class)
	if reached(o.class) {
		// an execution = a program that reached the interpreter / test runner (a lint-rejected or
		// unparseable candidate is not a member of the family: counted in its tag only)
		oc.Evals++
		oc.Tag("fam/" + fam)
		if e.Tag != "" {
			oc.Tag("x:" + e.Tag)
		}
	} else {
		oc.Tag("candidates-not-executed/" + fam)
	}
	if wall > time.Second {
		// information only (never a verdict): executions that took more than a second
		oc.Tag("slow>1s:" + e.Con)
	}
	if reached(o.class) && e.Bound {
		oc.NonTrivialS(e.Mode + "|" + e.Scope + "|" + program)
	}
	for _, f := range fs {
		con, what := e.Con, f.what
		d := detail(e, program, o, extra)
		// localisation: a combination is re-run with each of its parts alone; when a part alone shows the
		// same violation the finding belongs to that part's construct
		for i := range e.Alts {
			alt := *e
			alt.Alts, alt.Main, alt.Con = nil, e.Alts[i].Main, e.Alts[i].Con
			_, fs2, p2, _ := observe(oc, &alt, false)
			hit := false
			for _, f2 := range fs2 {
				if f2.prefix == f.prefix {
					hit, what = true, f2.what
				}
			}
			if hit {
				con = alt.Con
				d["localised_from"] = e.Con
				d["program"] = clip(p2, 6000)
				break
			}
		}
		oc.Violate(f.prefix+con, what, d)
	}
	switch o.class {
	case "harness-error":
		oc.Inconc = append(oc.Inconc, "harness: "+e.Con+": "+o.msg)
	case "parse-error":
		if os.Getenv("C08_TRACE") != "" {
			fmt.Fprintf(os.Stderr, "TRACE parse-error %s: %s\n%s\n", e.Con, o.msg, clip(program, 400))
		}
	}
	if verbose {
		fmt.Printf("class=%s\nmsg=%s\n", o.class, o.msg)
		if o.stack != "" {
			fmt.Println(topFrames(o.stack, 12))
		}
		b, _ := json.Marshal(extra)
		fmt.Println("extra:", string(b))
	}
	if os.Getenv("C08_TRACE") == "2" && (o.class == "lint-rejected") {
		fmt.Fprintf(os.Stderr, "TRACE lint-rejected %s: %s\n", e.Con, o.msg)
	}
	if os.Getenv("C08_TRACE") == "3" && (o.class == "runtime-error" || o.class == "init-error" || o.class == "test-error" || o.class == "tester-error") {
		fmt.Fprintf(os.Stderr, "TRACE %s %s: %s\n", o.class, e.Con, o.msg)
	}
}

func modeName(m string) string {
	switch m {
	case "http":
		return "Interpreter.ServeHTTP"
	case "tester":
		return "tester.Run"
	}
	return "ProcessTestSubroutine"
}

func detail(e *Exec, program string, o obs, extra map[string]any) map[string]any {
	d := map[string]any{"family": e.Fam, "construct": e.Con, "mode": e.Mode, "scope": e.Scope, "program": clip(program, 6000), "message": o.msg}
	if o.stack != "" {
		d["stack"] = fw.TrimStack(o.stack)
	}
	for k, v := range extra {
		d[k] = v
	}
	for k, v := range o.detail {
		d[k] = v
	}
	return d
}

var frameRe = regexp.MustCompile(`^\S+\(.*\)$|^\S+\.\S+\(`)

// topFrames returns the first n function lines (with file:line) of a Go stack below the panic machinery.
func topFrames(st string, n int) string {
	lines := strings.Split(st, "\n")
	var out []string
	started := false
	for i := 0; i < len(lines)-1 && len(out) < n; i++ {
		l := lines[i]
		if strings.HasPrefix(l, "panic(") {
			started = true
			out = out[:0]
			i++
			continue
		}
		if strings.HasPrefix(l, "goroutine ") || strings.HasPrefix(l, "\t") || l == "" {
			continue
		}
		if !started && (strings.HasPrefix(l, "runtime/debug.Stack") || strings.HasPrefix(l, "verif/harness/fw.Guard")) {
			continue
		}
		if started && (strings.HasPrefix(l, "verif/harness/") || strings.HasPrefix(l, "main.")) {
			break // below this line the stack is the harness
		}
		loc := strings.TrimSpace(lines[i+1])
		if j := strings.Index(loc, " +0x"); j > 0 {
			loc = loc[:j]
		}
		fn := l
		if j := strings.LastIndex(fn, "("); j > 0 {
			fn = fn[:j]
		}
		out = append(out, "  at "+strings.TrimPrefix(fn, "github.com/ysugimoto/falco/v2/")+" ("+strings.TrimPrefix(loc, "/repo/")+")")
	}
	return strings.Join(out, "\n")
}

var builtinByGoName map[string]string

// builtinOfFrame maps "interpreter/function/builtin.Std_strpad" to "std.strpad" using the names of
// __generator__/builtin.yml ("" when the frame is not the implementation of a built-in function).
func builtinOfFrame(frame string) string {
	const pfx = "interpreter/function/builtin."
	if !strings.HasPrefix(frame, pfx) {
		return ""
	}
	if builtinByGoName == nil {
		builtinByGoName = map[string]string{}
		if fns, err := loadBuiltins(fw.Repo); err == nil {
			for n := range fns {
				builtinByGoName[strings.ToLower(strings.ReplaceAll(n, ".", "_"))] = n
			}
		}
	}
	g := strings.ToLower(strings.TrimPrefix(frame, pfx))
	if i := strings.IndexAny(g, ".("); i > 0 {
		g = g[:i]
	}
	return builtinByGoName[g]
}

// ---- process-fatal attribution --------------------------------------------------------------------

var markerRe = regexp.MustCompile(`(?m)^C08-EXEC (\S+) (.*)$`)

func crashKey(c fw.Case, kind, stderr string) string {
	// position of the crash report
	pos := len(stderr)
	for _, needle := range []string{"fatal error: ", "\npanic: ", "SIGQUIT: quit", "runtime: goroutine stack exceeds"} {
		if i := strings.Index(stderr, needle); i >= 0 && i < pos {
			pos = i
		}
	}
	con := "?"
	if ms := markerRe.FindAllStringSubmatch(stderr[:pos], -1); len(ms) > 0 {
		con = ms[len(ms)-1][2]
	}
	rest := stderr[pos:]
	frame := fw.TopFalcoFrame(rest)
	if frame == "" {
		frame = "?"
	}
	overflow := strings.Contains(rest, "stack overflow") || strings.Contains(rest, "goroutine stack exceeds")
	if overflow {
		// the frame on top when the limit was hit is arbitrary: name the recursing function instead
		// (the falco function that occurs most often in the dump; ties: the one nearest to the top)
		if f := recursingFrame(rest); f != "" {
			frame = f
		}
	}
	switch {
	case kind == "hung":
		return "hang:" + con
	case overflow:
		return "fatal:stack overflow in " + frame + "/" + con
	case strings.Contains(rest, "out of memory") || strings.Contains(rest, "cannot allocate memory"):
		// the frame whose allocation happened to fail is arbitrary: the key names the construct only
		return "fatal:out of memory/" + con
	case strings.HasPrefix(rest, "fatal error: "):
		msg := firstLine(rest[len("fatal error: "):])
		return "fatal:" + msg + " in " + frame + "/" + con
	case strings.Contains(rest, "panic: "):
		if fn := builtinOfFrame(frame); fn != "" {
			con = "fn:" + fn
		}
		return "panic:" + frame + "/" + con
	}
	return "died:unknown/" + con
}

func recursingFrame(dump string) string {
	count := map[string]int{}
	var order []string
	for _, line := range strings.Split(dump, "\n") {
		if strings.HasPrefix(line, "goroutine ") && len(order) > 0 {
			break // only the overflowing goroutine (printed first)
		}
		line = strings.TrimSpace(line)
		if !strings.HasPrefix(line, "github.com/ysugimoto/falco/v2/interpreter") && !strings.HasPrefix(line, "github.com/ysugimoto/falco/v2/tester") {
			continue
		}
		if i := strings.LastIndex(line, "("); i > 0 {
			line = line[:i]
		}
		line = strings.TrimPrefix(line, "github.com/ysugimoto/falco/v2/")
		if count[line] == 0 {
			order = append(order, line)
		}
		count[line]++
	}
	max := 0
	for _, f := range order {
		if count[f] > max {
			max = count[f]
		}
	}
	if max < 3 {
		return ""
	}
	// the members of a recursion cycle occur equally often (give or take the truncation of the dump):
	// of those, the alphabetically first is the canonical name
	best := ""
	for _, f := range order {
		if count[f]*5 >= max*4 && (best == "" || f < best) {
			best = f
		}
	}
	return best
}

// ---- finish: complete list of keys, per-family counters ------------------------------------------------

func finish(r *fw.Report) {
	fams := map[string]map[string]int64{}
	fns, pairs := 0, 0
	slow := []string{}
	for k, n := range r.Tags {
		switch {
		case strings.HasPrefix(k, "fam/"):
			f := strings.TrimPrefix(k, "fam/")
			if fams[f] == nil {
				fams[f] = map[string]int64{}
			}
			fams[f]["executions"] = n
		case len(k) > 3 && k[0] == 'F' && k[2] == '/':
			f := k[:2]
			if fams[f] == nil {
				fams[f] = map[string]int64{}
			}
			fams[f][k[3:]] = n
		case strings.HasPrefix(k, "x:fn:"):
			fns++
		case strings.HasPrefix(k, "x:op:"):
			pairs++
		case strings.HasPrefix(k, "slow>1s:"):
			slow = append(slow, k[8:])
		}
	}
	sort.Strings(slow)
	r.Extra["families"] = fams
	r.Extra["builtin_functions_executed"] = fns
	r.Extra["operator_type_pairs_executed"] = pairs
	r.Extra["executions_slower_than_1s(info)"] = slow
	type row struct {
		Key    string `json:"key"`
		Count  int    `json:"count"`
		What   string `json:"what"`
		Detail any    `json:"detail,omitempty"`
	}
	keys := make([]string, 0, len(r.Viols))
	for k := range r.Viols {
		keys = append(keys, k)
	}
	sort.Strings(keys)
	rows := make([]row, 0, len(keys))
	for _, k := range keys {
		v := r.Viols[k]
		rows = append(rows, row{k, v.Count, v.What, v.Detail})
	}
	r.Extra["violation_keys_total"] = len(keys)
	b, _ := json.MarshalIndent(rows, "", " ")
	os.MkdirAll(filepath.Join(fw.Verif, ".build", "tmp"), 0o755)
	// private tester directories of workers that died mid-execution
	if left, _ := filepath.Glob(filepath.Join(fw.Verif, ".build", "tmp", "c08-tester-*")); len(left) > 0 {
		for _, d := range left {
			os.RemoveAll(d)
		}
	}
	os.WriteFile(filepath.Join(fw.Verif, ".build", "tmp", fmt.Sprintf("C08-violations-%s-seed%d.json", r.Tier, r.Seed)), b, 0o644)
}
